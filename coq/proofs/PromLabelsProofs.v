(* C17: the labels request of labelsGetter (PromSel.labels_fetch = getFetchRequest) under the reference interpreter =
   the list reading fetch_rows the Select theorems use.  The fingerprints of the IN list are spliced decimal numerals:
   the interpreter reads them back through lib/DecN.v (the decimal printer is injective). *)
From Coq Require Import List ZArith NArith String Ascii Bool Lia.
From Qryn Require Import lib.Strs lib.DecN lib.CivilDate model.Sql model.SqlRender model.Logql model.LogqlPlan model.PromSelect
  model.PromSel model.PromSem model.PromCase proofs.PromSelProofs proofs.ProfAbsProofs.
Import ListNotations.
Open Scope string_scope.
Open Scope list_scope.

Section LABELS.
  Variable re_match : string -> string -> bool.
  Notation ev := (ev re_match no_cte).

  Lemma ev_raws rho fps :
    all_some (map (ev rho) (map (fun fp => Raw (string_of_N fp)) fps)) = Some (map (fun fp => VI (Z.of_N fp)) fps).
  Proof.
    induction fps as [|fp fps IH]; [reflexivity|]. cbn [map all_some PromSem.ev].
    rewrite Z_of_dec_string_of_N. cbn [omap]. rewrite IH. reflexivity.
  Qed.

  Lemma ev_in_raws r fps :
    ev (ts_row_env r) (In (Id "fingerprint") (map (fun fp => Raw (string_of_N fp)) fps)) =
    Some (b2v (existsb (N.eqb (t_fp r)) fps)).
  Proof.
    assert (Hgen : match all_some (map (ev (ts_row_env r)) (map (fun fp => Raw (string_of_N fp)) fps)) with
                   | Some vs => omap (fun bs => b2v (existsb (fun b => b) bs)) (all_some (map (val_eqb (VI (Z.of_N (t_fp r)))) vs))
                   | None => None end = Some (b2v (existsb (N.eqb (t_fp r)) fps))).
    { rewrite ev_raws. rewrite map_map. cbn [val_eqb].
      rewrite (all_some_map_Some (fun fp => Z.eqb (Z.of_N (t_fp r)) (Z.of_N fp))). cbn [omap]. do 2 f_equal.
      induction fps as [|fp fps IH]; [reflexivity|]. cbn [map existsb]. rewrite IH. f_equal.
      destruct (N.eqb_spec (t_fp r) fp) as [E|E]; [subst; apply Z.eqb_refl|]. apply Z.eqb_neq. intros H. apply E. now apply N2Z.inj. }
    assert (Hevl : forall l, (fix evl (l : list expr) : list (option val) :=
                               match l with [] => [] | x :: r0 => ev (ts_row_env r) x :: evl r0 end) l = map (ev (ts_row_env r)) l).
    { induction l as [|x l IH]; [reflexivity|]. cbn [map]. now rewrite <- IH. }
    destruct fps as [|a [|b l]]; cbn [map] in *; cbn [PromSem.ev]; rewrite ?Hevl; exact Hgen.
  Qed.

  Lemma ev_ge_date r D : ev (ts_row_env r) (Ge (Id "date") (DateV D)) = Some (b2v (D <=? t_date r)%Z).
  Proof.
    unfold Ge. cbn. destruct (Z.ltb_spec (t_date r) D), (Z.leb_spec D (t_date r)); try reflexivity; lia.
  Qed.
  Lemma ev_le_date r D : ev (ts_row_env r) (Le (Id "date") (DateV D)) = Some (b2v (t_date r <=? D)%Z).
  Proof.
    unfold Le. cbn. destruct (Z.ltb_spec D (t_date r)), (Z.leb_spec (t_date r) D); try reflexivity; lia.
  Qed.

  (* THE LABELS REQUEST UNDER THE INTERPRETER: the statement getFetchRequest builds (the tree whose rendering is compared byte
     for byte with what Select sends) answers the rows of time_series between the two date bounds whose fingerprint is in
     the planned set *)
  Theorem eval_labels_fetch cluster fps from_ms to_ms series :
    eval_fetch re_match (labels_fetch cluster fps from_ms to_ms) series =
    Some (fetch_rows (from_day (from_ms * 1000000)) (to_ms / 86400000)%Z fps series).
  Proof.
    unfold eval_fetch, labels_fetch, fetch_rows. cbn [and_where s_where set_where set_from set_cols empty_select and_into
      s_groupby s_having s_limit s_cols cols_eqb_labels String.eqb Ascii.eqb Bool.eqb andb].
    f_equal. f_equal. apply filter_ext. intros r.
    rewrite is_true_and. cbn [forallb]. rewrite ev_in_raws, ev_ge_date, ev_le_date, !is_true_b2v, andb_true_r.
    destruct (existsb (N.eqb (t_fp r)) fps), (from_day (from_ms * 1000000) <=? t_date r)%Z, (t_date r <=? to_ms / 86400000)%Z; reflexivity.
  Qed.
End LABELS.

(* Select with BOTH statements answered by the reference interpreter on the planner's own trees (the samples statement and
   the labels request built from the fingerprints of its rows) is the function prom_select that prom_select_exact_series
   is stated over (there the labels reply is the list reading fetch_rows) *)
Definition prom_select_sql (re_match re_full : string -> string -> bool) (cluster : bool) (dbname : string) (h : hints)
    (ms : list matcher) (db : database) : option (list out_series) :=
  match prom_query_rows re_match re_full cluster dbname h ms db with
  | Some rows =>
    match eval_fetch re_match (labels_fetch cluster (fps_of rows) (h_start h) (h_end h)) (d_series db) with
    | Some reply => Some (select_series (snd (querier_transpile re_full cluster dbname h ms)) rows reply)
    | None => None
    end
  | None => None
  end.
Theorem prom_select_sql_eq re_match re_full cluster dbname h ms db :
  prom_select_sql re_match re_full cluster dbname h ms db = prom_select re_match re_full cluster dbname h ms db.
Proof.
  unfold prom_select_sql, prom_select, day_from, day_to.
  destruct (prom_query_rows re_match re_full cluster dbname h ms db) as [rows|]; [|reflexivity].
  now rewrite eval_labels_fetch.
Qed.

Example labels_request_example :
  eval_fetch (fun _ _ => false) (labels_fetch false [41%N; 18446744073709551615%N] 1700000000000 1700003600000)
    [{| t_date := 19675; t_fp := 41; t_type := 2; t_labels := [("__name__", "up")] |};
     {| t_date := 19674; t_fp := 41; t_type := 2; t_labels := [("__name__", "up")] |};
     {| t_date := 19675; t_fp := 42; t_type := 2; t_labels := [("__name__", "down")] |};
     {| t_date := 19675; t_fp := 18446744073709551615; t_type := 2; t_labels := [("a", "b")] |}] =
  Some [(41%N, [("__name__", "up")]); (18446744073709551615%N, [("a", "b")])].
Proof. vm_compute. reflexivity. Qed.
