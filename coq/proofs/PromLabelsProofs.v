(* C17: the labels request of labelsGetter (PromSel.labels_fetch = getFetchRequest) under the reference interpreter =
   the list reading fetch_rows the Select theorems use.  The fingerprints of the IN list are spliced decimal numerals:
   the interpreter reads them back through lib/DecN.v (the decimal printer is injective). *)
From Coq Require Import List ZArith NArith String Ascii Bool Lia.
From Qryn Require Import lib.Strs lib.DecN lib.CivilDate model.Sql model.SqlRender model.Logql model.LogqlPlan model.PromSelect
  model.PromSel model.PromSem model.PromCase proofs.PromSelProofs proofs.ProfAbsProofs.
Import ListNotations.
Open Scope string_scope.
Open Scope list_scope.

Section LABELS.
  Variable re_match : string -> string -> bool.
  Notation ev := (ev re_match no_cte).

  Lemma ev_raws rho fps :
    all_some (map (ev rho) (map (fun fp => Raw (string_of_N fp)) fps)) = Some (map (fun fp => VI (Z.of_N fp)) fps).
  Proof.
    induction fps as [|fp fps IH]; [reflexivity|]. cbn [map all_some PromSem.ev].
    rewrite Z_of_dec_string_of_N. cbn [omap]. rewrite IH. reflexivity.
  Qed.

  Lemma ev_in_raws r fps :
    ev (ts_row_env r) (In (Id "fingerprint") (map (fun fp => Raw (string_of_N fp)) fps)) =
    Some (b2v (existsb (N.eqb (t_fp r)) fps)).
  Proof.
    assert (Hgen : match all_some (map (ev (ts_row_env r)) (map (fun fp => Raw (string_of_N fp)) fps)) with
                   | Some vs => omap (fun bs => b2v (existsb (fun b => b) bs)) (all_some (map (val_eqb (VI (Z.of_N (t_fp r)))) vs))
                   | None => None end = Some (b2v (existsb (N.eqb (t_fp r)) fps))).
    { rewrite ev_raws. rewrite map_map. cbn [val_eqb].
      rewrite (all_some_map_Some (fun fp => Z.eqb (Z.of_N (t_fp r)) (Z.of_N fp))). cbn [omap]. do 2 f_equal.
      induction fps as [|fp fps IH]; [reflexivity|]. cbn [map existsb]. rewrite IH. f_equal.
      destruct (N.eqb_spec (t_fp r) fp) as [E|E]; [subst; apply Z.eqb_refl|]. apply Z.eqb_neq. intros H. apply E. now apply N2Z.inj. }
    assert (Hevl : forall l, (fix evl (l : list expr) : list (option val) :=
                               match l with [] => [] | x :: r0 => ev (ts_row_env r) x :: evl r0 end) l = map (ev (ts_row_env r)) l).
    { induction l as [|x l IH]; [reflexivity|]. cbn [map]. now rewrite <- IH. }
    destruct fps as [|a [|b l]]; cbn [map] in *; cbn [PromSem.ev]; rewrite ?Hevl; exact Hgen.
  Qed.

  Lemma ev_ge_date r D : ev (ts_row_env r) (Ge (Id "date") (DateV D)) = Some (b2v (D <=? t_date r)%Z).
  Proof.
    unfold Ge. cbn. destruct (Z.ltb_spec (t_date r) D), (Z.leb_spec D (t_date r)); try reflexivity; lia.
  Qed.
  Lemma ev_le_date r D : ev (ts_row_env r) (Le (Id "date") (DateV D)) = Some (b2v (t_date r <=? D)%Z).
  Proof.
    unfold Le. cbn. destruct (Z.ltb_spec D (t_date r)), (Z.leb_spec (t_date r) D); try reflexivity; lia.
  Qed.

  Lemma ev_type_in r : ev (ts_row_env r) (In (Id "type") [IntV 2; IntV 0]) = Some (b2v (metric_row r)).
  Proof. unfold metric_row. cbn. destruct (t_type r =? 2)%Z, (t_type r =? 0)%Z; reflexivity. Qed.

  (* THE LABELS REQUEST UNDER THE INTERPRETER: the statement getFetchRequest builds (the tree whose rendering is compared byte
     for byte with what Select sends) answers the rows of time_series between the two date bounds whose fingerprint is in
     the planned set *)
  Theorem eval_labels_fetch cluster fps from_ms to_ms series :
    eval_fetch re_match (labels_fetch cluster fps from_ms to_ms) series =
    Some (fetch_rows (from_day (from_ms * 1000000)) (to_ms / 86400000)%Z fps series).
  Proof.
    unfold eval_fetch, labels_fetch, fetch_rows. cbn [and_where s_where set_where set_from set_cols empty_select and_into
      s_groupby s_having s_limit s_cols cols_eqb_labels String.eqb Ascii.eqb Bool.eqb andb].
    f_equal. f_equal. apply filter_ext. intros r.
    rewrite is_true_and. cbn [forallb]. rewrite ev_in_raws, ev_ge_date, ev_le_date, ev_type_in, !is_true_b2v, andb_true_r.
    destruct (existsb (N.eqb (t_fp r)) fps), (from_day (from_ms * 1000000) <=? t_date r)%Z, (t_date r <=? to_ms / 86400000)%Z,
      (metric_row r); reflexivity.
  Qed.
End LABELS.

(* Select with BOTH statements answered by the reference interpreter on the planner's own trees (the samples statement and
   the labels request built from the fingerprints of its rows) is the function prom_select that prom_select_exact_series
   is stated over (there the labels reply is the list reading fetch_rows) *)
Definition prom_select_sql (re_match re_full : string -> string -> bool) (cluster : bool) (dbname : string) (h : hints)
    (ms : list matcher) (db : database) : option (list out_series) :=
  match prom_query_rows re_match re_full cluster dbname h ms db with
  | Some rows =>
    match eval_fetch re_match (labels_fetch cluster (fps_of rows) (h_start h) (h_end h)) (d_series db) with
    | Some reply => Some (select_series (snd (querier_transpile re_full cluster dbname h ms)) rows reply)
    | None => None
    end
  | None => None
  end.
Theorem prom_select_sql_eq re_match re_full cluster dbname h ms db :
  prom_select_sql re_match re_full cluster dbname h ms db = prom_select re_match re_full cluster dbname h ms db.
Proof.
  unfold prom_select_sql, prom_select, day_from, day_to.
  destruct (prom_query_rows re_match re_full cluster dbname h ms db) as [rows|]; [|reflexivity].
  now rewrite eval_labels_fetch.
Qed.

Example labels_request_example :
  eval_fetch (fun _ _ => false) (labels_fetch false [41%N; 18446744073709551615%N] 1700000000000 1700003600000)
    [{| t_date := 19675; t_fp := 41; t_type := 2; t_labels := [("__name__", "up")] |};
     {| t_date := 19674; t_fp := 41; t_type := 2; t_labels := [("__name__", "up")] |};
     {| t_date := 19675; t_fp := 42; t_type := 2; t_labels := [("__name__", "down")] |};
     {| t_date := 19675; t_fp := 18446744073709551615; t_type := 2; t_labels := [("a", "b")] |}] =
  Some [(41%N, [("__name__", "up")]); (18446744073709551615%N, [("a", "b")])].
Proof. vm_compute. reflexivity. Qed.

(* ---------- the type conjunct of the labels request (fix of prom-labels-fetch-untyped) ----------
   The series rows of LOG streams (type 1) cannot influence what a PromQL Select returns: the reply to the labels
   request is the same with and without them.  Before the fix the request read every row of the fingerprint
   (fetch_rows_untyped): a log stream sharing the fingerprint of a metric series under another label set (two label
   sets with one 32-bit Bernstein fingerprint: C04's finding bernstein-fingerprint-32-bit; every other PromQL read is
   typed) answered its own labels, and as the last answered row wins the metric series reached the engine under the log
   stream's label set. *)
Theorem fetch_rows_metric_only D1 D2 fps series :
  fetch_rows D1 D2 fps series = fetch_rows D1 D2 fps (filter metric_row series).
Proof.
  unfold fetch_rows. f_equal. induction series as [|s series IH]; [reflexivity|]. cbn [filter].
  destruct (metric_row s) eqn:E.
  - cbn [filter]. rewrite E, andb_true_r, IH. reflexivity.
  - rewrite andb_false_r. exact IH.
Qed.

Corollary select_ignores_log_streams re_match re_full cluster dbname h ms db logs :
  Forall (fun s => t_type s = 1%Z) logs ->
  prom_select re_match re_full cluster dbname h ms
    {| d_gin := d_gin db; d_samples := d_samples db; d_series := d_series db ++ logs |} =
  prom_select re_match re_full cluster dbname h ms db.
Proof.
  intros Hl. unfold prom_select, prom_query_rows. cbn [d_gin d_samples d_series].
  assert (Hf : forall D1 D2 fps, fetch_rows D1 D2 fps (d_series db ++ logs) = fetch_rows D1 D2 fps (d_series db)).
  { intros. rewrite fetch_rows_metric_only, (fetch_rows_metric_only _ _ _ (d_series db)). rewrite filter_app.
    replace (filter metric_row logs) with (@nil tsrow); [now rewrite app_nil_r|].
    symmetry. induction Hl as [|s l Hs _ IH]; [reflexivity|]. cbn [filter]. unfold metric_row at 1. rewrite Hs. exact IH. }
  destruct db as [g sm se]. cbn [d_gin d_samples d_series] in *.
  replace (eval_prom re_match (fst (querier_transpile re_full cluster dbname h ms)) {| d_gin := g; d_samples := sm; d_series := se ++ logs |})
    with (eval_prom re_match (fst (querier_transpile re_full cluster dbname h ms)) {| d_gin := g; d_samples := sm; d_series := se |}).
  2:{ unfold eval_prom, eval_bucketed, eval_main. reflexivity. }
  destruct (eval_prom re_match (fst (querier_transpile re_full cluster dbname h ms)) {| d_gin := g; d_samples := sm; d_series := se |}); [|reflexivity].
  now rewrite Hf.
Qed.

(* the witness: metric series 31 {__name__="up", instance="h:9090"} and a log stream {job="logs", stream="stdout"} whose series
   row carries the same fingerprint 31 *)
Definition twin_logs : list tsrow := [{| t_date := 19675; t_fp := 31; t_type := 1; t_labels := [("job", "logs"); ("stream", "stdout")] |}].
Definition twin_db : database := {| d_gin := d_gin w_db; d_samples := d_samples w_db; d_series := d_series w_db ++ twin_logs |}.
Definition prom_select_untyped (re_match re_full : string -> string -> bool) (cluster : bool) (dbname : string) (h : hints)
    (ms : list matcher) (db : database) : option (list out_series) :=
  match prom_query_rows re_match re_full cluster dbname h ms db with
  | Some rows => Some (select_series (snd (querier_transpile re_full cluster dbname h ms)) rows
                         (fetch_rows_untyped (day_from h) (day_to h) (fps_of rows) (d_series db)))
  | None => None
  end.
Example log_twin_pollutes_untyped_request :
  (* the request as it was: series 31 comes back as {job="logs", stream="stdout"}, a label set that does not even satisfy the selector *)
  prom_select_untyped re_none re_none false "qryn" w_hints w_ms twin_db =
  Some [{| o_labels := [("__name__", "up"); ("env", "dev")]; o_fp := 32; o_samples := [(1700000001000, 2)] |};
        {| o_labels := [("job", "logs"); ("stream", "stdout")]; o_fp := 31; o_samples := [(1700000001000, 1)] |}] /\
  (* the typed request: under its own label set *)
  prom_select re_none re_none false "qryn" w_hints w_ms twin_db =
  Some [{| o_labels := [("__name__", "up"); ("env", "dev")]; o_fp := 32; o_samples := [(1700000001000, 2)] |};
        {| o_labels := [("__name__", "up"); ("instance", "h:9090")]; o_fp := 31; o_samples := [(1700000001000, 1)] |}].
Proof. split; vm_compute; reflexivity. Qed.
