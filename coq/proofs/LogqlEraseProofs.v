(* C10 — value-independence of the LogQL planners (model/LogqlPlan.v process): planner objects that differ only in their
   string values produce trees with the same erasure, for ALL planner trees, contexts and planner states. *)
From Qryn Require Import lib.Strs model.Sql model.SqlRender.
From Coq Require Import List ZArith NArith String Ascii Bool Lia.
From Qryn Require Import model.Logql model.LogqlRegexp model.LogqlTemplate model.LogqlPlan.
From Qryn Require Import model.Quote model.ChLex model.SqlSites model.SqlPieces model.SqlPiecesCases model.SqlPiecesSel.
From Qryn Require Import proofs.QuoteProofs proofs.SqlPiecesProofs proofs.SqlEraseProofs.
From Qryn Require Import model.LogqlVariant.
Import ListNotations.
Open Scope string_scope.
Open Scope list_scope.

Notation K := (fun _ : string => EmptyString).
Notation E := (subst K).
Notation Es := (subst_sel K).

(* ---------- more record updates that commute with a replacement of the values ---------- *)
Section Commute2.
  Variable f : string -> string.
  Notation F := (subst f).
  Notation Fs := (subst_sel f).

  Lemma Fs_set_joins j s :
    Fs (set_joins j s) = set_joins (map (fun j => (fst (fst j), F (snd (fst j)), map_opt F (snd j))) j) (Fs s).
  Proof. destruct s; reflexivity. Qed.
  Lemma Fs_groupby q : s_groupby (Fs q) = map F (s_groupby q).
  Proof. destruct q. unfold subst_sel. rewrite map_sel_unfold. reflexivity. Qed.
  Lemma Fs_prewhere q : s_prewhere (Fs q) = map_opt F (s_prewhere q).
  Proof. destruct q. unfold subst_sel. rewrite map_sel_unfold. reflexivity. Qed.
  Lemma Fs_set_prewhere w s : Fs (set_prewhere w s) = set_prewhere (map_opt F w) (Fs s).
  Proof. destruct s; reflexivity. Qed.

  Lemma Fs_and_prewhere cl s : Fs (and_prewhere cl s) = and_prewhere (map F cl) (Fs s).
  Proof.
    unfold and_prewhere. rewrite Fs_prewhere.
    destruct (s_prewhere s) as [e|]; cbn [map_opt]; [|rewrite Fs_set_prewhere; reflexivity].
    destruct e; try reflexivity.
    destruct fn; try reflexivity.
    cbn [subst]. rewrite Fs_set_prewhere. cbn [map_opt And subst]. rewrite map_app. reflexivity.
  Qed.
End Commute2.

(* ---------- columns ---------- *)
Definition alias_rel (c c' : expr) : Prop :=
  match alias_of c, alias_of c' with
  | Some (x, a), Some (x', a') => a = a' /\ E x = E x'
  | None, None => True
  | _, _ => False
  end.
Lemma E_alias c c' : E c = E c' -> alias_rel c c'.
Proof.
  unfold alias_rel. intro H.
  destruct c; destruct c'; cbn [subst] in H; try discriminate H; cbn [alias_of]; try exact I.
  injection H as H1 H2. split; [exact H2|exact H1].
Qed.

Lemma E_patch_col cols cols' n patch patch' :
  map E cols = map E cols' -> (forall x x', E x = E x' -> E (patch x) = E (patch' x')) ->
  map E (patch_col cols n patch) = map E (patch_col cols' n patch').
Proof.
  intros H Hp. revert cols' H. induction cols as [|c cols IH]; intros [|c' cols'] H; try discriminate H; [reflexivity|].
  cbn [map] in H. injection H as Hc Hr. unfold patch_col. cbn [map]. fold (patch_col cols n patch). fold (patch_col cols' n patch').
  rewrite (IH cols' Hr). f_equal.
  pose proof (E_alias c c' Hc) as Ha. unfold alias_rel in Ha.
  destruct (alias_of c) as [[x a]|]; destruct (alias_of c') as [[x' a']|]; try contradiction; [|exact Hc].
  destruct Ha as [-> Hx]. destruct (String.eqb a' n); [|exact Hc].
  cbn [subst]. rewrite (Hp x x' Hx). reflexivity.
Qed.

Lemma E_has_column cols cols' n : map E cols = map E cols' -> has_column cols n = has_column cols' n.
Proof.
  revert cols'. induction cols as [|c cols IH]; intros [|c' cols'] H; try discriminate H; [reflexivity|].
  cbn [map] in H. injection H as Hc Hr. cbn [has_column existsb]. fold (has_column cols n). fold (has_column cols' n).
  rewrite (IH cols' Hr). f_equal.
  pose proof (E_alias c c' Hc) as Ha. unfold alias_rel in Ha.
  destruct (alias_of c) as [[x a]|]; destruct (alias_of c') as [[x' a']|]; try contradiction; [|reflexivity].
  destruct Ha as [-> _]. reflexivity.
Qed.

Definition opt_E (x y : option expr) : Prop :=
  match x, y with Some a, Some b => E a = E b | None, None => True | _, _ => False end.
Lemma E_get_col cols cols' n : map E cols = map E cols' -> opt_E (get_col cols n) (get_col cols' n).
Proof.
  revert cols'. induction cols as [|c cols IH]; intros [|c' cols'] H; try discriminate H; [exact I|].
  cbn [map] in H. injection H as Hc Hr. cbn [get_col].
  pose proof (E_alias c c' Hc) as Ha. unfold alias_rel in Ha.
  destruct (alias_of c) as [[x a]|]; destruct (alias_of c') as [[x' a']|]; try contradiction; [|exact (IH cols' Hr)].
  destruct Ha as [-> Hx]. destruct (String.eqb a' n); [exact Hx|exact (IH cols' Hr)].
Qed.

Lemma E_rename_string cols cols' : map E cols = map E cols' -> map E (rename_string cols) = map E (rename_string cols').
Proof.
  revert cols'. induction cols as [|c cols IH]; intros [|c' cols'] H; try discriminate H; [reflexivity|].
  cbn [map] in H. injection H as Hc Hr. unfold rename_string. cbn [map]. fold (rename_string cols). fold (rename_string cols').
  rewrite (IH cols' Hr). f_equal.
  pose proof (E_alias c c' Hc) as Ha. unfold alias_rel in Ha.
  destruct (alias_of c) as [[x a]|]; destruct (alias_of c') as [[x' a']|]; try contradiction; [|exact Hc].
  destruct Ha as [-> Hx]. destruct (String.eqb a' "string"); [|exact Hc].
  cbn [subst]. rewrite Hx. reflexivity.
Qed.

(* trees with the same erasure agree on everything but values *)
Lemma Es_cols q q' : Es q = Es q' -> map E (s_cols q) = map E (s_cols q').
Proof. intro H. rewrite <- !Fs_cols, H. reflexivity. Qed.
Lemma Es_groupby_nil q q' : Es q = Es q' -> (match s_groupby q with [] => true | _ => false end) = (match s_groupby q' with [] => true | _ => false end).
Proof.
  intro H. pose proof (f_equal s_groupby H) as Hg. rewrite !Fs_groupby in Hg.
  destruct (s_groupby q); destruct (s_groupby q'); try discriminate Hg; reflexivity.
Qed.

(* congruences *)
Lemma Es_set_cols c c' q q' : map E c = map E c' -> Es q = Es q' -> Es (set_cols c q) = Es (set_cols c' q').
Proof. intros H1 H2. rewrite !Fs_set_cols, H1, H2. reflexivity. Qed.
Lemma Es_and_where c c' q q' : map E c = map E c' -> Es q = Es q' -> Es (and_where c q) = Es (and_where c' q').
Proof. intros H1 H2. rewrite !Fs_and_where, H1, H2. reflexivity. Qed.
Lemma Es_and_having c c' q q' : map E c = map E c' -> Es q = Es q' -> Es (and_having c q) = Es (and_having c' q').
Proof. intros H1 H2. rewrite !Fs_and_having, H1, H2. reflexivity. Qed.
Lemma Es_and_prewhere c c' q q' : map E c = map E c' -> Es q = Es q' -> Es (and_prewhere c q) = Es (and_prewhere c' q').
Proof. intros H1 H2. rewrite !Fs_and_prewhere, H1, H2. reflexivity. Qed.
Lemma Es_with1 a m m' q q' : Es m = Es m' -> Es q = Es q' -> Es (with_ [(a, m)] q) = Es (with_ [(a, m')] q').
Proof. intros H1 H2. rewrite !Fs_with_. cbn [mwiths_of]. unfold subst_sel in *. rewrite H1, H2. reflexivity. Qed.
Lemma Es_with2 a m m' b n n' q q' : Es m = Es m' -> Es n = Es n' -> Es q = Es q' ->
  Es (with_ [(a, m); (b, n)] q) = Es (with_ [(a, m'); (b, n')] q').
Proof. intros H1 H2 H3. rewrite !Fs_with_. cbn [mwiths_of]. unfold subst_sel in *. rewrite H1, H2, H3. reflexivity. Qed.
Lemma E_WRef a m m' : Es m = Es m' -> E (WRef a m) = E (WRef a m').
Proof. intro H. cbn [subst]. unfold subst_sel in H. rewrite H. reflexivity. Qed.

(* ---------- the clauses the planners build from request strings ---------- *)
Lemma opt_E_refl x : opt_E x x.
Proof. destruct x; [reflexivity|exact I]. Qed.

Lemma E_simple_cond g s s' : slf_variant s s' -> opt_E (simple_cond g s) (simple_cond g s').
Proof.
  destruct s as [l fn str num], s' as [l' fn' str' num']. unfold slf_variant. cbn [slf_label slf_fn slf_num slf_str].
  intros (-> & -> & -> & Hs).
  unfold simple_cond, lblop_numeric. cbn [slf_label slf_fn slf_num slf_str].
  destruct str as [v|], str' as [v'|]; try contradiction; destruct fn'; try apply opt_E_refl; cbn [opt_E]; reflexivity.
Qed.

Fixpoint E_lf_cond g (f : label_filter) {struct f} : forall f', lf_variant f f' -> opt_E (lf_cond g f) (lf_cond g f').
Proof.
  destruct f as [h op t]. intros [h' op' t']. cbn [lf_variant]. intros (Hh & -> & Ht).
  cbn [lf_cond].
  assert (Hl : opt_E (match h with HSimple s => simple_cond g s | HComplex x => lf_cond g x end)
                     (match h' with HSimple s => simple_cond g s | HComplex x => lf_cond g x end)).
  { destruct h as [s|x], h' as [s'|x']; try contradiction; [apply E_simple_cond; exact Hh|apply E_lf_cond; exact Hh]. }
  destruct (match h with HSimple s => simple_cond g s | HComplex x => lf_cond g x end) as [l|];
  destruct (match h' with HSimple s => simple_cond g s | HComplex x => lf_cond g x end) as [l'|]; try contradiction; [|exact I].
  cbn [opt_E] in Hl.
  destruct t as [t|], t' as [t'|]; try contradiction; [|exact Hl].
  pose proof (E_lf_cond g t t' Ht) as Hr.
  destruct (lf_cond g t) as [r|], (lf_cond g t') as [r'|]; try contradiction; [|exact I].
  cbn [opt_E] in Hr. destruct op' as [[|]|]; cbn [opt_E And Or subst map]; [| |exact I]; rewrite Hl, Hr; reflexivity.
Qed.

Lemma E_line_filter_clause op v v' rl rl' : relit_variant rl rl' ->
  E (line_filter_clause op v rl) = E (line_filter_clause op v' rl').
Proof.
  unfold relit_variant. intro H. destruct rl as [[l i]|], rl' as [[l' i']|]; try contradiction; [subst i'|];
  destruct op; try destruct i; reflexivity.
Qed.

Lemma E_map_StrV l l' : List.length l = List.length l' -> map E (map StrV l) = map E (map StrV l').
Proof.
  revert l'. induction l as [|x l IH]; intros [|x' l'] H; try discriminate H; [reflexivity|].
  cbn [map subst]. f_equal. apply IH. injection H as H. exact H.
Qed.

Lemma all_paths_variant ps ps' : Forall2 path_variant ps ps' ->
  match all_paths ps, all_paths ps' with
  | Some x, Some x' => Forall2 (fun a b => E (json_path_sql a) = E (json_path_sql b)) x x'
  | None, None => True
  | _, _ => False
  end.
Proof.
  induction 1 as [|p p' l l' Hp _ IH]; [constructor|].
  cbn [all_paths]. unfold path_variant in Hp.
  destruct (pp_path p) as [x|], (pp_path p') as [x'|]; try contradiction; [|exact I].
  destruct (all_paths l) as [xs|], (all_paths l') as [xs'|]; try contradiction; [|exact I].
  constructor; assumption.
Qed.

Lemma E_sql_json_parser ls ls' ps ps' : List.length ls = List.length ls' ->
  Forall2 (fun a b => E (json_path_sql a) = E (json_path_sql b)) ps ps' ->
  E (sql_json_parser ls ps) = E (sql_json_parser ls' ps').
Proof.
  intros Hl Hp. unfold sql_json_parser. cbn [subst map]. rewrite (E_map_StrV ls ls' Hl).
  assert (H : map E (map json_path_sql ps) = map E (map json_path_sql ps')).
  { induction Hp as [|a b l l' Hab _ IH]; [reflexivity|]. cbn [map]. rewrite IH, Hab. reflexivity. }
  rewrite H. reflexivity.
Qed.

Lemma E_regex_map ns ns' re re' : List.length ns = List.length ns' -> E (regex_map ns re) = E (regex_map ns' re').
Proof. intro H. unfold regex_map. cbn [subst map]. rewrite (E_map_StrV ns ns' H). reflexivity. Qed.

Lemma E_drop_clause p p' : drop_key_only p = drop_key_only p' -> E (drop_clause p) = E (drop_clause p').
Proof.
  destruct p as [k [v|]], p' as [k' [v'|]]; unfold drop_key_only, drop_clause; cbn [fst snd]; intro H.
  - rewrite H. destruct (String.eqb v' ""); reflexivity.
  - rewrite H. reflexivity.
  - rewrite <- H. reflexivity.
  - reflexivity.
Qed.
Lemma E_map_drop_filter col col' ps ps' : E col = E col' -> drop_variant ps ps' ->
  E (map_drop_filter col ps) = E (map_drop_filter col' ps').
Proof.
  intros Hc Hp. unfold map_drop_filter. cbn [subst map]. rewrite Hc.
  assert (H : map E (map drop_clause ps) = map E (map drop_clause ps')).
  { induction Hp as [|a b l l' Hab _ IH]; [reflexivity|]. cbn [map]. rewrite IH, (E_drop_clause a b Hab). reflexivity. }
  rewrite H. reflexivity.
Qed.

Lemma E_bw_filter col col' ls ls' b : E col = E col' -> List.length ls = List.length ls' ->
  E (bw_filter col ls b) = E (bw_filter col' ls' b).
Proof.
  intros Hc Hl. unfold bw_filter.
  assert (Hn : (match ls with [] => true | _ => false end) = (match ls' with [] => true | _ => false end))
    by (destruct ls, ls'; try discriminate Hl; reflexivity).
  rewrite Hn. destruct (b && _); cbn [subst map]; rewrite Hc; [reflexivity|]. rewrite (E_map_StrV ls ls' Hl). reflexivity.
Qed.

(* ---------- the planner state ---------- *)
Lemma pst_next_id st st' : pst_variant st st' -> fst (next_id st) = fst (next_id st') /\ pst_variant (snd (next_id st)) (snd (next_id st')).
Proof. intros (Hi & Hf & Hl). unfold next_id, pst_variant. cbn [fst snd pid fp_cache labels_cache]. rewrite Hi. auto. Qed.
Lemma pst_set_fp w w' st st' : fst w = fst w' -> Es (snd w) = Es (snd w') -> pst_variant st st' -> pst_variant (set_fp_cache w st) (set_fp_cache w' st').
Proof. intros H1 H2 (Hi & Hf & Hl). unfold pst_variant, set_fp_cache, cache_variant, erase_sel. cbn [pid fp_cache labels_cache]. auto. Qed.
Lemma pst_set_labels w w' st st' : fst w = fst w' -> Es (snd w) = Es (snd w') -> pst_variant st st' -> pst_variant (set_labels_cache w st) (set_labels_cache w' st').
Proof. intros H1 H2 (Hi & Hf & Hl). unfold pst_variant, set_labels_cache, cache_variant, erase_sel. cbn [pid fp_cache labels_cache]. auto. Qed.
Lemma pst_clear st st' : pst_variant st st' -> pst_variant (clear_caches st) (clear_caches st').
Proof. intros (Hi & Hf & Hl). unfold pst_variant, clear_caches, cache_variant. cbn [pid fp_cache labels_cache]. auto. Qed.

Definition result4_variant (r r' : res (select * pst * planner * planner)) : Prop :=
  match r, r' with
  | Some (q, s1, m1, w1), Some (q', s1', m1', w1') => Es q = Es q' /\ pst_variant s1 s1' /\ planner_variant m1 m1' /\ planner_variant w1 w1'
  | None, None => True
  | _, _ => False
  end.

Lemma with_connector_variant proc mainp mainp' withp withp' c st st' fn :
  (forall st st', pst_variant st st' -> result_variant (proc mainp c st) (proc mainp' c st')) ->
  (forall st st', pst_variant st st' -> result_variant (proc withp c st) (proc withp' c st')) ->
  planner_variant withp withp' ->
  (forall q q' a m m', Es q = Es q' -> Es m = Es m' -> Es (fn q (a, m)) = Es (fn q' (a, m'))) ->
  pst_variant st st' ->
  result4_variant (with_connector proc mainp withp c st fn) (with_connector proc mainp' withp' c st' fn).
Proof.
  intros Hm Hw Hwv Hfn Hst. unfold with_connector, bind.
  pose proof (Hm st st' Hst) as H1. unfold result_variant in H1.
  destruct (proc mainp c st) as [[[q s1] m1]|], (proc mainp' c st') as [[[q' s1'] m1']|]; try contradiction; [|exact I].
  destruct H1 as (Hq & Hs1 & Hm1).
  pose proof Hs1 as (Hi & Hf & Hl). unfold cache_variant in Hf.
  destruct (fp_cache s1) as [[a w]|], (fp_cache s1') as [[a' w']|]; try contradiction.
  - cbn [fst snd] in Hf. destruct Hf as [<- Hww]. unfold result4_variant.
    split; [|auto]. apply Hfn; [|exact Hww]. apply Es_with1; assumption.
  - pose proof (Hw s1 s1' Hs1) as H2. unfold result_variant in H2.
    destruct (proc withp c s1) as [[[wq s2] w1]|], (proc withp' c s1') as [[[wq' s2'] w1']|]; try contradiction; [|exact I].
    destruct H2 as (Hwq & Hs2 & Hw1). unfold result4_variant.
    split; [apply Hfn; [apply Es_with1; assumption|exact Hwq]|].
    split; [apply pst_set_fp; [reflexivity|exact Hwq|exact Hs2]|]. auto.
Qed.

Ltac sub IH Hv Hst c st st' q s1 p1 q' s1' p1' Hq Hs1 Hp1 :=
  let H := fresh "Hr" in
  pose proof (IH _ c st st' Hv Hst) as H; unfold result_variant in H;
  match type of H with
  | match ?a with _ => _ end =>
    destruct a as [[[q s1] p1]|];
    match type of H with
    | match ?b with _ => _ end => destruct b as [[[q' s1'] p1']|]
    | _ => idtac
    end
  end; try contradiction; [destruct H as (Hq & Hs1 & Hp1); unfold erase_sel, subst_sel in Hq|exact I].

Ltac nid Hs1 s1 s1' i s2 s2' Hs2 :=
  let Hi := fresh "Hi" in
  pose proof (pst_next_id s1 s1' Hs1) as [Hi Hs2];
  destruct (next_id s1) as [i s2]; destruct (next_id s1') as [?i' s2']; cbn [fst snd] in Hi, Hs2; subst.


Ltac dres4 H q s1 m1 w1 q' s1' m1' w1' Hq Hs1 Hm1 Hw1 :=
  unfold result4_variant in H;
  match type of H with
  | match ?a with _ => _ end =>
    destruct a as [[[[q s1] m1] w1]|];
    match type of H with
    | match ?b with _ => _ end => destruct b as [[[[q' s1'] m1'] w1']|]
    | _ => idtac
    end
  end; try contradiction; [destruct H as (Hq & Hs1 & Hm1 & Hw1); unfold subst_sel in Hq|exact I].

(* push the erasure to the leaves of a tree built by record updates and compare *)
Ltac push1 :=
  repeat first [rewrite Fs_set_joins | rewrite Fs_set_from | rewrite Fs_set_cols | rewrite Fs_set_groupby | rewrite Fs_set_orderby
               | rewrite Fs_set_limit | rewrite Fs_with_ | rewrite Fs_and_where | rewrite Fs_and_having | rewrite Fs_and_prewhere];
  cbn [map subst map_opt mwiths_of fst snd app].
Ltac push :=
  unfold erase_sel; push1;
  repeat (progress (change (map_sel (subst (fun _ : string => EmptyString))) with (subst_sel (fun _ : string => EmptyString)); push1));
  unfold subst_sel.

Lemma Forall2_len {A B} (R : A -> B -> Prop) l l' : Forall2 R l l' -> List.length l = List.length l'.
Proof. induction 1; [reflexivity|]. cbn [List.length]. now f_equal. Qed.

Lemma planner_variant_m15 f d : planner_variant (PMetrics15 f d) (PMetrics15 f d).
Proof. cbn. auto. Qed.

Theorem process_variant : forall p p' c st st',
  planner_variant p p' -> pst_variant st st' -> result_variant (process p c st) (process p' c st').
Proof.
  induction p; intros p' c st st' Hv Hst; destruct p'; cbn [planner_variant] in Hv; try contradiction.
  - (* PStreamSelect *)
    cbn [process]. unfold result_variant. split; [exact (Es_stream_select c ms ms0 Hv)|]. split; [exact Hst|exact Hv].
  - (* PSimpleLabelFilter *)
    destruct Hv as [Hf Hv]. cbn [process]. unfold bind.
    sub IHp Hv Hst c st st' q s1 p1 q' s1' p1' Hq Hs1 Hp1.
    nid Hs1 s1 s1' i s2 s2' Hs2.
    pose proof (E_lf_cond (Some (fun s : string => Fn "JSONExtractString" [Id "labels"; QRaw s])) f f0 Hf) as Hc.
    destruct (lf_cond _ f) as [cd|], (lf_cond _ f0) as [cd'|]; try contradiction; [|exact I].
    cbn [opt_E] in Hc. unfold result_variant. split; [|split; [exact Hs2|cbn [planner_variant]; auto]].
    push. rewrite Hc, Hq. reflexivity.
  - (* PFingerprintFilter *)
    destruct Hv as [Hv1 Hv2]. cbn [process]. unfold bind.
    pose proof (with_connector_variant process p2 p'2 p1 p'1 c st st'
                  (fun q w => and_where [Sql.In (Id "samples.fingerprint") [WRef (fst w) (snd w)]] q)
                  (fun a b H => IHp2 p'2 c a b Hv2 H) (fun a b H => IHp1 p'1 c a b Hv1 H) Hv1) as H.
    specialize (H ltac:(intros q q' a m m' Hq Hm; cbn [fst snd]; apply Es_and_where; [cbn [map subst]; unfold subst_sel in Hm; rewrite Hm; reflexivity|exact Hq]) Hst).
    dres4 H q s1 m1 w1 q' s1' m1' w1' Hq Hs1 Hm1 Hw1.
    unfold result_variant. split; [exact Hq|]. split; [exact Hs1|]. cbn [planner_variant]. auto.
  - (* PMainInit *) cbn [process]. unfold result_variant. auto.
  - (* PTimeSeriesInit *) cbn [process]. unfold result_variant. auto.
  - (* PLineFilterP *)
    destruct Hv as (-> & Hrl & Hv). cbn [process]. unfold bind.
    sub IHp Hv Hst c st st' q s1 p1 q' s1' p1' Hq Hs1 Hp1.
    unfold result_variant. split; [|split; [exact Hs1|cbn [planner_variant]; auto]].
    apply Es_and_where; [cbn [map]; rewrite (E_line_filter_clause op0 val val0 _ _ Hrl); reflexivity|exact Hq].
  - (* PLabelFilterP *)
    destruct Hv as [Hf Hv]. cbn [process]. unfold bind.
    sub IHp Hv Hst c st st' q s1 p1 q' s1' p1' Hq Hs1 Hp1.
    pose proof (E_lf_cond None f f0 Hf) as Hc.
    destruct (lf_cond None f) as [cd|], (lf_cond None f0) as [cd'|]; try contradiction; [|exact I].
    cbn [opt_E] in Hc. unfold result_variant. split; [|split; [exact Hs1|cbn [planner_variant]; auto]].
    apply Es_and_where; [cbn [map]; rewrite Hc; reflexivity|exact Hq].
  - (* PParserP *)
    destruct Hv as (<- & Hpar & Hv). destruct fn; cbn [process parser_variant] in *; [| exact I |].
    + (* json *)
      unfold bind. sub IHp Hv Hst c st st' q s1 p1 q' s1' p1' Hq Hs1 Hp1.
      pose proof (all_paths_variant params params0 Hpar) as Hap.
      destruct (all_paths params) as [ps|], (all_paths params0) as [ps'|]; try contradiction; [|exact I].
      assert (Hlen : List.length (map pp_label params) = List.length (map pp_label params0))
        by (rewrite !map_length; exact (Forall2_len _ _ _ Hpar)).
      pose proof (E_sql_json_parser _ _ ps ps' Hlen Hap) as Hj.
      unfold result_variant. split; [|split; [exact Hs1|cbn [planner_variant parser_variant]; auto]].
      assert (H1 : Es (set_cols (patch_col (s_cols q) "labels" (fun object => Fn "mapUpdate" [object; sql_json_parser (map pp_label params) ps])) q) =
                   Es (set_cols (patch_col (s_cols q') "labels" (fun object => Fn "mapUpdate" [object; sql_json_parser (map pp_label params0) ps'])) q')).
      { apply Es_set_cols; [|exact Hq]. apply E_patch_col; [exact (Es_cols q q' Hq)|].
        intros x x' Hx. cbn [subst map]. rewrite Hx, Hj. reflexivity. }
      apply Es_set_cols; [|exact H1]. apply E_patch_col; [exact (Es_cols _ _ H1)|]. intros; reflexivity.
    + (* regexp *)
      unfold bind. sub IHp Hv Hst c st st' q s1 p1 q' s1' p1' Hq Hs1 Hp1.
      destruct params as [|p0 pr], params0 as [|p0' pr']; try contradiction; [exact I|].
      pose proof Hpar as Hpar0. unfold re_variant in Hpar.
      destruct (re_plan (pp_val p0)) as [[re ns]|], (re_plan (pp_val p0')) as [[re' ns']|]; try contradiction; [|exact I].
      unfold result_variant. split; [|split; [exact Hs1|cbn [planner_variant parser_variant]; auto]].
      assert (H1 : Es (set_cols (patch_col (s_cols q) "labels" (fun object => Fn "mapUpdate" [object; regex_map ns re])) q) =
                   Es (set_cols (patch_col (s_cols q') "labels" (fun object => Fn "mapUpdate" [object; regex_map ns' re'])) q')).
      { apply Es_set_cols; [|exact Hq]. apply E_patch_col; [exact (Es_cols q q' Hq)|].
        intros x x' Hx. pose proof (E_regex_map ns ns' re re' Hpar) as Hr. cbn [subst map] in *. rewrite Hx, Hr. reflexivity. }
      apply Es_set_cols; [|exact H1]. apply E_patch_col; [exact (Es_cols _ _ H1)|]. intros; reflexivity.
  - (* PDropP *)
    destruct Hv as [Hd Hv]. cbn [process]. unfold bind.
    sub IHp Hv Hst c st st' q s1 p1 q' s1' p1' Hq Hs1 Hp1.
    unfold result_variant. split; [|split; [exact Hs1|cbn [planner_variant]; auto]].
    assert (H1 : Es (set_cols (patch_col (s_cols q) "labels" (fun l => map_drop_filter l params)) q) =
                 Es (set_cols (patch_col (s_cols q') "labels" (fun l => map_drop_filter l params0)) q')).
    { apply Es_set_cols; [|exact Hq]. apply E_patch_col; [exact (Es_cols q q' Hq)|].
      intros x x' Hx. apply E_map_drop_filter; assumption. }
    apply Es_set_cols; [|exact H1]. apply E_patch_col; [exact (Es_cols _ _ H1)|]. intros; reflexivity.
  - (* PLabelsJoin *)
    destruct Hv as (Hv1 & Hv2 & Hv3 & <-). cbn [process]. unfold bind.
    pose proof (with_connector_variant process p3 p'3 p2 p'2 c st st'
                  (fun q w => and_prewhere [Sql.In (Id "time_series.fingerprint") [WRef (fst w) (snd w)]] q)
                  (fun a b H => IHp3 p'3 c a b Hv3 H) (fun a b H => IHp2 p'2 c a b Hv2 H) Hv2) as H.
    specialize (H ltac:(intros q q' a m m' Hq Hm; cbn [fst snd]; apply Es_and_prewhere; [cbn [map subst]; unfold subst_sel in Hm; rewrite Hm; reflexivity|exact Hq]) Hst).
    dres4 H tq s1 m1 w1 tq' s1' m1' w1' Htq Hs1 Hm1 Hw1.
    sub IHp1 Hv1 Hs1 c s1 s1' q s2 pm1 q' s2' pm1' Hq Hs2 Hpm1.
    unfold result_variant. split; [|split].
    + push. rewrite Hq, Htq. reflexivity.
    + destruct with_labels_cache; [apply pst_set_labels; [reflexivity|exact Htq|exact Hs2]|exact Hs2].
    + cbn [planner_variant]. auto.
  - (* PMainRenew *)
    destruct Hv as [Hv <-]. cbn [process]. unfold bind.
    sub IHp Hv Hst c st st' q s1 p1 q' s1' p1' Hq Hs1 Hp1.
    nid Hs1 s1 s1' i s2 s2' Hs2.
    unfold result_variant. split; [|split; [exact Hs2|cbn [planner_variant]; auto]].
    push. rewrite Hq. reflexivity.
  - (* PMainOrderBy *)
    destruct Hv as [<- Hv]. cbn [process]. unfold bind.
    sub IHp Hv Hst c st st' q s1 p1 q' s1' p1' Hq Hs1 Hp1.
    unfold result_variant. split; [|split; [exact Hs1|cbn [planner_variant]; auto]].
    push. rewrite Hq. reflexivity.
  - (* PMainLimit *)
    cbn [process]. unfold bind.
    sub IHp Hv Hst c st st' q s1 p1 q' s1' p1' Hq Hs1 Hp1.
    unfold result_variant. split; [|split; [exact Hs1|cbn [planner_variant]; auto]].
    destruct (Z.eqb (c_limit c) 0); [exact Hq|]. push. rewrite Hq. reflexivity.
  - (* PMainFinalizer *)
    destruct Hv as (Hv & <- & <-). cbn [process]. unfold bind.
    pose proof (pst_clear st st' Hst) as Hst0.
    sub IHp Hv Hst0 c (clear_caches st) (clear_caches st') q s1 p1 q' s1' p1' Hq Hs1 Hp1.
    destruct (negb (c_finalize c)); [unfold result_variant; cbn [planner_variant]; auto|].
    destruct is_matrix; unfold result_variant; (split; [|split; [exact Hs1|cbn [planner_variant]; auto]]); push; rewrite Hq; reflexivity.
  - (* PLraP *)
    destruct Hv as (<- & <- & <- & Hv). cbn [process]. unfold bind.
    sub IHp Hv Hst c st st' q s1 p1 q' s1' p1' Hq Hs1 Hp1.
    destruct (lra_val_of f dur_ns) as [v|]; [|exact I].
    unfold result_variant. split; [|split; [exact Hs1|cbn [planner_variant]; auto]].
    pose proof (E_rename_string _ _ (Es_cols q q' Hq)) as H1.
    push. rewrite H1, Hq. reflexivity.
  - (* PUnwrapP *)
    destruct Hv as [Hu Hv]. cbn [process]. unfold bind.
    sub IHp Hv Hst c st st' q s1 p1 q' s1' p1' Hq Hs1 Hp1.
    pose proof (Es_cols q q' Hq) as Hc.
    pose proof (E_get_col _ _ "labels" Hc) as Hl.
    destruct (get_col (s_cols q) "labels") as [lb|], (get_col (s_cols q') "labels") as [lb'|]; try contradiction; [|exact I].
    cbn [opt_E] in Hl. unfold unwrap_variant in Hu. rewrite Hu.
    assert (Hu1 : unwrap_variant label label0) by exact Hu.
    destruct (String.eqb label0 "_entry").
    + pose proof (E_get_col _ _ "string" Hc) as Hs.
      destruct (get_col (s_cols q) "string") as [src|], (get_col (s_cols q') "string") as [src'|]; try contradiction; [|exact I].
      cbn [opt_E] in Hs. unfold result_variant. split; [|split; [exact Hs1|cbn [planner_variant]; auto]].
      apply Es_set_cols; [|exact Hq]. apply E_patch_col; [exact Hc|]. intros x x' _. cbn [subst map]. rewrite Hs. reflexivity.
    + unfold result_variant. split; [|split; [exact Hs1|cbn [planner_variant]; auto]].
      apply Es_set_cols; [|exact Hq]. apply E_patch_col; [exact Hc|]. intros x x' _. cbn [subst map]. rewrite Hl. reflexivity.
  - (* PUnwrapFnP *)
    destruct Hv as (<- & <- & Hv). cbn [process]. unfold bind.
    sub IHp Hv Hst c st st' q s1 p1 q' s1' p1' Hq Hs1 Hp1.
    destruct (uw_val_of f dur_ns) as [v|]; [|exact I].
    unfold result_variant. split; [|split; [exact Hs1|cbn [planner_variant]; auto]].
    push. rewrite Hq. reflexivity.
  - (* PByWithoutP *)
    destruct Hv as (Hlen & <- & <- & Hv). cbn [process]. unfold bind.
    sub IHp Hv Hst c st st' q s1 p1 q' s1' p1' Hq Hs1 Hp1.
    destruct (negb use_ts).
    + nid Hs1 s1 s1' i s2 s2' Hs2.
      unfold result_variant. split; [|split; [exact Hs2|cbn [planner_variant]; auto]].
      push. rewrite Hq, (E_bw_filter _ _ labels labels0 by_ eq_refl Hlen). reflexivity.
    + match goal with
      | |- result_variant (match ?x with Some _ => _ | None => None end) (match ?y with Some _ => _ | None => None end) =>
        assert (Hls : match x, y with Some a, Some b => Es a = Es b | None, None => True | _, _ => False end);
        [|destruct x as [ls|]; destruct y as [ls'|]; try contradiction; [|exact I]]
      end.
      { destruct Hs1 as (Hi & Hf & Hl). unfold cache_variant, erase_sel, subst_sel in Hl, Hf.
        destruct (labels_cache s1) as [w|], (labels_cache s1') as [w'|]; try contradiction.
        - destruct Hl as [Ha Hw]. push. rewrite Ha, Hw, (E_bw_filter _ _ labels labels0 by_ eq_refl Hlen). reflexivity.
        - destruct (fp_cache s1) as [w|], (fp_cache s1') as [w'|]; try contradiction; [|exact I]. destruct Hf as [Ha Hw].
          assert (Hfrom : Es (labels_from_scratch c w) = Es (labels_from_scratch c w')).
          { unfold labels_from_scratch. apply Es_and_prewhere; [cbn [map subst]; rewrite Ha, Hw; reflexivity|reflexivity]. }
          apply Es_set_cols; [|exact Hfrom]. rewrite !map_app. f_equal.
          apply E_patch_col; [exact (Es_cols _ _ Hfrom)|]. intros x x' Hx. apply E_bw_filter; assumption. }
      nid Hs1 s1 s1' i1 s2 s2' Hs2.
      assert (Hs3 : pst_variant (set_labels_cache (("labels_" ++ string_of_N i')%string, ls) s2) (set_labels_cache (("labels_" ++ string_of_N i')%string, ls') s2'))
        by (apply pst_set_labels; [reflexivity|exact Hls|exact Hs2]).
      nid Hs3 (set_labels_cache (("labels_" ++ string_of_N i')%string, ls) s2) (set_labels_cache (("labels_" ++ string_of_N i')%string, ls') s2') i2 s4 s4' Hs4.
      unfold result_variant. split; [|split; [exact Hs4|cbn [planner_variant]; auto]].
      unfold subst_sel in Hls. push. rewrite Hq, Hls. reflexivity.
  - (* PAggOpP *)
    destruct Hv as (<- & <- & Hv). cbn [process]. unfold bind.
    sub IHp Hv Hst c st st' q s1 p1 q' s1' p1' Hq Hs1 Hp1.
    unfold result_variant. split; [|split; [exact Hs1|cbn [planner_variant]; auto]].
    push. rewrite Hq. reflexivity.
  - (* PComparisonP *)
    destruct Hv as (<- & <- & Hv). cbn [process]. unfold bind.
    sub IHp Hv Hst c st st' q s1 p1 q' s1' p1' Hq Hs1 Hp1.
    unfold result_variant. split; [|split; [exact Hs1|cbn [planner_variant]; auto]].
    pose proof (Es_groupby_nil q q' Hq) as Hg.
    destruct (s_groupby q), (s_groupby q'); try discriminate Hg; push; rewrite Hq; reflexivity.
  - (* PTopKP *)
    destruct Hv as (<- & <- & Hv). cbn [process]. unfold bind.
    sub IHp Hv Hst c st st' q s1 p1 q' s1' p1' Hq Hs1 Hp1.
    unfold result_variant. split; [|split; [exact Hs1|cbn [planner_variant]; auto]].
    rewrite (E_has_column _ _ "labels" (Es_cols q q' Hq)).
    destruct (has_column (s_cols q') "labels"); push; rewrite Hq; reflexivity.
  - (* PQuantileP *)
    destruct Hv as (<- & <- & Hv). cbn [process]. unfold bind.
    sub IHp Hv Hst c st st' q s1 p1 q' s1' p1' Hq Hs1 Hp1.
    unfold result_variant. split; [|split; [exact Hs1|cbn [planner_variant]; auto]].
    rewrite (E_has_column _ _ "labels" (Es_cols q q' Hq)).
    destruct (has_column (s_cols q') "labels"); push; rewrite Hq; reflexivity.
  - (* PStepFixP *)
    destruct Hv as (<- & Hv). cbn [process]. unfold bind.
    sub IHp Hv Hst c st st' q s1 p1 q' s1' p1' Hq Hs1 Hp1.
    destruct (Z.leb (c_step_ns c) dur_ns); unfold result_variant; (split; [|split; [exact Hs1|cbn [planner_variant]; auto]]); [exact Hq|].
    rewrite (E_has_column _ _ "labels" (Es_cols q q' Hq)).
    destruct (has_column (s_cols q') "labels"); push; rewrite Hq; reflexivity.
  - (* PMetrics15 *)
    destruct Hv as (<- & <-). cbn [process]. unfold bind.
    destruct (m15_val_of f dur_ns) as [v|]; [|exact I].
    unfold result_variant. split; [reflexivity|]. split; [exact Hst|apply planner_variant_m15].
  - (* PLineFormatP *)
    destruct Hv as (Ht & Hv). cbn [process]. unfold bind.
    sub IHp Hv Hst c st st' q s1 p1 q' s1' p1' Hq Hs1 Hp1.
    nid Hs1 s1 s1' i s2 s2' Hs2.
    pose proof Ht as Ht0. unfold tpl_variant in Ht.
    destruct (tpl_parse tmpl) as [nodes| |], (tpl_parse tmpl0) as [nodes'| |]; try contradiction; try exact I.
    unfold result_variant. split; [|split; [exact Hs2|cbn [planner_variant]; auto]].
    apply Es_set_cols; [|exact Hq]. apply E_patch_col; [exact (Es_cols q q' Hq)|]. intros x x' _. exact Ht.
Qed.

(* ---------- planner.plan(): requests that differ only in values get the same tree of planner objects ---------- *)
Lemma stage_kinds s s' : stage_variant s s' ->
  is_parser s = is_parser s' /\ is_label_filter s = is_label_filter s' /\ is_relabel s = is_relabel s' /\ is_drop s = is_drop s'.
Proof. destruct s, s'; cbn; intro H; try contradiction; auto. Qed.

Lemma simple_ops_variant ppl ppl' : Forall2 stage_variant ppl ppl' -> simple_ops ppl = simple_ops ppl'.
Proof.
  induction 1 as [|s s' l l' Hs Hl IH]; [reflexivity|].
  cbn [simple_ops]. destruct (stage_kinds s s' Hs) as (_ & Hlf & Hr & _). rewrite Hr, Hlf, IH.
  destruct (is_relabel s'); [|reflexivity].
  cbn [map]. f_equal. clear - Hl. induction Hl; [reflexivity|]. cbn [map]. now f_equal.
Qed.

Lemma labels_join_idx_variant ppl ppl' : Forall2 stage_variant ppl ppl' -> forall simple i,
  labels_join_idx ppl simple i = labels_join_idx ppl' simple i.
Proof.
  induction 1 as [|s s' l l' Hs Hl IH]; intros simple i; [reflexivity|].
  cbn [labels_join_idx]. destruct simple as [|b bs]; [destruct s, s'; try contradiction; reflexivity|].
  destruct s, s'; try contradiction; try reflexivity; try apply IH. destruct b; [apply IH|reflexivity].
Qed.

Lemma renew_after_variant ppl ppl' : Forall2 stage_variant ppl ppl' -> forall lji i, renew_after ppl lji i = renew_after ppl' lji i.
Proof.
  induction 1 as [|s s' l l' Hs Hl IH]; intros lji i; [reflexivity|].
  cbn [renew_after]. rewrite (IH lji (S i)). f_equal.
  destruct (stage_kinds s s' Hs) as (Hp & _ & _ & Hd). rewrite Hp, Hd.
  destruct Hl as [|n n' r r' Hn _]; [reflexivity|].
  destruct (stage_kinds n n' Hn) as (Hp' & _ & Hr' & Hd'). rewrite Hp', Hd', Hr'.
  destruct s, s'; try contradiction; reflexivity.   (* the line_format clause of renew_after (repair 42297ce, b4-lf) *)
Qed.

Lemma plan_ts_variant ms ms' ppl ppl' : Forall2 matcher_variant ms ms' -> Forall2 stage_variant ppl ppl' -> forall simple,
  planner_variant (plan_ts ms ppl simple) (plan_ts ms' ppl' simple).
Proof.
  intros Hm Hp simple. unfold plan_ts.
  assert (H0 : planner_variant (PStreamSelect ms) (PStreamSelect ms')) by exact Hm.
  revert simple H0. generalize (PStreamSelect ms) (PStreamSelect ms').
  induction Hp as [|s s' l l' Hs _ IH]; intros a a' simple Ha; [exact Ha|].
  destruct simple as [|b bs]; [exact Ha|]. cbn [combine fold_left fst snd]. apply IH.
  destruct s, s'; try contradiction; try exact Ha. destruct b; [|exact Ha]. cbn [planner_variant]. split; [exact Hs|exact Ha].
Qed.

Lemma plan_stage_variant s s' b cur cur' : stage_variant s s' -> planner_variant cur cur' ->
  opt_planner_variant (plan_stage s b cur) (plan_stage s' b cur').
Proof.
  intros Hs Hc. destruct s, s'; try contradiction; cbn [plan_stage opt_planner_variant stage_variant] in *; try exact I.
  - destruct Hs as (Ho & Hr & _). cbn [planner_variant]. auto.
  - destruct b; [exact Hc|]. cbn [planner_variant]. auto.
  - destruct Hs as [Hf Hp]. cbn [planner_variant]. auto.
  - cbn [planner_variant]. auto.
  - cbn [planner_variant]. auto.
  - destruct b; [exact Hc|]. cbn [planner_variant]. auto.
Qed.

Lemma plan_spl_variant ppl ppl' : Forall2 stage_variant ppl ppl' -> forall simple renew i lji fp fp' cur cur',
  planner_variant fp fp' -> planner_variant cur cur' ->
  opt_planner_variant (plan_spl ppl simple renew i lji fp cur) (plan_spl ppl' simple renew i lji fp' cur').
Proof.
  induction 1 as [|s s' l l' Hs _ IH]; intros simple renew i lji fp fp' cur cur' Hf Hc; [exact Hc|].
  cbn [plan_spl]. destruct simple as [|b bs]; [exact Hc|]. destruct renew as [|rn rns]; [exact Hc|].
  set (j := match lji with Some j => Nat.eqb i j | None => false end).
  assert (H1 : planner_variant (if j then PLabelsJoin (PMainOrderBy ["timestamp_ns"] cur) fp PTimeSeriesInit true else cur)
                               (if j then PLabelsJoin (PMainOrderBy ["timestamp_ns"] cur') fp' PTimeSeriesInit true else cur')).
  { destruct j; [|exact Hc]. cbn [planner_variant]. auto. }
  pose proof (plan_stage_variant s s' b _ _ Hs H1) as H2. unfold opt_planner_variant in H2.
  destruct (plan_stage s b _) as [c2|], (plan_stage s' b _) as [c2'|]; try contradiction; [|exact I].
  apply IH; [exact Hf|]. destruct rn; [|exact H2]. cbn [planner_variant]. auto.
Qed.

Lemma plan_log_variant sel sel' fin : strsel_variant sel sel' -> opt_planner_variant (plan_log sel fin) (plan_log sel' fin).
Proof.
  intros [Hm Hp]. unfold plan_log.
  rewrite <- (simple_ops_variant _ _ Hp), <- (labels_join_idx_variant _ _ Hp), <- (renew_after_variant _ _ Hp).
  set (simple := simple_ops (sel_pipeline sel)). set (lji := labels_join_idx (sel_pipeline sel) simple 0).
  pose proof (plan_ts_variant _ _ _ _ Hm Hp simple) as Hts.
  pose proof (plan_spl_variant _ _ Hp simple (renew_after (sel_pipeline sel) lji 0) 0 lji _ _
                (PFingerprintFilter (plan_ts (sel_matchers sel) (sel_pipeline sel) simple) PMainInit)
                (PFingerprintFilter (plan_ts (sel_matchers sel') (sel_pipeline sel') simple) PMainInit) Hts) as H.
  specialize (H ltac:(cbn [planner_variant]; auto)). unfold opt_planner_variant in H.
  destruct (plan_spl (sel_pipeline sel) _ _ _ _ _ _) as [spl|], (plan_spl (sel_pipeline sel') _ _ _ _ _ _) as [spl'|]; try contradiction; [|exact I].
  cbn [opt_planner_variant]. destruct fin, lji; cbn [planner_variant]; auto 10.
Qed.

(* ---------- metric requests ---------- *)
Lemma stream_selector_variant s s' : script_variant s s' -> strsel_variant (stream_selector s) (stream_selector s').
Proof.
  destruct s, s'; cbn [script_variant stream_selector]; intro H; try contradiction; try exact H.
  - exact (proj1 (proj2 (proj2 H))).
  - destruct H as (_ & _ & Hl & _). exact (proj1 (proj2 (proj2 Hl))).
  - destruct H as (_ & _ & Ha & _). unfold topk_arg_variant in Ha.
    destruct (tk_arg t), (tk_arg t0); try contradiction.
    + exact (proj1 (proj2 (proj2 Ha))).
    + destruct Ha as (_ & _ & Hl & _). exact (proj1 (proj2 (proj2 Hl))).
    + exact (proj1 (proj2 (proj2 Ha))).
  - exact (proj1 (proj2 (proj2 H))).
  - split; constructor.
Qed.

Lemma m15_stage_ok_variant s s' : stage_variant s s' -> m15_stage_ok s = m15_stage_ok s'.
Proof.
  destruct s, s'; cbn [stage_variant m15_stage_ok]; intro H; try contradiction; try reflexivity.
  destruct H as (<- & _ & He). destruct op; try reflexivity; exact He.
Qed.
Lemma forallb_m15_variant l l' : Forall2 stage_variant l l' -> forallb m15_stage_ok l = forallb m15_stage_ok l'.
Proof. induction 1 as [|s s' l l' Hs _ IH]; [reflexivity|]. cbn [forallb]. now rewrite IH, (m15_stage_ok_variant s s' Hs). Qed.

Definition opt_lra_variant (x y : option lra) : Prop :=
  match x, y with Some a, Some b => lra_variant a b | None, None => True | _, _ => False end.
Lemma first_lra_variant s s' : script_variant s s' -> opt_lra_variant (first_lra s) (first_lra s').
Proof.
  destruct s, s'; cbn [script_variant first_lra opt_lra_variant]; intro H; try contradiction; try exact I; try exact H.
  - exact (proj1 (proj2 (proj2 H))).
  - destruct H as (_ & _ & Ha & _). unfold topk_arg_variant in Ha.
    destruct (tk_arg t), (tk_arg t0); try contradiction; cbn [opt_lra_variant]; [exact Ha| |exact I].
    exact (proj1 (proj2 (proj2 Ha))).
Qed.

Lemma analyze_m15_variant s s' : script_variant s s' -> analyze_m15 s = analyze_m15 s'.
Proof.
  intro H. unfold analyze_m15. pose proof (first_lra_variant s s' H) as Hl. unfold opt_lra_variant in Hl.
  destruct (first_lra s) as [l|], (first_lra s') as [l'|]; try contradiction; [|reflexivity].
  destruct Hl as (Hf & _ & Hs & Hd & _). rewrite Hf, Hd, (forallb_m15_variant _ _ (proj2 Hs)). reflexivity.
Qed.

Lemma Forall2_app_r {A} (R : A -> A -> Prop) l l' x x' : Forall2 R l l' -> R x x' -> Forall2 R (l ++ [x]) (l' ++ [x']).
Proof. induction 1; cbn [app]; intro; constructor; auto. Qed.
Lemma Forall2_rev_ {A} (R : A -> A -> Prop) l l' : Forall2 R l l' -> Forall2 R (rev l) (rev l').
Proof. induction 1; cbn [rev]; [constructor|]. apply Forall2_app_r; assumption. Qed.
Lemma last_is_unwrap_variant l l' : Forall2 stage_variant l l' -> last_is_unwrap l = last_is_unwrap l'.
Proof.
  intro H. unfold last_is_unwrap. pose proof (Forall2_rev_ _ _ _ H) as Hr.
  destruct Hr as [|s s' r r' Hs _]; [reflexivity|]. destruct s, s'; try contradiction; reflexivity.
Qed.

Definition mfn_variant (f f' : mfn) : Prop :=
  match f, f' with
  | MLra l, MLra l' => lra_variant l l'
  | MUnwrapFn l, MUnwrapFn l' => lra_variant l l'
  | MAgg a, MAgg a' => agg_variant a a'
  | MTopK t, MTopK t' => topk_variant t t'
  | MQuantile q, MQuantile q' => quantile_variant q q'
  | MCmp c, MCmp c' => c = c'
  | _, _ => False
  end.

Lemma Forall2_app_ {A} (R : A -> A -> Prop) a a' b b' : Forall2 R a a' -> Forall2 R b b' -> Forall2 R (a ++ b) (a' ++ b').
Proof. induction 1; cbn [app]; intro; [assumption|constructor; auto]. Qed.

Lemma fo_cmp_variant c : Forall2 mfn_variant (fo_cmp c) (fo_cmp c).
Proof. destruct c; cbn [fo_cmp]; [constructor; [reflexivity|constructor]|constructor]. Qed.

Lemma fo_lra_variant l l' acc acc' lidx : lra_variant l l' -> Forall2 mfn_variant acc acc' ->
  Forall2 mfn_variant (fst (fo_lra l acc lidx)) (fst (fo_lra l' acc' lidx)) /\ snd (fo_lra l acc lidx) = snd (fo_lra l' acc' lidx).
Proof.
  intros Hl Ha. pose proof Hl as (_ & _ & Hs & _ & _ & Hc). unfold fo_lra.
  rewrite (last_is_unwrap_variant _ _ (proj2 Hs)), Hc, (Forall2_len _ _ _ Ha).
  destruct (last_is_unwrap _); cbn [fst snd]; (split; [|reflexivity]);
    (apply Forall2_app_; [exact Ha|]); (apply Forall2_app_; [|apply fo_cmp_variant]); (constructor; [exact Hl|constructor]).
Qed.

Lemma is_some_bw x y : opt_bw_variant x y -> is_some x = is_some y.
Proof. destruct x, y; cbn; intro; try contradiction; reflexivity. Qed.

Lemma fo_agg_variant a a' acc acc' lidx : agg_variant a a' -> Forall2 mfn_variant acc acc' ->
  Forall2 mfn_variant (fst (fo_agg a acc lidx)) (fst (fo_agg a' acc' lidx)) /\ snd (fo_agg a acc lidx) = snd (fo_agg a' acc' lidx).
Proof.
  intros Hv Ha. pose proof Hv as (_ & Hp & Hl & Hs & Hc). unfold fo_agg.
  destruct (fo_lra_variant _ _ acc acc' lidx Hl Ha) as [H1 H2].
  destruct (fo_lra (agg_lra a) acc lidx) as [acc1 l1], (fo_lra (agg_lra a') acc' lidx) as [acc1' l1']. cbn [fst snd] in *. subst l1'.
  rewrite (is_some_bw _ _ Hp), (is_some_bw _ _ Hs), Hc, (Forall2_len _ _ _ H1). split; [|reflexivity].
  apply Forall2_app_; [exact H1|]. apply Forall2_app_; [|apply fo_cmp_variant]. constructor; [exact Hv|constructor].
Qed.

Lemma fo_quantile_variant q q' acc acc' lidx : quantile_variant q q' -> Forall2 mfn_variant acc acc' ->
  Forall2 mfn_variant (fst (fo_quantile q acc lidx)) (fst (fo_quantile q' acc' lidx)) /\ snd (fo_quantile q acc lidx) = snd (fo_quantile q' acc' lidx).
Proof.
  intros Hv Ha. pose proof Hv as (_ & _ & _ & _ & _ & Hc). unfold fo_quantile. cbn [fst snd]. split; [|reflexivity]. rewrite Hc.
  apply Forall2_app_; [exact Ha|]. apply Forall2_app_; [|apply fo_cmp_variant]. constructor; [exact Hv|constructor].
Qed.

Lemma function_order_variant s s' : script_variant s s' ->
  Forall2 mfn_variant (fst (function_order s)) (fst (function_order s')) /\ snd (function_order s) = snd (function_order s').
Proof.
  destruct s, s'; cbn [script_variant function_order]; intro H; try contradiction; try solve [split; [constructor|reflexivity]].
  - apply fo_lra_variant; [exact H|constructor].
  - apply fo_agg_variant; [exact H|constructor].
  - pose proof H as (_ & _ & Ha & Hc). unfold topk_arg_variant in Ha.
    assert (Hi : Forall2 mfn_variant
                   (fst (match tk_arg t with TKLra x => fo_lra x [] None | TKAgg a => fo_agg a [] None | TKQuantile q => fo_quantile q [] None end))
                   (fst (match tk_arg t0 with TKLra x => fo_lra x [] None | TKAgg a => fo_agg a [] None | TKQuantile q => fo_quantile q [] None end)) /\
                 snd (match tk_arg t with TKLra x => fo_lra x [] None | TKAgg a => fo_agg a [] None | TKQuantile q => fo_quantile q [] None end) =
                 snd (match tk_arg t0 with TKLra x => fo_lra x [] None | TKAgg a => fo_agg a [] None | TKQuantile q => fo_quantile q [] None end)).
    { destruct (tk_arg t), (tk_arg t0); try contradiction;
        [apply fo_lra_variant|apply fo_agg_variant|apply fo_quantile_variant]; try exact Ha; constructor. }
    destruct (match tk_arg t with TKLra x => fo_lra x [] None | TKAgg a => fo_agg a [] None | TKQuantile q => fo_quantile q [] None end) as [acc l].
    destruct (match tk_arg t0 with TKLra x => fo_lra x [] None | TKAgg a => fo_agg a [] None | TKQuantile q => fo_quantile q [] None end) as [acc' l'].
    cbn [fst snd] in *. destruct Hi as [Hi1 Hi2]. split; [|exact Hi2]. rewrite Hc.
    apply Forall2_app_; [exact Hi1|]. apply Forall2_app_; [|apply fo_cmp_variant]. constructor; [exact H|constructor].
  - apply fo_quantile_variant; [exact H|constructor].
Qed.

Lemma plan_bw_variant pre pre' suf suf' u cur cur' : opt_bw_variant pre pre' -> opt_bw_variant suf suf' -> planner_variant cur cur' ->
  planner_variant (plan_bw pre suf u cur) (plan_bw pre' suf' u cur').
Proof.
  intros Hp Hs Hc. unfold plan_bw.
  assert (H : opt_bw_variant (match suf with Some b => Some b | None => pre end) (match suf' with Some b => Some b | None => pre' end))
    by (destruct suf, suf'; try contradiction; [exact Hs|exact Hp]).
  destruct (match suf with Some b => Some b | None => pre end) as [b|], (match suf' with Some b => Some b | None => pre' end) as [b'|]; try contradiction; [|exact Hc].
  destruct H as [Hb Hl]. cbn [planner_variant]. auto.
Qed.

Lemma plan_cmp_variant c cur cur' : planner_variant cur cur' -> planner_variant (plan_cmp c cur) (plan_cmp c cur').
Proof. intro H. destruct c; cbn [plan_cmp planner_variant]; auto. Qed.

Lemma plan_topk_variant t t' cur cur' : topk_variant t t' -> planner_variant cur cur' -> opt_planner_variant (plan_topk t cur) (plan_topk t' cur').
Proof. intros (Ht & Hl & _) Hc. unfold plan_topk. rewrite Hl, Ht. destruct (Z.ltb (tk_len t') 0); cbn [opt_planner_variant planner_variant]; auto. Qed.

Lemma apply_mfn_variant a b f f' cur cur' : mfn_variant f f' -> planner_variant cur cur' ->
  opt_planner_variant (apply_mfn a b f cur) (apply_mfn a b f' cur').
Proof.
  intros Hf Hc. destruct f, f'; try contradiction; cbn [mfn_variant apply_mfn opt_planner_variant] in *.
  - destruct Hf as (Hff & _ & _ & Hd & _). cbn [planner_variant]. auto.
  - pose proof Hf as (Hff & Hp & _ & Hd & Hs & _). cbn [planner_variant]. split; [exact Hff|]. split; [exact Hd|]. apply plan_bw_variant; assumption.
  - pose proof Hf as (Hff & Hp & _ & Hs & _). cbn [planner_variant]. split; [exact Hff|]. split; [reflexivity|]. apply plan_bw_variant; assumption.
  - apply plan_topk_variant; assumption.
  - pose proof Hf as (Hp & Hq & _ & Hd & Hs & _). cbn [planner_variant]. split; [exact Hq|]. split; [exact Hd|]. apply plan_bw_variant; assumption.
  - subst. cbn [planner_variant]. auto.
Qed.

Lemma apply_mfns_variant a b fs fs' : Forall2 mfn_variant fs fs' -> forall cur cur', planner_variant cur cur' ->
  opt_planner_variant (apply_mfns a b fs cur) (apply_mfns a b fs' cur').
Proof.
  induction 1 as [|f f' l l' Hf _ IH]; intros cur cur' Hc; [exact Hc|].
  cbn [apply_mfns]. pose proof (apply_mfn_variant a b f f' cur cur' Hf Hc) as H. unfold opt_planner_variant in H.
  destruct (apply_mfn a b f cur), (apply_mfn a b f' cur'); try contradiction; [apply IH; exact H|exact I].
Qed.

Lemma m15_lra_variant fp fp' l l' : planner_variant fp fp' -> lra_variant l l' -> planner_variant (m15_lra fp l) (m15_lra fp' l').
Proof.
  intros Hf (Hff & _ & _ & Hd & _ & Hc). unfold m15_lra. rewrite Hc, Hff, Hd. apply plan_cmp_variant. cbn [planner_variant]. auto.
Qed.
Lemma m15_agg_variant fp fp' a a' : planner_variant fp fp' -> agg_variant a a' ->
  planner_variant (fst (m15_agg fp a)) (fst (m15_agg fp' a')) /\ snd (m15_agg fp a) = snd (m15_agg fp' a').
Proof.
  intros Hf (Hff & Hp & Hl & Hs & Hc). unfold m15_agg. cbn [fst snd]. rewrite Hc, Hff, (is_some_bw _ _ Hp), (is_some_bw _ _ Hs).
  split; [|reflexivity]. apply plan_cmp_variant. cbn [planner_variant]. split; [reflexivity|]. split; [reflexivity|].
  apply plan_bw_variant; [exact Hp|exact Hs|]. apply m15_lra_variant; assumption.
Qed.

Definition opt_pb_variant (x y : option (planner * bool)) : Prop :=
  match x, y with Some a, Some b => planner_variant (fst a) (fst b) /\ snd a = snd b | None, None => True | _, _ => False end.
Lemma plan_m15_variant fp fp' s s' : planner_variant fp fp' -> script_variant s s' -> opt_pb_variant (plan_m15 fp s) (plan_m15 fp' s').
Proof.
  intros Hf H. destruct s, s'; cbn [script_variant plan_m15 opt_pb_variant] in *; try contradiction; try exact I.
  - cbn [fst snd]. split; [apply m15_lra_variant; assumption|reflexivity].
  - apply m15_agg_variant; assumption.
  - pose proof H as (_ & _ & Ha & Hc). unfold topk_arg_variant in Ha.
    assert (Hi : opt_pb_variant (match tk_arg t with TKLra l => Some (m15_lra fp l, false) | TKAgg a => Some (m15_agg fp a) | TKQuantile _ => None end)
                                (match tk_arg t0 with TKLra l => Some (m15_lra fp' l, false) | TKAgg a => Some (m15_agg fp' a) | TKQuantile _ => None end)).
    { destruct (tk_arg t), (tk_arg t0); try contradiction; cbn [opt_pb_variant fst snd]; [split; [apply m15_lra_variant; assumption|reflexivity]| |exact I].
      apply m15_agg_variant; assumption. }
    destruct (match tk_arg t with TKLra l => Some (m15_lra fp l, false) | TKAgg a => Some (m15_agg fp a) | TKQuantile _ => None end) as [[inner wl]|];
    destruct (match tk_arg t0 with TKLra l => Some (m15_lra fp' l, false) | TKAgg a => Some (m15_agg fp' a) | TKQuantile _ => None end) as [[inner' wl']|];
      try contradiction; [|exact I].
    cbn [opt_pb_variant fst snd] in Hi. destruct Hi as [Hi1 <-].
    pose proof (plan_topk_variant t t0 inner inner' H Hi1) as Ht. unfold opt_planner_variant in Ht.
    destruct (plan_topk t inner), (plan_topk t0 inner'); try contradiction; [|exact I].
    cbn [fst snd]. rewrite Hc. split; [apply plan_cmp_variant; exact Ht|reflexivity].
Qed.

Lemma get_duration_variant s s' : script_variant s s' -> get_duration s = get_duration s'.
Proof.
  destruct s, s'; cbn [script_variant get_duration]; intro H; try contradiction; try reflexivity.
  - exact (proj1 (proj2 (proj2 (proj2 H)))).
  - destruct H as (_ & _ & Hl & _). exact (proj1 (proj2 (proj2 (proj2 Hl)))).
  - destruct H as (_ & _ & Ha & _). unfold topk_arg_variant in Ha. destruct (tk_arg t), (tk_arg t0); try contradiction.
    + exact (proj1 (proj2 (proj2 (proj2 Ha)))).
    + destruct Ha as (_ & _ & Hl & _). exact (proj1 (proj2 (proj2 (proj2 Hl)))).
    + exact (proj1 (proj2 (proj2 (proj2 Ha)))).
  - exact (proj1 (proj2 (proj2 (proj2 H)))).
Qed.

Lemma plan_metric_variant s s' fin : script_variant s s' -> opt_planner_variant (plan_metric s fin) (plan_metric s' fin).
Proof.
  intro H. unfold plan_metric, bind.
  destruct (stream_selector_variant s s' H) as [Hm Hp].
  rewrite <- (analyze_m15_variant s s' H), <- (simple_ops_variant _ _ Hp), <- (labels_join_idx_variant _ _ Hp), <- (renew_after_variant _ _ Hp),
          <- (get_duration_variant s s' H).
  set (ppl := sel_pipeline (stream_selector s)). set (simple := simple_ops ppl). set (lji := labels_join_idx ppl simple 0).
  pose proof (plan_ts_variant _ _ _ _ Hm Hp simple) as Hts. fold ppl in Hts.
  set (fp := plan_ts (sel_matchers (stream_selector s)) ppl simple) in *.
  set (fp' := plan_ts (sel_matchers (stream_selector s')) (sel_pipeline (stream_selector s')) simple) in *.
  destruct (analyze_m15 s).
  - pose proof (plan_m15_variant fp fp' s s' Hts H) as Hm15. unfold opt_pb_variant in Hm15.
    destruct (plan_m15 fp s) as [[p wl]|], (plan_m15 fp' s') as [[p' wl']|]; try contradiction; [|exact I].
    cbn [fst snd] in Hm15. destruct Hm15 as [Hpv <-]. cbn [opt_planner_variant negb andb].
    destruct wl; cbn [negb andb planner_variant]; auto 10.
  - pose proof (plan_spl_variant _ _ Hp simple (renew_after ppl lji 0) 0 lji fp fp' (PFingerprintFilter fp PMainInit) (PFingerprintFilter fp' PMainInit) Hts) as Hs.
    specialize (Hs ltac:(cbn [planner_variant]; auto)). unfold opt_planner_variant in Hs. fold ppl in Hs.
    destruct (plan_spl ppl simple _ 0 lji fp _) as [spl|], (plan_spl (sel_pipeline (stream_selector s')) simple _ 0 lji fp' _) as [spl'|]; try contradiction; [|exact I].
    destruct (function_order_variant s s' H) as [Hfo Hli].
    destruct (function_order s) as [order lidx], (function_order s') as [order' lidx']. cbn [fst snd] in Hfo, Hli. subst lidx'.
    pose proof (apply_mfns_variant (is_some lji) (is_some lidx) order order' Hfo spl spl' Hs) as Ha. unfold opt_planner_variant in Ha.
    destruct (apply_mfns _ _ order spl) as [p|], (apply_mfns _ _ order' spl') as [p'|]; try contradiction; [|exact I].
    cbn [opt_planner_variant]. destruct (negb (is_some lji) && negb (is_some lidx)); cbn [planner_variant]; auto 10.
Qed.

Lemma plan_script_variant s s' fin : script_variant s s' -> opt_planner_variant (plan_script s fin) (plan_script s' fin).
Proof.
  intro H. destruct s, s'; try contradiction; try exact I; try exact (plan_metric_variant _ _ fin H).
  exact (plan_log_variant _ _ fin H).
Qed.

(* ---------- from trees to statements ---------- *)
Lemma pieces_variant q q' cluster : Es q = Es q' ->
  stmt_variant (match pieces q cluster with
                | Some t => Some {| ps_ok := pok QN t; ps_pieces := t; ps_flat := flat t; ps_render := render q cluster |}
                | None => None end)
               (match pieces q' cluster with
                | Some t => Some {| ps_ok := pok QN t; ps_pieces := t; ps_flat := flat t; ps_render := render q' cluster |}
                | None => None end).
Proof.
  intro He.
  pose proof (pieces_subst K q cluster) as H1. pose proof (pieces_subst K q' cluster) as H2. rewrite He, H2 in H1.
  destruct (pieces q cluster) as [t|] eqn:Hp; destruct (pieces q' cluster) as [t'|] eqn:Hp'; try discriminate H1; [|exact I].
  cbn [stmt_variant ps_ok ps_pieces ps_flat ps_render]. intro Hok.
  destruct (erased_equal_same_structure q q' cluster t He Hp Hok) as (t2 & Ht2 & Hok2 & Hsh & Hr & Hr' & Hsk & Hlex & Hlen).
  rewrite Hp' in Ht2. injection Ht2 as <-. auto 10.
Qed.

Lemma run_plan_pieces_variant k : forall p p' c st st', planner_variant p p' -> pst_variant st st' ->
  Forall2 stmt_variant (run_plan_pieces k p c st) (run_plan_pieces k p' c st').
Proof.
  induction k as [|k IH]; intros p p' c st st' Hv Hst; [constructor|].
  cbn [run_plan_pieces]. pose proof (process_variant p p' c st st' Hv Hst) as H. unfold result_variant in H.
  destruct (process p c st) as [[[q s1] p1]|], (process p' c st') as [[[q' s1'] p1']|]; try contradiction; [|constructor; [exact I|constructor]].
  destruct H as (Hq & Hs1 & Hp1). constructor; [exact (pieces_variant q q' (c_cluster c) Hq)|]. apply IH; assumption.
Qed.

Lemma pst0_variant : pst_variant pst0 pst0.
Proof. unfold pst_variant, pst0, cache_variant. cbn. auto. Qed.

(* the property for the LogQL planners, for ALL requests: requests that differ only in their string values are executed as
   statements with the same token structure, every time the plan is run *)
Theorem script_pieces_variant s s' fin c k : script_variant s s' ->
  Forall2 stmt_variant (script_pieces s fin c k) (script_pieces s' fin c k).
Proof.
  intro H. unfold script_pieces. pose proof (plan_script_variant s s' fin H) as Hp. unfold opt_planner_variant in Hp.
  destruct (plan_script s fin) as [p|], (plan_script s' fin) as [p'|]; try contradiction; [|constructor; [exact I|constructor]].
  apply run_plan_pieces_variant; [exact Hp|exact pst0_variant].
Qed.

Theorem log_pieces_variant sel sel' fin c k : strsel_variant sel sel' ->
  Forall2 stmt_variant (log_pieces sel fin c k) (log_pieces sel' fin c k).
Proof.
  intro H. unfold log_pieces. pose proof (plan_log_variant sel sel' fin H) as Hp. unfold opt_planner_variant in Hp.
  destruct (plan_log sel fin) as [p|], (plan_log sel' fin) as [p'|]; try contradiction; [|constructor; [exact I|constructor]].
  apply run_plan_pieces_variant; [exact Hp|exact pst0_variant].
Qed.
