(* The boolean spec oracle of the C07 failing-input search decides the reference semantics:
   sem_b q c d res = true  <->  logql_sem q c d res. *)
From Coq Require Import List ZArith NArith QArith String Ascii Bool Lia Permutation.
From Qryn Require Import lib.Strs model.Sql model.Logql model.LogqlPlan model.SqlEval model.LogqlSem model.LogqlSemCheck.
Import ListNotations.
Open Scope string_scope.

Lemma labels_eqb_eq a : forall b, labels_eqb a b = true <-> a = b.
Proof.
  induction a as [|[k v] a IH]; intros [|[k' v'] b]; cbn [labels_eqb]; try (split; [discriminate|discriminate]); [tauto|].
  rewrite !andb_true_iff, !String.eqb_eq, IH. split.
  - intros [[-> ->] ->]. reflexivity.
  - intros H. injection H as -> -> ->. tauto.
Qed.
Lemma outrow_eqb_eq a b : outrow_eqb a b = true <-> a = b.
Proof.
  unfold outrow_eqb. rewrite !andb_true_iff, !Z.eqb_eq, String.eqb_eq, labels_eqb_eq.
  destruct a, b; cbn. split.
  - intros [[[-> ->] ->] ->]. reflexivity.
  - intros H. injection H as -> -> -> ->. tauto.
Qed.

Lemma remove_one_perm x : forall l l', remove_one x l = Some l' -> Permutation l (x :: l').
Proof.
  induction l as [|y r IH]; intros l' H; cbn [remove_one] in H; [discriminate|].
  destruct (outrow_eqb x y) eqn:E.
  - apply outrow_eqb_eq in E. subst y. injection H as <-. apply Permutation_refl.
  - destruct (remove_one x r) as [r'|]; [|discriminate]. injection H as <-.
    eapply Permutation_trans; [apply perm_skip, (IH r' eq_refl)|apply perm_swap].
Qed.
Lemma remove_one_in x : forall l, List.In x l -> exists l', remove_one x l = Some l'.
Proof.
  induction l as [|y r IH]; intros Hin; [destruct Hin|]. cbn [remove_one].
  destruct (outrow_eqb x y) eqn:E; [eexists; reflexivity|].
  destruct Hin as [->|Hin].
  - assert (outrow_eqb x x = true) by (now apply outrow_eqb_eq). congruence.
  - destruct (IH Hin) as [r' ->]. eexists; reflexivity.
Qed.
Lemma msub_perm : forall res all rest, msub all res = Some rest -> Permutation all (res ++ rest).
Proof.
  induction res as [|x r IH]; intros all rest H; cbn [msub] in H.
  - injection H as <-. apply Permutation_refl.
  - destruct (remove_one x all) as [all'|] eqn:E; [|discriminate].
    eapply Permutation_trans; [apply (remove_one_perm _ _ _ E)|]. cbn [app]. apply perm_skip. now apply IH.
Qed.
Lemma msub_complete : forall res all rest, Permutation all (res ++ rest) ->
  exists rest', msub all res = Some rest' /\ Permutation rest' rest.
Proof.
  induction res as [|x r IH]; intros all rest H; cbn [msub].
  - exists all. split; [reflexivity|exact H].
  - assert (Hin : List.In x all) by (apply (Permutation_in _ (Permutation_sym H)); now left).
    destruct (remove_one_in x all Hin) as [all' E]. rewrite E. apply IH.
    apply (Permutation_cons_inv (a := x)). eapply Permutation_trans; [apply Permutation_sym, (remove_one_perm _ _ _ E)|exact H].
Qed.

Theorem perm_b_iff a b : perm_b a b = true <-> Permutation a b.
Proof.
  unfold perm_b. split.
  - destruct (msub a b) as [[|? ?]|] eqn:E; try discriminate. intros _.
    rewrite <- (app_nil_r b). now apply msub_perm.
  - intros H. rewrite <- (app_nil_r b) in H. destruct (msub_complete _ _ _ H) as [rest' [-> Hp]].
    apply Permutation_sym, Permutation_nil in Hp. now subst.
Qed.

Theorem topk_b_iff asc k all res : topk_b asc k all res = true <-> topk asc k all res.
Proof.
  unfold topk_b, topk. split.
  - destruct (msub all res) as [rest|] eqn:E; [|discriminate]. intros H. apply andb_prop in H. destruct H as [Hl Ho].
    exists rest. split; [now apply msub_perm|]. split; [now apply Z.eqb_eq|].
    intros r o Hr Hoo. rewrite forallb_forall in Ho. specialize (Ho r Hr). rewrite forallb_forall in Ho. specialize (Ho o Hoo).
    destruct asc; now apply Z.leb_le.
  - intros [rest [Hp [Hl Ho]]]. destruct (msub_complete _ _ _ Hp) as [rest' [-> Hp']].
    apply andb_true_intro. split; [now apply Z.eqb_eq|].
    apply forallb_forall. intros r Hr. apply forallb_forall. intros o Hoo.
    apply (Permutation_in _ Hp') in Hoo. specialize (Ho r o Hr Hoo). destruct asc; now apply Z.leb_le.
Qed.

Theorem sem_b_iff {RG : ReGroups} re_match parse_float q c d res :
  sem_b re_match parse_float q c d res = true <-> logql_sem re_match parse_float q c d res.
Proof.
  unfold sem_b, logql_sem. destruct (c_limit c =? 0)%Z; [apply perm_b_iff|apply topk_b_iff].
Qed.

Theorem sem2_b_iff {RG : ReGroups} re_match parse_float json_get hash_labels q c d res :
  sem2_b re_match parse_float json_get hash_labels q c d res = true
  <-> logql_sem2 re_match parse_float json_get hash_labels q c d res.
Proof.
  unfold sem2_b, logql_sem2. destruct (c_limit c =? 0)%Z; [apply perm_b_iff|apply topk_b_iff].
Qed.

(* the boolean oracle for the rows of Plan(script, false) *)
Lemma ts_sorted_b_iff asc l : ts_sorted_b asc l = true <-> ts_sorted asc l.
Proof.
  unfold ts_sorted. induction l as [|a l IH]; [split; [constructor|reflexivity]|].
  destruct l as [|b r].
  - split; [intros _; constructor; constructor|reflexivity].
  - change (ts_sorted_b asc (a :: b :: r)) with
      ((if asc then Z.leb (o_ts a) (o_ts b) else Z.leb (o_ts b) (o_ts a)) && ts_sorted_b asc (b :: r)).
    rewrite andb_true_iff, IH. split.
    + intros [Hab Hs]. constructor; [exact Hs|]. inversion Hs as [|? ? Hs' Hall]; subst.
      assert (Hab' : if asc then (o_ts a <= o_ts b)%Z else (o_ts b <= o_ts a)%Z) by (destruct asc; now apply Z.leb_le).
      constructor; [exact Hab'|]. rewrite Forall_forall in *. intros x Hx. specialize (Hall x Hx).
      destruct asc; lia.
    + intros Hs. inversion Hs as [|? ? Hs' Hall]; subst. split; [|exact Hs'].
      inversion Hall as [|? ? Hab _]; subst. destruct asc; now apply Z.leb_le.
Qed.
Theorem sem2_bp_b_iff {RG : ReGroups} re_match parse_float json_get hash_labels q c d res :
  sem2_bp_b re_match parse_float json_get hash_labels q c d res = true
  <-> Permutation res (log_rows2 re_match parse_float json_get hash_labels q c d) /\ ts_sorted (c_asc c) res.
Proof. unfold sem2_bp_b. rewrite andb_true_iff, perm_b_iff, ts_sorted_b_iff. reflexivity. Qed.

(* fragment 3 (| line_format: the line travels with the state): the oracles that judge every case of the search *)
Theorem sem3_b_iff {RG : ReGroups} re_match parse_float json_get hash_labels q c d res :
  sem3_b re_match parse_float json_get hash_labels q c d res = true
  <-> logql_sem3 re_match parse_float json_get hash_labels q c d res.
Proof.
  unfold sem3_b, logql_sem3. destruct (c_limit c =? 0)%Z; [apply perm_b_iff|apply topk_b_iff].
Qed.
Theorem sem3_bp_b_iff {RG : ReGroups} re_match parse_float json_get hash_labels q c d res :
  sem3_bp_b re_match parse_float json_get hash_labels q c d res = true
  <-> Permutation res (log_rows3 re_match parse_float json_get hash_labels q c d) /\ ts_sorted (c_asc c) res.
Proof. unfold sem3_bp_b. rewrite andb_true_iff, perm_b_iff, ts_sorted_b_iff. reflexivity. Qed.
