(* C17: the statement of the DOWN-SAMPLED path (PromSel.transpile_label_matchers_downsample = TranspileLabelMatchersDownsample)
   under the reference interpreter PromDown.eval_down = the list reading PromDown.down_rows, for every hint, context without
   LIMIT and matcher set; what a down-sampled sample is in terms of the stored samples; why the path is outside the
   quantifier of C17 ("a PromQL query over raw samples"). *)
From Coq Require Import List ZArith NArith String Ascii Bool Lia.
From Qryn Require Import lib.Strs lib.DecN model.Sql model.SqlRender model.Logql model.LogqlPlan model.PromSelect
  model.PromSel model.PromSem model.PromCase model.PromDown proofs.PromSelProofs proofs.ProfAbsProofs.
Import ListNotations.
Open Scope string_scope.

(* ---------- "%d000000": the spliced numeral reads back as the number times a million ---------- *)
Lemma N_of_dec_aux_app s1 : forall s2 acc,
  N_of_dec_aux (s1 ++ s2) acc = match N_of_dec_aux s1 acc with Some a => N_of_dec_aux s2 a | None => None end.
Proof.
  induction s1 as [|c s1 IH]; intros s2 acc; [reflexivity|]. cbn [append N_of_dec_aux].
  destruct (digit_val c); [apply IH|reflexivity].
Qed.
Lemma N_of_dec_aux_zeros a : N_of_dec_aux "000000" a = Some (a * 1000000)%N.
Proof.
  assert (H0 : digit_val "0" = Some 0%N) by reflexivity.
  change "000000" with (String "0" (String "0" (String "0" (String "0" (String "0" (String "0" EmptyString)))))).
  cbn [N_of_dec_aux]. rewrite H0. f_equal. lia.
Qed.
Lemma N_of_dec_six_zeros n : N_of_dec (string_of_N n ++ "000000") = Some (n * 1000000)%N.
Proof.
  pose proof (N_of_dec_string_of_N n) as Hn. destruct (string_of_N_head n) as [c [r [d [E Hc]]]].
  rewrite E in *. cbn [append]. unfold N_of_dec in *. change (String c (r ++ "000000")) with (String c r ++ "000000").
  rewrite N_of_dec_aux_app, Hn. apply N_of_dec_aux_zeros.
Qed.
Lemma Z_of_dec_six_zeros z : Z_of_dec (string_of_Z z ++ "000000") = Some (z * 1000000)%Z.
Proof.
  destruct z as [|p|p]; cbn [string_of_Z].
  - reflexivity.
  - pose proof (N_of_dec_six_zeros (Npos p)) as Hn. destruct (string_of_N_head (Npos p)) as [c [r [d [E Hc]]]].
    rewrite E in *. cbn [append] in *. unfold Z_of_dec.
    destruct (Ascii.eqb_spec c "-"%char) as [-> | _]; [discriminate Hc|]. rewrite Hn. f_equal; try lia.
  - cbn [append]. cbn [Z_of_dec]. change (Ascii.eqb "-" "-") with true. cbv iota.
    rewrite N_of_dec_six_zeros. f_equal; try lia.
Qed.

Open Scope list_scope.
Section DOWNQ.
  Variable re_match re_full : string -> string -> bool.
  Notation fingerprints_query := (fingerprints_query re_full).

  Definition down_tf (h : hints) : expr :=
    if Z.eqb (h_step h) 0 then Fn "intDiv" [Id "samples.timestamp_ns"; IntV 1000000]
    else if down_modulo h then
      Sep " - " [Sep " * " [Fn "intDiv" [Sep " + " [Id "samples.timestamp_ns"; with_six_zeros (h_range h)]; times_million (h_step h)];
                            IntV (h_step h)]; IntV 1]
    else Sep " - " [Sep " * " [Fn "intDiv" [Id "samples.timestamp_ns"; times_million (h_step h)]; IntV (h_step h)]; IntV 1].
  Definition down_extra (h : hints) : list expr :=
    if Z.eqb (h_step h) 0 then []
    else if down_modulo h then
      let m := Sep " % " [Id "timestamp_ns"; with_six_zeros (h_step h)] in
      [Or [Eq m (IntV 0); Gt m (IntV (h_step h * 1000000 - h_range h * 1000000))]]
    else [].
  Definition down_where (h : hints) (c : pctx) (ms : list matcher) : expr :=
    And ([Ge (Id "samples.timestamp_ns") (IntV (c_from_ns c)); Le (Id "samples.timestamp_ns") (IntV (c_to_ns c)); get_types c;
          In (Id "fingerprint") [WRef "fp_sel" (fingerprints_query c ms)]] ++ down_extra h).
  Definition down_cfp : expr := SimpleCol "samples.fingerprint" "fingerprint".

  Lemma down_query_fields h c ms : (c_limit c <= 0)%Z ->
    let q := transpile_label_matchers_downsample re_full h c ms in
    s_cols q = [down_cfp; Col (down_value h) "value"; Col (down_tf h) "timestamp_ms"] /\
    s_where q = Some (down_where h c ms) /\
    s_groupby q = [Id "timestamp_ms"; Id "fingerprint"] /\
    s_orderby q = [Ord (Id "fingerprint") true; Ord (Id "timestamp_ms") true] /\
    s_limit q = None /\ s_having q = None.
  Proof.
    intros Hl. unfold transpile_label_matchers_downsample, downsample_hints, stream_select_combiner, init_downsample, with_limit,
      down_where, down_extra, down_tf, down_value, down_modulo.
    replace (0 <? c_limit c)%Z with false by (symmetry; apply Z.ltb_ge; exact Hl).
    destruct (Z.eqb (h_step h) 0); [repeat split; reflexivity|].
    destruct (is_range (h_func h) && (h_range h <? h_step h)%Z); repeat split; reflexivity.
  Qed.

  Definition dcte (gin : list ginrow) : select -> option (list N) := fun fq => Some (eval_fp_sel re_match fq gin).
  Definition dfps (c : pctx) (ms : list matcher) (gin : list ginrow) : list N :=
    fp_sel_abs re_match (from_day (c_from_ns c)) (sel_type c) (pos_clauses re_full ms) (neg_clauses re_full ms) gin.
  Lemma dcte_fpq c ms gin : dcte gin (fingerprints_query c ms) = Some (dfps c ms gin).
  Proof. unfold dcte, dfps. now rewrite (eval_fp_sel_fingerprints_query re_match re_full). Qed.

  Notation denv h gin r := (alias_env re_match (dcte gin) [down_cfp; Col (down_tf h) "timestamp_ms"] (m15_env r)).

  Lemma denv_ts h gin r : denv h gin r "samples.timestamp_ns" = Some (VI (q_ts_ns r)). Proof. reflexivity. Qed.
  Lemma denv_ts' h gin r : denv h gin r "timestamp_ns" = Some (VI (q_ts_ns r)). Proof. reflexivity. Qed.
  Lemma denv_type h gin r : denv h gin r "type" = Some (VI (q_type r)). Proof. reflexivity. Qed.
  Lemma denv_fp h gin r : denv h gin r "fingerprint" = Some (VI (Z.of_N (q_fp r))). Proof. reflexivity. Qed.

  Lemma ev_six_zeros rho z : ev re_match (dcte []) rho (with_six_zeros z) = Some (VI (z * 1000000)).
  Proof. unfold with_six_zeros. cbn [PromSem.ev]. now rewrite Z_of_dec_six_zeros. Qed.

  (* the time field of the statement is down_stamp *)
  Lemma million_nonzero z : z <> 0%Z -> (z * 1000000 =? 0)%Z = false.
  Proof. intros H. apply Z.eqb_neq. lia. Qed.

  Lemma denv_stamp h gin r : denv h gin r "timestamp_ms" = Some (VI (down_stamp h (q_ts_ns r))).
  Proof.
    unfold alias_env. cbn [get_col alias_of down_cfp SimpleCol String.eqb Ascii.eqb Bool.eqb].
    unfold down_tf, down_stamp. destruct (Z.eqb_spec (h_step h) 0) as [E|E].
    - reflexivity.
    - destruct (down_modulo h).
      + unfold with_six_zeros, times_million. cbn [PromSem.ev m15_env String.eqb Ascii.eqb Bool.eqb all_some omap fn_apply].
        rewrite Z_of_dec_six_zeros. cbn [omap arith String.eqb Ascii.eqb Bool.eqb all_some fn_apply].
        rewrite (million_nonzero _ E). reflexivity.
      + unfold times_million. cbn [PromSem.ev m15_env String.eqb Ascii.eqb Bool.eqb all_some omap fn_apply arith].
        rewrite (million_nonzero _ E). reflexivity.
  Qed.

  Lemma ev_down_extra h gin r :
    forallb (fun e => is_true (ev re_match (dcte gin) (denv h gin r) e)) (down_extra h) =
    (if Z.eqb (h_step h) 0 then true
     else if down_modulo h then
       (Z.rem (q_ts_ns r) (h_step h * 1000000) =? 0)%Z
       || (h_step h * 1000000 - h_range h * 1000000 <? Z.rem (q_ts_ns r) (h_step h * 1000000))%Z
     else true).
  Proof.
    unfold down_extra. destruct (Z.eqb (h_step h) 0); [reflexivity|]. destruct (down_modulo h); [|reflexivity].
    cbn [forallb]. rewrite andb_true_r. unfold Or, Eq, Gt, with_six_zeros.
    rewrite (ev_LOp re_match (dcte gin) (denv h gin r) OOr). cbn [map].
    rewrite !(ev_LOp re_match (dcte gin) (denv h gin r)). cbn [map].
    cbn [PromSem.ev]. rewrite denv_ts', Z_of_dec_six_zeros.
    cbn [omap arith String.eqb Ascii.eqb Bool.eqb all_some lop_apply val_eqb val_ltb b2v].
    set (m := Z.rem (q_ts_ns r) (h_step h * 1000000)).
    destruct (m =? 0)%Z, (h_step h * 1000000 - h_range h * 1000000 <? m)%Z; reflexivity.
  Qed.

  Lemma ev_ge_ts h gin r a : is_true (ev re_match (dcte gin) (denv h gin r) (Ge (Id "samples.timestamp_ns") (IntV a))) = (a <=? q_ts_ns r)%Z.
  Proof.
    unfold Ge. rewrite (ev_LOp re_match (dcte gin) (denv h gin r)). cbn [map PromSem.ev]. rewrite denv_ts.
    cbn [all_some omap lop_apply val_ltb]. rewrite is_true_b2v. symmetry. apply Z.leb_antisym.
  Qed.
  Lemma ev_le_ts h gin r a : is_true (ev re_match (dcte gin) (denv h gin r) (Le (Id "samples.timestamp_ns") (IntV a))) = (q_ts_ns r <=? a)%Z.
  Proof.
    unfold Le. rewrite (ev_LOp re_match (dcte gin) (denv h gin r)). cbn [map PromSem.ev]. rewrite denv_ts.
    cbn [all_some omap lop_apply val_ltb]. rewrite is_true_b2v. symmetry. apply Z.leb_antisym.
  Qed.
  Lemma ev_types_m15 h gin r c :
    is_true (ev re_match (dcte gin) (denv h gin r) (get_types c)) = ((q_type r =? sel_type c)%Z || (q_type r =? 0)%Z).
  Proof.
    unfold get_types, sel_type. cbn [PromSem.ev]. rewrite denv_type. cbn [all_some omap map val_eqb existsb].
    rewrite is_true_b2v, orb_false_r. reflexivity.
  Qed.

  Lemma ev_down_where h c ms gin r :
    is_true (ev re_match (dcte gin) (denv h gin r) (down_where h c ms)) =
    down_keep h (c_from_ns c) (c_to_ns c) (sel_type c) (dfps c ms gin) r.
  Proof.
    unfold down_where, And. rewrite is_true_and, forallb_app. rewrite ev_down_extra.
    cbn [forallb]. rewrite andb_true_r, ev_ge_ts, ev_le_ts, ev_types_m15.
    assert (H4 : ev re_match (dcte gin) (denv h gin r) (In (Id "fingerprint") [WRef "fp_sel" (fingerprints_query c ms)]) =
                 Some (b2v (existsb (N.eqb (q_fp r)) (dfps c ms gin)))).
    { cbn [PromSem.ev]. rewrite denv_fp, dcte_fpq, N2Z.id. reflexivity. }
    rewrite H4, is_true_b2v. unfold down_keep. rewrite !andb_assoc. reflexivity.
  Qed.

  (* THE DOWN-SAMPLED STATEMENT UNDER THE INTERPRETER = the list reading, for every hint, matcher set and context without
     LIMIT (the querier's contexts have none) *)
  Theorem eval_down_statement h c ms gin tbl : (c_limit c <= 0)%Z ->
    eval_down re_match (transpile_label_matchers_downsample re_full h c ms) gin tbl =
    down_rows h (c_from_ns c) (c_to_ns c) (sel_type c) (dfps c ms gin) tbl.
  Proof.
    intros Hl. destruct (down_query_fields h c ms Hl) as [Hc [Hw [Hg [Ho [Hlim Hh]]]]].
    unfold eval_down. rewrite Hc, Hw, Hg, Ho, Hlim, Hh.
    cbn [String.eqb Ascii.eqb Bool.eqb andb]. fold (dcte gin).
    rewrite filter_map_comm. cbn [fst snd].
    rewrite (filter_ext _ (down_keep h (c_from_ns c) (c_to_ns c) (sel_type c) (dfps c ms gin))) by (intros; apply ev_down_where).
    rewrite map_map. cbn [fst snd].
    rewrite (map_ext _ (fun r => Some ((q_fp r, down_stamp h (q_ts_ns r)), r))).
    2:{ intros r. rewrite denv_fp, denv_stamp, N2Z.id. reflexivity. }
    rewrite all_some_map_Some. reflexivity.
  Qed.
End DOWNQ.

(* ---------- what a down-sampled sample is, in terms of the stored samples ---------- *)
(* With metrics_15s derived from the stored samples as the materialized view derives it, the group of an output row
   (fingerprint fp, new timestamp T) summarises exactly the stored samples of fp whose 15 s bucket START passes the statement's
   conditions (inside [from, to] in ns, metric typed, modulo condition) and is stamped T. *)
Lemma m15_of_rows samples : m15_of samples = map row_of_sample samples.
Proof. reflexivity. Qed.

Theorem group_parts_are_stored_samples h from_ns to_ns t fps fp T samples :
  existsb (N.eqb fp) fps = true ->
  parts_of (fp, T) (map (fun r => ((q_fp r, down_stamp h (q_ts_ns r)), r)) (filter (down_keep h from_ns to_ns t fps) (m15_of samples))) =
  map (fun s => (sm_ts_ns s, sm_value s)) (summarised h from_ns to_ns t fp T samples).
Proof.
  intros Hfp. rewrite m15_of_rows. unfold parts_of, summarised. induction samples as [|s samples IH]; [reflexivity|].
  cbn [map filter].
  destruct (N.eqb_spec (sm_fp s) fp) as [E|Hne].
  - assert (Hk : down_keep h from_ns to_ns t fps (row_of_sample s) = down_keep h from_ns to_ns t [sm_fp s] (row_of_sample s)).
    { unfold down_keep, row_of_sample. cbn [q_fp q_type q_ts_ns existsb]. rewrite E, Hfp, N.eqb_refl. reflexivity. }
    rewrite Hk. destruct (down_keep h from_ns to_ns t [sm_fp s] (row_of_sample s)); cbn [andb]; [|exact IH].
    cbn [map flat_map fst snd]. unfold fpts_eqb at 1. cbn [fst snd row_of_sample q_fp q_ts_ns q_parts].
    rewrite E, N.eqb_refl. cbn [andb].
    destruct (Z.eqb (down_stamp h (bucket15 (sm_ts_ns s))) T); cbn [map app]; rewrite IH; reflexivity.
  - cbn [andb]. destruct (down_keep h from_ns to_ns t fps (row_of_sample s)); [|exact IH].
    cbn [map flat_map fst snd]. unfold fpts_eqb at 1. cbn [fst snd row_of_sample q_fp].
    destruct (N.eqb_spec (sm_fp s) fp) as [E|_]; [contradiction|]. cbn [andb app]. exact IH.
Qed.

(* ---------- the path is outside the quantifier of C17 ---------- *)
(* a Select on the down-sampled path reads metrics_15s, never the stored samples *)
Theorem downsample_reads_the_rollup re_full cluster dbname h ms : use_raw_data h = false ->
  s_from (fst (querier_transpile re_full cluster dbname h ms)) =
  Some (SimpleCol (if cluster then "`" ++ dbname ++ "`.metrics_15s_dist" else "metrics_15s") "samples").
Proof.
  intros Hr. unfold querier_transpile. rewrite Hr. cbn [fst].
  unfold transpile_label_matchers_downsample, downsample_hints, stream_select_combiner, init_downsample, with_limit, prom_ctx, prom_tables.
  destruct cluster; cbn [c_limit t_m15]; change (0 <? 0)%Z with false; cbv iota;
    (destruct (Z.eqb (h_step h) 0); [reflexivity|]);
    (destruct (is_range (h_func h) && (h_range h <? h_step h)%Z); reflexivity).
Qed.

(* and what it hands to the engine is not "the samples inside the requested range": witness -- a query `up` over
   [S, S + 120 s] with step 30 s on the 15 s grid; stored samples at S+1s, S+2s, S+31s, S+61s, S+119s and one at S+125s,
   AFTER hints.End.  The raw meaning of the property (expected_rows) is the five samples inside [Start, End] at their own
   times; the down-sampled statement answers one row per 30 s bucket stamped 1 ms BEFORE the bucket, the first carrying
   the value of the later of its two samples, the last carrying the value 17 of the sample outside the range. *)
Definition dw_S : Z := 1700000010000.
Definition dw_hints : hints := {| h_start := dw_S; h_end := dw_S + 120000; h_step := 30000; h_func := ""; h_range := 0 |}.
Definition dw_ms : list matcher := [{| m_name := "__name__"; m_op := MEq; m_val := "up" |}].
Definition dw_smp (k v : Z) : samplerow := {| sm_fp := 7; sm_type := 2; sm_ts_ns := (dw_S + k) * 1000000; sm_value := v |}.
Definition dw_db : database :=
  {| d_gin := [{| g_date := 19675; g_key := "__name__"; g_val := "up"; g_fp := 7; g_type := 2 |}];
     d_samples := [dw_smp 1000 3; dw_smp 2000 5; dw_smp 31000 7; dw_smp 61000 11; dw_smp 119000 13; dw_smp 125000 17];
     d_series := [{| t_date := 19675; t_fp := 7; t_type := 2; t_labels := [("__name__", "up")] |}] |}.
Example downsample_witness :
  use_raw_data dw_hints = false /\
  eval_down re_none (fst (querier_transpile re_none false "qryn" dw_hints dw_ms)) (d_gin dw_db) (m15_of (d_samples dw_db)) =
  Some [{| d_fp := 7; d_num := 5; d_den := 1; d_ts := dw_S - 1 |};
        {| d_fp := 7; d_num := 7; d_den := 1; d_ts := dw_S + 29999 |};
        {| d_fp := 7; d_num := 11; d_den := 1; d_ts := dw_S + 59999 |};
        {| d_fp := 7; d_num := 13; d_den := 1; d_ts := dw_S + 89999 |};
        {| d_fp := 7; d_num := 17; d_den := 1; d_ts := dw_S + 119999 |}] /\
  expected_rows re_none dw_hints dw_ms dw_db =
  [{| r_fp := 7; r_val := 3; r_ts := dw_S + 1000 |}; {| r_fp := 7; r_val := 5; r_ts := dw_S + 2000 |};
   {| r_fp := 7; r_val := 7; r_ts := dw_S + 31000 |}; {| r_fp := 7; r_val := 11; r_ts := dw_S + 61000 |};
   {| r_fp := 7; r_val := 13; r_ts := dw_S + 119000 |}].
Proof. split; [reflexivity|]. split; vm_compute; reflexivity. Qed.

(* the statement of C17 about the samples handed over ("inside the requested range", at their own times) therefore cannot
   be extended to this path: a down-sampled Select can hand over the value of a sample stored after hints.End, under a
   timestamp at which no sample was stored *)
Theorem downsample_not_in_range_samples :
  exists h ms db rows r,
    use_raw_data h = false /\
    eval_down re_none (fst (querier_transpile re_none false "qryn" h ms)) (d_gin db) (m15_of (d_samples db)) = Some rows /\
    List.In r rows /\
    (forall s, List.In s (d_samples db) -> Z.quot (sm_ts_ns s) 1000000 <> d_ts r)%Z /\
    (exists s, List.In s (d_samples db) /\ sm_value s = d_num r /\ (h_end h < Z.quot (sm_ts_ns s) 1000000)%Z /\
               forall s', List.In s' (d_samples db) -> sm_value s' = d_num r -> s' = s).
Proof.
  destruct downsample_witness as [Hr [He _]].
  exists dw_hints, dw_ms, dw_db. eexists. exists {| d_fp := 7; d_num := 17; d_den := 1; d_ts := dw_S + 119999 |}.
  split; [exact Hr|]. split; [exact He|]. split; [cbn; tauto|]. split.
  - intros s Hs. cbn in Hs. repeat (destruct Hs as [<-|Hs]; [vm_compute; discriminate|]). contradiction.
  - exists (dw_smp 125000 17). split; [cbn; tauto|]. split; [reflexivity|]. split; [vm_compute; reflexivity|].
    intros s' Hs' Hv. cbn in Hs'. repeat (destruct Hs' as [<-|Hs']; [try reflexivity; vm_compute in Hv; discriminate|]). contradiction.
Qed.
