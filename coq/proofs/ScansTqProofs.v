(* C13 for the TraceQL planners: every base-table read of the statement built by TraceqlPlan.plan, for every
   script, mode, call number and planner context, is bounded by the context window - except the two reads of
   the final search statement that fetch the spans of the traces found (restricted by trace id only). *)
From Coq Require Import List ZArith NArith String Ascii Bool Lia.
From Qryn Require Import lib.Strs lib.CivilDate model.Sql model.Scans model.ScansTq proofs.ScansProofs proofs.ScansDateProofs.
From Qryn Require model.TqSql model.Traceql model.TraceqlPlan.
Import ListNotations.
Open Scope list_scope.
Module T := TqSql.
Module P := TraceqlPlan.

(* ------------------------------------------------------------------ scans of a TqSql select, unfolded *)
Definition oe (o : option T.expr) : list scan := match o with Some e => tq_escans e | None => [] end.
Definition jes (j : T.jkind * T.expr * option T.expr) : list scan := tq_escans (snd (fst j)) ++ oe (snd j).
Definition wsc (ws : list (string * T.select)) : list scan := flat_map (fun w => tq_sscans (snd w)) ws.

Lemma tq_sscans_eq w d c f j pw wh hv gb ob l :
  tq_sscans (T.Sel w d c f j pw wh hv gb ob l) =
  wsc w ++ tq_own_scan c f pw wh ++ flat_map tq_join_scan j
  ++ (flat_map tq_escans c ++ oe f ++ flat_map jes j ++ oe pw ++ oe wh ++ flat_map tq_escans gb ++ oe hv
      ++ flat_map tq_escans ob ++ oe l).
Proof.
  cbn [tq_sscans]. f_equal.
  - unfold wsc. apply flat_map_ext. intros [a q]. reflexivity.
  - f_equal. f_equal. f_equal. f_equal. f_equal. apply flat_map_ext. intros [[k t] on]. reflexivity.
Qed.

Definition nosub (e : T.expr) : Prop := tq_escans e = [].
Definition nosubs (l : list T.expr) : Prop := flat_map tq_escans l = [].
Definition onosub (o : option T.expr) : Prop := oe o = [].
Lemma nosubs_cons e l : nosub e -> nosubs l -> nosubs (e :: l).
Proof. intros H1 H2. unfold nosubs. cbn [flat_map]. rewrite H1, H2. reflexivity. Qed.
Lemma nosubs_app a b : nosubs a -> nosubs b -> nosubs (a ++ b).
Proof. intros H1 H2. unfold nosubs. rewrite flat_map_app, H1, H2. reflexivity. Qed.
Lemma nosubs_nil : nosubs [].
Proof. reflexivity. Qed.
Lemma nosubs_forall l : Forall nosub l -> nosubs l.
Proof. induction 1 as [|x r Hx Hr IH]; [reflexivity | apply nosubs_cons; assumption]. Qed.
Lemma forall_nosubs l : nosubs l -> Forall nosub l.
Proof.
  induction l as [|x r IH]; intros H; constructor; unfold nosubs in H; cbn [flat_map] in H; apply app_eq_nil in H; destruct H as [H1 H2];
    [exact H1 | apply IH, H2].
Qed.

Lemma oe_and_into o cl : oe (T.and_into o cl) = oe o ++ flat_map tq_escans cl.
Proof.
  destruct o as [e|]; cbn [T.and_into oe].
  - assert (Hgen : tq_escans (T.LOp T.OAnd (e :: cl)) = tq_escans e ++ flat_map tq_escans cl) by reflexivity.
    destruct e; try exact Hgen. destruct fn; try exact Hgen.
    cbn [tq_escans]. apply flat_map_app.
  - reflexivity.
Qed.

Section GEN.
  Variable Pr : scan -> Prop.
  Definition tgood (s : T.select) : Prop := Forall Pr (tq_sscans s).
  Definition wgood (ws : list (string * T.select)) : Prop := Forall (fun w => tgood (snd w)) ws.
  Lemma wgood_wsc ws : wgood ws <-> Forall Pr (wsc ws).
  Proof.
    unfold wgood, wsc, tgood. induction ws as [|w r IH]; cbn [flat_map]; [split; constructor|].
    rewrite Forall_app, <- IH. split; [intros H; inversion H; subst; split; assumption | intros [H1 H2]; constructor; assumption].
  Qed.

  (* a select that reads no base table itself *)
  Definition noown (s : T.select) : Prop :=
    match T.s_from s with Some f => tq_base_table f = None | None => True end.

  Lemma tgood_and_having cl s : nosubs cl -> tgood s -> tgood (T.and_having cl s).
  Proof.
    intros Hc. destruct s as [w d c f j pw wh hv gb ob l]. unfold tgood, T.and_having. rewrite !tq_sscans_eq, oe_and_into, Hc, app_nil_r.
    intros H; exact H.
  Qed.
  Lemma noown_and_having cl s : noown s -> noown (T.and_having cl s).
  Proof. destruct s. intros H; exact H. Qed.

  Lemma tgood_set_limit x s : nosub x -> tgood s -> tgood (T.set_limit x s).
  Proof.
    intros Hx. destruct s as [w d c f j pw wh hv gb ob l]. unfold tgood, T.set_limit. rewrite !tq_sscans_eq. cbn [oe]. rewrite Hx.
    rewrite !Forall_app. (let H := fresh in intros H; decompose [and] H; repeat split; try assumption; constructor).
  Qed.
  Lemma noown_set_limit x s : noown s -> noown (T.set_limit x s).
  Proof. destruct s. intros H; exact H. Qed.

  Lemma tgood_set_order ob' s : nosubs ob' -> tgood s -> tgood (T.set_order ob' s).
  Proof.
    intros Hx. destruct s as [w d c f j pw wh hv gb ob l]. unfold tgood, T.set_order. rewrite !tq_sscans_eq. rewrite Hx.
    rewrite !Forall_app. (let H := fresh in intros H; decompose [and] H; repeat split; try assumption; constructor).
  Qed.

  Lemma tgood_set_cols_noown cols s : noown s -> Forall Pr (flat_map tq_escans cols) -> tgood s -> tgood (T.set_cols cols s).
  Proof.
    intros Hn Hx. destruct s as [w d c f j pw wh hv gb ob l]. unfold tgood, T.set_cols. rewrite !tq_sscans_eq.
    unfold noown in Hn. cbn [T.s_from] in Hn. unfold tq_own_scan. destruct f as [f|].
    - rewrite Hn. rewrite !Forall_app. intros H. decompose [and] H. repeat split; assumption.
    - rewrite !Forall_app. intros H. decompose [and] H. repeat split; assumption.
  Qed.
  Lemma noown_set_cols cols s : noown s -> noown (T.set_cols cols s).
  Proof. destruct s. intros H; exact H. Qed.
  Lemma tgood_cols_nosub s : tgood s -> Forall Pr (flat_map tq_escans (T.s_cols s)).
  Proof. destruct s as [w d c f j pw wh hv gb ob l]. unfold tgood. rewrite tq_sscans_eq, !Forall_app. cbn [T.s_cols]. tauto. Qed.

  (* AddWith / With *)
  Lemma tgood_withs s : tgood s -> wgood (T.s_withs s).
  Proof. destruct s as [w d c f j pw wh hv gb ob l]. unfold tgood. rewrite tq_sscans_eq, Forall_app. intros [H _]. apply wgood_wsc, H. Qed.

  Lemma add_with_good fuel : forall cur w, wgood cur -> tgood (snd w) -> wgood (T.add_with fuel cur w).
  Proof.
    induction fuel as [|f IH]; intros cur w Hc Hw; cbn [T.add_with]; destruct (existsb _ cur); try exact Hc.
    - apply Forall_app. split; [exact Hc | constructor; [exact Hw | constructor]].
    - apply Forall_app. split; [|constructor; [exact Hw | constructor]].
      pose proof (tgood_withs _ Hw) as Hws. revert cur Hc. induction Hws as [|x r Hx Hr IHr]; intros cur Hc; [exact Hc|].
      cbn [fold_left]. apply IHr. apply IH; assumption.
  Qed.
  Lemma set_with_wgood ws : wgood ws -> wgood (fold_left (T.add_with 16) ws []).
  Proof.
    intros H. assert (G : forall cur, wgood cur -> wgood (fold_left (T.add_with 16) ws cur)).
    { induction H as [|x r Hx Hr IH]; intros cur Hc; [exact Hc|]. cbn [fold_left]. apply IH. apply add_with_good; assumption. }
    apply G. constructor.
  Qed.

  (* a select over other selects: WITH list + own clauses, no base table *)
  Lemma tgood_set_with ws d c f j pw wh hv gb ob l :
    wgood ws -> Forall Pr (tq_sscans (T.Sel [] d c f j pw wh hv gb ob l)) ->
    tgood (T.set_with ws (T.Sel [] d c f j pw wh hv gb ob l)).
  Proof.
    intros Hw Hs. unfold tgood, T.set_with. rewrite tq_sscans_eq in *. cbn [wsc flat_map app] in Hs.
    apply Forall_app. split; [apply wgood_wsc, set_with_wgood, Hw | exact Hs].
  Qed.
End GEN.

(* ------------------------------------------------------------------ expressions of the planners contain no select *)
From Qryn Require Import proofs.ScansPlanProofs.
Definition is_lop (e : T.expr) : Prop := exists op l, e = T.LOp op l.

Ltac break_matches :=
  repeat (match goal with |- context [match ?x with _ => _ end] => destruct x end; cbv beta iota).

Lemma get_term_ok t e : P.get_term t = P.Ok e -> nosub e /\ is_lop e.
Proof.
  unfold P.get_term, P.get_term_str, P.get_term_num, P.get_term_duration, P.comparison_fn, P.bind.
  break_matches; intros H; try discriminate H; injection H as <-; (split; [reflexivity | eexists; eexists; reflexivity]).
Qed.

Lemma map_res_get_term terms l : P.map_res P.get_term terms = P.Ok l -> Forall (fun e => nosub e /\ is_lop e) l.
Proof.
  revert l. induction terms as [|t r IH]; intros l; cbn [P.map_res]; [intros [= <-]; constructor|].
  unfold P.bind at 1. destruct (P.get_term t) as [e| |] eqn:E; try discriminate.
  unfold P.bind at 1. destruct (P.map_res P.get_term r) as [es| |]; try discriminate.
  intros [= <-]. constructor; [apply (get_term_ok t), E | apply IH; reflexivity].
Qed.

Lemma get_cond_nosub scs : nosubs scs -> forall cd al e b, P.get_cond scs cd al = (e, b) -> nosub e.
Proof.
  intros Hs. induction cd as [idx | op l IHl r IHr]; intros al e b; cbn [P.get_cond].
  - intros [= <- _]. unfold nosub. destruct al; cbn [tq_escans flat_map app]; [reflexivity|]. rewrite Hs. reflexivity.
  - destruct (P.get_cond scs l al) as [el a1] eqn:E1. destruct (P.get_cond scs r a1) as [er a2] eqn:E2.
    intros [= <- _]. unfold nosub. cbn [tq_escans flat_map]. rewrite (IHl _ _ _ E1), (IHr _ _ _ E2). reflexivity.
Qed.

(* a clause added to WHERE that says nothing about the window and holds no select *)
Definition okx (e : T.expr) : Prop := nosub e /\ Forall neutral (conjs (cv e)).

Lemma neutral_key_eq key : neutral (LOp OEq [Id "key"%string; StrV key]).
Proof. intros sc. unfold classify, col_is. cbn. destruct (existsb _ (sc_tsn sc)); reflexivity. Qed.
Lemma okx_key_clause key : okx (P.key_clause key).
Proof. split; [reflexivity|]. cbn. constructor; [apply neutral_key_eq | constructor]. Qed.

Lemma okx_or l : nosubs l -> (match l with e :: _ => is_lop e | [] => True end) -> okx (T.LOp T.OOr l).
Proof.
  intros Hn Hh. split; [exact Hn|]. cbn [cv cv_lop conjs]. constructor; [|constructor].
  apply neutral_b_sound. destruct l as [|e r]; [reflexivity|]. destruct Hh as [op [x ->]]. cbn [map cv].
  destruct r as [|b [|y r']]; reflexivity.
Qed.

Lemma unhex_nosubs ids : nosubs (map (fun t => T.Fn T.FUnhex [T.RawStr t]) ids).
Proof. induction ids as [|x r IH]; [reflexivity | apply nosubs_cons; [reflexivity | exact IH]]. Qed.

Lemma random_filter_okx c : Forall okx (P.random_filter c).
Proof.
  unfold P.random_filter. destruct (Z.eqb (P.rf_max c) 0); [constructor|].
  destruct (P.cached c) as [|i r].
  - constructor; [|constructor]. split; [reflexivity|]. cbn. constructor; [|constructor]. apply neutral_b_sound. reflexivity.
  - constructor; [|constructor]. apply okx_or; [|eexists; eexists; reflexivity].
    apply nosubs_cons; [reflexivity|]. apply nosubs_cons; [|reflexivity].
    unfold nosub. cbn [tq_escans app]. apply (unhex_nosubs (i :: r)).
Qed.

(* ------------------------------------------------------------------ verdicts on explicit bound lists *)
Open Scope Z_scope.
Definition idx_untyped : tinfo := {| ti_class := CIndex; ti_typed := false |}.
Definition data_untyped : tinfo := {| ti_class := CData; ti_typed := false |}.

Lemma gtb_false a b : a <= b -> (a >? b) = false.
Proof. intros H. rewrite Z.gtb_ltb. apply Z.ltb_ge. exact H. Qed.
Lemma ltb_false a b : b <= a -> (a <? b) = false.
Proof. intros H. apply Z.ltb_ge. exact H. Qed.

Lemma idx_bounded info w sc df dt lo hi :
  info (sc_table sc) = idx_untyped ->
  bounds sc = [DLo df; DHi dt; TsLo lo; TsHi hi] ->
  df <= day_of_ns (w_from w) -> day_of_ns (w_to w - 1) <= dt -> lo <= w_from w -> w_to w <= hi ->
  scan_bounded info w sc.
Proof.
  intros Hi Hb H1 H2 H3 H4. apply scan_bounded_b_iff. unfold scan_bounded_b, scan_failures. rewrite Hi, Hb.
  cbn [ti_class ti_typed idx_untyped]. unfold date_failures, ts_lower_failures, ts_upper_failures.
  cbn [d_los d_his ts_los ts_his flat_map app zmax_list zmin_list fold_left andb].
  rewrite (gtb_false _ _ H1), (ltb_false _ _ H2), (gtb_false _ _ H3), (ltb_false _ _ H4). reflexivity.
Qed.
Lemma idx_bounded_dates info w sc df dt :
  info (sc_table sc) = idx_untyped ->
  bounds sc = [DLo df; DHi dt] ->
  df <= day_of_ns (w_from w) -> day_of_ns (w_to w - 1) <= dt ->
  scan_bounded info w sc.
Proof.
  intros Hi Hb H1 H2. apply scan_bounded_b_iff. unfold scan_bounded_b, scan_failures. rewrite Hi, Hb.
  cbn [ti_class ti_typed idx_untyped]. unfold date_failures, ts_lower_failures, ts_upper_failures.
  cbn [d_los d_his ts_los ts_his flat_map app zmax_list zmin_list fold_left andb].
  rewrite (gtb_false _ _ H1), (ltb_false _ _ H2). reflexivity.
Qed.
Lemma data_bounded info w sc lo hi :
  info (sc_table sc) = data_untyped ->
  bounds sc = [TsLo lo; TsHi hi] ->
  w_lo_min w <= lo <= w_from w -> w_to w <= hi <= w_hi_max w + 1 ->
  scan_bounded info w sc.
Proof.
  intros Hi Hb H1 H2. apply scan_bounded_b_iff. unfold scan_bounded_b, scan_failures. rewrite Hi, Hb.
  cbn [ti_class ti_typed data_untyped]. unfold ts_lower_failures, ts_upper_failures.
  cbn [ts_los ts_his flat_map app zmax_list zmin_list fold_left andb].
  rewrite (gtb_false lo (w_from w)), (ltb_false lo (w_lo_min w)), (ltb_false hi (w_to w)), (gtb_false hi (w_hi_max w + 1)) by lia. reflexivity.
Qed.

(* ------------------------------------------------------------------ the context *)
Record tq_tables (info : string -> tinfo) (c : P.ctx) : Prop := {
  tt_attrs : info (P.attrs_table c) = idx_untyped;
  tt_attrs_dist : info (P.attrs_dist_table c) = idx_untyped;
  tt_traces : info (P.traces_table c) = data_untyped;
  tt_traces_dist : info (P.traces_dist_table c) = data_untyped;
  tt_kv : info (P.kv_dist_table c) = idx_untyped
}.
(* the window lies between 1970-01-01 00:30 and 2100-01-01, and the date texts are the UTC days *)
Record tq_ctx_ok (c : P.ctx) : Prop := {
  tk_from : 1800 * 1000000000 <= P.from_ns c;
  tk_order : P.from_ns c <= P.to_ns c;
  tk_to : P.to_ns c < max_day * ns_per_day;
  tk_dates : tq_dates_utc c = true
}.

Section CTX.
  Variable info : string -> tinfo.
  Variable c : P.ctx.
  Hypothesis Htab : tq_tables info c.
  Hypothesis Hctx : tq_ctx_ok c.
  Let W := tq_win c.

  Lemma day_range t : 0 <= t < max_day * ns_per_day -> 0 <= day_of_ns t < max_day.
  Proof.
    intros [H1 H2]. unfold day_of_ns. split; [apply Z.div_pos; [exact H1 | reflexivity]|].
    apply Z.div_lt_upper_bound; [reflexivity|]. rewrite Z.mul_comm. exact H2.
  Qed.
  Lemma from_date_val : date_val (StrV (P.from_date c)) = Some (day_of_ns (P.from_ns c)).
  Proof.
    destruct Hctx as [H1 H2 H3 H4]. unfold tq_dates_utc in H4. apply andb_true_iff in H4. destruct H4 as [H4 _].
    apply andb_true_iff in H4. destruct H4 as [H4 _]. apply String.eqb_eq in H4. rewrite H4.
    apply date_val_string, day_range. lia.
  Qed.
  Lemma to_date_val : date_val (StrV (P.to_date c)) = Some (day_of_ns (P.to_ns c)).
  Proof.
    destruct Hctx as [H1 H2 H3 H4]. unfold tq_dates_utc in H4. apply andb_true_iff in H4. destruct H4 as [H4 _].
    apply andb_true_iff in H4. destruct H4 as [_ H4]. apply String.eqb_eq in H4. rewrite H4.
    apply date_val_string, day_range. lia.
  Qed.
  Lemma ffd_from_val : date_val (StrV (P.ffd_from c)) = Some ((P.from_ns c - 1800 * 1000000000) / ns_per_day).
  Proof.
    destruct Hctx as [H1 H2 H3 H4]. unfold tq_dates_utc in H4. apply andb_true_iff in H4. destruct H4 as [_ H4].
    apply String.eqb_eq in H4. rewrite H4.
    apply date_val_string. apply (day_range (P.from_ns c - 1800 * 1000000000)). lia.
  Qed.
  Lemma day_mono a b : a <= b -> day_of_ns a <= day_of_ns b.
  Proof. intros H. unfold day_of_ns. apply Z.div_le_mono; [reflexivity | exact H]. Qed.

  (* ---------------- the index select: FROM <attrs table> as traces_idx WHERE (window ...) and extra *)
  Definition idx_sel (tbl : string) ws cols wx extra hv gb ob lim : T.select :=
    T.Sel ws false cols (Some (T.Col (T.Id tbl) "traces_idx")) [] None
          (Some (T.LOp T.OAnd (T.LOp T.OAnd (P.window c ++ wx) :: extra))) hv gb ob lim.
  Definition idx_scan (tbl : string) cols wx extra : scan :=
    {| sc_table := tbl; sc_alias := "traces_idx"; sc_tsn := ts_names (map cv cols);
       sc_conj := map cv (P.window c) ++ flat_map (fun e => conjs (cv e)) wx ++ flat_map (fun e => conjs (cv e)) extra |}.

  Lemma flat_map_conjs_cv l : flat_map conjs (map cv l) = flat_map (fun e => conjs (cv e)) l.
  Proof. induction l as [|x r IH]; [reflexivity | cbn [map flat_map]; rewrite IH; reflexivity]. Qed.

  Lemma idx_sel_scans tbl ws cols wx extra hv gb ob lim :
    nosubs cols -> Forall okx wx -> Forall okx extra -> onosub hv -> nosubs gb -> nosubs ob -> onosub lim ->
    tq_sscans (idx_sel tbl ws cols wx extra hv gb ob lim) = (wsc ws ++ [idx_scan tbl cols wx extra])%list.
  Proof.
    intros Hc Hwx Hex Hhv Hgb Hob Hlim. unfold idx_sel. rewrite tq_sscans_eq.
    unfold onosub, nosubs in *. rewrite Hc, Hhv, Hgb, Hob, Hlim. cbn [flat_map oe app tq_own_scan tq_base_table tq_ocv oconjs].
    assert (Hw : tq_escans (T.LOp T.OAnd (T.LOp T.OAnd (P.window c ++ wx) :: extra)) = []).
    { cbn [tq_escans flat_map]. rewrite flat_map_app.
      assert (H1 : flat_map tq_escans wx = []) by (apply nosubs_forall; eapply Forall_impl; [|exact Hwx]; intros e [H _]; exact H).
      assert (H2 : flat_map tq_escans extra = []) by (apply nosubs_forall; eapply Forall_impl; [|exact Hex]; intros e [H _]; exact H).
      rewrite H1, H2. reflexivity. }
    rewrite Hw. cbn [app]. rewrite app_nil_r. f_equal. f_equal. unfold idx_scan. f_equal.
    cbn [cv cv_lop map conjs flat_map]. rewrite map_app, flat_map_app, !flat_map_conjs_cv. rewrite <- app_assoc. f_equal.
  Qed.

  Lemma okx_bounds sc l : Forall okx l -> flat_map (classify sc) (flat_map (fun e => conjs (cv e)) l) = [].
  Proof.
    induction 1 as [|e r [_ He] Hr IH]; [reflexivity|]. cbn [flat_map]. rewrite flat_map_app, IH, app_nil_r.
    induction He as [|x y Hx Hy IHy]; [reflexivity|]. cbn [flat_map]. rewrite (Hx sc), IHy. reflexivity.
  Qed.

  Lemma idx_scan_bounds tbl cols wx extra :
    Forall okx wx -> Forall okx extra ->
    bounds (idx_scan tbl cols wx extra) =
      [DLo (day_of_ns (P.from_ns c)); DHi (day_of_ns (P.to_ns c)); TsLo (P.from_ns c); TsHi (P.to_ns c)].
  Proof.
    intros Hwx Hex. unfold bounds, idx_scan. cbn [sc_conj]. rewrite !flat_map_app, !okx_bounds by assumption.
    rewrite !app_nil_r. unfold P.window. cbn [map cv cv_lop flat_map app].
    unfold classify at 1 2. unfold col_is at 1 2. cbn [split_path after_last_dot String.eqb Ascii.eqb Bool.eqb existsb orb andb].
    unfold date_bnd. rewrite from_date_val, to_date_val.
    reflexivity.
  Qed.

  Lemma idx_scan_bounded tbl cols wx extra :
    info tbl = idx_untyped -> Forall okx wx -> Forall okx extra ->
    scan_bounded info W (idx_scan tbl cols wx extra).
  Proof.
    intros Hi Hwx Hex. destruct Hctx as [H1 H2 H3 H4].
    apply (idx_bounded info W (idx_scan tbl cols wx extra) _ _ _ _ Hi (idx_scan_bounds tbl cols wx extra Hwx Hex)); unfold W, tq_win;
      cbn [w_from w_to]; try lia; apply day_mono; lia.
  Qed.

  (* ---------------- the builder methods on an index select *)
  Lemma idx_set_cols tbl ws cols wx extra hv gb ob lim cols' :
    T.set_cols cols' (idx_sel tbl ws cols wx extra hv gb ob lim) = idx_sel tbl ws cols' wx extra hv gb ob lim.
  Proof. reflexivity. Qed.
  Lemma idx_and_having tbl ws cols wx extra hv gb ob lim cl :
    T.and_having cl (idx_sel tbl ws cols wx extra hv gb ob lim) = idx_sel tbl ws cols wx extra (T.and_into hv cl) gb ob lim.
  Proof. reflexivity. Qed.
  Lemma idx_and_where tbl ws cols wx extra hv gb ob lim cl :
    T.and_where cl (idx_sel tbl ws cols wx extra hv gb ob lim) = idx_sel tbl ws cols wx (extra ++ cl)%list hv gb ob lim.
  Proof. reflexivity. Qed.
  Lemma idx_set_limit tbl ws cols wx extra hv gb ob lim x :
    T.set_limit x (idx_sel tbl ws cols wx extra hv gb ob lim) = idx_sel tbl ws cols wx extra hv gb ob (Some x).
  Proof. reflexivity. Qed.
  Lemma idx_set_order tbl ws cols wx extra hv gb ob lim ob' :
    T.set_order ob' (idx_sel tbl ws cols wx extra hv gb ob lim) = idx_sel tbl ws cols wx extra hv gb ob' lim.
  Proof. reflexivity. Qed.
  Lemma init_index_idx :
    P.init_index c = idx_sel (P.attrs_table c) []
      [T.Col (T.Id "trace_id") "trace_id"; T.Col (T.Id "span_id") "span_id";
       T.Col (T.Fn T.FAny [T.Id "duration"]) "duration"; T.Col (T.Fn T.FAny [T.Id "timestamp_ns"]) "timestamp_ns"]
      [] [] None [T.Id "trace_id"; T.Id "span_id"] [T.Ord (T.Id "timestamp_ns") true] None.
  Proof. unfold P.init_index, idx_sel. rewrite app_nil_r. reflexivity. Qed.

  Lemma onosub_and_into hv cl : onosub hv -> nosubs cl -> onosub (T.and_into hv cl).
  Proof. intros H1 H2. unfold onosub. rewrite oe_and_into, H1, H2. reflexivity. Qed.

  (* what AttrConditionPlanner.Process returns: the index select with clauses that leave the window alone *)
  Definition idx_result (tbl : string) (s : T.select) : Prop :=
    exists cols extra hv, s = idx_sel tbl [] cols [] extra hv [T.Id "trace_id"; T.Id "span_id"] [T.Ord (T.Id "timestamp_ns") true] None
      /\ nosubs cols /\ Forall okx extra /\ onosub hv.

  Lemma agg_step_ok attr extra aggcol :
    P.agg_step attr = (extra, aggcol) -> Forall okx extra /\ Forall is_lop extra /\ match aggcol with Some col => nosub col | None => True end.
  Proof.
    unfold P.agg_step. destruct (String.eqb attr ""); [intros [= <- <-]; repeat split; constructor|].
    destruct (String.eqb attr "duration"); intros [= <- <-].
    - split; [constructor|]. split; [constructor | reflexivity].
    - split; [constructor; [apply okx_key_clause | constructor]|]. split; [|reflexivity].
      constructor; [eexists; eexists; reflexivity | constructor].
  Qed.

  Lemma where0_ok terms scs :
    Forall (fun e => nosub e /\ is_lop e) scs ->
    Forall (fun e => nosub e /\ is_lop e)
      (map snd (filter (fun p : Traceql.attr_sel * T.expr => P.is_indexed_label (Traceql.a_label (fst p))) (combine terms scs))).
  Proof.
    intros H. revert terms. induction H as [|e r He Hr IH]; intros terms; destruct terms as [|t ts]; cbn [combine filter map]; try constructor.
    destruct (P.is_indexed_label _); cbn [map snd]; [constructor; [exact He | apply IH] | apply IH].
  Qed.

  Lemma attr_condition_idx terms cond agg n s :
    P.attr_condition c terms cond agg n = P.Ok s -> idx_result (P.attrs_table c) s.
  Proof.
    unfold P.attr_condition. unfold P.bind at 1.
    destruct (P.map_res P.get_term terms) as [scs| |] eqn:E; try discriminate.
    pose proof (map_res_get_term _ _ E) as Hs.
    assert (Hn : nosubs scs) by (apply nosubs_forall; eapply Forall_impl; [|exact Hs]; intros e [H _]; exact H).
    destruct cond as [cd|]; [|discriminate].
    destruct (P.get_cond scs cd false) as [having b] eqn:Eh.
    pose proof (get_cond_nosub scs Hn cd false having b Eh) as Hh.
    destruct (P.agg_step agg) as [extra aggcol] eqn:Ea.
    destruct (agg_step_ok _ _ _ Ea) as [Hex [Hexl Hcol]].
    pose proof (where0_ok terms scs Hs) as Hw0.
    set (where0 := map snd (filter _ (combine terms scs))) in *.
    rewrite init_index_idx. cbn [T.s_cols idx_sel].
    set (cols4 := [T.Col (T.Id "trace_id") "trace_id"; T.Col (T.Id "span_id") "span_id";
                   T.Col (T.Fn T.FAny [T.Id "duration"]) "duration"; T.Col (T.Fn T.FAny [T.Id "timestamp_ns"]) "timestamp_ns"]).
    fold (idx_sel (P.attrs_table c) [] cols4 [] [] None [T.Id "trace_id"; T.Id "span_id"] [T.Ord (T.Id "timestamp_ns") true] None).
    assert (Hc4 : nosubs cols4) by reflexivity.
    assert (Hcols : exists cols, nosubs cols /\
      (match aggcol with Some col => T.set_cols (cols4 ++ [col])%list (idx_sel (P.attrs_table c) [] cols4 [] [] None [T.Id "trace_id"; T.Id "span_id"] [T.Ord (T.Id "timestamp_ns") true] None)
                       | None => idx_sel (P.attrs_table c) [] cols4 [] [] None [T.Id "trace_id"; T.Id "span_id"] [T.Ord (T.Id "timestamp_ns") true] None end)
      = idx_sel (P.attrs_table c) [] cols [] [] None [T.Id "trace_id"; T.Id "span_id"] [T.Ord (T.Id "timestamp_ns") true] None).
    { destruct aggcol as [col|]; [exists (cols4 ++ [col])%list | exists cols4]; (split; [|reflexivity]); [|exact Hc4].
      apply nosubs_app; [exact Hc4 | apply nosubs_cons; [exact Hcol | reflexivity]]. }
    destruct Hcols as [cols [Hcn ->]].
    assert (Hhv : onosub (T.and_into None [having])) by (apply onosub_and_into; [reflexivity | apply nosubs_cons; [exact Hh | reflexivity]]).
    assert (Hwh : Forall (fun e => nosub e /\ is_lop e) (where0 ++ extra)).
    { apply Forall_app. split; [exact Hw0|]. clear -Hex Hexl. induction Hex as [|e r [He _] Hr IH]; inversion Hexl; subst; constructor; [split; assumption | apply IH; assumption]. }
    assert (Hor : (where0 ++ extra)%list <> [] -> okx (T.LOp T.OOr (where0 ++ extra))).
    { intros Hne. apply okx_or.
      - apply nosubs_forall. eapply Forall_impl; [|exact Hwh]. intros e [H _]; exact H.
      - destruct (where0 ++ extra)%list as [|e r]; [exact I|]. inversion Hwh as [|x y [_ Hl] _]; subst. exact Hl. }
    pose proof (random_filter_okx c) as Hrf.
    assert (Hfin : forall m2 extra2, Forall okx extra2 ->
       m2 = idx_sel (P.attrs_table c) [] cols [] extra2 (T.and_into None [having]) [T.Id "trace_id"; T.Id "span_id"] [T.Ord (T.Id "timestamp_ns") true] None ->
       P.Ok (match P.random_filter c with [] => m2 | f => T.and_where f m2 end) = P.Ok s -> idx_result (P.attrs_table c) s).
    { intros m2 extra2 He2 -> Hs2. injection Hs2 as <-. destruct (P.random_filter c) as [|f0 fr] eqn:Ef.
      - cbv beta iota. exists cols, extra2, (T.and_into None [having]). repeat split; assumption.
      - exists cols, (extra2 ++ f0 :: fr)%list, (T.and_into None [having]).
        split; [reflexivity|]. repeat split; try assumption. apply Forall_app. split; assumption. }
    destruct (where0 ++ extra)%list as [|w0 wr] eqn:Ew.
    - rewrite idx_and_having. apply (Hfin _ []); [constructor | reflexivity].
    - destruct (P.holds_without_indexed terms cd).
      + rewrite idx_and_having. apply (Hfin _ []); [constructor | reflexivity].
      + rewrite idx_and_having, idx_and_where. apply (Hfin _ ([] ++ [T.LOp T.OOr (w0 :: wr)])%list); [|reflexivity].
        constructor; [apply Hor; discriminate | constructor].
  Qed.

  Notation B := (scan_bounded info W).

  Lemma idx_result_good tbl s : info tbl = idx_untyped -> idx_result tbl s -> tgood B s.
  Proof.
    intros Hi [cols [extra [hv [-> [Hc [Hex Hhv]]]]]]. unfold tgood.
    rewrite idx_sel_scans by (try assumption; try constructor; reflexivity). cbn [wsc flat_map app].
    constructor; [|constructor]. apply idx_scan_bounded; [exact Hi | constructor | exact Hex].
  Qed.

  Lemma ctx_order : P.from_ns c <= P.to_ns c.
  Proof. apply Hctx. Qed.

  (* ---------------- attrless.go *)
  Lemma attrless_good : tgood B (P.attrless c).
  Proof.
    pose proof ctx_order as Ho. pose proof (tt_traces info c Htab) as Ht.
    unfold P.attrless. apply tgood_set_with.
    - constructor; [|constructor; [|constructor; [|constructor]]]; cbn [snd]; unfold tgood; rewrite tq_sscans_eq;
        cbn [wsc flat_map app tq_own_scan tq_base_table tq_join_scan fst snd oe tq_escans jes]; try constructor.
      + eapply data_bounded; [exact Ht | reflexivity | |]; unfold W, tq_win; cbn [w_from w_to w_lo_min w_hi_max]; lia.
      + constructor.
      + eapply data_bounded; [exact Ht | reflexivity | |]; unfold W, tq_win; cbn [w_from w_to w_lo_min w_hi_max]; lia.
      + constructor.
    - rewrite tq_sscans_eq. cbn [wsc flat_map app tq_own_scan tq_base_table tq_join_scan fst snd oe tq_escans jes].
      constructor; [|constructor].
      eapply data_bounded; [exact Ht | reflexivity | |]; unfold W, tq_win; cbn [w_from w_to w_lo_min w_hi_max]; lia.
  Qed.

  (* ---------------- index_groupby.go / aggregator.go / index_limit.go: selects over other selects *)
  Definition igood (s : T.select) : Prop := noown s /\ tgood B s.

  Lemma index_groupby_good prefix main : tgood B main -> igood (P.index_groupby prefix main).
  Proof.
    intros Hm. unfold P.index_groupby. split; [reflexivity|].
    apply tgood_set_with; [constructor; [exact Hm | constructor]|].
    rewrite tq_sscans_eq. cbn [wsc flat_map app tq_own_scan tq_base_table tq_join_scan oe tq_escans]. constructor.
  Qed.

  Lemma agg_expr_nosub fn prefix : nosub (P.agg_expr fn prefix).
  Proof. destruct fn; reflexivity. Qed.

  Lemma aggregator_good g prefix main s : igood main -> P.aggregator_planner g prefix main = P.Ok s -> igood s.
  Proof.
    intros [Hn Hm]. unfold P.aggregator_planner, P.bind.
    destruct (P.comparison_fn (Traceql.g_cmp g)) as [fn| |]; try discriminate.
    destruct (P.agg_cmp_text g) as [txt| |]; try discriminate.
    intros [= <-]. split; [apply noown_and_having, Hn|].
    apply tgood_and_having; [|exact Hm]. apply nosubs_cons; [|reflexivity].
    unfold nosub. cbn [tq_escans flat_map]. rewrite agg_expr_nosub. reflexivity.
  Qed.

  Lemma index_limit_good s : igood s -> igood (P.index_limit c s).
  Proof.
    intros [Hn Hs]. unfold P.index_limit. destruct (Z.eqb (P.limit c) 0); [split; assumption|].
    split; [apply noown_set_limit, Hn | apply tgood_set_limit; [reflexivity | exact Hs]].
  Qed.

  Lemma simple_planner_good sc prefix n s : P.simple_planner c sc prefix n = P.Ok s -> igood s.
  Proof.
    unfold P.simple_planner. unfold P.bind at 1. destruct (P.check sc) as [u| |]; try discriminate.
    destruct (P.analyze (Traceql.sc_head sc)) as [cond terms].
    unfold P.bind at 1.
    destruct (match Traceql.sel_attr (Traceql.sc_head sc) with
              | Some _ => P.attr_condition c terms cond (P.agg_attr_of (Traceql.sc_head sc)) n
              | None => P.Ok (P.attrless c) end) as [main| |] eqn:Em; try discriminate.
    assert (Hmain : tgood B main).
    { destruct (Traceql.sel_attr (Traceql.sc_head sc)).
      - apply (idx_result_good (P.attrs_table c)); [apply Htab | apply (attr_condition_idx _ _ _ _ _ Em)].
      - injection Em as <-. apply attrless_good. }
    pose proof (index_groupby_good prefix main Hmain) as Hg.
    destruct (Traceql.sel_agg (Traceql.sc_head sc)) as [ag|]; [apply aggregator_good, Hg | intros [= <-]; exact Hg].
  Qed.

  (* ---------------- complex_and.go / complex_or.go *)
  Lemma max_ts_col_nosub o : nosub (P.max_ts_col o).
  Proof. destruct o; reflexivity. Qed.

  Lemma wrap_operand_good tagged i o : igood (snd o) -> igood (P.wrap_operand tagged i o).
  Proof.
    intros [Hn Hs]. unfold P.wrap_operand. split; [reflexivity|].
    apply tgood_set_with.
    - constructor; [|constructor]. cbn [snd]. apply tgood_set_cols_noown; [exact Hn | | exact Hs].
      rewrite flat_map_app. apply Forall_app. split; [apply tgood_cols_nosub, Hs|].
      cbn [flat_map]. rewrite max_ts_col_nosub. constructor.
    - rewrite tq_sscans_eq. destruct tagged;
        cbn [wsc flat_map app tq_own_scan tq_base_table tq_join_scan fst snd oe tq_escans jes]; constructor.
  Qed.

  Lemma wrap_operands_good tagged : forall l i, Forall (fun o => igood (snd o)) l -> Forall igood (P.wrap_operands tagged i l).
  Proof.
    induction l as [|o r IH]; intros i H; cbn [P.wrap_operands]; [constructor|].
    inversion H; subst. constructor; [apply wrap_operand_good; assumption | apply IH; assumption].
  Qed.

  Lemma complex_select_good fn prefix sels : Forall (fun o => igood (snd o)) sels -> igood (P.complex_select fn prefix sels).
  Proof.
    intros H. unfold P.complex_select. split; [reflexivity|].
    set (tagged := match fn with Traceql.AOAnd => true | _ => false end).
    pose proof (wrap_operands_good tagged sels 0%nat H) as Hw.
    unfold tgood. rewrite tq_sscans_eq.
    cbn [wsc flat_map app tq_own_scan tq_base_table tq_join_scan fst snd oe tq_escans jes]. rewrite !app_nil_r.
    assert (Hu : Forall B (flat_map tq_sscans (P.wrap_operands tagged 0 sels))).
    { induction Hw as [|x r [_ Hx] Hr IH]; cbn [flat_map]; [constructor | apply Forall_app; split; assumption]. }
    destruct tagged; cbn [oe tq_escans flat_map app]; rewrite ?app_nil_r; exact Hu.
  Qed.

  Lemma ep_ind' (Pe : P.ep -> Prop) :
    (forall s p, Pe (P.EPSimple s p)) -> (forall p fn ops, Forall Pe ops -> Pe (P.EPComplex p fn ops)) -> forall t, Pe t.
  Proof.
    intros Hs Hc. fix IH 1. intros [s p|p fn ops]; [apply Hs|]. apply Hc.
    induction ops as [|x r IHr]; constructor; [apply IH | apply IHr].
  Qed.

  Lemma ep_process_good n t : forall s, P.ep_process c n t = P.Ok s -> igood s.
  Proof.
    induction t as [sc prefix | prefix fn ops IHops] using ep_ind'; intros s; cbn [P.ep_process].
    - apply simple_planner_good.
    - unfold P.bind at 1.
      match goal with |- context [match ?g ops with _ => _ end] => set (go := g) end.
      assert (Hgo : forall sels, go ops = P.Ok sels -> Forall (fun o => igood (snd o)) sels).
      { induction IHops as [|x r Hx Hr IHr]; intros sels; unfold go; cbn; fold go; [intros [= <-]; constructor|].
        unfold P.bind at 1. destruct (P.ep_process c n x) as [y| |] eqn:Ey; try discriminate.
        unfold P.bind at 1. destruct (go r) as [ys| |] eqn:Eys; try discriminate.
        intros [= <-]. constructor; [cbn [snd]; apply Hx; reflexivity | apply IHr; reflexivity]. }
      destruct (go ops) as [sels| |]; try discriminate. specialize (Hgo sels eq_refl).
      destruct fn; try discriminate; intros [= <-]; apply complex_select_good, Hgo.
  Qed.

  Lemma plan_index_good q n s : P.plan_index q c n = P.Ok s -> igood s.
  Proof.
    unfold P.plan_index. destruct (Traceql.sc_tail q).
    - destruct (P.plan_complex None 0 None q) as [[[t|] cnt]|]; try discriminate.
      unfold P.bind at 1. destruct (P.ep_check t) as [u| |]; try discriminate.
      unfold P.bind at 1. destruct (P.ep_process c n t) as [res| |] eqn:E; try discriminate.
      intros [= <-]. apply index_limit_good, (ep_process_good n t), E.
    - unfold P.bind at 1. destruct (P.simple_planner c q "" n) as [res| |] eqn:E; try discriminate.
      intros [= <-]. apply index_limit_good, (simple_planner_good _ _ _ _ E).
  Qed.

  (* ---------------- traces_data.go: the final statement of a search *)
  Notation BR := (fun sc => scan_bounded info W sc \/ trace_restricted sc).
  Lemma tgood_weaken s : tgood B s -> tgood BR s.
  Proof. intros H. unfold tgood in *. eapply Forall_impl; [|exact H]. intros sc Hs. left. exact Hs. Qed.

  (* both reads of tempo_traces carry traces.timestamp_ns >= From and < To (fix 87d7e49; before it they were restricted by
     trace_id IN (trace_ids) alone) *)
  Lemma traces_data_good main : tgood B main -> tgood B (P.traces_data c main).
  Proof.
    intros Hm. pose proof ctx_order as Ho. pose proof (tt_traces info c Htab) as Ht. pose proof (tt_traces_dist info c Htab) as Htd.
    unfold P.traces_data. apply tgood_set_with.
    - constructor; [exact Hm|]. constructor; [|constructor; [|constructor; [|constructor]]]; cbn [snd]; unfold tgood;
        rewrite tq_sscans_eq; cbn [wsc flat_map app tq_own_scan tq_base_table tq_join_scan fst snd oe tq_escans jes]; try constructor.
      + eapply data_bounded; [exact Ht | reflexivity | |]; unfold W, tq_win; cbn [w_from w_to w_lo_min w_hi_max]; lia.
      + constructor.
    - rewrite tq_sscans_eq. cbn [wsc flat_map app tq_own_scan tq_base_table tq_join_scan fst snd oe tq_escans jes].
      constructor; [|constructor].
      destruct (P.is_cluster c);
        (eapply data_bounded; [first [exact Ht | exact Htd] | reflexivity | |]; unfold W, tq_win; cbn [w_from w_to w_lo_min w_hi_max]; lia).
  Qed.

  Lemma plan_search_good q n s : P.plan_search q c n = P.Ok s -> tgood B s.
  Proof.
    unfold P.plan_search. unfold P.bind at 1. destruct (P.plan_index q c n) as [s0| |] eqn:E; try discriminate.
    intros [= <-]. destruct (plan_index_good _ _ _ E) as [_ H0]. pose proof (traces_data_good s0 H0) as Ht.
    unfold P.index_limit. destruct (Z.eqb (P.limit c) 0); [exact Ht | apply tgood_set_limit; [reflexivity | exact Ht]].
  Qed.

  (* ---------------- select_tags_planner.go / select_values_planner.go / all_values_request_planner.go *)
  Definition span_in : T.expr := T.InE (T.Id "span_id") [T.WRef "pre_select_tags"].
  Lemma okx_span_in : okx span_in.
  Proof. split; [reflexivity|]. cbn. constructor; [|constructor]. intros sc. reflexivity. Qed.

  Definition tags_result (cols : list T.expr) (extra : list T.expr) (s : T.select) : Prop :=
    exists ws ob lim, s = idx_sel (P.attrs_dist_table c) ws cols [span_in] extra None [T.Id "trace_id"; T.Id "span_id"] ob lim
      /\ wgood B ws /\ nosubs ob /\ onosub lim.

  Lemma tags_result_good cols extra s : nosubs cols -> Forall okx extra -> tags_result cols extra s -> tgood B s.
  Proof.
    intros Hc Hex [ws [ob [lim [-> [Hws [Hob Hlim]]]]]]. unfold tgood.
    rewrite idx_sel_scans; try assumption; try reflexivity; [|constructor; [apply okx_span_in | constructor]].
    apply Forall_app. split; [apply wgood_wsc, Hws|]. constructor; [|constructor].
    apply idx_scan_bounded; [apply Htab | constructor; [apply okx_span_in | constructor] | exact Hex].
  Qed.

  Lemma select_tags_shape main : tgood B main -> tags_result [T.Col (T.Id "key") "key"] [] (P.select_tags c main).
  Proof.
    intros Hm. unfold P.select_tags.
    set (pre := T.Sel [] false [T.Id "span_id"] (Some (T.WRef "select_spans")) [] None None None [] [] None).
    assert (Hws : wgood B (fold_left (T.add_with 16) [("select_spans"%string, main); ("pre_select_tags"%string, pre)] [])).
    { apply set_with_wgood. constructor; [exact Hm|]. constructor; [|constructor]. cbn [snd]. unfold tgood, pre.
      rewrite tq_sscans_eq. cbn. constructor. }
    destruct (Z.ltb 0 (P.limit c)).
    - eexists _, _, _. split; [reflexivity|]. split; [exact Hws|]. split; reflexivity.
    - eexists _, _, _. split; [reflexivity|]. split; [exact Hws|]. split; reflexivity.
  Qed.

  Lemma select_values_shape key main :
    tgood B main -> tags_result [T.Col (T.Id "val") "val"] [T.LOp T.OEq [T.Id "key"; T.StrV key]] (P.select_values c key main).
  Proof.
    intros Hm. unfold P.select_values. destruct (select_tags_shape main Hm) as [ws [ob [lim [-> [Hws [Hob Hlim]]]]]].
    rewrite idx_set_cols, idx_and_where. cbn [app].
    destruct (Z.ltb 0 (P.limit c)).
    - rewrite idx_set_order, idx_set_limit. eexists _, _, _. split; [reflexivity|]. split; [exact Hws|]. split; reflexivity.
    - eexists _, _, _. split; [reflexivity|]. split; [exact Hws|]. split; assumption.
  Qed.

  Lemma all_values_good key : tgood B (P.all_values c key).
  Proof.
    unfold P.all_values, tgood. rewrite tq_sscans_eq.
    cbn [wsc flat_map app tq_own_scan tq_base_table tq_join_scan fst snd oe tq_escans jes].
    constructor; [|constructor]. destruct Hctx as [H1 H2 H3 H4].
    eapply idx_bounded_dates; [apply Htab | | |].
    - unfold bounds. cbn [sc_conj tq_ocv oconjs cv cv_lop map conjs flat_map app].
      unfold classify, col_is. cbn [split_path after_last_dot String.eqb Ascii.eqb Bool.eqb existsb orb andb sc_tsn ts_names map cv shadows_ts ts_alias_of flat_map app is_ts_path ends_with].
      unfold date_bnd. rewrite ffd_from_val, to_date_val. cbn. reflexivity.
    - unfold W, tq_win. cbn [w_from]. unfold day_of_ns. apply Z.div_le_mono; [reflexivity | lia].
    - unfold W, tq_win. cbn [w_to]. apply day_mono. lia.
  Qed.

  Theorem plan_good q m n s : P.plan q m c n = P.Ok s -> tgood B s.
  Proof.
    unfold P.plan. destruct m as [| |key].
    - apply plan_search_good.
    - destruct (Traceql.sc_tail q); [discriminate|].
      unfold P.bind at 1. destruct (P.check q) as [u| |]; try discriminate.
      destruct (P.analyze (Traceql.sc_head q)) as [cond terms].
      unfold P.bind at 1. destruct (P.attr_condition c terms cond _ n) as [main| |] eqn:E; try discriminate.
      intros [= <-]. apply (tags_result_good [T.Col (T.Id "key") "key"] []); [reflexivity | constructor|].
      apply select_tags_shape. apply (idx_result_good (P.attrs_table c)); [apply Htab | apply (attr_condition_idx _ _ _ _ _ E)].
    - destruct (Traceql.sc_tail q); [discriminate|].
      unfold P.bind at 1. destruct (P.check q) as [u| |]; try discriminate.
      destruct (P.analyze (Traceql.sc_head q)) as [cond terms].
      destruct cond as [cd|]; [|intros [= <-]; apply all_values_good].
      unfold P.bind at 1. destruct (P.attr_condition c terms (Some cd) _ n) as [main| |] eqn:E; try discriminate.
      intros [= <-].
      apply (tags_result_good [T.Col (T.Id "val") "val"] [T.LOp T.OEq [T.Id "key"; T.StrV key]]); [reflexivity | |].
      + constructor; [|constructor]. split; [reflexivity|]. cbn. constructor; [apply neutral_key_eq | constructor].
      + apply select_values_shape. apply (idx_result_good (P.attrs_table c)); [apply Htab | apply (attr_condition_idx _ _ _ _ _ E)].
  Qed.

  (* tags and values requests: no read escapes the window *)
  Theorem plan_tags_good q m n s : m <> P.MSearch -> P.plan q m c n = P.Ok s -> tgood B s.
  Proof.
    intros Hm. unfold P.plan. destruct m as [| |key]; [contradiction| |].
    - destruct (Traceql.sc_tail q); [discriminate|].
      unfold P.bind at 1. destruct (P.check q) as [u| |]; try discriminate.
      destruct (P.analyze (Traceql.sc_head q)) as [cond terms].
      unfold P.bind at 1. destruct (P.attr_condition c terms cond _ n) as [main| |] eqn:E; try discriminate.
      intros [= <-]. apply (tags_result_good [T.Col (T.Id "key") "key"] []); [reflexivity | constructor|].
      apply select_tags_shape. apply (idx_result_good (P.attrs_table c)); [apply Htab | apply (attr_condition_idx _ _ _ _ _ E)].
    - destruct (Traceql.sc_tail q); [discriminate|].
      unfold P.bind at 1. destruct (P.check q) as [u| |]; try discriminate.
      destruct (P.analyze (Traceql.sc_head q)) as [cond terms].
      destruct cond as [cd|]; [|intros [= <-]; apply all_values_good].
      unfold P.bind at 1. destruct (P.attr_condition c terms (Some cd) _ n) as [main| |] eqn:E; try discriminate.
      intros [= <-].
      apply (tags_result_good [T.Col (T.Id "val") "val"] [T.LOp T.OEq [T.Id "key"; T.StrV key]]); [reflexivity | |].
      + constructor; [|constructor]. split; [reflexivity|]. cbn. constructor; [apply neutral_key_eq | constructor].
      + apply select_values_shape. apply (idx_result_good (P.attrs_table c)); [apply Htab | apply (attr_condition_idx _ _ _ _ _ E)].
  Qed.
End CTX.

(* ------------------------------------------------------------------ the complexity estimate (planner.planEval) and the
   tags planner without a query (model/ScansTq.v, module TE) *)
Section EVAL.
  Variable info : string -> tinfo.
  Variable c : P.ctx.
  Hypothesis Htab : tq_tables info c.
  Hypothesis Hctx : tq_ctx_ok c.
  Let c' := TE.eval_ctx c.
  Notation B := (scan_bounded info (tq_win c)).

  Lemma eval_ctx_ok : tq_ctx_ok c'.
  Proof. destruct Hctx as [H1 H2 H3 H4]. constructor; assumption. Qed.
  Lemma eval_tbl : info (P.attrs_table c') = idx_untyped.
  Proof. apply (tt_attrs_dist info c Htab). Qed.

  Lemma attr_condition_eval_good terms cond agg prefix n s :
    TE.attr_condition_eval c terms cond agg prefix n = P.Ok s -> tgood B s.
  Proof.
    unfold TE.attr_condition_eval. unfold P.bind at 1. fold c'.
    destruct (P.attr_condition c' terms cond agg n) as [main| |] eqn:E; try discriminate.
    apply attr_condition_idx in E. destruct E as [cols [extra [hv [-> [Hc [Hex Hhv]]]]]].
    unfold P.bind at 1. destruct (P.map_res P.get_term terms) as [scs| |] eqn:Es; try discriminate.
    pose proof (map_res_get_term _ _ Es) as Hs.
    assert (Hn : nosubs scs) by (apply nosubs_forall; eapply Forall_impl; [|exact Hs]; intros e [H _]; exact H).
    intros [= <-].
    change (tgood B (idx_sel c' (P.attrs_table c') [] [T.Col (T.StrV prefix) "prefix"; T.Col (T.Id "count()") "_count"] [] extra None
                      [T.BitSet scs; T.Id "prefix"] [] None)).
    unfold tgood. rewrite idx_sel_scans;
      [| reflexivity | constructor | exact Hex | reflexivity
       | unfold nosubs; cbn [flat_map tq_escans app]; rewrite app_nil_r; exact Hn | reflexivity | reflexivity].
    cbn [wsc flat_map app]. constructor; [|constructor].
    apply (idx_scan_bounded info c' eval_ctx_ok); [exact eval_tbl | constructor | exact Hex].
  Qed.

  Lemma simple_eval_good sc prefix n s : TE.simple_eval c sc prefix n = P.Ok s -> tgood B s.
  Proof.
    unfold TE.simple_eval. unfold P.bind at 1. destruct (P.check sc) as [u| |]; try discriminate.
    destruct (P.analyze (Traceql.sc_head sc)) as [cond terms].
    destruct (Traceql.sel_attr (Traceql.sc_head sc)); [apply attr_condition_eval_good|].
    intros [= <-]. unfold TE.attrless_eval, tgood. rewrite tq_sscans_eq. cbn. constructor.
  Qed.

  Lemma ep_eval_good n t : forall s, TE.ep_eval c n t = P.Ok s -> tgood B s.
  Proof.
    induction t as [sc prefix | prefix fn ops IHops] using ep_ind'; intros s; cbn [TE.ep_eval].
    - apply simple_eval_good.
    - unfold P.bind at 1.
      match goal with |- context [match ?g ops with _ => _ end] => set (go := g) end.
      assert (Hgo : forall sels, go ops = P.Ok sels -> Forall (tgood B) sels).
      { induction IHops as [|x r Hx Hr IHr]; intros sels; unfold go; cbn; fold go; [intros [= <-]; constructor|].
        unfold P.bind at 1. destruct (TE.ep_eval c n x) as [y| |] eqn:Ey; try discriminate.
        unfold P.bind at 1. destruct (go r) as [ys| |] eqn:Eys; try discriminate.
        intros [= <-]. constructor; [apply Hx; reflexivity | apply IHr; reflexivity]. }
      destruct (go ops) as [sels| |]; try discriminate. specialize (Hgo sels eq_refl).
      intros [= <-]. unfold tgood. rewrite tq_sscans_eq.
      cbn [wsc flat_map app tq_own_scan tq_base_table tq_join_scan fst snd oe tq_escans jes]. rewrite !app_nil_r.
      induction Hgo as [|x r Hx Hr IH]; cbn [flat_map]; [constructor | apply Forall_app; split; assumption].
  Qed.

  Theorem plan_eval_good q n s : TE.plan_eval q c n = P.Ok s -> tgood B s.
  Proof.
    unfold TE.plan_eval. unfold P.bind at 1.
    match goal with |- match ?X with _ => _ end = _ -> _ => destruct X as [main| |] eqn:E end; try discriminate.
    assert (Hm : tgood B main).
    { destruct (Traceql.sc_tail q).
      - destruct (P.plan_complex None 0 None q) as [[[t|] cnt]|]; try discriminate. apply (ep_eval_good n t), E.
      - apply (simple_eval_good _ _ _ _ E). }
    intros [= <-]. unfold TE.eval_finalizer. apply tgood_set_with.
    - constructor; [exact Hm | constructor].
    - rewrite tq_sscans_eq. cbn. constructor.
  Qed.

  Lemma all_tags_good : tgood B (TE.all_tags c).
  Proof.
    unfold TE.all_tags, tgood. rewrite tq_sscans_eq.
    cbn [wsc flat_map app tq_own_scan tq_base_table tq_join_scan fst snd oe tq_escans jes].
    constructor; [|constructor]. destruct Hctx as [H1 H2 H3 H4].
    eapply idx_bounded_dates; [apply Htab | | |].
    - unfold bounds. cbn [sc_conj tq_ocv oconjs cv cv_lop map conjs flat_map app].
      unfold classify, col_is. cbn [split_path after_last_dot String.eqb Ascii.eqb Bool.eqb existsb orb andb sc_tsn ts_names map cv shadows_ts ts_alias_of flat_map app is_ts_path ends_with].
      unfold date_bnd. rewrite (ffd_from_val c Hctx), (to_date_val c Hctx). cbn. reflexivity.
    - unfold tq_win. cbn [w_from]. unfold day_of_ns. apply Z.div_le_mono; [reflexivity | lia].
    - unfold tq_win. cbn [w_to]. apply day_mono. lia.
  Qed.
End EVAL.

(* ------------------------------------------------------------------ the theorems, closed *)
Theorem tq_plan_scans_bounded info c q m n s :
  tq_tables info c -> tq_ctx_ok c -> P.plan q m c n = P.Ok s ->
  Forall (scan_bounded info (tq_win c)) (tq_scans s).
Proof. intros Ht Hc Hp. exact (plan_good info c Ht Hc q m n s Hp). Qed.

Theorem tq_index_scans_bounded info c q n s :
  tq_tables info c -> tq_ctx_ok c -> P.plan_index q c n = P.Ok s ->
  Forall (scan_bounded info (tq_win c)) (tq_scans s).
Proof. intros Ht Hc Hp. exact (proj2 (plan_index_good info c Ht Hc q n s Hp)). Qed.

Theorem tq_tags_scans_bounded info c q m n s :
  tq_tables info c -> tq_ctx_ok c -> m <> P.MSearch -> P.plan q m c n = P.Ok s ->
  Forall (scan_bounded info (tq_win c)) (tq_scans s).
Proof. intros Ht Hc Hm Hp. exact (plan_tags_good info c Ht Hc q m n s Hm Hp). Qed.

(* the complexity estimate sent before every search / tags / values request with a query *)
Theorem tq_eval_scans_bounded info c q n s :
  tq_tables info c -> tq_ctx_ok c -> TE.plan_eval q c n = P.Ok s ->
  Forall (scan_bounded info (tq_win c)) (tq_scans s).
Proof. intros Ht Hc Hp. exact (plan_eval_good info c Ht Hc q n s Hp). Qed.

(* /api/v2/search/tags and /api/v2/search/tag/{tag}/values without a query *)
Theorem tq_all_tags_scans_bounded info c key :
  tq_tables info c -> tq_ctx_ok c ->
  Forall (scan_bounded info (tq_win c)) (tq_scans (TE.all_tags c)) /\
  Forall (scan_bounded info (tq_win c)) (tq_scans (P.all_values c key)).
Proof. intros Ht Hc. split; [exact (all_tags_good info c Ht Hc) | exact (all_values_good info c Ht Hc key)]. Qed.

(* ------------------------------------------------------------------ witnesses *)
Open Scope string_scope.
(* 2024-01-10 12:00 - 13:00 UTC, cluster layout *)
Definition tq_ctx0 : P.ctx :=
  {| P.from_ns := 1704888000000000000; P.to_ns := 1704891600000000000;
     P.from_date := "2024-01-10"; P.to_date := "2024-01-10"; P.ffd_from := "2024-01-10"; P.ffd_to := "2024-01-10";
     P.limit := 20; P.is_cluster := true; P.rf_max := 3; P.rf_i := 1; P.cached := ["00112233445566778899aabbccddeeff"];
     P.attrs_table := "tempo_traces_attrs_gin"; P.attrs_dist_table := "tempo_traces_attrs_gin_dist";
     P.traces_table := "tempo_traces"; P.traces_dist_table := "tempo_traces_dist"; P.kv_dist_table := "tempo_traces_kv_dist" |}.
Lemma tq_ctx0_tables : tq_tables table_info tq_ctx0.
Proof. constructor; reflexivity. Qed.
Lemma tq_ctx0_ok : tq_ctx_ok tq_ctx0.
Proof. constructor; try (vm_compute; reflexivity); vm_compute; discriminate. Qed.

Definition v_str_b : Traceql.value :=
  {| Traceql.v_time := ""; Traceql.v_f := ""; Traceql.v_str := Some """b"""; Traceql.v_unq := Some "b"; Traceql.v_ffmt := None; Traceql.v_dur := None |}.
Definition v_dur_1ms : Traceql.value :=
  {| Traceql.v_time := "1ms"; Traceql.v_f := ""; Traceql.v_str := None; Traceql.v_unq := None; Traceql.v_ffmt := None; Traceql.v_dur := Some 1000000%Z |}.
Definition sel_ab_dur : Traceql.selector :=
  {| Traceql.sel_attr := Some (Traceql.AExp (Traceql.HTerm {| Traceql.a_label := ".a"; Traceql.a_op := Traceql.CEq; Traceql.a_val := v_str_b |}) Traceql.AOAnd
                                (Some (Traceql.AExp (Traceql.HTerm {| Traceql.a_label := "duration"; Traceql.a_op := Traceql.CGt; Traceql.a_val := v_dur_1ms |}) Traceql.AONone None)));
     Traceql.sel_agg := None |}.
(* {.a="b" && duration>1ms} *)
Definition tq_q0 : Traceql.script := Traceql.Script sel_ab_dur Traceql.AONone None.
(* {.a="b" && duration>1ms} && {.a="b" && duration>1ms} *)
Definition tq_q1 : Traceql.script := Traceql.Script sel_ab_dur Traceql.AOAnd (Some tq_q0).

Definition tq_res (q : Traceql.script) (m : P.mode) : option T.select :=
  match P.plan q m tq_ctx0 1 with P.Ok s => Some s | _ => None end.
Definition tq_all_bounded_b (s : T.select) : bool := forallb (scan_bounded_b table_info (tq_win tq_ctx0)) (tq_scans s).

(* the hypotheses are met: simple and complex search, tags, values with and without a selector *)
Lemma tq_examples :
  (match tq_res tq_q0 P.MSearch with Some s => Nat.leb 3 (List.length (tq_scans s)) && tq_all_bounded_b s | None => false end = true) /\
  (match tq_res tq_q1 P.MSearch with Some s => Nat.leb 5 (List.length (tq_scans s)) && tq_all_bounded_b s | None => false end = true) /\
  (match tq_res tq_q0 P.MTags with Some s => Nat.leb 2 (List.length (tq_scans s)) && tq_all_bounded_b s | None => false end = true) /\
  (match tq_res tq_q0 (P.MValues "service.name") with Some s => Nat.leb 2 (List.length (tq_scans s)) && tq_all_bounded_b s | None => false end = true).
Proof. repeat split; vm_compute; reflexivity. Qed.

Definition tq_eval_res (q : Traceql.script) : option T.select := match TE.plan_eval q tq_ctx0 1 with P.Ok s => Some s | _ => None end.
Lemma tq_eval_examples :
  (match tq_eval_res tq_q0 with Some s => Nat.leb 1 (List.length (tq_scans s)) && tq_all_bounded_b s | None => false end = true) /\
  (match tq_eval_res tq_q1 with Some s => Nat.leb 2 (List.length (tq_scans s)) && tq_all_bounded_b s | None => false end = true) /\
  List.length (tq_scans (TE.all_tags tq_ctx0)) = 1%nat.
Proof. repeat split; vm_compute; reflexivity. Qed.
