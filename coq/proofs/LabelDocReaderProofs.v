(* Property C04, the DECODE side in SQL. The reader turns time_series.labels into a Map with
     mapFromArrays(arrayMap(x -> x.1, JSONExtractKeysAndValues(labels, 'String') as rawlbls), arrayMap(x -> x.2, rawlbls))
   and subscripts it / calls JSONExtractString(labels, 'k'). The SQL semantics of properties C07 / C08 / C17
   (model/SqlEval.v: labels_map_raw, label_of) represent the stored document by its key/value list m and read a label with
   label_of m k (first member named k, '' when absent). That representation is faithful when the document is a JSON object
   whose members are all strings (JSONExtractKeysAndValues(.., 'String') then yields the decoded strings, nothing else) and
   whose keys are pairwise distinct (a Map with a repeated key has no single value for it). Here: the document encodeLabels
   writes has both properties and label_of reads exactly the label set, whenever the names are distinct (the property's
   quantifier). json_decode (model/LabelJson.v) accepts ONLY objects of strings, so json_decode = Some m is the first fact. *)
From Coq Require Import List ZArith Lia String Bool Permutation.
From Qryn Require Import model.GoQuote model.LabelJson model.Fingerprint model.Labels proofs.LabelsProofs proofs.JsonQuoteProofs.
From Qryn Require model.SqlEval.
Import ListNotations.
Open Scope Z_scope.

Lemma label_of_present m : NoDup (map fst m) -> forall k v, In (k, v) m -> SqlEval.label_of m k = v.
Proof.
  induction m as [|[k' v'] m IH]; intros Hnd k v Hin; [contradiction|].
  cbn [map fst] in Hnd. inversion Hnd as [|? ? Hnotin Hnd']; subst.
  cbn [SqlEval.label_of fst snd]. destruct Hin as [E|Hin].
  - injection E as -> ->. now rewrite String.eqb_refl.
  - destruct (String.eqb k' k) eqn:Ek.
    + apply String.eqb_eq in Ek. subst k'. exfalso. apply Hnotin. apply in_map_iff. exists (k, v). auto.
    + now apply IH.
Qed.

Lemma label_of_absent m k : ~ In k (map fst m) -> SqlEval.label_of m k = ""%string.
Proof.
  induction m as [|[k' v'] m IH]; intros Hn; [reflexivity|]. cbn [SqlEval.label_of fst snd].
  destruct (String.eqb k' k) eqn:Ek.
  - apply String.eqb_eq in Ek. subst k'. exfalso. apply Hn. now left.
  - apply IH. intros H. apply Hn. now right.
Qed.

(* what the SQL reader's representation needs of a stored document, as one predicate on (document, label list) *)
Definition sql_reader_view_ok (doc : string) (ls : list label) : Prop :=
  exists m, json_decode doc = Some m /\ NoDup (map fst m) /\
            (forall k v, In (k, v) ls -> SqlEval.label_of m k = v) /\
            (forall k, ~ In k (map fst ls) -> SqlEval.label_of m k = ""%string).

(* every label list a client can send through a sanitizing protocol, names distinct after sanitisation *)
Theorem stored_document_meets_sql_reader isprint raw :
  NoDup (map fst (sanitize raw)) -> sql_reader_view_ok (encode_labels isprint (sanitize raw)) (sanitize raw).
Proof.
  intros Hnd. exists (sanitize raw). split; [apply label_document_roundtrip_all|]. split; [assumption|].
  split; [now apply label_of_present|apply label_of_absent].
Qed.

(* the decoders that do not sanitize: any label list of valid UTF-8 with distinct names *)
Theorem stored_document_meets_sql_reader_valid isprint ls :
  forallb label_valid ls = true -> NoDup (map fst ls) -> sql_reader_view_ok (encode_labels isprint ls) ls.
Proof.
  intros Hv Hnd. exists ls. split; [now apply label_document_roundtrip_valid|]. split; [assumption|].
  split; [now apply label_of_present|apply label_of_absent].
Qed.

(* the premise is needed: with a repeated name (Datadog: a ddtags entry "service:x" and the field service = "y") the
   document has two members of that name; the SQL representation reads the first, Go's map in /series keeps the last *)
Example repeated_name_is_ambiguous :
  let ls := [("service", "x"); ("service", "y")]%string in
  json_decode (encode_labels (fun _ => true) ls) = Some ls /\ SqlEval.label_of ls "service" = "x"%string /\
  ~ NoDup (map fst ls).
Proof.
  cbv zeta. split; [vm_compute; reflexivity|]. split; [reflexivity|].
  intros H. inversion H as [|? ? Hn _]. apply Hn. now left.
Qed.

Example sql_reader_hypotheses_met :
  NoDup (map fst (sanitize [("app", "api"); ("k8s.pod", "p""1"); ("9x", "cafe")]%string)) /\
  SqlEval.label_of (sanitize [("app", "api"); ("k8s.pod", "p""1"); ("9x", "cafe")]%string) "k8s_pod" = "p""1"%string.
Proof.
  split; [|vm_compute; reflexivity]. vm_compute. repeat constructor; cbn; intuition discriminate.
Qed.
