(* C01/C02: the two-step swap (model/IngestSwap2.v) is refuted; without a step in its window it is the step SSwap. *)
From Coq Require Import List NArith ZArith Bool Lia.
From Qryn Require Import model.Ingest model.PushHandler model.IngestSpec proofs.IngestBase.
From Qryn Require Import model.IngestSwap2.
Import ListNotations.

(* ---------------------------------------------------------------- the refutation *)
Definition demo_events (tr : list gact2) : list event :=
  match grun2 (ginit2 window_demo_cfg 1) tr with Some (_, es) => es | None => [] end.

Definition act2_wf (a : gact2) : bool := match a with A1 a => act_wf a | _ => true end.

Lemma window_demo_runs : exists x, grun2 (ginit2 window_demo_cfg 1) window_demo = Some (x, demo_events window_demo).
Proof. vm_compute. eexists. reflexivity. Qed.

(* what the client of request 2 is told, and where its row went *)
Lemma window_demo_events :
  demo_events window_demo =
  [ EReq 0 (PEnv 1) KSamples (one_row 1) 10 None;
    EDial 0 true;
    EReq 0 (PEnv 2) KSamples (one_row 2) 10 None;
    ESwap 0;
    ESend 0 KSamples (table_of 5 [1%N; 2%N]);          (* block N: rows 1 AND 2 *)
    EDone 0 false;                                      (* refused *)
    EResolve (PEnv 1) KSamples (one_row 1) false;       (* only request 1 hears of it *)
    EDial 0 true;
    ESwap 0;
    ESend 0 KSamples (table_of 5 []);                   (* block N+1: empty *)
    EDone 0 true;
    EResolve (PEnv 2) KSamples (one_row 2) true ].      (* request 2: success *)
Proof. vm_compute. reflexivity. Qed.

Theorem two_step_swap_refuted :
  exists tr x es,
    grun2 (ginit2 window_demo_cfg 1) tr = Some (x, es) /\
    forallb act2_wf tr = true /\                                             (* every request is a table *)
    run_mon (amon_step true) (amon_init 1) es = None /\                      (* C01: acknowledged, no accepted block holds the row *)
    run_mon (smon_step MTable) (smon_init 1) es = None /\                    (* C02: a block is not the table of its waiters' rows *)
    run_mon (smon_step MClean) (smon_init 1) es = None.
Proof.
  exists window_demo. destruct window_demo_runs as [x H]. exists x, (demo_events window_demo).
  split; [exact H|]. vm_compute. repeat split; reflexivity.
Qed.

(* the same requests and outcomes with request 2 served AFTER the swap (what one critical section enforces): accepted *)
Example no_window_demo_accepted :
  exists x es,
    grun2 (ginit2 window_demo_cfg 1) no_window_demo = Some (x, es) /\
    (exists m, run_mon (amon_step true) (amon_init 1) es = Some m) /\
    (exists m, run_mon (smon_step MTable) (smon_init 1) es = Some m) /\
    windowless (ginit2 window_demo_cfg 1) window_demo = None /\
    (exists l, windowless (ginit2 window_demo_cfg 1) no_window_demo = Some l).
Proof. vm_compute. do 2 eexists. repeat split; eexists; reflexivity. Qed.

(* ---------------------------------------------------------------- the two halves back to back are SSwap *)
Lemma upd_upd {A} n (x y : A) l : upd n y (upd n x l) = upd n y l.
Proof. revert n; induction l as [|a l IH]; intros [|n]; cbn; try reflexivity. now rewrite IH. Qed.

Lemma taken_of_drop_head tk s ws : taken_of tk s = None -> drop_taken ((s, ws) :: tk) s = tk.
Proof.
  unfold drop_taken, taken_of. cbn [filter fst]. rewrite Nat.eqb_refl. cbn [negb].
  induction tk as [|e tk IH]; cbn [find filter]; [reflexivity|].
  destruct (Nat.eqb (fst e) s) eqn:E; [discriminate|]. cbn [negb]. intros H. now rewrite IH.
Qed.
Lemma taken_of_head tk s ws : taken_of ((s, ws) :: tk) s = Some ws.
Proof. unfold taken_of. cbn [find fst]. now rewrite Nat.eqb_refl. Qed.
Lemma in_window_none tk s : in_window tk s = false -> taken_of tk s = None.
Proof. unfold in_window. destruct (taken_of tk s); [discriminate|reflexivity]. Qed.

(* the step SSwap of worker s, spelled out *)
Lemma swap_step g s sv :
  nth_error (svcs g) s = Some sv ->
  gstep g (GSvc s SSwap) =
    if loop_ready sv && client sv then
      if is_nil (results sv) then Some (put_svc g s (set_planned sv false), [])
      else Some (put_svc g s {| kd := kd sv; grp := grp sv; maxq := maxq sv; cols := empty_cols (kd sv); size := 0; results := [];
                                inflight := Some {| p_cols := cols sv; p_res := results sv; p_sent := false |};
                                client := true; planned := false; running := running sv |}, [ESwap s])
    else None.
Proof.
  intros N. cbn [gstep is_request]. unfold svc_act. rewrite N. cbn [sstep].
  destruct (loop_ready sv && client sv); [|reflexivity].
  destruct (is_nil (results sv)); reflexivity.
Qed.

Theorem take_then_install_is_the_swap x s :
  in_window (g_taken x) s = false ->
  match gstep (g_base x) (GSvc s SSwap) with
  | Some (g', []) => gstep2 x (ATake s) = Some ({| g_base := g'; g_taken := g_taken x |}, [])
  | Some (g', es) => grun2 x [ATake s; AInstall s] = Some ({| g_base := g'; g_taken := g_taken x |}, es)
  | None => gstep2 x (ATake s) = None
  end.
Proof.
  intros W. destruct (nth_error (svcs (g_base x)) s) as [sv|] eqn:N.
  2:{ cbn [gstep is_request]. unfold svc_act. rewrite N. cbn [gstep2]. now rewrite N. }
  rewrite (swap_step _ _ _ N). cbn [grun2 gstep2]. rewrite N, W. cbn [negb]. rewrite andb_true_r.
  destruct (loop_ready sv && client sv) eqn:LC; [|reflexivity].
  destruct (is_nil (results sv)) eqn:R; [reflexivity|].
  cbn [g_base g_taken]. unfold put_svc at 1 2. cbn [svcs set_svcs].
  assert (L : (s < length (svcs (g_base x)))%nat) by (apply nth_error_Some; congruence).
  rewrite nth_error_upd_same by exact L. rewrite taken_of_head.
  rewrite taken_of_drop_head by (apply in_window_none; exact W).
  unfold put_svc. cbn [svcs store set_svcs]. rewrite upd_upd.
  apply andb_prop in LC. destruct LC as [_ C].
  unfold svc_installed, svc_taken. cbn. rewrite C. reflexivity.
Qed.

(* ---------------------------------------------------------------- variant runs without a window are runs of the unchanged model *)
Lemma a1_step x a x' es :
  gstep2 x (A1 a) = Some (x', es) -> gstep (g_base x) a = Some (g_base x', es) /\ g_taken x' = g_taken x.
Proof.
  cbn [gstep2]. destruct (excluded (g_taken x) a); [discriminate|].
  destruct (gstep (g_base x) a) as [[g' es']|]; [|discriminate]. intros H; inversion H; subst. cbn. split; reflexivity.
Qed.

Lemma windowless_a1 x a rest :
  windowless x (A1 a :: rest) =
  match gstep2 x (A1 a) with
  | Some (x', _) => match windowless x' rest with Some l => Some (a :: l) | None => None end
  | None => None
  end.
Proof. reflexivity. Qed.
Lemma windowless_take x s rest :
  windowless x (ATake s :: rest) =
  match gstep2 x (ATake s) with
  | Some (x', _) =>
      if in_window (g_taken x') s then
        match rest with
        | AInstall s' :: rest' =>
            if Nat.eqb s s' then
              match gstep2 x' (AInstall s) with
              | Some (x'', _) => match windowless x'' rest' with Some l => Some (GSvc s SSwap :: l) | None => None end
              | None => None
              end
            else None
        | _ => None
        end
      else match windowless x' rest with Some l => Some (GSvc s SSwap :: l) | None => None end
  | None => None
  end.
Proof. reflexivity. Qed.
Lemma grun2_cons x a rest :
  grun2 x (a :: rest) =
  match gstep2 x a with
  | None => None
  | Some (x', e1) => match grun2 x' rest with None => None | Some (x'', e2) => Some (x'', e1 ++ e2) end
  end.
Proof. reflexivity. Qed.
Lemma grun_cons g a rest :
  grun g (a :: rest) =
  match gstep g a with
  | None => None
  | Some (g', e1) => match grun g' rest with None => None | Some (g'', e2) => Some (g'', e1 ++ e2) end
  end.
Proof. reflexivity. Qed.

(* what ATake does, given the worker *)
Lemma take_step x s sv :
  g_taken x = [] -> nth_error (svcs (g_base x)) s = Some sv ->
  gstep2 x (ATake s) =
    if loop_ready sv && client sv then
      if is_nil (results sv)
      then Some ({| g_base := put_svc (g_base x) s (set_planned sv false); g_taken := [] |}, [])
      else Some ({| g_base := put_svc (g_base x) s (svc_taken sv); g_taken := [(s, results sv)] |}, [])
    else None.
Proof. intros T N. cbn [gstep2]. rewrite N, T. cbn [in_window taken_of find negb]. rewrite andb_true_r. reflexivity. Qed.

Theorem windowless_variant_runs_are_model_runs :
  forall tr x l x' es,
    g_taken x = [] -> windowless x tr = Some l -> grun2 x tr = Some (x', es) ->
    g_taken x' = [] /\ grun (g_base x) l = Some (g_base x', es).
Proof.
  assert (P : forall tr,
    (forall x l x' es, g_taken x = [] -> windowless x tr = Some l -> grun2 x tr = Some (x', es) ->
       g_taken x' = [] /\ grun (g_base x) l = Some (g_base x', es)) /\
    (forall a x l x' es, g_taken x = [] -> windowless x (a :: tr) = Some l -> grun2 x (a :: tr) = Some (x', es) ->
       g_taken x' = [] /\ grun (g_base x) l = Some (g_base x', es))).
  { induction tr as [|b tr IH].
    - split.
      + intros x l x' es T W R. cbn in W, R. inversion W; inversion R; subst. split; [exact T|reflexivity].
      + intros a x l x' es T W R. rewrite grun2_cons in R. destruct a as [a|s|s].
        * rewrite windowless_a1 in W. destruct (gstep2 x (A1 a)) as [[x1 e1]|] eqn:S1; [|discriminate].
          cbn in W, R. inversion W; subst. inversion R; subst.
          apply a1_step in S1. destruct S1 as [S1 T1]. rewrite grun_cons, S1. cbn. rewrite T1. split; [exact T|reflexivity].
        * rewrite windowless_take in W.
          destruct (nth_error (svcs (g_base x)) s) as [sv|] eqn:N.
          2:{ cbn [gstep2] in R. rewrite N in R. discriminate. }
          rewrite (take_step _ _ _ T N) in W, R.
          destruct (loop_ready sv && client sv) eqn:LC; [|discriminate].
          destruct (is_nil (results sv)) eqn:RS.
          -- cbn in W, R. inversion W; subst. inversion R; subst. cbn [g_taken g_base].
             rewrite grun_cons, (swap_step _ _ _ N), LC, RS. cbn. split; reflexivity.
          -- cbn [g_taken] in W. unfold in_window in W. rewrite taken_of_head in W. discriminate.
        * cbn in W. discriminate.
    - destruct IH as [IH0 IH1]. split.
      + intros x l x' es T W R. exact (IH1 b x l x' es T W R).
      + intros a x l x' es T W R. rewrite grun2_cons in R. destruct a as [a|s|s].
        * rewrite windowless_a1 in W. destruct (gstep2 x (A1 a)) as [[x1 e1]|] eqn:S1; [|discriminate].
          destruct (windowless x1 (b :: tr)) as [l1|] eqn:W1; [|discriminate]. inversion W; subst.
          destruct (grun2 x1 (b :: tr)) as [[x2 e2]|] eqn:R1; [|discriminate]. inversion R; subst.
          apply a1_step in S1. destruct S1 as [S1 T1].
          destruct (IH1 b x1 l1 x' e2 (eq_trans T1 T) W1 R1) as [T2 G2].
          rewrite grun_cons, S1, G2. split; [exact T2|reflexivity].
        * rewrite windowless_take in W.
          destruct (nth_error (svcs (g_base x)) s) as [sv|] eqn:N.
          2:{ cbn [gstep2] in R. rewrite N in R. discriminate. }
          assert (W0 : in_window (g_taken x) s = false) by (rewrite T; reflexivity).
          pose proof (take_then_install_is_the_swap x s W0) as Q.
          rewrite (swap_step _ _ _ N) in Q.
          rewrite (take_step _ _ _ T N) in W, R.
          destruct (loop_ready sv && client sv) eqn:LC; [|discriminate].
          destruct (is_nil (results sv)) eqn:RS.
          -- (* nobody waiting: the take alone is the swap *)
             cbn [g_taken in_window taken_of find] in W.
             match type of W with match ?w with _ => _ end = _ => destruct w as [l1|] eqn:W1; [|discriminate] end.
             inversion W; subst.
             match type of R with match ?r with _ => _ end = _ => destruct r as [[x2 e2]|] eqn:R1; [|discriminate] end.
             injection R as Ex Ee. cbn [app] in Ee. subst x2 e2.
             destruct (IH1 b _ l1 x' es (eq_refl : g_taken {| g_base := put_svc (g_base x) s (set_planned sv false); g_taken := [] |} = []) W1 R1) as [T2 G2].
             rewrite grun_cons, (swap_step _ _ _ N), LC, RS. cbn [g_base] in G2. rewrite G2. split; [exact T2|reflexivity].
          -- (* somebody waiting: the next action must be the install *)
             cbn [g_taken] in W. unfold in_window in W at 1. rewrite taken_of_head in W.
             destruct b as [a|s'|s']; [discriminate|discriminate|].
             destruct (Nat.eqb s s') eqn:E; [|discriminate]. apply Nat.eqb_eq in E. subst s'.
             rewrite grun2_cons in R.
             rewrite grun2_cons, (take_step _ _ _ T N), LC, RS, grun2_cons in Q.
             match type of W with match ?w with _ => _ end = _ => destruct w as [[x2 e2]|] eqn:S2; [|discriminate] end.
             destruct (windowless x2 tr) as [l1|] eqn:W1; [|discriminate]. inversion W; subst.
             destruct (grun2 x2 tr) as [[x3 e3]|] eqn:R1; [|discriminate]. injection R as Ex Ee. cbn [app] in Ee. subst x3.
             cbn [grun2 app] in Q. rewrite app_nil_r in Q. injection Q as Q1 Q2. subst x2 e2.
             destruct (IH0 _ l1 x' e3 (T : g_taken (Build_gstate2 _ (g_taken x)) = []) W1 R1) as [T2 G2]. subst es.
             rewrite grun_cons, (swap_step _ _ _ N), LC, RS. cbn [g_base] in G2. rewrite G2. split; [exact T2|]. reflexivity.
        * cbn in W. discriminate.
  }
  intros tr. exact (proj1 (P tr)).
Qed.

Example windowless_demo_is_a_model_run :
  exists l x es, windowless (ginit2 window_demo_cfg 1) no_window_demo = Some l /\
                 grun (ginit window_demo_cfg 1) l = Some (x, es) /\ List.length es = 12%nat.
Proof. vm_compute. do 3 eexists. repeat split. Qed.

(* ---------------------------------------------------------------- so the variant's runs without a window satisfy C01 and C02 *)
From Qryn Require Import proofs.IngestAck proofs.IngestSpecProofs.

Theorem windowless_two_step_runs_are_sound :
  forall cfg n tr l x es,
    windowless (ginit2 cfg n) tr = Some l ->
    forallb act_wf l = true ->
    grun2 (ginit2 cfg n) tr = Some (x, es) ->
    run_mon (amon_step true) (amon_init (length cfg)) es <> None /\
    run_mon (smon_step MTable) (smon_init (length cfg)) es <> None.
Proof.
  intros cfg n tr l x es W F R.
  destruct (windowless_variant_runs_are_model_runs tr (ginit2 cfg n) l x es eq_refl W R) as [_ G].
  cbn [ginit2 g_base] in G. split.
  - eapply ack_sound_gen; [|exact G]. now apply trace_wf_ok.
  - eapply spec_sound_gen; [|exact G]. now apply act_q_table.
Qed.

(* C01's statement (ack_sound) over the variant, refuted *)
Theorem ack_sound_two_step_swap_refuted :
  ~ (forall cfg n tr x es,
       forallb act2_wf tr = true ->
       grun2 (ginit2 cfg n) tr = Some (x, es) ->
       run_mon (amon_step true) (amon_init (length cfg)) es <> None).
Proof.
  intros H. destruct two_step_swap_refuted as (tr & x & es & R & F & A & _).
  exact (H window_demo_cfg 1%N tr x es F R A).
Qed.
