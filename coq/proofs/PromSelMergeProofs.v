(* Round 8 (builder b8-c17): CLokiQuerier.Select's assembly (model PromSelect.select_series = row loop + MapResult +
   labelsGetter + ReshuffleSeries + final sort, the function the check compares with the real Select on every generated
   row set) WITHOUT the hypothesis "one label set, one fingerprint" of prom_select_exact_series: for EVERY
   fingerprint-contiguous row list, EVERY labels answer (any number of fingerprints under one label set, fingerprints
   without a labels row, which all read {}) and BOTH values of the MapResult flag
     - every label set is handed to the engine exactly once,
     - the series under label set L carries, up to order, exactly the samples (after MapResult) of all fingerprints of
       the rows whose label set is L - nothing foreign, nothing lost, multiplicities included (Permutation),
     - a label set under ONE fingerprint keeps that fingerprint's rows in row order; a label set under several
       fingerprints comes out ascending by timestamp,
     - no fingerprint of the rows is left without the series of its label set.
   Round 7 proved what ACCEPTANCE by the oracle select_dup_exact_ok means (for mr = false) and checked the model against
   the oracle per case; here the MODEL of the code is proved to have the property, and the acceptance theorems are
   restated for every mr. *)
From Coq Require Import List ZArith NArith String Bool Permutation Sorted.
From Qryn Require Import lib.Strs model.PromSelect model.PromSelDup proofs.PromSelProofs proofs.PromSelDupProofs.
Import ListNotations.

Definition keyeq (k : labels) (ks : labels * pseries) : bool := labels_eqb (fst ks) k.
Definition ksamples (d : labels * pseries) : list sample := ps_samples (snd d).
Definition ts_le (a b : sample) : Prop := (fst a <= fst b)%Z.

(* what one stored row contributes to its series: itself, or - under the count_over_time MapResult - r_val copies of (ts, 1) *)
Definition row_samples (mr : bool) (r : row) : list sample :=
  if mr then repeat (r_ts r, 1%Z) (Z.to_nat (r_val r)) else [(r_ts r, r_val r)].

Lemma seen_spec k seen : existsb (labels_eqb k) seen = true <-> List.In k seen.
Proof.
  rewrite existsb_exists. split.
  - intros [x [H E]]. apply labels_eqb_spec in E. now subst.
  - intros H. exists k. split; auto. now apply labels_eqb_spec.
Qed.
Lemma labels_eqb_refl k : labels_eqb k k = true.
Proof. now apply labels_eqb_spec. Qed.

Lemma Permutation_filter' {A} (f : A -> bool) (l l' : list A) : Permutation l l' -> Permutation (filter f l) (filter f l').
Proof.
  induction 1; cbn [filter].
  - constructor.
  - destruct (f x); [now constructor|assumption].
  - destruct (f x), (f y); try apply Permutation_refl. apply perm_swap.
  - eapply Permutation_trans; eassumption.
Qed.

(* ---------- sort_samples (sort.Slice by TimestampMs) yields ascending timestamps ---------- *)
Lemma ts_insert_sorted x l : StronglySorted ts_le l ->
  StronglySorted ts_le (insert_sorted (fun a b : sample => Z.ltb (fst a) (fst b)) x l).
Proof.
  induction 1 as [|y l Hs IH Hall]; cbn [insert_sorted]; [repeat constructor|].
  destruct (Z.ltb_spec (fst x) (fst y)) as [Hlt|Hge].
  - constructor; [now constructor|]. constructor; [unfold ts_le; apply Z.lt_le_incl; exact Hlt|].
    rewrite Forall_forall in *. intros z Hz. specialize (Hall z Hz). unfold ts_le in *. eapply Z.le_trans; [|exact Hall]. now apply Z.lt_le_incl.
  - constructor; [exact IH|]. rewrite Forall_forall in *. intros z Hz. apply insert_sorted_in in Hz as [->|Hz]; [exact Hge|now apply Hall].
Qed.
Lemma sort_samples_ascending l : StronglySorted ts_le (sort_samples l).
Proof.
  unfold sort_samples, isort.
  assert (H : forall acc, StronglySorted ts_le acc ->
            StronglySorted ts_le (fold_left (fun acc x => insert_sorted (fun a b : sample => Z.ltb (fst a) (fst b)) x acc) l acc)).
  { induction l as [|x l IH]; intros acc Hacc; cbn [fold_left]; [exact Hacc|]. apply IH. now apply ts_insert_sorted. }
  apply H. constructor.
Qed.

(* ---------- ReshuffleSeries' merge: append, sort, per later series of the key ---------- *)
Definition merge_step (acc : list sample) (d : labels * pseries) : list sample := sort_samples (acc ++ ps_samples (snd d)).

Lemma merge_fold_perm : forall (dups : list (labels * pseries)) acc,
  Permutation (fold_left merge_step dups acc) (acc ++ flat_map ksamples dups).
Proof.
  induction dups as [|d dups IH]; intros acc; cbn [fold_left flat_map].
  - rewrite app_nil_r. apply Permutation_refl.
  - eapply Permutation_trans; [apply IH|]. rewrite app_assoc. apply Permutation_app_tail.
    unfold merge_step, sort_samples, ksamples. apply isort_perm.
Qed.
Lemma merge_fold_ascending : forall (dups : list (labels * pseries)) acc,
  dups <> [] -> StronglySorted ts_le (fold_left merge_step dups acc).
Proof.
  induction dups as [|d dups IH]; intros acc Hne; [congruence|]. cbn [fold_left].
  destruct dups as [|d' dups']; [cbn [fold_left]; apply sort_samples_ascending|]. apply IH. discriminate.
Qed.

Lemma reshuffle_go_sound : forall l seen o, List.In o (reshuffle_go seen l) ->
  exists k s, List.In (k, s) l /\ ~ List.In k seen /\ ps_fp o = ps_fp s /\
    Permutation (ps_samples o) (flat_map ksamples (filter (keyeq k) l)) /\
    (filter (keyeq k) l = [(k, s)] -> ps_samples o = ps_samples s) /\
    ((List.length (filter (keyeq k) l) >= 2)%nat -> StronglySorted ts_le (ps_samples o)).
Proof.
  induction l as [|[k0 s0] rest IH]; intros seen o Ho; cbn [reshuffle_go] in Ho; [destruct Ho|].
  destruct (existsb (labels_eqb k0) seen) eqn:E.
  - apply seen_spec in E. destruct (IH _ _ Ho) as [k [s [Hin [Hns [Hfp [Hp [H1 H2]]]]]]].
    exists k, s. split; [now right|]. split; [exact Hns|]. split; [exact Hfp|].
    cbn [filter]. change (keyeq k (k0, s0)) with (labels_eqb k0 k).
    destruct (labels_eqb k0 k) eqn:E2; [apply labels_eqb_spec in E2; subst; contradiction|]. repeat split; assumption.
  - assert (Hn0 : ~ List.In k0 seen). { intros H. apply seen_spec in H. congruence. }
    destruct Ho as [<-|Ho].
    + exists k0, s0. split; [now left|]. split; [exact Hn0|]. split; [reflexivity|].
      cbn [ps_samples filter]. change (keyeq k0 (k0, s0)) with (labels_eqb k0 k0). rewrite labels_eqb_refl.
      change (fun ks : labels * pseries => labels_eqb (fst ks) k0) with (keyeq k0).
      change (fun (acc : list sample) (d : labels * pseries) => sort_samples (acc ++ ps_samples (snd d))) with merge_step.
      split; [cbn [flat_map]; apply merge_fold_perm|]. split.
      * intros H. inversion H as [H']. rewrite H'. reflexivity.
      * intros H. apply merge_fold_ascending. cbn [List.length] in H. destruct (filter (keyeq k0) rest); [cbn in H; inversion H as [|? H']; inversion H'|discriminate].
    + destruct (IH _ _ Ho) as [k [s [Hin [Hns [Hfp [Hp [H1 H2]]]]]]].
      exists k, s. split; [now right|]. split; [intros H; apply Hns; now right|]. split; [exact Hfp|].
      cbn [filter]. change (keyeq k (k0, s0)) with (labels_eqb k0 k).
      destruct (labels_eqb k0 k) eqn:E2; [apply labels_eqb_spec in E2; subst; exfalso; apply Hns; now left|]. repeat split; assumption.
Qed.

Lemma reshuffle_go_keys (g : N -> labels) : forall l seen,
  (forall k s, List.In (k, s) l -> k = g (ps_fp s)) ->
  NoDup (map (fun o => g (ps_fp o)) (reshuffle_go seen l)).
Proof.
  induction l as [|[k0 s0] rest IH]; intros seen Hk; cbn [reshuffle_go]; [constructor|].
  destruct (existsb (labels_eqb k0) seen) eqn:E.
  - apply IH. intros; apply Hk; now right.
  - cbn [map ps_fp]. constructor.
    + intros Hin. apply in_map_iff in Hin as [o [Ho1 Ho2]].
      apply reshuffle_go_sound in Ho2 as [k [s [Hin [Hns [Hfp _]]]]].
      assert (Hk0 : k0 = g (ps_fp s0)) by (apply Hk; now left).
      assert (Hk1 : k = g (ps_fp s)) by (apply Hk; now right).
      apply Hns. left. congruence.
    + apply IH. intros; apply Hk; now right.
Qed.

Lemma reshuffle_go_complete (g : N -> labels) : forall l seen k s,
  (forall k s, List.In (k, s) l -> k = g (ps_fp s)) ->
  List.In (k, s) l -> ~ List.In k seen -> exists o, List.In o (reshuffle_go seen l) /\ g (ps_fp o) = k.
Proof.
  induction l as [|[k0 s0] rest IH]; intros seen k s Hk Hin Hns; [destruct Hin|]. cbn [reshuffle_go].
  destruct (existsb (labels_eqb k0) seen) eqn:E.
  - apply seen_spec in E. destruct Hin as [Hin|Hin]; [inversion Hin; subst; contradiction|].
    apply (IH seen k s); auto. intros; apply Hk; now right.
  - destruct (labels_eqb k0 k) eqn:E2.
    + apply labels_eqb_spec in E2. subst k0. eexists. split; [left; reflexivity|]. cbn [ps_fp]. symmetry. apply (Hk k s0). now left.
    + destruct Hin as [Hin|Hin]; [inversion Hin; subst; rewrite labels_eqb_refl in E2; discriminate|].
      destruct (IH (k0 :: seen) k s) as [o [Ho1 Ho2]]; auto.
      { intros; apply Hk; now right. }
      { intros [H|H]; [subst; rewrite labels_eqb_refl in E2; discriminate|contradiction]. }
      exists o. split; [now right|exact Ho2].
Qed.

(* ---------- from the keyed series list to the fingerprints of the rows ---------- *)
Lemma keyed_filter_flat (g : N -> labels) (own : N -> list sample) k : forall ss : list pseries,
  (forall s, List.In s ss -> ps_samples s = own (ps_fp s)) ->
  flat_map ksamples (filter (keyeq k) (map (fun s => (g (ps_fp s), s)) ss))
  = flat_map own (filter (fun fp => labels_eqb (g fp) k) (map ps_fp ss)).
Proof.
  induction ss as [|s ss IH]; intros H; [reflexivity|]. cbn [map filter]. unfold keyeq at 1. cbn [fst].
  destruct (labels_eqb (g (ps_fp s)) k); cbn [flat_map]; rewrite IH by (intros; apply H; now right); [|reflexivity].
  unfold ksamples at 1. cbn [snd]. rewrite (H s) by now left. reflexivity.
Qed.
Lemma keyed_filter_map (g : N -> labels) k : forall ss : list pseries,
  map (fun d => ps_fp (snd d)) (filter (keyeq k) (map (fun s => (g (ps_fp s), s)) ss))
  = filter (fun fp => labels_eqb (g fp) k) (map ps_fp ss).
Proof.
  induction ss as [|s ss IH]; [reflexivity|]. cbn [map filter]. unfold keyeq at 1. cbn [fst].
  destruct (labels_eqb (g (ps_fp s)) k); cbn [map snd]; rewrite IH; reflexivity.
Qed.

Lemma own_samples_rows mr rows fp :
  own_samples mr rows fp = flat_map (row_samples mr) (filter (fun r => N.eqb (r_fp r) fp) rows).
Proof.
  unfold own_samples, rows_of, row_samples, map_result_count. induction rows as [|r rows IH]; [destruct mr; reflexivity|].
  cbn [filter]. destruct (N.eqb (r_fp r) fp); [|exact IH]. destruct mr; cbn [map flat_map fst snd]; rewrite IH; reflexivity.
Qed.

Section SELECT.
  Variables (mr : bool) (rows : list row) (fetch : list fetch_row).
  Hypothesis Hc : contiguousb rows = true.
  Let getl := labels_get fetch.
  Let ss := select_loop mr rows.
  Let l := map (fun s => (getl (ps_fp s), s)) ss.
  Let mk := fun s => {| o_labels := getl (ps_fp s); o_fp := ps_fp s; o_samples := ps_samples s |}.

  Lemma sel_out_eq : select_series mr rows fetch = isort out_lt (map mk (reshuffle_go [] l)).
  Proof. reflexivity. Qed.

  Lemma sel_keys : forall k s, List.In (k, s) l -> k = getl (ps_fp s) /\ List.In s ss.
  Proof. intros k s H. apply in_map_iff in H as [s' [E H]]. inversion E; subst. auto. Qed.

  Lemma sel_fps_perm : Permutation (map ps_fp ss) (fps_of rows).
  Proof.
    destruct (select_loop_spec mr rows Hc) as [Hnd [Hfps _]].
    apply NoDup_Permutation; [exact Hnd|apply NoDup_nodup|]. intros fp. unfold fps_of. rewrite nodup_In. symmetry. apply Hfps.
  Qed.

  Lemma sel_own : forall s, List.In s ss -> ps_samples s = own_samples mr rows (ps_fp s).
  Proof. destruct (select_loop_spec mr rows Hc) as [_ [_ H]]. exact H. Qed.

  Lemma sel_group_perm k :
    Permutation (flat_map ksamples (filter (keyeq k) l)) (flat_map (own_samples mr rows) (group_fps rows fetch k)).
  Proof.
    unfold l. rewrite (keyed_filter_flat getl (own_samples mr rows) k ss sel_own).
    apply Permutation_flat_map. unfold group_fps. apply Permutation_filter'. exact sel_fps_perm.
  Qed.

  Theorem select_series_merge_exact :
    let out := select_series mr rows fetch in
    NoDup (map o_labels out)
    /\ (forall o, List.In o out ->
          List.In (o_fp o) (group_fps rows fetch (o_labels o))
          /\ Permutation (o_samples o) (flat_map (own_samples mr rows) (group_fps rows fetch (o_labels o)))
          /\ (forall fp, group_fps rows fetch (o_labels o) = [fp] -> o_fp o = fp /\ o_samples o = own_samples mr rows fp)
          /\ ((List.length (group_fps rows fetch (o_labels o)) >= 2)%nat -> StronglySorted ts_le (o_samples o)))
    /\ (forall fp, List.In fp (fps_of rows) -> exists o, List.In o out /\ o_labels o = labels_get fetch fp).
  Proof.
    cbv zeta. rewrite sel_out_eq. split; [|split].
    - eapply Permutation_NoDup; [apply Permutation_sym, Permutation_map, isort_perm|].
      rewrite map_map. cbn [o_labels mk]. apply reshuffle_go_keys. intros k s H. now apply sel_keys.
    - intros o Ho. apply isort_in in Ho. apply in_map_iff in Ho as [p [<- Hp]].
      apply reshuffle_go_sound in Hp as [k [s [Hin [_ [Hfp [Hperm [H1 H2]]]]]]].
      destruct (sel_keys k s Hin) as [Hk Hs].
      cbn [mk o_labels o_fp o_samples]. rewrite Hfp, <- Hk.
      assert (Hlen : map (fun d => ps_fp (snd d)) (filter (keyeq k) l) = filter (fun fp => labels_eqb (getl fp) k) (map ps_fp ss))
        by apply keyed_filter_map.
      assert (Hgp : Permutation (map (fun d => ps_fp (snd d)) (filter (keyeq k) l)) (group_fps rows fetch k)).
      { rewrite Hlen. unfold group_fps. apply Permutation_filter'. exact sel_fps_perm. }
      split; [|split; [|split]].
      + apply group_fps_in. split; [|symmetry; exact Hk].
        eapply Permutation_in; [exact sel_fps_perm|]. now apply in_map.
      + eapply Permutation_trans; [exact Hperm|apply sel_group_perm].
      + intros fp Hg. rewrite Hg in Hgp. apply Permutation_sym, Permutation_length_1_inv in Hgp.
        destruct (filter (keyeq k) l) as [|[k1 s1] [|d2 r2]] eqn:Ef; try discriminate Hgp.
        cbn [map snd] in Hgp. inversion Hgp as [Hfp1].
        (* the one member of the key's class is (k, s) itself *)
        assert (Hmem : List.In (k, s) (filter (keyeq k) l)).
        { apply filter_In. split; [exact Hin|]. unfold keyeq. cbn [fst]. apply labels_eqb_refl. }
        rewrite Ef in Hmem. destruct Hmem as [Hm|[]]. inversion Hm; subst k1 s1.
        split; [reflexivity|]. rewrite (H1 eq_refl). now apply sel_own.
      + intros Hge. apply H2. rewrite <- (map_length (fun d => ps_fp (snd d))). rewrite (Permutation_length Hgp). exact Hge.
    - intros fp Hfp. apply (Permutation_in _ (Permutation_sym sel_fps_perm)) in Hfp.
      apply in_map_iff in Hfp as [s [Hs1 Hs2]].
      destruct (reshuffle_go_complete getl l [] (getl (ps_fp s)) s) as [p [Hp1 Hp2]].
      + intros k s' H. now apply sel_keys.
      + unfold l. apply in_map_iff. now exists s.
      + intros [].
      + exists (mk p). split; [apply isort_in; now apply in_map|]. cbn [mk o_labels]. rewrite Hp2, Hs1. reflexivity.
  Qed.
End SELECT.

(* ---------- in terms of rows: for every MapResult flag ---------- *)
Lemma own_samples_in_mr mr rows fp smp :
  List.In smp (own_samples mr rows fp) <-> exists r, List.In r rows /\ r_fp r = fp /\ List.In smp (row_samples mr r).
Proof.
  rewrite own_samples_rows, in_flat_map. split.
  - intros [r [H1 H2]]. apply filter_In in H1 as [H1 H3]. apply N.eqb_eq in H3. now exists r.
  - intros [r [H1 [H2 H3]]]. exists r. split; [|exact H3]. apply filter_In. split; [exact H1|now apply N.eqb_eq].
Qed.

Theorem select_hands_each_row_to_its_own_label_set_lemma : forall mr rows fetch,
  contiguousb rows = true ->
  let out := select_series mr rows fetch in
  NoDup (map o_labels out)
  /\ (forall o smp, List.In o out -> List.In smp (o_samples o) ->
        exists r, List.In r rows /\ labels_get fetch (r_fp r) = o_labels o /\ List.In smp (row_samples mr r))
  /\ (forall r, List.In r rows ->
        exists o, List.In o out /\ o_labels o = labels_get fetch (r_fp r)
                  /\ forall smp, List.In smp (row_samples mr r) -> List.In smp (o_samples o)).
Proof.
  intros mr rows fetch Hc. destruct (select_series_merge_exact mr rows fetch Hc) as [Hnd [Hs Hcpl]]. cbv zeta.
  split; [exact Hnd|]. split.
  - intros o smp Ho Hin. destruct (Hs o Ho) as [_ [Hp _]].
    apply (Permutation_in _ Hp) in Hin. apply in_flat_map in Hin as [fp [Hfp Hin]].
    apply own_samples_in_mr in Hin as [r [H1 [H2 H3]]]. exists r. split; [exact H1|]. split; [|exact H3].
    apply group_fps_in in Hfp as [_ Hl]. now rewrite H2.
  - intros r Hr. destruct (Hcpl (r_fp r) (fps_of_in _ _ Hr)) as [o [Ho Hl]].
    exists o. split; [exact Ho|]. split; [exact Hl|]. intros smp Hin.
    destruct (Hs o Ho) as [_ [Hp _]]. apply (Permutation_in _ (Permutation_sym Hp)).
    apply in_flat_map. exists (r_fp r). split.
    + apply group_fps_in. split; [now apply fps_of_in|now symmetry].
    + apply own_samples_in_mr. now exists r.
Qed.

(* ---------- round 7's acceptance theorems, for every MapResult flag ---------- *)
Lemma series_own_sound_mr mr rows fetch o smp :
  series_own_ok mr rows fetch o = true -> List.In smp (o_samples o) ->
  exists r, List.In r rows /\ labels_get fetch (r_fp r) = o_labels o /\ List.In smp (row_samples mr r).
Proof.
  unfold series_own_ok. intros H Hin.
  destruct (group_fps rows fetch (o_labels o)) as [|fp [|fp2 rest]] eqn:G; [discriminate| |].
  - apply andb_prop in H as [_ H]. apply dup_samples_eqb_eq in H. rewrite H in Hin.
    apply own_samples_in_mr in Hin as [r [H1 [H2 H3]]]. exists r. repeat split; auto.
    assert (Hg : List.In fp (group_fps rows fetch (o_labels o))) by (rewrite G; now left).
    apply group_fps_in in Hg as [_ Hg]. now rewrite H2.
  - apply andb_prop in H as [H _]. apply andb_prop in H as [_ H]. apply dup_samples_eqb_eq in H.
    unfold canon_samples in H. apply (isort_in sample_lt) in Hin. rewrite H in Hin. apply isort_in in Hin.
    apply in_flat_map in Hin as [fp' [Hfp' Hin]].
    apply own_samples_in_mr in Hin as [r [H1 [H2 H3]]]. exists r. repeat split; auto.
    rewrite <- G in Hfp'. apply group_fps_in in Hfp' as [_ Hg]. now rewrite H2.
Qed.

Lemma series_own_complete_mr mr rows fetch o r smp :
  series_own_ok mr rows fetch o = true -> List.In r rows -> labels_get fetch (r_fp r) = o_labels o ->
  List.In smp (row_samples mr r) -> List.In smp (o_samples o).
Proof.
  unfold series_own_ok. intros H Hr Hl Hsm.
  assert (Hg : List.In (r_fp r) (group_fps rows fetch (o_labels o))).
  { apply group_fps_in. split; [now apply fps_of_in | exact Hl]. }
  assert (Hown : List.In smp (own_samples mr rows (r_fp r))).
  { apply own_samples_in_mr. now exists r. }
  destruct (group_fps rows fetch (o_labels o)) as [|fp [|fp2 rest]] eqn:G; [discriminate| |].
  - apply andb_prop in H as [_ H]. apply dup_samples_eqb_eq in H. rewrite H.
    destruct Hg as [Hg|[]]. now rewrite Hg.
  - apply andb_prop in H as [H _]. apply andb_prop in H as [_ H]. apply dup_samples_eqb_eq in H.
    unfold canon_samples in H. apply (isort_in sample_lt). rewrite H. apply isort_in.
    apply in_flat_map. now exists (r_fp r).
Qed.

Theorem accepted_series_carry_only_their_own_rows_any_mr_lemma : forall mr rows fetch obs,
  select_dup_exact_ok mr rows fetch obs = true ->
  forall o smp, List.In o obs -> List.In smp (o_samples o) ->
  exists r, List.In r rows /\ labels_get fetch (r_fp r) = o_labels o /\ List.In smp (row_samples mr r).
Proof.
  intros mr rows fetch obs H o smp Ho Hs. unfold select_dup_exact_ok in H. apply andb_prop in H as [_ H].
  rewrite forallb_forall in H. eapply series_own_sound_mr; eauto.
Qed.

Theorem accepted_answers_lose_no_row_any_mr_lemma : forall mr rows fetch obs,
  select_dup_exact_ok mr rows fetch obs = true ->
  forall r, List.In r rows ->
  exists o, List.In o obs /\ o_labels o = labels_get fetch (r_fp r)
            /\ forall smp, List.In smp (row_samples mr r) -> List.In smp (o_samples o).
Proof.
  intros mr rows fetch obs H r Hr. unfold select_dup_exact_ok in H. apply andb_prop in H as [Hd H].
  unfold select_dup_ok in Hd. apply andb_prop in Hd as [Hd _]. apply andb_prop in Hd as [_ Hd].
  rewrite forallb_forall in Hd. specialize (Hd _ (fps_of_in _ _ Hr)).
  apply existsb_exists in Hd as [o [Ho Hl]]. apply labels_eqb_spec in Hl.
  exists o. split; [exact Ho|]. split; [exact Hl|]. intros smp Hsm.
  rewrite forallb_forall in H. eapply series_own_complete_mr; eauto.
Qed.

(* ---------- non-vacuity: the round-7 witness (X under 11 and 33, Y under 22) and a MapResult witness ---------- *)
Definition mrw_rows : list row :=
  [ {| r_fp := 11; r_val := 2; r_ts := 1000 |}; {| r_fp := 11; r_val := 1; r_ts := 3000 |};
    {| r_fp := 22; r_val := 3; r_ts := 1000 |};
    {| r_fp := 33; r_val := 1; r_ts := 2000 |} ]%Z%N.

Lemma merge_witnesses :
  contiguousb dupw_rows = true
  /\ select_series false dupw_rows dupw_fetch =
     [ {| o_labels := dupw_x; o_fp := 11; o_samples := [(1000, 101); (1500, 301); (2000, 102); (2500, 302); (3000, 103); (3500, 303)] |};
       {| o_labels := dupw_y; o_fp := 22; o_samples := [(1000, 201); (2000, 202); (3000, 203)] |} ]%Z%N
  /\ group_fps dupw_rows dupw_fetch dupw_x = [11; 33]%N /\ group_fps dupw_rows dupw_fetch dupw_y = [22]%N
  /\ contiguousb mrw_rows = true
  /\ select_series true mrw_rows dupw_fetch =
     [ {| o_labels := dupw_x; o_fp := 11; o_samples := [(1000, 1); (1000, 1); (2000, 1); (3000, 1)] |};
       {| o_labels := dupw_y; o_fp := 22; o_samples := [(1000, 1); (1000, 1); (1000, 1)] |} ]%Z%N
  /\ select_dup_exact_ok true mrw_rows dupw_fetch (select_series true mrw_rows dupw_fetch) = true.
Proof. repeat split; vm_compute; reflexivity. Qed.
