(* C12 -- the analysis `post` of model/ReaderFlow.v is sound for every path of `exec` (any number of loop iterations):
   a body that passes body_ok gives its resource back on every way out. *)
From Coq Require Import List Bool Arith Lia String.
From Qryn Require Import model.ReaderFlow.
Import ListNotations.

Lemma eqb_st_eq : forall a b, eqb_st a b = true -> a = b.
Proof.
  intros [a1 a2] [b1 b2] H. unfold eqb_st in H. cbn [fst snd] in H. apply andb_true_iff in H. destruct H as [H1 H2].
  apply Nat.eqb_eq in H1. apply Nat.eqb_eq in H2. subst. reflexivity.
Qed.

Lemma eqb_st_refl : forall a, eqb_st a a = true.
Proof. intros [a1 a2]. unfold eqb_st. cbn [fst snd]. rewrite !Nat.eqb_refl. reflexivity. Qed.

Lemma mem_in : forall x l, mem x l = true <-> In x l.
Proof.
  intros x l. unfold mem. rewrite existsb_exists. split.
  - intros [y [Hy He]]. apply eqb_st_eq in He. subst. exact Hy.
  - intros H. exists x. split; [exact H | apply eqb_st_refl].
Qed.

Lemma subset_in : forall a b x, subset a b = true -> In x a -> In x b.
Proof.
  intros a b x Hs Hx. unfold subset in Hs. rewrite forallb_forall in Hs. apply mem_in. apply Hs. exact Hx.
Qed.

Lemma none_in : forall (f : fst_ -> bool) X x, existsb f X = false -> In x X -> f x = false.
Proof.
  intros f X x H Hx. destruct (f x) eqn:E; [| reflexivity].
  assert (existsb f X = true) by (apply existsb_exists; exists x; auto). congruence.
Qed.

Lemma dedup_in : forall l x, In x l -> In x (dedup l).
Proof.
  induction l as [| y tl IH]; intros x H; [destruct H|]. cbn [dedup].
  destruct H as [H | H].
  - subst. destruct (mem x (dedup tl)) eqn:E; [apply mem_in; exact E | left; reflexivity].
  - destruct (mem y (dedup tl)); [apply IH; exact H | right; apply IH; exact H].
Qed.

Lemma sel_mk : forall o n b c r p bad x, In x (sel o (mkRes n b c r p false)) -> In x (sel o (mkR n b c r p bad)).
Proof. intros o n b c r p bad x H. destruct o; cbn [sel mkR r_n r_b r_c r_r r_p] in *; try apply dedup_in; auto. Qed.

Lemma bad_mk : forall n b c r p bad, r_bad (mkR n b c r p bad) = bad.
Proof. reflexivity. Qed.

(* the statement proved by induction on the syntax; the loop case by an inner induction on the path *)
Definition sound (s : stmt) : Prop :=
  forall st o st', exec s st o st' -> forall X, In st X -> r_bad (post s X) = false -> In st' (sel o (post s X)).

Lemma orb_f : forall a b, a || b = false -> a = false /\ b = false.
Proof. intros [] []; cbn; auto. Qed.

Lemma loop_sound : forall b, sound b -> forall l st o st', exec l st o st' -> l = SLoop b ->
  forall inv r, r = post b inv -> In st inv -> r_bad r = false -> subset (r_n r ++ r_c r) inv = true ->
  In st' (sel o (mkRes (inv ++ r_b r) [] [] (r_r r) (r_p r) false)).
Proof.
  intros b Hb l st o st' He. induction He; intros Hl inv r Hr Hin Hbad Hsub; try discriminate; inversion Hl; subst b0.
  - cbn [sel r_n]. apply in_or_app. left. exact Hin.
  - apply (IHHe2 eq_refl inv r Hr); auto.
    subst r. pose proof (Hb _ _ _ He1 inv Hin Hbad) as H1.
    apply (subset_in _ _ _ Hsub). apply in_or_app. destruct H as [H | H]; subst o; cbn [sel] in H1; [left | right]; exact H1.
  - subst r. pose proof (Hb _ _ _ He inv Hin Hbad) as H1. cbn [sel] in *. apply in_or_app. right. exact H1.
  - subst r. pose proof (Hb _ _ _ He inv Hin Hbad) as H1.
    destruct H as [H | [H | [H | H]]]; subst o; cbn [sel] in *; auto.
Qed.

Lemma post_sound : forall s, sound s.
Proof.
  induction s as [| a IHa b IHb | | | | p | | | | | a IHa b IHb | b IHb | b IHb]; unfold sound; intros st o st' He X Hin Hbad;
    cbn [post] in *; rewrite bad_mk in Hbad; apply sel_mk.
  - inversion He; subst. exact Hin.
  - apply orb_f in Hbad. destruct Hbad as [Hba Hbb].
    inversion He; subst.
    + match goal with Ha : exec a _ ONormal _, Hb : exec b _ _ _ |- _ =>
        pose proof (IHa _ _ _ Ha X Hin Hba) as Q1; cbn [sel] in Q1; pose proof (IHb _ _ _ Hb _ Q1 Hbb) as Q2 end.
      destruct o; cbn [sel r_n r_b r_c r_r r_p] in *; auto using in_or_app.
    + match goal with Ha : exec a _ _ _ |- _ => pose proof (IHa _ _ _ Ha X Hin Hba) as Q1 end.
      destruct o; cbn [sel r_n r_b r_c r_r r_p] in *; auto using in_or_app; congruence.
  - inversion He; subst. cbn [sel r_n]. apply (in_map (fun s => (S (fst s), snd s)) X (h, d)). exact Hin.
  - inversion He; subst.
    + cbn [sel r_n]. apply (in_map (fun s => (pred (fst s), snd s)) X (S h, d)). exact Hin.
    + pose proof (none_in _ _ _ Hbad Hin) as H. cbn in H. discriminate.
  - inversion He; subst. cbn [sel r_n]. apply (in_map (fun s => (fst s, S (snd s))) X (h, d)). exact Hin.
  - inversion He; subst; cbn [sel r_n r_p]; exact Hin.
  - inversion He; subst. exact Hin.
  - inversion He; subst. exact Hin.
  - inversion He; subst. exact Hin.
  - discriminate.
  - apply orb_f in Hbad. destruct Hbad as [Hba Hbb].
    inversion He; subst.
    + match goal with Ha : exec a _ _ _ |- _ => pose proof (IHa _ _ _ Ha X Hin Hba) as Q1 end.
      destruct o; cbn [sel r_n r_b r_c r_r r_p] in *; auto using in_or_app.
    + match goal with Ha : exec b _ _ _ |- _ => pose proof (IHb _ _ _ Ha X Hin Hbb) as Q1 end.
      destruct o; cbn [sel r_n r_b r_c r_r r_p] in *; auto using in_or_app.
  - set (inv := iter (fun Y => let r := post b Y in dedup (Y ++ r_n r ++ r_c r)) loop_rounds X) in *.
    apply orb_f in Hbad. destruct Hbad as [Hbad Hs2]. apply orb_f in Hbad. destruct Hbad as [Hb1 Hs1].
    apply negb_false_iff in Hs1. apply negb_false_iff in Hs2.
    exact (loop_sound b IHb _ _ _ _ He eq_refl inv (post b inv) eq_refl (subset_in _ _ _ Hs1 Hin) Hb1 Hs2).
  - inversion He; subst.
    + match goal with Ha : exec b _ _ _ |- _ => pose proof (IHb _ _ _ Ha X Hin Hbad) as Q1 end.
      cbn [sel r_n] in *. apply in_or_app. right. exact Q1.
    + match goal with Ha : exec b _ _ _ |- _ => pose proof (IHb _ _ _ Ha X Hin Hbad) as Q1 end.
      destruct o; cbn [sel r_n r_b r_c r_r r_p] in *; auto using in_or_app; congruence.
Qed.

Lemma forallb_exit : forall l s, forallb exit_ok l = true -> In s l -> fst s = snd s.
Proof.
  intros l s H Hin. rewrite forallb_forall in H. apply H in Hin. unfold exit_ok in Hin. apply Nat.eqb_eq in Hin. exact Hin.
Qed.

Theorem body_ok_sound : forall strict h0 body, body_ok strict h0 body = true ->
  forall o st', exec body (h0, 0) o st' -> safe_exit strict o st'.
Proof.
  intros strict h0 body Hok o st' He. unfold body_ok in Hok. cbv zeta in Hok.
  repeat (apply andb_true_iff in Hok; destruct Hok as [Hok ?]).
  apply negb_true_iff in Hok.
  pose proof (post_sound body _ _ _ He [(h0, 0)] (or_introl eq_refl) Hok) as Hin.
  destruct (r_b (post body [(h0, 0)])) eqn:Eb; [| discriminate].
  destruct (r_c (post body [(h0, 0)])) eqn:Ec; [| discriminate].
  destruct o; cbn [sel safe_exit] in *.
  - match goal with Hf : forallb exit_ok ?l = true, Hi : In _ ?l |- _ => exact (forallb_exit _ _ Hf Hi) end.
  - rewrite Eb in Hin. destruct Hin.
  - rewrite Ec in Hin. destruct Hin.
  - match goal with Hf : forallb exit_ok ?l = true, Hi : In _ ?l |- _ => exact (forallb_exit _ _ Hf Hi) end.
  - destruct strict; [match goal with Hf : forallb exit_ok ?l = true, Hi : In _ ?l |- _ => exact (forallb_exit _ _ Hf Hi) end | exact I].
  - destruct Hin.
  - destruct Hin.
Qed.

Theorem flows_ok_sound : forall fs, flows_ok fs = true -> forall f, In f fs ->
  forall o st', exec (f_body f) (h0_of (f_kind f), 0) o st' -> safe_exit (strict_of f) o st'.
Proof.
  intros fs H f Hin. unfold flows_ok in H. rewrite forallb_forall in H. apply H in Hin. unfold flow_ok in Hin.
  exact (body_ok_sound _ _ _ Hin).
Qed.

(* ------------------------------------------------------------------ the analysis is not vacuous *)
(* GetVersionInfo before the repair of seeded change C12-b: Lock; if err { return } ; Unlock -- a path keeps the lock *)
Definition leaky : stmt := SSeq SAcq (SSeq (SOther true) (SSeq (SIf (SSeq (SOther false) SReturn) SSkip) SRel)).
Example leaky_rejected : body_ok false 0 leaky = false /\ exec leaky (0, 0) OReturn (1, 0).
Proof.
  split; [vm_compute; reflexivity|].
  unfold leaky. eapply ESeqN; [apply EAcq|]. eapply ESeqN; [apply EOther|]. eapply ESeqX; [| discriminate].
  apply EIfL. eapply ESeqN; [apply EOther | apply EReturn].
Qed.

(* Lock inside a branch with a function-level defer, a loop with continue / break around a paired region *)
Definition fine : stmt :=
  SSeq (SIf (SSeq SAcq (SSeq SDefer (SOther true))) SSkip)
       (SSeq (SLoop (SSeq (SOther true) (SIf SContinue (SIf SBreak SSkip)))) (SSeq (SOther true) SReturn)).
Example fine_accepted : body_ok true 0 fine = true.
Proof. vm_compute. reflexivity. Qed.

(* a loop that locks once per iteration and forgets the unlock on `continue` *)
Definition loop_leak : stmt := SLoop (SSeq SAcq (SSeq (SIf SContinue SSkip) SRel)).
Example loop_leak_rejected : body_ok false 0 loop_leak = false.
Proof. vm_compute. reflexivity. Qed.

(* a goroutine that sends and closes by defer: fine also when it panics; one that closes at the end only: not *)
Example close_by_defer : body_ok true 1 (SSeq SDefer (SLoop (SOther true))) = true /\ body_ok true 1 (SSeq (SLoop (SOther true)) SRel) = false /\
  body_ok false 1 (SSeq (SLoop (SOther true)) SRel) = true.
Proof. vm_compute. auto. Qed.
