(* A line_format template in which no action opens ("{{" does not occur) is its own text: Parse gives one text node,
   the planner prints the text as ONE string literal. Two such templates are variants of each other in the sense of C10's
   model/LogqlVariant.v: whatever the request puts there, the statement keeps its structure. *)
From Coq Require Import List Arith NArith String Ascii Bool Lia.
From Qryn Require Import lib.Strs model.Sql model.LogqlTemplate model.SqlPieces model.SqlPiecesSel model.LogqlVariant.
Import ListNotations.
Open Scope string_scope.

(* no action opens anywhere in s *)
Fixpoint no_open (s : string) : bool :=
  negb (prefixb "{{" s) && match s with String _ r => no_open r | EmptyString => true end.

Lemma rev_s_acc s : forall acc, rev_s s acc = rev_s s "" ++ acc.
Proof.
  induction s as [|c r IH]; intros acc; cbn [rev_s]; [reflexivity|].
  rewrite (IH (String c acc)), (IH (String c "")). clear IH.
  induction (rev_s r "") as [|x y IHy]; cbn [append]; [reflexivity | now rewrite IHy].
Qed.

Lemma append_nil_r_s (a : string) : a ++ "" = a.
Proof. induction a as [|x a IH]; cbn; [reflexivity | now rewrite IH]. Qed.

Lemma lex_text s : forall f text acc, (String.length s < f)%nat -> no_open s = true ->
  tpl_lex f s text acc = TOk (rev (push_text (rev_s text "" ++ s) acc)).
Proof.
  induction s as [|c r IH]; intros f text acc Hf Hn; (destruct f as [|f]; [cbn in Hf; lia|]).
  - cbn [tpl_lex]. f_equal. f_equal. f_equal.
    induction (rev_s text "") as [|x y IHy]; cbn [append]; [reflexivity | now rewrite <- IHy].
  - cbn [no_open] in Hn. apply andb_prop in Hn. destruct Hn as [Hp Hr]. apply negb_true_iff in Hp.
    cbn [tpl_lex]. rewrite Hp. rewrite (IH f (String c text) acc); [|cbn [String.length] in Hf; lia|exact Hr].
    f_equal. f_equal. f_equal. cbn [rev_s]. rewrite (rev_s_acc text (String c "")).
    induction (rev_s text "") as [|x y IHy]; cbn [append]; [reflexivity | now rewrite IHy].
Qed.

Theorem text_template_parses_to_itself t : no_open t = true ->
  tpl_parse t = TOk (if String.eqb t "" then [] else [TText t]).
Proof.
  intros H. unfold tpl_parse. rewrite (lex_text t _ "" [] (Nat.lt_succ_diag_r _) H). cbn [rev_s append]. unfold push_text.
  destruct (String.eqb t ""); reflexivity.
Qed.

(* ... and is printed as the one string literal holding the text *)
Theorem text_template_is_one_literal t : no_open t = true ->
  exists ns, tpl_parse t = TOk ns /\ tpl_sql ns = StrV t.
Proof.
  intros H. rewrite (text_template_parses_to_itself t H). destruct (String.eqb_spec t "") as [->|Hne]; eexists; (split; [reflexivity|]).
  - reflexivity.
  - unfold tpl_sql, LogqlTemplate.pieces. cbn [flat_map app]. cbn [tpl_fmt tpl_text]. rewrite (append_nil_r_s t). reflexivity.
Qed.

(* two templates in which no action opens are variants: the same statement up to the content of one string literal *)
Theorem text_templates_are_variants t t' : no_open t = true -> no_open t' = true -> tpl_variant t t'.
Proof.
  intros H H'. unfold tpl_variant.
  destruct (text_template_is_one_literal t H) as [ns [-> E]], (text_template_is_one_literal t' H') as [ns' [-> E']].
  rewrite E, E'. reflexivity.
Qed.
Example text_templates_hyp : no_open "it's }} { 100% \" = true /\ no_open "" = true /\ no_open "a{{.b}}" = false.
Proof. repeat split; reflexivity. Qed.
