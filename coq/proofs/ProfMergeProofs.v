From Coq Require Import List NArith ZArith Bool Lia.
From Qryn Require Import model.Pprof model.ProfMerge proofs.PprofProofs.

Import ListNotations.
Open Scope Z_scope.

Lemma add_values_length acc vs : length (add_values acc vs) = length acc.
Proof. revert vs. induction acc as [|a acc IH]; intros vs; cbn [add_values length]; [reflexivity|]. rewrite IH. reflexivity. Qed.

Lemma nth_add_values : forall acc vs k, (k < length acc)%nat ->
  nth k (add_values acc vs) 0 = wrap64 (nth k acc 0 + nth k vs 0).
Proof.
  induction acc as [|a acc IH]; intros vs k Hk; cbn [length] in Hk; [lia|].
  cbn [add_values]. destruct k as [|k].
  - cbn [nth]. destruct vs; reflexivity.
  - cbn [nth]. rewrite IH by lia. destruct vs as [|v vs]; cbn [tl nth]; [destruct k; reflexivity|reflexivity].
Qed.

Lemma nth_zeros (l : list Z) k : nth k (map (fun _ => 0) l) 0 = 0.
Proof. revert k. induction l as [|x l IH]; intros [|k]; cbn; try reflexivity. apply IH. Qed.

Definition wf (n : nat) (l : list msample) : Prop := forall s, In s l -> length (mk_vals s) = n.

Lemma col_sum_cons k s l : col_sum k (s :: l) = nth k (mk_vals s) 0 + col_sum k l.
Proof. reflexivity. Qed.

(* adding a sample adds its value to the column sum, whatever the key comparison says (a key collision moves weight
   to another sample, it does not lose it) *)
Lemma table_add_col eqb n k : (k < n)%nat -> forall tbl s, wf n tbl -> length (mk_vals s) = n ->
  wf n (table_add eqb tbl s) /\ eqm (col_sum k (table_add eqb tbl s)) (col_sum k tbl + nth k (mk_vals s) 0).
Proof.
  intros Hk. induction tbl as [|e r IH]; intros s Hwf Hs; cbn [table_add].
  - split.
    + intros x [<-|[]]. cbn [mk_vals]. rewrite add_values_length, map_length. exact Hs.
    + rewrite col_sum_cons. cbn [mk_vals]. rewrite nth_add_values by (rewrite map_length; lia).
      rewrite nth_zeros, wrap64_eqm. unfold col_sum. cbn. apply eqm_of_eq. lia.
  - assert (He : length (mk_vals e) = n) by (apply Hwf; left; reflexivity).
    assert (Hr : wf n r) by (intros x Hx; apply Hwf; right; exact Hx).
    destruct (eqb (mk_key e) (mk_key s)).
    + split.
      * intros x [<-|Hx]; [cbn [mk_vals]; rewrite add_values_length; exact He|apply Hr; exact Hx].
      * rewrite !col_sum_cons. cbn [mk_vals]. rewrite nth_add_values by lia. rewrite wrap64_eqm. apply eqm_of_eq. lia.
    + destruct (IH s Hr Hs) as [H1 H2]. split.
      * intros x [<-|Hx]; [exact He|apply H1; exact Hx].
      * rewrite !col_sum_cons, H2. apply eqm_of_eq. lia.
Qed.

Lemma fold_table_add_col eqb n k : (k < n)%nat -> forall ss tbl, wf n tbl -> wf n ss ->
  wf n (fold_left (table_add eqb) ss tbl) /\ eqm (col_sum k (fold_left (table_add eqb) ss tbl)) (col_sum k tbl + col_sum k ss).
Proof.
  intros Hk. induction ss as [|s ss IH]; intros tbl Hwf Hss; cbn [fold_left].
  - split; [exact Hwf|]. unfold col_sum at 3. cbn. apply eqm_of_eq. lia.
  - destruct (table_add_col eqb n k Hk tbl s Hwf (Hss s (or_introl eq_refl))) as [H1 H2].
    destruct (IH _ H1 (fun x Hx => Hss x (or_intror Hx))) as [H3 H4].
    split; [exact H3|]. rewrite H4, H2, col_sum_cons. apply eqm_of_eq. lia.
Qed.

(* The merged profile conserves weight: for ANY key comparison (collisions of GetSampleKey included), any number of
   profiles whose samples carry n values each, every sample type k < n: the values of the merged samples add up to the
   values of all input samples (modulo 2^64). *)
Theorem merged_profile_conserves eqb n k (ps : list (list msample)) : (k < n)%nat -> Forall (wf n) ps ->
  eqm (col_sum k (merge_samples eqb ps)) (sumZ (map (col_sum k) ps)).
Proof.
  intros Hk Hps. unfold merge_samples.
  assert (G : forall ps tbl, Forall (wf n) ps -> wf n tbl ->
    eqm (col_sum k (fold_left (fun tbl p => fold_left (table_add eqb) p tbl) ps tbl)) (col_sum k tbl + sumZ (map (col_sum k) ps))).
  { clear ps Hps. induction ps as [|p ps IH]; intros tbl Hps Hwf; cbn [fold_left map].
    - change (sumZ []) with 0. apply eqm_of_eq. lia.
    - inversion Hps as [|? ? Hp Hrest]; subst. destruct (fold_table_add_col eqb n k Hk p tbl Hwf Hp) as [H1 H2].
      rewrite (IH _ Hrest H1), H2. unfold sumZ. cbn [fold_right]. apply eqm_of_eq. lia. }
  rewrite (G ps [] Hps (fun s (H : In s []) => match H with end)). unfold col_sum at 1. cbn. apply eqm_of_eq. lia.
Qed.
