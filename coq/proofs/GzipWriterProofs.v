(* Proofs about the compression wrapper (model/GzipWriter.v): property C20. *)
From Coq Require Import List ZArith Bool Lia.
From Qryn Require Import model.GzipWriter.
Import ListNotations.
Open Scope Z_scope.

Definition writes_only (l : list act) : list act := filter (fun x => match x with AWrite _ => true | _ => false end) l.

(* once a non-2xx status is set, every later call is forwarded (writes) or dropped (further WriteHeader), and nothing is
   ever marked gzip *)
Lemma refused_state_forwards : forall next g, g_set g = true -> ok2xx (g_code g) = false -> g_ce g = false ->
  let g' := fold_left gz_act next g in
  g_out g' = (rev (map direct (writes_only next)) ++ g_out g)%list /\ g_code g' = g_code g /\ g_ce g' = false /\ g_set g' = true.
Proof.
  induction next as [|a r IH]; intros g Hs Hc He; cbn [fold_left]; [cbn; auto|].
  destruct a as [c|n].
  - cbn [gz_act writes_only filter]. unfold gz_header. rewrite Hs. now apply IH.
  - cbn [gz_act]. unfold gz_write. rewrite Hc.
    match goal with |- context [fold_left gz_act r ?g0] => specialize (IH g0 eq_refl Hc He) end.
    cbn [g_out g_code g_ce g_set] in IH. destruct IH as [A [B [C D]]]. cbn zeta. rewrite A, B, C, D.
    split; [|auto]. cbn [writes_only filter map rev direct]. rewrite He. now rewrite <- app_assoc.
Qed.

(* BasicAuth refusing behind the compression wrapper (gzip requested or not): the wire sees WriteHeader(status) and the
   writes of the body, one by one, unchanged; nothing is buffered, nothing marked gzip, Close adds nothing *)
Lemma refusal_passes_unchanged c rest : ok2xx c = false ->
  accept_encoding true (AHeader c :: rest) = map direct (AHeader c :: writes_only rest).
Proof.
  intro Hc. unfold accept_encoding.
  cbn [fold_left gz_act]. unfold gz_header at 1. cbn [gz_new g_set]. rewrite Hc.
  match goal with |- context [fold_left gz_act rest ?g0] =>
    destruct (refused_state_forwards rest g0 eq_refl Hc eq_refl) as [A [B [C D]]] end.
  cbn [g_out g_code g_ce] in A, B. unfold gz_close. rewrite B, Hc, A.
  rewrite rev_app_distr, rev_involutive. reflexivity.
Qed.

(* while next runs, a 2xx answer puts NOTHING on the wire; Close then sends one status line and one gzip body *)
Lemma ok_state_is_silent : forall next g, ok2xx (g_code g) = true -> (g_set g = true \/ g_out g = []) ->
  (forall a, In a next -> match a with AHeader c => g_set g = true \/ ok2xx c = true | _ => True end) ->
  g_out (fold_left gz_act next g) = g_out g /\ ok2xx (g_code (fold_left gz_act next g)) = true.
Proof.
  induction next as [|a r IH]; intros g Hc Hs Ha; cbn [fold_left]; [auto|].
  destruct a as [c|n].
  - cbn [gz_act]. unfold gz_header. destruct (g_set g) eqn:Es.
    + apply IH; [exact Hc|now left|]. intros a Hin. specialize (Ha a (or_intror Hin)). destruct a; [now left|exact I].
    + destruct (Ha (AHeader c) (or_introl eq_refl)) as [H|H]; [discriminate|]. rewrite H.
      match goal with |- context [fold_left gz_act r ?g0] => specialize (IH g0) end. cbn [g_code g_set g_out] in IH.
      apply IH; [exact H|now left|]. intros a Hin. destruct a; [now left|exact I].
  - cbn [gz_act]. unfold gz_write. rewrite Hc.
    match goal with |- context [fold_left gz_act r ?g0] => specialize (IH g0) end. cbn [g_code g_set g_out] in IH.
    apply IH; [exact Hc|now left|]. intros a Hin. destruct a; [now left|exact I].
Qed.

(* the wrapper never answers by itself: next did nothing -> what net/http would have sent anyway (200, empty body) *)
Lemma idle_next : accept_encoding true [] = [UHeader 200 false; UGzip false false] /\ accept_encoding false [] = [].
Proof. split; reflexivity. Qed.

(* the status on the wire is the first status next chose *)
Lemma wire_status_is_first_status : forall next,
  wire_status (accept_encoding true next) = Some (match first_status next with Some c => c | None => 200 end).
Proof.
  intros [|[c|n] rest].
  - reflexivity.
  - cbn [first_status]. destruct (ok2xx c) eqn:Hc.
    + unfold accept_encoding. cbn [fold_left gz_act]. unfold gz_header at 1. cbn [gz_new g_set]. rewrite Hc.
      match goal with |- context [fold_left gz_act rest ?g0] =>
        destruct (ok_state_is_silent rest g0 Hc (or_introl eq_refl)) as [A B] end.
      { intros a _. destruct a; [now left|exact I]. }
      cbn [g_out] in A. unfold gz_close. rewrite B. cbn [g_out]. rewrite A. cbn.
      (* the code is still c: a set status is never changed *)
      assert (K : forall l g, g_set g = true -> g_code (fold_left gz_act l g) = g_code g).
      { induction l as [|a r IH]; intros g Hs; [reflexivity|]. cbn [fold_left]. destruct a as [c'|n'].
        - cbn [gz_act]. unfold gz_header. rewrite Hs. now apply IH.
        - cbn [gz_act]. unfold gz_write. destruct (ok2xx (g_code g)); rewrite IH; reflexivity. }
      rewrite K; reflexivity.
    + rewrite (refusal_passes_unchanged c rest Hc). reflexivity.
  - cbn [first_status]. unfold accept_encoding. cbn [fold_left gz_act]. unfold gz_write at 1. cbn [gz_new g_code ok2xx].
    change (200 / 100 =? 2) with true. cbn iota.
    match goal with |- context [fold_left gz_act rest ?g0] =>
      destruct (ok_state_is_silent rest g0 eq_refl (or_introl eq_refl)) as [A B] end.
    { intros a _. destruct a; [now left|exact I]. }
    cbn [g_out] in A. unfold gz_close. rewrite B. cbn [g_out]. rewrite A. cbn.
    assert (K : forall l g, g_set g = true -> g_code (fold_left gz_act l g) = g_code g).
    { induction l as [|a r IH]; intros g Hs; [reflexivity|]. cbn [fold_left]. destruct a as [c'|n'].
      - cbn [gz_act]. unfold gz_header. rewrite Hs. now apply IH.
      - cbn [gz_act]. unfold gz_write. destruct (ok2xx (g_code g)); rewrite IH; reflexivity. }
    rewrite K; reflexivity.
Qed.

Example ex_refusal : accept_encoding true [AHeader 401; AWrite 13; AHeader 200; AWrite 2] =
                     [UHeader 401 false; URaw 13 false; URaw 2 false].
Proof. reflexivity. Qed.
Example ex_ok : accept_encoding true [AWrite 5; AHeader 404; AWrite 7] = [UHeader 200 true; UGzip true true].
Proof. reflexivity. Qed.
