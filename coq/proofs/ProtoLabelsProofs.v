(* Proofs about model/ProtoLabels.v (property C04): whatever order a protocol's wire format - or a Go map -
   presents the labels in, the list handed to fingerprintLabels is a permutation, hence the fingerprint the
   same, for every choice of the hash oracles and both fingerprint types. *)
From Coq Require Import List ZArith Lia String Ascii Bool Permutation.
From Qryn Require Import model.GoQuote model.LabelJson model.Fingerprint model.Labels model.ProtoLabels
  proofs.FingerprintProofs proofs.LabelsProofs.
Import ListNotations.
Open Scope Z_scope.

Lemma flat_map_perm {A B} (f : A -> list B) l1 l2 : Permutation l1 l2 -> Permutation (flat_map f l1) (flat_map f l2).
Proof.
  induction 1 as [|x l l' H IH|x y l|l l' l'' H1 IH1 H2 IH2]; cbn [flat_map].
  - constructor.
  - now apply Permutation_app_head.
  - rewrite !app_assoc. apply Permutation_app_tail. apply Permutation_app_comm.
  - eapply perm_trans; eassumption.
Qed.

Lemma dd_metrics_items_perm i1 i2 : Permutation i1 i2 -> Permutation (dd_metrics_labels i1) (dd_metrics_labels i2).
Proof. apply flat_map_perm. Qed.

Lemma wire_reorder_perm w1 w2 : wire_reorder w1 w2 -> Permutation (wire_labels w1) (wire_labels w2).
Proof.
  intros H. destruct H as [p1 p2 s1 s2 H|m t1 t2 f H|t1 t2 a b c d H|f|i1 i2 H|t id|t m1 m2 H|e1 e2 H]; cbn [wire_labels].
  - rewrite !proto_labels_sanitize. unfold sanitize. now apply Permutation_map.
  - unfold influx_metric_labels, sanitize. apply Permutation_app_tail. cbn [map]. apply perm_skip. now apply Permutation_map.
  - unfold dd_logs_labels. now apply Permutation_app_tail.
  - apply Permutation_refl.
  - exact H.
  - apply Permutation_refl.
  - unfold es_bulk_labels. apply Permutation_app_head. apply Permutation_app_head. now apply filter_perm.
  - exact H.
Qed.

Lemma wire_fp_reorder ch64 h128 fin ttl w1 w2 :
  wire_reorder w1 w2 -> wire_fp ch64 h128 fin ttl w1 = wire_fp ch64 h128 fin ttl w2.
Proof.
  intros H. unfold wire_fp. apply fingerprint_perm. apply on_entries_labels_perm. now apply wire_reorder_perm.
Qed.

(* both fingerprint types: the statement holds for every final hash, in particular for the two the code has *)
Lemma wire_fp_reorder_both ch64 h128 ttl w1 w2 : wire_reorder w1 w2 ->
  wire_fp ch64 h128 fin24 ttl w1 = wire_fp ch64 h128 fin24 ttl w2 /\
  wire_fp ch64 h128 fin_djb ttl w1 = wire_fp ch64 h128 fin_djb ttl w2.
Proof. intros H. split; now apply wire_fp_reorder. Qed.

(* across protocols: the fingerprint is a function of the label multiset handed to onEntries *)
Lemma wire_fp_same_labels ch64 h128 fin ttl w1 w2 :
  Permutation (wire_labels w1) (wire_labels w2) -> wire_fp ch64 h128 fin ttl w1 = wire_fp ch64 h128 fin ttl w2.
Proof. intros H. unfold wire_fp. apply fingerprint_perm. now apply on_entries_labels_perm. Qed.

(* ------------------------------------------------------------------ the OTLP attribute map has distinct keys *)
Lemma mset_keys k v m x : In x (map fst (mset k v m)) -> x = k \/ In x (map fst m).
Proof.
  induction m as [|[k' v'] m IH]; cbn [mset map fst In].
  - intros [<-|[]]. now left.
  - destruct (String.eqb k k') eqn:E; cbn [map fst In].
    + apply String.eqb_eq in E. subst k'. intros [<-|H]; [now left|right; now right].
    + intros [<-|H]; [right; now left|]. destruct (IH H) as [->|H']; [now left|right; now right].
Qed.

Lemma mset_nodup k v m : NoDup (map fst m) -> NoDup (map fst (mset k v m)).
Proof.
  induction m as [|[k' v'] m IH]; intros H; cbn [mset map fst].
  - constructor; [intros []|constructor].
  - destruct (String.eqb k k') eqn:E; cbn [map fst].
    + apply String.eqb_eq in E. now subst k'.
    + inversion H as [|? ? Hn Hd]; subst. constructor; [|now apply IH].
      intros Hin. destruct (mset_keys _ _ _ _ Hin) as [->|H']; [|contradiction].
      now rewrite String.eqb_refl in E.
Qed.

Lemma otlp_fill_nodup attrs : forall m, NoDup (map fst m) -> NoDup (map fst (otlp_fill attrs m)).
Proof.
  unfold otlp_fill. induction attrs as [|a attrs IH]; intros m H; cbn [fold_left]; [assumption|].
  apply IH. now apply mset_nodup.
Qed.

Lemma otlp_map_nodup resource scope record severity : NoDup (map fst (otlp_map resource scope record severity)).
Proof.
  unfold otlp_map.
  assert (H : NoDup (map fst (otlp_fill record (otlp_fill scope (otlp_fill resource []))))).
  { repeat apply otlp_fill_nodup. constructor. }
  destruct (String.eqb severity ""); [assumption|now apply mset_nodup].
Qed.

(* ------------------------------------------------------------------ witnesses *)
Definition ex_tags : list label := [("env", "prod"); ("team", "core")]%string.
Example dd_logs_example :
  wire_labels (WDatadogLogs ex_tags "nginx" "" "h1" "") =
  [("env", "prod"); ("team", "core"); ("ddsource", "nginx"); ("hostname", "h1"); ("type", "datadog")]%string /\
  wire_reorder (WDatadogLogs ex_tags "nginx" "" "h1" "") (WDatadogLogs (rev ex_tags) "nginx" "" "h1" "").
Proof. split; [reflexivity|]. constructor. apply Permutation_rev. Qed.

Example dd_metrics_example :
  dd_metrics_labels [DResources [[("name", "h1"); ("type", "host")]; [("name", "x")]]; DMetric "cpu"]%string =
  [("resource1_name", "h1"); ("resource1_type", "host"); ("resource2_name", "x"); ("__name__", "cpu")]%string.
Proof. reflexivity. Qed.

Example es_bulk_example :
  es_bulk_labels "logs" [("_index", "other"); ("_id", "7"); ("type", "t")]%string = [("type", "elastic"); ("_index", "logs"); ("_id", "7")]%string /\
  es_bulk_labels "" [("_index", "other"); ("_id", "7")]%string = [("type", "elastic"); ("_index", "other"); ("_id", "7")]%string.
Proof. split; reflexivity. Qed.

Example otlp_example :
  otlp_map [("service.name"%string, OStr "api"); ("k8s.pod"%string, OStr "p1"); ("retries"%string, OInt (-3))] []
           [("service.name"%string, OStr "web"); ("9lives"%string, OBool true); (""%string, OStr "e")] "WARN" =
  [("service_name", "web"); ("k8s_pod", "p1"); ("retries", "-3"); ("_9lives", "true"); ("_", "e"); ("level", "WARN")]%string.
Proof. reflexivity. Qed.

(* not sanitized: the same content through Loki gets other names, hence another series *)
Example datadog_name_not_sanitized :
  wire_labels (WDatadogLogs [("a.b", "x")]%string "" "" "" "") = [("a.b", "x"); ("type", "datadog")]%string /\
  wire_labels (WSanitized LokiJsonStream [("a.b", "x"); ("type", "datadog")]%string) = [("a_b", "x"); ("type", "datadog")]%string.
Proof. split; reflexivity. Qed.

(* the Bernstein final hash on a concrete accumulator *)
Example fin_djb_example : fin_djb (0, 0, 1) = fold_left (fun h b => Z.lxor (w32 (h * 33)) b)
  [0;0;0;0;0;0;0;1; 0;0;0;0;0;0;0;0; 0;0;0;0;0;0;0;0] 5381.
Proof. reflexivity. Qed.

(* open finding ttl-label-kept-with-ttl-header: the list that is fingerprinted and stored depends on whether the request
   carried a TTL header (fingerprint_protocol_independent has "same TTL header" as a premise for this reason) *)
Example ttl_label_depends_on_header :
  on_entries_labels 0 [("app", "v"); ("__ttl_days__", "5")]%string = [("app", "v")]%string /\
  on_entries_labels 7 [("app", "v"); ("__ttl_days__", "5")]%string = [("app", "v"); ("__ttl_days__", "5")]%string.
Proof. split; reflexivity. Qed.

(* ------------------------------------------------------------------ OTLP any-value trees (SanitizeValue) *)
Lemma mfill_nodup l : NoDup (map fst (mfill l)).
Proof.
  unfold mfill. assert (G : forall l m, NoDup (map fst m) -> NoDup (map fst (fold_left (fun m kv => mset (fst kv) (snd kv) m) l m))).
  { induction l0 as [|a l0 IH]; intros m H; cbn [fold_left]; [assumption|]. apply IH. now apply mset_nodup. }
  apply G. constructor.
Qed.

(* the JSON object written for a key-value list has pairwise distinct member names, whatever keys the client sent
   (keys that collide after SanitizeKey: the later value wins, as in the Go map) *)
Lemma otlp_kvlist_members_distinct entries :
  NoDup (map fst (mfill (map (fun kv => match kv with (k, x) => (otlp_key k, otlp_value x) end) entries))).
Proof. apply mfill_nodup. Qed.

Example otlp_value_tree_example :
  otlp_value (OKv [("b.c"%string, OArr [OStr "x<y"; OInt (-3); OBool true; ONone; OBytes "hi!"; ODouble 4609434218613702656%N]);
                   ("a"%string, ODouble 4591870180066957722%N);
                   ("b-c"%string, OKv [("9"%string, OStr "z")])]) =
  "{""a"":""0.1"",""b_c"":""{\""_9\"":\""z\""}""}"%string /\
  otlp_value (OArr [OStr "x<y"; OInt (-3); OBool true; ONone; OBytes "hi!"; ODouble 4609434218613702656%N; OArr []]) =
  "[""x\u003cy"",""-3"",""true"","""",""aGkh"",""1.5"",""[]""]"%string.
Proof. vm_compute. split; reflexivity. Qed.
