(* C13 for the Pyroscope stream selector (model/ProfSel.v prof_selector = reader/prof/transpiler/planner_selector.go,
   tied byte for byte by the promsel correspondence of C17): the fingerprint selection that every Pyroscope label /
   series / merge / render request starts from reads profiles_series_gin with date >= FormatFromDate(From) and
   date <= day(To), for every selector list. *)
From Coq Require Import List ZArith NArith String Ascii Bool Lia.
From Qryn Require Import lib.Strs lib.CivilDate model.Sql model.SqlRender model.Logql model.LogqlPlan model.PromSel model.ProfSel model.Scans
  proofs.ScansProofs proofs.ScansPlanProofs proofs.ScansTqProofs.
Import ListNotations.
Open Scope list_scope.

Definition prof_win (from_ns to_ns : Z) : window :=
  {| w_from := from_ns; w_to := to_ns; w_lo_min := from_ns; w_hi_max := to_ns; w_type := 0 |}.

Definition plain (e : expr) : Prop := neutral e /\ escans e = [] /\ conjs e = [e].

Lemma global_clause_plain p op v : plain (global_clause p op v).
Proof.
  split; [|split; [destruct p, op; reflexivity | destruct p, op; reflexivity]].
  intros sc. destruct p, op; try reflexivity;
    unfold global_clause, matcher_clause, Eq, Neq, classify, col_is; cbn; destruct (existsb _ (sc_tsn sc)); reflexivity.
Qed.
Lemma kv_clause_facts s : escans (kv_clause s) = [] /\ exists op l, kv_clause s = LOp op l.
Proof. split; [destruct s as [n [] v]; reflexivity | eexists; eexists; reflexivity]. Qed.

Lemma get_matchers_facts sels g kv :
  get_matchers sels = (g, kv) -> Forall plain g /\ Forall (fun e => escans e = [] /\ exists op l, e = LOp op l) kv.
Proof.
  revert g kv. induction sels as [|s0 r IH]; intros g kv; cbn [get_matchers]; [intros [= <- <-]; split; constructor|].
  destruct (get_matchers r) as [g' kv'] eqn:E. destruct (IH g' kv' eq_refl) as [Hg Hkv].
  destruct (pseudo_of (sl_name (prof_selector_val s0))); intros [= <- <-]; split; try assumption;
    constructor; try assumption; [apply global_clause_plain | apply kv_clause_facts].
Qed.

Section PROF.
  Variable info : string -> tinfo.
  Variable gin : string.
  Variables from_ns to_ns : Z.
  Hypothesis Hgin : info gin = idx_untyped.
  Let W := prof_win from_ns to_ns.
  Notation Q := (Q info W false).
  Notation good := (good Q).

  Lemma prof_q0_good :
    good (set_groupby [Id "fingerprint"]
           (and_where [Ge (Id "date") (DateV (from_day from_ns)); Le (Id "date") (DateV (to_ns / (86400 * 1000000000)))]
             (set_from (Id gin) (set_cols [Id "fingerprint"] empty_select)))).
  Proof.
    unfold and_where. fields_all. apply good_base; try reflexivity.
    - fields_all. unfold And. rewrite conjs_and. cbn [flat_map]. rewrite !conjs_other by (unfold Ge, Le; intros l H; discriminate).
      cbn [app]. constructor; [|constructor]. split.
      + constructor; [|constructor; [|constructor]]; intros a b _; reflexivity.
      + left. eapply idx_bounded_dates; [exact Hgin | reflexivity | |]; unfold W, prof_win; cbn [w_from w_to].
        * transitivity (day_of_ns from_ns); [apply from_day_close | lia].
        * unfold day_of_ns, ns_per_day. apply Z.div_le_mono; lia.
    - apply exprs_parts. constructor; fields_all; cbn [ScansPlanProofs.ogood]; repeat constructor; apply egood_nil; reflexivity.
  Qed.

  Lemma plain_list_cl g : Forall plain g -> cl_neutral [And g] /\ Forall (egood Q) [And g].
  Proof.
    intros H. split.
    - unfold cl_neutral, And. cbn [flat_map]. rewrite app_nil_r, conjs_and.
      induction H as [|e r [He [_ Hc]] Hr IH]; cbn [flat_map]; [constructor|]. rewrite Hc. cbn [app]. constructor; assumption.
    - constructor; [|constructor]. apply egood_nil. unfold And. cbn [escans].
      induction H as [|e r [_ [He _]] Hr IH]; cbn [flat_map]; [reflexivity | rewrite He, IH; reflexivity].
  Qed.

  Lemma kv_escans kv : Forall (fun e => escans e = [] /\ exists op l, e = LOp op l) kv -> flat_map escans kv = [].
  Proof. induction 1 as [|e r [He _] Hr IH]; cbn [flat_map]; [reflexivity | rewrite He, IH; reflexivity]. Qed.

  Lemma having_escans kv z : escans (Eq (BitSetAnd kv) (IntV z)) = flat_map escans kv ++ [].
  Proof. unfold Eq. cbn [escans flat_map app]. rewrite !app_nil_r. reflexivity. Qed.
  Lemma or_escans kv : escans (Or kv) = flat_map escans kv.
  Proof. reflexivity. Qed.

  Theorem prof_selector_good sels : good (prof_selector gin from_ns to_ns sels).
  Proof.
    unfold prof_selector. destruct (get_matchers sels) as [g kv] eqn:E. destruct (get_matchers_facts _ _ _ E) as [Hg Hkv].
    set (q0 := set_groupby _ _). pose proof prof_q0_good as H0. fold q0 in H0.
    assert (H1 : good (match g with [] => q0 | _ :: _ => and_where [And g] q0 end)).
    { destruct g as [|x r]; [exact H0|]. destruct (plain_list_cl _ Hg) as [Hn He]. apply good_and_where; assumption. }
    destruct kv as [|k r]; [exact H1|].
    apply good_and_having.
    - apply good_and_where; [exact H1 | |].
      + unfold cl_neutral, Or. cbn [flat_map]. rewrite conjs_other by (intros l H; discriminate). cbn [app].
        constructor; [|constructor]. apply neutral_b_sound. inversion Hkv as [|x y [_ [op [l ->]]] _]; subst.
        destruct r as [|b [|z r']]; reflexivity.
      + constructor; [|constructor]. apply egood_nil. rewrite or_escans. apply kv_escans, Hkv.
    - constructor; [|constructor]. apply egood_nil. rewrite having_escans, (kv_escans _ Hkv). reflexivity.
  Qed.
End PROF.

Theorem prof_selector_scans_bounded info gin from_ns to_ns sels :
  info gin = idx_untyped ->
  Forall (scan_bounded info (prof_win from_ns to_ns)) (scans (prof_selector gin from_ns to_ns sels)).
Proof.
  intros Hi. pose proof (prof_selector_good info gin from_ns to_ns Hi sels) as G.
  apply (from_good _ _ _ _ true) in G. eapply Forall_impl; [|exact G]. intros sc [H|[H _]]; [exact H | discriminate H].
Qed.

Open Scope string_scope.
Lemma prof_example :
  table_info "profiles_series_gin" = idx_untyped /\
  List.length (scans (prof_selector "profiles_series_gin" 1704888000000000000 1704891600000000000
     [{| sl_name := "service_name"; sl_op := MEq; sl_val := "svc" |}; {| sl_name := "a"; sl_op := MRe; sl_val := "b.*" |}])) = 1%nat.
Proof. split; reflexivity. Qed.
