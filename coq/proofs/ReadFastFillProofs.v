From Coq Require Import List Arith Bool Lia.
From Qryn Require Import model.ReadFastFill.
Import ListNotations.

Lemma ff_firstn_repeat {A} (v : A) : forall k m, firstn k (repeat v m) = repeat v (Nat.min k m).
Proof. induction k as [|k IH]; intros [|m]; cbn; try reflexivity. now rewrite IH. Qed.

Lemma copy_up_length {A} : forall (v : list A) l, l <= length v -> length (copy_up v l) = length v.
Proof.
  intros v l H. unfold copy_up. rewrite !app_length, !firstn_length, skipn_length. lia.
Qed.

(* one round keeps the invariant "the first min(l, n) cells hold x" with l doubled *)
Lemma copy_up_fills {A} (x : A) : forall n l v tail, 1 <= l -> l < n -> length v = n ->
  v = repeat x (Nat.min l n) ++ tail ->
  copy_up v l = repeat x (Nat.min (l + l) n) ++ skipn l tail.
Proof.
  intros n l v tail Hl Hlt Hlen Hres. rewrite Nat.min_l in Hres by lia.
  assert (Htl : length tail = n - l) by (rewrite Hres in Hlen; rewrite app_length, repeat_length in Hlen; lia).
  unfold copy_up. rewrite Hlen.
  assert (Hf : firstn l v = repeat x l).
  { rewrite Hres. rewrite firstn_app, repeat_length, Nat.sub_diag. cbn [firstn].
    rewrite ff_firstn_repeat, Nat.min_id. now rewrite app_nil_r. }
  rewrite Hf, ff_firstn_repeat.
  assert (Hs : skipn (l + l) v = skipn l tail).
  { rewrite Hres. rewrite skipn_app, repeat_length. replace (l + l - l) with l by lia.
    rewrite skipn_all2 by (rewrite repeat_length; lia). reflexivity. }
  rewrite Hs, app_assoc, <- repeat_app. f_equal. f_equal. lia.
Qed.

Lemma ff_loop_fills {A} (x : A) (n : nat) : forall fuel l v tail,
  1 <= l -> length v = n -> v = repeat x (Nat.min l n) ++ tail -> n <= l + fuel ->
  exists k, ff_loop v l k (Some (repeat x n)) /\ (l * 2 ^ k < 2 * n \/ k = 0).
Proof.
  induction fuel as [|f IH]; intros l v tail Hl Hlen Hres Hfuel.
  - exists 0. split; [|right; reflexivity].
    assert (E : v = repeat x n).
    { rewrite Nat.min_r in Hres by lia.
      assert (Ht : length tail = 0) by (rewrite Hres in Hlen; rewrite app_length, repeat_length in Hlen; lia).
      destruct tail; [|discriminate]. now rewrite app_nil_r in Hres. }
    rewrite <- E. apply FF_done. apply Nat.ltb_ge. lia.
  - destruct (Nat.ltb l (length v)) eqn:Hlt.
    + pose proof Hlt as Hlt'. apply Nat.ltb_lt in Hlt'. rewrite Hlen in Hlt'.
      assert (Hok : slice_ok v l = true) by (unfold slice_ok; apply Nat.leb_le; lia).
      pose proof (copy_up_fills x n l v tail Hl Hlt' Hlen Hres) as Hcp.
      destruct (IH (l + l) (copy_up v l) (skipn l tail)) as [k [R B]].
      * lia.
      * rewrite copy_up_length by lia. exact Hlen.
      * exact Hcp.
      * lia.
      * exists (S k). split.
        -- apply FF_round; [exact Hlt|exact Hok|]. replace (l * 2) with (l + l) by lia. exact R.
        -- left. destruct B as [B|B].
           ++ rewrite Nat.pow_succ_r'. replace (l * (2 * 2 ^ k)) with ((l + l) * 2 ^ k) by ring. exact B.
           ++ subst k. cbn. lia.
    + exists 0. split; [|right; reflexivity].
      apply Nat.ltb_ge in Hlt. rewrite Hlen in Hlt.
      assert (E : v = repeat x n).
      { rewrite Nat.min_r in Hres by lia.
        assert (Ht : length tail = 0) by (rewrite Hres in Hlen; rewrite app_length, repeat_length in Hlen; lia).
        destruct tail; [|discriminate]. now rewrite app_nil_r in Hres. }
      rewrite <- E. apply FF_done. apply Nat.ltb_ge. lia.
Qed.

Lemma ff_loop_deterministic {A} : forall (v : list A) l k o, ff_loop v l k o -> forall k' o', ff_loop v l k' o' -> k' = k /\ o' = o.
Proof.
  intros v l k o R. induction R as [v l H|v l H S|v l k o H S R IH]; intros k' o' R'; inversion R'; subst; try congruence;
    try (split; reflexivity).
  match goal with X : ff_loop (copy_up v l) _ _ _ |- _ => apply IH in X; destruct X; subst; split; reflexivity end.
Qed.

(* fastFill on EVERY non-empty slice: ends, after k rounds with 2^k < 2 len(v) (so k <= log2 len(v) + 1), without a panic, every
   cell holding val; and that is the only run *)
Theorem fast_fill_total {A} : forall (v : list A) (x : A), v <> [] ->
  exists k, fast_fill_run v x k (Some (repeat x (length v))) /\ 2 ^ k < 2 * length v /\
            forall k' o', fast_fill_run v x k' o' -> k' = k /\ o' = Some (repeat x (length v)).
Proof.
  intros v x Hne. destruct v as [|a t]; [congruence|].
  destruct (ff_loop_fills x (length (a :: t)) (length (a :: t)) 1 (x :: t) t) as [k [R B]].
  - lia.
  - reflexivity.
  - cbn [length]. rewrite Nat.min_l by lia. reflexivity.
  - lia.
  - exists k. split; [eapply FF_start; [reflexivity|exact R]|]. split.
    + destruct B as [B|B]; [lia|]. subst k. cbn. lia.
    + intros k' o' R'. inversion R' as [E|v1 k1 o1 E R1]; subst; [discriminate|].
      cbn in E. inversion E. subst v1. eapply ff_loop_deterministic; eauto.
Qed.

(* ... and on an empty slice it panics, whatever else: the crash of seeded change C12-h, where FixPeriodPlanner's guard
   `idxTo < 0 || ...` had lost its first disjunct and values[0:0] reached fastFill *)
Theorem fast_fill_on_an_empty_slice_panics {A} : forall (x : A) k o, fast_fill_run [] x k o -> k = 0 /\ o = None.
Proof. intros x k o R. inversion R as [E|v1 k1 o1 E R1]; subst; [split; reflexivity|discriminate]. Qed.

(* the doubling is needed for the loop to end: with a step that leaves l where it is (l *= 1) the loop on two cells has no run *)
Theorem fast_fill_needs_a_growing_step : forall fuel (v : list nat), length v = 2 -> ff_exec (fun l => l) fuel v 1 = None.
Proof.
  induction fuel as [|f IH]; intros v H; [reflexivity|].
  destruct v as [|a [|b [|c t]]]; try discriminate. cbn. apply IH. reflexivity.
Qed.

(* the executable version with the real step computes runs of the relation *)
Lemma ff_exec_sound {A} : forall fuel (v : list A) l o, ff_exec (fun l => l * 2) fuel v l = Some o -> exists k, ff_loop v l k o.
Proof.
  induction fuel as [|f IH]; intros v l o H; [discriminate|]. cbn [ff_exec] in H.
  destruct (Nat.ltb l (length v)) eqn:L.
  - destruct (slice_ok v l) eqn:SO.
    + apply IH in H. destruct H as [k R]. exists (S k). apply FF_round; assumption.
    + inversion H. subst o. exists 0. apply FF_panic; assumption.
  - inversion H. subst o. exists 0. apply FF_done. exact L.
Qed.

Example fast_fill_five_cells : exists k, fast_fill_run [0; 7; 7; 7; 7] 3 k (Some [3; 3; 3; 3; 3]) /\ k = 3.
Proof.
  exists 3. split; [|reflexivity]. eapply FF_start; [reflexivity|].
  apply FF_round; [reflexivity|reflexivity|]. apply FF_round; [reflexivity|reflexivity|]. apply FF_round; [reflexivity|reflexivity|].
  apply (FF_done [3; 3; 3; 3; 3] 8). reflexivity.
Qed.
Example fast_fill_exec_agrees : fast_fill_exec (fun l => l * 2) 10 [0; 7; 7; 7; 7] 3 = Some (Some [3; 3; 3; 3; 3]) /\
                                fast_fill_exec (fun l => l * 2) 10 ([] : list nat) 3 = Some None.
Proof. split; reflexivity. Qed.
