(* Proofs about the reader model of property C16 (model/ProfTree.v): MergeTrie sums rows per
   (parent, id) key whatever their order, conservation of the row multiset carries over to the merged
   tree, and the level layout of BFS nests. *)
From Coq Require Import List NArith ZArith Bool Lia Morphisms Setoid Permutation.
From Qryn Require Import model.Pprof model.ProfTree proofs.PprofProofs.
Import ListNotations.
Open Scope Z_scope.

#[global] Instance eqm_sub_proper : Proper (eqm ==> eqm ==> eqm) Z.sub.
Proof.
  intros a b Hab c d Hcd. unfold eqm in *.
  rewrite (Zminus_mod a c), (Zminus_mod b d). congruence.
Qed.

Definition in_range (z : Z) : Prop := - two63 <= z < two63.
Definition row_in_range (r : row) : Prop := in_range (r_self r) /\ in_range (r_total r).
Definition tnode_in_range (c : tnode) : Prop := in_range (t_self c) /\ in_range (t_total c).

(* ------------------------------------------------------------------ the association list of children *)
Lemma children_set ns p cs q :
  children (set_children ns p cs) q = if N.eqb p q then cs else children ns q.
Proof.
  induction ns as [|[k old] r IH]; cbn [set_children children].
  - destruct (N.eqb p q); reflexivity.
  - destruct (N.eqb k p) eqn:E; cbn [children].
    + apply N.eqb_eq in E. subst k. destruct (N.eqb p q); reflexivity.
    + destruct (N.eqb k q) eqn:E2.
      * apply N.eqb_eq in E2. subst k. rewrite N.eqb_sym, E. reflexivity.
      * exact IH.
Qed.

Lemma add_existing_none cs r : add_existing cs r = None <-> find_tnode cs (r_id r) = None.
Proof.
  induction cs as [|c cs IH]; cbn [add_existing find_tnode]; [tauto|].
  destruct (N.eqb (t_id c) (r_id r)); [split; discriminate|].
  destruct (add_existing cs r); [split; [discriminate|]; intros H; apply IH in H; discriminate|tauto].
Qed.

Lemma add_existing_find cs r cs' i : add_existing cs r = Some cs' ->
  find_tnode cs' i =
  if N.eqb (r_id r) i
  then match find_tnode cs i with
       | Some c => Some {| t_fn := t_fn c; t_id := t_id c; t_self := wrap64 (t_self c + r_self r);
                           t_total := wrap64 (t_total c + r_total r) |}
       | None => None
       end
  else find_tnode cs i.
Proof.
  revert cs'. induction cs as [|c cs IH]; intros cs' H; cbn [add_existing] in H; [discriminate|].
  destruct (N.eqb (t_id c) (r_id r)) eqn:E.
  - inversion H; subst cs'. clear H. apply N.eqb_eq in E. cbn [find_tnode t_id].
    destruct (N.eqb (r_id r) i) eqn:Ei.
    + apply N.eqb_eq in Ei. assert (H : N.eqb (t_id c) i = true) by (apply N.eqb_eq; congruence).
      rewrite H. reflexivity.
    + apply N.eqb_neq in Ei. assert (H : N.eqb (t_id c) i = false) by (apply N.eqb_neq; congruence).
      rewrite H. reflexivity.
  - destruct (add_existing cs r) as [l|] eqn:El; [|discriminate]. inversion H; subst cs'. clear H.
    cbn [find_tnode]. rewrite (IH l eq_refl).
    destruct (N.eqb (t_id c) i) eqn:E2; [|reflexivity].
    apply N.eqb_eq in E2. subst i. rewrite N.eqb_sym, E. reflexivity.
Qed.

Lemma find_tnode_app cs c i :
  find_tnode (cs ++ [c]) i =
  match find_tnode cs i with Some x => Some x | None => if N.eqb (t_id c) i then Some c else None end.
Proof.
  induction cs as [|d cs IH]; cbn [app find_tnode]; [reflexivity|].
  destruct (N.eqb (t_id d) i); [reflexivity|exact IH].
Qed.

(* ------------------------------------------------------------------ key sums *)
Lemma sum_self_cons r rows p i :
  sum_self (r :: rows) p i = (if key_eqb r p i then r_self r else 0) + sum_self rows p i.
Proof. reflexivity. Qed.
Lemma sum_total_cons r rows p i :
  sum_total (r :: rows) p i = (if key_eqb r p i then r_total r else 0) + sum_total rows p i.
Proof. reflexivity. Qed.

(* ------------------------------------------------------------------ merge_rows as a finite map
   [vals_rel o rows p i o']: o' is o with the rows of key (p,i) added *)
Definition vals_rel (o : option tnode) (rows : list row) (p i : N) (o' : option tnode) : Prop :=
  match o with
  | Some c => exists c', o' = Some c' /\ t_id c' = t_id c /\ tnode_in_range c' /\
                         eqm (t_self c') (t_self c + sum_self rows p i) /\
                         eqm (t_total c') (t_total c + sum_total rows p i)
  | None => if has_key rows p i
            then exists c', o' = Some c' /\ t_id c' = i /\ tnode_in_range c' /\
                            eqm (t_self c') (sum_self rows p i) /\ eqm (t_total c') (sum_total rows p i)
            else o' = None
  end.

Definition tree_in_range (ns : list (N * list tnode)) : Prop :=
  forall p i c, node_at ns p i = Some c -> tnode_in_range c /\ t_id c = i.

Lemma find_tnode_id cs i c : find_tnode cs i = Some c -> t_id c = i.
Proof.
  induction cs as [|d cs IH]; cbn [find_tnode]; [discriminate|].
  destruct (N.eqb (t_id d) i) eqn:E; [intros H; inversion H; subst; apply N.eqb_eq; exact E|exact IH].
Qed.

(* the effect of one row on the node of key (p,i) *)
Definition step_rel (o : option tnode) (r : row) (p i : N) (o1 : option tnode) : Prop :=
  if key_eqb r p i then
    match o with
    | Some c => exists c1, o1 = Some c1 /\ t_id c1 = t_id c /\
                           eqm (t_self c1) (t_self c + r_self r) /\ eqm (t_total c1) (t_total c + r_total r)
    | None => exists c1, o1 = Some c1 /\ t_id c1 = i /\ eqm (t_self c1) (r_self r) /\ eqm (t_total c1) (r_total r)
    end
  else o1 = o.

Lemma vals_rel_step o r rows p i o1 o' :
  step_rel o r p i o1 -> vals_rel o1 rows p i o' -> vals_rel o (r :: rows) p i o'.
Proof.
  unfold step_rel. intros Hs Hv. unfold vals_rel. rewrite sum_self_cons, sum_total_cons.
  unfold has_key. cbn [existsb]. fold (has_key rows p i).
  destruct (key_eqb r p i) eqn:Ek; cbn [orb].
  - destruct o as [c|].
    + destruct Hs as (c1 & -> & Hid & Hs1 & Hs2). cbn [vals_rel] in Hv.
      destruct Hv as (c' & H1 & H2 & H3 & H4 & H5). exists c'.
      split; [exact H1|]. split; [congruence|]. split; [exact H3|].
      split; [rewrite H4, Hs1|rewrite H5, Hs2]; apply eqm_of_eq; lia.
    + destruct Hs as (c1 & -> & Hid & Hs1 & Hs2). cbn [vals_rel] in Hv.
      destruct Hv as (c' & H1 & H2 & H3 & H4 & H5). exists c'.
      split; [exact H1|]. split; [congruence|]. split; [exact H3|].
      split; [rewrite H4, Hs1|rewrite H5, Hs2]; apply eqm_of_eq; lia.
  - subst o1. unfold vals_rel in Hv. destruct o as [c|].
    + destruct Hv as (c' & H1 & H2 & H3 & H4 & H5). exists c'. split; [assumption|]. split; [assumption|]. split; [assumption|].
      split; [rewrite H4|rewrite H5]; apply eqm_of_eq; lia.
    + destruct (has_key rows p i); [|exact Hv].
      destruct Hv as (c' & H1 & H2 & H3 & H4 & H5). exists c'. split; [assumption|]. split; [assumption|]. split; [assumption|].
      split; [rewrite H4|rewrite H5]; apply eqm_of_eq; lia.
Qed.

Lemma merge_rows_map limit : forall rows t,
  m_num t + Z.of_nat (length rows) <= limit ->
  Forall row_in_range rows -> tree_in_range (m_nodes t) ->
  forall p i, vals_rel (node_at (m_nodes t) p i) rows p i (node_at (m_nodes (merge_rows limit t rows)) p i).
Proof.
  induction rows as [|r rows IH]; intros t Hlim Hrr Htr p i.
  - cbn [merge_rows]. unfold vals_rel. destruct (node_at (m_nodes t) p i) as [c|] eqn:E; [|reflexivity].
    exists c. destruct (Htr p i c E) as [Hr Hid].
    split; [reflexivity|]. split; [reflexivity|]. split; [exact Hr|].
    split; apply eqm_of_eq; unfold sum_self, sum_total; cbn; lia.
  - inversion Hrr as [|x l Hr Hrr']; subst. cbn [length] in Hlim. cbn [merge_rows m_nodes m_num].
    set (cs := children (m_nodes t) (r_parent r)).
    destruct (add_existing cs r) as [cs'|] eqn:Eadd.
    + (* the node exists: its values grow *)
      match goal with |- vals_rel _ _ _ _ (node_at (m_nodes (merge_rows limit ?tt rows)) p i) => set (t1 := tt) end.
      assert (Htr1 : tree_in_range (m_nodes t1)).
      { intros q j c Hc. unfold t1 in Hc. cbn [m_nodes] in Hc. unfold node_at in Hc. rewrite children_set in Hc.
        destruct (N.eqb (r_parent r) q) eqn:Eq; [|exact (Htr q j c Hc)].
        rewrite (add_existing_find cs r cs' j Eadd) in Hc. apply N.eqb_eq in Eq. subst q.
        destruct (N.eqb (r_id r) j) eqn:Ej; [|exact (Htr _ j c Hc)].
        destruct (find_tnode cs j) as [c0|] eqn:E0; [|discriminate]. inversion Hc; subst c. cbn.
        split; [split; apply wrap64_range|exact (find_tnode_id cs j c0 E0)]. }
      assert (Hlim1 : m_num t1 + Z.of_nat (length rows) <= limit) by (unfold t1; cbn [m_num]; lia).
      refine (vals_rel_step _ r rows p i _ _ _ (IH t1 Hlim1 Hrr' Htr1 p i)).
      unfold step_rel, key_eqb. unfold t1. cbn [m_nodes]. unfold node_at. rewrite children_set.
      destruct (N.eqb (r_parent r) p) eqn:Ep; cbn [andb]; [|reflexivity].
      apply N.eqb_eq in Ep. subst p. fold cs. rewrite (add_existing_find cs r cs' i Eadd).
      destruct (N.eqb (r_id r) i) eqn:Ei; [|reflexivity].
      destruct (find_tnode cs i) as [c0|] eqn:E0.
      * eexists. split; [reflexivity|]. cbn. split; [reflexivity|]. split; apply wrap64_eqm.
      * exfalso. apply N.eqb_eq in Ei. subst i. apply add_existing_none in E0. congruence.
    + (* a new node *)
      destruct (Z.leb limit (m_num t)) eqn:Elim; [apply Z.leb_le in Elim; lia|].
      match goal with |- vals_rel _ _ _ _ (node_at (m_nodes (merge_rows limit ?tt rows)) p i) => set (t1 := tt) end.
      pose proof (proj1 (add_existing_none cs r) Eadd) as Hnone.
      assert (Htr1 : tree_in_range (m_nodes t1)).
      { intros q j c Hc. unfold t1 in Hc. cbn [m_nodes] in Hc. unfold node_at in Hc. rewrite children_set in Hc.
        destruct (N.eqb (r_parent r) q) eqn:Eq; [|exact (Htr q j c Hc)].
        rewrite find_tnode_app in Hc. apply N.eqb_eq in Eq. subst q. fold cs in Hc.
        destruct (find_tnode cs j) as [c0|] eqn:E0; [inversion Hc; subst c; exact (Htr _ j c0 E0)|].
        cbn [node_of_row t_id] in Hc. destruct (N.eqb (r_id r) j) eqn:Ej; [|discriminate].
        inversion Hc; subst c. cbn. split; [exact Hr|apply N.eqb_eq; exact Ej]. }
      assert (Hlim1 : m_num t1 + Z.of_nat (length rows) <= limit) by (unfold t1; cbn [m_num]; lia).
      refine (vals_rel_step _ r rows p i _ _ _ (IH t1 Hlim1 Hrr' Htr1 p i)).
      unfold step_rel, key_eqb. unfold t1. cbn [m_nodes]. unfold node_at. rewrite children_set.
      destruct (N.eqb (r_parent r) p) eqn:Ep; cbn [andb]; [|reflexivity].
      apply N.eqb_eq in Ep. subst p. fold cs. rewrite find_tnode_app. cbn [node_of_row t_id].
      destruct (N.eqb (r_id r) i) eqn:Ei; [|destruct (find_tnode cs i); reflexivity].
      apply N.eqb_eq in Ei. subst i. rewrite Hnone.
      eexists. split; [reflexivity|]. cbn. split; [reflexivity|]. split; reflexivity.
Qed.

Lemma merge_trie_nodes limit t rows fs :
  m_nodes (merge_trie limit t rows fs) =
  m_nodes (merge_rows limit {| m_nodes := m_nodes t; m_num := m_num t; m_maxself := m_maxself t;
                               m_names := fst (merge_funcs limit (m_names t) (m_namesmap t) fs);
                               m_namesmap := snd (merge_funcs limit (m_names t) (m_namesmap t) fs) |} rows).
Proof. unfold merge_trie. destruct (merge_funcs limit (m_names t) (m_namesmap t) fs). reflexivity. Qed.

Definition vals_at (ns : list (N * list tnode)) (p i : N) : option (Z * Z) :=
  option_map (fun c => (t_self c, t_total c)) (node_at ns p i).

(* merging any list of int64 rows (no more rows than the node limit) into a fresh tree: the node of key
   (parent, id) exists iff a row has that key, and carries the sums of the rows' values modulo 2^64 *)
Theorem merge_is_sum_proof limit rows fs :
  Z.of_nat (length rows) <= limit -> Forall row_in_range rows ->
  forall p i, vals_at (m_nodes (merge_trie limit new_tree rows fs)) p i =
              if has_key rows p i then Some (wrap64 (sum_self rows p i), wrap64 (sum_total rows p i)) else None.
Proof.
  intros Hlim Hrr p i. rewrite merge_trie_nodes. unfold vals_at.
  match goal with |- context [merge_rows limit ?tt rows] => set (t0 := tt) end.
  assert (Htr : tree_in_range (m_nodes t0)) by (intros q j c Hc; cbn in Hc; discriminate).
  assert (Hl : m_num t0 + Z.of_nat (length rows) <= limit) by (cbn; lia).
  pose proof (merge_rows_map limit rows t0 Hl Hrr Htr p i) as H.
  replace (node_at (m_nodes t0) p i) with (@None tnode) in H by reflexivity. cbn [vals_rel] in H.
  destruct (has_key rows p i).
  - destruct H as (c' & -> & _ & [Hr1 Hr2] & H4 & H5). cbn [option_map].
    rewrite (in_range_eqm _ _ Hr1 H4), (in_range_eqm _ _ Hr2 H5). reflexivity.
  - rewrite H. reflexivity.
Qed.

(* ------------------------------------------------------------------ order of the rows *)
Lemma sumZ_map_perm {A} (g : A -> Z) l l' : Permutation l l' -> sumZ (map g l) = sumZ (map g l').
Proof.
  induction 1 as [|x l l' _ IH|x y l|l l' l'' _ IH1 _ IH2]; cbn [map sumZ fold_right] in *; try lia.
  unfold sumZ in *. lia.
Qed.

Lemma has_key_perm rows rows' p i : Permutation rows rows' -> has_key rows p i = has_key rows' p i.
Proof.
  intros H. unfold has_key. destruct (existsb (fun r => key_eqb r p i) rows) eqn:E.
  - symmetry. apply existsb_exists in E. destruct E as [r [Hin Hk]]. apply existsb_exists.
    exists r. split; [apply (Permutation_in _ H Hin)|exact Hk].
  - symmetry. apply not_true_is_false. intros E'. apply existsb_exists in E'. destruct E' as [r [Hin Hk]].
    apply (Permutation_in _ (Permutation_sym H)) in Hin.
    assert (existsb (fun r => key_eqb r p i) rows = true) by (apply existsb_exists; exists r; tauto). congruence.
Qed.

Theorem merge_order_irrelevant_proof limit rows rows' fs fs' :
  Permutation rows rows' -> Z.of_nat (length rows) <= limit -> Forall row_in_range rows ->
  forall p i, vals_at (m_nodes (merge_trie limit new_tree rows fs)) p i =
              vals_at (m_nodes (merge_trie limit new_tree rows' fs')) p i.
Proof.
  intros Hp Hlim Hrr p i.
  rewrite (merge_is_sum_proof limit rows fs Hlim Hrr).
  rewrite (merge_is_sum_proof limit rows' fs').
  - rewrite (has_key_perm _ _ p i Hp). unfold sum_self, sum_total.
    rewrite (sumZ_map_perm _ _ _ Hp). rewrite (sumZ_map_perm (fun r => if key_eqb r p i then r_total r else 0) _ _ Hp).
    reflexivity.
  - rewrite <- (Permutation_length Hp). exact Hlim.
  - apply (Permutation_Forall Hp). exact Hrr.
Qed.

(* rows of several profiles: the sums split per profile *)
Lemma sum_self_concat ls p i : sum_self (concat ls) p i = sumZ (map (fun l => sum_self l p i) ls).
Proof.
  induction ls as [|l ls IH]; [reflexivity|]. cbn [concat map]. unfold sum_self at 1. rewrite map_app, sumZ_app.
  fold (sum_self l p i). fold (sum_self (concat ls) p i). rewrite IH. reflexivity.
Qed.
Lemma sum_total_concat ls p i : sum_total (concat ls) p i = sumZ (map (fun l => sum_total l p i) ls).
Proof.
  induction ls as [|l ls IH]; [reflexivity|]. cbn [concat map]. unfold sum_total at 1. rewrite map_app, sumZ_app.
  fold (sum_total l p i). fold (sum_total (concat ls) p i). rewrite IH. reflexivity.
Qed.

(* ------------------------------------------------------------------ additive sums over row lists *)
Definition rsum (sel : row -> N) (comp : Z * Z -> Z) (rows : list row) (x : N) : Z :=
  sumZ (map (fun r => if N.eqb (sel r) x then comp (r_self r, r_total r) else 0) rows).

Lemma rtot_at_rsum rows x : rtot_at rows x = rsum r_id snd rows x. Proof. reflexivity. Qed.
Lemma rself_at_rsum rows x : rself_at rows x = rsum r_id fst rows x. Proof. reflexivity. Qed.
Lemma rchild_tot_rsum rows x : rchild_tot rows x = rsum r_parent snd rows x. Proof. reflexivity. Qed.

Lemma rsum_app sel comp a b x : rsum sel comp (a ++ b) x = rsum sel comp a x + rsum sel comp b x.
Proof. unfold rsum. rewrite map_app. apply sumZ_app. Qed.
Lemma rsum_cons sel comp r rows x :
  rsum sel comp (r :: rows) x = (if N.eqb (sel r) x then comp (r_self r, r_total r) else 0) + rsum sel comp rows x.
Proof. reflexivity. Qed.
Lemma rsum_nil sel comp x : rsum sel comp [] x = 0.
Proof. reflexivity. Qed.
Lemma rsum_perm sel comp a b x : Permutation a b -> rsum sel comp a x = rsum sel comp b x.
Proof. intros H. unfold rsum. apply sumZ_map_perm. exact H. Qed.
Lemma rsum_concat sel comp ls x : rsum sel comp (concat ls) x = sumZ (map (fun l => rsum sel comp l x) ls).
Proof. induction ls as [|l ls IH]; [reflexivity|]. cbn [concat map]. rewrite rsum_app, IH. reflexivity. Qed.

Definition rows_entry (p : N) (cs : list tnode) : list row :=
  map (fun c => {| r_parent := p; r_fn := t_fn c; r_id := t_id c; r_self := t_self c; r_total := t_total c |}) cs.

Lemma rows_of_cons k cs ns : rows_of ((k, cs) :: ns) = rows_entry k cs ++ rows_of ns.
Proof. reflexivity. Qed.

Lemma rsum_set_children sel comp ns p cs x :
  rsum sel comp (rows_of (set_children ns p cs)) x + rsum sel comp (rows_entry p (children ns p)) x =
  rsum sel comp (rows_of ns) x + rsum sel comp (rows_entry p cs) x.
Proof.
  induction ns as [|[k old] r IH]; cbn [set_children children].
  - rewrite rows_of_cons, rsum_app. change (rows_of []) with (@nil row). change (rows_entry p []) with (@nil row).
    rewrite !rsum_nil. lia.
  - destruct (N.eqb k p) eqn:E.
    + apply N.eqb_eq in E. subst k. rewrite !rows_of_cons, !rsum_app. lia.
    + rewrite !rows_of_cons, !rsum_app. lia.
Qed.

Section RowStep.
  Variable sel : row -> N.
  Variable comp : Z * Z -> Z.
  Hypothesis Hsel : forall a b, r_parent a = r_parent b -> r_id a = r_id b -> sel a = sel b.
  Hypothesis Hcomp : forall s t a b, eqm (comp (wrap64 (s + a), wrap64 (t + b))) (comp (s, t) + comp (a, b)).

  Lemma rsum_add_existing cs r cs' x : add_existing cs r = Some cs' ->
    eqm (rsum sel comp (rows_entry (r_parent r) cs') x)
        (rsum sel comp (rows_entry (r_parent r) cs) x + if N.eqb (sel r) x then comp (r_self r, r_total r) else 0).
  Proof.
    revert cs'. induction cs as [|c cs IH]; intros cs' H; cbn [add_existing] in H; [discriminate|].
    destruct (N.eqb (t_id c) (r_id r)) eqn:E.
    - inversion H; subst cs'. clear H. apply N.eqb_eq in E. cbn [rows_entry map]. rewrite !rsum_cons.
      cbn [r_self r_total t_self t_total t_fn t_id].
      assert (Hs : forall f s t, sel {| r_parent := r_parent r; r_fn := f; r_id := t_id c; r_self := s; r_total := t |} = sel r)
        by (intros; apply Hsel; [reflexivity|exact E]).
      rewrite !Hs. destruct (N.eqb (sel r) x); [|apply eqm_of_eq; lia].
      rewrite Hcomp. apply eqm_of_eq. fold (rows_entry (r_parent r) cs). lia.
    - destruct (add_existing cs r) as [l|] eqn:El; [|discriminate]. inversion H; subst cs'. clear H.
      cbn [rows_entry map]. rewrite !rsum_cons. fold (rows_entry (r_parent r) l). fold (rows_entry (r_parent r) cs).
      rewrite (IH l eq_refl). apply eqm_of_eq. lia.
  Qed.

  Lemma rsum_append cs r x :
    rsum sel comp (rows_entry (r_parent r) (cs ++ [node_of_row r])) x =
    rsum sel comp (rows_entry (r_parent r) cs) x + if N.eqb (sel r) x then comp (r_self r, r_total r) else 0.
  Proof.
    unfold rows_entry. rewrite map_app, rsum_app. cbn [map node_of_row t_fn t_id t_self t_total]. rewrite rsum_cons.
    cbn [r_self r_total].
    replace (sel {| r_parent := r_parent r; r_fn := r_fn r; r_id := r_id r; r_self := r_self r; r_total := r_total r |})
      with (sel r) by (apply Hsel; reflexivity).
    rewrite rsum_nil. destruct (N.eqb (sel r) x); lia.
  Qed.

  Lemma merge_rows_rsum limit x : forall rows t,
    m_num t + Z.of_nat (length rows) <= limit ->
    eqm (rsum sel comp (rows_of (m_nodes (merge_rows limit t rows))) x)
        (rsum sel comp (rows_of (m_nodes t)) x + rsum sel comp rows x).
  Proof.
    induction rows as [|r rows IH]; intros t Hlim.
    - cbn [merge_rows]. rewrite rsum_nil. apply eqm_of_eq. lia.
    - cbn [length] in Hlim. cbn [merge_rows m_nodes m_num]. rewrite rsum_cons.
      set (cs := children (m_nodes t) (r_parent r)).
      destruct (add_existing cs r) as [cs'|] eqn:Eadd.
      + rewrite IH by (cbn [m_num]; lia). cbn [m_nodes].
        pose proof (rsum_set_children sel comp (m_nodes t) (r_parent r) cs' x) as H1. fold cs in H1.
        pose proof (rsum_add_existing cs r cs' x Eadd) as H2.
        assert (E : rsum sel comp (rows_of (set_children (m_nodes t) (r_parent r) cs')) x =
                    rsum sel comp (rows_of (m_nodes t)) x + rsum sel comp (rows_entry (r_parent r) cs') x
                    - rsum sel comp (rows_entry (r_parent r) cs) x) by lia.
        rewrite E, H2. apply eqm_of_eq. lia.
      + destruct (Z.leb limit (m_num t)) eqn:Elim; [apply Z.leb_le in Elim; lia|].
        rewrite IH by (cbn [m_num]; lia). cbn [m_nodes].
        pose proof (rsum_set_children sel comp (m_nodes t) (r_parent r) (cs ++ [node_of_row r]) x) as H1. fold cs in H1.
        rewrite rsum_append in H1. apply eqm_of_eq. lia.
  Qed.
End RowStep.

Lemma sel_id_ok a b : r_parent a = r_parent b -> r_id a = r_id b -> r_id a = r_id b.
Proof. tauto. Qed.
Lemma sel_parent_ok a b : r_parent a = r_parent b -> r_id a = r_id b -> r_parent a = r_parent b.
Proof. tauto. Qed.

(* conservation of a row multiset, additive form *)
Definition rconserves (rows : list row) : Prop :=
  forall x, x <> 0%N -> eqm (rtot_at rows x) (rself_at rows x + rchild_tot rows x).

Lemma rconserves_app a b : rconserves a -> rconserves b -> rconserves (a ++ b).
Proof.
  intros Ha Hb x Hx. rewrite rtot_at_rsum, rself_at_rsum, rchild_tot_rsum, !rsum_app.
  pose proof (Ha x Hx) as H1. pose proof (Hb x Hx) as H2.
  rewrite rtot_at_rsum, rself_at_rsum, rchild_tot_rsum in H1, H2. rewrite H1, H2.
  apply eqm_of_eq. lia.
Qed.

Lemma rconserves_concat ls : Forall rconserves ls -> rconserves (concat ls).
Proof.
  induction 1 as [|l ls Hl _ IH]; [intros x _; apply eqm_of_eq; reflexivity|].
  cbn [concat]. apply rconserves_app; assumption.
Qed.

Lemma rconserves_perm a b : Permutation a b -> rconserves a -> rconserves b.
Proof.
  intros Hp Ha x Hx. rewrite rtot_at_rsum, rself_at_rsum, rchild_tot_rsum.
  rewrite <- !(rsum_perm _ _ a b x Hp). exact (Ha x Hx).
Qed.

(* the merged tree, read back as rows, has the same three sums as the rows that went in *)
Lemma merged_sums limit rows fs x : Z.of_nat (length rows) <= limit ->
  let out := rows_of (m_nodes (merge_trie limit new_tree rows fs)) in
  eqm (rtot_at out x) (rtot_at rows x) /\ eqm (rself_at out x) (rself_at rows x) /\
  eqm (rchild_tot out x) (rchild_tot rows x).
Proof.
  intros Hlim out. unfold out. rewrite merge_trie_nodes.
  rewrite !rtot_at_rsum, !rself_at_rsum, !rchild_tot_rsum.
  split; [|split].
  - rewrite (merge_rows_rsum r_id snd sel_id_ok comp_snd limit x rows) by (cbn [m_num new_tree]; lia).
    cbn [m_nodes new_tree]. change (rows_of []) with (@nil row). rewrite rsum_nil. apply eqm_of_eq. reflexivity.
  - rewrite (merge_rows_rsum r_id fst sel_id_ok comp_fst limit x rows) by (cbn [m_num new_tree]; lia).
    cbn [m_nodes new_tree]. change (rows_of []) with (@nil row). rewrite rsum_nil. apply eqm_of_eq. reflexivity.
  - rewrite (merge_rows_rsum r_parent snd sel_parent_ok comp_snd limit x rows) by (cbn [m_num new_tree]; lia).
    cbn [m_nodes new_tree]. change (rows_of []) with (@nil row). rewrite rsum_nil. apply eqm_of_eq. reflexivity.
Qed.

Theorem merged_conserves_rows limit rows fs : Z.of_nat (length rows) <= limit -> rconserves rows ->
  rconserves (rows_of (m_nodes (merge_trie limit new_tree rows fs))).
Proof.
  intros Hlim Hc x Hx. destruct (merged_sums limit rows fs x Hlim) as (H1 & H2 & H3).
  rewrite H1, H2, H3. exact (Hc x Hx).
Qed.

(* ------------------------------------------------------------------ from the stored rows of the writer *)
Lemma rsum_project_tot k t x : rtot_at (map (project_row (Some k)) t) x = tot_at k t x.
Proof. unfold rtot_at, tot_at. rewrite map_map. reflexivity. Qed.
Lemma rsum_project_self k t x : rself_at (map (project_row (Some k)) t) x = self_at k t x.
Proof. unfold rself_at, self_at. rewrite map_map. reflexivity. Qed.
Lemma rsum_project_child k t x : rchild_tot (map (project_row (Some k)) t) x = child_tot k t x.
Proof. unfold rchild_tot, child_tot. rewrite map_map. reflexivity. Qed.

Lemma rsum_project_none sel comp t x : comp (0, 0) = 0 -> rsum sel comp (map (project_row None) t) x = 0.
Proof.
  intros H0. induction t as [|n t IH]; [reflexivity|]. cbn [map]. rewrite rsum_cons, IH. cbn [project_row r_self r_total fst snd].
  rewrite H0. destruct (N.eqb _ x); reflexivity.
Qed.

(* one stored profile: sample types, samples, and the index of the selected sample type
   (None: the profile lacks it, the SQL projection yields zeros) *)
Record stored := { sp_nt : nat; sp_samples : list sample; sp_sel : option nat }.

Definition stored_ok (h : N -> N -> N) (na : N) (P : stored) : Prop :=
  parent_determined h (triples h (normalize na (sp_samples P))) /\
  match sp_sel P with Some k => (k < sp_nt P)%nat | None => True end.

Definition stored_rows (h : N -> N -> N) (na : N) (P : stored) : list row :=
  map (project_row (sp_sel P)) (stored_tree h na (sp_nt P) (sp_samples P)).

Definition stored_weight (P : stored) : Z :=
  match sp_sel P with Some k => full_weight k (sp_samples P) | None => 0 end.

Lemma stored_rows_conserve h na P : stored_ok h na P ->
  rconserves (stored_rows h na P) /\ eqm (rchild_tot (stored_rows h na P) 0%N) (stored_weight P).
Proof.
  intros [Hinj Hk]. unfold stored_rows, stored_weight, stored_tree. destruct (sp_sel P) as [k|].
  - destruct (post_process_balanced h (sp_nt P) (normalize na (sp_samples P)) k Hk Hinj) as [Hb Hr].
    rewrite weight_normalize in Hr. split.
    + intros x Hx. rewrite rsum_project_tot, rsum_project_self, rsum_project_child. exact (Hb x Hx).
    + rewrite rsum_project_child. exact Hr.
  - split.
    + intros x _. rewrite rtot_at_rsum, rself_at_rsum, rchild_tot_rsum.
      rewrite !rsum_project_none by reflexivity. apply eqm_of_eq. reflexivity.
    + rewrite rchild_tot_rsum, rsum_project_none by reflexivity. apply eqm_of_eq. reflexivity.
Qed.

(* Any multiset of stored profiles, rows in any order: the merged tree conserves, and the rows under its
   root add up to the sum of the profiles' weights. *)
Theorem merged_profiles_conserve h na limit (Ps : list stored) rows fs :
  Forall (stored_ok h na) Ps ->
  Permutation rows (concat (map (stored_rows h na) Ps)) ->
  Z.of_nat (length rows) <= limit ->
  let out := rows_of (m_nodes (merge_trie limit new_tree rows fs)) in
  rconserves out /\ eqm (rchild_tot out 0%N) (sumZ (map stored_weight Ps)).
Proof.
  intros Hok Hperm Hlim out. split.
  - apply merged_conserves_rows; [exact Hlim|].
    apply (rconserves_perm _ _ (Permutation_sym Hperm)). apply rconserves_concat.
    apply Forall_map. eapply Forall_impl; [|exact Hok]. intros P HP. exact (proj1 (stored_rows_conserve h na P HP)).
  - destruct (merged_sums limit rows fs 0%N Hlim) as (_ & _ & H3). fold out in H3. rewrite H3.
    rewrite rchild_tot_rsum, (rsum_perm _ _ _ _ _ Hperm), rsum_concat. rewrite map_map.
    clear Hperm Hlim H3 out. induction Hok as [|P Ps HP _ IH]; [apply eqm_of_eq; reflexivity|].
    cbn [map sumZ fold_right]. fold (sumZ (map (fun l => rsum r_parent snd (stored_rows h na l) 0%N) Ps)).
    fold (sumZ (map stored_weight Ps)). rewrite IH. rewrite <- rchild_tot_rsum.
    rewrite (proj2 (stored_rows_conserve h na P HP)). apply eqm_of_eq. reflexivity.
Qed.

(* ------------------------------------------------------------------ Tree.Total() *)
Lemma fold_total_eqm cs a :
  eqm (fold_left (fun acc c => wrap64 (acc + t_total c)) cs a) (a + sumZ (map t_total cs)).
Proof.
  revert a. induction cs as [|c cs IH]; intros a; cbn [fold_left map sumZ fold_right].
  - apply eqm_of_eq. lia.
  - rewrite IH, wrap64_eqm. apply eqm_of_eq. unfold sumZ. lia.
Qed.

Lemma rsum_parent_entry comp p cs x :
  rsum r_parent comp (rows_entry p cs) x = if N.eqb p x then sumZ (map (fun c => comp (t_self c, t_total c)) cs) else 0.
Proof.
  induction cs as [|c cs IH]; cbn [rows_entry map]; [destruct (N.eqb p x); reflexivity|].
  rewrite rsum_cons. fold (rows_entry p cs). rewrite IH. cbn [r_parent r_self r_total sumZ fold_right].
  destruct (N.eqb p x); [unfold sumZ; lia|lia].
Qed.

Lemma children_nokey ns x : ~ In x (map fst ns) -> children ns x = [].
Proof.
  induction ns as [|[k cs] r IH]; intros H; [reflexivity|]. cbn [children]. cbn [map fst In] in H.
  destruct (N.eqb k x) eqn:E; [apply N.eqb_eq in E; tauto|apply IH; tauto].
Qed.

Lemma rsum_parent_nokey comp ns x : ~ In x (map fst ns) -> rsum r_parent comp (rows_of ns) x = 0.
Proof.
  induction ns as [|[k cs] r IH]; intros H; [reflexivity|]. cbn [map fst In] in H.
  rewrite rows_of_cons, rsum_app, rsum_parent_entry, IH by tauto.
  destruct (N.eqb k x) eqn:E; [apply N.eqb_eq in E; tauto|reflexivity].
Qed.

Lemma rchild_tot_children ns x : NoDup (map fst ns) ->
  rchild_tot (rows_of ns) x = sumZ (map t_total (children ns x)).
Proof.
  rewrite rchild_tot_rsum. induction ns as [|[k cs] r IH]; intros Hnd; [reflexivity|].
  cbn [map fst] in Hnd. inversion Hnd as [|y l Hnotin Hnd']; subst.
  rewrite rows_of_cons, rsum_app, rsum_parent_entry. cbn [children snd].
  destruct (N.eqb k x) eqn:E.
  - apply N.eqb_eq in E. subst k. rewrite rsum_parent_nokey by exact Hnotin. rewrite Z.add_0_r. reflexivity.
  - rewrite IH by exact Hnd'. reflexivity.
Qed.

Lemma set_children_keys ns p cs : NoDup (map fst ns) -> NoDup (map fst (set_children ns p cs)).
Proof.
  induction ns as [|[k old] r IH]; intros Hnd; cbn [set_children].
  - cbn. constructor; [intros []|constructor].
  - cbn [map fst] in Hnd. inversion Hnd as [|y l Hnotin Hnd']; subst.
    destruct (N.eqb k p) eqn:E; cbn [map fst]; [constructor; assumption|].
    constructor; [|apply IH; exact Hnd'].
    intros Hin. apply Hnotin. clear IH Hnd Hnd' Hnotin.
    induction r as [|[k' o'] r IHr]; cbn [set_children map fst In] in *.
    + destruct Hin as [Hin|[]]. apply N.eqb_neq in E. congruence.
    + destruct (N.eqb k' p); cbn [map fst In] in Hin; [exact Hin|]. destruct Hin as [Hin|Hin]; [left; exact Hin|right; apply IHr; exact Hin].
Qed.

Lemma merge_rows_keys limit : forall rows t, NoDup (map fst (m_nodes t)) ->
  NoDup (map fst (m_nodes (merge_rows limit t rows))).
Proof.
  induction rows as [|r rows IH]; intros t Hnd; [exact Hnd|]. cbn [merge_rows m_nodes m_num].
  destruct (add_existing _ r).
  - apply IH. cbn [m_nodes]. apply set_children_keys. exact Hnd.
  - destruct (Z.leb limit (m_num t)); [exact Hnd|]. apply IH. cbn [m_nodes]. apply set_children_keys. exact Hnd.
Qed.

(* Tree.Total()[0] of the merged tree = the rows' root totals added up (modulo 2^64) *)
Theorem total_is_sum_proof limit rows fs : Z.of_nat (length rows) <= limit ->
  total_of (merge_trie limit new_tree rows fs) = wrap64 (rchild_tot rows 0%N).
Proof.
  intros Hlim. unfold total_of.
  set (t := merge_trie limit new_tree rows fs).
  assert (Hk : NoDup (map fst (m_nodes t))).
  { unfold t. rewrite merge_trie_nodes. apply merge_rows_keys. cbn. constructor. }
  assert (Hr : in_range (fold_left (fun acc c => wrap64 (acc + t_total c)) (children (m_nodes t) 0%N) 0)).
  { destruct (children (m_nodes t) 0%N) as [|c cs] using rev_ind; [cbn; unfold in_range, two63; lia|].
    rewrite fold_left_app. cbn [fold_left]. apply wrap64_range. }
  apply in_range_eqm; [exact Hr|].
  rewrite fold_total_eqm. rewrite <- (rchild_tot_children _ _ Hk).
  destruct (merged_sums limit rows fs 0%N Hlim) as (_ & _ & H3). fold t in H3. rewrite H3.
  apply eqm_of_eq. lia.
Qed.

(* ------------------------------------------------------------------ BFS: the level layout nests *)
Definition span (l : list bar) : Z := sumZ (map (fun b => b_off b + b_total b) l).

Lemma span_app a b : span (a ++ b) = span a + span b.
Proof. unfold span. rewrite map_app. apply sumZ_app. Qed.

Lemma span_cons x a : span (x :: a) = b_off x + b_total x + span a.
Proof. reflexivity. Qed.
Lemma span_nil : span [] = 0.
Proof. reflexivity. Qed.

Lemma abs_level_app c a b : abs_level c (a ++ b) = abs_level c a ++ abs_level (c + span a) b.
Proof.
  revert c. induction a as [|x a IH]; intros c; cbn [app abs_level].
  - rewrite span_nil. f_equal. lia.
  - rewrite IH, span_cons. do 3 f_equal. lia.
Qed.

Lemma memN_false x l : memN x l = false -> ~ In x l.
Proof.
  intros H Hin. assert (memN x l = true); [|congruence].
  unfold memN. apply existsb_exists. exists x. split; [exact Hin|apply N.eqb_refl].
Qed.

(* a bar lies inside the bar of its parent in the previous level *)
Definition bar_inside (x : Z * Z * bar) (prev : list (Z * Z * bar)) : Prop :=
  exists y, In y prev /\ b_id (snd y) = b_parent (snd x) /\ fst (fst y) <= fst (fst x) /\ snd (fst x) <= snd (fst y).

Lemma bar_inside_cons x y prev : bar_inside x prev -> bar_inside x (y :: prev).
Proof. intros (z & Hz & H). exists z. split; [right; exact Hz|exact H]. Qed.

Definition node_bar (c : tnode) (b : bar) : Prop :=
  t_id c = b_id b /\ t_total c = b_total b /\ t_self c = b_self b.

Section BFS.
  Variable t : mtree.
  Let ns := m_nodes t.

  (* hypotheses on the tree: non-negative values, exact conservation under every parent key *)
  Definition good (c : tnode) : Prop :=
    0 <= t_self c /\ 0 <= t_total c /\ t_total c = t_self c + sumZ (map t_total (children ns (t_id c))).
  Hypothesis Hgood : forall p c, In c (children ns p) -> good c.
  Variable R : Z.
  Hypothesis HR : R < two63.

  Definition cur (st : bstate) : Z := span (s_lvl st) + s_prepend st.

  (* well-formedness of a state of the inner loops *)
  Definition W (st : bstate) : Prop :=
    Forall2 node_bar (s_next st) (s_lvl st) /\
    (forall b, In b (s_lvl st) ->
       lookupZ (s_pm st) (b_id b) = b_off b /\ 0 <= b_off b /\ 0 <= b_total b /\ In (b_id b) (s_reviewed st)) /\
    map fst (s_pm st) = s_reviewed st /\ NoDup (s_reviewed st) /\ 0 <= s_prepend st /\
    (forall c, In c (s_next st) -> good c).

  (* what the inner loops keep for ids already reviewed *)
  Definition Ext (st st' : bstate) : Prop :=
    forall x, In x (s_reviewed st) -> lookupZ (s_pm st') x = lookupZ (s_pm st) x /\ In x (s_reviewed st').

  Lemma Ext_refl st : Ext st st. Proof. intros x H. tauto. Qed.
  Lemma Ext_trans a b c : Ext a b -> Ext b c -> Ext a c.
  Proof. intros H1 H2 x Hx. destruct (H1 x Hx) as [E1 I1]. destruct (H2 x I1) as [E2 I2]. split; [congruence|exact I2]. Qed.

  Lemma lookupZ_cons k v m x : lookupZ ((k, v) :: m) x = if N.eqb k x then v else lookupZ m x.
  Proof. unfold lookupZ. cbn [assocN]. destruct (N.eqb k x); reflexivity. Qed.

  Lemma span_nonneg l : (forall b, In b l -> 0 <= b_off b /\ 0 <= b_total b) -> 0 <= span l.
  Proof.
    induction l as [|b l IH]; intros H; [rewrite span_nil; lia|].
    rewrite span_cons.
    destruct (H b (or_introl eq_refl)). specialize (IH (fun x Hx => H x (or_intror Hx))). lia.
  Qed.

  Lemma W_span st : W st -> 0 <= span (s_lvl st).
  Proof. intros (_ & Hb & _). apply span_nonneg. intros b Hb'. destruct (Hb b Hb') as (_ & H1 & H2 & _). tauto. Qed.

  (* the children of one parent: bars are laid side by side from the cursor *)
  Lemma visit_children_spec nm pid : forall cs st st',
    (forall c, In c cs -> good c) -> W st -> cur st + sumZ (map t_total cs) <= R ->
    visit_children nm pid st cs = Some st' ->
    W st' /\ Ext st st' /\ cur st' = cur st + sumZ (map t_total cs) /\
    exists new, s_lvl st' = s_lvl st ++ new /\
      forall x, In x (abs_level (span (s_lvl st)) new) ->
        b_parent (snd x) = pid /\ cur st <= fst (fst x) /\ snd (fst x) <= cur st + sumZ (map t_total cs).
  Proof.
    induction cs as [|c cs IH]; intros st st' Hg HW Hle Hv; cbn [visit_children] in Hv.
    - inversion Hv; subst st'. split; [exact HW|]. split; [apply Ext_refl|]. cbn [map sumZ fold_right].
      split; [lia|]. exists []. split; [symmetry; apply app_nil_r|]. intros x [].
    - destruct (memN (t_id c) (s_reviewed st)) eqn:Em; [discriminate|].
      apply memN_false in Em.
      destruct (Hg c (or_introl eq_refl)) as (Hs & Ht & _).
      cbn [map sumZ fold_right] in Hle. fold (sumZ (map t_total cs)) in Hle.
      match type of Hv with visit_children _ _ ?s1 _ = _ => set (st1 := s1) in * end.
      set (nb := {| b_off := s_prepend st; b_total := t_total c; b_self := t_self c;
                    b_name := lookupZ nm (t_fn c); b_id := t_id c; b_parent := pid |}) in *.
      destruct HW as (Hf2 & Hb & Hk & Hnd & Hp & Hgn).
      assert (Hsp : 0 <= span (s_lvl st)) by (apply span_nonneg; intros b Hb'; destruct (Hb b Hb') as (_ & H1 & H2 & _); tauto).
      assert (Hcur1 : cur st1 = cur st + t_total c).
      { unfold cur, st1. cbn [s_lvl s_prepend]. rewrite span_app, span_cons, span_nil. cbn [b_off b_total nb]. lia. }
      assert (HW1 : W st1).
      { unfold st1. split; [|split; [|split; [|split; [|split]]]]; cbn [s_next s_lvl s_pm s_reviewed s_prepend].
        - apply Forall2_app; [exact Hf2|]. constructor; [|constructor]. unfold node_bar, nb. cbn. tauto.
        - intros b Hin. apply in_app_or in Hin. destruct Hin as [Hin|[<-|[]]].
          + destruct (Hb b Hin) as (H1 & H2 & H3 & H4). rewrite lookupZ_cons.
            destruct (N.eqb (t_id c) (b_id b)) eqn:E; [apply N.eqb_eq in E; exfalso; apply Em; rewrite E; exact H4|].
            split; [exact H1|]. split; [exact H2|]. split; [exact H3|right; exact H4].
          + rewrite lookupZ_cons. cbn [nb b_id b_off b_total]. rewrite N.eqb_refl.
            split; [reflexivity|]. split; [exact Hp|]. split; [exact Ht|left; reflexivity].
        - cbn [map fst]. f_equal. exact Hk.
        - constructor; assumption.
        - lia.
        - intros c' Hin. apply in_app_or in Hin. destruct Hin as [Hin|[<-|[]]]; [apply Hgn; exact Hin|apply Hg; left; reflexivity]. }
      assert (HE1 : Ext st st1).
      { intros x Hx. unfold st1. cbn [s_pm s_reviewed]. rewrite lookupZ_cons.
        destruct (N.eqb (t_id c) x) eqn:E; [apply N.eqb_eq in E; subst x; contradiction|]. split; [reflexivity|right; exact Hx]. }
      destruct (IH st1 st' (fun x Hx => Hg x (or_intror Hx)) HW1 ltac:(lia) Hv) as (HW' & HE' & Hcur' & new & Hnew & Hin').
      split; [exact HW'|]. split; [exact (Ext_trans _ _ _ HE1 HE')|].
      cbn [map sumZ fold_right]. fold (sumZ (map t_total cs)). split; [lia|].
      exists (nb :: new). split.
      + rewrite Hnew. unfold st1. cbn [s_lvl]. rewrite <- app_assoc. reflexivity.
      + intros x Hx. cbn [abs_level] in Hx. destruct Hx as [<-|Hx].
        * cbn [fst snd nb b_parent b_off b_total]. unfold cur. 
          assert (0 <= sumZ (map t_total cs)).
          { clear - Hg. induction cs as [|d cs IHc]; [cbn; lia|]. cbn [map sumZ fold_right]. fold (sumZ (map t_total cs)).
            destruct (Hg d (or_intror (or_introl eq_refl))) as (_ & Hd & _).
            specialize (IHc (fun x Hx => match Hx with or_introl e => Hg x (or_introl e) | or_intror e => Hg x (or_intror (or_intror e)) end)). lia. }
          split; [reflexivity|]. split; lia.
        * assert (Hx' : In x (abs_level (span (s_lvl st1)) new)).
          { unfold st1. cbn [s_lvl]. rewrite span_app, span_cons, span_nil. cbn [nb b_off b_total].
            replace (span (s_lvl st) + (s_prepend st + t_total c + 0)) with (span (s_lvl st) + s_prepend st + t_total c) by lia.
            exact Hx. }
          destruct (Hin' x Hx') as (H1 & H2 & H3). split; [exact H1|]. split; lia.
  Qed.

  Lemma W_with_prepend st p : W st -> 0 <= p -> W (with_prepend st p).
  Proof. intros (H1 & H2 & H3 & H4 & _ & H6) Hp. unfold W, with_prepend. cbn. tauto. Qed.

  Lemma Ext_with_prepend_l st p st' : Ext (with_prepend st p) st' -> Ext st st'.
  Proof. intros H. exact H. Qed.
  Lemma Ext_with_prepend_r st st' p : Ext st st' -> Ext st (with_prepend st' p).
  Proof. intros H. exact H. Qed.

  Lemma cur_with_prepend st p : cur (with_prepend st p) = span (s_lvl st) + p.
  Proof. reflexivity. Qed.

  Lemma Forall2_in_r {A B} (P : A -> B -> Prop) l l' b : Forall2 P l l' -> In b l' -> exists a, In a l /\ P a b.
  Proof.
    induction 1 as [|x y l l' Hxy _ IH]; intros Hin; [contradiction|].
    destruct Hin as [<-|Hin]; [exists x; split; [left; reflexivity|exact Hxy]|].
    destruct (IH Hin) as (a & Ha & HP). exists a. split; [right; exact Ha|exact HP].
  Qed.

  Lemma span_bars_nonneg ps bars : Forall2 node_bar ps bars -> (forall c, In c ps -> good c) ->
    (forall b, In b bars -> 0 <= b_off b) -> 0 <= span bars.
  Proof.
    intros Hf Hg Ho. apply span_nonneg. intros b Hb. split; [apply Ho; exact Hb|].
    destruct (Forall2_in_r _ _ _ _ Hf Hb) as (c & Hc & _ & Ht & _). rewrite <- Ht.
    exact (proj1 (proj2 (Hg c Hc))).
  Qed.

  Lemma sum_totals_nonneg cs : (forall c, In c cs -> good c) -> 0 <= sumZ (map t_total cs).
  Proof.
    induction cs as [|d cs IH]; intros Hg; [cbn; lia|]. cbn [map sumZ fold_right]. fold (sumZ (map t_total cs)).
    destruct (Hg d (or_introl eq_refl)) as (_ & Hd & _). specialize (IH (fun x Hx => Hg x (or_intror Hx))). lia.
  Qed.

  (* the parents of one level, from the cursor [base] = end of the previous parent's bar *)
  Lemma visit_parents_spec : forall ps bars st st' base,
    Forall2 node_bar ps bars -> (forall c, In c ps -> good c) ->
    W st -> cur st = base -> 0 <= base ->
    (forall b, In b bars -> lookupZ (s_pm st) (b_id b) = b_off b /\ 0 <= b_off b) ->
    (forall c, In c (tl ps) -> In (t_id c) (s_reviewed st)) ->
    base + span bars <= R ->
    visit_parents t st ps = Some st' ->
    W st' /\ Ext st st' /\ cur st' = base + span bars /\
    exists new, s_lvl st' = s_lvl st ++ new /\
      forall x, In x (abs_level (span (s_lvl st)) new) -> bar_inside x (abs_level base bars).
  Proof.
    induction ps as [|p ps IH]; intros bars st st' base Hf Hg HW Hcur Hb0 Hlk Htl HR' Hv.
    - inversion Hf; subst bars. cbn [visit_parents] in Hv. inversion Hv; subst st'.
      split; [exact HW|]. split; [apply Ext_refl|]. rewrite span_nil. split; [lia|].
      exists []. split; [symmetry; apply app_nil_r|]. intros x [].
    - inversion Hf as [|p' bp ps' bars' Hpb Hf' E1 E2]; subst p' ps' bars. clear Hf.
      destruct Hpb as (Hid & Htot & Hself).
      destruct (Hg p (or_introl eq_refl)) as (Hps & Hpt & Hpc).
      destruct (Hlk bp (or_introl eq_refl)) as (Hlkp & Hoff).
      cbn [tl] in Htl.
      assert (Hsb' : 0 <= span bars').
      { apply (span_bars_nonneg ps bars' Hf'); [intros c Hc; apply Hg; right; exact Hc|].
        intros b Hb. exact (proj2 (Hlk b (or_intror Hb))). }
      rewrite span_cons in HR'. rewrite span_cons.
      pose proof (W_span st HW) as Hsp.
      assert (Hpp : 0 <= s_prepend st) by (destruct HW as (_ & _ & _ & _ & H & _); exact H).
      cbn [visit_parents] in Hv. rewrite Hid, Hlkp in Hv.
      assert (Ew1 : wrap64 (s_prepend st + b_off bp) = s_prepend st + b_off bp).
      { apply wrap64_small. unfold cur in Hcur. unfold two63 in *. lia. }
      rewrite Ew1 in Hv.
      set (st1 := with_prepend st (s_prepend st + b_off bp)) in *.
      assert (HW1 : W st1) by (apply W_with_prepend; [exact HW|lia]).
      assert (Hc1 : cur st1 = base + b_off bp) by (unfold st1; rewrite cur_with_prepend; unfold cur in Hcur; lia).
      rewrite <- Hid in Hv. fold ns in Hv.
      destruct (children ns (t_id p)) as [|c0 cs0] eqn:Ech.
      + (* no children: the cursor jumps over the parent's bar *)
        assert (Ew2 : wrap64 (s_prepend st1 + t_total p) = s_prepend st1 + t_total p).
        { apply wrap64_small. unfold st1. cbn [with_prepend s_prepend]. unfold cur in Hcur. unfold two63 in *. lia. }
        rewrite Ew2 in Hv.
        set (st2 := with_prepend st1 (s_prepend st1 + t_total p)) in *.
        assert (HW2 : W st2) by (apply W_with_prepend; [exact HW1|unfold st1; cbn [with_prepend s_prepend]; lia]).
        assert (Hc2 : cur st2 = base + b_off bp + b_total bp).
        { unfold st2. rewrite cur_with_prepend. unfold st1. cbn [with_prepend s_lvl s_prepend]. unfold cur in Hcur. lia. }
        destruct (IH bars' st2 st' (base + b_off bp + b_total bp) Hf' (fun c Hc => Hg c (or_intror Hc)) HW2 Hc2 ltac:(lia))
          as (HW' & HE' & Hcur' & new & Hnew & Hin).
        * intros b Hb. exact (Hlk b (or_intror Hb)).
        * intros c Hc. apply Htl. destruct ps; [contradiction|right; exact Hc].
        * lia.
        * exact Hv.
        * split; [exact HW'|]. split; [exact HE'|]. split; [lia|]. exists new. split; [exact Hnew|].
          intros x Hx. cbn [abs_level]. apply bar_inside_cons. exact (Hin x Hx).
      + (* children: laid out from the parent's start; then the parent's self value is skipped *)
        set (cs := c0 :: cs0) in *.
        assert (Hgc : forall c, In c cs -> good c) by (intros c Hc; apply (Hgood (t_id p)); rewrite Ech; exact Hc).
        pose proof (sum_totals_nonneg cs Hgc) as Hsum.
        destruct (visit_children (m_namesmap t) (t_id p) st1 cs) as [st2|] eqn:Evc; [|discriminate].
        destruct (visit_children_spec (m_namesmap t) (t_id p) cs st1 st2 Hgc HW1 ltac:(lia) Evc)
          as (HW2 & HE2 & Hc2 & new1 & Hnew1 & Hin1).
        rewrite Hc1 in Hc2, Hin1.
        assert (Hpp2 : 0 <= s_prepend st2) by (destruct HW2 as (_ & _ & _ & _ & H & _); exact H).
        pose proof (W_span st2 HW2) as Hsp2.
        assert (Ew3 : wrap64 (s_prepend st2 + t_self p) = s_prepend st2 + t_self p).
        { apply wrap64_small. unfold cur in Hc2. unfold two63 in *. lia. }
        rewrite Ew3 in Hv.
        set (st3 := with_prepend st2 (s_prepend st2 + t_self p)) in *.
        assert (HW3 : W st3) by (apply W_with_prepend; [exact HW2|lia]).
        assert (Hc3 : cur st3 = base + b_off bp + b_total bp).
        { unfold st3. rewrite cur_with_prepend. unfold cur in Hc2. lia. }
        assert (HE3 : Ext st st3) by exact HE2.
        destruct (IH bars' st3 st' (base + b_off bp + b_total bp) Hf' (fun c Hc => Hg c (or_intror Hc)) HW3 Hc3 ltac:(lia))
          as (HW' & HE' & Hcur' & new2 & Hnew2 & Hin2).
        * intros b Hb. destruct (Hlk b (or_intror Hb)) as [H1 H2]. split; [|exact H2].
          destruct (Forall2_in_r _ _ _ _ Hf' Hb) as (c & Hc & Hcid & _).
          rewrite <- Hcid. rewrite <- Hcid in H1. rewrite <- H1. apply (HE3 (t_id c)). apply Htl. exact Hc.
        * intros c Hc. apply (HE3 (t_id c)). apply Htl. destruct ps; [contradiction|right; exact Hc].
        * lia.
        * exact Hv.
        * split; [exact HW'|]. split; [exact (Ext_trans _ _ _ HE3 HE')|]. split; [lia|].
          exists (new1 ++ new2). split.
          -- rewrite Hnew2. unfold st3. cbn [with_prepend s_lvl]. rewrite Hnew1. unfold st1. cbn [with_prepend s_lvl].
             rewrite app_assoc. reflexivity.
          -- intros x Hx. rewrite abs_level_app in Hx. apply in_app_or in Hx. cbn [abs_level]. destruct Hx as [Hx|Hx].
             ++ destruct (Hin1 x Hx) as (H1 & H2 & H3).
                exists (base + b_off bp, base + b_off bp + b_total bp, bp). cbn [fst snd].
                split; [left; reflexivity|]. split; [congruence|]. split; lia.
             ++ apply bar_inside_cons. apply Hin2.
                unfold st3. cbn [with_prepend s_lvl]. rewrite Hnew1. unfold st1. cbn [with_prepend s_lvl].
                rewrite span_app. exact Hx.
  Qed.

  (* ---------------- the loop over levels *)
  Definition level_ok (prev l : list bar) : Prop :=
    (forall b, In b l -> 0 <= b_off b /\ 0 <= b_total b) /\
    (forall x, In x (abs_level 0 l) -> bar_inside x (abs_level 0 prev)).

  Fixpoint nest_levels (l0 : list bar) (ls : list (list bar)) : Prop :=
    match ls with
    | [] => True
    | l :: r => level_ok l0 l /\ nest_levels l r
    end.

  Lemma last_cons {A} (a : A) r d : last (a :: r) d = last r a.
  Proof.
    revert a d. induction r as [|b r IH]; intros a d; [reflexivity|].
    change (last (a :: b :: r) d) with (last (b :: r) d). rewrite (IH b d), (IH b a). reflexivity.
  Qed.

  Lemma nest_levels_snoc : forall ls l0 l, nest_levels l0 ls -> level_ok (last ls l0) l -> nest_levels l0 (ls ++ [l]).
  Proof.
    induction ls as [|x ls IH]; intros l0 l Hn Hl; cbn [app nest_levels] in *.
    - split; [exact Hl|exact I].
    - destruct Hn as [H1 H2]. split; [exact H1|]. apply IH; [exact H2|]. rewrite last_cons in Hl. exact Hl.
  Qed.

  Definition LInv (res : list (list bar)) (current : list tnode) (pm : list (N * Z)) (reviewed : list N) : Prop :=
    exists l0 ls, res = l0 :: ls /\ nest_levels l0 ls /\
      Forall2 node_bar current (last ls l0) /\ (forall c, In c current -> good c) /\
      (forall b, In b (last ls l0) -> lookupZ pm (b_id b) = b_off b /\ 0 <= b_off b) /\
      (forall c, In c (tl current) -> In (t_id c) reviewed) /\
      map fst pm = reviewed /\ NoDup reviewed /\ span (last ls l0) <= R.

  Lemma bfs_loop_spec : forall fuel res current pm reviewed,
    LInv res current pm reviewed ->
    exists l0 ls, bfs_loop fuel t res current pm reviewed = l0 :: ls /\ nest_levels l0 ls /\
                  exists k, res = l0 :: firstn k ls.
  Proof.
    induction fuel as [|fuel IH]; intros res current pm reviewed HI.
    - destruct HI as (l0 & ls & -> & Hn & _). exists l0, ls. split; [reflexivity|]. split; [exact Hn|].
      exists (length ls). rewrite firstn_all. reflexivity.
    - cbn [bfs_loop].
      assert (Hres : exists l0 ls, res = l0 :: ls /\ nest_levels l0 ls /\ exists k, res = l0 :: firstn k ls).
      { destruct HI as (l0 & ls & -> & Hn & _). exists l0, ls. split; [reflexivity|]. split; [exact Hn|].
        exists (length ls). rewrite firstn_all. reflexivity. }
      destruct current as [|c0 cur0]; [exact Hres|].
      set (current := c0 :: cur0) in *.
      set (st0 := {| s_prepend := 0; s_pm := pm; s_reviewed := reviewed; s_next := []; s_lvl := [] |}).
      destruct (visit_parents t st0 current) as [st|] eqn:Evp; [|exact Hres].
      destruct HI as (l0 & ls & -> & Hn & Hf & Hg & Hlk & Htl & Hk & Hnd & Hsp).
      assert (HW0 : W st0).
      { unfold W, st0. cbn. split; [constructor|]. split; [intros b []|]. split; [exact Hk|]. split; [exact Hnd|].
        split; [lia|intros c []]. }
      destruct (visit_parents_spec current (last ls l0) st0 st 0 Hf Hg HW0 eq_refl ltac:(lia) Hlk Htl ltac:(lia) Evp)
        as (HW & HE & Hcur & new & Hnew & Hin).
      unfold st0 in Hnew. cbn [s_lvl app] in Hnew. subst new.
      unfold st0 in Hin. cbn [s_lvl] in Hin. rewrite span_nil in Hin.
      assert (Hlvl : level_ok (last ls l0) (s_lvl st)).
      { split; [|exact Hin]. intros b Hb. destruct HW as (_ & Hbars & _). destruct (Hbars b Hb) as (_ & H1 & H2 & _). tauto. }
      destruct (IH ((l0 :: ls) ++ [s_lvl st]) (s_next st) (s_pm st) (s_reviewed st)) as (l0' & ls' & Hres' & Hn' & k & Hk').
      + exists l0, (ls ++ [s_lvl st]). split; [reflexivity|].
        split; [apply nest_levels_snoc; assumption|].
        rewrite last_last.
        destruct HW as (Hf2 & Hbars & Hkeys & Hnd' & Hpp & Hgn).
        split; [exact Hf2|]. split; [exact Hgn|].
        split; [intros b Hb; destruct (Hbars b Hb) as (H1 & H2 & _); tauto|].
        split.
        { intros c Hc. assert (Hc' : In c (s_next st)) by (destruct (s_next st); [contradiction|right; exact Hc]).
          destruct (Forall2_in_r (fun b c => node_bar c b) (s_lvl st) (s_next st) c) as (b & Hb & Hcb & _).
          - clear - Hf2. induction Hf2; constructor; assumption.
          - exact Hc'.
          - rewrite Hcb. exact (proj2 (proj2 (proj2 (Hbars b Hb)))). }
        split; [exact Hkeys|]. split; [exact Hnd'|].
        unfold cur in Hcur. lia.
      + exists l0', ls'. split; [exact Hres'|]. split; [exact Hn'|].
        cbn [app] in Hk'. inversion Hk' as [[E1 E2]]. subst l0'.
        exists (Nat.min k (length ls)).
        assert (E : firstn (length ls) (ls ++ [s_lvl st]) = ls) by (rewrite firstn_app, Nat.sub_diag, firstn_all; cbn; apply app_nil_r).
        rewrite <- E at 1. rewrite E2. rewrite firstn_firstn. f_equal. f_equal. lia.
  Qed.
End BFS.

Definition tree_good (t : mtree) : Prop := forall p c, In c (children (m_nodes t) p) -> good t c.
Definition root_total (t : mtree) : Z := sumZ (map t_total (children (m_nodes t) 0%N)).
Definition root_bar (R : Z) : bar := {| b_off := 0; b_total := R; b_self := 0; b_name := 0; b_id := 0%N; b_parent := 0%N |}.

Lemma fold_total_exact : forall cs a, (forall c, In c cs -> 0 <= t_total c) -> 0 <= a ->
  a + sumZ (map t_total cs) < two63 ->
  fold_left (fun acc c => wrap64 (acc + t_total c)) cs a = a + sumZ (map t_total cs).
Proof.
  induction cs as [|c cs IH]; intros a Hnn Ha Hlt; cbn [fold_left map sumZ fold_right] in *; [lia|].
  fold (sumZ (map t_total cs)) in *.
  assert (Hc : 0 <= t_total c) by (apply Hnn; left; reflexivity).
  assert (Hs : 0 <= sumZ (map t_total cs)).
  { clear - Hnn. induction cs as [|d cs IHc]; [cbn; lia|]. cbn [map sumZ fold_right]. fold (sumZ (map t_total cs)).
    assert (0 <= t_total d) by (apply Hnn; right; left; reflexivity).
    specialize (IHc (fun x Hx => match Hx with or_introl e => Hnn x (or_introl e) | or_intror e => Hnn x (or_intror (or_intror e)) end)). lia. }
  rewrite wrap64_small by (unfold two63 in *; lia).
  rewrite IH; [lia| |lia|lia]. intros x Hx. apply Hnn. right. exact Hx.
Qed.

Lemma total_of_exact t : tree_good t -> root_total t < two63 -> total_of t = root_total t.
Proof.
  intros Hg Hlt. unfold total_of. rewrite fold_total_exact; [unfold root_total; lia| |lia|exact Hlt].
  intros c Hc. exact (proj1 (proj2 (Hg 0%N c Hc))).
Qed.

(* In the levels BFS returns for a tree with non-negative values and exact conservation under every
   parent key (no overflow: the root total fits in int64): level 0 is the single bar [0, root total);
   in every later level the offsets and totals are non-negative (so the bars of one level follow one
   another without overlap) and every bar lies inside the bar, one level up, of the node whose id is
   the bar's parent id. *)
Theorem levels_nest_proof t : tree_good t -> root_total t < two63 ->
  exists ls, bfs t = [root_bar (root_total t)] :: ls /\ nest_levels [root_bar (root_total t)] ls.
Proof.
  intros Hg Hlt. unfold bfs. rewrite (total_of_exact t Hg Hlt).
  set (R := root_total t).
  assert (HR0 : 0 <= R) by (apply (sum_totals_nonneg t); intros c Hc; exact (Hg 0%N c Hc)).
  destruct (bfs_loop_spec t Hg R Hlt (count_nodes t + 2) [[root_bar R]]
              [{| t_fn := 0%N; t_id := 0%N; t_self := 0; t_total := R |}] [] []) as (l0 & ls & Hres & Hn & k & Hk).
  - exists [root_bar R], []. split; [reflexivity|]. split; [exact I|]. cbn [last].
    split; [constructor; [unfold node_bar; cbn; tauto|constructor]|].
    split; [intros c [<-|[]]; unfold good; cbn [t_self t_total t_id]; split; [lia|split; [exact HR0|reflexivity]]|].
    split; [intros b [<-|[]]; cbn; lia|].
    split; [intros c []|]. split; [reflexivity|]. split; [constructor|].
    rewrite span_cons, span_nil. cbn. lia.
  - inversion Hk as [[E1 E2]]. subst l0. exists ls. split; [exact Hres|exact Hn].
Qed.

(* bars of one level laid out with non-negative offsets and totals do not overlap *)
Lemma abs_level_after : forall l c x, (forall b, In b l -> 0 <= b_off b /\ 0 <= b_total b) ->
  In x (abs_level c l) -> c <= fst (fst x) /\ fst (fst x) <= snd (fst x).
Proof.
  induction l as [|b l IH]; intros c x Hnn Hx; [contradiction|]. cbn [abs_level] in Hx.
  destruct (Hnn b (or_introl eq_refl)) as [Ho Ht].
  destruct Hx as [<-|Hx]; [cbn [fst snd]; lia|].
  destruct (IH _ x (fun y Hy => Hnn y (or_intror Hy)) Hx). lia.
Qed.

Lemma abs_level_disjoint : forall l c, (forall b, In b l -> 0 <= b_off b /\ 0 <= b_total b) ->
  ForallOrdPairs (fun x y => snd (fst x) <= fst (fst y)) (abs_level c l).
Proof.
  induction l as [|b l IH]; intros c Hnn; cbn [abs_level]; [constructor|].
  constructor; [|apply IH; intros y Hy; apply Hnn; right; exact Hy].
  apply Forall_forall. intros y Hy. cbn [fst snd].
  destruct (abs_level_after l _ y (fun z Hz => Hnn z (or_intror Hz)) Hy). lia.
Qed.

(* ------------------------------------------------------------------ decidable forms of the hypotheses,
   to exhibit concrete trees / row lists that satisfy them *)
Definition good_b (ns : list (N * list tnode)) (c : tnode) : bool :=
  Z.leb 0 (t_self c) && Z.leb 0 (t_total c) &&
  Z.eqb (t_total c) (t_self c + sumZ (map t_total (children ns (t_id c)))).
Definition tree_good_b (t : mtree) : bool :=
  forallb (fun e => forallb (good_b (m_nodes t)) (snd e)) (m_nodes t).

Lemma children_in ns p c : In c (children ns p) -> exists e, In e ns /\ In c (snd e).
Proof.
  induction ns as [|[k cs] r IH]; cbn [children]; [contradiction|].
  destruct (N.eqb k p); intros H.
  - exists (k, cs). split; [left; reflexivity|exact H].
  - destruct (IH H) as (e & He & Hc). exists e. split; [right; exact He|exact Hc].
Qed.

Lemma tree_good_b_sound t : tree_good_b t = true -> tree_good t.
Proof.
  intros H p c Hc. destruct (children_in _ _ _ Hc) as (e & He & Hce).
  unfold tree_good_b in H. rewrite forallb_forall in H. specialize (H e He).
  rewrite forallb_forall in H. specialize (H c Hce). unfold good_b in H.
  apply andb_true_iff in H. destruct H as [H H3]. apply andb_true_iff in H. destruct H as [H1 H2].
  unfold good. split; [apply Z.leb_le; exact H1|]. split; [apply Z.leb_le; exact H2|apply Z.eqb_eq; exact H3].
Qed.

Definition row_in_range_b (r : row) : bool :=
  Z.leb (- two63) (r_self r) && Z.ltb (r_self r) two63 && Z.leb (- two63) (r_total r) && Z.ltb (r_total r) two63.
Lemma rows_in_range_b_sound rows : forallb row_in_range_b rows = true -> Forall row_in_range rows.
Proof.
  intros H. apply Forall_forall. intros r Hr. rewrite forallb_forall in H. specialize (H r Hr).
  unfold row_in_range_b in H. repeat (apply andb_true_iff in H; destruct H as [H ?]).
  unfold row_in_range, in_range. repeat split; try (apply Z.leb_le; assumption); apply Z.ltb_lt; assumption.
Qed.

(* the running example: the stored rows of ex_profile (sample type 0), merged *)
Definition ex_rows : list row := map (project_row (Some 0%nat)) (post_process city16 2 ex_profile).
Definition ex_tree : mtree := merge_trie the_limit new_tree ex_rows [].

Lemma ex_tree_hypotheses :
  Z.of_nat (length ex_rows) <= the_limit /\ Forall row_in_range ex_rows /\
  tree_good ex_tree /\ root_total ex_tree < two63 /\ length (bfs ex_tree) = 6%nat /\ root_total ex_tree = 12.
Proof.
  split; [vm_compute; discriminate|]. split; [apply rows_in_range_b_sound; vm_compute; reflexivity|].
  split; [apply tree_good_b_sound; vm_compute; reflexivity|].
  split; [vm_compute; reflexivity|]. split; vm_compute; reflexivity.
Qed.

Lemma merge_is_sum_refuted_proof : exists (limit : Z) (rows : list row),
  Forall row_in_range rows /\ exists p i,
  vals_at (m_nodes (merge_trie limit new_tree rows [])) p i <>
  (if has_key rows p i then Some (wrap64 (sum_self rows p i), wrap64 (sum_total rows p i)) else None).
Proof.
  exists 1, [ {| r_parent := 0; r_fn := 7; r_id := 1; r_self := 1; r_total := 1 |};
              {| r_parent := 0; r_fn := 8; r_id := 2; r_self := 1; r_total := 1 |} ]%N.
  split; [apply rows_in_range_b_sound; vm_compute; reflexivity|].
  exists 0%N, 2%N. vm_compute. discriminate.
Qed.

(* ------------------------------------------------------------------ node-by-node reading of the merged tree
   (when every node id occurs once in it, which injectivity of the node id over all merged profiles gives) *)
Definition AllRange (ns : list (N * list tnode)) : Prop :=
  forall e c, In e ns -> In c (snd e) -> tnode_in_range c.

Lemma children_range ns p c : AllRange ns -> In c (children ns p) -> tnode_in_range c.
Proof. intros Ha Hc. destruct (children_in _ _ _ Hc) as (e & He & Hce). exact (Ha e c He Hce). Qed.

Lemma set_children_allrange ns p cs : AllRange ns -> (forall c, In c cs -> tnode_in_range c) ->
  AllRange (set_children ns p cs).
Proof.
  intros Ha Hcs. induction ns as [|[k old] r IH]; cbn [set_children].
  - intros e c [<-|[]] Hc. exact (Hcs c Hc).
  - destruct (N.eqb k p).
    + intros e c [<-|He] Hc; [exact (Hcs c Hc)|exact (Ha e c (or_intror He) Hc)].
    + intros e c [<-|He] Hc; [exact (Ha _ c (or_introl eq_refl) Hc)|].
      apply (IH (fun e' c' He' => Ha e' c' (or_intror He')) e c He Hc).
Qed.

Lemma add_existing_range cs r cs' : (forall c, In c cs -> tnode_in_range c) -> add_existing cs r = Some cs' ->
  forall c, In c cs' -> tnode_in_range c.
Proof.
  revert cs'. induction cs as [|d cs IH]; intros cs' Hr H; cbn [add_existing] in H; [discriminate|].
  destruct (N.eqb (t_id d) (r_id r)).
  - inversion H; subst cs'. intros c [<-|Hc]; [split; apply wrap64_range|apply Hr; right; exact Hc].
  - destruct (add_existing cs r) as [l|] eqn:El; [|discriminate]. inversion H; subst cs'.
    intros c [<-|Hc]; [apply Hr; left; reflexivity|].
    apply (IH l (fun x Hx => Hr x (or_intror Hx)) eq_refl c Hc).
Qed.

Lemma merge_rows_allrange limit : forall rows t, AllRange (m_nodes t) -> Forall row_in_range rows ->
  AllRange (m_nodes (merge_rows limit t rows)).
Proof.
  induction rows as [|r rows IH]; intros t Ha Hrr; [exact Ha|]. inversion Hrr as [|x l Hr Hrr']; subst.
  cbn [merge_rows m_nodes m_num].
  destruct (add_existing (children (m_nodes t) (r_parent r)) r) as [cs'|] eqn:Eadd.
  - apply IH; [|exact Hrr']. cbn [m_nodes]. apply set_children_allrange; [exact Ha|].
    apply (add_existing_range (children (m_nodes t) (r_parent r)) r cs'); [intros c Hc; exact (children_range _ _ _ Ha Hc)|exact Eadd].
  - destruct (Z.leb limit (m_num t)); [exact Ha|]. apply IH; [|exact Hrr']. cbn [m_nodes].
    apply set_children_allrange; [exact Ha|]. intros c Hc. apply in_app_or in Hc.
    destruct Hc as [Hc|[<-|[]]]; [exact (children_range _ _ _ Ha Hc)|exact Hr].
Qed.

Lemma rows_of_in ns o : In o (rows_of ns) -> exists e c, In e ns /\ In c (snd e) /\
  r_id o = t_id c /\ r_self o = t_self c /\ r_total o = t_total c.
Proof.
  unfold rows_of. intros H. apply in_flat_map in H. destruct H as (e & He & Ho).
  apply in_map_iff in Ho. destruct Ho as (c & <- & Hc). exists e, c. cbn. tauto.
Qed.

Lemma rsum_notin comp rows x : ~ In x (map r_id rows) -> rsum r_id comp rows x = 0.
Proof.
  induction rows as [|r rows IH]; intros H; [reflexivity|]. rewrite rsum_cons. cbn [map In] in H.
  destruct (N.eqb (r_id r) x) eqn:E; [apply N.eqb_eq in E; tauto|]. rewrite IH by tauto. lia.
Qed.

Lemma rsum_nodup comp rows o : NoDup (map r_id rows) -> In o rows ->
  rsum r_id comp rows (r_id o) = comp (r_self o, r_total o).
Proof.
  induction rows as [|m rows IH]; intros Hnd Hin; [contradiction|].
  cbn [map] in Hnd. inversion Hnd as [|x l Hnotin Hnd']; subst. rewrite rsum_cons. destruct Hin as [->|Hin].
  - rewrite N.eqb_refl, rsum_notin by exact Hnotin. lia.
  - destruct (N.eqb (r_id m) (r_id o)) eqn:E.
    + apply N.eqb_eq in E. exfalso. apply Hnotin. rewrite E. apply in_map. exact Hin.
    + rewrite IH by assumption. lia.
Qed.

Theorem merged_nodes_conserve limit rows fs :
  Z.of_nat (length rows) <= limit -> Forall row_in_range rows -> rconserves rows ->
  let out := rows_of (m_nodes (merge_trie limit new_tree rows fs)) in
  NoDup (map r_id out) ->
  forall o, In o out -> r_id o <> 0%N -> r_total o = wrap64 (r_self o + rchild_tot out (r_id o)).
Proof.
  intros Hlim Hrr Hc out Hnd o Ho Hnz.
  assert (Hrange : in_range (r_total o)).
  { unfold out in Ho. rewrite merge_trie_nodes in Ho. destruct (rows_of_in _ o Ho) as (e & c & He & Hce & _ & _ & ->).
    refine (proj2 (merge_rows_allrange limit rows _ _ Hrr e c He Hce)). intros e' c' []. }
  apply in_range_eqm; [exact Hrange|].
  pose proof (merged_conserves_rows limit rows fs Hlim Hc (r_id o) Hnz) as H. fold out in H.
  rewrite rtot_at_rsum, rself_at_rsum in H. rewrite !rsum_nodup in H by assumption. cbn [fst snd] in H.
  exact H.
Qed.

(* ------------------------------------------------------------------ the node limit, for every value of it:
   limit+1 rows with fresh node ids under the root: the last one is dropped *)
Definition fresh_row (j : nat) : row :=
  {| r_parent := 0%N; r_fn := 7%N; r_id := N.of_nat j; r_self := 1; r_total := 1 |}.
Definition fresh_rows (a k : nat) : list row := map fresh_row (seq a k).

Lemma find_tnode_none cs i : (forall c, In c cs -> t_id c <> i) -> find_tnode cs i = None.
Proof.
  induction cs as [|c cs IH]; intros H; [reflexivity|]. cbn [find_tnode].
  destruct (N.eqb (t_id c) i) eqn:E; [apply N.eqb_eq in E; exfalso; exact (H c (or_introl eq_refl) E)|].
  apply IH. intros d Hd. apply H. right. exact Hd.
Qed.

Lemma cutoff_drops (n : nat) : forall k a t, (1 <= k)%nat -> (a + k = n + 2)%nat -> (1 <= a)%nat ->
  m_num t = Z.of_nat a - 1 ->
  (forall c, In c (children (m_nodes t) 0%N) -> (t_id c < N.of_nat a)%N) ->
  node_at (m_nodes (merge_rows (Z.of_nat n) t (fresh_rows a k))) 0%N (N.of_nat (n + 1)) = None.
Proof.
  induction k as [|k IH]; intros a t Hk Hak Ha Hnum Hids; [lia|].
  unfold fresh_rows. cbn [seq map]. fold (fresh_rows (S a) k).
  set (cs := children (m_nodes t) 0%N) in *.
  assert (Hnone : add_existing cs (fresh_row a) = None).
  { apply add_existing_none. apply find_tnode_none. intros c Hc. specialize (Hids c Hc). cbn [fresh_row r_id]. lia. }
  cbn [merge_rows]. cbn [m_nodes m_num]. change (r_parent (fresh_row a)) with 0%N. fold cs. rewrite Hnone.
  destruct (Z.leb (Z.of_nat n) (m_num t)) eqn:El.
  - (* the limit is reached: this row and all later ones are dropped *)
    apply Z.leb_le in El. assert (a = (n + 1)%nat) by lia. subst a. cbn [m_nodes].
    unfold node_at. fold cs. apply find_tnode_none. intros c Hc. specialize (Hids c Hc). lia.
  - apply Z.leb_gt in El. destruct k as [|k'].
    + exfalso. lia.
    + apply IH; [lia|lia|lia|cbn [m_num]; lia|].
      cbn [m_nodes]. rewrite children_set, N.eqb_refl. intros c Hc. apply in_app_or in Hc.
      rewrite Nat2N.inj_succ.
      destruct Hc as [Hc|[<-|[]]]; [specialize (Hids c Hc); lia|cbn [node_of_row t_id r_id fresh_row]; lia].
Qed.

Lemma merge_is_sum_refuted_any_limit limit : 0 <= limit -> exists rows : list row,
  Forall row_in_range rows /\ exists p i,
  vals_at (m_nodes (merge_trie limit new_tree rows [])) p i <>
  (if has_key rows p i then Some (wrap64 (sum_self rows p i), wrap64 (sum_total rows p i)) else None).
Proof.
  intros Hl. set (n := Z.to_nat limit). exists (fresh_rows 1 (n + 1)). split.
  - apply Forall_forall. intros r Hr. unfold fresh_rows in Hr. apply in_map_iff in Hr. destruct Hr as (j & <- & _).
    unfold row_in_range, in_range, two63. cbn. lia.
  - exists 0%N, (N.of_nat (n + 1)).
    assert (Hk : has_key (fresh_rows 1 (n + 1)) 0%N (N.of_nat (n + 1)) = true).
    { unfold has_key. apply existsb_exists. exists (fresh_row (n + 1)). split.
      - unfold fresh_rows. apply in_map. apply in_seq. lia.
      - unfold key_eqb. cbn [fresh_row r_parent r_id]. rewrite !N.eqb_refl. reflexivity. }
    rewrite Hk. unfold vals_at. rewrite merge_trie_nodes. cbn [merge_funcs fst snd new_tree m_nodes m_num m_maxself m_names m_namesmap].
    replace limit with (Z.of_nat n) by (unfold n; lia).
    rewrite (cutoff_drops n (n + 1) 1); [discriminate|lia|lia|lia|cbn; lia|intros c []].
Qed.

(* ------------------------------------------------------------------ the checkable form implies the hypotheses of levels_nest *)
Lemma ids_distinct_sound l : ids_distinct l = true -> NoDup l.
Proof.
  induction l as [|x l IH]; intros H; [constructor|]. cbn [ids_distinct] in H.
  apply andb_true_iff in H. destruct H as [H1 H2]. constructor; [|apply IH; exact H2].
  intros Hin. apply negb_true_iff in H1.
  assert (existsb (N.eqb x) l = true) by (apply existsb_exists; exists x; split; [exact Hin|apply N.eqb_refl]). congruence.
Qed.

Lemma tree_regular_good t : tree_regular (m_nodes t) = true -> tree_good t /\ root_total t < two63.
Proof.
  unfold tree_regular. intros H.
  apply andb_true_iff in H. destruct H as [H Hlt]. apply andb_true_iff in H. destruct H as [H Hall].
  apply andb_true_iff in H. destruct H as [Hkeys _]. apply ids_distinct_sound in Hkeys.
  apply Z.ltb_lt in Hlt. rewrite (rchild_tot_children _ _ Hkeys) in Hlt.
  split; [|exact Hlt].
  intros p c Hc. destruct (children_in _ _ _ Hc) as (e & He & Hce).
  rewrite forallb_forall in Hall.
  assert (Hin : In {| r_parent := fst e; r_fn := t_fn c; r_id := t_id c; r_self := t_self c; r_total := t_total c |}
                   (rows_of (m_nodes t))).
  { unfold rows_of. apply in_flat_map. exists e. split; [exact He|]. apply in_map_iff. exists c. split; [reflexivity|exact Hce]. }
  specialize (Hall _ Hin). cbn [r_id r_self r_total r_parent] in Hall.
  apply andb_true_iff in Hall. destruct Hall as [Hall _]. apply andb_true_iff in Hall. destruct Hall as [Hall Hcons].
  apply andb_true_iff in Hall. destruct Hall as [Hall Htot]. apply andb_true_iff in Hall. destruct Hall as [_ Hself].
  apply Z.leb_le in Hself. apply Z.leb_le in Htot. apply Z.eqb_eq in Hcons.
  rewrite (rchild_tot_children _ _ Hkeys) in Hcons. unfold good. tauto.
Qed.

(* every tree accepted by tree_regular (the precondition the check evaluates on OBSERVED merged trees before it
   applies the nesting oracle) satisfies the conclusion of levels_nest *)
Corollary levels_nest_regular t : tree_regular (m_nodes t) = true ->
  exists ls, bfs t = [root_bar (root_total t)] :: ls /\ nest_levels [root_bar (root_total t)] ls.
Proof. intros H. destruct (tree_regular_good t H) as [Hg Hlt]. exact (levels_nest_proof t Hg Hlt). Qed.
