(* Proofs about model/Fingerprint.v (property C04). *)
From Coq Require Import List ZArith Lia Permutation String.
From Qryn Require Import model.Fingerprint.
Import ListNotations.
Open Scope Z_scope.

Lemma w64_mod x : w64 x = x mod M64.
Proof.
  unfold w64. change 18446744073709551615 with (Z.ones 64).
  rewrite Z.land_ones by lia. reflexivity.
Qed.

Section FP.
  Variable ch64 : string -> Z.
  Variable h128 : Z -> Z -> Z.
  Variable fin : Z * Z * Z -> Z.

  Notation lhash := (lhash ch64 h128).
  Notation stepf := (stepf ch64 h128).
  Notation determs := (determs ch64 h128).
  Notation fingerprint := (fingerprint ch64 h128 fin).

  Lemma stepf_comm d x y : stepf (stepf d x) y = stepf (stepf d y) x.
  Proof.
    destruct d as [[a b] c]. unfold Fingerprint.stepf. rewrite !w64_mod. f_equal; [f_equal|].
    - rewrite !Zplus_mod_idemp_l. f_equal. lia.
    - rewrite !Z.lxor_assoc. f_equal. apply Z.lxor_comm.
    - rewrite !Zmult_mod_idemp_l. f_equal. lia.
  Qed.

  Lemma fold_perm : forall l1 l2, Permutation l1 l2 ->
    forall d, fold_left stepf l1 d = fold_left stepf l2 d.
  Proof.
    induction 1 as [|x l1 l2 HP IH|x y l|l1 l2 l3 HP1 IH1 HP2 IH2]; intros d; cbn [fold_left]; auto.
    - now rewrite stepf_comm.
    - now rewrite IH1.
  Qed.

  Lemma determs_perm l1 l2 : Permutation l1 l2 -> determs l1 = determs l2.
  Proof. intros H. unfold Fingerprint.determs. now rewrite (fold_perm _ _ H). Qed.

  Lemma fingerprint_perm l1 l2 : Permutation l1 l2 -> fingerprint l1 = fingerprint l2.
  Proof. intros H. unfold Fingerprint.fingerprint. now rewrite (determs_perm _ _ H). Qed.

  (* the fingerprint sees a label only through its pair hash, and the pair hash sees name and value
     through separate arguments of h128: no concatenation, hence no {ab:"c"} = {a:"bc"} confusion
     beyond collisions of the oracles themselves *)
  Lemma lhash_separates (n1 v1 n2 v2 : string) :
    (forall x y, ch64 x = ch64 y -> x = y) ->
    (forall a b c d, w64 (h128 a b) = w64 (h128 c d) -> a = c /\ b = d) ->
    lhash (n1, v1) = lhash (n2, v2) -> (n1, v1) = (n2, v2).
  Proof.
    intros Hc Hh H. unfold Fingerprint.lhash in H. cbn [fst snd] in H.
    apply Hh in H. destruct H as [Ha Hb]. apply Hc in Ha. apply Hc in Hb. now subst.
  Qed.

  (* single-label sets: the three accumulators determine the pair hash *)
  Lemma determs_single x : determs [x] = (w64 (lhash x), lhash x, w64 (1779033703 + 2 * lhash x)).
  Proof.
    unfold Fingerprint.determs. cbn [fold_left]. unfold Fingerprint.stepf.
    rewrite Z.add_0_l, Z.lxor_0_l, Z.mul_1_l. reflexivity.
  Qed.

  Lemma determs_single_inj x y : determs [x] = determs [y] -> lhash x = lhash y.
  Proof.
    rewrite !determs_single. intros H.
    apply (f_equal (fun t : Z * Z * Z => snd (fst t))) in H. exact H.
  Qed.

  (* conditional injectivity: on any family F of label lists on which (1) the commutative
     accumulation determs is collision-free up to permutation and (2) the final hash fin is
     collision-free on the accumulator triples, equal fingerprints mean equal label multisets.
     Neither (1) nor (2) can hold for all inputs of a 64-bit hash; both are hypotheses. *)
  Lemma fingerprint_injective_on (F : list label -> Prop) :
    (forall l1 l2, F l1 -> F l2 -> determs l1 = determs l2 -> Permutation l1 l2) ->
    (forall l1 l2, F l1 -> F l2 -> fin (determs l1) = fin (determs l2) -> determs l1 = determs l2) ->
    forall l1 l2, F l1 -> F l2 -> fingerprint l1 = fingerprint l2 -> Permutation l1 l2.
  Proof.
    intros H1 H2 l1 l2 F1 F2 H. apply H1; [assumption|assumption|]. apply H2; [assumption|assumption|]. exact H.
  Qed.
End FP.

(* lhash is a reduced value *)
Lemma w64_range x : 0 <= w64 x < M64.
Proof. rewrite w64_mod. unfold M64. apply Z.mod_pos_bound. lia. Qed.

(* the two hypotheses of fingerprint_injective_on are satisfiable by a non-trivial family under the
   concrete Hash128to64 / CH64-over-24-bytes transcriptions (CH64 on strings from a table) *)
Definition ex_tbl : list (string * Z) := [("app"%string, 568117394947613772); ("api"%string, 3180468642210779003); ("db"%string, 587013140500348660)].
Definition ex_F (l : list label) : Prop :=
  l = [("app"%string, "api"%string)] \/ l = [("app"%string, "db"%string)] \/ l = [("api"%string, "app"%string)].
Example injective_hyps_satisfiable :
  (forall l1 l2, ex_F l1 -> ex_F l2 -> determs (tbl_ch64 ex_tbl) hash128to64 l1 = determs (tbl_ch64 ex_tbl) hash128to64 l2 -> Permutation l1 l2) /\
  (forall l1 l2, ex_F l1 -> ex_F l2 ->
     fin24 (determs (tbl_ch64 ex_tbl) hash128to64 l1) = fin24 (determs (tbl_ch64 ex_tbl) hash128to64 l2) ->
     determs (tbl_ch64 ex_tbl) hash128to64 l1 = determs (tbl_ch64 ex_tbl) hash128to64 l2).
Proof.
  split; intros l1 l2 [-> | [-> | ->]] [-> | [-> | ->]] H;
    try apply Permutation_refl; try reflexivity; vm_compute in H; discriminate H.
Qed.
