(* C01, "every request eventually gets an answer while the database keeps answering", in possibility form:
   no reachable worker state is wedged -- when every request was accounted with a positive size.  With a size of
   zero the statement fails (swapBuffers tests svc.size == 0, not len(svc.results) == 0). *)
From Coq Require Import List NArith ZArith Bool Lia Arith.
From Qryn Require Import model.Ingest proofs.IngestBase.
Import ListNotations.

(* accounted size and pending promises agree *)
Definition pos_inv (s : svc) : Prop :=
  (0 <= size s)%Z /\ (results s = [] -> size s = 0%Z) /\ (results s <> [] -> (0 < size s)%Z).

Lemma pos_inv_step s a s' vs : pos_inv s -> pos_request a = true -> sstep s a = Some (s', vs) -> pos_inv s'.
Proof.
  intros (P0 & P1 & P2) Hp Hs. destruct a as [p r sz| |ok| | |ok| |]; cbn in Hs.
  - cbn in Hp. apply Z.ltb_lt in Hp. destruct (running s); cbn in Hs.
    + destruct (eff (kd s) r) as [r'|]; [|discriminate].
      destruct (Nat.eqb _ 0); inversion Hs; subst; cbn; [repeat split; auto|].
      unfold pos_inv; cbn. repeat split; try lia. intros X. destruct (results s); discriminate.
    + inversion Hs; subst. repeat split; auto.
  - inversion Hs; subst. repeat split; auto.
  - destruct (_ && _); inversion Hs; subst. repeat split; auto.
  - destruct (_ && _); [|discriminate]. destruct (Z.eqb (size s) 0); inversion Hs; subst; unfold pos_inv; cbn.
    + repeat split; auto.
    + repeat split; try lia. intros X; contradiction.
  - destruct (inflight s) as [po|]; [|discriminate]. destruct (p_sent po); inversion Hs; subst. repeat split; auto.
  - destruct (inflight s) as [po|]; [|discriminate]. destruct (negb (p_sent po)); inversion Hs; subst. repeat split; auto.
  - destruct (is_none (inflight s)); inversion Hs; subst. repeat split; auto.
  - inversion Hs; subst. repeat split; auto.
Qed.

Lemma pos_inv_run tr : forall s s' vs, pos_inv s -> forallb pos_request tr = true -> srun s tr = Some (s', vs) -> pos_inv s'.
Proof.
  induction tr as [|a tr IH]; intros s s' vs P Hp Hr; cbn in Hr.
  - inversion Hr; subst; assumption.
  - cbn in Hp. apply andb_true_iff in Hp as [Ha Ht].
    destruct (sstep s a) as [[s1 e1]|] eqn:E; [|discriminate].
    destruct (srun s1 tr) as [[s2 e2]|] eqn:E2; [|discriminate]. inversion Hr; subst.
    exact (IH _ _ _ (pos_inv_step _ _ _ _ P Ha E) Ht E2).
Qed.

Lemma pos_inv_init k g mq : pos_inv (svc_init k g mq).
Proof. unfold pos_inv; cbn. repeat split; auto; try lia. intros X; contradiction. Qed.

Lemma dones_app a b : dones (a ++ b) = dones a ++ dones b.
Proof. induction a as [|v a IH]; cbn; [reflexivity|]. destruct v; cbn; rewrite ?IH; reflexivity. Qed.
Lemma dones_map l ok : dones (map (fun pr : pid * req => VDone (fst pr) (snd pr) ok) l) = map (fun pr => (fst pr, ok)) l.
Proof. induction l as [|x l IH]; cbn; [reflexivity|]. now rewrite IH. Qed.

(* from every state of a running worker whose accounting is sound, the drain continuation runs, completes every
   pending promise (those of the portion that was out and those of the open batch, all with success) and leaves
   the worker empty *)
Theorem svc_can_always_drain s :
  pos_inv s -> running s = true ->
  exists s' vs, srun s (drain s) = Some (s', vs) /\
    results s' = [] /\ inflight s' = None /\
    dones vs = map (fun pr => (fst pr, true)) (match inflight s with Some po => p_res po | None => [] end ++ results s).
Proof.
  intros (P0 & P1 & P2) Hrun. destruct s as [k g mq c sz res inf cl pl rn]. cbn in P0, P1, P2, Hrun. subst rn.
  assert (Hsz : res = [] -> Z.eqb sz 0 = true) by (intros X; rewrite (P1 X); reflexivity).
  assert (Hnz : res <> [] -> Z.eqb sz 0 = false) by (intros X; apply Z.eqb_neq; specialize (P2 X); lia).
  unfold drain; cbn [inflight results client is_none].
  destruct res as [|x xs].
  - pose proof (Hsz eq_refl) as E. clear Hsz Hnz.
    destruct inf as [[pc pr [|]]|]; [| |destruct cl]; cbn; rewrite ?E; cbn;
      (eexists; eexists; split; [reflexivity|]); cbn;
      rewrite ?app_nil_r, ?dones_app, ?dones_map; cbn; rewrite ?app_nil_r; auto.
  - assert (E : Z.eqb sz 0 = false) by (apply Hnz; discriminate). clear Hsz Hnz.
    destruct inf as [[pc pr [|]]|]; [| |destruct cl]; cbn; rewrite ?E; cbn;
      (eexists; eexists; split; [reflexivity|]); cbn;
      rewrite ?app_nil_r, ?dones_app, ?dones_map; cbn; rewrite ?app_nil_r, ?dones_app, ?dones_map, ?map_app; cbn; auto.
Qed.

(* ... and the statement without the size hypothesis is false: a request with rows but accounted size 0 is
   accepted, and no sequence of flushes, dials, swaps ever sends or completes it *)
Definition zero_req : req := table_of 5 [1%N].
Definition zero_state : svc :=
  match sstep (svc_init KSamples 0 0) (SRequest (PEnv 1) zero_req 0) with Some (s, _) => s | None => svc_init KSamples 0 0 end.

Lemma zero_stuck_step s a s' vs :
  size s = 0%Z -> inflight s = None -> is_srequest a = false -> sstep s a = Some (s', vs) ->
  size s' = 0%Z /\ inflight s' = None /\ results s' = results s /\ vs = [].
Proof.
  intros Hz Hi Hr Hs. destruct a as [p r sz| |ok| | |ok| |]; cbn in Hr, Hs; try discriminate.
  - inversion Hs; subst. auto.
  - destruct (_ && _); inversion Hs; subst. auto.
  - destruct (_ && _); [|discriminate]. rewrite Hz in Hs. cbn in Hs. inversion Hs; subst. auto.
  - rewrite Hi in Hs. discriminate.
  - rewrite Hi in Hs. discriminate.
  - destruct (is_none (inflight s)); inversion Hs; subst. auto.
  - inversion Hs; subst. auto.
Qed.

Theorem zero_size_request_is_never_answered : forall tr s' vs,
  forallb (fun a => negb (is_srequest a)) tr = true ->
  srun zero_state tr = Some (s', vs) ->
  vs = [] /\ results s' = [(PEnv 1, zero_req)].
Proof.
  assert (G : forall tr s s' vs, size s = 0%Z -> inflight s = None ->
            forallb (fun a => negb (is_srequest a)) tr = true -> srun s tr = Some (s', vs) -> vs = [] /\ results s' = results s).
  { induction tr as [|a tr IH]; intros s s' vs Hz Hi Hp Hr; cbn in Hr.
    - inversion Hr; subst. auto.
    - cbn in Hp. apply andb_true_iff in Hp as [Ha Ht]. apply negb_true_iff in Ha.
      destruct (sstep s a) as [[s1 e1]|] eqn:E; [|discriminate].
      destruct (srun s1 tr) as [[s2 e2]|] eqn:E2; [|discriminate]. inversion Hr; subst.
      destruct (zero_stuck_step _ _ _ _ Hz Hi Ha E) as (Z1 & I1 & R1 & V1).
      destruct (IH _ _ _ Z1 I1 Ht E2) as [V2 R2]. subst. split; [reflexivity|congruence]. }
  intros tr s' vs Hp Hr. destruct (G tr zero_state s' vs eq_refl eq_refl Hp Hr) as [V R]. split; [assumption|]. rewrite R. reflexivity.
Qed.

(* the guard of svc_can_always_drain is met by every run from the initial state whose requests have a positive size *)
Example drain_guard_reachable :
  let tr := [SRequest (PEnv 1) (table_of 5 [1%N; 2%N]) 30; SPlan; SDial true; SSwap; SRequest (PEnv 2) (table_of 5 [3%N]) 12] in
  forallb pos_request tr = true /\
  exists s vs, srun (svc_init KSamples 0 0) tr = Some (s, vs) /\ pos_inv s /\ running s = true /\ results s <> [] /\ inflight s <> None.
Proof.
  cbv zeta. split; [reflexivity|]. eexists. eexists. split; [vm_compute; reflexivity|].
  split; [|split; [reflexivity|split; discriminate]].
  unfold pos_inv; cbn. repeat split; try lia; try discriminate.
Qed.
