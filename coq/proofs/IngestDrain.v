(* C01, "every request eventually gets an answer while the database keeps answering", in possibility form, for one
   worker: no reachable state is wedged.  (Before the fix of swapBuffers -- which tested svc.size == 0 instead of
   len(svc.results) == 0 -- this needed every request to be accounted with a positive size.) *)
From Coq Require Import List NArith ZArith Bool Lia Arith.
From Qryn Require Import model.Ingest proofs.IngestBase.
Import ListNotations.

Lemma dones_app a b : dones (a ++ b) = dones a ++ dones b.
Proof. induction a as [|v a IH]; cbn; [reflexivity|]. destruct v; cbn; rewrite ?IH; reflexivity. Qed.
Lemma dones_map l ok : dones (map (fun pr : pid * req => VDone (fst pr) (snd pr) ok) l) = map (fun pr => (fst pr, ok)) l.
Proof. induction l as [|x l IH]; cbn; [reflexivity|]. now rewrite IH. Qed.

Lemma srun_app s tr1 : forall s1 v1 tr2, srun s tr1 = Some (s1, v1) ->
  srun s (tr1 ++ tr2) = match srun s1 tr2 with Some (s2, v2) => Some (s2, v1 ++ v2) | None => None end.
Proof.
  revert s. induction tr1 as [|a tr1 IH]; intros s s1 v1 tr2 H; cbn in H |- *.
  - inversion H; subst. destruct (srun s1 tr2) as [[? ?]|]; reflexivity.
  - destruct (sstep s a) as [[s' e1]|]; [|discriminate]. destruct (srun s' tr1) as [[s'' e2]|] eqn:E; [|discriminate].
    inversion H; subst. rewrite (IH _ _ _ tr2 E). destruct (srun s1 tr2) as [[? ?]|]; [now rewrite app_assoc|reflexivity].
Qed.

(* from every state of a running worker the drain continuation runs, completes every pending promise (those of the
   portion that is out and those of the open batch, all with success) and leaves the worker empty *)
Theorem svc_can_always_drain s :
  running s = true ->
  exists s' vs, srun s (drain s) = Some (s', vs) /\
    results s' = [] /\ inflight s' = None /\
    dones vs = map (fun pr => (fst pr, true)) (match inflight s with Some po => p_res po | None => [] end ++ results s).
Proof.
  intros Hrun. destruct s as [k g mq c sz res inf cl pl rn]. cbn in Hrun. subst rn.
  unfold drain; cbn [inflight results client is_none].
  destruct res as [|x xs];
    (destruct inf as [[pc pr [|]]|]; [| |destruct cl]); cbn;
      (eexists; eexists; split; [reflexivity|]); cbn;
      rewrite ?app_nil_r, ?dones_app, ?dones_map; cbn; rewrite ?app_nil_r, ?dones_app, ?dones_map, ?map_app; cbn; auto.
Qed.

(* the hypothesis is met in non-trivial states: a portion out and requests in the open batch, one of them accounted
   with size 0 *)
Example drain_guard_reachable :
  let tr := [SRequest (PEnv 1) (table_of 5 [1%N; 2%N]) 30; SPlan; SDial true; SSwap; SRequest (PEnv 2) (table_of 5 [3%N]) 0] in
  exists s vs, srun (svc_init KSamples 0 0) tr = Some (s, vs) /\ running s = true /\ results s <> [] /\ inflight s <> None /\ size s = 0%Z.
Proof.
  cbv zeta. eexists. eexists. split; [vm_compute; reflexivity|].
  split; [reflexivity|]. split; [discriminate|]. split; [discriminate|reflexivity].
Qed.
