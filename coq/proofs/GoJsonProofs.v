(* Proofs about model/GoJson.v / model/AnyValue.v (property C04): json.Marshal of a map[string]string does not depend on
   the order in which the map was filled (encoding/json sorts the keys), hence the label value SanitizeValue makes of an
   OTLP key-value list with distinct keys does not depend on the order of its entries. *)
From Coq Require Import List ZArith NArith Lia String Ascii Bool Permutation Sorted.
From Qryn Require Import model.GoQuote model.GoJson model.AnyValue.
Import ListNotations.

(* ------------------------------------------------------------------ String.leb is a total order *)
Lemma ascii_compare_lt_trans a b c : Ascii.compare a b = Lt -> Ascii.compare b c = Lt -> Ascii.compare a c = Lt.
Proof. unfold Ascii.compare. rewrite !N.compare_lt_iff. apply N.lt_trans. Qed.

Lemma string_compare_lt_trans : forall a b c, String.compare a b = Lt -> String.compare b c = Lt -> String.compare a c = Lt.
Proof.
  induction a as [|x a IH]; intros [|y b] [|z c] H1 H2; cbn [String.compare] in *; try discriminate; try reflexivity.
  destruct (Ascii.compare x y) eqn:Exy; try discriminate.
  - apply Ascii.compare_eq_iff in Exy. subst y. destruct (Ascii.compare x z) eqn:Exz; try discriminate; [|reflexivity].
    now apply (IH b c).
  - destruct (Ascii.compare y z) eqn:Eyz; try discriminate.
    + apply Ascii.compare_eq_iff in Eyz. subst z. now rewrite Exy.
    + now rewrite (ascii_compare_lt_trans x y z Exy Eyz).
Qed.

Lemma leb_cases a b : String.leb a b = true <-> (String.compare a b = Lt \/ a = b).
Proof.
  unfold String.leb. destruct (String.compare a b) eqn:E; split; intros H; try reflexivity; try discriminate.
  - right. now apply String.compare_eq_iff.
  - now left.
  - destruct H as [H|H]; [discriminate|]. subst b.
    assert (String.compare a a = Eq) by (clear; induction a as [|x a IH]; cbn; [reflexivity|]; unfold Ascii.compare; now rewrite N.compare_refl).
    congruence.
Qed.

Lemma leb_trans a b c : String.leb a b = true -> String.leb b c = true -> String.leb a c = true.
Proof.
  rewrite !leb_cases. intros [H1| ->] [H2| ->]; auto. left. eapply string_compare_lt_trans; eassumption.
Qed.

(* ------------------------------------------------------------------ insertion sort by key *)
Definition key_le (x y : string * string) : Prop := String.leb (fst x) (fst y) = true.

Lemma ins_key_perm kv l : Permutation (kv :: l) (ins_key kv l).
Proof.
  induction l as [|x l IH]; cbn [ins_key]; [apply Permutation_refl|].
  destruct (String.leb (fst kv) (fst x)); [apply Permutation_refl|].
  eapply perm_trans; [apply perm_swap|]. now apply perm_skip.
Qed.

Lemma sort_keys_perm l : Permutation l (sort_keys l).
Proof.
  unfold sort_keys. induction l as [|x l IH]; cbn [fold_right]; [constructor|].
  eapply perm_trans; [apply perm_skip, IH|]. apply ins_key_perm.
Qed.

Lemma ins_key_sorted kv l : StronglySorted key_le l -> StronglySorted key_le (ins_key kv l).
Proof.
  induction l as [|x l IH]; intros Hs; cbn [ins_key]; [repeat constructor|].
  inversion Hs as [|? ? Hs' Hall]; subst.
  destruct (String.leb (fst kv) (fst x)) eqn:E.
  - constructor; [assumption|]. constructor; [exact E|].
    eapply Forall_impl; [|exact Hall]. intros y Hy. unfold key_le in *. eapply leb_trans; eassumption.
  - constructor; [now apply IH|].
    assert (Hx : key_le x kv).
    { unfold key_le. destruct (String.leb_total (fst x) (fst kv)) as [H|H]; [assumption|congruence]. }
    apply (Permutation_Forall (ins_key_perm kv l)). constructor; assumption.
Qed.

Lemma sort_keys_sorted l : StronglySorted key_le (sort_keys l).
Proof. unfold sort_keys. induction l as [|x l IH]; cbn [fold_right]; [constructor|now apply ins_key_sorted]. Qed.

(* two sorted lists with the same entries and pairwise distinct keys are equal *)
Lemma in_key_unique (l : list (string * string)) x y :
  NoDup (map fst l) -> In x l -> In y l -> fst x = fst y -> x = y.
Proof.
  induction l as [|z l IH]; intros Hnd Hx Hy E; [contradiction|].
  cbn [map] in Hnd. inversion Hnd as [|? ? Hn Hnd']; subst.
  destruct Hx as [->|Hx], Hy as [->|Hy]; [reflexivity| | |now apply IH].
  - exfalso. apply Hn. rewrite E. now apply in_map.
  - exfalso. apply Hn. rewrite <- E. now apply in_map.
Qed.

Lemma sorted_unique : forall l1 l2,
  StronglySorted key_le l1 -> StronglySorted key_le l2 -> Permutation l1 l2 -> NoDup (map fst l1) -> l1 = l2.
Proof.
  induction l1 as [|x l1 IH]; intros l2 S1 S2 Hp Hnd.
  - apply Permutation_nil in Hp. now subst.
  - destruct l2 as [|y l2]; [apply Permutation_sym, Permutation_nil in Hp; discriminate|].
    inversion S1 as [|? ? S1' A1]; subst. inversion S2 as [|? ? S2' A2]; subst.
    assert (Hxy : x = y).
    { assert (Hx2 : In x (y :: l2)) by (eapply Permutation_in; [exact Hp|now left]).
      assert (Hy1 : In y (x :: l1)) by (eapply Permutation_in; [apply Permutation_sym; exact Hp|now left]).
      destruct Hx2 as [->|Hx2]; [reflexivity|]. destruct Hy1 as [->|Hy1]; [reflexivity|].
      rewrite Forall_forall in A1, A2. pose proof (A1 y Hy1) as L1. pose proof (A2 x Hx2) as L2. unfold key_le in *.
      apply (in_key_unique (x :: l1)); [assumption|now left|now right|]. now apply String.leb_antisym. }
    subst y. f_equal. apply IH; [assumption|assumption|eapply Permutation_cons_inv; exact Hp|].
    cbn [map] in Hnd. now inversion Hnd.
Qed.

Theorem sort_keys_order_independent l1 l2 :
  Permutation l1 l2 -> NoDup (map fst l1) -> sort_keys l1 = sort_keys l2.
Proof.
  intros Hp Hnd. apply sorted_unique; try apply sort_keys_sorted.
  - eapply perm_trans; [apply Permutation_sym, sort_keys_perm|]. eapply perm_trans; [exact Hp|apply sort_keys_perm].
  - eapply Permutation_NoDup; [|exact Hnd]. apply Permutation_map, sort_keys_perm.
Qed.

Theorem gj_map_order_independent m1 m2 : Permutation m1 m2 -> NoDup (map fst m1) -> gj_map m1 = gj_map m2.
Proof. intros Hp Hnd. unfold gj_map. now rewrite (sort_keys_order_independent m1 m2 Hp Hnd). Qed.

(* ------------------------------------------------------------------ the Go map filled from a list with distinct keys holds
   exactly the list *)
Lemma mset_fresh k v m : ~ In k (map fst m) -> mset k v m = m ++ [(k, v)].
Proof.
  induction m as [|[k' v'] m IH]; intros Hn; cbn [mset app]; [reflexivity|].
  destruct (String.eqb k k') eqn:E.
  - apply String.eqb_eq in E. subst k'. exfalso. apply Hn. now left.
  - f_equal. apply IH. intros H. apply Hn. now right.
Qed.

Lemma mfill_distinct l : NoDup (map fst l) -> mfill l = l.
Proof.
  unfold mfill. assert (G : forall l m, NoDup (map fst (m ++ l)) -> fold_left (fun m kv => mset (fst kv) (snd kv) m) l m = m ++ l).
  { induction l0 as [|[k v] l0 IH]; intros m H; cbn [fold_left]; [now rewrite app_nil_r|].
    cbn [fst snd]. rewrite mset_fresh.
    - rewrite IH; [now rewrite <- app_assoc|]. now rewrite <- app_assoc.
    - rewrite map_app in H. cbn [map fst] in H. apply NoDup_remove_2 in H. intros Hin. apply H. apply in_or_app. now left. }
  intros H. apply (G l []). exact H.
Qed.

(* SanitizeValue of a key-value list whose keys stay distinct after SanitizeKey does not depend on the order of the entries *)
Theorem otlp_kvlist_order_independent e1 e2 :
  Permutation e1 e2 -> NoDup (map (fun kv => otlp_key (fst kv)) e1) ->
  otlp_value (OKv e1) = otlp_value (OKv e2).
Proof.
  intros Hp Hnd. cbn [otlp_value].
  set (f := fun kv : string * oval => match kv with (k, x) => (otlp_key k, otlp_value x) end).
  assert (Hk : forall e, map fst (map f e) = map (fun kv => otlp_key (fst kv)) e).
  { intros e. rewrite map_map. apply map_ext. intros [k x]. reflexivity. }
  assert (Hnd1 : NoDup (map fst (map f e1))) by now rewrite Hk.
  assert (Hnd2 : NoDup (map fst (map f e2))).
  { rewrite Hk. eapply Permutation_NoDup; [|exact Hnd]. now apply Permutation_map. }
  rewrite (mfill_distinct _ Hnd1), (mfill_distinct _ Hnd2).
  apply gj_map_order_independent; [now apply Permutation_map|exact Hnd1].
Qed.

Example otlp_kvlist_order_example :
  NoDup (map (fun kv : string * oval => otlp_key (fst kv)) [("b.c"%string, OInt 1); ("a"%string, OStr "x")]) /\
  otlp_value (OKv [("b.c"%string, OInt 1); ("a"%string, OStr "x")]) = "{""a"":""x"",""b_c"":""1""}"%string /\
  otlp_value (OKv [("a"%string, OStr "x"); ("b.c"%string, OInt 1)]) = "{""a"":""x"",""b_c"":""1""}"%string.
Proof.
  split; [|split; vm_compute; reflexivity]. vm_compute. repeat constructor; cbn; intuition discriminate.
Qed.
