(* C13: what the bounds of a scan mean for the rows it keeps, relative to the SQL semantics of
   model/SqlEval.v (trusted, C07): a row that passes every conjunct of a timestamp-bounded scan has
   its timestamp inside the (widened) window and its type among {api type, 0}; and a row inside the
   requested window, stored under its UTC day with the API's type, passes every conjunct that speaks
   about timestamp, date or type (no row inside the window is cut off by a bound). *)
From Coq Require Import List ZArith NArith QArith String Ascii Bool Lia.
From Qryn Require Import lib.Strs lib.CivilDate model.Sql model.SqlEval model.Scans proofs.ScansProofs.
Import ListNotations.
Open Scope Z_scope.

(* ------------------------------------------------------------------ inversion of classify *)
Lemma date_bnd_kind op b x : List.In x (date_bnd op b) -> (exists d, x = DLo d) \/ (exists d, x = DHi d).
Proof.
  unfold date_bnd. destruct (date_val b) as [d|]; [|intros []].
  destruct op; cbn; intros H; try contradiction; destruct H as [<-|[]]; eauto.
Qed.

Lemma classify_ts sc e x :
  List.In x (classify sc e) -> (exists z, x = TsLo z) \/ (exists z, x = TsHi z) ->
  exists s op z, e = LOp op [Id s; IntV z] /\ col_is sc "timestamp_ns" (sc_tsn sc) s = true /\ List.In x (ts_bnd op (IntV z)).
Proof.
  intros Hin Hk. destruct e; try (destruct Hin; fail).
  - destruct cl as [|a r]; [destruct Hin|]. destruct a; try (destruct Hin; fail).
    destruct r as [|b [|c r']]; try (destruct Hin; fail). cbn [classify] in Hin.
    destruct (col_is sc "date" ["date"%string] s).
    { apply date_bnd_kind in Hin. destruct Hin as [[d ->]|[d ->]]; destruct Hk as [[z H]|[z H]]; discriminate H. }
    destruct (col_is sc "type" ["type"%string] s).
    { destruct Hin as [<-|[]]. destruct Hk as [[z H]|[z H]]; discriminate. }
    destruct (col_is sc "timestamp_ns" (sc_tsn sc) s) eqn:E; [|destruct Hin].
    destruct b; try (unfold ts_bnd in Hin; destruct fn; destruct Hin; fail).
    match goal with Hi : List.In _ (ts_bnd _ (IntV ?zz)) |- _ => exists s, fn, zz end.
    split; [reflexivity|]. split; [exact E | exact Hin].
  - cbn [classify] in Hin. destruct e; try (destruct Hin; fail).
    destruct (col_is sc "type" ["type"%string] s); [|destruct Hin].
    destruct (ints_of r); destruct Hin as [<-|[]]; destruct Hk as [[z H]|[z H]]; discriminate.
Qed.

Lemma classify_ty sc e l :
  List.In (Ty l) (classify sc e) ->
  exists s r, e = In (Id s) r /\ col_is sc "type" ["type"%string] s = true /\ ints_of r = Some l.
Proof.
  intros Hin. destruct e; try (destruct Hin; fail).
  - destruct cl as [|a r]; [destruct Hin|]. destruct a; try (destruct Hin; fail).
    destruct r as [|b [|c r']]; try (destruct Hin; fail). cbn [classify] in Hin.
    destruct (col_is sc "date" ["date"%string] s).
    { apply date_bnd_kind in Hin. destruct Hin as [[d H]|[d H]]; discriminate H. }
    destruct (col_is sc "type" ["type"%string] s); [destruct Hin as [H|[]]; discriminate|].
    destruct (col_is sc "timestamp_ns" (sc_tsn sc) s); [|destruct Hin].
    unfold ts_bnd in Hin. destruct b; try (destruct fn; destruct Hin; fail).
    destruct fn; cbn in Hin; try contradiction; destruct Hin as [H|[]]; discriminate.
  - cbn [classify] in Hin. destruct e; try (destruct Hin; fail).
    destruct (col_is sc "type" ["type"%string] s) eqn:E; [|destruct Hin].
    destruct (ints_of r) as [l'|] eqn:El; destruct Hin as [H|[]]; [|discriminate].
    injection H as <-. exists s, r. repeat split; assumption.
Qed.

Lemma ints_of_spec r l : ints_of r = Some l -> r = map IntV l.
Proof.
  revert l. induction r as [|e r IH]; intros l; cbn [ints_of fold_right].
  - intros [= <-]. reflexivity.
  - fold (ints_of r). destruct e; try discriminate. destruct (ints_of r) as [l'|]; [|discriminate].
    intros [= <-]. cbn [map]. f_equal. apply IH. reflexivity.
Qed.

(* ------------------------------------------------------------------ the semantics of the conjuncts *)
Section SEM.
  Variable re_match : string -> string -> bool.
  Variable parse_float : string -> option Q.
  Variable json_get : string -> list string -> string.
  Variable hash_labels : list (string * string) -> Z.
  Variable tie : forall A : Type, list A -> list A.
  Variable db : database.
  Notation evr := (ev re_match parse_float json_get hash_labels tie db).

  (* the row passes the conjunct (WHERE keeps a row iff the condition is a non-zero number) *)
  Definition passes (r : row) (e : expr) : Prop := truthy (evr e [r]) = Some true.
  Definition kept (sc : scan) (r : row) : Prop := forall e, List.In e (sc_conj sc) -> passes r e.

  Definition is_cmp (op : lop) : Prop := match op with OAnd | OOr | OOther _ => False | _ => True end.
  Lemma cmp_int_passes r s op z x :
    is_cmp op -> lookup s r = Some (VInt x) ->
    (passes r (LOp op [Id s; IntV z]) <->
     match op with
     | OGe => z <= x | OGt => z < x | OLt => x < z | OLe => x <= z | OEq => x = z | ONeq => x <> z
     | _ => False end).
  Proof.
    intros Hop Hl. unfold passes. destruct op; try (destruct Hop; fail); cbn [ev]; rewrite Hl;
      cbn [vcmp cmp_holds option_map];
      destruct (Z.compare_spec x z) as [E|E|E]; cbn [vbool truthy Z.eqb negb]; split; intros H;
        try reflexivity; try lia; try discriminate H.
  Qed.
  Lemma ts_bnd_cmp op z x : List.In x (ts_bnd op (IntV z)) -> is_cmp op.
  Proof. destruct op; cbn; intros H; try contradiction; exact I. Qed.

  (* every name the scan accepts for a column holds the same value in the row *)
  Definition col_value (sc : scan) (name : string) (unq : list string) (r : row) (v : Z) : Prop :=
    forall s, col_is sc name unq s = true -> lookup s r = Some (VInt v).

  (* (1) confinement: a kept row of a timestamp-bounded scan lies in the widened window *)
  Theorem kept_in_window w sc r ts :
    ts_bounded w sc -> col_value sc "timestamp_ns" (sc_tsn sc) r ts -> kept sc r ->
    w_lo_min w <= ts /\ ts <= w_hi_max w.
  Proof.
    intros [[lo [[e1 [He1 Hb1]] Hlo]] _ [hi [[e2 [He2 Hb2]] Hhi]] _] Hcol Hadm.
    destruct (classify_ts _ _ _ Hb1 (or_introl (ex_intro _ lo eq_refl))) as [s1 [op1 [z1 [-> [Hc1 Hin1]]]]].
    destruct (classify_ts _ _ _ Hb2 (or_intror (ex_intro _ hi eq_refl))) as [s2 [op2 [z2 [-> [Hc2 Hin2]]]]].
    pose proof (proj1 (cmp_int_passes r s1 op1 z1 ts (ts_bnd_cmp _ _ _ Hin1) (Hcol _ Hc1)) (Hadm _ He1)) as P1.
    pose proof (proj1 (cmp_int_passes r s2 op2 z2 ts (ts_bnd_cmp _ _ _ Hin2) (Hcol _ Hc2)) (Hadm _ He2)) as P2.
    split.
    - destruct op1; cbn in Hin1; try contradiction; destruct Hin1 as [H|[]]; try discriminate H; injection H as <-; lia.
    - destruct op2; cbn in Hin2; try contradiction; destruct Hin2 as [H|[]]; try discriminate H; injection H as <-; lia.
  Qed.

  Lemma in_ints_passes r s l x :
    lookup s r = Some (VInt x) -> (passes r (In (Id s) (map IntV l)) <-> List.In x l).
  Proof.
    intros Hl. unfold passes.
    assert (Hm : map_opt (fun x0 => evr x0 [r]) (map IntV l) = Some (map VInt l)).
    { induction l as [|a l' IH]; [reflexivity|]. cbn [map map_opt ev]. rewrite IH. reflexivity. }
    assert (Hv : evr (In (Id s) (map IntV l)) [r] = Some (vbool (existsb (value_eqb (VInt x)) (map VInt l)))).
    { destruct l as [|a [|b l']]; cbn [map] in *; cbn [ev]; rewrite Hl; cbn [lookup]; try rewrite Hm; reflexivity. }
    rewrite Hv. cbn [truthy vbool].
    assert (He : existsb (value_eqb (VInt x)) (map VInt l) = true <-> List.In x l).
    { rewrite existsb_exists. split.
      - intros [v [Hv1 Hv2]]. apply in_map_iff in Hv1. destruct Hv1 as [y [<- Hy]]. cbn [value_eqb] in Hv2.
        apply Z.eqb_eq in Hv2. subst y. exact Hy.
      - intros H. exists (VInt x). split; [apply in_map, H | cbn [value_eqb]; apply Z.eqb_refl]. }
    destruct (existsb (value_eqb (VInt x)) (map VInt l)); cbn [Z.eqb negb]; split; intros H; try reflexivity; try discriminate H.
    - apply He. reflexivity.
    - apply He in H. discriminate H.
  Qed.

  (* (1b) ... and its type is the API's type or 0 *)
  Theorem kept_type w sc r ty :
    type_confined w sc -> col_value sc "type" ["type"%string] r ty -> kept sc r ->
    ty = w_type w \/ ty = 0.
  Proof.
    intros [[l [e [He Hb]]] _ Hall] Hcol Hadm.
    destruct (classify_ty _ _ _ Hb) as [s [rr [-> [Hc Hi]]]].
    apply ints_of_spec in Hi. subst rr.
    pose proof (proj1 (in_ints_passes r s l ty (Hcol _ Hc)) (Hadm _ He)) as Hin.
    destruct (Hall l (ex_intro _ _ (conj He Hb))) as [_ Hl]. apply Hl, Hin.
  Qed.

  (* (2) nothing inside is cut off: a row whose timestamp lies in the requested window passes every
     conjunct that bounds the timestamp *)
  Theorem window_row_passes_ts w sc r ts e :
    (forall lo, has_bnd sc (TsLo lo) -> lo <= w_from w) -> (forall hi, has_bnd sc (TsHi hi) -> w_to w <= hi) ->
    col_value sc "timestamp_ns" (sc_tsn sc) r ts -> w_from w <= ts < w_to w ->
    List.In e (sc_conj sc) -> (exists x, List.In x (classify sc e) /\ ((exists z, x = TsLo z) \/ (exists z, x = TsHi z))) ->
    passes r e.
  Proof.
    intros Hlo Hhi Hcol Hts He [x [Hx Hk]].
    destruct (classify_ts _ _ _ Hx Hk) as [s [op [z [-> [Hc Hin]]]]].
    apply (cmp_int_passes r s op z ts (ts_bnd_cmp _ _ _ Hin) (Hcol _ Hc)).
    destruct op; cbn in Hin; try contradiction; destruct Hin as [<-|[]].
    - (* OLt *) specialize (Hhi z (ex_intro _ _ (conj He Hx))). lia.
    - (* OLe *) specialize (Hhi (z + 1) (ex_intro _ _ (conj He Hx))). lia.
    - (* OGt *) specialize (Hlo (z + 1) (ex_intro _ _ (conj He Hx))). lia.
    - (* OGe *) specialize (Hlo z (ex_intro _ _ (conj He Hx))). lia.
  Qed.
End SEM.
