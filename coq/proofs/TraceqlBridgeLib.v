(* Property C11, bridge lemmas, part 0: list facts about the evaluator's helpers (all_some, keep_true,
   group_rows) that the per-statement bridge lemmas rest on.  Nothing here mentions SQL. *)
From Coq Require Import List ZArith QArith String Ascii Bool Lia Permutation.
From Qryn Require Import model.TqSql model.Traceql model.TraceqlPlan model.TraceqlSem.
Import ListNotations.
Open Scope string_scope.
Open Scope list_scope.

(* ---------- all_some ---------- *)
Lemma all_some_map_Some {A B} (h : A -> B) l : all_some (map (fun x => Some (h x)) l) = Some (map h l).
Proof. induction l as [|x l IH]; [reflexivity|]. cbn [map all_some]. now rewrite IH. Qed.

Lemma all_some_map_ext {A B} (F : A -> option B) (h : A -> B) l :
  (forall x, In x l -> F x = Some (h x)) -> all_some (map F l) = Some (map h l).
Proof.
  induction l as [|x l IH]; intros H; [reflexivity|]. cbn [map all_some].
  rewrite (H x (or_introl eq_refl)), IH; [reflexivity|]. intros y Hy. apply H. now right.
Qed.

(* ---------- keep_true ---------- *)
Lemma truth_vbool' b : truth (vbool b) = Some (Some b).
Proof. destruct b; reflexivity. Qed.

Lemma keep_true_filter {A} (cond : A -> option value) (p : A -> bool) l :
  (forall x, In x l -> cond x = Some (vbool (p x))) -> keep_true cond l = Some (filter p l).
Proof.
  intros H. unfold keep_true.
  rewrite (all_some_map_ext _ (fun x => (x, Some (p x))) l).
  - f_equal. clear H. induction l as [|x l IH]; [reflexivity|]. cbn [map filter fst snd].
    destruct (p x); cbn [map fst]; now rewrite IH.
  - intros x Hx. now rewrite (H x Hx), truth_vbool'.
Qed.

Lemma keep_true_map {A B} (f : A -> B) (cond : B -> option value) (p : A -> bool) l :
  (forall x, In x l -> cond (f x) = Some (vbool (p x))) -> keep_true cond (map f l) = Some (map f (filter p l)).
Proof.
  intros H. unfold keep_true. rewrite map_map.
  rewrite (all_some_map_ext _ (fun x => (f x, Some (p x))) l).
  - f_equal. clear H. induction l as [|x l IH]; [reflexivity|]. cbn [map filter fst snd].
    destruct (p x); cbn [map fst]; now rewrite IH.
  - intros x Hx. now rewrite (H x Hx), truth_vbool'.
Qed.

Lemma filter_map_comm {A B} (f : A -> B) (p : A -> bool) (q : B -> bool) l :
  (forall x, q (f x) = p x) -> filter q (map f l) = map f (filter p l).
Proof.
  intros H. induction l as [|x l IH]; [reflexivity|]. cbn [map filter]. rewrite H.
  destruct (p x); cbn [map]; now rewrite IH.
Qed.

(* ---------- group_rows commutes with an injective-on-keys map ---------- *)
Lemma ins_group_map {A B} (f : A -> B) (eqA : A -> A -> bool) (eqB : B -> B -> bool) :
  (forall a b, eqB (f a) (f b) = eqA a b) ->
  forall r gs, ins_group eqB (f r) (map (map f) gs) = map (map f) (ins_group eqA r gs).
Proof.
  intros H r gs. induction gs as [|g rest IH]; [reflexivity|]. cbn [map ins_group].
  destruct g as [|r0 g']; cbn [map]; [exact IH|].
  rewrite H. destruct (eqA r0 r); cbn [map].
  - now rewrite map_app.
  - now rewrite IH.
Qed.

Lemma group_rows_map {A B} (f : A -> B) (eqA : A -> A -> bool) (eqB : B -> B -> bool) :
  (forall a b, eqB (f a) (f b) = eqA a b) ->
  forall l, group_rows eqB (map f l) = map (map f) (group_rows eqA l).
Proof.
  intros H l. unfold group_rows.
  change (@nil (list B)) with (map (map f) (@nil (list A))). generalize (@nil (list A)) as gs.
  induction l as [|x l IH]; intros gs; [reflexivity|]. cbn [map fold_left].
  rewrite (ins_group_map f eqA eqB H). apply IH.
Qed.

Lemma NoDup_app_insert {A} (l1 l2 : list A) a : NoDup (l1 ++ l2) -> ~ In a (l1 ++ l2) -> NoDup (l1 ++ a :: l2).
Proof.
  induction l1 as [|x l1 IH]; cbn [app]; intros Hnd Hn; [now constructor|].
  inversion Hnd as [|? ? Hx Hnd']; subst. constructor.
  - intros Hin. apply in_app_or in Hin. destruct Hin as [Hin|[<-|Hin]].
    + apply Hx. apply in_or_app. now left.
    + apply Hn. now left.
    + apply Hx. apply in_or_app. now right.
  - apply IH; [assumption|]. intros Hin. apply Hn. now right.
Qed.
Lemma NoDup_app_insert_end {A} (l : list A) a : NoDup l -> ~ In a l -> NoDup (l ++ [a]).
Proof. intros Hnd Hn. apply NoDup_app_insert; now rewrite app_nil_r. Qed.

(* ---------- what the groups are, for an equivalence ---------- *)
Section GROUPS.
  Context {A : Type} (eq : A -> A -> bool).
  Hypothesis eq_refl' : forall a, eq a a = true.
  Hypothesis eq_sym : forall a b, eq a b = eq b a.
  Hypothesis eq_trans : forall a b c, eq a b = true -> eq b c = true -> eq a c = true.

  Lemma eq_class a b x : eq a b = true -> eq a x = eq b x.
  Proof.
    intros H. destruct (eq b x) eqn:E.
    - eapply eq_trans; eassumption.
    - destruct (eq a x) eqn:E2; [|reflexivity]. rewrite <- E. symmetry. eapply eq_trans; [|exact E2]. now rewrite eq_sym.
  Qed.

  (* the invariant of the fold: every group is a full, non-empty class of the prefix, classes are distinct
     and cover the prefix *)
  Definition groups_of (pre : list A) (gs : list (list A)) : Prop :=
    (forall g, In g gs -> exists r0 g', g = r0 :: g' /\ g = filter (eq r0) pre)
    /\ (forall x, In x pre -> exists g r0 g', In g gs /\ g = r0 :: g' /\ eq r0 x = true)
    /\ (forall g1 g2 r1 r2 t1 t2, In g1 gs -> In g2 gs -> g1 = r1 :: t1 -> g2 = r2 :: t2 -> eq r1 r2 = true -> g1 = g2)
    /\ NoDup gs.

  Lemma filter_app_one (p : A -> bool) l x : filter p (l ++ [x]) = filter p l ++ (if p x then [x] else []).
  Proof. rewrite filter_app. cbn [filter]. destruct (p x); reflexivity. Qed.

  Lemma ins_group_spec x : forall gs,
    (forall g, In g gs -> g <> []) ->
    (* either some group has a head equivalent to x: x is appended to the first such group *)
    (exists gs1 r0 g' gs2, gs = gs1 ++ (r0 :: g') :: gs2 /\ eq r0 x = true
                           /\ (forall g r t, In g gs1 -> g = r :: t -> eq r x = false)
                           /\ ins_group eq x gs = gs1 ++ ((r0 :: g') ++ [x]) :: gs2)
    \/ ((forall g r t, In g gs -> g = r :: t -> eq r x = false) /\ ins_group eq x gs = gs ++ [[x]]).
  Proof.
    induction gs as [|g rest IH]; intros Hne.
    - right. split; [intros g r t []|reflexivity].
    - destruct g as [|r0 g']; [exfalso; apply (Hne [] (or_introl eq_refl)); reflexivity|].
      cbn [ins_group]. destruct (eq r0 x) eqn:E.
      + left. exists [], r0, g', rest. repeat split; try assumption. intros g r t [].
      + destruct (IH (fun g Hg => Hne g (or_intror Hg))) as [[gs1 [r1 [g1 [gs2 [-> [E1 [Hno Hins]]]]]]]|[Hno Hins]].
        * left. exists ((r0 :: g') :: gs1), r1, g1, gs2. repeat split; try assumption.
          -- intros g r t [<-|Hg] Hgr; [injection Hgr as <- _; assumption|eapply Hno; eassumption].
          -- cbn [app]. now rewrite Hins.
        * right. split; [|cbn [app]; now rewrite Hins].
          intros g r t [<-|Hg] Hgr; [injection Hgr as <- _; assumption|eapply Hno; eassumption].
  Qed.

  Lemma groups_step pre gs x : groups_of pre gs -> groups_of (pre ++ [x]) (ins_group eq x gs).
  Proof.
    intros [Hcls [Hcov [Hdis Hnd]]].
    assert (Hne : forall g, In g gs -> g <> []) by (intros g Hg; destruct (Hcls g Hg) as [r0 [g' [-> _]]]; discriminate).
    destruct (ins_group_spec x gs Hne) as [[gs1 [r0 [g' [gs2 [Egs [E0 [Hno Hins]]]]]]]|[Hno Hins]]; rewrite Hins; clear Hins.
    - (* x joins the class of r0 *)
      subst gs.
      assert (Hin0 : In (r0 :: g') (gs1 ++ (r0 :: g') :: gs2)) by (apply in_or_app; right; now left).
      assert (Hother : forall g r t, In g (gs1 ++ gs2) -> g = r :: t -> eq r x = false).
      { intros g r t Hg Hgr. apply in_app_or in Hg. destruct Hg as [Hg|Hg]; [eapply Hno; eassumption|].
        destruct (eq r x) eqn:E; [|reflexivity]. exfalso.
        assert (Hg' : In g (gs1 ++ (r0 :: g') :: gs2)) by (apply in_or_app; right; now right).
        assert (Heq : eq r r0 = true) by (eapply eq_trans; [exact E|now rewrite eq_sym]).
        pose proof (Hdis g (r0 :: g') r r0 t g' Hg' Hin0 Hgr eq_refl Heq) as Hsame.
        apply NoDup_remove_2 in Hnd. apply Hnd. rewrite <- Hsame. apply in_or_app. now right. }
      repeat split.
      + intros g Hg. apply in_app_or in Hg. destruct Hg as [Hg|[<-|Hg]].
        * destruct (Hcls g (in_or_app _ _ _ (or_introl Hg))) as [r [t [-> Hf]]]. exists r, t. split; [reflexivity|].
          rewrite filter_app_one, (Hno _ r t Hg eq_refl), app_nil_r. exact Hf.
        * destruct (Hcls _ Hin0) as [r [t [Hrt Hf]]]. injection Hrt as <- <-. exists r0, (g' ++ [x]). split; [reflexivity|].
          rewrite filter_app_one, E0. cbn [app]. rewrite <- Hf. reflexivity.
        * assert (Hg' : In g (gs1 ++ (r0 :: g') :: gs2)) by (apply in_or_app; right; now right).
          destruct (Hcls g Hg') as [r [t [-> Hf]]]. exists r, t. split; [reflexivity|].
          rewrite filter_app_one, (Hother _ r t (in_or_app _ _ _ (or_intror Hg)) eq_refl), app_nil_r. exact Hf.
      + intros y Hy. apply in_app_or in Hy. destruct Hy as [Hy|[<-|[]]].
        * destruct (Hcov y Hy) as [g [r [t [Hg [-> Er]]]]]. apply in_app_or in Hg. destruct Hg as [Hg|[Hg|Hg]].
          -- exists (r :: t), r, t. repeat split; try assumption. apply in_or_app. now left.
          -- injection Hg as <- <-. exists ((r0 :: g') ++ [x]), r0, (g' ++ [x]). repeat split; try assumption. apply in_or_app. right. now left.
          -- exists (r :: t), r, t. repeat split; try assumption. apply in_or_app. right. now right.
        * exists ((r0 :: g') ++ [x]), r0, (g' ++ [x]). repeat split; try assumption. apply in_or_app. right. now left.
      + intros g1 g2 r1 r2 t1 t2 H1 H2 E1 E2 E12.
        assert (Hnot0 : ~ In (r0 :: g') (gs1 ++ gs2)) by (apply NoDup_remove_2 in Hnd; exact Hnd).
        assert (Hcase : forall g, In g (gs1 ++ ((r0 :: g') ++ [x]) :: gs2) -> In g (gs1 ++ gs2) \/ g = (r0 :: g') ++ [x]).
        { intros g Hg. apply in_app_or in Hg. destruct Hg as [Hg|[<-|Hg]]; [left; apply in_or_app; now left|now right|left; apply in_or_app; now right]. }
        assert (Hold : forall g, In g (gs1 ++ gs2) -> In g (gs1 ++ (r0 :: g') :: gs2)).
        { intros g Hg. apply in_app_or in Hg. apply in_or_app. destruct Hg as [Hg|Hg]; [now left|right; now right]. }
        destruct (Hcase g1 H1) as [O1|N1], (Hcase g2 H2) as [O2|N2].
        * eapply Hdis; [apply Hold; exact O1|apply Hold; exact O2|exact E1|exact E2|exact E12].
        * exfalso. rewrite N2 in E2. cbn [app] in E2. injection E2 as <- _.
          apply Hnot0. rewrite <- (Hdis g1 (r0 :: g') r1 r0 t1 g' (Hold _ O1) Hin0 E1 eq_refl E12). exact O1.
        * exfalso. rewrite N1 in E1. cbn [app] in E1. injection E1 as <- _.
          assert (E21 : eq r2 r0 = true) by (now rewrite eq_sym).
          apply Hnot0. rewrite <- (Hdis g2 (r0 :: g') r2 r0 t2 g' (Hold _ O2) Hin0 E2 eq_refl E21). exact O2.
        * congruence.
      + (* NoDup *)
        apply NoDup_remove in Hnd. destruct Hnd as [Hnd Hnot].
        apply NoDup_app_insert; [exact Hnd|].
        intros Hin. apply in_app_or in Hin.
        assert (Hx : forall gs', In ((r0 :: g') ++ [x]) gs' -> (forall g, In g gs' -> In g (gs1 ++ (r0 :: g') :: gs2)) -> False).
        { intros gs' Hin' Hsub. destruct (Hcls _ (Hsub _ Hin')) as [r [t [Hrt Hf]]].
          cbn [app] in Hrt. injection Hrt as <- <-.
          (* the group r0 :: g' ++ [x] would be filter (eq r0) pre, as is r0 :: g' *)
          destruct (Hcls _ Hin0) as [r' [t' [Hrt' Hf']]]. injection Hrt' as <- <-.
          cbn [app] in Hf. rewrite <- Hf' in Hf. assert (L : List.length (r0 :: g' ++ [x]) = List.length (r0 :: g')) by (f_equal; exact Hf).
          cbn in L. rewrite app_length in L. cbn in L. lia. }
        destruct Hin as [Hin|Hin].
        * apply (Hx gs1 Hin). intros g Hg. apply in_or_app. now left.
        * apply (Hx gs2 Hin). intros g Hg. apply in_or_app. right. now right.
    - (* x opens a new class *)
      repeat split.
      + intros g Hg. apply in_app_or in Hg. destruct Hg as [Hg|[<-|[]]].
        * destruct (Hcls g Hg) as [r [t [-> Hf]]]. exists r, t. split; [reflexivity|].
          rewrite filter_app_one, (Hno _ r t Hg eq_refl), app_nil_r. exact Hf.
        * exists x, []. split; [reflexivity|]. rewrite filter_app_one, eq_refl'.
          assert (Hnone : filter (eq x) pre = []).
          { destruct (filter (eq x) pre) as [|y l] eqn:Ef; [reflexivity|]. exfalso.
            assert (Hy : In y (filter (eq x) pre)) by (rewrite Ef; now left). apply filter_In in Hy. destruct Hy as [Hy Exy].
            destruct (Hcov y Hy) as [g [r [t [Hg [-> Er]]]]].
            assert (Erx : eq r x = true) by (eapply eq_trans; [exact Er|now rewrite eq_sym]).
            rewrite (Hno _ r t Hg eq_refl) in Erx. discriminate. }
          now rewrite Hnone.
      + intros y Hy. apply in_app_or in Hy. destruct Hy as [Hy|[<-|[]]].
        * destruct (Hcov y Hy) as [g [r [t [Hg [-> Er]]]]]. exists (r :: t), r, t. repeat split; try assumption. apply in_or_app. now left.
        * exists [x], x, []. repeat split; [apply in_or_app; right; now left|apply eq_refl'].
      + intros g1 g2 r1 r2 t1 t2 H1 H2 E1 E2 E12.
        apply in_app_or in H1. apply in_app_or in H2.
        destruct H1 as [H1|[<-|[]]], H2 as [H2|[<-|[]]].
        * eapply Hdis; eassumption.
        * exfalso. injection E2 as <- <-. subst g1. rewrite (Hno _ r1 t1 H1 eq_refl) in E12. discriminate.
        * exfalso. injection E1 as <- <-. subst g2. rewrite eq_sym, (Hno _ r2 t2 H2 eq_refl) in E12. discriminate.
        * reflexivity.
      + apply NoDup_app_insert_end; [exact Hnd|].
        intros Hin. destruct (Hcls _ Hin) as [r [t [Hrt _]]]. injection Hrt as <- <-.
        pose proof (Hno _ x [] Hin eq_refl) as Hf. rewrite eq_refl' in Hf. discriminate.
  Qed.

  Lemma groups_fold l : forall pre gs, groups_of pre gs -> groups_of (pre ++ l) (fold_left (fun gs r => ins_group eq r gs) l gs).
  Proof.
    induction l as [|x l IH]; intros pre gs H; cbn [fold_left]; [now rewrite app_nil_r|].
    replace (pre ++ x :: l) with ((pre ++ [x]) ++ l) by (rewrite <- app_assoc; reflexivity).
    apply IH. now apply groups_step.
  Qed.

  Theorem group_rows_spec l : groups_of l (group_rows eq l).
  Proof.
    unfold group_rows. change l with ([] ++ l) at 1. apply groups_fold.
    split; [intros g []|]. split; [intros x []|]. split; [intros g1 g2 r1 r2 t1 t2 []|constructor].
  Qed.

  (* the representatives chosen by nodup_by *)
  Lemma nodup_by_spec l : forall seen,
    (forall r, In r (nodup_by eq l seen) -> In r l /\ existsb (eq r) seen = false)
    /\ (forall x, In x l -> existsb (eq x) seen = true \/ exists r, In r (nodup_by eq l seen) /\ eq r x = true).
  Proof.
    induction l as [|y l IH]; intros seen; cbn [nodup_by].
    - split; [intros r []|intros x []].
    - destruct (existsb (eq y) seen) eqn:Ey.
      + destruct (IH seen) as [H1 H2]. split.
        * intros r Hr. destruct (H1 r Hr). split; [now right|assumption].
        * intros x [<-|Hx]; [now left|now apply H2].
      + destruct (IH (y :: seen)) as [H1 H2]. split.
        * intros r [<-|Hr]; [split; [now left|assumption]|].
          destruct (H1 r Hr) as [Hin Hex]. split; [now right|]. cbn [existsb] in Hex. apply orb_false_iff in Hex. tauto.
        * intros x [<-|Hx]; [right; exists y; split; [now left|apply eq_refl']|].
          destruct (H2 x Hx) as [Hs|[r [Hr Er]]].
          -- cbn [existsb] in Hs. apply orb_true_iff in Hs. destruct Hs as [Hs|Hs]; [|now left].
             right. exists y. split; [now left|now rewrite eq_sym].
          -- right. exists r. split; [now right|assumption].
  Qed.

  Lemma filter_class a b l : eq a b = true -> filter (eq a) l = filter (eq b) l.
  Proof. intros H. apply filter_ext. intros x. now apply eq_class. Qed.

  (* the groups are exactly the classes of the representatives *)
  Theorem groups_are_classes l g :
    In g (group_rows eq l) <-> exists rep, In rep (nodup_by eq l []) /\ g = filter (eq rep) l.
  Proof.
    destruct (group_rows_spec l) as [Hcls [Hcov _]]. destruct (nodup_by_spec l []) as [N1 N2]. split.
    - intros Hg. destruct (Hcls g Hg) as [r0 [g' [Hrg Hf]]].
      assert (Hr0 : In r0 l). { assert (H : In r0 g) by (rewrite Hrg; now left). rewrite Hf in H. now apply filter_In in H. }
      destruct (N2 r0 Hr0) as [Hs|[rep [Hrep Er]]]; [discriminate|].
      exists rep. split; [assumption|]. rewrite Hf. symmetry. now apply filter_class.
    - intros [rep [Hrep ->]]. destruct (N1 rep Hrep) as [Hin _].
      destruct (Hcov rep Hin) as [g [r0 [g' [Hg [Hrg Er]]]]]. destruct (Hcls g Hg) as [r1 [g1 [Hrg1 Hf]]].
      rewrite Hrg in Hrg1. injection Hrg1 as <- <-.
      rewrite <- (filter_class r0 rep l Er), <- Hf. exact Hg.
  Qed.

  Lemma group_nonempty l g : In g (group_rows eq l) -> g <> [].
  Proof. intros Hg. destruct (group_rows_spec l) as [Hcls _]. destruct (Hcls g Hg) as [r [t [-> _]]]. discriminate. Qed.
End GROUPS.
