(* C10 — identifiers restricted by the query lexers are harmless inside a literal *)
From Coq Require Import List String Ascii Bool.
From Qryn Require Import model.Quote model.ChLex model.SqlSites proofs.QuoteProofs proofs.ChLexProofs.
Import ListNotations.
Open Scope string_scope.

Lemma plain_char_spec c : plain_char c = true ->
  c <> "\"%char /\ c <> "000"%char /\ c <> "010"%char /\ c <> "013"%char /\
  c <> "008"%char /\ c <> "009"%char /\ c <> "026"%char /\ c <> "'"%char.
Proof.
  unfold plain_char. intro H. apply negb_true_iff in H.
  repeat match type of H with
  | (_ || _) = false => apply orb_false_iff in H; destruct H as [H ?]
  end.
  repeat match goal with
  | X : Ascii.eqb _ _ = false |- _ => apply Ascii.eqb_neq in X
  end.
  repeat split; assumption.
Qed.

Lemma esc_char_plain c : plain_char c = true -> esc_char c = String c EmptyString.
Proof.
  intro H. destruct (plain_char_spec c H) as (H1 & H2 & H3 & H4 & H5 & H6 & H7 & H8).
  unfold esc_char.
  rewrite (proj2 (Ascii.eqb_neq _ _) H1), (proj2 (Ascii.eqb_neq _ _) H2), (proj2 (Ascii.eqb_neq _ _) H3),
          (proj2 (Ascii.eqb_neq _ _) H4), (proj2 (Ascii.eqb_neq _ _) H5), (proj2 (Ascii.eqb_neq _ _) H6),
          (proj2 (Ascii.eqb_neq _ _) H7), (proj2 (Ascii.eqb_neq _ _) H8).
  reflexivity.
Qed.

Lemma esc_plain : forall s, all_chars plain_char s = true -> esc s = s.
Proof.
  induction s as [|c s IH]; [reflexivity|]. cbn [all_chars esc]. intro H.
  apply andb_true_iff in H. destruct H as [Hc Hs].
  rewrite esc_char_plain by assumption. rewrite IH by assumption. reflexivity.
Qed.

(* written between two quotes by the site itself, such bytes stay inside the literal and are its value *)
Lemma plain_in_literal : forall s acc, all_chars plain_char s = true ->
  after (QStr acc) s = QStr (acc ++ s) /\ outs (QStr acc) s = [].
Proof.
  intros s acc H. rewrite <- (esc_plain s H) at 1 3. apply esc_in_literal.
Qed.

Lemma all_chars_mem p alpha : all_chars p alpha = true ->
  forall s, over alpha s = true -> all_chars p s = true.
Proof.
  intros Ha s. induction s as [|c s IH]; [reflexivity|]. unfold over in *. cbn [all_chars]. intro H.
  apply andb_true_iff in H. destruct H as [Hc Hs]. rewrite (IH Hs), andb_true_r.
  clear - Ha Hc. induction alpha as [|d alpha IHa]; [discriminate|].
  cbn [mem_char all_chars] in *. apply andb_true_iff in Ha. destruct Ha as [Hd Hal].
  apply orb_true_iff in Hc. destruct Hc as [Hc|Hc].
  - apply Ascii.eqb_eq in Hc. now subst.
  - now apply IHa.
Qed.

Lemma alphabets_plain_in l : alphabets_plain l = true ->
  forall rule alpha, In (rule, alpha) l -> all_chars plain_char alpha = true.
Proof.
  unfold alphabets_plain. intros H rule alpha Hin.
  rewrite forallb_forall in H. exact (H _ Hin).
Qed.

Lemma ident_literal l : alphabets_plain l = true ->
  forall rule alpha s rest, In (rule, alpha) l -> over alpha s = true -> safe_rest rest ->
  esc s = s /\ lex_string ("'" ++ s ++ "'" ++ rest) = Some (s, rest).
Proof.
  intros Hl rule alpha s rest Hin Hov Hsafe.
  pose proof (all_chars_mem _ _ (alphabets_plain_in l Hl rule alpha Hin) s Hov) as Hp.
  split; [now apply esc_plain|].
  pose proof (quote_is_one_literal_l s rest Hsafe) as Q. unfold quote in Q.
  rewrite (esc_plain s Hp) in Q. rewrite <- Q. now rewrite !sapp_assoc.
Qed.

(* numeric texts: unchanged by the escaper, and inside a literal they stay inside it *)
Lemma numeric_text l : all_chars plain_char l = true -> forall s acc, over l s = true ->
  esc s = s /\ after (QStr acc) s = QStr (acc ++ s) /\ outs (QStr acc) s = [].
Proof.
  intros Hl s acc Hov. pose proof (all_chars_mem _ _ Hl s Hov) as Hp.
  split; [now apply esc_plain|]. now apply plain_in_literal.
Qed.
