(* C15 - the Loki matrix timestamp text is exact for microsecond-aligned timestamps.

   The matrix writer prints fmt.Sprintf("%f", float64(TimestampNS)/1e9).  Both float operations round (an int64
   above 2^53 is not a float64, and x/1e9 is almost never one), and %f rounds a third time, to six decimals.
   For a TimestampNS in [0, 2^61) that is a whole number of microseconds the printed text nevertheless denotes
   exactly TimestampNS/1000 microseconds [f6_timestamp_exact, ts_us_exact_holds]; for every TimestampNS in
   [0, 2^61) it is off by less than 0.867 us [f6_timestamp_error_bound].

   All statements are over Z, cross-multiplied; no rationals, no reals, no axioms.

   rne_pre is the reusable fact about rne: the quotient before the final mantissa bump (q', e) is within half a
   unit of a/b * 2^-e, and it has at least 53 bits (2^52 <= a/b * 2^-e), which bounds e from above by the
   magnitude of a/b.  rne_post adds how the returned pair relates to (q', e): same value, scaled by c in {1,2}. *)
From Coq Require Import List NArith ZArith Bool Ascii String Lia.
From Qryn Require Import model.GoFloat model.JsonStream proofs.GoFloatProofs proofs.GoFloatReadProofs proofs.GoFloatRoundProofs.
Open Scope Z_scope.

(* ------------------------------------------------------------------------------------------ *)
(* small arithmetic *)

Lemma abs_scale_le : forall w s d, 0 < s -> 2 * Z.abs (w * s) <= d * s -> 2 * Z.abs w <= d.
Proof.
  intros w s d Hs H. rewrite Z.abs_mul, (Z.abs_eq s) in H by lia.
  apply (Z.mul_le_mono_pos_r _ _ s Hs). lia.
Qed.

Lemma abs_scale_up : forall w s d, 0 < s -> 2 * Z.abs w <= d -> 2 * Z.abs (w * s) <= d * s.
Proof.
  intros w s d Hs H. rewrite Z.abs_mul, (Z.abs_eq s) by lia.
  apply (Z.mul_le_mono_pos_r _ _ s Hs) in H. lia.
Qed.

Lemma round_half_even_unique : forall num den u, 0 < den ->
  2 * Z.abs (num - u * den) < den -> round_half_even num den = u.
Proof.
  intros num den u Hd H. unfold round_half_even.
  pose proof (Z.div_mod num den ltac:(lia)) as E. pose proof (Z.mod_pos_bound num den Hd) as Hr.
  set (q := num / den) in *. set (r := num mod den) in *.
  assert (K : num - u * den = (q - u) * den + r) by (rewrite E; ring). rewrite K in H. clear K E.
  set (k := q - u) in *.
  assert (Hk : k <= -2 \/ k = -1 \/ k = 0 \/ 1 <= k) by lia.
  destruct Hk as [Hk|[Hk|[Hk|Hk]]].
  - exfalso. assert (k * den <= -2 * den) by (apply Z.mul_le_mono_nonneg_r; lia). lia.
  - rewrite Hk in H. destruct (2 * r <? den) eqn:E1; [apply Z.ltb_lt in E1; lia|]. apply Z.ltb_ge in E1.
    destruct (2 * r =? den) eqn:E2; [apply Z.eqb_eq in E2; lia|]. lia.
  - rewrite Hk in H. destruct (2 * r <? den) eqn:E1; [lia|]. apply Z.ltb_ge in E1. lia.
  - exfalso. assert (1 * den <= k * den) by (apply Z.mul_le_mono_nonneg_r; lia). lia.
Qed.

(* ------------------------------------------------------------------------------------------ *)
(* step 0: rne before the mantissa bump *)

Lemma rne_lower : forall a b, 0 < a -> 0 < b ->
  let e1 := Z.log2 a - Z.log2 b - 53 in
  let q1 := (a * 2 ^ Z.max (- e1) 0) / (b * 2 ^ Z.max e1 0) in
  let e := if q1 <? 2 ^ 53 then e1 else e1 + 1 in
  2 ^ 52 * (b * 2 ^ Z.max e 0) <= a * 2 ^ Z.max (- e) 0.
Proof.
  intros a b Ha Hb e1 q1 e.
  destruct (Z.log2_spec a Ha) as [Ha1 Ha2]. destruct (Z.log2_spec b Hb) as [Hb1 Hb2].
  pose proof (Z.log2_nonneg a) as Hla. pose proof (Z.log2_nonneg b) as Hlb.
  set (la := Z.log2 a) in *. set (lb := Z.log2 b) in *.
  subst e. destruct (q1 <? 2 ^ 53) eqn:Eq.
  - destruct (Z_le_gt_dec 0 e1) as [He|He].
    + replace (Z.max e1 0) with e1 by lia. replace (Z.max (- e1) 0) with 0 by lia. rewrite Z.pow_0_r, Z.mul_1_r.
      assert (E : 2 ^ 52 * (2 ^ Z.succ lb * 2 ^ e1) = 2 ^ la).
      { rewrite <- !Z.pow_add_r by lia. f_equal. unfold e1. lia. }
      assert (Hp : 0 < 2 ^ e1) by (apply Z.pow_pos_nonneg; lia).
      assert (Hm : b * 2 ^ e1 <= 2 ^ Z.succ lb * 2 ^ e1) by (apply Z.mul_le_mono_nonneg_r; lia).
      change (2 ^ 52) with 4503599627370496 in *. lia.
    + replace (Z.max e1 0) with 0 by lia. replace (Z.max (- e1) 0) with (- e1) by lia. rewrite Z.pow_0_r, Z.mul_1_r.
      assert (E : 2 ^ la * 2 ^ (- e1) = 2 ^ 52 * 2 ^ Z.succ lb).
      { rewrite <- !Z.pow_add_r by lia. f_equal. unfold e1. lia. }
      assert (Hp : 0 < 2 ^ (- e1)) by (apply Z.pow_pos_nonneg; lia).
      assert (Hm : 2 ^ la * 2 ^ (- e1) <= a * 2 ^ (- e1)) by (apply Z.mul_le_mono_nonneg_r; lia).
      change (2 ^ 52) with 4503599627370496 in *. lia.
  - apply Z.ltb_ge in Eq. unfold q1 in Eq.
    set (N1 := a * 2 ^ Z.max (- e1) 0) in *. set (D1 := b * 2 ^ Z.max e1 0) in *.
    assert (HD1 : 0 < D1) by (unfold D1; pose proof (pow2_pos e1); nia).
    assert (Hq : 2 ^ 53 * D1 <= N1).
    { pose proof (Z.mul_div_le N1 D1 HD1) as H1.
      assert (H2 : D1 * 2 ^ 53 <= D1 * (N1 / D1)) by (apply Z.mul_le_mono_nonneg_l; lia). lia. }
    unfold N1, D1 in Hq. clear Eq HD1.
    change (2 ^ 53) with 9007199254740992 in Hq. change (2 ^ 52) with 4503599627370496.
    destruct (Z_le_gt_dec 0 e1) as [He|He].
    + replace (Z.max e1 0) with e1 in Hq by lia. replace (Z.max (- e1) 0) with 0 in Hq by lia.
      replace (Z.max (e1 + 1) 0) with (Z.succ e1) by lia. replace (Z.max (- (e1 + 1)) 0) with 0 by lia.
      rewrite Z.pow_succ_r by lia. rewrite Z.pow_0_r in *. lia.
    + replace (Z.max e1 0) with 0 in Hq by lia. replace (Z.max (- e1) 0) with (Z.succ (- (e1 + 1))) in Hq by lia.
      replace (Z.max (e1 + 1) 0) with 0 by lia. replace (Z.max (- (e1 + 1)) 0) with (- (e1 + 1)) by lia.
      rewrite Z.pow_succ_r in Hq by lia. rewrite Z.pow_0_r in *. lia.
Qed.

Lemma rne_pre_pos : forall a b, 0 < a -> 0 < b -> exists e q',
  rne a b = (if q' =? 2 ^ 53 then (2 ^ 52, e + 1) else (q', e)) /\
  0 < q' /\
  2 * Z.abs (q' * (b * 2 ^ Z.max e 0) - a * 2 ^ Z.max (- e) 0) <= b * 2 ^ Z.max e 0 /\
  2 ^ 52 * (b * 2 ^ Z.max e 0) <= a * 2 ^ Z.max (- e) 0.
Proof.
  intros a b Ha Hb. pose proof (rne_lower a b Ha Hb) as HL. cbv zeta in HL. unfold rne.
  set (e := if _ <? 2 ^ 53 then _ else _) in *.
  set (S := 2 ^ Z.max (- e) 0) in *. set (T := 2 ^ Z.max e 0) in *.
  assert (HS : 0 < S) by (apply Z.pow_pos_nonneg; lia). assert (HT : 0 < T) by (apply Z.pow_pos_nonneg; lia).
  assert (HN : 0 <= a * S) by (apply Z.mul_nonneg_nonneg; lia).
  assert (HD : 0 < b * T) by (apply Z.mul_pos_pos; lia).
  pose proof (round_step (a * S) (b * T) HN HD) as H. cbv zeta in H.
  set (q' := if 2 * ((a * S) mod (b * T)) <? b * T then _ else _) in *.
  exists e, q'. split; [reflexivity|]. split; [|split; assumption].
  destruct (Z_lt_le_dec 0 q') as [Hp|Hn]; [exact Hp|exfalso].
  assert (Hm : q' * (b * T) <= 0) by (apply Z.mul_nonpos_nonneg; lia).
  change (2 ^ 52) with 4503599627370496 in HL. lia.
Qed.

(* the formulation other files use *)
Lemma rne_pre : forall a b, 0 < a -> 0 < b -> exists e q',
  rne a b = (if q' =? 2 ^ 53 then (2 ^ 52, e + 1) else (q', e)) /\
  0 <= q' /\
  2 * Z.abs (q' * (b * 2 ^ Z.max e 0) - a * 2 ^ Z.max (- e) 0) <= b * 2 ^ Z.max e 0 /\
  2 ^ 52 * (b * 2 ^ Z.max e 0) <= a * 2 ^ Z.max (- e) 0.
Proof.
  intros a b Ha Hb. destruct (rne_pre_pos a b Ha Hb) as (e & q' & H1 & H2 & H3 & H4).
  exists e, q'. repeat split; try assumption. lia.
Qed.

(* the returned pair (m, f) denotes the same number as (q', e): c * m * 2^f = q' * 2^e over the common scales *)
Lemma rne_post : forall a b, 0 < a -> 0 < b ->
  exists e q' c, 0 < c /\ 0 < q' /\
    2 * Z.abs (q' * (b * 2 ^ Z.max e 0) - a * 2 ^ Z.max (- e) 0) <= b * 2 ^ Z.max e 0 /\
    2 ^ 52 * (b * 2 ^ Z.max e 0) <= a * 2 ^ Z.max (- e) 0 /\
    c * (fst (rne a b) * 2 ^ Z.max (snd (rne a b)) 0) = q' * 2 ^ Z.max e 0 /\
    c * 2 ^ Z.max (- snd (rne a b)) 0 = 2 ^ Z.max (- e) 0 /\
    e <= snd (rne a b) <= e + 1.
Proof.
  intros a b Ha Hb. destruct (rne_pre_pos a b Ha Hb) as (e & q' & Heq & Hq & Hr & Hl).
  rewrite Heq. destruct (q' =? 2 ^ 53) eqn:Ec; cbn [fst snd].
  - apply Z.eqb_eq in Ec. destruct (Z_le_gt_dec 0 e) as [He|He].
    + exists e, q', 1. repeat split; try assumption; try lia.
      * replace (Z.max (e + 1) 0) with (Z.succ (Z.max e 0)) by lia. rewrite Z.pow_succ_r by lia. rewrite Ec.
        change (2 ^ 53) with (2 * 2 ^ 52). ring.
      * replace (Z.max (- (e + 1)) 0) with 0 by lia. replace (Z.max (- e) 0) with 0 by lia. reflexivity.
    + exists e, q', 2. repeat split; try assumption; try lia.
      * replace (Z.max (e + 1) 0) with 0 by lia. replace (Z.max e 0) with 0 by lia. rewrite Ec.
        change (2 ^ 53) with (2 * 2 ^ 52). ring.
      * replace (Z.max (- e) 0) with (Z.succ (Z.max (- (e + 1)) 0)) by lia. rewrite Z.pow_succ_r by lia. reflexivity.
  - exists e, q', 1. repeat split; try assumption; try lia.
Qed.

(* ------------------------------------------------------------------------------------------ *)
(* step 1: float64(ts) for 0 < ts < 2^61 is within 128 of ts (exponent at most 8) *)

Lemma of_int_close : forall ts, 0 < ts < 2 ^ 61 ->
  let m := fst (rne ts 1) in let f := snd (rne ts 1) in
  let A := m * 2 ^ Z.max f 0 in let S1 := 2 ^ Z.max (- f) 0 in
  0 < A /\ 2 * Z.abs (A - ts * S1) <= 256 * S1.
Proof.
  intros ts Hts m f A S1.
  destruct (rne_post ts 1 ltac:(lia) ltac:(lia)) as (e & q & c & Hc & Hq & Hr & Hl & HA & HS & _).
  fold m f in HA, HS. fold A in HA. fold S1 in HS.
  rewrite !Z.mul_1_l in Hr, Hl.
  set (T := 2 ^ Z.max e 0) in *. set (S := 2 ^ Z.max (- e) 0) in *.
  assert (HT : 0 < T) by apply pow2_pos. assert (HS0 : 0 < S) by apply pow2_pos.
  assert (HS1 : 0 < S1) by apply pow2_pos.
  assert (HqT : 0 < q * T) by (apply Z.mul_pos_pos; lia).
  split.
  - rewrite <- HA in HqT. apply (Z.mul_pos_cancel_l c A Hc). exact HqT.
  - assert (HTS : T <= 256 * S).
    { destruct (Z_le_gt_dec e 0) as [He|He].
      - unfold T. replace (Z.max e 0) with 0 by lia. rewrite Z.pow_0_r. lia.
      - assert (ES : S = 1) by (unfold S; replace (Z.max (- e) 0) with 0 by lia; reflexivity).
        rewrite ES in *. rewrite Z.mul_1_r in Hl.
        change (2 ^ 61) with (2 ^ 52 * 2 ^ 9) in Hts.
        assert (H9 : T < 2 ^ 9).
        { destruct (Z_lt_le_dec T (2 ^ 9)) as [Hlt|Hge]; [exact Hlt|exfalso].
          assert (2 ^ 52 * 2 ^ 9 <= 2 ^ 52 * T) by (apply Z.mul_le_mono_nonneg_l; lia). lia. }
        destruct (Z_le_gt_dec e 8) as [He8|He8].
        + assert (T <= 2 ^ 8) by (unfold T; apply Z.pow_le_mono_r; lia). change (2 ^ 8) with 256 in *. lia.
        + exfalso. assert (2 ^ 9 <= T) by (unfold T; apply Z.pow_le_mono_r; lia). lia. }
    apply (abs_scale_le _ c _ Hc).
    replace ((A - ts * S1) * c) with (c * A - ts * (c * S1)) by ring. rewrite HA, HS.
    replace (256 * S1 * c) with (256 * (c * S1)) by ring. rewrite HS. lia.
Qed.

(* ------------------------------------------------------------------------------------------ *)
(* step 2: float64(ts)/1e9 = m2 * 2^f2 with f2 <= -20, within 0.3665e-6 of ts/1e9 *)

Lemma ts_core : forall ts, 0 < ts < 2 ^ 61 ->
  exists m2 f2, ts_seconds ts = FFin false m2 f2 /\ 0 < m2 /\ f2 <= -20 /\
    2 * Z.abs (1000000000 * m2 - ts * 2 ^ Z.max (- f2) 0) <= 733 * 2 ^ Z.max (- f2) 0.
Proof.
  intros ts Hts. pose proof (of_int_close ts Hts) as H1. cbv zeta in H1.
  unfold ts_seconds, fl_of_int.
  replace (ts =? 0) with false by (symmetry; apply Z.eqb_neq; lia).
  replace (ts <? 0) with false by (symmetry; apply Z.ltb_ge; lia).
  rewrite (Z.abs_eq ts) by lia.
  destruct (rne ts 1) as [m1 f1]. cbn [fst snd] in H1. cbn [fl_div_int].
  set (A := m1 * 2 ^ Z.max f1 0) in *. set (S1 := 2 ^ Z.max (- f1) 0) in *.
  destruct H1 as [HA0 HA]. assert (HS1 : 0 < S1) by apply pow2_pos.
  destruct (rne_post A (1000000000 * S1) HA0 ltac:(lia)) as (e & q & c & Hc & Hq & Hr & Hl & HM & HS & He).
  destruct (rne A (1000000000 * S1)) as [m2 f2]. cbn [fst snd] in HM, HS, He.
  exists m2, f2. split; [reflexivity|].
  set (T := 2 ^ Z.max e 0) in *. set (S := 2 ^ Z.max (- e) 0) in *. set (S2 := 2 ^ Z.max (- f2) 0) in *.
  assert (HT : 0 < T) by apply pow2_pos. assert (HS0 : 0 < S) by apply pow2_pos.
  assert (HS2 : 0 < S2) by apply pow2_pos.
  change (2 ^ 61) with 2305843009213693952 in Hts. change (2 ^ 52) with 4503599627370496 in Hl.
  (* the quotient is below 2^32: its exponent is at most -21 *)
  assert (He21 : e <= -21).
  { destruct (Z_le_gt_dec e (-21)) as [Hle|Hgt]; [exact Hle|exfalso].
    assert (HSle : S <= 2 ^ 20) by (unfold S; apply Z.pow_le_mono_r; lia). change (2 ^ 20) with 1048576 in HSle.
    assert (H1 : A * S <= A * 1048576) by (apply Z.mul_le_mono_nonneg_l; lia).
    assert (H2 : S1 * 1 <= S1 * T) by (apply Z.mul_le_mono_nonneg_l; lia).
    assert (H3 : ts * S1 <= 2305843009213693952 * S1) by (apply Z.mul_le_mono_nonneg_r; lia).
    replace (1000000000 * S1 * T) with (1000000000 * (S1 * T)) in Hl by ring. lia. }
  assert (ET : T = 1) by (unfold T; replace (Z.max e 0) with 0 by lia; reflexivity).
  assert (Ef : Z.max f2 0 = 0) by lia.
  rewrite Ef, Z.pow_0_r, Z.mul_1_r in HM. rewrite ET, Z.mul_1_r in HM, Hr. clear Hl.
  assert (HS21 : 2097152 <= S) by (change 2097152 with (2 ^ 21); unfold S; apply Z.pow_le_mono_r; lia).
  assert (Hm2 : 0 < m2) by (apply (Z.mul_pos_cancel_l c m2 Hc); lia).
  split; [exact Hm2|]. split; [lia|].
  (* both errors over the common scale S1 * S *)
  apply (abs_scale_up _ S _ HS0) in HA.
  assert (HP : S1 * 2097152 <= S1 * S) by (apply Z.mul_le_mono_nonneg_l; lia).
  replace ((A - ts * S1) * S) with (A * S - ts * (S1 * S)) in HA by ring.
  replace (256 * S1 * S) with (256 * (S1 * S)) in HA by ring.
  replace (q * (1000000000 * S1)) with (1000000000 * (q * S1)) in Hr by ring.
  assert (Hsum : 2 * Z.abs (1000000000 * (q * S1) - ts * (S1 * S)) <= 733 * (S1 * S)).
  { set (QS := q * S1) in *. set (AS := A * S) in *. set (P := S1 * S) in *. set (tP := ts * P) in *. lia. }
  replace (1000000000 * (q * S1) - ts * (S1 * S)) with ((1000000000 * q - ts * S) * S1) in Hsum by ring.
  replace (733 * (S1 * S)) with (733 * S * S1) in Hsum by ring.
  apply (abs_scale_le _ S1 _ HS1) in Hsum.
  apply (abs_scale_le _ c _ Hc).
  replace ((1000000000 * m2 - ts * S2) * c) with (1000000000 * (c * m2) - ts * (c * S2)) by ring.
  replace (733 * S2 * c) with (733 * (c * S2)) by ring. rewrite HM, HS. exact Hsum.
Qed.

(* ------------------------------------------------------------------------------------------ *)
(* step 3: %f of that float *)

Lemma ts_zero_text : read_fixed (f6_text (ts_seconds 0)) = Some (false, 0, 6%nat).
Proof. change (ts_seconds 0) with (FZero false). cbn [f6_text]. apply read_fixed_text. lia. Qed.

Theorem f6_timestamp_exact : forall u, 0 <= u -> 1000 * u < 2 ^ 61 ->
  read_fixed (f6_text (ts_seconds (1000 * u))) = Some (false, u, 6%nat).
Proof.
  intros u Hu Hlt. destruct (Z.eq_dec u 0) as [->|Hnz]; [exact ts_zero_text|].
  set (ts := 1000 * u) in *.
  destruct (ts_core ts ltac:(unfold ts; lia)) as (m2 & f2 & Eq & Hm & Hf & Hb).
  rewrite Eq, f6_reads_back by lia.
  assert (E : round_half_even (m2 * 1000000 * 2 ^ Z.max f2 0) (2 ^ Z.max (- f2) 0) = u).
  { replace (Z.max f2 0) with 0 by lia. rewrite Z.pow_0_r, Z.mul_1_r.
    apply round_half_even_unique; [apply pow2_pos|].
    set (S2 := 2 ^ Z.max (- f2) 0) in *. assert (HS2 : 0 < S2) by apply pow2_pos.
    unfold ts in Hb. replace (1000 * u * S2) with (1000 * (u * S2)) in Hb by ring. lia. }
  rewrite E. reflexivity.
Qed.

Theorem ts_us_exact_holds : forall ts, ts_us_exact ts = true.
Proof.
  intros ts. unfold ts_us_exact.
  destruct ((0 <=? ts) && (ts <? 2 ^ 61) && (ts mod 1000 =? 0)) eqn:G; [|reflexivity].
  apply andb_prop in G. destruct G as [G G3]. apply andb_prop in G. destruct G as [G1 G2].
  apply Z.leb_le in G1. apply Z.ltb_lt in G2. apply Z.eqb_eq in G3.
  pose proof (Z.div_mod ts 1000 ltac:(lia)) as E. rewrite G3, Z.add_0_r in E.
  set (u := ts / 1000) in *. rewrite E in G2 |- *.
  rewrite (f6_timestamp_exact u) by lia. apply Z.eqb_eq. ring.
Qed.

(* a timestamp above 2^53: float64(ts) is not ts (the conversion rounds, here by -104 ns), the quotient rounds again,
   the text is exact *)
Example f6_timestamp_exact_2024 :
  read_fixed (f6_text (ts_seconds (1000 * 1727740800654321))) = Some (false, 1727740800654321, 6%nat).
Proof. vm_compute. reflexivity. Qed.
Example f6_timestamp_2024_conversion_rounds :
  match fl_of_int 1727740800654321000 with
  | FFin false m e => (0 <? e) && (m * 2 ^ e =? 1727740800654321000 - 104)
  | _ => false
  end = true.
Proof. vm_compute. reflexivity. Qed.
(* 1727740800123456000 is a multiple of 2^8: that conversion happens to be exact; the division still rounds *)
Example f6_timestamp_exact_2024_b :
  read_fixed (f6_text (ts_seconds (1000 * 1727740800123456))) = Some (false, 1727740800123456, 6%nat).
Proof. vm_compute. reflexivity. Qed.

(* ------------------------------------------------------------------------------------------ *)
(* every timestamp in [0, 2^61), aligned or not: the text is within 0.866 us *)

Theorem f6_timestamp_error_bound : forall ts, 0 <= ts < 2 ^ 61 ->
  exists n, read_fixed (f6_text (ts_seconds ts)) = Some (false, n, 6%nat) /\ Z.abs (n * 1000 - ts) <= 866.
Proof.
  intros ts Hts. destruct (Z.eq_dec ts 0) as [->|Hnz]; [exists 0; split; [exact ts_zero_text|cbn; lia]|].
  destruct (ts_core ts ltac:(lia)) as (m2 & f2 & Eq & Hm & Hf & Hb).
  rewrite Eq, f6_reads_back by lia. eexists. split; [reflexivity|].
  replace (Z.max f2 0) with 0 by lia. rewrite Z.pow_0_r, Z.mul_1_r.
  set (S2 := 2 ^ Z.max (- f2) 0) in *. assert (HS2 : 0 < S2) by apply pow2_pos.
  pose proof (round_step (m2 * 1000000) S2 ltac:(lia) HS2) as Hr. cbv zeta in Hr.
  fold (round_half_even (m2 * 1000000) S2) in Hr. set (n := round_half_even (m2 * 1000000) S2) in *.
  assert (K : 2 * Z.abs ((n * 1000 - ts) * S2) <= 1733 * S2).
  { replace ((n * 1000 - ts) * S2) with (1000 * (n * S2) - ts * S2) by ring.
    set (nS := n * S2) in *. set (tS := ts * S2) in *. lia. }
  apply abs_scale_le in K; [lia|exact HS2].
Qed.

Print Assumptions rne_pre.
Print Assumptions f6_timestamp_exact.
Print Assumptions ts_us_exact_holds.
Print Assumptions f6_timestamp_error_bound.
