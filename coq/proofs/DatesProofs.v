(* Proofs about model/Dates.v (property C04, part c). *)
From Coq Require Import List ZArith Lia Bool.
From Qryn Require Import model.Dates.
Import ListNotations.
Open Scope Z_scope.

Lemma trunc_day_div unix : trunc_day unix = 86400 * (unix / 86400).
Proof. unfold trunc_day. pose proof (Z.div_mod unix 86400). lia. Qed.

(* the stored day is the UTC day of the sample, for every process zone *)
Lemma series_day_is_utc_day tz ts_ns :
  0 <= ts_ns -> ts_ns < 65536 * 86400 * 1000000000 ->
  series_day tz ts_ns = utc_day (secs_of_ns ts_ns).
Proof.
  intros H0 H1. unfold series_day, to_date, utc_day, secs_of_ns.
  rewrite (Z.quot_div_nonneg ts_ns 1000000000) by lia.
  set (s := ts_ns / 1000000000).
  assert (Hs0 : 0 <= s) by (apply Z.div_pos; lia).
  assert (Hs1 : s < 65536 * 86400) by (apply Z.div_lt_upper_bound; lia).
  rewrite trunc_day_div, Z.add_0_r.
  assert (Hd0 : 0 <= s / 86400) by (apply Z.div_pos; lia).
  assert (Hd1 : s / 86400 < 65536) by (apply Z.div_lt_upper_bound; lia).
  rewrite Z.quot_div_nonneg by lia.
  rewrite Z.mul_comm, Z.div_mul by lia.
  apply Z.mod_small. lia.
Qed.

Lemma series_day_visible_all tz from ts_ns :
  0 <= ts_ns -> ts_ns < 65536 * 86400 * 1000000000 ->
  from <= secs_of_ns ts_ns ->
  reader_from_day from <= series_day tz ts_ns.
Proof.
  intros H0 H1 Hf. rewrite (series_day_is_utc_day tz ts_ns H0 H1).
  unfold reader_from_day, utc_day. apply Z.div_le_mono; lia.
Qed.

(* and never later than the sample's own UTC day (so an upper bound computed in UTC keeps it too) *)
Lemma series_day_not_after tz to_ ts_ns :
  0 <= ts_ns -> ts_ns < 65536 * 86400 * 1000000000 ->
  secs_of_ns ts_ns <= to_ ->
  series_day tz ts_ns <= utc_day to_.
Proof.
  intros H0 H1 Ht. rewrite (series_day_is_utc_day tz ts_ns H0 H1).
  unfold utc_day. apply Z.div_le_mono; lia.
Qed.

(* the defect that was fixed: with the process zone left on the value, 5 h west of UTC the sample
   of 2024-01-10T12:00:00Z was indexed under 2024-01-09, below the reader's lower bound *)
Lemma series_day_local_lost_day :
  exists tz from ts_ns, from <= secs_of_ns ts_ns /\ series_day_local tz ts_ns < reader_from_day from.
Proof. exists (-18000), 1704888000, 1704888000000000000. split; vm_compute; [discriminate|reflexivity]. Qed.

(* east of UTC the old code was right *)
Lemma series_day_local_east tz ts_ns :
  0 <= tz < 86400 -> 0 <= ts_ns -> ts_ns < 65535 * 86400 * 1000000000 ->
  series_day_local tz ts_ns = utc_day (secs_of_ns ts_ns).
Proof.
  intros Hz H0 H1. unfold series_day_local, to_date, utc_day, secs_of_ns.
  rewrite (Z.quot_div_nonneg ts_ns 1000000000) by lia.
  set (s := ts_ns / 1000000000).
  assert (Hs0 : 0 <= s) by (apply Z.div_pos; lia).
  assert (Hs1 : s < 65535 * 86400) by (apply Z.div_lt_upper_bound; lia).
  rewrite trunc_day_div.
  assert (Hd0 : 0 <= s / 86400) by (apply Z.div_pos; lia).
  assert (Hd1 : s / 86400 < 65535) by (apply Z.div_lt_upper_bound; lia).
  rewrite Z.quot_div_nonneg by lia.
  replace (86400 * (s / 86400) + tz) with (tz + (s / 86400) * 86400) by lia.
  rewrite Z.div_add by lia. rewrite (Z.div_small tz 86400) by lia.
  rewrite Z.add_0_l. apply Z.mod_small. lia.
Qed.

(* hypotheses of series_day_visible_all are satisfiable: a sample one second after local midnight,
   12 h west, queried from its own instant *)
Example series_day_visible_instance :
  reader_from_day 1711886401 <= series_day (-43200) 1711886401000000000.
Proof. apply series_day_visible_all; vm_compute; congruence. Qed.
