(* Proofs about the way from the environment to the router's conditions (model/AuthEnv.v): property C20. *)
From Coq Require Import List ZArith Bool String Ascii Lia.
From Qryn Require Import model.Auth model.Router model.RotateCfg model.AuthEnv proofs.AuthProofs proofs.RoutesProofs gen.GenRoutes.
Import ListNotations.
Open Scope string_scope.

Lemma nonempty_true s : nonempty s = true <-> s <> "".
Proof.
  unfold nonempty. split.
  - intros H E. subst s. discriminate.
  - intros H. destruct (String.eqb s "") eqn:E; [apply String.eqb_eq in E; contradiction|reflexivity].
Qed.

(* what portEnv leaves as Username / Password: CLOKI_ over QRYN_ over the file *)
Lemma port_env_credentials e file preset c : port_env e file preset = Some c ->
  a_user c = (if nonempty (getenv e "CLOKI_LOGIN") then getenv e "CLOKI_LOGIN"
              else if nonempty (getenv e "QRYN_LOGIN") then getenv e "QRYN_LOGIN" else a_user file) /\
  a_pass c = (if nonempty (getenv e "CLOKI_PASSWORD") then getenv e "CLOKI_PASSWORD"
              else if nonempty (getenv e "QRYN_PASSWORD") then getenv e "QRYN_PASSWORD" else a_pass file).
Proof.
  unfold port_env. destruct (port_ch_env e preset); [|discriminate].
  destruct (nonempty (getenv e "PORT") && _); [discriminate|].
  destruct (nonempty (getenv e "ADVANCED_PROMETHEUS_MAX_SAMPLES") && _); [discriminate|].
  destruct (bool_env (getenv e "key")) as [ro|]; [|discriminate].
  destruct (nonempty (getenv e "BULK_MAX_SIZE_BYTES") && _); [discriminate|].
  destruct (atoi _); [|discriminate]. intros [= <-]. cbn. split; reflexivity.
Qed.

Lemma port_env_user_set e file preset c : port_env e file preset = Some c ->
  (getenv e "CLOKI_LOGIN" <> "" \/ getenv e "QRYN_LOGIN" <> "" \/ a_user file <> "") -> a_user c <> "".
Proof.
  intros H Hset. destruct (port_env_credentials e file preset c H) as [-> _].
  destruct (nonempty (getenv e "CLOKI_LOGIN")) eqn:E1; [now apply nonempty_true|].
  destruct (nonempty (getenv e "QRYN_LOGIN")) eqn:E2; [now apply nonempty_true|].
  destruct Hset as [Hs|[Hs|Hs]]; [apply nonempty_true in Hs; congruence|apply nonempty_true in Hs; congruence|exact Hs].
Qed.
Lemma port_env_pass_set e file preset c : port_env e file preset = Some c ->
  (getenv e "CLOKI_PASSWORD" <> "" \/ getenv e "QRYN_PASSWORD" <> "" \/ a_pass file <> "") -> a_pass c <> "".
Proof.
  intros H Hset. destruct (port_env_credentials e file preset c H) as [_ ->].
  destruct (nonempty (getenv e "CLOKI_PASSWORD")) eqn:E1; [now apply nonempty_true|].
  destruct (nonempty (getenv e "QRYN_PASSWORD")) eqn:E2; [now apply nonempty_true|].
  destruct Hset as [Hs|[Hs|Hs]]; [apply nonempty_true in Hs; congruence|apply nonempty_true in Hs; congruence|exact Hs].
Qed.

(* a configuration with non-empty Username and Password makes every "credentials" atom true *)
Lemma valuation_must kinds must c other : must_are_credentials kinds must = true ->
  a_user c <> "" -> a_pass c <> "" -> forall a, In a must -> valuation_of kinds c other a = true.
Proof.
  intros Hm Hu Hp a Ha. unfold must_are_credentials in Hm. rewrite forallb_forall in Hm. specialize (Hm a Ha).
  unfold valuation_of. destruct (nth a kinds AKOther); try discriminate; now apply nonempty_true.
Qed.

Lemma gen_must_are_credentials : must_are_credentials gen_atom_kinds gen_must = true.
Proof. vm_compute. reflexivity. Qed.

(* Environment -> portEnv -> main's conditions -> router assembly: whenever portEnv accepts the environment and a login
   and a password were given (by either variable or by the file), every reachable route of the assembly main builds for
   that configuration is guarded by BasicAuth -- whatever Mode, CORS, READONLY and the other atoms are. *)
Lemma env_credentials_guard e file preset c other : port_env e file preset = Some c ->
  (getenv e "CLOKI_LOGIN" <> "" \/ getenv e "QRYN_LOGIN" <> "" \/ a_user file <> "") ->
  (getenv e "CLOKI_PASSWORD" <> "" \/ getenv e "QRYN_PASSWORD" <> "" \/ a_pass file <> "") ->
  assembly_ok (active (valuation_of gen_atom_kinds c other) gen_assembly) = true.
Proof.
  intros H Hu Hp. apply gen_ok. apply valuation_must; [exact gen_must_are_credentials| |].
  - exact (port_env_user_set e file preset c H Hu).
  - exact (port_env_pass_set e file preset c H Hp).
Qed.

Definition no_file : auth_cfg := {| a_user := ""; a_pass := ""; a_cors := false; a_origin := ""; a_mode := "" |}.
(* non-vacuity, and what the variables do: CLOKI_ wins over QRYN_, READONLY is not read (the variable "key" is) *)
Example ex_port_env :
  port_env [("QRYN_LOGIN", "admin"); ("QRYN_PASSWORD", "s3cret"); ("CLOKI_PASSWORD", "other"); ("CORS_ALLOW_ORIGIN", "*");
            ("MODE", "writer"); ("READONLY", "true")] no_file [] =
    Some {| a_user := "admin"; a_pass := "other"; a_cors := true; a_origin := "*"; a_mode := "writer" |} /\
  port_env [("QRYN_LOGIN", "admin"); ("QRYN_PASSWORD", "s3cret"); ("key", "yes")] no_file [] =
    Some {| a_user := "admin"; a_pass := "s3cret"; a_cors := false; a_origin := ""; a_mode := "reader" |} /\
  port_env [("QRYN_LOGIN", "admin"); ("QRYN_PASSWORD", "s3cret"); ("PORT", "31oo")] no_file [] = None.
Proof. vm_compute. repeat split; reflexivity. Qed.

(* ------------------------------------------------------------------ a configured password is never emptied
   (portEnv copies the variables and the file's values verbatim: no trimming, no unquoting) *)
Lemma nonempty_spec s : nonempty s = true <-> s <> "".
Proof. unfold nonempty. destruct s; cbn; split; congruence. Qed.
Lemma password_never_emptied e file preset c : port_env e file preset = Some c ->
  (a_pass c = "" <-> getenv e "CLOKI_PASSWORD" = "" /\ getenv e "QRYN_PASSWORD" = "" /\ a_pass file = "") /\
  (a_user c = "" <-> getenv e "CLOKI_LOGIN" = "" /\ getenv e "QRYN_LOGIN" = "" /\ a_user file = "").
Proof.
  intro H. destruct (port_env_credentials e file preset c H) as [Hu Hp]. rewrite Hu, Hp. split.
  - destruct (nonempty (getenv e "CLOKI_PASSWORD")) eqn:A; [apply nonempty_spec in A; tauto|].
    destruct (nonempty (getenv e "QRYN_PASSWORD")) eqn:B; [apply nonempty_spec in B; tauto|].
    assert (A' : getenv e "CLOKI_PASSWORD" = "") by (destruct (getenv e "CLOKI_PASSWORD"); [reflexivity|discriminate]).
    assert (B' : getenv e "QRYN_PASSWORD" = "") by (destruct (getenv e "QRYN_PASSWORD"); [reflexivity|discriminate]).
    tauto.
  - destruct (nonempty (getenv e "CLOKI_LOGIN")) eqn:A; [apply nonempty_spec in A; tauto|].
    destruct (nonempty (getenv e "QRYN_LOGIN")) eqn:B; [apply nonempty_spec in B; tauto|].
    assert (A' : getenv e "CLOKI_LOGIN" = "") by (destruct (getenv e "CLOKI_LOGIN"); [reflexivity|discriminate]).
    assert (B' : getenv e "QRYN_LOGIN" = "") by (destruct (getenv e "QRYN_LOGIN"); [reflexivity|discriminate]).
    tauto.
Qed.
