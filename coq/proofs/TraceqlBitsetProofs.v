(* The bit-set HAVING of AttrConditionPlanner, abstractly (from the design probe C.15):
   each distinct term gets a bit; per index row the mask is the sum of bitShiftLeft(toUInt64(term_i), i);
   per span groupBitOr; HAVING evaluates the boolean tree on bitAnd(bs, 2^i) != 0. *)
From Coq Require Import List NArith ZArith Lia Bool.
Import ListNotations.

(* Each distinct term gets a bit; per index row the mask is the sum of bitShiftLeft(toUInt64(term_i), i);
   per span (GROUP BY trace_id, span_id) groupBitOr; HAVING evaluates the boolean tree on bitAnd(bs, 2^i) != 0 *)
Section TRACEQL.
  Open Scope N_scope.
  Variable row : Type.
  Inductive cond := Term (i : nat) | CAnd (a b : cond) | COr (a b : cond).

  Definition b2n (b : bool) : N := if b then 1 else 0.
  Fixpoint rowmask (ts : list (row -> bool)) (i : N) (r : row) : N :=
    match ts with [] => 0 | t :: ts' => N.shiftl (b2n (t r)) i + rowmask ts' (i + 1) r end.
  Definition bs (ts : list (row -> bool)) (rows : list row) : N :=
    fold_left (fun acc r => N.lor acc (rowmask ts 0 r)) rows 0.

  Fixpoint having (c : cond) (b : N) : bool :=
    match c with
    | Term i => negb (N.land b (2 ^ N.of_nat i) =? 0)
    | CAnd x y => having x b && having y b
    | COr x y => having x b || having y b
    end.
  (* meaning: a term holds for a span when some index row of the span satisfies it *)
  Fixpoint holds (ts : list (row -> bool)) (rows : list row) (c : cond) : bool :=
    match c with
    | Term i => match nth_error ts i with Some t => existsb t rows | None => false end
    | CAnd x y => holds ts rows x && holds ts rows y
    | COr x y => holds ts rows x || holds ts rows y
    end.

  Lemma rowmask_testbit : forall ts i r k,
    N.testbit (rowmask ts i r) k =
      match nth_error ts (N.to_nat (k - i)) with Some t => (i <=? k) && t r | None => false end.
  Proof.
    induction ts as [|c cs IH]; intros i r k; cbn [rowmask].
    - rewrite N.bits_0. destruct (N.to_nat (k - i)); reflexivity.
    - assert (Hdis : N.land (N.shiftl (b2n (c r)) i) (rowmask cs (i + 1) r) = 0).
      { apply N.bits_inj_0. intros m. rewrite N.land_spec, IH.
        destruct (N.ltb_spec m i) as [Hlt|Hge].
        - rewrite N.shiftl_spec_low by lia. reflexivity.
        - rewrite N.shiftl_spec_high' by lia.
          destruct (N.eqb_spec m i) as [->|Hne].
          + replace (i + 1 <=? i) with false by (symmetry; apply N.leb_gt; lia).
            destruct (nth_error cs _); rewrite ?andb_false_r; reflexivity.
          + destruct (c r); cbn [b2n].
            * rewrite N.bits_above_log2; [reflexivity|]. cbn. lia.
            * rewrite N.bits_0. reflexivity. }
      rewrite (N.add_nocarry_lxor _ _ Hdis), N.lxor_spec, IH.
      destruct (N.ltb_spec k i) as [Hlt|Hge].
      + rewrite N.shiftl_spec_low by lia.
        replace (i <=? k) with false by (symmetry; apply N.leb_gt; lia).
        replace (i + 1 <=? k) with false by (symmetry; apply N.leb_gt; lia).
        replace (N.to_nat (k - i)) with 0%nat by lia. cbn.
        destruct (nth_error cs _); reflexivity.
      + rewrite N.shiftl_spec_high' by lia.
        replace (i <=? k) with true by (symmetry; apply N.leb_le; lia).
        destruct (N.eqb_spec k i) as [->|Hne].
        * replace (i - i) with 0 by lia. cbn [N.to_nat nth_error].
          replace (i + 1 <=? i) with false by (symmetry; apply N.leb_gt; lia).
          destruct (c r); cbn; destruct (nth_error cs _); reflexivity.
        * replace (N.to_nat (k - i)) with (S (N.to_nat (k - (i + 1)))) by lia.
          cbn [nth_error].
          replace (i + 1 <=? k) with true by (symmetry; apply N.leb_le; lia).
          assert (N.testbit (b2n (c r)) (k - i) = false) as ->.
          { destruct (c r); cbn [b2n]; [|apply N.bits_0]. apply N.bits_above_log2. cbn. lia. }
          rewrite xorb_false_l. reflexivity.
  Qed.
  Lemma fold_lor_testbit : forall (f : row -> N) rows acc k,
    N.testbit (fold_left (fun a r => N.lor a (f r)) rows acc) k =
    N.testbit acc k || existsb (fun r => N.testbit (f r) k) rows.
  Proof.
    induction rows as [|r rows IH]; intros acc k; cbn [fold_left existsb].
    - now rewrite orb_false_r.
    - rewrite IH, N.lor_spec. now rewrite orb_assoc.
  Qed.
  Lemma land_pow2_testbit b i : negb (N.land b (2 ^ i) =? 0) = N.testbit b i.
  Proof.
    destruct (N.testbit b i) eqn:E.
    - apply negb_true_iff, N.eqb_neq. intros H.
      assert (T : N.testbit (N.land b (2 ^ i)) i = true) by (rewrite N.land_spec, E, N.pow2_bits_true; reflexivity).
      rewrite H, N.bits_0 in T. discriminate.
    - apply negb_false_iff, N.eqb_eq. apply N.bits_inj_0. intros k. rewrite N.land_spec.
      destruct (N.eq_dec k i) as [->|Hne]; [now rewrite E|].
      rewrite N.pow2_bits_false by congruence. apply andb_false_r.
  Qed.

  Theorem having_is_holds ts rows c : having c (bs ts rows) = holds ts rows c.
  Proof.
    induction c as [i|x IHx y IHy|x IHx y IHy]; cbn [having holds]; [|now rewrite IHx, IHy|now rewrite IHx, IHy].
    rewrite land_pow2_testbit. unfold bs. rewrite fold_lor_testbit, N.bits_0. cbn [orb].
    destruct (nth_error ts i) as [t|] eqn:Et.
    - induction rows as [|r rows IH]; cbn [existsb]; [reflexivity|].
      rewrite IH, rowmask_testbit. replace (N.to_nat (N.of_nat i - 0)) with i by lia. rewrite Et.
      replace (0 <=? N.of_nat i) with true by (symmetry; apply N.leb_le; lia). reflexivity.
    - induction rows as [|r rows IH]; cbn [existsb]; [reflexivity|].
      rewrite IH, rowmask_testbit. replace (N.to_nat (N.of_nat i - 0)) with i by lia. now rewrite Et.
  Qed.
End TRACEQL.

