(* C10 — the Tempo v1 statements (model/ScansTempo.v) are value-independent: tag keys and values, the trace id and the tag of a
   values request are values; requests with the same operators give trees with the same erasure. *)
From Qryn Require Import lib.Strs model.Sql model.SqlRender.
From Coq Require Import List ZArith NArith String Ascii Bool Lia.
From Qryn Require Import model.Scans model.ScansTempo.
From Qryn Require Import model.Quote model.ChLex model.SqlSites model.SqlPieces model.SqlPiecesCases model.SqlPiecesSel.
From Qryn Require Import proofs.QuoteProofs proofs.SqlPiecesProofs proofs.SqlEraseProofs proofs.LogqlEraseProofs.
From Qryn Require Import model.SqlPiecesTempo.
Import ListNotations.
Open Scope string_scope.
Open Scope list_scope.

Notation K := (fun _ : string => EmptyString).
Notation E := (subst K).
Notation Es := (subst_sel K).

Lemma E_tag_cond t t' : tag_variant t t' -> E (tag_cond t) = E (tag_cond t').
Proof. unfold tag_variant, tag_cond. intro H. rewrite H. destruct (tg_op t'); reflexivity. Qed.

Lemma Es_and_where_if b cl q q' : Es q = Es q' -> Es (and_where_if b cl q) = Es (and_where_if b cl q').
Proof. intro H. destruct b; cbn [and_where_if]; [apply Es_and_where; [reflexivity|exact H]|exact H]. Qed.

Lemma Es_tag_select tbl t t' f tt mn mx lim v2 : tag_variant t t' ->
  Es (tag_select tbl t f tt mn mx lim v2) = Es (tag_select tbl t' f tt mn mx lim v2).
Proof.
  intro H. unfold tag_select.
  set (q0 := and_where [Eq (Id "key") (StrV (tg_key t)); tag_cond t] _).
  set (q0' := and_where [Eq (Id "key") (StrV (tg_key t')); tag_cond t'] _).
  assert (H0 : Es q0 = Es q0').
  { subst q0 q0'. apply Es_and_where; [|reflexivity]. cbn [map subst Eq]. pose proof (E_tag_cond t t' H) as Hc. cbn [subst] in Hc. rewrite Hc. reflexivity. }
  assert (H1 : Es (if (0 <? lim)%Z && v2 then set_cols (s_cols q0 ++ [Id "timestamp_ns"]) q0 else q0) =
               Es (if (0 <? lim)%Z && v2 then set_cols (s_cols q0' ++ [Id "timestamp_ns"]) q0' else q0')).
  { destruct ((0 <? lim)%Z && v2); [|exact H0]. apply Es_set_cols; [|exact H0]. rewrite !map_app, (Es_cols _ _ H0). reflexivity. }
  clearbody q0 q0'.
  apply Es_and_where_if. apply Es_and_where_if.
  destruct (0 <? tt)%Z; [apply Es_and_where_if; apply Es_and_where; [reflexivity|]|];
  (destruct (0 <? f)%Z; [apply Es_and_where_if; apply Es_and_where; [reflexivity|exact H1]|exact H1]).
Qed.

Definition Ej (j : string * expr * option expr) := (fst (fst j), E (snd (fst j)), map_opt E (snd j)).
Lemma E_index_joins subs subs' : Forall2 (fun q q' => Es q = Es q') subs subs' -> forall i,
  map Ej (index_joins i subs) = map Ej (index_joins i subs').
Proof.
  induction 1 as [|q q' l l' Hq _ IH]; intro i; [reflexivity|].
  cbn [index_joins map]. rewrite (IH (S i)). f_equal.
  unfold Ej, sub_select. cbn [fst snd subst map map_opt]. unfold subst_sel in Hq. rewrite Hq. reflexivity.
Qed.

Lemma Es_index_query db dist tags tags' f t mn mx lim v2 : Forall2 tag_variant tags tags' ->
  match index_query db dist tags f t mn mx lim v2, index_query db dist tags' f t mn mx lim v2 with
  | Some q, Some q' => Es q = Es q'
  | None, None => True
  | _, _ => False
  end.
Proof.
  intro H. unfold index_query.
  set (tbl := ("`" ++ db ++ "`.tempo_traces_attrs_gin" ++ (if dist then "_dist" else ""))%string).
  assert (Hs : Forall2 (fun q q' => Es q = Es q') (map (fun x => tag_select tbl x f t mn mx lim v2) tags) (map (fun x => tag_select tbl x f t mn mx lim v2) tags')).
  { induction H as [|a b l l' Hab _ IH]; [constructor|]. cbn [map]. constructor; [apply Es_tag_select; exact Hab|exact IH]. }
  destruct Hs as [|q0 q0' r r' H0 Hr]; [exact I|].
  assert (Hj : Es (set_joins (index_joins 1 r) (set_from (Col (sub_select q0) "subsel_0") (set_cols [Id "subsel_0.trace_id"; Id "subsel_0.span_id"] empty_select))) =
               Es (set_joins (index_joins 1 r') (set_from (Col (sub_select q0') "subsel_0") (set_cols [Id "subsel_0.trace_id"; Id "subsel_0.span_id"] empty_select)))).
  { rewrite !Fs_set_joins, !Fs_set_from, !Fs_set_cols. fold Ej. rewrite (E_index_joins r r' Hr 1).
    unfold sub_select. cbn [subst map]. unfold subst_sel in H0. rewrite H0. reflexivity. }
  destruct (v2 && (0 <? lim)%Z); [|exact Hj].
  rewrite !Fs_set_limit, !Fs_set_orderby. unfold subst_sel in *. rewrite Hj. reflexivity.
Qed.

Lemma Es_search_query db cl tags tags' lim f t mn mx v2 : Forall2 tag_variant tags tags' ->
  Es (search_query db cl tags lim f t mn mx v2) = Es (search_query db cl tags' lim f t mn mx v2).
Proof.
  intro H. unfold search_query, traces_query. pose proof (Es_index_query db false tags tags' f t mn mx lim v2 H) as Hi.
  set (q0 := set_from _ _).
  assert (H1 : Es (match index_query db false tags f t mn mx lim v2 with Some i => and_where [Sql.In (Raw "(trace_id, span_id)") [SubQ i]] q0 | None => q0 end) =
               Es (match index_query db false tags' f t mn mx lim v2 with Some i => and_where [Sql.In (Raw "(trace_id, span_id)") [SubQ i]] q0 | None => q0 end)).
  { destruct (index_query db false tags f t mn mx lim v2) as [i|], (index_query db false tags' f t mn mx lim v2) as [i'|]; try contradiction; [|reflexivity].
    apply Es_and_where; [|reflexivity]. cbn [map subst]. unfold subst_sel in Hi. rewrite Hi. reflexivity. }
  rewrite !Fs_set_orderby. f_equal.
  assert (H5 : forall a b, Es a = Es b ->
     Es (and_where_if (0 <? mx)%Z [Le (Id "duration_ms") (IntV (mx / 1000000))] (and_where_if (0 <? mn)%Z [Gt (Id "duration_ms") (IntV (mn / 1000000))]
          (and_where_if (0 <? t)%Z [Le (Id "start_time_unix_nano") (IntV t)] (and_where_if (0 <? f)%Z [Ge (Id "start_time_unix_nano") (IntV f)] a)))) =
     Es (and_where_if (0 <? mx)%Z [Le (Id "duration_ms") (IntV (mx / 1000000))] (and_where_if (0 <? mn)%Z [Gt (Id "duration_ms") (IntV (mn / 1000000))]
          (and_where_if (0 <? t)%Z [Le (Id "start_time_unix_nano") (IntV t)] (and_where_if (0 <? f)%Z [Ge (Id "start_time_unix_nano") (IntV f)] b))))).
  { intros a b Hab. repeat apply Es_and_where_if. exact Hab. }
  specialize (H5 _ _ H1). destruct (0 <? lim)%Z; [|exact H5]. rewrite !Fs_set_limit. unfold subst_sel in *. rewrite H5. reflexivity.
Qed.

Lemma Es_trace_query cl id id' s e : Es (trace_query cl id s e) = Es (trace_query cl id' s e).
Proof.
  unfold trace_query.
  set (raw0 := set_limit _ (set_orderby _ (and_where [Eq (Id "trace_id") (Fn "unhex" [StrV id])] _))).
  set (raw0' := set_limit _ (set_orderby _ (and_where [Eq (Id "trace_id") (Fn "unhex" [StrV id'])] _))).
  assert (H0 : Es raw0 = Es raw0') by reflexivity.
  assert (H1 : Es (and_where_if (negb (e =? 0)%Z) [Lt (Id "timestamp_ns") (IntV e)] (and_where_if (negb (s =? 0)%Z) [Ge (Id "timestamp_ns") (IntV s)] raw0)) =
               Es (and_where_if (negb (e =? 0)%Z) [Lt (Id "timestamp_ns") (IntV e)] (and_where_if (negb (s =? 0)%Z) [Ge (Id "timestamp_ns") (IntV s)] raw0')))
    by (repeat apply Es_and_where_if; exact H0).
  clearbody raw0 raw0'.
  rewrite !Fs_set_orderby, !Fs_set_from, !Fs_set_cols, !Fs_with_. cbn [subst mwiths_of]. unfold subst_sel in *. rewrite H1. reflexivity.
Qed.

Lemma Es_values_query cl tg tg' : Es (values_query cl tg) = Es (values_query cl tg').
Proof. reflexivity. Qed.

(* requests of the Tempo v1 API that differ only in values *)
Definition treq_variant (r r' : treq) : Prop :=
  match r, r' with
  | TSearch tags lim mn mx v2, TSearch tags' lim' mn' mx' v2' => Forall2 tag_variant tags tags' /\ lim = lim' /\ mn = mn' /\ mx = mx' /\ v2 = v2'
  | TTrace _ w, TTrace _ w' => w = w'
  | TTags, TTags => True
  | TValues _, TValues _ => True
  | _, _ => False
  end.

Lemma Es_tv1_select c c' : tv_db c = tv_db c' -> tv_cluster c = tv_cluster c' -> tv_from c = tv_from c' -> tv_to c = tv_to c' ->
  treq_variant (tv_req c) (tv_req c') -> Es (tv1_select c) = Es (tv1_select c').
Proof.
  intros Hd Hc Hf Ht Hr. unfold tv1_select. rewrite Hd, Hc, Hf, Ht.
  destruct (tv_req c), (tv_req c'); try contradiction; cbn [treq_variant] in Hr.
  - destruct Hr as (Htags & <- & <- & <- & <-). apply Es_search_query. exact Htags.
  - subst. destruct windowed0; apply Es_trace_query.
  - reflexivity.
  - apply Es_values_query.
Qed.

Theorem tempo_v1_value_independent c c' p : tv_db c = tv_db c' -> tv_cluster c = tv_cluster c' -> tv_from c = tv_from c' -> tv_to c = tv_to c' ->
  treq_variant (tv_req c) (tv_req c') ->
  pieces (tv1_select c) false = Some p -> pok QN p = true ->
  exists p', pieces (tv1_select c') false = Some p' /\ pok QN p' = true /\ shape p' = shape p /\
    render (tv1_select c) false = Some (flat p) /\ render (tv1_select c') false = Some (flat p') /\
    skeleton (lex (flat p')) = skeleton (lex (flat p)) /\
    lex (flat p') = etoks QN p' /\ List.length (rvalues p') = List.length (rvalues p).
Proof. intros Hd Hc Hf Ht Hr. exact (erased_equal_same_structure _ _ false p (Es_tv1_select c c' Hd Hc Hf Ht Hr)). Qed.

Theorem tempo_index_query_value_independent db dist tags tags' f t mn mx lim v2 q p : Forall2 tag_variant tags tags' ->
  index_query db dist tags f t mn mx lim v2 = Some q -> pieces q false = Some p -> pok QN p = true ->
  exists q' p', index_query db dist tags' f t mn mx lim v2 = Some q' /\ pieces q' false = Some p' /\ pok QN p' = true /\ shape p' = shape p /\
    skeleton (lex (flat p')) = skeleton (lex (flat p)) /\ lex (flat p') = etoks QN p' /\ List.length (rvalues p') = List.length (rvalues p).
Proof.
  intros H Hq Hp Hok. pose proof (Es_index_query db dist tags tags' f t mn mx lim v2 H) as Hi. rewrite Hq in Hi.
  destruct (index_query db dist tags' f t mn mx lim v2) as [q'|]; [|contradiction].
  destruct (erased_equal_same_structure q q' false p Hi Hp Hok) as (p' & H1 & H2 & H3 & _ & _ & H6 & H7 & H8).
  exists q', p'. auto 10.
Qed.
