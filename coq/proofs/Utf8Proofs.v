(* UTF-8 facts about model/GoQuote.v used by the label-document round trip (property C04). *)
From Coq Require Import List ZArith Lia String Ascii Bool.
From Qryn Require Import model.GoQuote model.LabelJson.
Import ListNotations.
Open Scope Z_scope.

Lemma chr_byte' c : chr (byte c) = c.
Proof. unfold chr, byte. rewrite N2Z.id. apply ascii_N_embedding. Qed.

Lemma in_rng_spec lo hi b : in_rng lo hi b = true <-> lo <= b <= hi.
Proof. unfold in_rng. rewrite andb_true_iff, !Z.leb_le. tauto. Qed.

Lemma div_unique_pos a b q r : 0 <= r < b -> a = b * q + r -> a / b = q.
Proof. intros Hr ->. symmetry. apply (Z.div_unique (b * q + r) b q r); [left; exact Hr|reflexivity]. Qed.
Lemma mod_unique_pos a b q r : 0 <= r < b -> a = b * q + r -> a mod b = r.
Proof. intros Hr ->. symmetry. apply (Z.mod_unique (b * q + r) b q r); [left; exact Hr|reflexivity]. Qed.

(* what a successful multi-byte decode tells *)
Record rune_at (c : ascii) (r : string) (rn : Z) (w : nat) (p v' : string) : Prop := {
  ra_split : String c r = append p v';
  ra_take : stake w (String c r) = p;
  ra_drop : sdrop w (String c r) = v';
  ra_drop_tail : sdrop (Nat.pred w) r = v';
  ra_len : (String.length v' < String.length (String c r))%nat;
  ra_again : forall t, decode_rune (append p t) = Some (rn, w) /\ stake w (append p t) = p /\ sdrop w (append p t) = t;
  ra_head : exists q, p = String c q;
  ra_bmp : rn < 65536 -> encode_rune rn = p /\ 128 <= rn /\ ~ (55296 <= rn <= 57343)
}.

Lemma decode_rune_multibyte c r rn w :
  128 <= byte c -> decode_rune (String c r) = Some (rn, w) -> exists p v', rune_at c r rn w p v'.
Proof.
  intros Hc H. unfold decode_rune in H.
  replace (byte c <? 128) with false in H by (symmetry; apply Z.ltb_ge; lia).
  destruct (in_rng 194 223 (byte c)) eqn:E2.
  { (* two bytes *)
    destruct r as [|c1 r1]; [discriminate H|].
    destruct (is_cont (byte c1)) eqn:Ec1; [|discriminate H]. inversion H; subst rn w; clear H.
    apply in_rng_spec in E2. pose proof Ec1 as Ec1'. unfold is_cont in Ec1'. apply in_rng_spec in Ec1'.
    exists (String c (String c1 EmptyString)), r1. constructor; try reflexivity.
    - cbn [String.length]. lia.
    - intros t. cbn [append]. unfold decode_rune.
      replace (byte c <? 128) with false by (symmetry; apply Z.ltb_ge; lia).
      replace (in_rng 194 223 (byte c)) with true by (symmetry; apply in_rng_spec; lia).
      rewrite Ec1. auto.
    - eexists. reflexivity.
    - intros _. split; [|lia]. unfold encode_rune.
      set (b0 := byte c) in *. set (b1 := byte c1) in *.
      replace ((b0 - 192) * 64 + (b1 - 128) <? 128) with false by (symmetry; apply Z.ltb_ge; lia).
      replace ((b0 - 192) * 64 + (b1 - 128) <? 2048) with true by (symmetry; apply Z.ltb_lt; lia).
      rewrite (div_unique_pos _ 64 (b0 - 192) (b1 - 128)) by lia.
      rewrite (mod_unique_pos _ 64 (b0 - 192) (b1 - 128)) by lia.
      replace (192 + (b0 - 192)) with b0 by lia. replace (128 + (b1 - 128)) with b1 by lia.
      unfold b0, b1, str1. now rewrite !chr_byte'. }
  destruct (in_rng 224 239 (byte c)) eqn:E3.
  { (* three bytes *)
    destruct r as [|c1 [|c2 r2]]; try discriminate H.
    set (lo := if byte c =? 224 then 160 else 128) in *. set (hi := if byte c =? 237 then 159 else 191) in *.
    destruct (in_rng lo hi (byte c1) && is_cont (byte c2)) eqn:Ec; [|discriminate H]. inversion H; subst rn w; clear H.
    apply in_rng_spec in E3. pose proof Ec as Ec'. apply andb_true_iff in Ec'. destruct Ec' as [Ea Eb].
    apply in_rng_spec in Ea. unfold is_cont in Eb. apply in_rng_spec in Eb.
    exists (String c (String c1 (String c2 EmptyString))), r2. constructor; try reflexivity.
    - cbn [String.length]. lia.
    - intros t. cbn [append]. unfold decode_rune.
      replace (byte c <? 128) with false by (symmetry; apply Z.ltb_ge; lia).
      rewrite E2. replace (in_rng 224 239 (byte c)) with true by (symmetry; apply in_rng_spec; lia).
      fold lo hi. rewrite Ec. auto.
    - eexists. reflexivity.
    - intros _.
      set (b0 := byte c) in *. set (b1 := byte c1) in *. set (b2 := byte c2) in *.
      assert (Hlo : (b0 = 224 -> 160 <= b1) /\ 128 <= b1).
      { unfold lo in Ea. destruct (b0 =? 224) eqn:E; [apply Z.eqb_eq in E|apply Z.eqb_neq in E]; lia. }
      assert (Hhi : (b0 = 237 -> b1 <= 159) /\ b1 <= 191).
      { unfold hi in Ea. destruct (b0 =? 237) eqn:E; [apply Z.eqb_eq in E|apply Z.eqb_neq in E]; lia. }
      set (rn := (b0 - 224) * 4096 + (b1 - 128) * 64 + (b2 - 128)).
      assert (Hrn : 2048 <= rn < 65536) by (unfold rn; lia).
      split; [|split; [lia|unfold rn; lia]].
      unfold encode_rune. fold rn.
      replace (rn <? 128) with false by (symmetry; apply Z.ltb_ge; lia).
      replace (rn <? 2048) with false by (symmetry; apply Z.ltb_ge; lia).
      replace (rn <? 65536) with true by (symmetry; apply Z.ltb_lt; lia).
      rewrite (div_unique_pos rn 4096 (b0 - 224) ((b1 - 128) * 64 + (b2 - 128))) by (unfold rn; lia).
      rewrite (div_unique_pos rn 64 ((b0 - 224) * 64 + (b1 - 128)) (b2 - 128)) by (unfold rn; lia).
      rewrite (mod_unique_pos rn 64 ((b0 - 224) * 64 + (b1 - 128)) (b2 - 128)) by (unfold rn; lia).
      rewrite (mod_unique_pos ((b0 - 224) * 64 + (b1 - 128)) 64 (b0 - 224) (b1 - 128)) by lia.
      replace (224 + (b0 - 224)) with b0 by lia. replace (128 + (b1 - 128)) with b1 by lia.
      replace (128 + (b2 - 128)) with b2 by lia.
      unfold b0, b1, b2, str1. now rewrite !chr_byte'. }
  destruct (in_rng 240 244 (byte c)) eqn:E4; [|discriminate H].
  { (* four bytes: always >= U+10000 *)
    destruct r as [|c1 [|c2 [|c3 r3]]]; try discriminate H.
    set (lo := if byte c =? 240 then 144 else 128) in *. set (hi := if byte c =? 244 then 143 else 191) in *.
    destruct (in_rng lo hi (byte c1) && is_cont (byte c2) && is_cont (byte c3)) eqn:Ec; [|discriminate H].
    inversion H; subst rn w; clear H.
    apply in_rng_spec in E4. pose proof Ec as Ec'. apply andb_true_iff in Ec'. destruct Ec' as [Ec' Ed].
    apply andb_true_iff in Ec'. destruct Ec' as [Ea Eb].
    apply in_rng_spec in Ea. unfold is_cont in Eb, Ed. apply in_rng_spec in Eb. apply in_rng_spec in Ed.
    exists (String c (String c1 (String c2 (String c3 EmptyString)))), r3. constructor; try reflexivity.
    - cbn [String.length]. lia.
    - intros t. cbn [append]. unfold decode_rune.
      replace (byte c <? 128) with false by (symmetry; apply Z.ltb_ge; lia).
      rewrite E2, E3. replace (in_rng 240 244 (byte c)) with true by (symmetry; apply in_rng_spec; lia).
      fold lo hi. rewrite Ec. auto.
    - eexists. reflexivity.
    - intros Hlt. exfalso.
      assert (Hlo : (byte c = 240 -> 144 <= byte c1) /\ 128 <= byte c1).
      { unfold lo in Ea. destruct (byte c =? 240) eqn:E; [apply Z.eqb_eq in E|apply Z.eqb_neq in E]; lia. }
      lia. }
Qed.

(* ------------------------------------------------------------------ hex digits *)
Lemma hexval_hexdigit n : 0 <= n < 16 -> hexval (byte (hexdigit n)) = Some n.
Proof.
  intros H.
  assert (C : n = 0 \/ n = 1 \/ n = 2 \/ n = 3 \/ n = 4 \/ n = 5 \/ n = 6 \/ n = 7 \/ n = 8 \/ n = 9 \/
              n = 10 \/ n = 11 \/ n = 12 \/ n = 13 \/ n = 14 \/ n = 15) by lia.
  repeat (destruct C as [->|C]; [reflexivity|]). subst n. reflexivity.
Qed.

Lemma hex4_hexn r t : 0 <= r < 65536 -> hex4 (append (hexn 4 r) t) = Some (r, t).
Proof.
  intros H. cbn [hexn append str1].
  set (d0 := r mod 16). set (d1 := (r / 16) mod 16). set (d2 := (r / 16 / 16) mod 16). set (d3 := (r / 16 / 16 / 16) mod 16).
  assert (H0 : 0 <= d0 < 16) by (apply Z.mod_pos_bound; lia).
  assert (H1 : 0 <= d1 < 16) by (apply Z.mod_pos_bound; lia).
  assert (H2 : 0 <= d2 < 16) by (apply Z.mod_pos_bound; lia).
  assert (H3 : 0 <= d3 < 16) by (apply Z.mod_pos_bound; lia).
  unfold hex4. rewrite !(hexval_hexdigit _ H0), !(hexval_hexdigit _ H1), !(hexval_hexdigit _ H2), !(hexval_hexdigit _ H3).
  f_equal. f_equal.
  pose proof (Z.div_mod r 16). pose proof (Z.div_mod (r / 16) 16). pose proof (Z.div_mod (r / 16 / 16) 16).
  pose proof (Z.div_mod (r / 16 / 16 / 16) 16).
  assert (r / 16 / 16 / 16 / 16 = 0).
  { rewrite !Z.div_div by lia. apply Z.div_small. lia. }
  unfold d0, d1, d2, d3. lia.
Qed.
