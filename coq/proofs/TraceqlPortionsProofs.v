(* portions_fold_topk: the loop of ComplexRequestProcessor returns a top-`limit` selection of all matching
   traces of the portions processed so far (hence of the whole database after the last portion), whatever
   the per-statement tie-breaking -- in the single-timestamp abstraction of model/TraceqlPortions.v. *)
From Coq Require Import List ZArith NArith Bool Sorted Lia.
From Qryn Require Import model.TraceqlPortions.
Import ListNotations.

Section PROOF.
  Variable all : list tr.
  Variable part : N -> N.
  Variable k : nat.
  Variable from0 : Z.
  Hypothesis Hids : NoDup (map tid all).      (* trace ids are unique *)
  Hypothesis Hk : (1 <= k)%nat.               (* limit 0 means "no limit": ComplexRequestProcessor is not meaningful then *)

  Notation V := (V all part).
  Notation U := (U all part from0).
  Notation reach := (reach all part k from0).

  Lemma NoDup_all : NoDup all.
  Proof. eapply NoDup_map_inv. exact Hids. Qed.

  Lemma same_id x y : In x all -> In y all -> tid x = tid y -> x = y.
  Proof.
    intros Hx Hy E. clear Hk. induction all as [|a l IH]; [destruct Hx|].
    cbn [map] in Hids. inversion Hids as [|? ? Hn Hnd]; subst.
    destruct Hx as [->|Hx], Hy as [->|Hy]; try reflexivity.
    - exfalso. apply Hn. rewrite E. now apply in_map.
    - exfalso. apply Hn. rewrite <- E. now apply in_map.
    - now apply IH.
  Qed.

  Lemma has_id_in S t : incl S all -> In t all -> has_id S t = true -> In t S.
  Proof.
    intros HS Ht H. unfold has_id in H. apply existsb_exists in H. destruct H as [s [Hs E]]. apply N.eqb_eq in E.
    now rewrite <- (same_id s t (HS s Hs) Ht E).
  Qed.
  Lemma in_has_id S t : In t S -> has_id S t = true.
  Proof. intros H. unfold has_id. apply existsb_exists. exists t. split; [assumption|apply N.eqb_refl]. Qed.

  Lemma NoDup_filter {A} (f : A -> bool) l : NoDup l -> NoDup (filter f l).
  Proof.
    induction 1 as [|x l Hn Hnd IH]; cbn [filter]; [constructor|].
    destruct (f x); [constructor; [|assumption]|assumption]. intros H. apply Hn. now apply filter_In in H.
  Qed.

  (* the next lower bound is a lower bound of the winners *)
  Lemma fold_le : forall l f0,
    newest_first l -> (forall u, In u l -> (tkey u <= f0)%Z) -> (fold_left from_step l f0 <= f0)%Z.
  Proof.
    induction l as [|b l IHl]; intros f0 Hsl Hb'; cbn [fold_left]; [lia|].
    apply StronglySorted_inv in Hsl. destruct Hsl as [Hsl Hall]. rewrite Forall_forall in Hall.
    assert (Hle : (tkey b <= f0)%Z) by (apply Hb'; now left).
    assert (Hsb : from_step f0 b = tkey b \/ (from_step f0 b = f0 /\ f0 = tkey b)).
    { unfold from_step. destruct (unset f0); [left; reflexivity|]. cbn [orb].
      destruct (Z.ltb_spec (tkey b) f0); [left; reflexivity|right; split; [reflexivity|lia]]. }
    assert (Hb2 : forall u, In u l -> (tkey u <= from_step f0 b)%Z).
    { intros u Hu. specialize (Hall u Hu). destruct Hsb as [->|[-> ->]]; lia. }
    specialize (IHl (from_step f0 b) Hsl Hb2). destruct Hsb as [E|[E _]]; rewrite E in *; lia.
  Qed.

  Lemma fold_from_sorted : forall R f,
    newest_first R -> (forall t, In t R -> (tkey t <= f)%Z) ->
    forall t, In t R -> (fold_left from_step R f <= tkey t)%Z.
  Proof.
    induction R as [|a l IH]; intros f Hs Hb t Ht; [destruct Ht|].
    apply StronglySorted_inv in Hs. destruct Hs as [Hsl Hall]. cbn [fold_left].
    assert (Hstep : from_step f a = tkey a).
    { unfold from_step. destruct (unset f); [reflexivity|]. cbn [orb].
      destruct (Z.ltb_spec (tkey a) f); [reflexivity|]. specialize (Hb a (or_introl eq_refl)). lia. }
    rewrite Hstep.
    assert (Hb' : forall u, In u l -> (tkey u <= tkey a)%Z) by (rewrite Forall_forall in Hall; exact Hall).
    destruct Ht as [->|Ht]; [now apply fold_le|now apply IH].
  Qed.

  Lemma fold_from_lower R t : newest_first R -> In t R -> (fold_from R <= tkey t)%Z.
  Proof.
    intros Hs Ht. unfold fold_from. destruct R as [|a l]; [destruct Ht|]. cbn [fold_left].
    assert (H0 : from_step 0 a = tkey a) by reflexivity. rewrite H0.
    pose proof Hs as Hs'. apply StronglySorted_inv in Hs'. destruct Hs' as [Hsl Hall]. rewrite Forall_forall in Hall.
    destruct Ht as [->|Ht].
    - destruct l as [|b l']; [cbn; lia|].
      pose proof (fold_from_sorted (b :: l') (tkey t) Hsl (fun u Hu => Hall u Hu) b (or_introl eq_refl)) as Hb.
      specialize (Hall b (or_introl eq_refl)). lia.
    - apply (fold_from_sorted l (tkey a) Hsl (fun u Hu => Hall u Hu) t Ht).
  Qed.
  Lemma fold_from_is_key R : R <> [] -> exists t, In t R /\ fold_from R = tkey t.
  Proof.
    unfold fold_from. destruct R as [|a l]; [congruence|]. intros _. cbn [fold_left].
    assert (H0 : from_step 0 a = tkey a) by reflexivity. rewrite H0.
    assert (G : forall l f, (exists t, In t (a :: l) /\ f = tkey t) \/ False ->
                            forall l', incl l' (a :: l) -> exists t, In t (a :: l) /\ fold_left from_step l' f = tkey t).
    { clear. intros l f [Hf|[]] l'. revert f Hf. induction l' as [|b l' IH]; intros f Hf Hi; cbn [fold_left]; [exact Hf|].
      apply IH; [|intros u Hu; apply Hi; now right].
      unfold from_step. destruct (unset f || (tkey b <? f)%Z); [|exact Hf]. exists b. split; [apply Hi; now left|reflexivity]. }
    apply (G l (tkey a)); [left; exists a; split; [now left|reflexivity]|]. intros u Hu. now right.
  Qed.

  (* the invariant of the loop *)
  Definition Inv (i : N) (S : list tr) (f : Z) : Prop :=
    topk k (U i) S /\ (from0 <= f)%Z /\ (forall s, In s S -> (f <= tkey s)%Z) /\ (f = from0 \/ List.length S = k).

  Lemma U_in n t : In t (U n) <-> In t all /\ (part (tid t) < n)%N /\ (from0 <= tkey t)%Z.
  Proof.
    unfold TraceqlPortions.U. rewrite filter_In, andb_true_iff, N.ltb_lt, Z.leb_le. tauto.
  Qed.
  Lemma V_in i S f t : In t (V i S f) <-> In t all /\ (part (tid t) = i \/ has_id S t = true) /\ (f <= tkey t)%Z.
  Proof.
    unfold TraceqlPortions.V, visible. rewrite filter_In, andb_true_iff, orb_true_iff, N.eqb_eq, Z.leb_le. tauto.
  Qed.

  Lemma step_inv i S f R :
    Inv i S f -> topk k (V i S f) R -> newest_first R -> Inv (i + 1) R (next_from k R f).
  Proof.
    intros [[HSnd [HSin [HSlen HSord]]] [Hf0 [HfS Hfull]]] [HRnd [HRin [HRlen HRord]]] Hsorted.
    assert (HSall : incl S all) by (intros s Hs; apply (proj1 (proj1 (U_in i s) (HSin s Hs)))).
    assert (HSV : incl S (V i S f)).
    { intros s Hs. apply V_in. split; [now apply HSall|]. split; [right; now apply in_has_id|now apply HfS]. }
    assert (HVnd : NoDup (V i S f)) by (apply NoDup_filter, NoDup_all).
    assert (HUnd : forall n, NoDup (U n)) by (intros n; apply NoDup_filter, NoDup_all).
    assert (HVU : incl (V i S f) (U (i + 1))).
    { intros x Hx. apply V_in in Hx. destruct Hx as [Hxa [Hp Hk']]. apply U_in. split; [assumption|].
      destruct Hp as [Hp|Hp].
      - split; lia.
      - pose proof (has_id_in S x HSall Hxa Hp) as HxS. apply HSin, U_in in HxS. destruct HxS as [_ [Hp' Hk2]]. split; lia. }
    assert (HSk : List.length S = k -> (k <= List.length (V i S f))%nat).
    { intros E. rewrite <- E. now apply NoDup_incl_length. }
    (* an element of U (i+1) outside V: the winners are k, and it is not newer than any of them *)
    assert (Hout : forall x, In x (U (i + 1)) -> ~ In x (V i S f) ->
                             List.length S = k /\ forall s, In s S -> (tkey x <= tkey s)%Z).
    { intros x Hx Hnv. apply U_in in Hx. destruct Hx as [Hxa [Hp Hk']].
      destruct (N.eq_dec (part (tid x)) i) as [Hpi|Hpi].
      - (* in this portion but older than the lower bound *)
        assert (Hlt : (tkey x < f)%Z).
        { destruct (Z.lt_ge_cases (tkey x) f) as [H|H]; [assumption|]. exfalso. apply Hnv. apply V_in. split; [assumption|]. split; [now left|lia]. }
        destruct Hfull as [->|HL]; [lia|]. split; [assumption|]. intros s Hs. specialize (HfS s Hs). lia.
      - assert (HxU : In x (U i)) by (apply U_in; split; [assumption|split; [lia|assumption]]).
        assert (HxS : ~ In x S) by (intros H; apply Hnv; now apply HSV).
        assert (HL : List.length S = k).
        { rewrite HSlen. apply Nat.min_l.
          assert (Hlt : (List.length S < List.length (U i))%nat).
          { assert (Hincl : incl (x :: S) (U i)) by (intros z [<-|Hz]; [assumption|now apply HSin]).
            pose proof (NoDup_incl_length (NoDup_cons x HxS HSnd) Hincl) as Hl. cbn [List.length] in Hl. lia. }
          rewrite HSlen in Hlt. lia. }
        split; [assumption|]. intros s Hs. now apply HSord. }
    unfold Inv. split; [|split; [|split]].
    - (* R is a top-k selection of U (i+1) *)
      split; [assumption|]. split; [intros x Hx; exact (HVU x (HRin x Hx))|]. split.
      + rewrite HRlen.
        pose proof (NoDup_incl_length HVnd HVU) as HleVU.
        destruct (Nat.le_gt_cases k (List.length (V i S f))) as [Hge|Hlt].
        * rewrite !Nat.min_l by lia. reflexivity.
        * (* fewer than k visible: nothing of U (i+1) is hidden *)
          assert (HUV : incl (U (i + 1)) (V i S f)).
          { intros x Hx. destruct (in_dec (fun a b : tr => ltac:(decide equality; [apply Z.eq_dec|apply N.eq_dec])) x (V i S f)) as [H|H]; [assumption|].
            destruct (Hout x Hx H) as [HL _]. specialize (HSk HL). lia. }
          pose proof (NoDup_incl_length (HUnd (i + 1)%N) HUV) as HleUV.
          rewrite !Nat.min_r by lia. lia.
      + intros x y Hx Hnx Hy.
        destruct (in_dec (fun a b : tr => ltac:(decide equality; [apply Z.eq_dec|apply N.eq_dec])) x (V i S f)) as [HxV|HxV].
        * now apply HRord.
        * destruct (Hout x Hx HxV) as [HL Hxs].
          destruct (in_dec (fun a b : tr => ltac:(decide equality; [apply Z.eq_dec|apply N.eq_dec])) y S) as [HyS|HyS]; [now apply Hxs|].
          (* y is a winner outside S: some s of S lost to it *)
          assert (Hex : exists s, In s S /\ ~ In s R).
          { destruct (Exists_dec (fun s => ~ In s R) S) as [He|Hne].
            - intros s. destruct (in_dec (fun a b : tr => ltac:(decide equality; [apply Z.eq_dec|apply N.eq_dec])) s R); [right; tauto|left; assumption].
            - apply Exists_exists in He. exact He.
            - exfalso. assert (Hall : incl (y :: S) R).
              { intros z [<-|Hz]; [assumption|].
                destruct (in_dec (fun a b : tr => ltac:(decide equality; [apply Z.eq_dec|apply N.eq_dec])) z R) as [H|H]; [assumption|].
                exfalso. apply Hne. apply Exists_exists. exists z. split; assumption. }
              pose proof (NoDup_incl_length (NoDup_cons y HyS HSnd) Hall) as Hl. cbn [List.length] in Hl.
              rewrite HRlen, HL in Hl. pose proof (Nat.le_min_l k (List.length (V i S f))). lia. }
          destruct Hex as [s [HsS HsR]].
          specialize (HRord s y (HSV s HsS) HsR Hy). specialize (Hxs s HsS). lia.
    - (* from0 <= next lower bound *)
      unfold next_from. destruct (Nat.eqb_spec (List.length R) k) as [E|E]; [|assumption].
      destruct (fold_from_is_key R) as [t [Ht ->]]; [intros ->; cbn in E; lia|].
      apply HRin, V_in in Ht. lia.
    - intros s Hs. unfold next_from. destruct (Nat.eqb_spec (List.length R) k) as [E|E].
      + now apply fold_from_lower.
      + apply HRin, V_in in Hs. lia.
    - unfold next_from. destruct (Nat.eqb_spec (List.length R) k) as [E|E]; [now right|].
      destruct Hfull as [->|HL]; [now left|]. exfalso. specialize (HSk HL). rewrite HRlen in E. lia.
  Qed.

  Lemma inv0 : Inv 0 [] from0.
  Proof.
    unfold Inv. split; [|split; [lia|split; [intros s []|now left]]].
    assert (HU0 : U 0 = []).
    { unfold TraceqlPortions.U. induction all as [|a l IH]; [reflexivity|]. cbn [filter].
      assert (E : N.ltb (part (tid a)) 0 = false) by (apply N.ltb_ge; lia). rewrite E. cbn [andb]. apply IH.
      cbn [map] in Hids. now inversion Hids. }
    rewrite HU0. split; [constructor|]. split; [intros x []|]. split; [now rewrite Nat.min_0_r|intros x y []].
  Qed.

  Theorem reach_topk n S f : reach n S f -> topk k (U n) S.
  Proof.
    intros H. enough (Inv n S f) as [HT _] by exact HT.
    induction H as [|i S f R Hr IH Ht Hs]; [exact inv0|]. exact (step_inv i S f R IH Ht Hs).
  Qed.
End PROOF.

(* ================================================================ a recorded run of the real loop that passes run_model is a path of reach *)
Lemma tr_eqb_eq a b : tr_eqb a b = true <-> a = b.
Proof.
  unfold tr_eqb. destruct a as [ia ka], b as [ib kb]. cbn [tid tkey]. rewrite andb_true_iff, N.eqb_eq, Z.eqb_eq. split.
  - intros [-> ->]. reflexivity.
  - intros H. injection H as -> ->. split; reflexivity.
Qed.
Lemma mem_In t l : mem t l = true <-> In t l.
Proof.
  unfold mem. rewrite existsb_exists. split.
  - intros [x [Hx E]]. apply tr_eqb_eq in E. now subst x.
  - intros H. exists t. split; [assumption|]. now apply tr_eqb_eq.
Qed.
Lemma nodup_b_NoDup l : nodup_b l = true -> NoDup l.
Proof.
  induction l as [|x l IH]; intros H; [constructor|]. cbn [nodup_b] in H. apply andb_true_iff in H. destruct H as [H1 H2].
  constructor; [|now apply IH]. intros Hin. apply mem_In in Hin. rewrite Hin in H1. discriminate.
Qed.
Lemma sorted_b_sorted l : sorted_b l = true -> newest_first l.
Proof.
  unfold newest_first. induction l as [|x l IH]; intros H; [constructor|]. cbn [sorted_b] in H. apply andb_true_iff in H. destruct H as [H1 H2].
  constructor; [now apply IH|]. rewrite forallb_forall in H1. apply Forall_forall. intros y Hy. apply Z.leb_le. now apply H1.
Qed.
Lemma topk_b_topk k U R : topk_b k U R = true -> topk k U R.
Proof.
  unfold topk_b, topk. intros H. apply andb_true_iff in H. destruct H as [H H4]. apply andb_true_iff in H. destruct H as [H H3].
  apply andb_true_iff in H. destruct H as [H1 H2]. split; [now apply nodup_b_NoDup|]. split; [|split].
  - intros x Hx. rewrite forallb_forall in H2. apply mem_In. now apply H2.
  - now apply Nat.eqb_eq.
  - intros x y Hx Hnx Hy. rewrite forallb_forall in H4. specialize (H4 x Hx). apply orb_true_iff in H4. destruct H4 as [H4|H4].
    + apply mem_In in H4. contradiction.
    + rewrite forallb_forall in H4. apply Z.leb_le. now apply H4.
Qed.

Theorem run_model_reach all part k portions from0 : forall steps i W f n W' f',
  reach all part k from0 i W f -> run_model all part k portions i W f steps = RunOk n W' f' -> reach all part k from0 n W' f'.
Proof.
  induction steps as [|s rest IH]; intros i W f n W' f' Hr H; cbn [run_model] in H.
  - injection H as <- <- <-. exact Hr.
  - destruct (negb (N.eqb (st_max s) portions && N.eqb (st_i s) i)); [discriminate|].
    destruct (negb (list_N_eqb (st_cached s) (map tid W))); [discriminate|].
    destruct (negb (Z.eqb (st_from s) f)); [discriminate|].
    destruct (resolve all (st_rows s)) as [R|]; [|discriminate].
    destruct (topk_b k (V all part i W f) R && sorted_b R) eqn:E; [|discriminate].
    apply andb_true_iff in E. destruct E as [E1 E2].
    apply (IH (i + 1)%N R (next_from k R f) n W' f'); [|exact H].
    apply (reachS all part k from0 i W f R Hr); [now apply topk_b_topk|now apply sorted_b_sorted].
Qed.

Lemma run_model_bad_code all part k portions : forall steps i W f st code e g,
  run_model all part k portions i W f steps = RunBad st code e g -> code <> 0%Z.
Proof.
  induction steps as [|s rest IH]; intros i W f st code e g H; cbn [run_model] in H; [discriminate|].
  destruct (negb (N.eqb (st_max s) portions && N.eqb (st_i s) i)); [injection H as _ <- _ _; discriminate|].
  destruct (negb (list_N_eqb (st_cached s) (map tid W))); [injection H as _ <- _ _; discriminate|].
  destruct (negb (Z.eqb (st_from s) f)); [injection H as _ <- _ _; discriminate|].
  destruct (resolve all (st_rows s)) as [R|]; [|injection H as _ <- _ _; discriminate].
  destruct (topk_b k (V all part i W f) R && sorted_b R); [|injection H as _ <- _ _; discriminate].
  eapply IH; exact H.
Qed.

Lemma ids_distinct_NoDup l : ids_distinct l = true -> NoDup l.
Proof.
  induction l as [|x l IH]; intros H; [constructor|]. cbn [ids_distinct] in H. apply andb_true_iff in H. destruct H as [H1 H2].
  constructor; [|now apply IH]. intros Hin. apply negb_true_iff in H1. assert (Hex : existsb (N.eqb x) l = true) by (apply existsb_exists; exists x; split; [assumption|apply N.eqb_refl]).
  congruence.
Qed.

(* the judgement the check computes on every recorded run: code 0 means the run of the real loop is a path of the model's relation,
   hence (reach_topk) its answer is a top-`limit` selection of all matching traces of the portions processed *)
Theorem loop_code_sound c n : loop_code c = (0%Z, n, 0%Z, 0%Z) ->
  n = lc_portions c /\ exists W f, reach (lc_all c) (part_of (lc_parts c)) (lc_k c) (lc_from0 c) n W f /\ map tid W = lc_final c
              /\ topk (lc_k c) (U (lc_all c) (part_of (lc_parts c)) (lc_from0 c) n) W.
Proof.
  unfold loop_code.
  destruct (ids_distinct (map tid (lc_all c)) && Nat.ltb 0 (lc_k c)) eqn:Eg; cbn [negb]; [|discriminate].
  apply andb_true_iff in Eg. destruct Eg as [Eid Ek].
  destruct (run_model _ _ _ _ _ _ _ _) as [n' W f|st code e g] eqn:Er.
  - destruct (negb (N.eqb n' (lc_portions c))) eqn:En; [discriminate|].
    destruct (negb (list_N_eqb (lc_final c) (map tid W))) eqn:Ef; [discriminate|].
    destruct (negb (topk_b _ _ W)) eqn:Et; [discriminate|]. intros H. injection H as <-.
    assert (Hr : reach (lc_all c) (part_of (lc_parts c)) (lc_k c) (lc_from0 c) n' W f)
      by (eapply run_model_reach; [apply reach0|exact Er]).
    split; [apply negb_false_iff in En; now apply N.eqb_eq|]. exists W, f. split; [exact Hr|]. split.
    + apply negb_false_iff in Ef. clear -Ef. revert Ef. generalize (map tid W) as b. induction (lc_final c) as [|x a IH]; intros [|y b] H; cbn [list_N_eqb] in H; try discriminate; [reflexivity|].
      apply andb_true_iff in H. destruct H as [H1 H2]. apply N.eqb_eq in H1. subst y. f_equal. now apply IH.
    + apply Nat.ltb_lt in Ek.
      exact (reach_topk (lc_all c) (part_of (lc_parts c)) (lc_k c) (lc_from0 c) (ids_distinct_NoDup _ Eid) Ek n' W f Hr).
  - intros H. injection H as -> _ _ _. exfalso. exact (run_model_bad_code _ _ _ _ _ _ _ _ _ _ _ _ Er eq_refl).
Qed.
