From Coq Require Import List String Ascii Bool NArith ZArith Lia.
From Qryn Require Import model.SqlSites model.GoFmt proofs.GoFmtProofs model.GoFmtInt proofs.GoFmtIntProofs.
From Qryn Require Import model.GoFmtIdx.
Import ListNotations.
Open Scope string_scope.

(* ---- on formats without an index this model is GoFmtInt.v *)
Lemma skipn_cons_nth : forall (A : Type) k (l : list A) a r, skipn k l = a :: r -> nth_error l k = Some a /\ skipn (S k) l = r.
Proof.
  induction k as [|k IH]; intros l a r H.
  - destruct l; cbn in H; [discriminate|]. injection H as -> ->. split; reflexivity.
  - destruct l as [|x l]; cbn in H; [discriminate|]. apply IH in H. exact H.
Qed.

Lemma skipn_nil_nth : forall (A : Type) k (l : list A), skipn k l = [] -> nth_error l k = None.
Proof.
  induction k as [|k IH]; intros l H.
  - destruct l; [reflexivity|discriminate].
  - destruct l as [|x l]; [reflexivity|]. cbn in H. cbn. apply IH. exact H.
Qed.

Lemma bracket_is_spec : forall v, Ascii.eqb v "[" = true -> spec_byte v = true.
Proof. intros v H. apply Ascii.eqb_eq in H. subst. reflexivity. Qed.

Lemma zero_is_spec : forall v, Ascii.eqb v "0" = true -> spec_byte v = true.
Proof. intros v H. apply Ascii.eqb_eq in H. subst. reflexivity. Qed.

Lemma go3_refines_fmt_go2 : forall f all k o, fmt_go2 f (skipn k all) = Some o -> go3 all f MText k false = Some o.
Proof.
  fix IH 1. intros f all k o H. destruct f as [|c r]; [cbn in *; exact H|].
  cbn [fmt_go2] in H. cbn [go3]. destruct (is_pct c).
  - destruct r as [|v r']; [cbn in *; exact H|]. cbn [go3]. unfold outside_verb.
    destruct (Ascii.eqb v "[") eqn:Eb.
    { rewrite (bracket_is_spec v Eb) in H. cbn in H. discriminate. }
    destruct (Ascii.eqb v "0") eqn:Ez.
    { rewrite (zero_is_spec v Ez) in H. cbn in H. discriminate. }
    destruct (spec_byte v || other_notation v || (128 <=? N_of_ascii v)%N); [discriminate|].
    destruct (is_pct v).
    + destruct (fmt_go2 r' (skipn k all)) as [o'|] eqn:E; [|discriminate]. rewrite (IH r' all k o' E). exact H.
    + unfold verb_at. destruct (skipn k all) as [|a rest] eqn:Es.
      * rewrite (skipn_nil_nth _ _ _ Es). cbn [print_verb2] in H.
        destruct (fmt_go2 r' []) as [o'|] eqn:E; [|discriminate]. rewrite <- Es in E. rewrite (IH r' all k o' E). exact H.
      * destruct (skipn_cons_nth _ _ _ _ _ Es) as [Hn Hs]. rewrite Hn.
        cbn [print_verb2] in H |- *. destruct (good_verb v a).
        -- destruct (fmt_go2 r' rest) as [o'|] eqn:E; [|discriminate]. rewrite <- Hs in E. rewrite (IH r' all (S k) o' E). exact H.
        -- destruct a as [s|ty z].
           ++ destruct (fmt_go2 r' rest) as [o'|] eqn:E; [|discriminate]. rewrite <- Hs in E. rewrite (IH r' all (S k) o' E). exact H.
           ++ destruct (int_other_notation v); [discriminate|].
              destruct (fmt_go2 r' rest) as [o'|] eqn:E; [|discriminate]. rewrite <- Hs in E. rewrite (IH r' all (S k) o' E). exact H.
  - destruct (fmt_go2 r (skipn k all)) as [o'|] eqn:E; [|discriminate]. rewrite (IH r all k o' E). exact H.
Qed.

Lemma fmt_go3_refines_fmt_go2 : forall f ops o, fmt_go2 f ops = Some o -> fmt_go3 f ops = Some o.
Proof. intros f ops o H. apply (go3_refines_fmt_go2 f ops 0 o). exact H. Qed.

(* ---- texts and directives *)
Lemma go3_text : forall t f all k b, pct_free t = true ->
  go3 all (t ++ f) MText k b = option_map (fun o => t ++ o) (go3 all f MText k b).
Proof.
  induction t as [|c r IH]; intros f all k b H; cbn in *.
  - destruct (go3 all f MText k b); reflexivity.
  - apply andb_true_iff in H. destruct H as [Hc Hr].
    destruct (is_pct c); [discriminate|]. rewrite (IH f all k b Hr).
    destruct (go3 all f MText k b); reflexivity.
Qed.

Lemma go3_verb_free : forall t all k, pct_free t = true -> go3 all t MText k true = Some t.
Proof.
  induction t as [|c r IH]; intros all k H; cbn in *; [reflexivity|].
  apply andb_true_iff in H. destruct H as [Hc Hr]. destruct (is_pct c); [discriminate|]. rewrite (IH all k Hr). reflexivity.
Qed.

Lemma nth_nth_error : forall (l : list operand) n d, n < List.length l -> nth_error l n = Some (nth n l d).
Proof.
  induction l as [|x l IH]; intros n d H; cbn in H; [lia|].
  destruct n; [reflexivity|]. cbn. apply IH. lia.
Qed.

Lemma verb_char_prints : forall a, print_verb2 (verb_char a) [a] = Some (show a, []).
Proof. intros [s|ty z]; reflexivity. Qed.

Lemma verb_char_inside : forall a, outside_verb (verb_char a) || is_pct (verb_char a) = false.
Proof. intros [s|ty z]; reflexivity. Qed.

(* the directive %[i]verb, i between 1 and 9 and at most the number of operands: operand i under its verb; the next operand is i+1,
   and from here on fmt does not report unused operands *)
Lemma go3_idx_verb : forall all i f k b, idx_ok all i = true ->
  go3 all (idx_verb i (nth (i - 1) all (OStr "")) ++ f) MText k b
  = option_map (fun o => show (nth (i - 1) all (OStr "")) ++ o) (go3 all f MText i true).
Proof.
  intros all i f k b H. unfold idx_ok in H.
  apply andb_true_iff in H. destruct H as [H H3]. apply andb_true_iff in H. destruct H as [H1 H2].
  apply Nat.leb_le in H1, H2, H3.
  set (a := nth (i - 1) all (OStr "")).
  assert (Hn : nth_error all (i - 1) = Some a) by (apply nth_nth_error; lia).
  assert (Hd : digit_of (idx_digit i) = Some i).
  { do 10 (destruct i as [|i]; [try lia; reflexivity|]). lia. }
  assert (Hb : Ascii.eqb (idx_digit i) "]" = false).
  { do 10 (destruct i as [|i]; [try lia; reflexivity|]). lia. }
  unfold idx_verb. cbn [append go3]. change (is_pct "%") with true. cbv iota.
  change (Ascii.eqb "[" "[") with true. cbv iota. rewrite Hd.
  change (digit_of "]") with (@None nat). cbv iota. change (Ascii.eqb "]" "]") with true. cbv iota.
  rewrite (verb_char_inside a).
  replace (Nat.eqb i 0) with false by (symmetry; apply Nat.eqb_neq; lia).
  replace (Nat.ltb (List.length all) i) with false by (symmetry; apply Nat.ltb_ge; lia).
  cbn [orb]. unfold verb_at. rewrite Hn, verb_char_prints.
  replace (S (i - 1)) with i by lia. reflexivity.
Qed.

(* ---- the census's reading of a constant format whose directives name their operands *)
Lemma go3_constant_format_idx : forall ops texts idxs k,
  forallb pct_free texts = true -> S (List.length idxs) = List.length texts -> forallb (idx_ok ops) idxs = true ->
  go3 ops (mkformat3 ops texts idxs) MText k true
  = Some (interleave texts (map (fun i => show (nth (i - 1) ops (OStr ""))) idxs)).
Proof.
  intros ops. induction texts as [|t ts IH]; intros idxs k Hp Hl Hi.
  - cbn in Hl. discriminate.
  - destruct (forallb_tl _ _ _ _ Hp) as [Ht Hts].
    destruct ts as [|t2 ts2].
    + destruct idxs; [|cbn in Hl; discriminate]. cbn [mkformat3 interleave map].
      apply go3_verb_free. exact Ht.
    + destruct idxs as [|i r]; [cbn in Hl; discriminate|].
      cbn [forallb] in Hi. apply andb_true_iff in Hi. destruct Hi as [Hi Hr].
      change (mkformat3 ops (t :: t2 :: ts2) (i :: r)) with (t ++ idx_verb i (nth (i - 1) ops (OStr "")) ++ mkformat3 ops (t2 :: ts2) r).
      change (interleave (t :: t2 :: ts2) (map (fun i => show (nth (i - 1) ops (OStr ""))) (i :: r)))
        with (t ++ show (nth (i - 1) ops (OStr "")) ++ interleave (t2 :: ts2) (map (fun i => show (nth (i - 1) ops (OStr ""))) r)).
      rewrite go3_text by exact Ht. rewrite go3_idx_verb by exact Hi.
      rewrite (IH r i Hts) by (try exact Hr; cbn in Hl |- *; lia). reflexivity.
Qed.

Lemma fmt3_constant_format_idx : forall ops texts idxs,
  forallb pct_free texts = true -> S (List.length idxs) = List.length texts -> idxs <> [] -> forallb (idx_ok ops) idxs = true ->
  fmt_go3 (mkformat3 ops texts idxs) ops
  = Some (interleave texts (map (fun i => show (nth (i - 1) ops (OStr ""))) idxs)).
Proof.
  intros ops texts idxs Hp Hl Hne Hi. unfold fmt_go3.
  destruct idxs as [|i r]; [congruence|].
  destruct texts as [|t [|t2 ts2]]; try (cbn in Hl; lia).
  destruct (forallb_tl _ _ _ _ Hp) as [Ht Hts].
  cbn [forallb] in Hi. apply andb_true_iff in Hi. destruct Hi as [Hi Hr].
  change (mkformat3 ops (t :: t2 :: ts2) (i :: r)) with (t ++ idx_verb i (nth (i - 1) ops (OStr "")) ++ mkformat3 ops (t2 :: ts2) r).
  change (interleave (t :: t2 :: ts2) (map (fun i => show (nth (i - 1) ops (OStr ""))) (i :: r)))
    with (t ++ show (nth (i - 1) ops (OStr "")) ++ interleave (t2 :: ts2) (map (fun i => show (nth (i - 1) ops (OStr ""))) r)).
  rewrite go3_text by exact Ht. rewrite go3_idx_verb by exact Hi.
  rewrite (go3_constant_format_idx ops (t2 :: ts2) r i Hts) by (try exact Hr; cbn in Hl |- *; lia). reflexivity.
Qed.

(* ---- zero padding: %0<w>d of an integer is a text over "-0123456789" for every width and every integer *)
Lemma over_app : forall al a b, SqlSites.over al a = true -> SqlSites.over al b = true -> SqlSites.over al (a ++ b) = true.
Proof.
  intros al a b Ha Hb. unfold SqlSites.over in *. induction a as [|c r IH]; cbn in *; [exact Hb|].
  apply andb_true_iff in Ha. destruct Ha as [Hc Hr]. rewrite Hc, (IH Hr). reflexivity.
Qed.

Lemma zeros_digits : forall n, SqlSites.over dec_alphabet (zeros n) = true.
Proof. induction n as [|n IH]; [reflexivity|]. cbn [zeros]. change (SqlSites.over dec_alphabet (String "0" (zeros n))) with (true && SqlSites.over dec_alphabet (zeros n)). rewrite IH. reflexivity. Qed.

Lemma pad0_over_dec_alphabet : forall w z, SqlSites.over dec_alphabet (pad0 w z) = true.
Proof.
  intros w z. unfold pad0. destruct (z <? 0)%Z.
  - change (true && SqlSites.over dec_alphabet (zeros (w - 1 - String.length (dec (Z.abs z))) ++ dec (Z.abs z)) = true).
    cbn [andb]. apply over_app; [apply zeros_digits|apply dec_over_dec_alphabet].
  - apply over_app; [apply zeros_digits|apply dec_over_dec_alphabet].
Qed.

(* the directive in a constant format: text, %0<w>d (w one digit, not 0), text, over one integer *)
Lemma go3_zero_padded : forall pre post ty z w, pct_free pre = true -> pct_free post = true -> 1 <= w <= 9 ->
  fmt_go3 (pre ++ String "%" (String "0" (String (idx_digit w) (String "d" post)))) [OInt ty z] = Some (pre ++ pad0 w z ++ post)
  /\ SqlSites.over dec_alphabet (pad0 w z) = true.
Proof.
  intros pre post ty z w Hpre Hpost Hw. split; [|apply pad0_over_dec_alphabet].
  unfold fmt_go3. rewrite go3_text by exact Hpre.
  assert (Hd : digit_of (idx_digit w) = Some w).
  { do 10 (destruct w as [|w]; [try lia; reflexivity|]). lia. }
  assert (Hz : Ascii.eqb (idx_digit w) "0" = false).
  { do 10 (destruct w as [|w]; [try lia; reflexivity|]). lia. }
  cbn [go3]. change (is_pct "%") with true. cbv iota.
  change (Ascii.eqb "0" "[") with false. cbv iota. change (Ascii.eqb "0" "0") with true. cbv iota.
  rewrite Hz, Hd. change (digit_of "d") with (@None nat). cbv iota. change (Ascii.eqb "d" "d") with true. cbv iota.
  cbn [padded_at nth_error].
  rewrite (go3_refines_fmt_go2 post [OInt ty z] 1 post).
  - reflexivity.
  - cbn [skipn]. rewrite fmt2_verb_free_text by exact Hpost. reflexivity.
Qed.

(* the json parser planner's format (planner_parser_json.go), with a quoted path that holds a quote and a percent sign: every
   occurrence of %[1]s / %[2]s is the operand, whatever its bytes *)
Example fmt3_examples :
  fmt_go3 "if(JSONType(%[2]s, %[1]s) == 'String', JSONExtractString(%[2]s, %[1]s), JSONExtractRaw(%[2]s, %[1]s))" [OStr "'a\'%s'"; OStr "string"]
  = Some "if(JSONType(string, 'a\'%s') == 'String', JSONExtractString(string, 'a\'%s'), JSONExtractRaw(string, 'a\'%s'))" /\
  fmt_go3 "intDiv(timestamp_ns, %d) * %[1]d" [OInt "int64" 15000000000] = Some "intDiv(timestamp_ns, 15000000000) * 15000000000" /\
  fmt_go3 "%[3]d|%[0]s|%[1]d %s" [OInt "int" 1; OStr "b"] = Some "%!d(BADINDEX)|%!s(BADINDEX)|1 b" /\
  mkformat3 [OStr "x"; OInt "int" 5] ["a("; ", "; ")"] [2; 1] = "a(%[2]d, %[1]s)" /\
  idx_ok [OStr "x"; OInt "int" 5] 2 = true /\
  fmt_go3 "%d.%09d" [OInt "int64" 1700000000; OInt "int64" 5] = Some "1700000000.000000005" /\
  pad0 9 (-5) = "-00000005" /\ pad0 3 12345 = "12345" /\ pad0 0 0 = "0".
Proof. repeat split; vm_compute; reflexivity. Qed.
