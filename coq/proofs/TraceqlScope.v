(* Property C11: which harness cases lie inside the hypotheses of traceql_correct_single / traceql_correct_agg (counted into the evidence by
   checks/c11.py; the guards term_lit_ok and cond_depth are defined beside their lemmas in proofs/TraceqlEvalProofs.v).  Executable definitions only. *)
From Coq Require Import List ZArith QArith String Ascii Bool.
From Qryn Require Import model.TqSql model.Traceql model.TraceqlPlan model.TraceqlSem model.TraceqlCase proofs.TraceqlEvalProofs
     proofs.TraceqlIndexSearchProofs proofs.TraceqlChainProofs proofs.TraceqlChainPlan model.TraceqlKey proofs.TraceqlKeyCorrect.
Import ListNotations.
(* is the case inside the hypotheses of traceql_correct_single_grammar (1) / traceql_correct_agg_grammar (2)?  0 = outside.
   Round 6: the guard is terms_grammar (from which keys_ok is proved), no longer keys_ok itself. *)
Definition theorem_scope (cs : case) : Z :=
  match c_mode cs, c_q cs with
  | MSearch, Script h _ None =>
      match sel_attr h with
      | Some e =>
          let a := analyze_cond e ([], []) in
          if terms_grammar e && forallb term_lit_ok (fst (snd a)) && Nat.leb (List.length (fst (snd a))) 64
             && Nat.leb (cond_depth (fst a)) 28 && lits_exact e && Z.eqb (rf_max (c_ctx cs)) 0 && Z.leb 0 (limit (c_ctx cs))
          then match sel_agg h with
               | None => 1%Z
               | Some ag => if agg_guard ag && agg_lit_exact ag then 2%Z else 0%Z
               end
          else 0%Z
      | None => 0%Z
      end
  | _, _ => 0%Z
  end.
Definition scope_counts (l : list case) : Z * Z :=
  (Z.of_nat (List.length (filter (fun cs => Z.eqb (theorem_scope cs) 1) l)), Z.of_nat (List.length (filter (fun cs => Z.eqb (theorem_scope cs) 2) l))).

(* is the case inside the hypotheses of traceql_correct_chain_grammar (a chain of at least two selectors; chain_ok_gb_sound: the boolean implies chain_ok_g) *)
Definition chain_scope (cs : case) : bool :=
  match c_mode cs, sc_tail (c_q cs) with
  | MSearch, Some _ => chain_ok_gb (c_q cs) && Z.eqb (rf_max (c_ctx cs)) 0 && Nat.leb (chain_need (c_q cs)) 13
  | _, _ => false
  end.
Definition chain_count (l : list case) : Z := Z.of_nat (List.length (filter chain_scope l)).

(* is a call of the case inside the hypotheses of traceql_correct_single_portion / traceql_correct_agg_portion (one selector, rf_max > 0) *)
Definition portion_scope (cs : case) : bool :=
  match c_mode cs, c_q cs with
  | MSearch, Script h _ None => sel_ok_b h && rf_ok (c_ctx cs)
  | _, _ => false
  end.
Definition portion_count (l : list case) : Z := Z.of_nat (List.length (filter portion_scope l)).
