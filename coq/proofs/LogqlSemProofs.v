(* C07: the SELECT produced by the LogQL log planners (LogqlPlan.v), evaluated by SqlEval.v, returns
   the lines the reference semantics LogqlSem.v defines.
   Part 1: bridge lemmas - the evaluation of each CTE shape is a plain list function.
   Part 2: the planner chain of a query of the fragment produces those shapes.
   Part 3: the list functions select what the reference semantics selects (db_ok, guards).
   Part 4: the property theorems. *)
From Coq Require Import List ZArith NArith QArith String Ascii Bool Lia Permutation.
From Qryn Require Import lib.Strs model.Sql model.SqlRender model.Logql model.LogqlPlan model.SqlEval model.LogqlSem
  proofs.SqlEvalProofs.
Import ListNotations.
Open Scope string_scope.

(* ---------- option plumbing over mapped lists ---------- *)
Lemma map_opt_map_total {A B C} (h : A -> B) (f : B -> option C) (g : A -> C) l :
  (forall a, List.In a l -> f (h a) = Some (g a)) -> map_opt f (map h l) = Some (map g l).
Proof.
  induction l as [|a l IH]; intros H; cbn [map map_opt]; [reflexivity|].
  rewrite (H a (or_introl eq_refl)), IH; [reflexivity|]. intros b Hb. apply H. now right.
Qed.
Lemma filter_opt_map_total {A B} (h : A -> B) (p : B -> option bool) (b : A -> bool) l :
  (forall a, List.In a l -> p (h a) = Some (b a)) -> filter_opt p (map h l) = Some (map h (filter b l)).
Proof.
  induction l as [|a l IH]; intros H; cbn [map filter_opt filter]; [reflexivity|].
  rewrite (H a (or_introl eq_refl)), IH by (intros x Hx; apply H; now right).
  destruct (b a); reflexivity.
Qed.
Lemma find_opt_map_total {A B} (h : A -> B) (p : B -> option bool) (b : A -> bool) l :
  (forall a, List.In a l -> p (h a) = Some (b a)) -> find_opt p (map h l) = Some (option_map h (find b l)).
Proof.
  induction l as [|a l IH]; intros H; cbn [map find_opt find]; [reflexivity|].
  rewrite (H a (or_introl eq_refl)). destruct (b a); [reflexivity|].
  apply IH. intros x Hx. apply H. now right.
Qed.

(* ---------- integer comparisons as SqlEval computes them ---------- *)
Lemma vcmp_ge_int a b : vcmp OGe (VInt a) (VInt b) = Some (vbool (Z.leb b a)).
Proof.
  change (vcmp OGe (VInt a) (VInt b)) with (Some (vbool (match (a ?= b)%Z with Datatypes.Lt => false | _ => true end))).
  do 2 f_equal. unfold Z.leb. rewrite (Z.compare_antisym a b). destruct (a ?= b)%Z; reflexivity.
Qed.
Lemma vcmp_lt_int a b : vcmp OLt (VInt a) (VInt b) = Some (vbool (Z.ltb a b)).
Proof. reflexivity. Qed.
Lemma vcmp_eq_int a b : vcmp OEq (VInt a) (VInt b) = Some (vbool (Z.eqb a b)).
Proof.
  change (vcmp OEq (VInt a) (VInt b)) with (Some (vbool (match (a ?= b)%Z with Datatypes.Eq => true | _ => false end))).
  do 2 f_equal. destruct (Z.compare_spec a b) as [->|H|H].
  - now rewrite Z.eqb_refl.
  - symmetry. apply Z.eqb_neq. lia.
  - symmetry. apply Z.eqb_neq. lia.
Qed.

(* the environment of one table row: its columns, then the same columns qualified by the table alias *)
Definition env_of (a : string) (r : row) : row := (r ++ map (fun kv => ((a ++ "." ++ fst kv)%string, snd kv)) r)%list.
Lemma qualify_map {X} a (f : X -> row) l : qualify a (map f l) = map (fun x => env_of a (f x)) l.
Proof. unfold qualify. now rewrite map_map. Qed.

Section BRIDGE.
  Context {RG : ReGroups}.
  Variable re_match : string -> string -> bool.
  Variable parse_float : string -> option Q.
  Variable json_get : string -> list string -> string.
  Variable hash_labels : labels -> Z.
  Variable tie : forall A : Type, list A -> list A.
  Hypothesis tie_perm : forall A (l : list A), Permutation (tie A l) l.
  Variable c : pctx.
  Variable d : database.
  Hypothesis Hctx : ctx_ok c = true.

  Notation DB := (to_sqldb c d).
  Notation EV := (ev re_match parse_float json_get hash_labels tie (to_sqldb c d)).
  Notation ET := (etab re_match parse_float json_get hash_labels tie (to_sqldb c d)).
  Notation ES := (esel re_match parse_float json_get hash_labels tie (to_sqldb c d)).

  (* ---------- Part 1a: table scans ---------- *)
  Lemma ctx_names :
    String.eqb (t_gin c) (t_samples c) = false /\ String.eqb (t_ts c) (t_samples c) = false /\
    String.eqb (t_ts c) (t_gin c) = false /\ String.eqb (t_ts_dist c) (t_samples c) = false /\
    String.eqb (t_ts_dist c) (t_gin c) = false /\ c_finalize c = true /\ (0 <= c_limit c)%Z.
  Proof.
    pose proof Hctx as H. unfold ctx_ok in H.
    apply andb_prop in H. destruct H as [H H7]. apply andb_prop in H. destruct H as [H H6].
    apply andb_prop in H. destruct H as [H H5]. apply andb_prop in H. destruct H as [H H4].
    apply andb_prop in H. destruct H as [H H3]. apply andb_prop in H. destruct H as [H1 H2].
    apply negb_true_iff in H1, H2, H3, H4, H5. apply Z.leb_le in H7. tauto.
  Qed.
  Lemma db_samples : DB (t_samples c) = Some (map sample_cols (d_samples d)).
  Proof. unfold to_sqldb. now rewrite String.eqb_refl. Qed.
  Lemma db_gin : DB (t_gin c) = Some (map gin_cols (d_gin d)).
  Proof. destruct ctx_names as [H1 _]. unfold to_sqldb. now rewrite H1, String.eqb_refl. Qed.
  Lemma db_ts : DB (t_ts c) = Some (map series_cols (d_series d)).
  Proof. destruct ctx_names as [_ [H1 [H2 _]]]. unfold to_sqldb. now rewrite H1, H2, String.eqb_refl. Qed.
  Lemma db_ts_dist : DB (t_ts_dist c) = Some (map series_cols (d_series d)).
  Proof.
    destruct ctx_names as [_ [_ [_ [H1 [H2 _]]]]]. unfold to_sqldb.
    now rewrite H1, H2, String.eqb_refl, orb_true_r.
  Qed.

  Definition genv (g : gin_row) : row := env_of (t_gin c) (gin_cols g).
  Definition senv (x : sample) : row := env_of "samples" (sample_cols x).
  Definition tenv (s : series_row) : row := env_of (t_ts c) (series_cols s).
  Definition tsenv (s : series_row) : row := env_of "time_series" (series_cols s).

  Lemma et_gin : ET (Id (t_gin c)) = Some (map genv (d_gin d)).
  Proof. cbn [etab]. rewrite db_gin. cbn [option_map]. now rewrite qualify_map. Qed.
  Lemma et_samples : ET (SimpleCol (t_samples c) "samples") = Some (map senv (d_samples d)).
  Proof. unfold SimpleCol. cbn [etab]. rewrite db_samples. cbn [option_map]. now rewrite qualify_map. Qed.
  Lemma et_ts : ET (Id (t_ts c)) = Some (map tenv (d_series d)).
  Proof. cbn [etab]. rewrite db_ts. cbn [option_map]. now rewrite qualify_map. Qed.
  Lemma et_ts_dist : ET (SimpleCol (t_ts_dist c) "time_series") = Some (map tsenv (d_series d)).
  Proof. unfold SimpleCol. cbn [etab]. rewrite db_ts_dist. cbn [option_map]. now rewrite qualify_map. Qed.

  (* ---------- Part 1b: conditions ---------- *)
  Lemma ev_get_types r g ty : lookup "type" r = Some (VInt ty) ->
    EV (get_types c) (r :: g) = Some (vbool (type_in c ty)).
  Proof.
    intros Hl. unfold get_types. cbn [ev]. rewrite Hl. cbn [map_opt ev]. unfold type_in, qtype.
    cbn [existsb value_eqb]. now rewrite orb_false_r.
  Qed.

  Lemma vlogic_and2 a b : vlogic true [vbool a; vbool b] = Some (vbool (a && b)).
  Proof. destruct a, b; reflexivity. Qed.
  Lemma vlogic_or2 a b : vlogic false [vbool a; vbool b] = Some (vbool (a || b)).
  Proof. destruct a, b; reflexivity. Qed.
  Lemma vlogic_and3 a b c0 : vlogic true [vbool a; vbool b; vbool c0] = Some (vbool (a && b && c0)).
  Proof. destruct a, b, c0; reflexivity. Qed.
  Lemma vlogic_and1 a : vlogic true [vbool a] = Some (vbool a).
  Proof. destruct a; reflexivity. Qed.
  Lemma vcmp_bool_1 x : vcmp OEq (vbool x) (VInt 1) = Some (vbool x).
  Proof. destruct x; reflexivity. Qed.
  Lemma vcmp_bool_0 x : vcmp OEq (vbool x) (VInt 0) = Some (vbool (negb x)).
  Proof. destruct x; reflexivity. Qed.

  Lemma vcmp_eq_str a b : vcmp OEq (VStr a) (VStr b) = Some (vbool (String.eqb a b)).
  Proof. reflexivity. Qed.
  Lemma vcmp_neq_str a b : vcmp ONeq (VStr a) (VStr b) = Some (vbool (negb (String.eqb a b))).
  Proof. reflexivity. Qed.
  Lemma str_fn2_str f a b : str_fn2 f (Some (VStr a)) (Some (VStr b)) = Some (vbool (f a b)).
  Proof. reflexivity. Qed.

  Definition clause_b (m : matcher) (k v : string) : bool := String.eqb k (m_name m) && matcher_val_ok re_match m v.
  Lemma ev_sel_clause m r g k v : lookup "key" r = Some (VStr k) -> lookup "val" r = Some (VStr v) ->
    EV (sel_clause m) (r :: g) = Some (vbool (clause_b m k v)).
  Proof.
    intros Hk Hv. unfold sel_clause, And, val_clause, Eq, Neq, sql_match, clause_b, matcher_val_ok.
    destruct (m_op m); cbn [ev map_opt String.eqb Ascii.eqb Bool.eqb]; rewrite Hk, Hv;
      rewrite ?str_fn2_str, ?vcmp_eq_str, ?vcmp_neq_str, ?vcmp_bool_1, ?vcmp_bool_0; apply vlogic_and2.
  Qed.

  Lemma ev_or_clauses ms r g k v : ms <> [] -> lookup "key" r = Some (VStr k) -> lookup "val" r = Some (VStr v) ->
    EV (Or (map sel_clause ms)) (r :: g) = Some (vbool (existsb (fun m => clause_b m k v) ms)).
  Proof.
    intros Hne Hk Hv. unfold Or. cbn [ev].
    rewrite (map_opt_map_total sel_clause _ (fun m => vbool (clause_b m k v))) by (intros m _; now apply ev_sel_clause).
    rewrite <- (map_map (fun m => clause_b m k v) vbool), vlogic_or_bools by (destruct ms; [congruence|discriminate]).
    now rewrite existsb_map_c.
  Qed.

  Lemma ev_and_bools es bs G : es <> [] -> Forall2 (fun e b => EV e G = Some (vbool b)) es bs ->
    EV (And es) G = Some (vbool (forallb (fun b => b) bs)).
  Proof.
    intros Hne HF. unfold And. cbn [ev].
    assert (Hm : map_opt (fun e => EV e G) es = Some (map vbool bs)).
    { clear Hne. induction HF as [|e b es' bs' He _ IH]; [reflexivity|]. cbn [map_opt map]. now rewrite He, IH. }
    rewrite Hm. apply vlogic_and_bools. intros ->. inversion HF. congruence.
  Qed.
  Lemma ev_and2 a b x y G : EV a G = Some (vbool x) -> EV b G = Some (vbool y) ->
    EV (And [a; b]) G = Some (vbool (x && y)).
  Proof.
    intros Ha Hb. rewrite (ev_and_bools [a; b] [x; y]); [cbn [forallb]; now rewrite andb_true_r|discriminate|].
    constructor; [exact Ha|constructor; [exact Hb|constructor]].
  Qed.

  (* a SELECT without JOIN / GROUP BY: scan, filter, order, limit, project *)
  Lemma esel_flat q : s_distinct q = false -> s_offset q = None -> s_unions q = [] -> s_joins q = [] ->
    s_groupby q = [] -> s_having q = None ->
    ES q =
    match (match s_from q with None => Some [[]] | Some f => ET f end) with
    | None => None
    | Some rows0 =>
      match filter_opt (fun r => match cond_ok EV (s_prewhere q) r, cond_ok EV (s_where q) r with
                                 | Some a, Some b => Some (a && b) | _, _ => None end) (map (arow EV (s_cols q)) rows0) with
      | None => None
      | Some rows1 =>
        match order_groups tie EV (s_orderby q) (map (fun r => [r]) rows1) with
        | None => None
        | Some sorted =>
          match (match s_limit q with
                 | None => Some sorted
                 | Some (IntV n) => Some (firstn (Z.to_nat n) (match s_orderby q with [] => tie _ sorted | _ => sorted end))
                 | Some _ => None end) with
          | None => None
          | Some out =>
            map_opt (fun g => map_opt (fun c0 => match EV (col_body c0) g with
                                                 | Some v => Some (col_name c0, v) | None => None end)
                                      (s_cols q)) out
          end
        end
      end
    end.
  Proof.
    intros H1 H2 H3 H4 H5 H6. unfold esel, esel_gen. rewrite H1, H2, H3, H4, H5, H6. cbn [fold_left].
    destruct (match s_from q with Some f => ET f | None => Some [[]] end); reflexivity.
  Qed.

  (* ORDER BY: some reordering xs of the input (ties), then the stable sort on the keys *)
  Definition ord_dirs (ords : list expr) : list bool := map (fun o => match o with Ord _ asc => asc | _ => true end) ords.
  Lemma order_groups_gen ords {X} (h : X -> list row) (keys : X -> list value) (xs0 : list X) : ords <> [] ->
    (forall x, map_opt (fun o => match o with Ord e _ => EV e (h x) | _ => None end) ords = Some (keys x)) ->
    (forall x, all_int (keys x) = true) ->
    exists xs, Permutation xs xs0
      /\ order_groups tie EV ords (map h xs0)
         = Some (map h (isort (fun a b => keys_leb (ord_dirs ords) (keys a) (keys b)) xs)).
  Proof.
    intros Hne Hk Hint.
    destruct (Permutation_map_inv h _ (tie_perm _ (map h xs0))) as [xs [Exs Hperm]].
    exists xs. split; [now apply Permutation_sym|].
    unfold order_groups. destruct ords as [|o ords']; [congruence|]. rewrite Exs.
    rewrite (map_opt_map_total h _ (fun x => (keys x, h x))).
    2:{ intros x _. now rewrite Hk, Hint. }
    fold (ord_dirs (o :: ords')). rewrite (isort_map (fun x => (keys x, h x))). now rewrite map_map.
  Qed.

  (* a SELECT list without aliases adds nothing to a row *)
  Lemma arow_fp_id (l : table) : map (arow EV [Id "fingerprint"]) l = l.
  Proof. rewrite <- (map_id l) at 2. apply map_ext. intros r. reflexivity. Qed.

  (* ---------- Part 1c: the fp_sel CTE of StreamSelectPlanner ---------- *)
  Definition gin_where (ms : list matcher) (g : gin_row) : bool :=
    Z.leb (from_day (c_from_ns c)) (g_day g) && type_in c (g_type g)
    && existsb (fun m => clause_b m (g_key g) (g_val g)) ms.
  Fixpoint nodupz (l : list Z) : list Z :=
    match l with [] => [] | z :: r => z :: filter (fun y => negb (Z.eqb z y)) (nodupz r) end.
  Definition gin_group (rows : list gin_row) (fp : Z) := filter (fun g => Z.eqb (g_fp g) fp) rows.
  Definition clause_bits (ms : list matcher) (g : gin_row) : list bool := map (fun m => clause_b m (g_key g) (g_val g)) ms.
  Definition group_mask (ms : list matcher) (grp : list gin_row) : N :=
    fold_left N.lor (map (fun g => row_mask (clause_bits ms g)) grp) 0%N.
  Definition fp_sel_list (ms : list matcher) : list Z :=
    let rows := filter (gin_where ms) (d_gin d) in
    filter (fun fp => Z.eqb (Z.of_N (group_mask ms (gin_group rows fp))) (2 ^ Z.of_nat (List.length ms) - 1))
           (nodupz (map g_fp rows)).
  Definition fp_row (fp : Z) : row := [("fingerprint", VInt fp)].

  Lemma nodupz_in l : forall z, List.In z (nodupz l) <-> List.In z l.
  Proof.
    induction l as [|a l IH]; intros z; cbn [nodupz]; [tauto|].
    cbn [List.In]. rewrite filter_In, IH, negb_true_iff, Z.eqb_neq.
    destruct (Z.eq_dec a z); [subst; tauto|tauto].
  Qed.
  Lemma nodup_keys_int l : nodup_keys (map (fun z => [VInt z]) l) = map (fun z => [VInt z]) (nodupz l).
  Proof.
    induction l as [|a l IH]; [reflexivity|]. cbn [map nodup_keys nodupz]. rewrite IH. f_equal.
    rewrite filter_map_comm. f_equal. apply filter_ext. intros y. cbn [values_eqb value_eqb]. now rewrite andb_true_r.
  Qed.
  Lemma group_rows_int (rows : list gin_row) fp :
    map snd (filter (fun kr : list value * row => values_eqb (fst kr) [VInt fp])
                    (map (fun g => ([VInt (g_fp g)], genv g)) rows)) = map genv (gin_group rows fp).
  Proof.
    rewrite filter_map_comm, map_map. cbn [snd fst]. unfold gin_group. f_equal. apply filter_ext.
    intros g. cbn [values_eqb value_eqb]. now rewrite andb_true_r.
  Qed.
  Lemma group_nonempty (rows : list gin_row) fp : List.In fp (map g_fp rows) ->
    exists g0 rest, gin_group rows fp = g0 :: rest /\ g_fp g0 = fp.
  Proof.
    intros Hin. apply in_map_iff in Hin. destruct Hin as [g [Hfp Hg]].
    assert (Hg' : List.In g (gin_group rows fp)) by (apply filter_In; split; [assumption|now apply Z.eqb_eq]).
    destruct (gin_group rows fp) as [|g0 rest] eqn:E; [destruct Hg'|].
    exists g0, rest. split; [reflexivity|].
    assert (H0 : List.In g0 (gin_group rows fp)) by (rewrite E; now left).
    apply filter_In in H0. now apply Z.eqb_eq.
  Qed.
  Lemma ev_bitset ms grp :
    EV (BitSetAnd (map sel_clause ms)) (map genv grp) = Some (VInt (Z.of_N (group_mask ms grp))).
  Proof.
    cbn [ev]. rewrite (map_opt_map_total genv _ (fun g => row_mask (clause_bits ms g))); [reflexivity|].
    intros g _. rewrite (map_opt_map_total sel_clause _ (fun m => clause_b m (g_key g) (g_val g))); [reflexivity|].
    intros m _. rewrite (ev_sel_clause m (genv g) [] (g_key g) (g_val g)) by reflexivity. apply truthy_vbool.
  Qed.

  Lemma es_stream_select ms : ms <> [] ->
    ES (stream_select c ms) = Some (map fp_row (fp_sel_list ms)).
  Proof.
    intros Hne. unfold esel, esel_gen, stream_select.
    cbn [s_distinct s_offset s_unions s_from s_joins s_prewhere s_where s_groupby s_having s_orderby s_limit s_cols
         and_having and_where and_into set_having set_where set_groupby set_from set_cols empty_select fold_left].
    rewrite et_gin, arow_fp_id.
    rewrite (filter_opt_map_total genv _ (gin_where ms)).
    2:{ intros g _. unfold cond_ok, And, Ge, format_from_date. cbn [ev map_opt].
        rewrite (ev_get_types (genv g) [] (g_type g)) by reflexivity.
        rewrite (ev_or_clauses ms (genv g) [] (g_key g) (g_val g)) by (try assumption; reflexivity).
        change (lookup "date" (genv g)) with (Some (VInt (g_day g))).
        cbn iota beta. rewrite vcmp_ge_int. cbn iota beta. rewrite vlogic_and3, truthy_vbool. reflexivity. }
    unfold group_rows.
    rewrite (map_opt_map_total genv _ (fun g => ([VInt (g_fp g)], genv g))) by (intros g _; reflexivity).
    rewrite map_map. cbn [fst].
    rewrite <- (map_map g_fp (fun z => [VInt z])), nodup_keys_int, map_map.
    rewrite (map_ext _ (fun fp => map genv (gin_group (filter (gin_where ms) (d_gin d)) fp))) by (intros fp; apply group_rows_int).
    rewrite (filter_opt_map_total _ _ (fun fp => Z.eqb (Z.of_N (group_mask ms (gin_group (filter (gin_where ms) (d_gin d)) fp)))
                                                     (2 ^ Z.of_nat (List.length ms) - 1))).
    2:{ intros fp _. unfold And, Eq.
        pose proof (ev_bitset ms (gin_group (filter (gin_where ms) (d_gin d)) fp)) as HB.
        remember (BitSetAnd (map sel_clause ms)) as B eqn:EB. cbn [ev map_opt]. rewrite HB. cbn iota beta.
        rewrite vcmp_eq_int, map_length. cbn iota beta. rewrite vlogic_and1. apply truthy_vbool. }
    cbn [order_groups].
    rewrite (map_opt_map_total _ _ fp_row); [reflexivity|].
    intros fp Hfp. apply filter_In in Hfp. destruct Hfp as [Hfp _]. apply (proj1 (nodupz_in _ _)) in Hfp.
    destruct (group_nonempty _ _ Hfp) as [g0 [rest [E E0]]]. rewrite E. cbn [map map_opt col_body col_name ev].
    change (lookup "fingerprint" (genv g0)) with (Some (VInt (g_fp g0))). now rewrite E0.
  Qed.

  (* ---------- Part 1d: label filters over the JSON document of time_series ---------- *)
  Definition json_getter : option (string -> expr) := Some (fun s => Fn "JSONExtractString" [Id "labels"; QRaw s]).
  Lemma ev_json_get r g ls name : lookup "labels" r = Some (VMap ls) ->
    EV (Fn "JSONExtractString" [Id "labels"; QRaw name]) (r :: g) = Some (VStr (label_of ls name)).
  Proof. intros Hl. cbn [ev map_opt String.eqb Ascii.eqb Bool.eqb]. now rewrite Hl. Qed.

  Lemma ev_simple_cond s cond r g ls : lookup "labels" r = Some (VMap ls) ->
    simple_cond json_getter s = Some cond -> simple_oracle_ok parse_float s ->
    EV cond (r :: g) = Some (vbool (simple_ok re_match parse_float ls s)).
  Proof.
    intros Hl Hc Ho. unfold simple_cond, json_getter in Hc. unfold simple_ok, simple_oracle_ok in *.
    pose proof (ev_json_get r g ls (slf_label s) Hl) as HJ.
    remember (Fn "JSONExtractString" [Id "labels"; QRaw (slf_label s)]) as J eqn:EJ.
    destruct (lblop_numeric s) eqn:En.
    - specialize (Ho eq_refl). destruct (slf_num s) as [[txt f]|]; [|discriminate].
      destruct Ho as [Hf Htxt]. destruct (String.eqb txt ""); [discriminate|].
      destruct (parse_float txt) as [n|] eqn:Ptxt; [|congruence].
      assert (HL : EV (Fn "toFloat64OrNull" [J]) (r :: g)
                   = Some (match parse_float (label_of ls (slf_label s)) with Some q => VNum q | None => VNull end)).
      { cbn [ev String.eqb Ascii.eqb Bool.eqb]. now rewrite HJ. }
      remember (Fn "toFloat64OrNull" [J]) as L eqn:EL.
      assert (HF : EV (FloatV f) (r :: g) = Some (VNum n)) by (cbn [ev]; now rewrite Hf).
      remember (FloatV f) as FV eqn:EFV.
      destruct (slf_fn s); cbn [num_cmp]; try discriminate; injection Hc as <-;
        unfold And, Eq, Neq, Gt, Ge, Lt, Le; cbn [ev map_opt]; rewrite HL, HF; cbn iota beta;
        destruct (parse_float (label_of ls (slf_label s))) as [x|]; try reflexivity;
        cbn [vcmp num_of option_map cmp_holds]; destruct (Qcompare x n); reflexivity.
    - destruct (slf_str s) as [w|]; [|discriminate].
      destruct (slf_fn s); try discriminate; injection Hc as <-; unfold Eq, Neq, sql_match;
        cbn [ev map_opt String.eqb Ascii.eqb Bool.eqb]; rewrite HJ;
        rewrite ?str_fn2_str, ?vcmp_eq_str, ?vcmp_neq_str, ?vcmp_bool_1, ?vcmp_bool_0; reflexivity.
  Qed.

  Lemma ev_lf_cond r g ls (Hl : lookup "labels" r = Some (VMap ls)) :
    forall f cond, lf_cond json_getter f = Some cond -> lf_oracle_ok parse_float f ->
    EV cond (r :: g) = Some (vbool (lf_ok re_match parse_float ls f)).
  Proof.
    fix IH 1. intros f cond Hc Ho. destruct f as [head op tail].
    cbn [lf_cond] in Hc. cbn [lf_oracle_ok] in Ho. destruct Ho as [Hoh Hot]. cbn [lf_ok].
    assert (Hhead : forall l, match head with HSimple s => simple_cond json_getter s | HComplex f' => lf_cond json_getter f' end = Some l ->
              EV l (r :: g) = Some (vbool match head with HSimple s => simple_ok re_match parse_float ls s
                                                      | HComplex f' => lf_ok re_match parse_float ls f' end)).
    { intros l Hl'. destruct head as [s|f']; [now apply (ev_simple_cond s)|now apply IH]. }
    destruct (match head with HSimple s => simple_cond json_getter s | HComplex f' => lf_cond json_getter f' end) as [l|]; [|discriminate].
    specialize (Hhead l eq_refl).
    destruct tail as [t|]; [|injection Hc as <-; exact Hhead].
    destruct (lf_cond json_getter t) as [rr|] eqn:Et; [|discriminate].
    pose proof (IH t rr Et Hot) as Htail.
    destruct op as [[|]|]; [| |discriminate]; injection Hc as <-; unfold And, Or; cbn [ev map_opt];
      rewrite Hhead, Htail; cbn iota beta; [apply vlogic_and2|apply vlogic_or2].
  Qed.

  (* ---------- Part 1e: the SimpleLabelFilterPlanner CTE ---------- *)
  Definition memz (z : Z) (l : list Z) : bool := existsb (Z.eqb z) l.
  Lemma first_col_fp F : first_col (map fp_row F) = Some (map VInt F).
  Proof. unfold first_col. now apply map_opt_map_total. Qed.
  Lemma in_values_int x F : existsb (value_eqb (VInt x)) (map VInt F) = memz x F.
  Proof. unfold memz. now rewrite existsb_map_c. Qed.
  Lemma ev_in_wref e a q G :
    EV (In e [WRef a q]) G =
    match EV e G with
    | None => None
    | Some lv =>
      match lv, (match ES q with Some t => first_col t | None => None end) with
      | VNull, Some _ => Some VNull
      | _, Some vs => Some (vbool (existsb (value_eqb lv) vs))
      | _, None => None
      end
    end.
  Proof. reflexivity. Qed.
  Lemma ev_in_sub e a q G x F : EV e G = Some (VInt x) -> ES q = Some (map fp_row F) ->
    EV (In e [WRef a q]) G = Some (vbool (memz x F)).
  Proof. intros He Hq. rewrite ev_in_wref, He, Hq, first_col_fp. now rewrite in_values_int. Qed.

  Definition slf_select (id : string) (main : select) (cond : expr) : select :=
    and_where [cond] (and_where [In (Id "fingerprint") [WRef id main]; Ge (Id "date") (format_from_date c); get_types c]
      (set_from (Id (t_ts c)) (set_cols [Id "fingerprint"] (with_ [(id, main)] empty_select)))).
  Definition slf_list (F : list Z) (f : label_filter) : list Z :=
    map ts_fp (filter (fun s => memz (ts_fp s) F && Z.leb (from_day (c_from_ns c)) (ts_day s) && type_in c (ts_type s)
                               && lf_ok re_match parse_float (ts_labels s) f) (d_series d)).
  Lemma es_slf id main cond f F : ES main = Some (map fp_row F) ->
    lf_cond json_getter f = Some cond -> lf_oracle_ok parse_float f ->
    ES (slf_select id main cond) = Some (map fp_row (slf_list F f)).
  Proof.
    intros Hm Hc Ho. unfold esel, esel_gen, slf_select.
    cbn [s_distinct s_offset s_unions s_from s_joins s_prewhere s_where s_groupby s_having s_orderby s_limit s_cols
         and_where and_into set_where set_from set_cols with_ add_withs set_withs empty_select fold_left app And].
    rewrite et_ts, arow_fp_id.
    rewrite (filter_opt_map_total tenv _ (fun s => memz (ts_fp s) F && Z.leb (from_day (c_from_ns c)) (ts_day s) && type_in c (ts_type s)
                                                   && lf_ok re_match parse_float (ts_labels s) f)).
    2:{ intros s _. unfold cond_ok.
        pose proof (ev_in_sub (Id "fingerprint") id main [tenv s] (ts_fp s) F eq_refl Hm) as HI.
        pose proof (ev_lf_cond (tenv s) [] (ts_labels s) eq_refl f cond Hc Ho) as HC.
        rewrite (ev_and_bools _ [memz (ts_fp s) F; Z.leb (from_day (c_from_ns c)) (ts_day s); type_in c (ts_type s);
                                 lf_ok re_match parse_float (ts_labels s) f]).
        2: discriminate.
        2:{ constructor; [exact HI|]. constructor.
            - unfold Ge, format_from_date. cbn [ev]. change (lookup "date" (tenv s)) with (Some (VInt (ts_day s))). apply vcmp_ge_int.
            - constructor; [now apply ev_get_types|]. constructor; [exact HC|constructor]. }
        rewrite truthy_vbool. cbn [forallb]. now rewrite !andb_true_r, !andb_assoc. }
    cbn [order_groups]. rewrite map_map. unfold slf_list.
    rewrite (map_opt_map_total _ _ (fun s => fp_row (ts_fp s))) by (intros s _; reflexivity).
    now rewrite map_map.
  Qed.

  (* ---------- Part 1f: the main CTE over samples ---------- *)
  Definition lft := (lfop * string * option (string * bool))%type.
  Definition lft_clause (t : lft) : expr := line_filter_clause (fst (fst t)) (snd (fst t)) (snd t).
  Definition lft_stage (t : lft) : stage := PLineFilter (fst (fst t)) (snd (fst t)) (snd t).
  Definition lft_ok (line : string) (t : lft) : bool := line_ok re_match line (fst (fst t)) (snd (fst t)).

  (* a row on which the line text is reachable under the name every line-filter predicate uses (the stored column of the
     source, never the alias `string` of the select: since the repair regex-line-filter-reads-alias the match() form too) *)
  Definition line_row (r : row) (line : string) : Prop := lookup "samples.string" r = Some (VStr line).
  Lemma ev_do_like_like val r g line : line_row r line ->
    EV (do_like "like" val) (r :: g) = Some (vbool (contains val line)).
  Proof.
    intros H1. unfold do_like, Eq, like_pattern. cbn [ev String.eqb Ascii.eqb Bool.eqb]. rewrite H1.
    rewrite str_fn2_str, vcmp_bool_1. change (esc_like val) with (map_string esc_like_c val).
    now rewrite like_contains.
  Qed.
  Lemma ev_do_like_notlike val r g line : line_row r line ->
    EV (do_like "notLike" val) (r :: g) = Some (vbool (negb (contains val line))).
  Proof.
    intros H1. unfold do_like, Eq, like_pattern. cbn [ev String.eqb Ascii.eqb Bool.eqb]. rewrite H1.
    rewrite str_fn2_str, vcmp_bool_1. change (esc_like val) with (map_string esc_like_c val).
    now rewrite like_contains.
  Qed.
  Lemma ev_do_like_ilike val r g line : line_row r line ->
    EV (do_like "ilike" val) (r :: g) = Some (vbool (contains (to_lower val) (to_lower line))).
  Proof.
    intros H1. unfold do_like, Eq, like_pattern. cbn [ev String.eqb Ascii.eqb Bool.eqb]. rewrite H1.
    rewrite str_fn2_str, vcmp_bool_1. change (esc_like val) with (map_string esc_like_c val).
    now rewrite ilike_contains.
  Qed.
  Lemma ev_do_like_notilike val r g line : line_row r line ->
    EV (do_like "notILike" val) (r :: g) = Some (vbool (negb (contains (to_lower val) (to_lower line)))).
  Proof.
    intros H1. unfold do_like, Eq, like_pattern. cbn [ev String.eqb Ascii.eqb Bool.eqb]. rewrite H1.
    rewrite str_fn2_str, vcmp_bool_1. change (esc_like val) with (map_string esc_like_c val).
    now rewrite ilike_contains.
  Qed.

  Lemma ev_lft_clause t r g line : line_row r line -> stage_oracle_ok re_match parse_float (lft_stage t) ->
    EV (lft_clause t) (r :: g) = Some (vbool (lft_ok line t)).
  Proof.
    intros Hr. destruct t as [[op val] rl]. unfold lft_clause, lft_stage, lft_ok, line_filter_clause, line_ok. cbn [fst snd].
    intros Ho. cbn [stage_oracle_ok] in Ho.
    destruct op.
    - now apply ev_do_like_like.
    - now apply ev_do_like_notlike.
    - destruct rl as [[lit ins]|].
      + rewrite Ho. destruct ins; [now apply ev_do_like_ilike|now apply ev_do_like_like].
      + pose proof Hr as H2. unfold Eq, sql_match. cbn [ev String.eqb Ascii.eqb Bool.eqb]. rewrite H2.
        now rewrite str_fn2_str, vcmp_bool_1.
    - destruct rl as [[lit ins]|].
      + rewrite Ho. destruct ins; [now apply ev_do_like_notilike|now apply ev_do_like_notlike].
      + pose proof Hr as H2. unfold Eq, sql_match. cbn [ev String.eqb Ascii.eqb Bool.eqb]. rewrite H2.
        now rewrite str_fn2_str, vcmp_bool_0.
  Qed.

  Lemma ev_lft_clauses r g line lfs : line_row r line ->
    (forall t, List.In t lfs -> stage_oracle_ok re_match parse_float (lft_stage t)) ->
    Forall2 (fun e b => EV e (r :: g) = Some (vbool b)) (map lft_clause lfs) (map (lft_ok line) lfs).
  Proof.
    intros Hr. induction lfs as [|t l IH]; intros Ho; cbn [map]; constructor.
    - apply ev_lft_clause; [exact Hr|]. apply Ho. now left.
    - apply IH. intros t' Ht'. apply Ho. now right.
  Qed.
  Lemma forallb_map_id {A} (p : A -> bool) l : forallb (fun b => b) (map p l) = forallb p l.
  Proof. induction l as [|a l IH]; [reflexivity|]. cbn [map forallb]. now rewrite IH. Qed.

  Definition main_base (w : string * select) : select :=
    and_where [In (Id "samples.fingerprint") [WRef (fst w) (snd w)]] (with_ [w] (main_init c)).
  Definition main_where (w : string * select) (lfs : list lft) : option expr :=
    Some (And (In (Id "samples.fingerprint") [WRef (fst w) (snd w)] :: map lft_clause lfs)).
  Definition main_filtered (w : string * select) (lfs : list lft) : select :=
    fold_left (fun q t => and_where [lft_clause t] q) lfs (main_base w).
  Lemma main_filtered_eq w lfs : main_filtered w lfs = set_where (main_where w lfs) (main_base w).
  Proof.
    unfold main_filtered, main_where.
    assert (H : forall lfs q0 cl0, s_where q0 = Some (And cl0) ->
              fold_left (fun q t => and_where [lft_clause t] q) lfs q0 = set_where (Some (And (cl0 ++ map lft_clause lfs))) q0).
    { clear lfs. induction lfs as [|t lfs IH]; intros q0 cl0 Hw; cbn [fold_left map].
      - rewrite app_nil_r, <- Hw. destruct q0; reflexivity.
      - rewrite (IH (and_where [lft_clause t] q0) (cl0 ++ [lft_clause t])%list).
        + rewrite <- app_assoc. reflexivity.
        + unfold and_where. rewrite Hw. reflexivity. }
    rewrite (H lfs (main_base w) [In (Id "samples.fingerprint") [WRef (fst w) (snd w)]]); reflexivity.
  Qed.
  Definition main_select (w : string * select) (lfs : list lft) : select :=
    let q := set_orderby [Ord (Id "timestamp_ns") (c_asc c)] (set_where (main_where w lfs) (main_base w)) in
    if Z.eqb (c_limit c) 0 then q else set_limit (Some (IntV (c_limit c))) q.

  Definition main_pred (F : list Z) (lfs : list lft) (x : sample) : bool :=
    (in_window c x && type_in c (x_type x)) && (memz (x_fp x) F && forallb (lft_ok (x_line x)) lfs).
  Definition ts_leb (a b : sample) : bool := if c_asc c then Z.leb (x_ts a) (x_ts b) else Z.leb (x_ts b) (x_ts a).
  Definition limited {A} (l : list A) : list A := if Z.eqb (c_limit c) 0 then l else firstn (Z.to_nat (c_limit c)) l.
  Definition main_row (x : sample) : row :=
    [("timestamp_ns", VInt (x_ts x)); ("fingerprint", VInt (x_fp x)); ("string", VStr (x_line x)); ("value", VNum (inject_Z 0))].

  Lemma isort_ext {A} (l1 l2 : A -> A -> bool) l : (forall a b, l1 a b = l2 a b) -> isort l1 l = isort l2 l.
  Proof.
    intros H. induction l as [|x l IH]; [reflexivity|]. cbn [isort]. rewrite IH.
    generalize (isort l2 l). intros s. induction s as [|y s IHs]; [reflexivity|].
    cbn [insert_sorted]. now rewrite H, IHs.
  Qed.

  (* a samples row extended with the aliases of the main SELECT list (they shadow nothing: same values) *)
  Definition main_cols : list expr :=
    [SimpleCol "samples.timestamp_ns" "timestamp_ns"; SimpleCol "samples.fingerprint" "fingerprint";
     SimpleCol "samples.string" "string"; Col (Fn "toFloat64" [IntV 0]) "value"].
  Definition senv2 (x : sample) : row := (main_row x ++ senv x)%list.
  Lemma arow_main x : arow EV main_cols (senv x) = senv2 x.
  Proof. reflexivity. Qed.

  Lemma es_main w lfs F : ES (snd w) = Some (map fp_row F) ->
    (forall t, List.In t lfs -> stage_oracle_ok re_match parse_float (lft_stage t)) ->
    exists xs, Permutation xs (filter (main_pred F lfs) (d_samples d))
      /\ ES (main_select w lfs) = Some (map main_row (limited (isort ts_leb xs))).
  Proof.
    intros Hw Ho.
    destruct (order_groups_gen [Ord (Id "timestamp_ns") (c_asc c)] (fun x => [senv2 x]) (fun x => [VInt (x_ts x)])
                (filter (main_pred F lfs) (d_samples d))) as [xs [Hperm Hord]]; [discriminate|reflexivity|reflexivity|].
    exists xs. split; [exact Hperm|].
    rewrite esel_flat by (unfold main_select; destruct (c_limit c =? 0)%Z; reflexivity).
    replace (s_from (main_select w lfs)) with (Some (SimpleCol (t_samples c) "samples"))
      by (unfold main_select; destruct (c_limit c =? 0)%Z; reflexivity).
    replace (s_prewhere (main_select w lfs)) with (Some (And [Ge (Id "samples.timestamp_ns") (IntV (c_from_ns c));
                Lt (Id "samples.timestamp_ns") (IntV (c_to_ns c)); get_types c]))
      by (unfold main_select; destruct (c_limit c =? 0)%Z; reflexivity).
    replace (s_where (main_select w lfs)) with (main_where w lfs)
      by (unfold main_select; destruct (c_limit c =? 0)%Z; reflexivity).
    replace (s_orderby (main_select w lfs)) with [Ord (Id "timestamp_ns") (c_asc c)]
      by (unfold main_select; destruct (c_limit c =? 0)%Z; reflexivity).
    replace (s_cols (main_select w lfs)) with main_cols
      by (unfold main_select; destruct (c_limit c =? 0)%Z; reflexivity).
    replace (s_limit (main_select w lfs)) with (if (c_limit c =? 0)%Z then None else Some (IntV (c_limit c)))
      by (unfold main_select; destruct (c_limit c =? 0)%Z; reflexivity).
    rewrite et_samples, map_map. rewrite (map_ext _ senv2) by (intros x; apply arow_main).
    rewrite (filter_opt_map_total senv2 _ (main_pred F lfs)).
    2:{ intros x _. unfold cond_ok, main_where.
        rewrite (ev_and_bools _ [Z.leb (c_from_ns c) (x_ts x); Z.ltb (x_ts x) (c_to_ns c); type_in c (x_type x)]).
        2: discriminate.
        2:{ constructor; [|constructor; [|constructor; [|constructor]]].
            - unfold Ge. cbn [ev]. change (lookup "samples.timestamp_ns" (senv2 x)) with (Some (VInt (x_ts x))). apply vcmp_ge_int.
            - unfold Lt. cbn [ev]. change (lookup "samples.timestamp_ns" (senv2 x)) with (Some (VInt (x_ts x))). apply vcmp_lt_int.
            - now apply ev_get_types. }
        rewrite (ev_and_bools _ (memz (x_fp x) F :: map (lft_ok (x_line x)) lfs)).
        2: discriminate.
        2:{ constructor.
            - now apply (ev_in_sub (Id "samples.fingerprint") (fst w) (snd w) [senv2 x] (x_fp x) F).
            - apply ev_lft_clauses; [split; reflexivity|exact Ho]. }
        rewrite !truthy_vbool. unfold main_pred, in_window. cbn [forallb]. f_equal.
        rewrite forallb_map_id, andb_true_r, !andb_assoc. reflexivity. }
    rewrite map_map, Hord.
    rewrite (isort_ext _ ts_leb) by (intros a b; unfold ord_dirs; cbn [map]; apply keys_leb_1).
    assert (Hlim : match (if (c_limit c =? 0)%Z then None else Some (IntV (c_limit c))) with
                   | Some (IntV n) => Some (firstn (Z.to_nat n) (map (fun x => [senv2 x]) (isort ts_leb xs)))
                   | None => Some (map (fun x => [senv2 x]) (isort ts_leb xs))
                   | _ => None end = Some (map (fun x => [senv2 x]) (limited (isort ts_leb xs)))).
    { unfold limited. destruct (c_limit c =? 0)%Z; [reflexivity|]. now rewrite firstn_map. }
    rewrite Hlim. now apply map_opt_map_total.
  Qed.

  (* ---------- Part 1g: the _time_series CTE ---------- *)
  Definition ts_select (w : string * select) : select :=
    and_prewhere [In (Id "time_series.fingerprint") [WRef (fst w) (snd w)]] (with_ [w] (ts_init c)).
  Definition ts_pred (F : list Z) (s : series_row) : bool :=
    Z.leb (from_day (c_from_ns c)) (ts_day s) && type_in c (ts_type s) && memz (ts_fp s) F.
  Definition ts_out (s : series_row) : row := [("fingerprint", VInt (ts_fp s)); ("labels", VMap (ts_labels s))].
  Lemma ev_labels_raw r g ls : lookup "time_series.labels" r = Some (VMap ls) ->
    EV (Raw ts_labels_expr) (r :: g) = Some (VMap ls).
  Proof. intros H. change (EV (Raw ts_labels_expr) (r :: g)) with (match lookup "time_series.labels" r with Some (VMap m) => Some (VMap m) | _ => None end). now rewrite H. Qed.
  Definition tsenv2 (s : series_row) : row := (ts_out s ++ tsenv s)%list.
  Lemma arow_ts s : arow EV [SimpleCol "time_series.fingerprint" "fingerprint"; Col (Raw ts_labels_expr) "labels"] (tsenv s) = tsenv2 s.
  Proof. reflexivity. Qed.
  Lemma es_ts w F : ES (snd w) = Some (map fp_row F) ->
    ES (ts_select w) = Some (map ts_out (filter (ts_pred F) (d_series d))).
  Proof.
    intros Hw. rewrite esel_flat by reflexivity.
    change (s_from (ts_select w)) with (Some (SimpleCol (t_ts_dist c) "time_series")).
    change (s_prewhere (ts_select w)) with (Some (And [Ge (Id "time_series.date") (format_from_date c); get_types c;
                                                       In (Id "time_series.fingerprint") [WRef (fst w) (snd w)]])).
    change (s_where (ts_select w)) with (@None expr). change (s_orderby (ts_select w)) with (@nil expr).
    change (s_limit (ts_select w)) with (@None expr).
    change (s_cols (ts_select w)) with [SimpleCol "time_series.fingerprint" "fingerprint"; Col (Raw ts_labels_expr) "labels"].
    cbn iota beta. rewrite et_ts_dist, map_map. rewrite (map_ext _ tsenv2) by (intros s; apply arow_ts).
    rewrite (filter_opt_map_total tsenv2 _ (ts_pred F)).
    2:{ intros s _. unfold cond_ok.
        rewrite (ev_and_bools _ [Z.leb (from_day (c_from_ns c)) (ts_day s); type_in c (ts_type s); memz (ts_fp s) F]).
        2: discriminate.
        2:{ constructor; [|constructor; [|constructor; [|constructor]]].
            - unfold Ge, format_from_date. cbn [ev]. change (lookup "time_series.date" (tsenv2 s)) with (Some (VInt (ts_day s))).
              apply vcmp_ge_int.
            - now apply ev_get_types.
            - now apply (ev_in_sub (Id "time_series.fingerprint") (fst w) (snd w) [tsenv2 s] (ts_fp s) F). }
        rewrite truthy_vbool. unfold ts_pred. cbn [forallb]. now rewrite !andb_true_r, andb_assoc. }
    cbn [order_groups]. rewrite map_map.
    apply map_opt_map_total. intros s _. cbn [map_opt col_body col_name SimpleCol]. rewrite (ev_labels_raw _ _ (ts_labels s)) by reflexivity. reflexivity.
  Qed.

  (* ---------- Part 1h: main ANY LEFT JOIN _time_series ---------- *)
  Definition join_select (mainreq tsreq : select) : select :=
    set_joins [(join_type c, WRef "_time_series" tsreq,
                Some (Eq (Id "main.fingerprint") (Id "_time_series.fingerprint")))]
      (set_from (WRef "main" mainreq)
        (set_cols [SimpleCol "main.fingerprint" "fingerprint"; SimpleCol "main.timestamp_ns" "timestamp_ns";
                   SimpleCol "_time_series.labels" "labels"; SimpleCol "main.string" "string";
                   SimpleCol "main.value" "value"]
          (with_ [("main", mainreq); ("_time_series", tsreq)] empty_select))).
  Definition pre_row (xl : sample * labels) : row :=
    [("fingerprint", VInt (x_fp (fst xl))); ("timestamp_ns", VInt (x_ts (fst xl))); ("labels", VMap (snd xl));
     ("string", VStr (x_line (fst xl))); ("value", VNum (inject_Z 0))].
  Definition labels_in (tl : list series_row) (x : sample) : labels :=
    match find (fun s => Z.eqb (x_fp x) (ts_fp s)) tl with Some s => ts_labels s | None => [] end.

  Lemma et_wref a q : ET (WRef a q) = option_map (qualify a) (ES q).
  Proof. reflexivity. Qed.
  Definition menv (x : sample) : row := env_of "main" (main_row x).
  Definition jenv (s : series_row) : row := env_of "_time_series" (ts_out s).
  Lemma find_some_of_exists {X} (b : X -> bool) l : (exists s, List.In s l /\ b s = true) -> exists s0, find b l = Some s0.
  Proof.
    intros [s [Hs Hb]]. destruct (find b l) as [s0|] eqn:E; [now exists s0|].
    exfalso. pose proof (find_none _ _ E s Hs) as Hn. congruence.
  Qed.

  Lemma filter_true {X} (l : list X) : filter (fun _ => true) l = l.
  Proof. induction l as [|a l IH]; [reflexivity|]. cbn [filter]. now rewrite IH. Qed.

  Lemma es_join mainreq tsreq (ml : list sample) (tl : list series_row) :
    ES mainreq = Some (map main_row ml) -> ES tsreq = Some (map ts_out tl) ->
    (forall x, List.In x ml -> exists s, List.In s tl /\ ts_fp s = x_fp x) ->
    exists tl', Permutation tl' tl
      /\ ES (join_select mainreq tsreq) = Some (map (fun x => pre_row (x, labels_in tl' x)) ml).
  Proof.
    intros Hm Ht Hex.
    destruct (Permutation_map_inv (fun s => env_of "_time_series" (ts_out s)) _
                (tie_perm _ (map (fun s => env_of "_time_series" (ts_out s)) tl))) as [tl' [Etl Hperm]].
    exists tl'. split; [now apply Permutation_sym|].
    unfold esel in Hm, Ht. unfold esel, esel_gen, join_select.
    cbn [s_distinct s_offset s_unions s_from s_joins s_prewhere s_where s_groupby s_having s_orderby s_limit s_cols
         set_joins set_from set_cols with_ add_withs set_withs empty_select fold_left].
    rewrite et_wref. fold (ES mainreq). unfold esel. rewrite Hm. cbn [option_map]. rewrite qualify_map.
    match goal with |- match ?J with _ => _ end = _ =>
      assert (HJ : J = Some (map (fun x => (menv x ++ match find (fun s => Z.eqb (x_fp x) (ts_fp s)) tl' with
                                                  | Some s => jenv s | None => [] end)%list) ml)) end.
    { unfold join1.
      assert (Etp : (String.eqb (join_type c) "ANY LEFT " || String.eqb (join_type c) "GLOBAL ANY LEFT ") = true)
        by (unfold join_type; destruct (c_cluster c); reflexivity).
      rewrite Etp, et_wref. unfold esel. rewrite Ht. cbn [option_map]. rewrite qualify_map.
      fold jenv in Etl |- *. rewrite Etl.
      apply map_opt_map_total. intros x Hx.
      rewrite (find_opt_map_total jenv _ (fun s => Z.eqb (x_fp x) (ts_fp s))).
      2:{ intros s _. unfold Eq. cbn [ev].
          change (lookup "main.fingerprint" (env_of "main" (main_row x) ++ jenv s)%list) with (Some (VInt (x_fp x))).
          change (lookup "_time_series.fingerprint" (env_of "main" (main_row x) ++ jenv s)%list) with (Some (VInt (ts_fp s))).
          cbn iota beta. rewrite vcmp_eq_int. apply truthy_vbool. }
      destruct (find_some_of_exists (fun s => Z.eqb (x_fp x) (ts_fp s)) tl') as [s0 E0].
      { destruct (Hex x Hx) as [s [Hs Hfp]]. exists s. split.
        - apply (Permutation_in s Hperm Hs).
        - apply Z.eqb_eq. now symmetry. }
      rewrite E0. reflexivity. }
    rewrite HJ, map_map.
    rewrite (filter_opt_total _ (fun _ => true)) by (intros r _; reflexivity).
    rewrite filter_true.
    cbn [order_groups]. rewrite map_map.
    apply map_opt_map_total. intros x Hx. unfold labels_in.
    destruct (find_some_of_exists (fun s => Z.eqb (x_fp x) (ts_fp s)) tl') as [s0 E0].
    { destruct (Hex x Hx) as [s [Hs Hfp]]. exists s. split.
      - apply (Permutation_in s Hperm Hs).
      - apply Z.eqb_eq. now symmetry. }
    rewrite E0. reflexivity.
  Qed.

  (* ---------- Part 1i: the outermost SELECT ---------- *)
  Definition final_select (req : select) : select :=
    set_orderby [Ord (Id "fingerprint") (c_asc c); Ord (Id "timestamp_ns") (c_asc c)]
      (set_from (WRef "prefinal" req)
        (set_cols [SimpleCol "prefinal.fingerprint" "fingerprint"; SimpleCol "prefinal.labels" "labels";
                   SimpleCol "prefinal.string" "string"; SimpleCol "prefinal.timestamp_ns" "timestamp_ns"]
          (with_ [("prefinal", req)] empty_select))).
  Definition fin_row (xl : sample * labels) : row :=
    [("fingerprint", VInt (x_fp (fst xl))); ("labels", VMap (snd xl)); ("string", VStr (x_line (fst xl)));
     ("timestamp_ns", VInt (x_ts (fst xl)))].
  Lemma es_final req (pl : list (sample * labels)) : ES req = Some (map pre_row pl) ->
    exists rows, ES (final_select req) = Some rows /\ Permutation rows (map fin_row pl).
  Proof.
    intros Hr.
    destruct (order_groups_gen [Ord (Id "fingerprint") (c_asc c); Ord (Id "timestamp_ns") (c_asc c)]
                (fun xl => [(fin_row xl ++ env_of "prefinal" (pre_row xl))%list]) (fun xl => [VInt (x_fp (fst xl)); VInt (x_ts (fst xl))]) pl)
      as [pl' [Hperm Hord]]; [discriminate|reflexivity|reflexivity|].
    eexists. split.
    - rewrite esel_flat by reflexivity.
      change (s_from (final_select req)) with (Some (WRef "prefinal" req)).
      change (s_prewhere (final_select req)) with (@None expr). change (s_where (final_select req)) with (@None expr).
      change (s_limit (final_select req)) with (@None expr).
      change (s_orderby (final_select req)) with [Ord (Id "fingerprint") (c_asc c); Ord (Id "timestamp_ns") (c_asc c)].
      change (s_cols (final_select req)) with
          [SimpleCol "prefinal.fingerprint" "fingerprint"; SimpleCol "prefinal.labels" "labels";
           SimpleCol "prefinal.string" "string"; SimpleCol "prefinal.timestamp_ns" "timestamp_ns"].
      cbn iota beta. rewrite et_wref, Hr. cbn [option_map]. rewrite qualify_map, map_map.
      rewrite (map_ext _ (fun xl => (fin_row xl ++ env_of "prefinal" (pre_row xl))%list)) by (intros xl; reflexivity).
      rewrite (filter_opt_total _ (fun _ => true)) by (intros r _; reflexivity).
      rewrite filter_true, map_map.
      match goal with |- match ?O with _ => _ end = _ => pose proof (Hord : O = _) as HO; rewrite HO end.
      apply (map_opt_map_total _ _ fin_row). intros xl _. reflexivity.
    - apply Permutation_map. eapply Permutation_trans; [apply isort_perm|exact Hperm].
  Qed.

  (* ================= Part 2: the planner chain of a query of the fragment ================= *)
  Fixpoint lfts (ppl : list stage) : list lft :=
    match ppl with
    | [] => []
    | PLineFilter op v rl :: r => (op, v, rl) :: lfts r
    | _ :: r => lfts r
    end.
  Fixpoint slfs (ppl : list stage) : list label_filter :=
    match ppl with
    | [] => []
    | PLabelFilter f :: r => f :: slfs r
    | _ :: r => slfs r
    end.
  Definition fp_planner (ms : list matcher) (fs : list label_filter) : planner :=
    fold_left (fun fp f => PSimpleLabelFilter f fp) fs (PStreamSelect ms).
  Definition lf_wrap (ts : list lft) (base : planner) : planner :=
    fold_left (fun cur t => PLineFilterP (fst (fst t)) (snd (fst t)) (snd t) cur) ts base.

  Section PLAN.
    Variable ppl : list stage.
    Hypothesis Hsup : forallb (stage_supported) ppl = true.

    Lemma sup_no_parser : forall l, forallb stage_supported l = true -> simple_ops l = map is_label_filter l.
    Proof.
      induction l as [|s l IH]; intros H; [reflexivity|]. cbn [forallb] in H. apply andb_prop in H. destruct H as [Hs Hl].
      cbn [simple_ops map]. destruct s; try discriminate; cbn [is_relabel is_label_filter]; now rewrite IH.
    Qed.
    Lemma sup_lji : forall l i, forallb stage_supported l = true -> labels_join_idx l (map is_label_filter l) i = None.
    Proof.
      induction l as [|s l IH]; intros i H; [reflexivity|]. cbn [forallb] in H. apply andb_prop in H. destruct H as [Hs Hl].
      cbn [labels_join_idx map]. destruct s; try discriminate; cbn [is_label_filter]; now apply IH.
    Qed.
    Lemma sup_renew : forall l i, forallb stage_supported l = true -> renew_after l None i = map (fun _ => false) l.
    Proof.
      induction l as [|s l IH]; intros i H; [reflexivity|]. cbn [forallb] in H. apply andb_prop in H. destruct H as [Hs Hl].
      cbn [renew_after map]. rewrite IH by assumption. destruct l as [|n l']; [reflexivity|].
      cbn [forallb] in Hl. apply andb_prop in Hl. destruct Hl as [Hn _].
      destruct s; try discriminate; cbn [is_parser is_drop]; destruct n; try discriminate; cbn [is_relabel]; try rewrite Bool.andb_false_r; reflexivity.
    Qed.
    Lemma sup_plan_ts : forall l acc, forallb stage_supported l = true ->
      fold_left (fun fp sb => match fst sb, snd sb with PLabelFilter f, true => PSimpleLabelFilter f fp | _, _ => fp end)
                (combine l (map is_label_filter l)) acc
      = fold_left (fun fp f => PSimpleLabelFilter f fp) (slfs l) acc.
    Proof.
      induction l as [|s l IH]; intros acc H; [reflexivity|]. cbn [forallb] in H. apply andb_prop in H. destruct H as [Hs Hl].
      cbn [map combine fold_left fst snd slfs]. destruct s; try discriminate; cbn [is_label_filter fold_left]; now apply IH.
    Qed.
    Lemma sup_plan_spl fp : forall l i cur, forallb stage_supported l = true ->
      plan_spl l (map is_label_filter l) (map (fun _ => false) l) i None fp cur = Some (lf_wrap (lfts l) cur).
    Proof.
      induction l as [|s l IH]; intros i cur H; [reflexivity|]. cbn [forallb] in H. apply andb_prop in H. destruct H as [Hs Hl].
      cbn [map plan_spl]. destruct s; try discriminate; cbn [plan_stage is_label_filter lfts]; rewrite IH by assumption; reflexivity.
    Qed.

    Lemma plan_log_fragment ms :
      plan_log {| sel_matchers := ms; sel_pipeline := ppl |} true =
      Some (PMainFinalizer
              (PLabelsJoin (PMainLimit (PMainOrderBy ["timestamp_ns"]
                              (lf_wrap (lfts ppl) (PFingerprintFilter (fp_planner ms (slfs ppl)) PMainInit))))
                           (fp_planner ms (slfs ppl)) PTimeSeriesInit false) false true).
    Proof.
      unfold plan_log. cbn [sel_pipeline sel_matchers]. rewrite (sup_no_parser ppl Hsup), (sup_lji ppl 0 Hsup), (sup_renew ppl 0 Hsup).
      unfold plan_ts. rewrite (sup_plan_ts ppl _ Hsup). fold (fp_planner ms (slfs ppl)).
      rewrite (sup_plan_spl _ ppl 0%nat _ Hsup). reflexivity.
    Qed.
  End PLAN.

  (* every supported label filter has an SQL condition *)
  Lemma simple_cond_some s : simple_supported s = true -> exists cond, simple_cond json_getter s = Some cond.
  Proof.
    unfold simple_supported, simple_cond, json_getter. destruct (lblop_numeric s) eqn:En.
    - destruct (slf_num s) as [[txt f]|]; [|discriminate]. intros Ht. apply negb_true_iff in Ht. rewrite Ht.
      unfold lblop_numeric in En. destruct (slf_fn s); try discriminate; eexists; reflexivity.
    - destruct (slf_str s) as [w|]; [|discriminate]. destruct (slf_fn s); try discriminate; eexists; reflexivity.
  Qed.
  Lemma lf_cond_some : forall f, lf_supported f = true -> exists cond, lf_cond json_getter f = Some cond.
  Proof.
    fix IH 1. intros f H. destruct f as [head op tail]. cbn [lf_supported] in H. apply andb_prop in H. destruct H as [Hh Ht].
    cbn [lf_cond].
    assert (Hhead : exists l, match head with HSimple s => simple_cond json_getter s | HComplex f' => lf_cond json_getter f' end = Some l).
    { destruct head as [s|f']; [now apply simple_cond_some|now apply IH]. }
    destruct Hhead as [l ->]. destruct tail as [t|]; [|eexists; reflexivity].
    apply andb_prop in Ht. destruct Ht as [Ht Hop]. destruct (IH t Ht) as [rr ->].
    destruct op as [[|]|]; [| |discriminate]; eexists; reflexivity.
  Qed.

  Section CHAIN.
    Variable ms : list matcher.
    Hypothesis Hms : ms <> [].
    Definition fp_chain_list (fs : list label_filter) : list Z := fold_left slf_list fs (fp_sel_list ms).

    Lemma process_fp : forall fs,
      (forall f, List.In f fs -> lf_supported f = true /\ lf_oracle_ok parse_float f) ->
      forall st, exists q st', process (fp_planner ms fs) c st = Some (q, st', fp_planner ms fs)
        /\ fp_cache st' = fp_cache st /\ ES q = Some (map fp_row (fp_chain_list fs)).
    Proof.
      induction fs as [|f fs IH] using rev_ind; intros Hfs st.
      - exists (stream_select c ms), st. split; [reflexivity|]. split; [reflexivity|]. now apply es_stream_select.
      - destruct (IH (fun f' Hf' => Hfs f' (in_or_app _ _ _ (or_introl Hf'))) st) as [q [st1 [Hp [Hc Hq]]]].
        destruct (Hfs f) as [Hsup Hor]; [apply in_or_app; right; now left|].
        destruct (lf_cond_some f Hsup) as [cond Hcond].
        unfold fp_planner, fp_chain_list in *. rewrite !fold_left_app. cbn [fold_left].
        cbn [process]. rewrite Hp. cbn [bind]. unfold json_getter in Hcond. rewrite Hcond. cbn [bind next_id].
        eexists. eexists. split; [reflexivity|]. split; [exact Hc|].
        apply (es_slf _ q cond f _ Hq Hcond Hor).
    Qed.

    Lemma process_main w fp : forall ts st, fp_cache st = Some w ->
      process (lf_wrap ts (PFingerprintFilter fp PMainInit)) c st
      = Some (main_filtered w ts, st, lf_wrap ts (PFingerprintFilter fp PMainInit)).
    Proof.
      induction ts as [|t ts IH] using rev_ind; intros st Hc.
      - cbn [lf_wrap fold_left process with_connector bind]. rewrite Hc. reflexivity.
      - unfold lf_wrap, main_filtered in *. rewrite !fold_left_app. cbn [fold_left process]. rewrite IH by assumption.
        reflexivity.
    Qed.
  End CHAIN.

  Lemma log_select_shape ms ppl : ms <> [] -> forallb stage_supported ppl = true ->
    (forall f, List.In f (slfs ppl) -> lf_supported f = true /\ lf_oracle_ok parse_float f) ->
    exists wq, ES wq = Some (map fp_row (fp_chain_list ms (slfs ppl)))
      /\ log_select {| sel_matchers := ms; sel_pipeline := ppl |} c
         = Some (final_select (join_select (main_select ("fp_sel", wq) (lfts ppl)) (ts_select ("fp_sel", wq)))).
  Proof.
    intros Hms Hsup Hfs. unfold log_select. rewrite (plan_log_fragment ppl Hsup ms).
    destruct (process_fp ms Hms (slfs ppl) Hfs (clear_caches pst0)) as [wq [st1 [Hp [Hc Hq]]]].
    exists wq. split; [exact Hq|].
    destruct ctx_names as [_ [_ [_ [_ [_ [Hfin _]]]]]].
    cbn [process with_connector bind]. cbn [fp_cache clear_caches]. rewrite Hp. cbn [bind].
    rewrite (process_main ("fp_sel", wq) (fp_planner ms (slfs ppl)) (lfts ppl) (set_fp_cache ("fp_sel", wq) st1)) by reflexivity.
    cbn [bind]. rewrite Hfin. cbn [negb]. rewrite main_filtered_eq.
    unfold final_select, join_select, main_select, ts_select.
    destruct (c_limit c =? 0)%Z; reflexivity.
  Qed.

  (* ================= Part 3: what the list functions select ================= *)
  Lemma label_of_in (l : labels) k v : NoDup (map fst l) -> List.In (k, v) l -> label_of l k = v.
  Proof.
    induction l as [|[k0 v0] l IH]; intros Hnd Hin; [destruct Hin|].
    cbn [map fst] in Hnd. inversion Hnd as [|? ? Hnot Hnd']; subst. cbn [label_of fst snd].
    destruct Hin as [Heq|Hin].
    - injection Heq as -> ->. now rewrite String.eqb_refl.
    - destruct (String.eqb_spec k0 k) as [->|Hne]; [|now apply IH].
      exfalso. apply Hnot. apply in_map_iff. now exists (k, v).
  Qed.
  Lemma label_of_present (l : labels) k : List.In k (map fst l) -> List.In (k, label_of l k) l.
  Proof.
    induction l as [|[k0 v0] l IH]; intros Hin; [destruct Hin|]. cbn [label_of fst snd].
    destruct (String.eqb_spec k0 k) as [->|Hne]; [now left|]. right. apply IH.
    cbn [map fst] in Hin. destruct Hin as [Heq|Hin]; [congruence|exact Hin].
  Qed.
  Lemma label_of_absent (l : labels) k : ~ List.In k (map fst l) -> label_of l k = "".
  Proof.
    induction l as [|[k0 v0] l IH]; intros Hnot; [reflexivity|]. cbn [label_of fst snd].
    destruct (String.eqb_spec k0 k) as [->|Hne]; [exfalso; apply Hnot; now left|].
    apply IH. intros Hin. apply Hnot. now right.
  Qed.
  Lemma memz_in z l : memz z l = true <-> List.In z l.
  Proof.
    unfold memz. rewrite existsb_exists. split.
    - intros [y [Hy Heq]]. apply Z.eqb_eq in Heq. now subst.
    - intros H. exists z. split; [exact H|apply Z.eqb_refl].
  Qed.

  Section SEMANTICS.
    Hypothesis Hdb : db_ok c d.
    Let D := from_day (c_from_ns c).
    Definition sl (fp : Z) : labels := series_labels d fp.

    Lemma sl_series s : List.In s (d_series d) -> sl (ts_fp s) = ts_labels s.
    Proof.
      intros Hs. destruct Hdb as [_ [Huniq _]]. unfold sl, series_labels.
      destruct (find (fun s0 => Z.eqb (ts_fp s0) (ts_fp s)) (d_series d)) as [s0|] eqn:E.
      - apply find_some in E. destruct E as [Hs0 Heq]. apply Z.eqb_eq in Heq. now apply Huniq.
      - exfalso. pose proof (find_none _ _ E s Hs) as Hn. cbn in Hn. now rewrite Z.eqb_refl in Hn.
    Qed.

    (* the fp_sel CTE: every matcher is witnessed by an index row of the fingerprint *)
    Lemma fp_sel_list_in ms fp : ms <> [] -> (List.length ms <= 64)%nat ->
      (List.In fp (fp_sel_list ms) <->
       forall m, List.In m ms -> exists g, List.In g (d_gin d) /\ g_fp g = fp /\ (D <= g_day g)%Z
                                      /\ type_in c (g_type g) = true /\ clause_b m (g_key g) (g_val g) = true).
    Proof.
      intros Hne Hlen. unfold fp_sel_list. rewrite filter_In, nodupz_in, Z.eqb_eq.
      set (rows := filter (gin_where ms) (d_gin d)).
      assert (Hmask : Z.of_N (group_mask ms (gin_group rows fp)) = (2 ^ Z.of_nat (List.length ms) - 1)%Z
                      <-> forall m, List.In m ms -> exists g, List.In g (gin_group rows fp) /\ clause_b m (g_key g) (g_val g) = true).
      { unfold group_mask, clause_bits.
        rewrite <- (bitmask_having_pred (fun m g => clause_b m (g_key g) (g_val g)) ms (gin_group rows fp) Hlen).
        assert (H2 : (2 ^ Z.of_nat (List.length ms) - 1)%Z = Z.of_N (2 ^ N.of_nat (List.length ms) - 1)).
        { assert (Hp : (2 ^ N.of_nat (List.length ms))%N <> 0%N) by (apply N.pow_nonzero; discriminate).
          rewrite N2Z.inj_sub by lia. rewrite N2Z.inj_pow, nat_N_Z. reflexivity. }
        rewrite H2. split; [apply N2Z.inj|intros ->; reflexivity]. }
      rewrite Hmask. clear Hmask. split.
      - intros [_ H] m Hm. destruct (H m Hm) as [g [Hg Hcl]].
        apply filter_In in Hg. destruct Hg as [Hg Hfp]. apply Z.eqb_eq in Hfp.
        apply filter_In in Hg. destruct Hg as [Hg Hw]. unfold gin_where in Hw.
        apply andb_prop in Hw. destruct Hw as [Hw _]. apply andb_prop in Hw. destruct Hw as [Hd Ht].
        apply Z.leb_le in Hd. exists g. tauto.
      - intros H.
        assert (Hin : forall m, List.In m ms -> exists g, List.In g (gin_group rows fp) /\ clause_b m (g_key g) (g_val g) = true).
        { intros m Hm. destruct (H m Hm) as [g [Hg [Hfp [Hd [Ht Hcl]]]]]. exists g. split; [|exact Hcl].
          apply filter_In. split; [|now apply Z.eqb_eq]. apply filter_In. split; [exact Hg|].
          unfold gin_where. apply andb_true_intro. split; [apply andb_true_intro; split; [now apply Z.leb_le|exact Ht]|].
          apply existsb_exists. now exists m. }
        split; [|exact Hin].
        destruct ms as [|m0 ms']; [congruence|]. destruct (Hin m0 (or_introl eq_refl)) as [g [Hg _]].
        apply filter_In in Hg. destruct Hg as [Hg Hfp]. apply Z.eqb_eq in Hfp.
        apply in_map_iff. now exists g.
    Qed.

    Definition series_live (fp : Z) : Prop :=
      exists s, List.In s (d_series d) /\ ts_fp s = fp /\ (D <= ts_day s)%Z /\ type_in c (ts_type s) = true.

    Lemma fp_sel_sem ms fp : ms <> [] -> (List.length ms <= 64)%nat ->
      (forall m, List.In m ms -> matcher_val_ok re_match m "" = true ->
         forall s, List.In s (d_series d) -> List.In (m_name m) (map fst (ts_labels s))) ->
      (List.In fp (fp_sel_list ms) <-> series_live fp /\ forallb (matcher_ok re_match (sl fp)) ms = true).
    Proof.
      intros Hne Hlen Hguard. rewrite (fp_sel_list_in ms fp Hne Hlen).
      destruct Hdb as [Hgin [Huniq [Hnd _]]]. split.
      - intros H. split.
        + destruct ms as [|m0 ms']; [congruence|]. destruct (H m0 (or_introl eq_refl)) as [g [Hg [Hfp [Hd [Ht _]]]]].
          apply Hgin in Hg. destruct Hg as [s [kv [Hs [_ ->]]]]. exists s. cbn in Hfp, Hd, Ht. tauto.
        + apply forallb_forall. intros m Hm. destruct (H m Hm) as [g [Hg [Hfp [_ [_ Hcl]]]]].
          apply Hgin in Hg. destruct Hg as [s [[k v] [Hs [Hkv ->]]]]. cbn [gin_of g_fp g_key g_val fst snd] in Hfp, Hcl.
          unfold clause_b in Hcl. apply andb_prop in Hcl. destruct Hcl as [Hk Hv]. apply String.eqb_eq in Hk. subst k.
          unfold matcher_ok. rewrite <- Hfp, (sl_series s Hs), (label_of_in _ _ _ (Hnd s Hs) Hkv). exact Hv.
      - intros [[s [Hs [Hfp [Hd Ht]]]] Hall] m Hm.
        rewrite forallb_forall in Hall. specialize (Hall m Hm). unfold matcher_ok in Hall.
        rewrite <- Hfp, (sl_series s Hs) in Hall.
        destruct (in_dec string_dec (m_name m) (map fst (ts_labels s))) as [Hin|Hnot].
        + apply label_of_present in Hin.
          exists (gin_of s (m_name m, label_of (ts_labels s) (m_name m))). split.
          * apply Hgin. exists s. eexists. split; [exact Hs|]. split; [exact Hin|reflexivity].
          * cbn [gin_of g_fp g_day g_type g_key g_val fst snd]. unfold clause_b. rewrite String.eqb_refl. cbn [andb]. tauto.
        + exfalso. apply Hnot. rewrite (label_of_absent _ _ Hnot) in Hall. now apply (Hguard m Hm Hall s Hs).
    Qed.

    (* the SimpleLabelFilterPlanner chain keeps the fingerprints whose labels pass each filter *)
    Lemma slf_list_in F f fp : (forall z, List.In z F -> series_live z) ->
      (List.In fp (slf_list F f) <-> List.In fp F /\ lf_ok re_match parse_float (sl fp) f = true).
    Proof.
      intros HF. unfold slf_list. rewrite in_map_iff. split.
      - intros [s [Hfp Hs]]. apply filter_In in Hs. destruct Hs as [Hs Hb]. apply andb_prop in Hb. destruct Hb as [Hb Hl].
        apply andb_prop in Hb. destruct Hb as [Hb _]. apply andb_prop in Hb. destruct Hb as [Hm _].
        apply memz_in in Hm. subst fp. rewrite (sl_series s Hs). tauto.
      - intros [Hin Hl]. destruct (HF fp Hin) as [s [Hs [Hfp [Hd Ht]]]]. exists s. split; [exact Hfp|].
        apply filter_In. split; [exact Hs|]. subst fp. rewrite (sl_series s Hs) in Hl. rewrite Hl, Ht, !andb_true_r.
        apply andb_true_intro. split; [now apply memz_in | now apply Z.leb_le].
    Qed.
    Lemma fp_chain_in ms : forall fs fp, ms <> [] -> (List.length ms <= 64)%nat ->
      (forall m, List.In m ms -> matcher_val_ok re_match m "" = true ->
         forall s, List.In s (d_series d) -> List.In (m_name m) (map fst (ts_labels s))) ->
      (List.In fp (fp_chain_list ms fs) <->
       series_live fp /\ forallb (matcher_ok re_match (sl fp)) ms = true /\ forallb (lf_ok re_match parse_float (sl fp)) fs = true).
    Proof.
      intros fs fp Hne Hlen Hguard. revert fp. unfold fp_chain_list.
      induction fs as [|f fs IH] using rev_ind; intros fp.
      - cbn [fold_left forallb]. rewrite (fp_sel_sem ms fp Hne Hlen Hguard). tauto.
      - rewrite fold_left_app. cbn [fold_left]. rewrite slf_list_in.
        + rewrite IH, forallb_app. cbn [forallb]. rewrite andb_true_r, andb_true_iff. tauto.
        + intros z Hz. apply IH in Hz. exact (proj1 Hz).
    Qed.

    Lemma stage_split ls line : forall ppl, forallb stage_supported ppl = true ->
      forallb (stage_ok re_match parse_float ls line) ppl
      = forallb (lft_ok line) (lfts ppl) && forallb (lf_ok re_match parse_float ls) (slfs ppl).
    Proof.
      induction ppl as [|s ppl IH]; intros H; [reflexivity|]. cbn [forallb] in H. apply andb_prop in H. destruct H as [Hs Hl].
      destruct s; try discriminate; cbn [forallb lfts slfs stage_ok]; rewrite (IH Hl).
      - unfold lft_ok at 1. cbn [fst snd]. now rewrite andb_assoc.
      - rewrite !andb_assoc. f_equal. apply andb_comm.
    Qed.

    Section QUERY.
      Variable ms : list matcher.
      Variable ppl : list stage.
      Let q := {| sel_matchers := ms; sel_pipeline := ppl |}.
      Hypothesis Hne : ms <> [].
      Hypothesis Hlen : (List.length ms <= 64)%nat.
      Hypothesis Hsup : forallb stage_supported ppl = true.
      Hypothesis Hguard : absent_guard re_match q d.
      Let F := fp_chain_list ms (slfs ppl).

      Lemma sample_live x : List.In x (d_samples d) -> type_in c (x_type x) = true -> series_live (x_fp x).
      Proof.
        intros Hx Ht. destruct Hdb as [_ [_ [_ Hs]]]. destruct (Hs x Hx) as [s [Hs1 [Hfp [Hty Hd]]]].
        exists s. rewrite Hty. tauto.
      Qed.

      Lemma main_pred_sem x : List.In x (d_samples d) ->
        main_pred F (lfts ppl) x = sample_ok re_match parse_float q c d x.
      Proof.
        intros Hx. unfold main_pred, sample_ok. cbn [sel_matchers sel_pipeline q].
        destruct (type_in c (x_type x)) eqn:Ht; [|destruct (in_window c x); reflexivity].
        rewrite <- (andb_assoc (in_window c x && true)). f_equal.
        rewrite (stage_split _ _ ppl Hsup). fold (sl (x_fp x)).
        apply eq_true_iff_eq. rewrite !andb_true_iff, memz_in. unfold F.
        rewrite (fp_chain_in ms (slfs ppl) (x_fp x) Hne Hlen Hguard).
        pose proof (sample_live x Hx Ht). tauto.
      Qed.

      (* the label map joined to a returned line is the one of its series *)
      Lemma labels_in_sem tl' x : Permutation tl' (filter (ts_pred F) (d_series d)) ->
        List.In x (d_samples d) -> main_pred F (lfts ppl) x = true ->
        labels_in tl' x = series_labels d (x_fp x) /\ exists s, List.In s (filter (ts_pred F) (d_series d)) /\ ts_fp s = x_fp x.
      Proof.
        intros Hperm Hx Hp. unfold main_pred in Hp. apply andb_prop in Hp. destruct Hp as [Hwt Hm].
        apply andb_prop in Hm. destruct Hm as [Hm _].
        pose proof Hm as HF. apply memz_in in HF. unfold F in HF.
        apply (fp_chain_in ms (slfs ppl) (x_fp x) Hne Hlen Hguard) in HF. destruct HF as [[s [Hs [Hfp [Hd Ht]]]] _].
        assert (Hin : List.In s (filter (ts_pred F) (d_series d))).
        { apply filter_In. split; [exact Hs|]. unfold ts_pred. rewrite Hfp, Hm, Ht. rewrite !andb_true_r. now apply Z.leb_le. }
        split; [|now exists s].
        unfold labels_in. destruct (find (fun s0 => Z.eqb (x_fp x) (ts_fp s0)) tl') as [s0|] eqn:E.
        - apply find_some in E. destruct E as [Hs0 Heq]. apply Z.eqb_eq in Heq.
          apply (Permutation_in _ Hperm) in Hs0. apply filter_In in Hs0. destruct Hs0 as [Hs0 _].
          fold (sl (x_fp x)). rewrite Heq. symmetry. now apply sl_series.
        - exfalso. apply (Permutation_in _ (Permutation_sym Hperm)) in Hin.
          pose proof (find_none _ _ E s Hin) as Hn. cbn in Hn. rewrite Hfp, Z.eqb_refl in Hn. discriminate.
      Qed.

      (* ================= Part 4: the plan returns the reference answer ================= *)
      Hypothesis Horacle : oracle_ok re_match parse_float q.

      Lemma slfs_in : forall l f, List.In f (slfs l) -> List.In (PLabelFilter f) l.
      Proof.
        induction l as [|s l IH]; intros f Hf; [destruct Hf|]. destruct s; cbn [slfs] in Hf; try (right; now apply IH).
        destruct Hf as [<-|Hf]; [now left|right; now apply IH].
      Qed.
      Lemma lfts_in : forall l t, List.In t (lfts l) -> List.In (lft_stage t) l.
      Proof.
        induction l as [|s l IH]; intros t Ht; [destruct Ht|]. destruct s; cbn [lfts] in Ht; try (right; now apply IH).
        destruct Ht as [<-|Ht]; [now left|right; now apply IH].
      Qed.
      Lemma in_firstn {X} n (l : list X) x : List.In x (firstn n l) -> List.In x l.
      Proof. intros H. rewrite <- (firstn_skipn n l). apply in_or_app. now left. Qed.
      Lemma ts_leb_total a b : ts_leb a b = true \/ ts_leb b a = true.
      Proof. unfold ts_leb. destruct (c_asc c); rewrite !Z.leb_le; lia. Qed.
      Lemma ts_leb_trans a b e : ts_leb a b = true -> ts_leb b e = true -> ts_leb a e = true.
      Proof. unfold ts_leb. destruct (c_asc c); rewrite !Z.leb_le; lia. Qed.
      Definition mkout (xl : sample * labels) : outrow :=
        {| o_fp := x_fp (fst xl); o_labels := snd xl; o_line := x_line (fst xl); o_ts := x_ts (fst xl) |}.

      Theorem log_plan_correct :
        exists sel rows outs,
          log_select q c = Some sel
          /\ eval re_match parse_float json_get hash_labels tie (to_sqldb c d) sel = Some rows
          /\ map row_out rows = map Some outs
          /\ logql_sem re_match parse_float q c d outs.
      Proof.
        assert (Hfs : forall f, List.In f (slfs ppl) -> lf_supported f = true /\ lf_oracle_ok parse_float f).
        { intros f Hf. apply slfs_in in Hf. split.
          - rewrite forallb_forall in Hsup. apply (Hsup _ Hf).
          - apply (Horacle _ Hf). }
        assert (Hlo : forall t, List.In t (lfts ppl) -> stage_oracle_ok re_match parse_float (lft_stage t)).
        { intros t Ht. apply lfts_in in Ht. apply (Horacle _ Ht). }
        destruct (log_select_shape ms ppl Hne Hsup Hfs) as [wq [Hq Hsel]]. fold F in Hq.
        destruct (es_main ("fp_sel", wq) (lfts ppl) F Hq Hlo) as [xs [Hxs Hmain]].
        pose proof (es_ts ("fp_sel", wq) F Hq) as Hts.
        set (ml := limited (isort ts_leb xs)) in *.
        assert (Hml : forall x, List.In x ml -> List.In x (d_samples d) /\ main_pred F (lfts ppl) x = true).
        { intros x Hx. assert (Hx' : List.In x (isort ts_leb xs)).
          { unfold ml, limited in Hx. destruct (c_limit c =? 0)%Z; [exact Hx|]. now apply in_firstn in Hx. }
          apply (Permutation_in _ (isort_perm ts_leb xs)) in Hx'. apply (Permutation_in _ Hxs) in Hx'.
          now apply filter_In in Hx'. }
        destruct (es_join _ _ ml (filter (ts_pred F) (d_series d)) Hmain Hts) as [tl' [Htl Hjoin]].
        { intros x Hx. destruct (Hml x Hx) as [H1 H2].
          destruct (labels_in_sem _ x (Permutation_refl _) H1 H2) as [_ [s [Hs Hfp]]]. now exists s. }
        rewrite <- (map_map (fun x => (x, labels_in tl' x)) pre_row) in Hjoin.
        destruct (es_final _ _ Hjoin) as [rows [Hfin Hrows]].
        assert (Hout : map row_out (map fin_row (map (fun x => (x, labels_in tl' x)) ml)) = map Some (map (out_of d) ml)).
        { rewrite !map_map. apply map_ext_in. intros x Hx. destruct (Hml x Hx) as [H1 H2].
          destruct (labels_in_sem tl' x Htl H1 H2) as [Hl _]. cbn. unfold out_of. now rewrite Hl. }
        pose proof (Permutation_map row_out Hrows) as Hp. rewrite Hout in Hp.
        destruct (Permutation_map_inv Some _ Hp) as [outs [Eouts Hpo]].
        exists (final_select (join_select (main_select ("fp_sel", wq) (lfts ppl)) (ts_select ("fp_sel", wq)))), rows, outs.
        split; [exact Hsel|]. split; [exact Hfin|]. split; [exact Eouts|].
        assert (Hfilt : filter (main_pred F (lfts ppl)) (d_samples d) = filter (sample_ok re_match parse_float q c d) (d_samples d)).
        { apply filter_ext_in. intros x Hx. now apply main_pred_sem. }
        rewrite Hfilt in Hxs.
        unfold logql_sem, log_rows. unfold ml, limited in Hpo.
        destruct (c_limit c =? 0)%Z eqn:El.
        - eapply Permutation_trans; [apply Permutation_sym, Hpo|]. apply Permutation_map.
          eapply Permutation_trans; [apply isort_perm|exact Hxs].
        - destruct (limit_topk ts_leb ts_leb_total ts_leb_trans xs (Z.to_nat (c_limit c))) as [rest [Hperm [Hlen' Hord]]].
          exists (map (out_of d) rest). split; [|split].
          + eapply Permutation_trans; [apply Permutation_map, Permutation_sym, Hxs|].
            eapply Permutation_trans; [apply Permutation_map, Hperm|]. rewrite map_app.
            apply Permutation_app_tail. exact Hpo.
          + rewrite <- (Permutation_length Hpo), !map_length, Hlen', (Permutation_length Hxs).
            destruct ctx_names as [_ [_ [_ [_ [_ [_ Hl0]]]]]]. lia.
          + intros r o Hr Ho. apply (Permutation_in _ (Permutation_sym Hpo)) in Hr.
            apply in_map_iff in Hr. destruct Hr as [x [<- Hx]]. apply in_map_iff in Ho. destruct Ho as [y [<- Hy]].
            specialize (Hord x y Hx Hy). unfold ts_leb in Hord. cbn [out_of o_ts].
            destruct (c_asc c); now apply Z.leb_le.
      Qed.

      (* round 8: the select UNDER the outermost one (what MainFinalizerPlanner.Process returns when ctx.CHFinalize is not
         set) already evaluates to the reference answer; its five-column rows read back as the lines *)
      Lemma log_plan_inner :
        exists req rows outs,
          log_select q c = Some (final_select req)
          /\ eval re_match parse_float json_get hash_labels tie (to_sqldb c d) req = Some rows
          /\ map row_out rows = map Some outs
          /\ logql_sem re_match parse_float q c d outs.
      Proof.
        assert (Hfs : forall f, List.In f (slfs ppl) -> lf_supported f = true /\ lf_oracle_ok parse_float f).
        { intros f Hf. apply slfs_in in Hf. split.
          - rewrite forallb_forall in Hsup. apply (Hsup _ Hf).
          - apply (Horacle _ Hf). }
        assert (Hlo : forall t, List.In t (lfts ppl) -> stage_oracle_ok re_match parse_float (lft_stage t)).
        { intros t Ht. apply lfts_in in Ht. apply (Horacle _ Ht). }
        destruct (log_select_shape ms ppl Hne Hsup Hfs) as [wq [Hq Hsel]]. fold F in Hq.
        destruct (es_main ("fp_sel", wq) (lfts ppl) F Hq Hlo) as [xs [Hxs Hmain]].
        pose proof (es_ts ("fp_sel", wq) F Hq) as Hts.
        set (ml := limited (isort ts_leb xs)) in *.
        assert (Hml : forall x, List.In x ml -> List.In x (d_samples d) /\ main_pred F (lfts ppl) x = true).
        { intros x Hx. assert (Hx' : List.In x (isort ts_leb xs)).
          { unfold ml, limited in Hx. destruct (c_limit c =? 0)%Z; [exact Hx|]. now apply in_firstn in Hx. }
          apply (Permutation_in _ (isort_perm ts_leb xs)) in Hx'. apply (Permutation_in _ Hxs) in Hx'.
          now apply filter_In in Hx'. }
        destruct (es_join _ _ ml (filter (ts_pred F) (d_series d)) Hmain Hts) as [tl' [Htl Hjoin]].
        { intros x Hx. destruct (Hml x Hx) as [H1 H2].
          destruct (labels_in_sem _ x (Permutation_refl _) H1 H2) as [_ [s [Hs Hfp]]]. now exists s. }
        assert (Hout : map row_out (map (fun x => pre_row (x, labels_in tl' x)) ml) = map Some (map (out_of d) ml)).
        { rewrite !map_map. apply map_ext_in. intros x Hx. destruct (Hml x Hx) as [H1 H2].
          destruct (labels_in_sem tl' x Htl H1 H2) as [Hl _]. cbn. unfold out_of. now rewrite Hl. }
        assert (Hx : exists outs, outs = map (out_of d) ml /\ Permutation (map (out_of d) ml) outs)
          by (eexists; split; [reflexivity|apply Permutation_refl]).
        destruct Hx as [outs [Eouts Hpo]].
        exists (join_select (main_select ("fp_sel", wq) (lfts ppl)) (ts_select ("fp_sel", wq))),
               (map (fun x => pre_row (x, labels_in tl' x)) ml), outs.
        split; [exact Hsel|]. split; [exact Hjoin|]. split; [rewrite Eouts; exact Hout|].
        assert (Hfilt : filter (main_pred F (lfts ppl)) (d_samples d) = filter (sample_ok re_match parse_float q c d) (d_samples d)).
        { apply filter_ext_in. intros x Hx. now apply main_pred_sem. }
        rewrite Hfilt in Hxs.
        unfold logql_sem, log_rows. unfold ml, limited in Hpo.
        destruct (c_limit c =? 0)%Z eqn:El.
        - eapply Permutation_trans; [apply Permutation_sym, Hpo|]. apply Permutation_map.
          eapply Permutation_trans; [apply isort_perm|exact Hxs].
        - destruct (limit_topk ts_leb ts_leb_total ts_leb_trans xs (Z.to_nat (c_limit c))) as [rest [Hperm [Hlen' Hord]]].
          exists (map (out_of d) rest). split; [|split].
          + eapply Permutation_trans; [apply Permutation_map, Permutation_sym, Hxs|].
            eapply Permutation_trans; [apply Permutation_map, Hperm|]. rewrite map_app.
            apply Permutation_app_tail. exact Hpo.
          + rewrite <- (Permutation_length Hpo), !map_length, Hlen', (Permutation_length Hxs).
            destruct ctx_names as [_ [_ [_ [_ [_ [_ Hl0]]]]]]. lia.
          + intros r o Hr Ho. apply (Permutation_in _ (Permutation_sym Hpo)) in Hr.
            apply in_map_iff in Hr. destruct Hr as [x [<- Hx]]. apply in_map_iff in Ho. destruct Ho as [y [<- Hy]].
            specialize (Hord x y Hx Hy). unfold ts_leb in Hord. cbn [out_of o_ts].
            destruct (c_asc c); now apply Z.leb_le.
      Qed.
    End QUERY.
  End SEMANTICS.
End BRIDGE.
(* ================= Part 5: the property theorems ================= *)
Theorem logql_log_partial_proof :
  forall (RG : ReGroups) re_match parse_float json_get hash_labels (tie : forall A : Type, list A -> list A),
    (forall A (l : list A), Permutation (tie A l) l) ->
    forall q c d, in_fragment q = true -> oracle_ok re_match parse_float q -> ctx_ok c = true -> db_ok c d ->
    width_guard q = true -> absent_guard re_match q d ->
    log_correct re_match parse_float json_get hash_labels tie q c d.
Proof.
  intros RG re_match parse_float json_get hash_labels tie Htie [ms ppl] c d Hfrag Hor Hctx Hdb Hw Hg.
  unfold in_fragment in Hfrag. cbn [sel_matchers sel_pipeline] in Hfrag. apply andb_prop in Hfrag. destruct Hfrag as [Hne Hsup].
  unfold width_guard in Hw. cbn [sel_matchers] in Hw. apply Nat.leb_le in Hw.
  apply (log_plan_correct re_match parse_float json_get hash_labels tie Htie c d Hctx Hdb ms ppl); try assumption.
  - intros ->. discriminate.
  - lia.
Qed.

(* ---- defect #16: a matcher that accepts "" does not select the series lacking the label ---- *)
Definition w_ctx : pctx :=
  {| c_from_ns := 1700000000000000000; c_to_ns := 1700003600000000000; c_limit := 0; c_asc := false; c_cluster := false;
     c_type := 0; c_finalize := true; c_step_ns := 1000000000; t_gin := "time_series_gin"; t_samples := "samples_v3";
     t_ts := "time_series"; t_ts_dist := "time_series"; t_m15 := "metrics_15s" |}.
Definition w_series : series_row := {| ts_day := 19675; ts_fp := 7; ts_labels := [("b", "1")]; ts_type := 1 |}.
Definition w_db : database :=
  {| d_gin := [gin_of w_series ("b", "1")]; d_series := [w_series];
     d_samples := [{| x_fp := 7; x_ts := 1700000000000000005; x_line := "hello"; x_type := 1 |}] |}.
(* {b="1", a!="x"} *)
Definition w_query : strsel :=
  {| sel_matchers := [{| m_name := "b"; m_op := MEq; m_val := "1" |}; {| m_name := "a"; m_op := MNeq; m_val := "x" |}];
     sel_pipeline := [] |}.
Definition no_re (_ _ : string) : bool := false.
Definition no_float (_ : string) : option Q := None.
Definition no_json (_ : string) (_ : list string) : string := "".
Definition no_hash (_ : labels) : Z := 0%Z.
Definition tie_id (A : Type) (l : list A) : list A := l.

Lemma w_db_ok : db_ok w_ctx w_db.
Proof.
  unfold db_ok, w_db. cbn [d_gin d_series d_samples]. split; [|split; [|split]].
  - intros g. split.
    + intros [<-|[]]. exists w_series, ("b", "1"). cbn. tauto.
    + intros [s [kv [[<-|[]] [[<-|[]] ->]]]]. now left.
  - intros s1 s2 [<-|[]] [<-|[]] _. reflexivity.
  - intros s [<-|[]]. cbn. constructor; [intros []|constructor].
  - intros x [<-|[]]. exists w_series. cbn. split; [now left|]. split; [reflexivity|]. split; [reflexivity|].
    vm_compute. discriminate.
Qed.

Theorem logql_log_sound_complete_refuted_proof : ~ log_sound_complete_stmt.
Proof.
  intros H.
  destruct (H no_groups no_re no_float no_json no_hash tie_id (fun A l => Permutation_refl l) w_query w_ctx w_db eq_refl) as [sel [rows [outs [Hsel [Hev [Hout Hsem]]]]]].
  - intros s [].
  - reflexivity.
  - exact w_db_ok.
  - vm_compute in Hsel. injection Hsel as <-. vm_compute in Hev. injection Hev as <-.
    destruct outs; [|discriminate]. unfold logql_sem in Hsem. cbn [c_limit w_ctx Z.eqb] in Hsem.
    apply Permutation_length in Hsem. vm_compute in Hsem. discriminate.
Qed.

(* ---- nine matchers: selected nothing while the bitmask was the UInt8 of the condition (fixed by 052673d) ---- *)
Definition w9_names : list string := ["l1"; "l2"; "l3"; "l4"; "l5"; "l6"; "l7"; "l8"; "l9"].
Definition w9_series : series_row :=
  {| ts_day := 19675; ts_fp := 7; ts_labels := map (fun n => (n, "v")) w9_names; ts_type := 1 |}.
Definition w9_db : database :=
  {| d_gin := map (gin_of w9_series) (ts_labels w9_series); d_series := [w9_series];
     d_samples := [{| x_fp := 7; x_ts := 1700000000000000005; x_line := "hello"; x_type := 1 |}] |}.
Definition w9_query : strsel :=
  {| sel_matchers := map (fun n => {| m_name := n; m_op := MEq; m_val := "v" |}) w9_names; sel_pipeline := [] |}.
Example nine_matchers_select :
  exists sel, log_select w9_query w_ctx = Some sel
    /\ option_map (map row_out) (eval no_re no_float no_json no_hash tie_id (to_sqldb w_ctx w9_db) sel)
       = Some [Some {| o_fp := 7; o_labels := ts_labels w9_series; o_line := "hello"; o_ts := 1700000000000000005 |}].
Proof. eexists. split; [vm_compute; reflexivity|]. vm_compute. reflexivity. Qed.

(* ---- the guards of the partial theorem are met by ordinary queries and data ---- *)
Definition ex_query : strsel :=
  {| sel_matchers := [{| m_name := "b"; m_op := MEq; m_val := "1" |}; {| m_name := "b"; m_op := MNeq; m_val := "2" |}];
     sel_pipeline := [PLineFilter LFContains "ell" None; PLineFilter LFNre "z+" None;
                      PLabelFilter (LF (HSimple {| slf_label := "b"; slf_fn := LEq; slf_str := Some "1"; slf_num := None |}) None None)] |}.
Definition ex_ctx : pctx :=
  {| c_from_ns := 1700000000000000000; c_to_ns := 1700003600000000000; c_limit := 1; c_asc := true; c_cluster := true;
     c_type := 0; c_finalize := true; c_step_ns := 1000000000; t_gin := "`qryn`.time_series_gin"; t_samples := "`qryn`.samples_v3_dist";
     t_ts := "`qryn`.time_series"; t_ts_dist := "`qryn`.time_series_dist"; t_m15 := "`qryn`.metrics_15s_dist" |}.
Example partial_guards_met :
  in_fragment ex_query = true /\ oracle_ok no_re no_float ex_query /\ ctx_ok ex_ctx = true /\ db_ok ex_ctx w_db
  /\ width_guard ex_query = true /\ absent_guard no_re ex_query w_db
  /\ exists sel, log_select ex_query ex_ctx = Some sel
       /\ option_map (map row_out) (eval no_re no_float no_json no_hash tie_id (to_sqldb ex_ctx w_db) sel)
          = Some [Some {| o_fp := 7; o_labels := [("b", "1")]; o_line := "hello"; o_ts := 1700000000000000005 |}].
Proof.
  split; [reflexivity|]. split.
  { intros s Hs. cbn in Hs. destruct Hs as [<-|[<-|[<-|[]]]]; cbn; try tauto. split; [intros He; discriminate|exact I]. }
  split; [reflexivity|]. split.
  { destruct w_db_ok as [H1 [H2 [H3 H4]]]. split; [exact H1|]. split; [exact H2|]. split; [exact H3|].
    intros x Hx. destruct (H4 x Hx) as [s [Ha [Hb [Hc Hd]]]]. exists s. tauto. }
  split; [reflexivity|]. split.
  { intros m Hm He s Hs. cbn in Hm. destruct Hm as [<-|[<-|[]]].
    - vm_compute in He. discriminate.
    - destruct Hs as [<-|[]]. cbn. now left. }
  eexists. split; [vm_compute; reflexivity|]. vm_compute. reflexivity.
Qed.
