(* Property C11, round 6: the statement-level theorems with the guard keys_ok replaced by what the grammar guarantees
   (terms_grammar: lexical shape of the captured tokens + library values as functions of the tokens).  keys_ok was an
   assumption about the printer AttrSelector.String(); proofs/TraceqlKeyProofs.v derives it. *)
From Coq Require Import List ZArith QArith String Ascii Bool Lia.
From Qryn Require Import model.TqSql model.Traceql model.TraceqlPlan model.TraceqlSem model.TraceqlCase model.TraceqlKey
     proofs.TraceqlEvalProofs proofs.TraceqlIndexSearchProofs proofs.TraceqlIndexCorrectProofs proofs.TraceqlCorrectProofs proofs.TraceqlAggProofs
     proofs.TraceqlChainProofs proofs.TraceqlChainPlan proofs.TraceqlKeyProofs proofs.TraceqlExamples.
Import ListNotations.

Theorem traceql_correct_single_grammar : forall re_match parse_float hash64 (c : ctx) (d : db),
  rf_max c = 0%Z -> db_consistent c d -> spans_capped c d ->
  forall e : attr_exp,
  terms_grammar e = true ->
  forallb term_lit_ok (fst (snd (analyze_cond e ([], [])))) = true ->
  (List.length (fst (snd (analyze_cond e ([], [])))) <= 64)%nat ->
  (cond_depth (fst (analyze_cond e ([], []))) <= 28)%nat ->
  lits_exact e = true ->
  forall (ao : andor) (n : nat) (s : select),
  plan (q1 e ao) MSearch c n = Ok s ->
  exists res, index_rows_g re_match parse_float hash64 c d s = Some res
              /\ result_ok c (traceql_sem re_match parse_float false c d (q1 e ao)) res = true.
Proof.
  intros re_match parse_float hash64 c d H1 H2 H3 e Hg. 
  exact (TraceqlCorrectProofs.traceql_correct_single re_match parse_float hash64 c d H1 H2 H3 e (keys_ok_of_grammar e Hg)).
Qed.

Theorem traceql_correct_agg_grammar : forall re_match parse_float hash64 (c : ctx) (d : db),
  rf_max c = 0%Z -> db_consistent c d -> spans_capped c d ->
  forall e : attr_exp,
  terms_grammar e = true ->
  forallb term_lit_ok (fst (snd (analyze_cond e ([], [])))) = true ->
  (List.length (fst (snd (analyze_cond e ([], [])))) <= 64)%nat ->
  (cond_depth (fst (analyze_cond e ([], []))) <= 28)%nat ->
  lits_exact e = true ->
  forall ag : aggregator, agg_guard ag = true -> agg_lit_exact ag = true ->
  forall (ao : andor) (n : nat) (s : select),
  plan (q2 e ag ao) MSearch c n = Ok s ->
  exists res, index_rows_g re_match parse_float hash64 c d s = Some res
              /\ result_ok c (traceql_sem re_match parse_float false c d (q2 e ag ao)) res = true.
Proof.
  intros re_match parse_float hash64 c d H1 H2 H3 e Hg.
  exact (traceql_correct_agg re_match parse_float hash64 c d H1 H2 H3 e (keys_ok_of_grammar e Hg)).
Qed.

(* chains: the per-selector guard with terms_grammar in the place of keys_ok *)
Definition sel_ok_g (h : selector) : Prop :=
  exists e, sel_attr h = Some e /\ terms_grammar e = true
            /\ forallb term_lit_ok (fst (snd (analyze_cond e ([], [])))) = true
            /\ (List.length (fst (snd (analyze_cond e ([], [])))) <= 64)%nat
            /\ (cond_depth (fst (analyze_cond e ([], []))) <= 28)%nat
            /\ lits_exact e = true
            /\ match sel_agg h with Some ag => agg_guard ag = true /\ agg_lit_exact ag = true | None => True end.
Fixpoint chain_ok_g (s : script) : Prop :=
  match s with
  | Script h ao tl => sel_ok_g h /\ match tl with Some s' => ao <> AONone /\ chain_ok_g s' | None => True end
  end.

Lemma sel_ok_g_ok h : sel_ok_g h -> sel_ok h.
Proof.
  intros [e [H1 [H2 H3]]]. exists e. split; [exact H1|]. split; [now apply keys_ok_of_grammar|exact H3].
Qed.
Lemma chain_ok_g_ok : forall s, chain_ok_g s -> chain_ok s.
Proof.
  fix IH 1. intros [h ao [s'|]] H; cbn [chain_ok_g chain_ok] in *; destruct H as [H1 H2]; (split; [now apply sel_ok_g_ok|]); [|exact I].
  destruct H2 as [H2 H3]. split; [exact H2|now apply IH].
Qed.

Theorem traceql_correct_chain_grammar : forall re_match parse_float hash64 (c : ctx) (d : db),
  rf_max c = 0%Z -> db_consistent c d -> spans_capped c d ->
  forall (q : script) (n : nat) (s : select),
  chain_ok_g q -> sc_tail q <> None ->
  plan q MSearch c n = Ok s ->
  (chain_need q <= 13)%nat ->
  exists res, index_rows_g re_match parse_float hash64 c d s = Some res
              /\ result_ok c (traceql_sem re_match parse_float false c d q) res = true.
Proof.
  intros re_match parse_float hash64 c d H1 H2 H3 q n s Hc.
  exact (TraceqlChainPlan.traceql_correct_chain re_match parse_float hash64 c d H1 H2 H3 q n s (chain_ok_g_ok q Hc)).
Qed.

(* the guards as booleans (evidence counter, Examples) *)
Definition sel_ok_gb (h : selector) : bool :=
  match sel_attr h with
  | Some e =>
      let a := analyze_cond e ([], []) in
      terms_grammar e && forallb term_lit_ok (fst (snd a)) && Nat.leb (List.length (fst (snd a))) 64 && Nat.leb (cond_depth (fst a)) 28 && lits_exact e
      && match sel_agg h with None => true | Some ag => agg_guard ag && agg_lit_exact ag end
  | None => false
  end.
Fixpoint chain_ok_gb (s : script) : bool :=
  match s with
  | Script h ao tl => sel_ok_gb h && match tl with Some s' => negb (match ao with AONone => true | _ => false end) && chain_ok_gb s' | None => true end
  end.
Lemma sel_ok_gb_sound h : sel_ok_gb h = true -> sel_ok_g h.
Proof.
  unfold sel_ok_gb, sel_ok_g. destruct (sel_attr h) as [e|]; [|discriminate]. intros H.
  apply andb_true_iff in H. destruct H as [H Hag]. apply andb_true_iff in H. destruct H as [H Hlx].
  apply andb_true_iff in H. destruct H as [H Hd]. apply andb_true_iff in H. destruct H as [H Hn].
  apply andb_true_iff in H. destruct H as [Hg Hl].
  exists e. split; [reflexivity|]. split; [exact Hg|]. split; [exact Hl|].
  split; [now apply Nat.leb_le|]. split; [now apply Nat.leb_le|]. split; [exact Hlx|].
  destruct (sel_agg h) as [ag|]; [|exact I]. now apply andb_true_iff.
Qed.
Lemma chain_ok_gb_sound : forall s, chain_ok_gb s = true -> chain_ok_g s.
Proof.
  fix IH 1. intros [h ao [s'|]] H; cbn [chain_ok_gb chain_ok_g] in *; apply andb_true_iff in H; destruct H as [H1 H2]; (split; [now apply sel_ok_gb_sound|]); [|exact I].
  apply andb_true_iff in H2. destruct H2 as [H2 H3]. split; [destruct ao; [discriminate|discriminate..]|now apply IH].
Qed.

(* the new guard is met by the witnesses of single_hyps / agg_hyps / chain_hyps (proofs/TraceqlExamples.v) *)
Example grammar_hyps : terms_grammar TraceqlExamples.e0 = true /\ terms_grammar TraceqlExamples.e3 = true /\ chain_ok_g TraceqlExamples.q3.
Proof. split; [reflexivity|]. split; [reflexivity|]. apply chain_ok_gb_sound. vm_compute. reflexivity. Qed.
