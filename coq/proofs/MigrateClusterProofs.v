(* C18 -- the cluster dimension: hosts run an ON CLUSTER statement independently, a statement can complete on
   some hosts only (host down, distributed_ddl_task_timeout, a host rejecting it) while the caller sees an
   error.  The generic convergence theorem of MigrateProofs.v (converges_gen) is instantiated with the state
   "list of host catalogues": its premise follows from a per-host computation (cl_reexec_streams): along the
   uninterrupted run the connected host accepts every statement, any other host every ON CLUSTER statement,
   and each is re-executable right after itself on that host.  Any number of hosts. *)
From Coq Require Import List String NArith ZArith Bool Arith Lia.
From Qryn Require Import model.Migrate proofs.MigrateProofs.
Import ListNotations.
Open Scope nat_scope.

Section ClusterProofs.
  Variables (hcat hstmt : Type).
  Variable hexec : hstmt -> hcat -> option hcat.
  Variable hcat_eqb : hcat -> hcat -> bool.
  Hypothesis hcat_eqb_sound : forall a b, hcat_eqb a b = true -> a = b.

  Notation cstmt := (cstmt hstmt).
  Notation ccat := (ccat hcat).
  Notation cexec := (cl_exec hcat hstmt hexec).
  Notation cpexec := (cl_pexec hcat hstmt hexec).
  Notation papply := (papply hcat hstmt hexec).
  Notation paccept := (paccept hcat hstmt hexec).
  Notation run_on := (run_on hcat hstmt hexec).

  (* ---- skip masks *)
  Lemma skip_or_nil_r a : skip_or a [] = a.
  Proof. destruct a; reflexivity. Qed.
  Lemma hd_skip_or a b : hd false (skip_or a b) = hd false a || hd false b.
  Proof. destruct a as [|x a], b as [|y b]; cbn; try reflexivity. now rewrite orb_false_r. Qed.
  Lemma tl_skip_or a b : tl (skip_or a b) = skip_or (tl a) (tl b).
  Proof. destruct a as [|x a], b as [|y b]; cbn; try reflexivity. now rewrite skip_or_nil_r. Qed.

  (* ---- the states between "x not started" and "x complete": every host not in sk ran x or did not *)
  Fixpoint MidH (sk : list bool) (x : hstmt) (hs hm : list hcat) : Prop :=
    match hs, hm with
    | [], [] => True
    | h :: r, h' :: r' => (h' = h \/ (hd false sk = false /\ hexec x h = Some h')) /\ MidH (tl sk) x r r'
    | _, _ => False
    end.
  Definition MidC (s : cstmt) (hs hm : ccat) : Prop :=
    MidH (base_skip (fst s) (List.length hs)) (snd s) hs hm.

  Lemma MidH_refl sk x hs : MidH sk x hs hs.
  Proof. revert sk; induction hs as [|h r IH]; intros sk; cbn; auto. Qed.
  Lemma MidH_length sk x : forall hs hm, MidH sk x hs hm -> List.length hm = List.length hs.
  Proof.
    intros hs. revert sk. induction hs as [|h r IH]; intros sk' [|h' r'] H; cbn in *; try contradiction; auto.
    destruct H as [_ H]. f_equal. eapply IH; exact H.
  Qed.

  (* a host accepts x and, right afterwards, accepts it again without a change *)
  Definition HGood (x : hstmt) (h : hcat) : Prop := exists g, hexec x h = Some g /\ hexec x g = Some g.
  Fixpoint AllGood (sk : list bool) (x : hstmt) (hs : list hcat) : Prop :=
    match hs with
    | [] => True
    | h :: r => (hd false sk = false -> HGood x h) /\ AllGood (tl sk) x r
    end.

  Lemma mid_complete x : forall hs sk hm, AllGood sk x hs -> MidH sk x hs hm ->
    paccept sk x hm = true /\ papply sk x hm = papply sk x hs.
  Proof.
    induction hs as [|h r IH]; intros sk [|h' r'] HG HM; cbn in HM; try contradiction; [cbn; auto|].
    destruct HG as [HG0 HGr]. destruct HM as [HM0 HMr].
    destruct (IH (tl sk) r' HGr HMr) as [Ha Hp]. cbn [Migrate.paccept Migrate.papply]. rewrite Ha, Hp.
    destruct (hd false sk) eqn:Hs.
    - destruct HM0 as [->|[Hc _]]; [auto|discriminate].
    - destruct (HG0 eq_refl) as (g & E1 & E2). destruct HM0 as [->|[_ E]].
      + unfold Migrate.run_on. rewrite E1. auto.
      + rewrite E1 in E. inversion E; subst h'. unfold Migrate.run_on. rewrite E1, E2. auto.
  Qed.

  Lemma mid_result x : forall hs sk, AllGood sk x hs -> MidH sk x hs (papply sk x hs).
  Proof.
    induction hs as [|h r IH]; intros sk HG; cbn; [exact I|]. destruct HG as [HG0 HGr].
    split; [|now apply IH]. destruct (hd false sk) eqn:Hs; [now left|].
    destruct (HG0 eq_refl) as (g & E1 & _). right. split; [reflexivity|]. unfold Migrate.run_on. now rewrite E1.
  Qed.

  Lemma mid_partial x : forall hs sk hm m, AllGood sk x hs -> MidH sk x hs hm ->
    MidH sk x hs (papply (skip_or m sk) x hm).
  Proof.
    induction hs as [|h r IH]; intros sk [|h' r'] m HG HM; cbn in HM; try contradiction; [exact I|].
    destruct HG as [HG0 HGr]. destruct HM as [HM0 HMr].
    cbn [Migrate.papply MidH]. rewrite tl_skip_or, hd_skip_or. split; [|now apply IH].
    destruct (hd false m || hd false sk) eqn:Hb; [exact HM0|].
    apply orb_false_iff in Hb. destruct Hb as [_ Hs].
    destruct (HG0 Hs) as (g & E1 & E2). right. split; [exact Hs|].
    destruct HM0 as [->|[_ E]].
    - unfold Migrate.run_on. now rewrite E1.
    - rewrite E1 in E. inversion E; subst h'. unfold Migrate.run_on. now rewrite E2.
  Qed.

  Notation GoodAtC := (GoodAt ccat cstmt cexec cpexec MidC).

  Lemma cl_good (s : cstmt) (hs : ccat) :
    AllGood (base_skip (fst s) (List.length hs)) (snd s) hs -> GoodAtC s hs.
  Proof.
    intros HG. set (sk := base_skip (fst s) (List.length hs)) in *.
    exists (papply sk (snd s) hs). split; [exact (mid_result _ _ _ HG)|].
    intros cm HM. unfold MidC in HM. fold sk in HM.
    pose proof (MidH_length _ _ _ _ HM) as Hlen.
    destruct (mid_complete _ _ _ _ HG HM) as [Ha Hp]. split.
    - unfold Migrate.cl_exec. rewrite Hlen. fold sk. now rewrite Ha, Hp.
    - intros m. unfold MidC, Migrate.cl_pexec. fold sk. rewrite Hlen. fold sk. now apply mid_partial.
  Qed.

  (* ---- the uninterrupted run on connected host :: n equal other hosts *)
  Lemma papply_nil x hs : papply [] x hs = map (run_on x) hs.
  Proof. induction hs as [|h r IH]; cbn; [reflexivity|]. now rewrite IH. Qed.
  Lemma map_rep {A B} (f : A -> B) a n : map f (repeat a n) = repeat (f a) n.
  Proof. induction n as [|n IH]; cbn; [reflexivity|]. now rewrite IH. Qed.
  Lemma papply_all_skipped x n : forall hs : list hcat, List.length hs <= n -> papply (repeat true n) x hs = hs.
  Proof.
    induction n as [|n IH]; intros [|h r] Hl; cbn in *; try reflexivity; try lia. f_equal. apply IH. lia.
  Qed.
  Lemma paccept_all_skipped x n : forall hs : list hcat, List.length hs <= n -> paccept (repeat true n) x hs = true.
  Proof.
    induction n as [|n IH]; intros [|h r] Hl; cbn in *; try reflexivity; try lia. apply IH. lia.
  Qed.
  Lemma paccept_nil_repeat x h g n : hexec x h = Some g -> paccept [] x (repeat h n) = true.
  Proof. intros E. induction n as [|n IH]; cbn; [reflexivity|]. now rewrite E, IH. Qed.
  Lemma AllGood_nil_repeat x h n : HGood x h -> AllGood [] x (repeat h n).
  Proof. intros H. induction n as [|n IH]; cbn; auto. Qed.
  Lemma AllGood_all_skipped x n : forall hs : list hcat, List.length hs <= n -> AllGood (repeat true n) x hs.
  Proof.
    induction n as [|n IH]; intros [|h r] Hl; cbn in *; auto; try lia. split; [discriminate|]. apply IH. lia.
  Qed.

  Lemma host_reexec_inv x h h1 : host_reexec hcat hstmt hexec hcat_eqb x h = Some h1 ->
    hexec x h = Some h1 /\ hexec x h1 = Some h1.
  Proof.
    unfold host_reexec. destruct (hexec x h) as [a|] eqn:E1; [|discriminate].
    destruct (hexec x a) as [b|] eqn:E2; [|discriminate].
    destruct (hcat_eqb a b) eqn:E; [|discriminate]. apply hcat_eqb_sound in E. subst b.
    intros H; inversion H; subst. auto.
  Qed.

  (* one statement from the state h0 :: n copies of ho *)
  Lemma cl_exec_step (oc : bool) x h0 ho n h0' ho' :
    hexec x h0 = Some h0' -> hexec x h0' = Some h0' ->
    (if oc return Prop then hexec x ho = Some ho' /\ hexec x ho' = Some ho' else ho' = ho) ->
    cexec (oc, x) (h0 :: repeat ho n) = Some (h0' :: repeat ho' n) /\ GoodAtC (oc, x) (h0 :: repeat ho n).
  Proof.
    intros E0 E0' Ho. split.
    - unfold Migrate.cl_exec, base_skip. cbn [fst snd List.length]. destruct oc.
      + destruct Ho as [E1 _]. cbn [Migrate.paccept hd tl orb]. rewrite E0. cbn [is_some andb].
        rewrite (paccept_nil_repeat x ho ho' n E1). cbn [Migrate.papply hd tl]. unfold Migrate.run_on at 1. rewrite E0.
        rewrite papply_nil, map_rep. unfold Migrate.run_on. now rewrite E1.
      + subst ho'. replace (S n - 1) with n by lia. cbn [Migrate.paccept hd tl orb]. rewrite E0. cbn [is_some andb].
        rewrite paccept_all_skipped by (rewrite repeat_length; lia).
        cbn [Migrate.papply hd tl]. unfold Migrate.run_on. rewrite E0.
        now rewrite papply_all_skipped by (rewrite repeat_length; lia).
    - apply cl_good. cbn [fst snd List.length]. unfold base_skip. destruct oc.
      + cbn. split; [intros _; exists h0'; auto|]. apply AllGood_nil_repeat. destruct Ho as [E1 E1']. exists ho'; auto.
      + replace (S n - 1) with n by lia. cbn. split; [intros _; exists h0'; auto|].
        apply AllGood_all_skipped. rewrite repeat_length. lia.
  Qed.

  Notation reexecPC := (reexecP ccat cstmt cexec cpexec MidC).
  Notation apply_allC := (apply_all ccat cstmt cexec).

  Lemma cl_reexec_ok_sound n : forall l h0 ho, cl_reexec_ok hcat hstmt hexec hcat_eqb l h0 ho = true ->
    reexecPC l (h0 :: repeat ho n) /\
    exists a b, cl_track hcat hstmt hexec l h0 ho = Some (a, b) /\ apply_allC l (h0 :: repeat ho n) = Some (a :: repeat b n).
  Proof.
    induction l as [|[oc x] l IH]; intros h0 ho H.
    - split; [|cbn; eauto]. intros [|i] y c1 Hn; cbn in Hn; discriminate.
    - cbn [cl_reexec_ok] in H.
      destruct (host_reexec hcat hstmt hexec hcat_eqb x h0) as [h0'|] eqn:R0; [|discriminate].
      destruct (host_reexec_inv _ _ _ R0) as [E0 E0'].
      assert (Hex : exists ho', (if oc return Prop then hexec x ho = Some ho' /\ hexec x ho' = Some ho' else ho' = ho) /\
                                cl_reexec_ok hcat hstmt hexec hcat_eqb l h0' ho' = true /\
                                cl_track hcat hstmt hexec ((oc, x) :: l) h0 ho = cl_track hcat hstmt hexec l h0' ho').
      { destruct oc.
        - destruct (host_reexec hcat hstmt hexec hcat_eqb x ho) as [ho'|] eqn:R1; [|discriminate].
          destruct (host_reexec_inv _ _ _ R1) as [E1 E1']. exists ho'. split; [auto|]. split; [exact H|].
          cbn [cl_track]. now rewrite E0, E1.
        - exists ho. split; [reflexivity|]. split; [exact H|]. cbn [cl_track]. now rewrite E0. }
      destruct Hex as (ho' & Ho & Hr & Ht).
      destruct (cl_exec_step oc x h0 ho n h0' ho' E0 E0' Ho) as [Ex Hgood].
      destruct (IH h0' ho' Hr) as (HP & a & b & Htr & Hap). split.
      + intros [|i] y c1 Hn Hp.
        * cbn in Hn, Hp. inversion Hn; subst y. inversion Hp; subst c1. exact Hgood.
        * cbn in Hn. unfold Migrate.prefix in Hp. cbn [firstn Migrate.apply_all] in Hp. rewrite Ex in Hp.
          exact (HP i y c1 Hn Hp).
      + exists a, b. split; [exact (eq_trans Ht Htr)|]. cbn [Migrate.apply_all]. now rewrite Ex.
  Qed.

  Variable cscripts : stream -> list cstmt.

  Lemma cl_reexec_streams_sound n : forall ks h0 ho,
    cl_reexec_streams hcat hstmt hexec hcat_eqb cscripts ks h0 ho = true ->
    reexec_streamsP ccat cstmt cexec cpexec cscripts MidC ks (h0 :: repeat ho n) /\
    exists a b, cl_track_streams hcat hstmt hexec cscripts ks h0 ho = Some (a, b) /\
                apply_streams ccat cstmt cexec cscripts ks (h0 :: repeat ho n) = Some (a :: repeat b n).
  Proof.
    induction ks as [|k ks IH]; intros h0 ho H; cbn in H.
    - cbn. split; [exact I|]. eauto.
    - apply andb_true_iff in H. destruct H as [H1 H2].
      destruct (cl_reexec_ok_sound n _ _ _ H1) as (HP & a & b & Htr & Hap).
      rewrite Htr in H2. destruct (IH a b H2) as (HS & a' & b' & Htr' & Hap').
      split.
      + cbn [reexec_streamsP]. split; [exact HP|]. exists (a :: repeat b n). auto.
      + exists a', b'. cbn [cl_track_streams Migrate.apply_streams]. rewrite Htr, Hap. auto.
  Qed.

  (* convergence on a cluster of 1 + n hosts: whatever failures, partial applications and restarts happened,
     the next undisturbed start completes; the connected host ends where its uninterrupted run ends (every
     statement), every other host where the ON CLUSTER statements alone lead; all versions recorded *)
  Theorem cl_converges (c : cfg) (h0 ho : hcat) (n : nat) (runs : list (list outcome)) :
    cl_reexec_streams hcat hstmt hexec hcat_eqb cscripts (streams_of c) h0 ho = true ->
    let d := fst (multi_run ccat cstmt cexec cpexec cscripts c runs (db0 ccat (h0 :: repeat ho n))) in
    let r := update ccat cstmt cexec cpexec cscripts c [] d in
    r_ok r = true /\
    (exists a b, cl_track_streams hcat hstmt hexec cscripts (streams_of c) h0 ho = Some (a, b) /\
                 d_cat (r_db r) = a :: repeat b n) /\
    forall k, In k (streams_of c) -> d_vers (r_db r) k = List.length (cscripts k).
  Proof.
    intros Hre d r.
    destruct (cl_reexec_streams_sound n _ _ _ Hre) as (HS & a & b & Htr & Hap).
    destruct (converges_gen ccat cstmt cexec cpexec cscripts MidC (fun s hs => MidH_refl _ _ hs) c (h0 :: repeat ho n) runs HS)
      as (Hok & Hcat & Hv).
    fold d in Hok, Hcat, Hv. fold r in Hok, Hcat, Hv.
    split; [exact Hok|]. split; [|exact Hv]. exists a, b. split; [exact Htr|]. congruence.
  Qed.
End ClusterProofs.
