(* C13: soundness and completeness of the scan oracle of model/Scans.v against its declarative
   reading (scan_bounded), the date arithmetic of FormatFromDate, and what the bounds mean for the
   rows a scan keeps. *)
From Coq Require Import List ZArith NArith String Ascii Bool Lia.
From Qryn Require Import lib.Strs lib.CivilDate model.Sql model.Scans.
Import ListNotations.
Open Scope Z_scope.

(* ------------------------------------------------------------------ max / min of a list *)
Lemma fold_max_ge l a : a <= fold_left Z.max l a /\ (forall x, List.In x l -> x <= fold_left Z.max l a).
Proof.
  revert a. induction l as [|y r IH]; intros a; cbn [fold_left].
  - split; [lia | intros x []].
  - destruct (IH (Z.max a y)) as [H1 H2]. split; [lia|].
    intros x [<-|Hx]; [lia | apply H2, Hx].
Qed.
Lemma fold_max_in l a : fold_left Z.max l a = a \/ List.In (fold_left Z.max l a) l.
Proof.
  revert a. induction l as [|y r IH]; intros a; cbn [fold_left]; [left; reflexivity|].
  destruct (IH (Z.max a y)) as [H|H].
  - rewrite H. destruct (Z.max_spec a y) as [[_ ->]|[_ ->]]; [right; left; reflexivity | left; reflexivity].
  - right; right; exact H.
Qed.
Lemma zmax_list_spec l m : zmax_list l = Some m -> List.In m l /\ forall x, List.In x l -> x <= m.
Proof.
  destruct l as [|a r]; cbn [zmax_list]; [discriminate|]. intros [= <-].
  destruct (fold_max_ge r a) as [H1 H2]. split.
  - destruct (fold_max_in r a) as [->|H]; [left; reflexivity | right; exact H].
  - intros x [<-|Hx]; [exact H1 | apply H2, Hx].
Qed.
Lemma zmax_list_none l : zmax_list l = None -> l = [].
Proof. destruct l; [reflexivity | discriminate]. Qed.

Lemma fold_min_le l a : fold_left Z.min l a <= a /\ (forall x, List.In x l -> fold_left Z.min l a <= x).
Proof.
  revert a. induction l as [|y r IH]; intros a; cbn [fold_left].
  - split; [lia | intros x []].
  - destruct (IH (Z.min a y)) as [H1 H2]. split; [lia|].
    intros x [<-|Hx]; [lia | apply H2, Hx].
Qed.
Lemma fold_min_in l a : fold_left Z.min l a = a \/ List.In (fold_left Z.min l a) l.
Proof.
  revert a. induction l as [|y r IH]; intros a; cbn [fold_left]; [left; reflexivity|].
  destruct (IH (Z.min a y)) as [H|H].
  - rewrite H. destruct (Z.min_spec a y) as [[_ ->]|[_ ->]]; [left; reflexivity | right; left; reflexivity].
  - right; right; exact H.
Qed.
Lemma zmin_list_spec l m : zmin_list l = Some m -> List.In m l /\ forall x, List.In x l -> m <= x.
Proof.
  destruct l as [|a r]; cbn [zmin_list]; [discriminate|]. intros [= <-].
  destruct (fold_min_le r a) as [H1 H2]. split.
  - destruct (fold_min_in r a) as [->|H]; [left; reflexivity | right; exact H].
  - intros x [<-|Hx]; [exact H1 | apply H2, Hx].
Qed.
Lemma zmin_list_none l : zmin_list l = None -> l = [].
Proof. destruct l; [reflexivity | discriminate]. Qed.

(* ------------------------------------------------------------------ the bound lists *)
Lemma in_bounds sc b : List.In b (bounds sc) <-> has_bnd sc b.
Proof.
  unfold bounds, has_bnd. rewrite in_flat_map. split; intros [e [H1 H2]]; exists e; split; assumption.
Qed.
Lemma in_ts_los l z : List.In z (ts_los l) <-> List.In (TsLo z) l.
Proof.
  unfold ts_los. rewrite in_flat_map. split.
  - intros [b [Hb Hz]]. destruct b; cbn in Hz; try contradiction. destruct Hz as [<-|[]]. exact Hb.
  - intros H. exists (TsLo z). split; [exact H | left; reflexivity].
Qed.
Lemma in_ts_his l z : List.In z (ts_his l) <-> List.In (TsHi z) l.
Proof.
  unfold ts_his. rewrite in_flat_map. split.
  - intros [b [Hb Hz]]. destruct b; cbn in Hz; try contradiction. destruct Hz as [<-|[]]. exact Hb.
  - intros H. exists (TsHi z). split; [exact H | left; reflexivity].
Qed.
Lemma in_d_los l z : List.In z (d_los l) <-> List.In (DLo z) l.
Proof.
  unfold d_los. rewrite in_flat_map. split.
  - intros [b [Hb Hz]]. destruct b; cbn in Hz; try contradiction. destruct Hz as [<-|[]]. exact Hb.
  - intros H. exists (DLo z). split; [exact H | left; reflexivity].
Qed.
Lemma in_d_his l z : List.In z (d_his l) <-> List.In (DHi z) l.
Proof.
  unfold d_his. rewrite in_flat_map. split.
  - intros [b [Hb Hz]]. destruct b; cbn in Hz; try contradiction. destruct Hz as [<-|[]]. exact Hb.
  - intros H. exists (DHi z). split; [exact H | left; reflexivity].
Qed.
Lemma in_tys_some l x : List.In (Some x) (tys l) <-> List.In (Ty x) l.
Proof.
  unfold tys. rewrite in_flat_map. split.
  - intros [b [Hb Hz]]. destruct b; cbn in Hz; try contradiction; destruct Hz as [Hz|[]]; try discriminate.
    injection Hz as <-. exact Hb.
  - intros H. exists (Ty x). split; [exact H | left; reflexivity].
Qed.
Lemma in_tys_none l : List.In None (tys l) <-> List.In TyOther l.
Proof.
  unfold tys. rewrite in_flat_map. split.
  - intros [b [Hb Hz]]. destruct b; cbn in Hz; try contradiction; destruct Hz as [Hz|[]]; try discriminate. exact Hb.
  - intros H. exists TyOther. split; [exact H | left; reflexivity].
Qed.

(* ------------------------------------------------------------------ the four components, both directions *)
Section W.
  Variable w : window.
  Variable sc : scan.
  Let l := bounds sc.

  Lemma app_nil_inv {A} (a b : list A) : a ++ b = [] -> a = [] /\ b = [].
  Proof. destruct a; cbn; [intros ->; split; reflexivity | discriminate]. Qed.

  Lemma ts_lower_req_ok :
    ts_lower_failures w l true = [] <->
    (exists lo, has_bnd sc (TsLo lo) /\ w_lo_min w <= lo) /\ (forall lo, has_bnd sc (TsLo lo) -> lo <= w_from w).
  Proof.
    unfold ts_lower_failures. destruct (zmax_list (ts_los l)) as [m|] eqn:E.
    - apply zmax_list_spec in E. destruct E as [Hin Hmax].
      rewrite in_ts_los in Hin. apply in_bounds in Hin.
      split.
      + intros H. apply app_nil_inv in H. destruct H as [H1 H2].
        destruct (m >? w_from w) eqn:E1; [discriminate|].
        cbn [andb] in H2. destruct (m <? w_lo_min w) eqn:E2; [discriminate|].
        split; [exists m; split; [exact Hin | lia]|].
        intros lo Hlo. apply in_bounds in Hlo. fold l in Hlo. rewrite <- in_ts_los in Hlo. specialize (Hmax _ Hlo). lia.
      + intros [[lo [Hlo Hge]] Hall].
        assert (Hm : m <= w_from w) by (apply Hall, Hin).
        assert (Hlm : lo <= m) by (apply Hmax; rewrite in_ts_los; apply in_bounds; exact Hlo).
        destruct (m >? w_from w) eqn:E1; [lia|]. cbn [andb app].
        destruct (m <? w_lo_min w) eqn:E2; [lia | reflexivity].
    - apply zmax_list_none in E. split; [discriminate|].
      intros [[lo [Hlo _]] _]. apply in_bounds in Hlo. fold l in Hlo. rewrite <- in_ts_los, E in Hlo. destruct Hlo.
  Qed.

  Lemma ts_upper_req_ok :
    ts_upper_failures w l true = [] <->
    (exists hi, has_bnd sc (TsHi hi) /\ hi <= w_hi_max w + 1) /\ (forall hi, has_bnd sc (TsHi hi) -> w_to w <= hi).
  Proof.
    unfold ts_upper_failures. destruct (zmin_list (ts_his l)) as [m|] eqn:E.
    - apply zmin_list_spec in E. destruct E as [Hin Hmin].
      rewrite in_ts_his in Hin. apply in_bounds in Hin.
      split.
      + intros H. apply app_nil_inv in H. destruct H as [H1 H2].
        destruct (m <? w_to w) eqn:E1; [discriminate|].
        cbn [andb] in H2. destruct (m >? w_hi_max w + 1) eqn:E2; [discriminate|].
        split; [exists m; split; [exact Hin | lia]|].
        intros hi Hhi. apply in_bounds in Hhi. fold l in Hhi. rewrite <- in_ts_his in Hhi. specialize (Hmin _ Hhi). lia.
      + intros [[hi [Hhi Hle]] Hall].
        assert (Hm : w_to w <= m) by (apply Hall, Hin).
        assert (Hlm : m <= hi) by (apply Hmin; rewrite in_ts_his; apply in_bounds; exact Hhi).
        destruct (m <? w_to w) eqn:E1; [lia|]. cbn [andb app].
        destruct (m >? w_hi_max w + 1) eqn:E2; [lia | reflexivity].
    - apply zmin_list_none in E. split; [discriminate|].
      intros [[hi [Hhi _]] _]. apply in_bounds in Hhi. fold l in Hhi. rewrite <- in_ts_his, E in Hhi. destruct Hhi.
  Qed.

  Lemma ts_lower_opt_ok :
    ts_lower_failures w l false = [] <-> (forall lo, has_bnd sc (TsLo lo) -> lo <= w_from w).
  Proof.
    unfold ts_lower_failures. destruct (zmax_list (ts_los l)) as [m|] eqn:E.
    - apply zmax_list_spec in E. destruct E as [Hin Hmax].
      rewrite in_ts_los in Hin. apply in_bounds in Hin. cbn [andb]. rewrite app_nil_r.
      split.
      + intros H. destruct (m >? w_from w) eqn:E1; [discriminate|].
        intros lo Hlo. apply in_bounds in Hlo. fold l in Hlo. rewrite <- in_ts_los in Hlo. specialize (Hmax _ Hlo). lia.
      + intros Hall. specialize (Hall _ Hin). destruct (m >? w_from w) eqn:E1; [lia | reflexivity].
    - apply zmax_list_none in E. split; [|reflexivity].
      intros _ lo Hlo. apply in_bounds in Hlo. fold l in Hlo. rewrite <- in_ts_los, E in Hlo. destruct Hlo.
  Qed.
  Lemma ts_upper_opt_ok :
    ts_upper_failures w l false = [] <-> (forall hi, has_bnd sc (TsHi hi) -> w_to w <= hi).
  Proof.
    unfold ts_upper_failures. destruct (zmin_list (ts_his l)) as [m|] eqn:E.
    - apply zmin_list_spec in E. destruct E as [Hin Hmin].
      rewrite in_ts_his in Hin. apply in_bounds in Hin. cbn [andb]. rewrite app_nil_r.
      split.
      + intros H. destruct (m <? w_to w) eqn:E1; [discriminate|].
        intros hi Hhi. apply in_bounds in Hhi. fold l in Hhi. rewrite <- in_ts_his in Hhi. specialize (Hmin _ Hhi). lia.
      + intros Hall. specialize (Hall _ Hin). destruct (m <? w_to w) eqn:E1; [lia | reflexivity].
    - apply zmin_list_none in E. split; [|reflexivity].
      intros _ hi Hhi. apply in_bounds in Hhi. fold l in Hhi. rewrite <- in_ts_his, E in Hhi. destruct Hhi.
  Qed.

  Lemma date_ok :
    date_failures w l = [] <->
    (exists d, has_bnd sc (DLo d)) /\ (forall d, has_bnd sc (DLo d) -> d <= day_of_ns (w_from w))
    /\ (forall d, has_bnd sc (DHi d) -> day_of_ns (w_to w - 1) <= d).
  Proof.
    unfold date_failures. split.
    - intros H. apply app_nil_inv in H. destruct H as [H1 H2].
      destruct (zmax_list (d_los l)) as [m|] eqn:E; [|discriminate].
      apply zmax_list_spec in E. destruct E as [Hin Hmax].
      destruct (m >? day_of_ns (w_from w)) eqn:E1; [discriminate|].
      split; [exists m; apply in_bounds; fold l; rewrite <- in_d_los; exact Hin|].
      split.
      + intros d Hd. apply in_bounds in Hd. fold l in Hd. rewrite <- in_d_los in Hd. specialize (Hmax _ Hd). lia.
      + intros d Hd. apply in_bounds in Hd. fold l in Hd. rewrite <- in_d_his in Hd.
        destruct (zmin_list (d_his l)) as [n|] eqn:E2.
        * apply zmin_list_spec in E2. destruct E2 as [_ Hmin]. specialize (Hmin _ Hd).
          destruct (n <? day_of_ns (w_to w - 1)) eqn:E3; [discriminate | lia].
        * apply zmin_list_none in E2. rewrite E2 in Hd. destruct Hd.
    - intros [[d Hd] [Hlo Hhi]].
      apply in_bounds in Hd. fold l in Hd. rewrite <- in_d_los in Hd.
      destruct (zmax_list (d_los l)) as [m|] eqn:E.
      + apply zmax_list_spec in E. destruct E as [Hin _].
        assert (Hm : m <= day_of_ns (w_from w)) by (apply Hlo, in_bounds; fold l; rewrite <- in_d_los; exact Hin).
        destruct (m >? day_of_ns (w_from w)) eqn:E1; [lia|]. cbn [app].
        destruct (zmin_list (d_his l)) as [n|] eqn:E2; [|reflexivity].
        apply zmin_list_spec in E2. destruct E2 as [Hn _].
        assert (Hnn : day_of_ns (w_to w - 1) <= n) by (apply Hhi, in_bounds; fold l; rewrite <- in_d_his; exact Hn).
        destruct (n <? day_of_ns (w_to w - 1)) eqn:E3; [lia | reflexivity].
      + apply zmax_list_none in E. rewrite E in Hd. destruct Hd.
  Qed.

  Lemma type_list_ok t o :
    type_list_failures t o = [] <->
    exists x, o = Some x /\ List.In t x /\ (forall z, List.In z x -> z = t \/ z = 0).
  Proof.
    destruct o as [x|]; cbn [type_list_failures]; [|split; [discriminate | intros [x [H _]]; discriminate]].
    split.
    - intros H. apply app_nil_inv in H. destruct H as [H1 H2].
      exists x. split; [reflexivity|].
      destruct (existsb (Z.eqb t) x) eqn:E1; [|discriminate].
      destruct (forallb (fun z => (z =? t) || (z =? 0)) x) eqn:E2; [|discriminate].
      split.
      + apply existsb_exists in E1. destruct E1 as [y [Hy Hty]]. apply Z.eqb_eq in Hty. subst y. exact Hy.
      + intros z Hz. rewrite forallb_forall in E2. specialize (E2 _ Hz). apply orb_true_iff in E2.
        destruct E2 as [E2|E2]; apply Z.eqb_eq in E2; [left | right]; exact E2.
    - intros [x' [[= <-] [Hin Hall]]].
      assert (E1 : existsb (Z.eqb t) x = true) by (apply existsb_exists; exists t; split; [exact Hin | apply Z.eqb_refl]).
      assert (E2 : forallb (fun z => (z =? t) || (z =? 0)) x = true).
      { apply forallb_forall. intros z Hz. destruct (Hall _ Hz) as [->| ->]; [rewrite Z.eqb_refl | rewrite (Z.eqb_refl 0), orb_true_r]; reflexivity. }
      rewrite E1, E2. reflexivity.
  Qed.

  Lemma flat_map_nil {A B} (f : A -> list B) (xs : list A) : flat_map f xs = [] <-> forall x, List.In x xs -> f x = [].
  Proof.
    induction xs as [|a r IH]; cbn [flat_map]; [split; [intros _ x [] | reflexivity]|].
    split.
    - intros H. apply app_nil_inv in H. destruct H as [H1 H2]. intros x [<-|Hx]; [exact H1 | apply IH; assumption].
    - intros H. rewrite (H a (or_introl eq_refl)). cbn. apply IH. intros x Hx. apply H. right. exact Hx.
  Qed.

  Lemma type_ok : w_type w <> 0 -> (type_failures w l = [] <-> type_confined w sc).
  Proof.
    intros Hne. unfold type_failures. apply Z.eqb_neq in Hne. rewrite Hne.
    split.
    - intros H. destruct (tys l) as [|o r] eqn:E; [discriminate|].
      rewrite flat_map_nil in H.
      assert (Hall : forall o', List.In o' (tys l) -> exists x, o' = Some x /\ List.In (w_type w) x /\ (forall z, List.In z x -> z = w_type w \/ z = 0)).
      { intros o' Ho'. rewrite E in Ho'. apply type_list_ok, H, Ho'. }
      constructor.
      + destruct (Hall o) as [x [-> _]]; [rewrite E; left; reflexivity|].
        exists x. apply in_bounds. fold l. rewrite <- in_tys_some, E. left; reflexivity.
      + intros Hno. apply in_bounds in Hno. fold l in Hno. rewrite <- in_tys_none in Hno.
        destruct (Hall _ Hno) as [x [Hx _]]. discriminate.
      + intros x Hx. apply in_bounds in Hx. fold l in Hx. rewrite <- in_tys_some in Hx.
        destruct (Hall _ Hx) as [x' [[= <-] Hr]]. exact Hr.
    - intros [[x Hx] Hno Hall].
      apply in_bounds in Hx. fold l in Hx. rewrite <- in_tys_some in Hx.
      destruct (tys l) as [|o r] eqn:E; [destruct Hx|].
      apply flat_map_nil. intros o' Ho'. apply type_list_ok.
      destruct o' as [x'|].
      + exists x'. split; [reflexivity|]. apply Hall. apply in_bounds. fold l. rewrite <- in_tys_some, E. exact Ho'.
      + exfalso. apply Hno. apply in_bounds. fold l. rewrite <- in_tys_none, E. exact Ho'.
  Qed.
End W.

(* ------------------------------------------------------------------ the timestamp components over any bound list
   (used for slot tables, whose bounds are read through slot_bnds) *)
Section WL.
  Variable w : window.
  Variable l : list bnd.
  Lemma app_nil_inv' {A} (a b : list A) : a ++ b = [] -> a = [] /\ b = [].
  Proof. destruct a; cbn; [intros ->; split; reflexivity | discriminate]. Qed.

  Lemma ts_lower_req_ok_l :
    ts_lower_failures w l true = [] <->
    (exists lo, List.In (TsLo lo) l /\ w_lo_min w <= lo) /\ (forall lo, List.In (TsLo lo) l -> lo <= w_from w).
  Proof.
    unfold ts_lower_failures. destruct (zmax_list (ts_los l)) as [m|] eqn:E.
    - apply zmax_list_spec in E. destruct E as [Hin Hmax]. rewrite in_ts_los in Hin.
      split.
      + intros H. apply app_nil_inv' in H. destruct H as [H1 H2].
        destruct (m >? w_from w) eqn:E1; [discriminate|].
        cbn [andb] in H2. destruct (m <? w_lo_min w) eqn:E2; [discriminate|].
        split; [exists m; split; [exact Hin | lia]|].
        intros lo Hlo. rewrite <- in_ts_los in Hlo. specialize (Hmax _ Hlo). lia.
      + intros [[lo [Hlo Hge]] Hall].
        assert (Hm : m <= w_from w) by (apply Hall, Hin).
        assert (Hlm : lo <= m) by (apply Hmax; rewrite in_ts_los; exact Hlo).
        destruct (m >? w_from w) eqn:E1; [lia|]. cbn [andb app].
        destruct (m <? w_lo_min w) eqn:E2; [lia | reflexivity].
    - apply zmax_list_none in E. split; [discriminate|].
      intros [[lo [Hlo _]] _]. rewrite <- in_ts_los, E in Hlo. destruct Hlo.
  Qed.

  Lemma ts_upper_req_ok_l :
    ts_upper_failures w l true = [] <->
    (exists hi, List.In (TsHi hi) l /\ hi <= w_hi_max w + 1) /\ (forall hi, List.In (TsHi hi) l -> w_to w <= hi).
  Proof.
    unfold ts_upper_failures. destruct (zmin_list (ts_his l)) as [m|] eqn:E.
    - apply zmin_list_spec in E. destruct E as [Hin Hmin]. rewrite in_ts_his in Hin.
      split.
      + intros H. apply app_nil_inv' in H. destruct H as [H1 H2].
        destruct (m <? w_to w) eqn:E1; [discriminate|].
        cbn [andb] in H2. destruct (m >? w_hi_max w + 1) eqn:E2; [discriminate|].
        split; [exists m; split; [exact Hin | lia]|].
        intros hi Hhi. rewrite <- in_ts_his in Hhi. specialize (Hmin _ Hhi). lia.
      + intros [[hi [Hhi Hle]] Hall].
        assert (Hm : w_to w <= m) by (apply Hall, Hin).
        assert (Hlm : m <= hi) by (apply Hmin; rewrite in_ts_his; exact Hhi).
        destruct (m <? w_to w) eqn:E1; [lia|]. cbn [andb app].
        destruct (m >? w_hi_max w + 1) eqn:E2; [lia | reflexivity].
    - apply zmin_list_none in E. split; [discriminate|].
      intros [[hi [Hhi _]] _]. rewrite <- in_ts_his, E in Hhi. destruct Hhi.
  Qed.
End WL.

Lemma in_slot_bnds_lo k l x : List.In (TsLo x) (slot_bnds k l) <-> exists z, List.In (TsLo z) l /\ x = cl_slot k z.
Proof.
  unfold slot_bnds. rewrite in_map_iff. split.
  - intros [b [Hb Hin]]. destruct b; try discriminate Hb. injection Hb as <-. eexists; split; [exact Hin | reflexivity].
  - intros [z [Hin ->]]. exists (TsLo z). split; [reflexivity | exact Hin].
Qed.
Lemma in_slot_bnds_hi k l x : List.In (TsHi x) (slot_bnds k l) <-> exists z, List.In (TsHi z) l /\ x = cl_slot k z.
Proof.
  unfold slot_bnds. rewrite in_map_iff. split.
  - intros [b [Hb Hin]]. destruct b; try discriminate Hb. injection Hb as <-. eexists; split; [exact Hin | reflexivity].
  - intros [z [Hin ->]]. exists (TsHi z). split; [reflexivity | exact Hin].
Qed.

(* the slot-table verdict is exactly slot_bounded *)
Lemma slot_ok k w sc :
  ts_lower_failures (slot_win k w) (slot_bnds k (bounds sc)) true ++ ts_upper_failures (slot_win k w) (slot_bnds k (bounds sc)) true = []
  <-> slot_bounded k w sc.
Proof.
  split.
  - intros H. apply app_nil_inv' in H. destruct H as [H1 H2].
    apply ts_lower_req_ok_l in H1. apply ts_upper_req_ok_l in H2.
    destruct H1 as [[lo [A1 A2]] B], H2 as [[hi [C1 C2]] D].
    apply in_slot_bnds_lo in A1. destruct A1 as [lo0 [A1 ->]]. apply in_slot_bnds_hi in C1. destruct C1 as [hi0 [C1 ->]].
    cbn [slot_win w_lo_min w_hi_max w_from w_to] in *.
    constructor.
    + exists lo0. split; [apply in_bounds, A1 | exact A2].
    + intros x Hx. apply B. apply in_slot_bnds_lo. exists x. split; [apply in_bounds, Hx | reflexivity].
    + exists hi0. split; [apply in_bounds, C1 | lia].
    + intros x Hx. apply D. apply in_slot_bnds_hi. exists x. split; [apply in_bounds, Hx | reflexivity].
  - intros [[lo [A1 A2]] B [hi [C1 C2]] D].
    rewrite (proj2 (ts_lower_req_ok_l (slot_win k w) (slot_bnds k (bounds sc)))),
            (proj2 (ts_upper_req_ok_l (slot_win k w) (slot_bnds k (bounds sc)))); [reflexivity | |];
      cbn [slot_win w_lo_min w_hi_max w_from w_to].
    + split.
      * exists (cl_slot k hi). split; [apply in_slot_bnds_hi; exists hi; split; [apply in_bounds, C1 | reflexivity] | lia].
      * intros x Hx. apply in_slot_bnds_hi in Hx. destruct Hx as [z [Hz ->]]. apply D, in_bounds, Hz.
    + split.
      * exists (cl_slot k lo). split; [apply in_slot_bnds_lo; exists lo; split; [apply in_bounds, A1 | reflexivity] | exact A2].
      * intros x Hx. apply in_slot_bnds_lo in Hx. destruct Hx as [z [Hz ->]]. apply B, in_bounds, Hz.
Qed.

(* ------------------------------------------------------------------ the oracle is exact *)
Theorem scan_bounded_b_iff info w sc : scan_bounded_b info w sc = true <-> scan_bounded info w sc.
Proof.
  unfold scan_bounded_b, scan_bounded, scan_failures.
  set (ti := info (sc_table sc)).
  assert (Hnil : forall (a b : list failure), (match a ++ b with [] => true | _ => false end) = true <-> a = [] /\ b = []).
  { intros a b. destruct a; cbn; [destruct b; split; try discriminate; auto; intros [_ H]; discriminate|].
    split; [discriminate | intros [H _]; discriminate]. }
  rewrite Hnil.
  assert (Hty : (if ti_typed ti then type_failures w (bounds sc) else []) = [] <->
                (ti_typed ti = true -> w_type w <> 0 -> type_confined w sc)).
  { destruct (ti_typed ti).
    - destruct (Z.eq_dec (w_type w) 0) as [Hz|Hz].
      + unfold type_failures. rewrite Hz. cbn. split; [intros _ _ H; contradiction | reflexivity].
      + rewrite (type_ok w sc Hz). split; [intros H _ _; exact H | intros H; apply H; [reflexivity | exact Hz]].
    - split; [intros _ H; discriminate | reflexivity]. }
  rewrite Hty. clear Hty.
  destruct (ti_class ti).
  - (* data *)
    assert (H : ts_lower_failures w (bounds sc) true ++ ts_upper_failures w (bounds sc) true = [] <-> ts_bounded w sc).
    { split.
      - intros H. apply app_nil_inv in H. destruct H as [H1 H2].
        apply ts_lower_req_ok in H1. apply ts_upper_req_ok in H2.
        destruct H1 as [A B], H2 as [C D]. constructor; assumption.
      - intros [A B C D].
        rewrite (proj2 (ts_lower_req_ok w sc) (conj A B)), (proj2 (ts_upper_req_ok w sc) (conj C D)). reflexivity. }
    rewrite H. reflexivity.
  - (* index *)
    assert (H : date_failures w (bounds sc) ++ ts_lower_failures w (bounds sc) false ++ ts_upper_failures w (bounds sc) false = []
                <-> date_covers w sc).
    { split.
      - intros H. apply app_nil_inv in H. destruct H as [H1 H2]. apply app_nil_inv in H2. destruct H2 as [H2 H3].
        apply date_ok in H1. pose proof (proj1 (ts_lower_opt_ok w sc) H2) as D. pose proof (proj1 (ts_upper_opt_ok w sc) H3) as E.
        destruct H1 as [A [B C]]. constructor; assumption.
      - intros [A B C D E].
        rewrite (proj2 (date_ok w sc) (conj A (conj B C))), (proj2 (ts_lower_opt_ok w sc) D), (proj2 (ts_upper_opt_ok w sc) E).
        reflexivity. }
    rewrite H. reflexivity.
  - split; [intros [H _]; discriminate | intros [[] _]].
  - (* slot table *)
    rewrite slot_ok. reflexivity.
Qed.

Theorem every_scan_bounded_b_sound info w s :
  every_scan_bounded_b info w s = true -> Forall (scan_bounded info w) (scans s).
Proof.
  unfold every_scan_bounded_b. rewrite forallb_forall. intros H. apply Forall_forall.
  intros sc Hsc. apply scan_bounded_b_iff, H, Hsc.
Qed.
Theorem every_scan_bounded_b_complete info w s :
  Forall (scan_bounded info w) (scans s) -> every_scan_bounded_b info w s = true.
Proof.
  unfold every_scan_bounded_b. rewrite forallb_forall, Forall_forall. intros H sc Hsc.
  apply scan_bounded_b_iff, H, Hsc.
Qed.

(* ------------------------------------------------------------------ slot arithmetic, and what slot_bounded means for the data *)
Lemma fl_slot_spec k x : 0 < k -> fl_slot k x <= x < fl_slot k x + k /\ fl_slot k x mod k = 0.
Proof.
  intros Hk. unfold fl_slot. split; [|apply Z_mod_mult].
  pose proof (Z.mul_div_le x k Hk). pose proof (Z.mul_succ_div_gt x k Hk). lia.
Qed.
Lemma cl_slot_spec k x : 0 < k -> x <= cl_slot k x < x + k /\ cl_slot k x mod k = 0.
Proof.
  intros Hk. unfold cl_slot. split; [|apply Z_mod_mult].
  pose proof (Z.mul_div_le (- x) k Hk). pose proof (Z.mul_succ_div_gt (- x) k Hk). lia.
Qed.
Lemma multiple_eq k a : 0 < k -> a mod k = 0 -> a = k * (a / k).
Proof. intros Hk H. apply Z_div_exact_full_2; [lia | exact H]. Qed.
Lemma multiples_apart k a b : 0 < k -> a mod k = 0 -> b mod k = 0 -> a < b -> a + k <= b.
Proof.
  intros Hk Ha Hb Hlt. rewrite (multiple_eq k a Hk Ha), (multiple_eq k b Hk Hb) in *.
  assert (a / k < b / k) by nia. nia.
Qed.
Lemma cl_slot_aligned k x : 0 < k -> x mod k = 0 -> cl_slot k x = x.
Proof.
  intros Hk H. destruct (cl_slot_spec k x Hk) as [[H1 H2] H3].
  destruct (Z.eq_dec (cl_slot k x) x) as [E|E]; [exact E|].
  assert (x < cl_slot k x) by lia. pose proof (multiples_apart k x (cl_slot k x) Hk H H3 H0). lia.
Qed.
Lemma fl_slot_aligned k x : 0 < k -> x mod k = 0 -> fl_slot k x = x.
Proof.
  intros Hk H. destruct (fl_slot_spec k x Hk) as [[H1 H2] H3].
  destruct (Z.eq_dec (fl_slot k x) x) as [E|E]; [exact E|].
  assert (fl_slot k x < x) by lia. pose proof (multiples_apart k (fl_slot k x) x Hk H3 H H0). lia.
Qed.
(* among the stamps (multiples of k), `stamp >= x` is `stamp >= cl_slot k x` and `stamp <= x` is `stamp <= fl_slot k x` *)
Lemma cl_slot_least k x s : 0 < k -> s mod k = 0 -> x <= s -> cl_slot k x <= s.
Proof.
  intros Hk Hs Hle. destruct (cl_slot_spec k x Hk) as [[H1 H2] H3].
  destruct (Z_le_gt_dec (cl_slot k x) s) as [L|G]; [exact L|].
  pose proof (multiples_apart k s (cl_slot k x) Hk Hs H3 ltac:(lia)). lia.
Qed.
Lemma fl_slot_greatest k x s : 0 < k -> s mod k = 0 -> s <= x -> s <= fl_slot k x.
Proof.
  intros Hk Hs Hle. destruct (fl_slot_spec k x Hk) as [[H1 H2] H3].
  destruct (Z_le_gt_dec s (fl_slot k x)) as [L|G]; [exact L|].
  pose proof (multiples_apart k (fl_slot k x) s Hk H3 Hs ltac:(lia)). lia.
Qed.
Lemma cl_slot_mono k x y : 0 < k -> x <= y -> cl_slot k x <= cl_slot k y.
Proof.
  intros Hk Hle. destruct (cl_slot_spec k y Hk) as [[H1 _] H3]. apply cl_slot_least; [exact Hk | exact H3 | lia].
Qed.

(* completeness at slot granularity: for every instant t of the window the row that holds t - the one stamped
   fl_slot k t - passes every timestamp conjunct of a slot_bounded scan *)
Theorem slot_window_complete k w sc t :
  0 < k -> slot_bounded k w sc -> w_from w <= t < w_to w ->
  (forall lo, has_bnd sc (TsLo lo) -> lo <= fl_slot k t) /\ (forall hi, has_bnd sc (TsHi hi) -> fl_slot k t < hi).
Proof.
  intros Hk [_ B _ D] Ht. split.
  - intros lo Hlo. specialize (B _ Hlo). destruct (cl_slot_spec k lo Hk) as [[H1 _] H3].
    pose proof (fl_slot_greatest k t (cl_slot k lo) Hk H3 ltac:(lia)). lia.
  - intros hi Hhi. specialize (D _ Hhi). destruct (cl_slot_spec k hi Hk) as [[_ H2] H3].
    destruct (fl_slot_spec k t Hk) as [[F1 _] F3].
    pose proof (multiples_apart k (fl_slot k t) (cl_slot k hi) Hk F3 H3 ltac:(lia)). lia.
Qed.
(* confinement at slot granularity: a row (stamp s, a multiple of k) that passes the timestamp conjuncts holds only
   data of [fl_slot k lo_min, cl_slot k (hi_max + 1)): the allowed region widened to whole slots *)
Theorem slot_window_confined k w sc s :
  0 < k -> slot_bounded k w sc -> s mod k = 0 ->
  (forall lo, has_bnd sc (TsLo lo) -> lo <= s) -> (forall hi, has_bnd sc (TsHi hi) -> s < hi) ->
  fl_slot k (w_lo_min w) <= s /\ s + k <= cl_slot k (w_hi_max w + 1).
Proof.
  intros Hk [[lo [A1 A2]] _ [hi [C1 C2]] _] Hs Hlo Hhi. split.
  - pose proof (cl_slot_least k lo s Hk Hs (Hlo _ A1)). lia.
  - destruct (cl_slot_spec k hi Hk) as [[H1 _] H3].
    pose proof (multiples_apart k s (cl_slot k hi) Hk Hs H3 ltac:(specialize (Hhi _ C1); lia)). lia.
Qed.
(* why the lower bound of a slot-table read must lie on a slot boundary: the row that holds an unaligned bound is
   stamped below it and is not read, although it holds the data of [lo, stamp + k) *)
Lemma slot_unaligned_lower_loses k lo :
  0 < k -> lo mod k <> 0 -> fl_slot k lo < lo < fl_slot k lo + k /\ lo < cl_slot k lo.
Proof.
  intros Hk Hne. destruct (fl_slot_spec k lo Hk) as [[F1 F2] F3]. destruct (cl_slot_spec k lo Hk) as [[C1 _] C3].
  assert (fl_slot k lo <> lo) by (intros E; rewrite E in F3; contradiction).
  assert (cl_slot k lo <> lo) by (intros E; rewrite E in C3; contradiction). lia.
Qed.

(* the same for a scan judged by the oracle: a slot-table scan that is scan_bounded reads, for every instant of the
   window, the row holding it - and no row whose data lies outside the window widened to whole slots *)
Theorem scan_bounded_slot_complete info w sc k t :
  scan_bounded info w sc -> ti_class (info (sc_table sc)) = CSlot k -> 0 < k -> w_from w <= t < w_to w ->
  (forall lo, has_bnd sc (TsLo lo) -> lo <= fl_slot k t) /\ (forall hi, has_bnd sc (TsHi hi) -> fl_slot k t < hi).
Proof.
  intros [H _] Hc Hk Ht. rewrite Hc in H. exact (slot_window_complete k w sc t Hk H Ht).
Qed.
Theorem scan_bounded_slot_confined info w sc k s :
  scan_bounded info w sc -> ti_class (info (sc_table sc)) = CSlot k -> 0 < k -> s mod k = 0 ->
  (forall lo, has_bnd sc (TsLo lo) -> lo <= s) -> (forall hi, has_bnd sc (TsHi hi) -> s < hi) ->
  fl_slot k (w_lo_min w) <= s /\ s + k <= cl_slot k (w_hi_max w + 1).
Proof.
  intros [H _] Hc Hk Hs. rewrite Hc in H. exact (slot_window_confined k w sc s Hk H Hs).
Qed.

(* ------------------------------------------------------------------ FormatFromDate *)
From Qryn Require Import model.SqlRender model.Logql model.LogqlPlan.

(* the day the writer stores for a row of time t when its clock zone is `off` seconds east of UTC
   (ch-go ToDate adds the zone offset; C04 owns the writer and fixes it to off = 0) *)
Definition writer_day (off t : Z) : Z := (t + off * 1000000000) / ns_per_day.

(* the index lower bound FormatFromDate(from) = UTC day of (from - 30 min) is not after the stored day
   of any row at or after `from`, as long as the writer's zone is not more than 30 minutes west of UTC *)
Lemma from_day_covers_zone off from t : -1800 <= off -> from <= t -> from_day from <= writer_day off t.
Proof.
  intros Hoff Hle. unfold from_day, writer_day, ns_per_day. apply Z.div_le_mono; lia.
Qed.
Lemma from_day_covers from t : from <= t -> from_day from <= day_of_ns t.
Proof.
  intros H. pose proof (from_day_covers_zone 0 from t ltac:(lia) H) as H0.
  unfold writer_day in H0. rewrite Z.add_0_r in H0. exact H0.
Qed.
(* ... and it is not a whole day too early either: at most one day before the day of `from` *)
Lemma from_day_close from : day_of_ns from - 1 <= from_day from <= day_of_ns from.
Proof.
  unfold from_day, day_of_ns, ns_per_day. split.
  - assert (H : (from - 86400 * 1000000000) / (86400 * 1000000000) = from / (86400 * 1000000000) - 1).
    { replace (from - 86400 * 1000000000) with (from + (-1) * (86400 * 1000000000)) by lia.
      rewrite Z.div_add by lia. lia. }
    rewrite <- H. apply Z.div_le_mono; lia.
  - apply Z.div_le_mono; lia.
Qed.
(* under a writer five hours west of UTC the bound is too late: a row at 02:00 UTC is stored under the previous day *)
Lemma from_day_misses_western_writer :
  exists from t, from <= t /\ ~ from_day from <= writer_day (-18000) t.
Proof.
  exists (1704852000 * 1000000000), (1704852000 * 1000000000).   (* 2024-01-10T02:00:00Z *)
  split; [lia|]. vm_compute. intros H. apply H. reflexivity.
Qed.

(* ------------------------------------------------------------------ the stored day of trace attribute rows
   (model/ScanCases.v attrs_stored_day, tied to the real write path by harness spandate under 32 process zones) *)
From Qryn Require Import model.ScanCases.

Lemma attrs_stored_day_utc tz t : attrs_stored_day tz t = day_of_ns t.
Proof.
  unfold attrs_stored_day, day_of_ns, ns_per_day. rewrite Z.div_div by lia.
  replace (1000000000 * 86400) with (86400 * 1000000000) by lia. reflexivity.
Qed.

(* every index date bound the reader writes for a window [from, to) keeps the rows of every span inside the
   window, whatever the time zone of the writer process: date >= day(from), date >= FormatFromDate(from),
   date <= day(to) *)
Lemma attrs_day_in_bounds tz from to t :
  from <= t < to ->
  day_of_ns from <= attrs_stored_day tz t <= day_of_ns to /\ from_day from <= attrs_stored_day tz t.
Proof.
  intros [H1 H2]. rewrite attrs_stored_day_utc. split; [split|].
  - unfold day_of_ns, ns_per_day. apply Z.div_le_mono; lia.
  - unfold day_of_ns, ns_per_day. apply Z.div_le_mono; lia.
  - apply from_day_covers. exact H1.
Qed.

(* the defect repaired by 71ffd5d: dated in the process zone, a span at 02:00 UTC written five hours west of
   UTC was filed under the previous day, below the reader's lower bound *)
Lemma attrs_day_local_lost :
  exists tz from to t, from <= t < to /\ ~ day_of_ns from <= attrs_stored_day_local tz t.
Proof.
  exists (-18000), (1704852000 * 1000000000), (1704855600 * 1000000000), (1704852000 * 1000000000).
  split; [lia|]. vm_compute. intros H. apply H. reflexivity.
Qed.
