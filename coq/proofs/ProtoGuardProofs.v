(* Property C04: the two open findings as exact classes (model/ProtoLabels.v in_unsanitized_class / in_ttl_class) and the
   theorem that outside them the fingerprint depends only on the set of sanitized pairs. *)
From Coq Require Import List ZArith Lia String Ascii Bool Permutation.
From Qryn Require Import model.GoQuote model.LabelJson model.Fingerprint model.Labels model.ProtoLabels
  proofs.FingerprintProofs proofs.LabelsProofs proofs.FingerprintInjProofs proofs.ProtoLabelsProofs
  model.GoJson model.DdTags proofs.DdTagsProofs.
Import ListNotations.
Open Scope Z_scope.

(* ------------------------------------------------------------------ outside the two finding classes the fingerprint
   depends only on the set of sanitized pairs: not on the protocol, not on the wire order, not on the request *)
Lemma labels_eqb_true : forall a b, labels_eqb a b = true -> a = b.
Proof.
  induction a as [|[k v] a IH]; intros [|[k' v'] b] H; cbn [labels_eqb] in H; try discriminate H; [reflexivity|].
  apply andb_true_iff in H. destruct H as [H1 H2]. unfold label_eqb in H1. cbn [fst snd] in H1.
  apply andb_true_iff in H1. destruct H1 as [Hk Hv]. apply String.eqb_eq in Hk, Hv. subst. f_equal. now apply IH.
Qed.

Lemma strip_ttl_none ls : existsb is_ttl_label ls = false -> strip_ttl ls = ls.
Proof.
  unfold strip_ttl. induction ls as [|l ls IH]; cbn [existsb filter]; [reflexivity|].
  intros H. apply orb_false_iff in H. destruct H as [H1 H2]. rewrite H1. cbn [negb]. f_equal. now apply IH.
Qed.

Lemma outside_labels hdr w : outside_findings hdr w = true ->
  on_entries_labels hdr (wire_labels w) = wire_set w.
Proof.
  unfold outside_findings, in_unsanitized_class, in_ttl_class, wire_set. intros H.
  apply andb_true_iff in H. destruct H as [Hu Ht].
  assert (Hl : (if sanitizing w then wire_labels w else sanitize (wire_labels w)) = wire_labels w).
  { destruct (sanitizing w); [reflexivity|]. cbn [negb andb] in Hu. apply negb_true_iff, negb_false_iff in Hu.
    now apply labels_eqb_true. }
  rewrite Hl. unfold on_entries_labels. destruct (hdr =? 0) eqn:Eh; [reflexivity|].
  cbn [negb andb] in Ht. apply negb_true_iff in Ht. symmetry. now apply strip_ttl_none.
Qed.

Theorem fp_depends_on_sanitized_set_only ch64 h128 fin hdr1 hdr2 w1 w2 :
  outside_findings hdr1 w1 = true -> outside_findings hdr2 w2 = true ->
  Permutation (wire_set w1) (wire_set w2) ->
  wire_fp ch64 h128 fin hdr1 w1 = wire_fp ch64 h128 fin hdr2 w2.
Proof.
  intros H1 H2 Hp. unfold wire_fp. rewrite (outside_labels _ _ H1), (outside_labels _ _ H2).
  now apply fingerprint_perm.
Qed.

(* the guard is met by requests of different protocols, orders and headers that denote one label set: a Datadog request,
   the same labels through Loki in another order and with a TTL header, and an OTLP record *)
Definition g_dd : wire := WDatadogLogs [("env", "prod")]%string "" "api" "" "".
Definition g_loki : wire := WSanitized LokiJsonStream [("type", "datadog"); ("service", "api"); ("env", "prod")]%string.
Definition g_otlp : wire := WOtlpLogs (otlp_map [("service"%string, OStr "api")] [] [("type"%string, OStr "datadog"); ("env"%string, OStr "prod")] "").
Example outside_findings_met :
  outside_findings 0 g_dd = true /\ outside_findings 7 g_loki = true /\ outside_findings 0 g_otlp = true /\
  Permutation (wire_set g_dd) (wire_set g_loki) /\ Permutation (wire_set g_dd) (wire_set g_otlp) /\
  wire_labels g_dd <> wire_labels g_loki.
Proof.
  split; [reflexivity|]. split; [reflexivity|]. split; [reflexivity|].
  split; [|split; [|discriminate]].
  - vm_compute. exact (Permutation_rev _).
  - vm_compute. exact (Permutation_cons_append _ _).
Qed.

(* and each guard is needed: inside either class the same label set gets two fingerprints (real city.CH64 values;
   the first is unsanitizing_decoder_splits_series) *)
Definition w_ttl : wire := WSanitized LokiJsonStream [("app", "v"); ("__ttl_days__", "5")]%string.
Lemma ttl_header_splits_series :
  wire_set w_ttl = [("app", "v")]%string /\ in_ttl_class 7 w_ttl = true /\ outside_findings 0 w_ttl = true /\
  wire_fp (tbl_ch64 real_tbl) hash128to64 fin24 0 w_ttl <> wire_fp (tbl_ch64 real_tbl) hash128to64 fin24 7 w_ttl /\
  wire_fp (tbl_ch64 real_tbl) hash128to64 fin_djb 0 w_ttl <> wire_fp (tbl_ch64 real_tbl) hash128to64 fin_djb 7 w_ttl.
Proof. split; [reflexivity|]. split; [reflexivity|]. split; [reflexivity|]. split; vm_compute; discriminate. Qed.

(* ------------------------------------------------------------------ Datadog logs at the level of the ddtags TEXT: two
   requests whose ddtags members list the same well-formed tags in another order get the same fingerprint (the regular
   expression returns the tags of the text: proofs/DdTagsProofs.dd_tags_of_tags_text) *)
Theorem ddtags_text_order_independent ch64 h128 fin lh ttl t1 t2 a b c d :
  forallb (wf_tag lh) t1 = true -> Permutation t1 t2 ->
  wire_fp ch64 h128 fin ttl (WDatadogLogs (dd_tags lh (tags_text t1)) a b c d) =
  wire_fp ch64 h128 fin ttl (WDatadogLogs (dd_tags lh (tags_text t2)) a b c d).
Proof.
  intros H1 Hp.
  assert (H2 : forallb (wf_tag lh) t2 = true).
  { apply forallb_forall. intros x Hx. rewrite forallb_forall in H1. apply H1. eapply Permutation_in; [apply Permutation_sym|]; eassumption. }
  rewrite (dd_tags_of_tags_text lh t1 H1), (dd_tags_of_tags_text lh t2 H2).
  apply wire_fp_reorder. now constructor.
Qed.
(* ------------------------------------------------------------------ the Bernstein fingerprint type has 32 bits *)
Lemma w32_range x : 0 <= w32 x < 4294967296.
Proof.
  unfold w32. change 4294967295 with (Z.ones 32). rewrite Z.land_ones by lia. apply Z.mod_pos_bound. lia.
Qed.

Lemma lxor_range a b : 0 <= a < 4294967296 -> 0 <= b < 4294967296 -> 0 <= Z.lxor a b < 4294967296.
Proof.
  intros Ha Hb. assert (H0 : 0 <= Z.lxor a b) by (apply Z.lxor_nonneg; split; lia). split; [exact H0|].
  destruct (Z.eq_dec (Z.lxor a b) 0) as [E|Hn]; [rewrite E; lia|].
  change 4294967296 with (2 ^ 32). apply (Z.log2_lt_pow2 (Z.lxor a b) 32); [lia|].
  eapply Z.le_lt_trans; [apply Z.log2_lxor; lia|].
  apply Z.max_lub_lt.
  - destruct (Z.eq_dec a 0) as [->|]; [cbn; lia|]. apply Z.log2_lt_pow2; lia.
  - destruct (Z.eq_dec b 0) as [->|]; [cbn; lia|]. apply Z.log2_lt_pow2; lia.
Qed.

Lemma le_bytes_range n : forall k, Forall (fun b => 0 <= b < 256) (le_bytes_z n k).
Proof.
  induction n as [|n IH]; intros k; cbn [le_bytes_z]; constructor; [apply Z.mod_pos_bound; lia|apply IH].
Qed.

Lemma djb_fold_range bs : Forall (fun b => 0 <= b < 256) bs -> forall h, 0 <= h < 4294967296 ->
  0 <= fold_left (fun h b => Z.lxor (w32 (h * 33)) b) bs h < 4294967296.
Proof.
  induction 1 as [|b bs Hb _ IH]; intros h Hh; cbn [fold_left]; [assumption|].
  apply IH. apply lxor_range; [apply w32_range|lia].
Qed.

Theorem fin_djb_range d : 0 <= fin_djb d < 4294967296.
Proof.
  destruct d as [[d0 d1] d2]. unfold fin_djb. apply djb_fold_range; [|lia].
  apply Forall_rev. repeat (apply Forall_app; split); apply le_bytes_range.
Qed.

(* ------------------------------------------------------------------ ... so "different label sets get different fingerprints"
   fails under FingerPrintType = Bernstein: two one-label sets found by a birthday search over 22 349 candidates
   (seriesid --mode djbsearch), real city.CH64 values (compared with the code on every run). Under CityHash the two sets
   get different fingerprints. *)
Definition djb_tbl : list (string * Z) :=
  [("app"%string, 12576353548093493342); ("s10584"%string, 14134554934915119330); ("s22348"%string, 187971378227650380)].
Definition djb_a : list label := [("app", "s10584")]%string.
Definition djb_b : list label := [("app", "s22348")]%string.
Theorem bernstein_fingerprints_collide :
  ~ Permutation djb_a djb_b /\
  fingerprint_djb_tbl djb_tbl djb_a = fingerprint_djb_tbl djb_tbl djb_b /\
  fingerprint_tbl djb_tbl djb_a <> fingerprint_tbl djb_tbl djb_b.
Proof.
  split; [|split; [vm_compute; reflexivity|vm_compute; discriminate]].
  intros H. apply Permutation_length_1 in H. discriminate H.
Qed.
