(* C10 — the label-values and series statements of QueryLabelsService (model/ScansPlanners.v of C13: ValuesPlanner, SeriesPlanner,
   MultiStreamSelectPlanner over LogqlPlan.stream_select) are value-independent: the label name of the URL and the names and values of
   the match[] selectors are values. *)
From Qryn Require Import lib.Strs model.Sql model.SqlRender.
From Coq Require Import List ZArith NArith String Ascii Bool Lia.
From Qryn Require Import model.Logql model.LogqlPlan model.PromSel model.ScansPlanners.
From Qryn Require Import model.Quote model.ChLex model.SqlSites model.SqlPieces model.SqlPiecesCases model.SqlPiecesSel model.SqlPiecesLabels.
From Qryn Require Import proofs.QuoteProofs proofs.SqlPiecesProofs proofs.SqlEraseProofs proofs.LogqlEraseProofs.
Import ListNotations.
Open Scope string_scope.
Open Scope list_scope.

Notation K := (fun _ : string => EmptyString).
Notation E := (subst K).
Notation Es := (subst_sel K).

Lemma Fs_set_unions f u s : subst_sel f (set_unions u s) = set_unions (munions_of (map_sel (subst f)) u) (subst_sel f s).
Proof. destruct s; reflexivity. Qed.
Lemma Fs_set_distinct f b s : subst_sel f (set_distinct b s) = set_distinct b (subst_sel f s).
Proof. destruct s; reflexivity. Qed.

Lemma Es_multi_stream_select c sels sels' : sels_variant sels sels' ->
  match multi_stream_select c sels, multi_stream_select c sels' with
  | Some q, Some q' => Es q = Es q'
  | None, None => True
  | _, _ => False
  end.
Proof.
  intro H. unfold multi_stream_select. destruct H as [|ms ms' r r' Hm Hr]; [exact I|].
  pose proof (Es_stream_select c ms ms' Hm) as H0. unfold erase_sel in H0.
  destruct Hr as [|m2 m2' r2 r2' Hm2 Hr2]; [exact H0|].
  rewrite !Fs_set_unions. unfold subst_sel in *. rewrite H0. f_equal.
  assert (Hu : forall l l', Forall2 (Forall2 matcher_variant) l l' ->
            munions_of (map_sel E) (map (stream_select c) l) = munions_of (map_sel E) (map (stream_select c) l')).
  { induction 1 as [|a b l l' Hab _ IH]; [reflexivity|]. cbn [map munions_of]. fold (munions_of (map_sel E)). rewrite IH.
    pose proof (Es_stream_select c a b Hab) as Ha. unfold erase_sel, subst_sel in Ha. rewrite Ha. reflexivity. }
  apply (Hu (m2 :: r2) (m2' :: r2')). constructor; assumption.
Qed.

Lemma Es_with_limit c q q' : Es q = Es q' -> Es (with_limit c q) = Es (with_limit c q').
Proof. intro H. unfold with_limit. destruct (0 <? c_limit c)%Z; [|exact H]. rewrite !Fs_set_limit. unfold subst_sel in *. rewrite H. reflexivity. Qed.

Lemma Es_values_planner c key key' fp fp' :
  match fp, fp' with Some q, Some q' => Es q = Es q' | None, None => True | _, _ => False end ->
  Es (values_planner c key fp) = Es (values_planner c key' fp').
Proof.
  intro H. unfold values_planner. apply Es_with_limit.
  set (base := and_where [Ge (Id "date") (format_from_date c); Le (Id "date") (to_day c); Eq (Id "key") (StrV key); get_types c] _).
  set (base' := and_where [Ge (Id "date") (format_from_date c); Le (Id "date") (to_day c); Eq (Id "key") (StrV key'); get_types c] _).
  assert (Hb : Es base = Es base') by reflexivity.
  destruct fp as [q|], fp' as [q'|]; try contradiction; [|exact Hb].
  apply Es_and_where; [cbn [map subst]; unfold subst_sel in H; rewrite H; reflexivity|]. apply Es_with1; assumption.
Qed.

Lemma Es_series_planner c fp fp' : Es fp = Es fp' -> Es (series_planner c fp) = Es (series_planner c fp').
Proof.
  intro H. unfold series_planner. apply Es_with_limit.
  apply Es_and_where; [cbn [map subst]; unfold subst_sel in H; rewrite H; reflexivity|].
  rewrite !Fs_set_from, !Fs_set_cols, !Fs_set_distinct. f_equal. f_equal. f_equal. apply Es_with1; [exact H|reflexivity].
Qed.

Lemma values_sql_tree c key sels : values_sql c key sels = match values_tree c key sels with Some q => render q false | None => None end.
Proof. unfold values_sql, values_tree. destruct sels; [reflexivity|]. destruct (multi_stream_select c _); reflexivity. Qed.
Lemma series_sql_tree c sels : series_sql c sels = match series_tree c sels with Some q => render q false | None => None end.
Proof. unfold series_sql, series_tree. destruct (multi_stream_select c sels); reflexivity. Qed.

Definition opt_Es (x y : option select) : Prop :=
  match x, y with Some q, Some q' => Es q = Es q' | None, None => True | _, _ => False end.

Lemma Es_values_tree c key key' sels sels' : sels_variant sels sels' -> opt_Es (values_tree c key sels) (values_tree c key' sels').
Proof.
  intro H. unfold values_tree. pose proof (Es_multi_stream_select c sels sels' H) as Hm.
  destruct H as [|ms ms' r r' Hms Hr]; [cbn [opt_Es]; apply Es_values_planner; exact I|].
  destruct (multi_stream_select c (ms :: r)) as [q|], (multi_stream_select c (ms' :: r')) as [q'|]; try contradiction; [|exact I].
  cbn [opt_Es]. apply Es_values_planner. exact Hm.
Qed.
Lemma Es_series_tree c sels sels' : sels_variant sels sels' -> opt_Es (series_tree c sels) (series_tree c sels').
Proof.
  intro H. unfold series_tree. pose proof (Es_multi_stream_select c sels sels' H) as Hm.
  destruct (multi_stream_select c sels) as [q|], (multi_stream_select c sels') as [q'|]; try contradiction; [|exact I].
  cbn [opt_Es]. apply Es_series_planner. exact Hm.
Qed.

Theorem label_values_value_independent c key key' sels sels' q p : sels_variant sels sels' ->
  values_tree c key sels = Some q -> pieces q false = Some p -> pok QN p = true ->
  exists q' p', values_tree c key' sels' = Some q' /\ pieces q' false = Some p' /\ pok QN p' = true /\ shape p' = shape p /\
    values_sql c key sels = Some (flat p) /\ values_sql c key' sels' = Some (flat p') /\
    skeleton (lex (flat p')) = skeleton (lex (flat p)) /\ lex (flat p') = etoks QN p' /\ List.length (rvalues p') = List.length (rvalues p).
Proof.
  intros H Hq Hp Hok. pose proof (Es_values_tree c key key' sels sels' H) as He. rewrite Hq in He.
  destruct (values_tree c key' sels') as [q'|] eqn:Hq'; [|contradiction]. cbn [opt_Es] in He.
  destruct (erased_equal_same_structure q q' false p He Hp Hok) as (p' & H1 & H2 & H3 & H4 & H5 & H6 & H7 & H8).
  exists q', p'. rewrite !values_sql_tree, Hq, Hq'. auto 12.
Qed.

Theorem series_value_independent c sels sels' q p : sels_variant sels sels' ->
  series_tree c sels = Some q -> pieces q false = Some p -> pok QN p = true ->
  exists q' p', series_tree c sels' = Some q' /\ pieces q' false = Some p' /\ pok QN p' = true /\ shape p' = shape p /\
    series_sql c sels = Some (flat p) /\ series_sql c sels' = Some (flat p') /\
    skeleton (lex (flat p')) = skeleton (lex (flat p)) /\ lex (flat p') = etoks QN p' /\ List.length (rvalues p') = List.length (rvalues p).
Proof.
  intros H Hq Hp Hok. pose proof (Es_series_tree c sels sels' H) as He. rewrite Hq in He.
  destruct (series_tree c sels') as [q'|] eqn:Hq'; [|contradiction]. cbn [opt_Es] in He.
  destruct (erased_equal_same_structure q q' false p He Hp Hok) as (p' & H1 & H2 & H3 & H4 & H5 & H6 & H7 & H8).
  exists q', p'. rewrite !series_sql_tree, Hq, Hq'. auto 12.
Qed.
