(* C10, write side — what the boolean judgement of model/WSites.v means. *)
From Coq Require Import List String Ascii Bool ZArith.
From Qryn Require Import model.WSites.
Import ListNotations.
Open Scope string_scope.

Lemma wsites_ok_meaning sites entry : wsites_ok sites entry = true ->
  sites <> [] /\
  forall s, In s sites -> forall c d, In (c, d) (ws_pieces s) ->
    c <> WUnclassified /\
    (c = WPass -> (exists k, In k sites /\ ws_call k = true /\ ws_sink k = d) \/ In d entry).
Proof.
  unfold wsites_ok. intro H. apply andb_true_iff in H. destruct H as [Hn Hall].
  split.
  - intro E. rewrite E in Hn. discriminate.
  - intros s Hs c d Hp. rewrite forallb_forall in Hall. specialize (Hall s Hs).
    unfold wsite_ok in Hall. rewrite forallb_forall in Hall. specialize (Hall (c, d) Hp).
    unfold wpiece_ok in Hall. cbn [fst snd] in Hall. split.
    + intro E. rewrite E in Hall. discriminate.
    + intro E. rewrite E in Hall. unfold pass_closed in Hall. apply orb_true_iff in Hall. destruct Hall as [H|H].
      * left. apply existsb_exists in H. destruct H as [k [Hk Hc]]. apply andb_true_iff in Hc. destruct Hc as [Hc He].
        exists k. split; [exact Hk|]. split; [exact Hc|]. apply String.eqb_eq. exact He.
      * right. apply existsb_exists in H. destruct H as [x [Hx He]]. apply String.eqb_eq in He. subst x. exact Hx.
Qed.
