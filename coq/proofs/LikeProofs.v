(* C10 — doLike: the LIKE literal is one literal and means "contains the value" *)
From Coq Require Import List String Ascii Bool.
From Qryn Require Import model.Quote model.ChLex model.Like proofs.QuoteProofs proofs.ChLexProofs.
Import ListNotations.
Open Scope string_scope.

Lemma like_parse_escape : forall v r,
  like_parse (like_escape v ++ r) = (chars v ++ like_parse r)%list.
Proof.
  induction v as [|c v IH]; intro r; [reflexivity|].
  unfold like_escape in *. cbn [map_bytes chars]. rewrite sapp_assoc.
  unfold like_table, bs, lookup1.
  change (String c "") with (String c EmptyString).
  destruct (Ascii.eqb_spec c "\") as [->|Hb]; [cbn; now rewrite IH|].
  destruct (Ascii.eqb_spec c "%") as [->|Hp]; [cbn; now rewrite IH|].
  destruct (Ascii.eqb_spec c "_") as [->|Hu]; [cbn; now rewrite IH|].
  assert (E : forall k, c <> k -> String.eqb (String k "") (String c "") = false).
  { intros k Hk. cbn. destruct (Ascii.eqb_spec k c) as [->|_]; [contradiction|reflexivity]. }
  rewrite !E by assumption.
  cbn [append like_parse app].
  rewrite (proj2 (Ascii.eqb_neq _ _) Hp), (proj2 (Ascii.eqb_neq _ _) Hu), (proj2 (Ascii.eqb_neq _ _) Hb).
  now rewrite IH.
Qed.

Lemma like_pattern_means_contains : forall v, like_parse (like_pattern v) = contains_pattern v.
Proof.
  intro v. unfold like_pattern, contains_pattern.
  change ("%" ++ like_escape v ++ "%") with (String "%" (like_escape v ++ "%")).
  cbn [like_parse Ascii.eqb Bool.eqb]. cbn. rewrite like_parse_escape. reflexivity.
Qed.

Lemma do_like_one_literal : forall v rest, safe_rest rest ->
  lex_string (do_like_lit v ++ rest) = Some (like_pattern v, rest).
Proof.
  intros v rest H. unfold do_like_lit. rewrite quote_seq_is_quote. now apply quote_is_one_literal_l.
Qed.
