(* C01: "every request eventually gets exactly one answer while the database keeps answering", for the whole system
   (workers, promise store, HTTP handlers with retries): the scheduler next_act of model/IngestSched.v is never stuck
   in a reachable state that still owes an answer, each of its steps decreases the variant mu, and when it has
   nothing left to do every push has its answer, every sub-push its result and every worker is empty. *)
From Coq Require Import List NArith ZArith Bool Lia Arith.
From Qryn Require Import model.Ingest model.PushHandler model.IngestSpec model.IngestSched model.IngestFresh proofs.IngestBase proofs.IngestAck
  proofs.IngestSpecProofs proofs.IngestHandler proofs.IngestDrain proofs.IngestLive.
Import ListNotations.

(* ---------------------------------------------------------------- the invariant *)
Record PI (sig : list (kind * nat)) (g : gstate) : Prop := {
  pi_sig : sig_of (svcs g) = sig;
  pi_run : forall s sv, nth_error (svcs g) s = Some sv -> running sv = true;
  pi_cur : forall h i sp k, sub_at (hs g) h i = Some sp -> sp_cur sp = Some k ->
             In (PSub h i k) (LL (svcs g)) \/ in_store (PSub h i k) (store g) = true;
  pi_ready : forall h i sp, sub_at (hs g) h i = Some sp -> sp_result sp = None -> sp_cur sp = None ->
             (sp_used sp < attempts g)%N;
  pi_subs : forall h i sp, sub_at (hs g) h i = Some sp -> routed sig (sp_svc sp) (sp_kind sp) (sp_req sp) = true;
  pi_items : forall h hd it, nth_error (hs g) h = Some hd -> In it (h_items hd) -> item_routed sig it = true
}.

(* ---------------------------------------------------------------- worker steps *)
Lemma sstep_static sv a sv' vs : sstep sv a = Some (sv', vs) ->
  kd sv' = kd sv /\ grp sv' = grp sv /\ (a <> SStop -> running sv' = running sv).
Proof.
  intros H. destruct (sstep_shape _ _ _ _ H) as (_ & K & G). split; [assumption|]. split; [assumption|].
  intros NS. destruct a as [p r sz| |ok| | |ok| |]; cbn in H.
  - destruct (running sv) eqn:Rn; cbn in H.
    + destruct (eff (kd sv) r) as [r'|]; [|discriminate]. destruct (Nat.eqb _ 0); inversion H; subst; cbn; auto.
    + inversion H; subst. auto.
  - inversion H; subst. reflexivity.
  - destruct (_ && _); inversion H; subst. reflexivity.
  - destruct (loop_ready sv && client sv); [|discriminate]. destruct (is_nil (results sv)); inversion H; subst; reflexivity.
  - destruct (inflight sv) as [po|]; [|discriminate]. destruct (p_sent po); inversion H; subst; reflexivity.
  - destruct (inflight sv) as [po|]; [|discriminate]. destruct (p_sent po); cbn in H; inversion H; subst; reflexivity.
  - destruct (is_none (inflight sv)); inversion H; subst. reflexivity.
  - congruence.
Qed.

Lemma sstep_request sv p r sz sv' vs : sstep sv (SRequest p r sz) = Some (sv', vs) ->
  inflight sv' = inflight sv /\ client sv' = client sv /\
  ((exists ok, vs = [VDone p r ok] /\ results sv' = results sv /\ planned sv' = planned sv) \/
   (vs = [] /\ results sv' = results sv ++ [(p, r)] /\ (planned sv = true -> planned sv' = true))).
Proof.
  cbn. destruct (running sv); cbn.
  - destruct (eff (kd sv) r) as [r'|]; [|discriminate]. destruct (Nat.eqb _ 0); intros H; inversion H; subst; cbn.
    + split; [reflexivity|]. split; [reflexivity|]. left. eauto.
    + split; [reflexivity|]. split; [reflexivity|]. right. split; [reflexivity|]. split; [reflexivity|]. intros ->. reflexivity.
  - intros H; inversion H; subst. split; [reflexivity|]. split; [reflexivity|]. left. eauto.
Qed.

Lemma svc_act_frame g s a g' es : svc_act g s a = Some (g', es) ->
  exists sv sv' vs es0, nth_error (svcs g) s = Some sv /\ sstep sv a = Some (sv', vs) /\
    apply_sevs s (kd sv) (store g) vs = (store g', es0) /\
    svcs g' = upd s sv' (svcs g) /\ hs g' = hs g /\ attempts g' = attempts g.
Proof.
  unfold svc_act. destruct (nth_error (svcs g) s) as [sv|]; [|discriminate].
  destruct (sstep sv a) as [[sv' vs]|] eqn:E; [|discriminate].
  destruct (apply_sevs s (kd sv) (store g) vs) as [st' es0] eqn:Ea. intros H; inversion H; subst; clear H. cbn.
  exists sv, sv', vs, es0. auto 10.
Qed.

Lemma svc_act_total g s a sv sv' vs : nth_error (svcs g) s = Some sv -> sstep sv a = Some (sv', vs) ->
  exists g' es, svc_act g s a = Some (g', es).
Proof.
  intros Hs Hst. unfold svc_act. rewrite Hs, Hst. destruct (apply_sevs s (kd sv) (store g) vs) as [st' es0]. eauto.
Qed.

Lemma sig_of_upd l s sv sv' : nth_error l s = Some sv -> kd sv' = kd sv -> grp sv' = grp sv -> sig_of (upd s sv' l) = sig_of l.
Proof.
  revert s; induction l as [|x l IH]; intros [|s] H K G; cbn in *; try discriminate.
  - inversion H; subst. now rewrite K, G.
  - f_equal. eauto.
Qed.

Lemma in_store_mono s k vs st st' es p : apply_sevs s k st vs = (st', es) -> in_store p st = true -> in_store p st' = true.
Proof. intros H X. rewrite (apply_sevs_store _ _ _ _ _ _ H p), X. reflexivity. Qed.

Lemma existsb_pid p l : In p l -> existsb (pid_eqb p) l = true.
Proof. intros H. apply existsb_exists. exists p. split; [assumption|apply pid_eqb_refl]. Qed.

Lemma in_pend_upd l s sv sv' p :
  nth_error l s = Some sv -> (forall r, In (p, r) (pend sv) -> exists r', In (p, r') (pend sv')) ->
  is_psub p = true -> In p (LL l) -> In p (LL (upd s sv' l)).
Proof.
  intros Hs Hk Hp Hin. apply LL_in in Hin as (s0 & sv0 & Hs0 & Hl). apply LL_in.
  destruct (Nat.eq_dec s s0) as [<-|Hne].
  - exists s, sv'. rewrite nth_error_upd_same by (eapply nth_error_some_lt; eauto). split; [reflexivity|].
    rewrite Hs in Hs0. inversion Hs0; subst sv0. apply lives_in in Hl as (_ & r & Hr). apply lives_in. split; [assumption|].
    exact (Hk _ Hr).
  - exists s0, sv0. rewrite nth_error_upd_other by assumption. auto.
Qed.

(* a sub-push promise that is pending or completed stays so *)
Lemma svc_act_live g s a g' es p : svc_act g s a = Some (g', es) -> is_psub p = true ->
  In p (LL (svcs g)) \/ in_store p (store g) = true -> In p (LL (svcs g')) \/ in_store p (store g') = true.
Proof.
  intros Hact Hp [Hin|Hst]; destruct (svc_act_frame _ _ _ _ _ Hact) as (sv & sv' & vs & es0 & Hs & Hstep & Hap & Esv & _ & _).
  2:{ right. eapply in_store_mono; eauto. }
  rewrite Esv. destruct (sstep_shape _ _ _ _ Hstep) as (Sh & _ & _).
  destruct Sh as [R I _|q r sz _ R I _|_ I N R I' _|po _ I S R I' _|po ok _ I S R I' V].
  - left. eapply in_pend_upd; eauto. intros r Hr. exists r. unfold pend in *. now rewrite R, I.
  - left. eapply in_pend_upd; eauto. intros r0 Hr. exists r0. unfold pend in *. rewrite R, I.
    apply in_app_iff in Hr as [Hr|Hr]; apply in_app_iff; [left; apply in_app_iff; auto|auto].
  - left. eapply in_pend_upd; eauto. intros r0 Hr. exists r0. unfold pend in *. rewrite R, I'. rewrite I in Hr. cbn in *.
    now rewrite app_nil_r in Hr.
  - left. eapply in_pend_upd; eauto. intros r0 Hr. exists r0. unfold pend in *. rewrite R, I'. rewrite I in Hr. exact Hr.
  - (* the Do returned: the waiters of the portion go to the store *)
    apply LL_in in Hin as (s0 & sv0 & Hs0 & Hl).
    destruct (Nat.eq_dec s s0) as [<-|Hne].
    + rewrite Hs in Hs0. inversion Hs0; subst sv0. apply lives_in in Hl as (_ & r & Hr). unfold pend in Hr. rewrite I in Hr.
      apply in_app_iff in Hr as [Hr|Hr].
      * left. apply LL_in. exists s, sv'. rewrite nth_error_upd_same by (eapply nth_error_some_lt; eauto). split; [reflexivity|].
        apply lives_in. split; [assumption|]. exists r. unfold pend. rewrite R, I'. now rewrite app_nil_r.
      * right. rewrite (apply_sevs_store _ _ _ _ _ _ Hap p). apply orb_true_iff. right. subst vs. cbn [dones].
        rewrite dones_map, map_map. cbn [fst]. apply existsb_pid. apply in_map_iff. exists (p, r). auto.
    + left. apply LL_in. exists s0, sv0. rewrite nth_error_upd_other by assumption. auto.
Qed.

(* ---------------------------------------------------------------- the invariant is kept *)
Lemma sub_at_upd H h hd hd' h0 i0 : nth_error H h = Some hd ->
  sub_at (upd h hd' H) h0 i0 = if Nat.eqb h0 h then nth_error (h_subs hd') i0 else sub_at H h0 i0.
Proof.
  intros Hh. unfold sub_at. destruct (Nat.eqb h0 h) eqn:E.
  - apply Nat.eqb_eq in E. subst h0. rewrite nth_error_upd_same by (eapply nth_error_some_lt; eauto). reflexivity.
  - apply Nat.eqb_neq in E. rewrite nth_error_upd_other by congruence. reflexivity.
Qed.

Lemma PI_svc_act sig g s a g' es : PI sig g -> a <> SStop -> svc_act g s a = Some (g', es) -> PI sig g'.
Proof.
  intros P NS Hact. destruct (svc_act_frame _ _ _ _ _ Hact) as (sv & sv' & vs & es0 & Hs & Hstep & Hap & Esv & Eh & Ea).
  destruct (sstep_static _ _ _ _ Hstep) as (K & G & R). specialize (R NS).
  constructor.
  - rewrite Esv, (sig_of_upd _ _ _ _ Hs K G). apply (pi_sig _ _ P).
  - intros s0 sv0 H0. rewrite Esv in H0. apply nth_error_upd_cases in H0 as [[_ ->]|[_ H0]].
    + rewrite R. eapply pi_run; eauto.
    + eapply pi_run; eauto.
  - intros h i sp k Hsub Hc. rewrite Eh in Hsub. eapply svc_act_live; eauto. eapply pi_cur; eauto.
  - intros h i sp Hsub. rewrite Eh in Hsub. rewrite Ea. eapply pi_ready; eauto.
  - intros h i sp Hsub. rewrite Eh in Hsub. eapply pi_subs; eauto.
  - intros h hd it Hh. rewrite Eh in Hh. eapply pi_items; eauto.
Qed.

Lemma PI_set_handler sig g h hd hd' :
  PI sig g -> nth_error (hs g) h = Some hd ->
  (forall i sp, nth_error (h_subs hd') i = Some sp ->
     (forall k, sp_cur sp = Some k -> In (PSub h i k) (LL (svcs g)) \/ in_store (PSub h i k) (store g) = true) /\
     (sp_result sp = None -> sp_cur sp = None -> (sp_used sp < attempts g)%N) /\
     routed sig (sp_svc sp) (sp_kind sp) (sp_req sp) = true) ->
  (forall it, In it (h_items hd') -> item_routed sig it = true) ->
  PI sig (set_hs g (upd h hd' (hs g))).
Proof.
  intros P Hh HS HI. constructor; cbn [set_hs svcs store hs attempts].
  - apply (pi_sig _ _ P).
  - apply (pi_run _ _ P).
  - intros h0 i sp k Hsub Hc. rewrite (sub_at_upd _ _ _ _ _ _ Hh) in Hsub. destruct (Nat.eqb h0 h) eqn:E.
    + apply Nat.eqb_eq in E. subst h0. destruct (HS _ _ Hsub) as (A & _ & _). auto.
    + eapply pi_cur; eauto.
  - intros h0 i sp Hsub. rewrite (sub_at_upd _ _ _ _ _ _ Hh) in Hsub. destruct (Nat.eqb h0 h) eqn:E.
    + destruct (HS _ _ Hsub) as (_ & A & _). auto.
    + eapply pi_ready; eauto.
  - intros h0 i sp Hsub. rewrite (sub_at_upd _ _ _ _ _ _ Hh) in Hsub. destruct (Nat.eqb h0 h) eqn:E.
    + destruct (HS _ _ Hsub) as (_ & _ & A). auto.
    + eapply pi_subs; eauto.
  - intros h0 hd0 it H0. apply nth_error_upd_cases in H0 as [[_ ->]|[_ H0]]; [auto|]. eapply pi_items; eauto.
Qed.

Lemma sub_at_some H h i sp : sub_at H h i = Some sp -> exists hd, nth_error H h = Some hd /\ nth_error (h_subs hd) i = Some sp.
Proof. unfold sub_at. destruct (nth_error H h) as [hd|]; [|discriminate]. eauto. Qed.
Lemma sub_at_intro H h i hd sp : nth_error H h = Some hd -> nth_error (h_subs hd) i = Some sp -> sub_at H h i = Some sp.
Proof. unfold sub_at. intros ->. auto. Qed.

(* the facts PI gives about the sub-pushes of one handler *)
Lemma PI_handler sig g h hd : PI sig g -> nth_error (hs g) h = Some hd ->
  forall i sp, nth_error (h_subs hd) i = Some sp ->
     (forall k, sp_cur sp = Some k -> In (PSub h i k) (LL (svcs g)) \/ in_store (PSub h i k) (store g) = true) /\
     (sp_result sp = None -> sp_cur sp = None -> (sp_used sp < attempts g)%N) /\
     routed sig (sp_svc sp) (sp_kind sp) (sp_req sp) = true.
Proof.
  intros P Hh i sp Hi. pose proof (sub_at_intro _ _ _ _ _ Hh Hi) as S.
  split; [|split].
  - intros k Hc. eapply pi_cur; eauto.
  - eapply pi_ready; eauto.
  - eapply pi_subs; eauto.
Qed.

Lemma gstep_PI sig g a g' es : PI sig g -> act_live sig a = true -> gstep g a = Some (g', es) -> PI sig g'.
Proof.
  intros P Hl Hstep. destruct a as [s a|s k n r sz|items|h|h i s|h i|h]; cbn in Hstep.
  - destruct (is_request a); [discriminate|]. eapply PI_svc_act; eauto. intros ->. discriminate.
  - destruct (nth_error (svcs g) s); [|discriminate]. destruct (_ && _); [|discriminate].
    eapply PI_svc_act; eauto. discriminate.
  - inversion Hstep; subst; clear Hstep.
    assert (SA : forall h i, sub_at (hs g ++ [{| h_items := items; h_subs := []; h_answer := None |}]) h i = sub_at (hs g) h i).
    { intros h i. unfold sub_at. destruct (Nat.lt_ge_cases h (length (hs g))) as [L|L].
      - rewrite nth_error_app1 by assumption. reflexivity.
      - rewrite nth_error_app2 by assumption. replace (nth_error (hs g) h) with (@None handler) by (symmetry; apply nth_error_None; assumption).
        destruct (h - length (hs g))%nat as [|[|?]]; cbn; try reflexivity. destruct i; reflexivity. }
    constructor; cbn [set_hs svcs store hs attempts].
    + apply (pi_sig _ _ P).
    + apply (pi_run _ _ P).
    + intros h i sp k Hsub. rewrite SA in Hsub. eapply pi_cur; eauto.
    + intros h i sp Hsub. rewrite SA in Hsub. eapply pi_ready; eauto.
    + intros h i sp Hsub. rewrite SA in Hsub. eapply pi_subs; eauto.
    + intros h hd it Hn Hin. destruct (Nat.lt_ge_cases h (length (hs g))) as [L|L].
      * rewrite nth_error_app1 in Hn by assumption. eapply pi_items; eauto.
      * rewrite nth_error_app2 in Hn by assumption.
        destruct (h - length (hs g))%nat as [|[|?]]; cbn in Hn; try discriminate. inversion Hn; subst. cbn in Hin, Hl.
        rewrite forallb_forall in Hl. auto.
  - destruct (nth_error (hs g) h) as [hd|] eqn:Hh; [|discriminate].
    pose proof (PI_handler _ _ _ _ P Hh) as PH.
    destruct (h_items hd) as [|[c|] rest] eqn:Hit; [discriminate| |].
    + inversion Hstep; subst; clear Hstep. eapply PI_set_handler; eauto; cbn.
      * intros i sp Hi. destruct (Nat.lt_ge_cases i (length (h_subs hd))) as [L|L].
        -- rewrite nth_error_app1 in Hi by assumption. auto.
        -- rewrite nth_error_app2 in Hi by assumption. apply nth_error_In in Hi.
           apply in_map_iff in Hi as ([[[s0 k0] r0] sz0] & <- & Hc). cbn.
           split; [discriminate|]. split.
           ++ destruct (N.eqb (attempts g) 0) eqn:E0; [discriminate|]. intros _ _. apply N.eqb_neq in E0. lia.
           ++ assert (IR : item_routed sig (IChunk c) = true) by (eapply pi_items; eauto; rewrite Hit; left; reflexivity).
              cbn in IR. rewrite forallb_forall in IR. exact (IR _ Hc).
      * intros it Hin. eapply pi_items; eauto. rewrite Hit. right. assumption.
    + destruct (h_answer hd) eqn:Ha; inversion Hstep; subst; clear Hstep; (eapply PI_set_handler; eauto; cbn; try (intros it []); try exact PH).
  - destruct (nth_error (hs g) h) as [hd|] eqn:Hh; [|discriminate].
    destruct (nth_error (h_subs hd) i) as [sp|] eqn:Hi; [|discriminate].
    destruct (is_none (sp_result sp) && is_none (sp_cur sp) && N.ltb (sp_used sp) (attempts g) && may_take g s sp) eqn:Hg; [|discriminate].
    destruct (svc_act g s _) as [[g1 es1]|] eqn:Hact; [|discriminate]. inversion Hstep; subst; clear Hstep.
    assert (P1 : PI sig g1) by (eapply PI_svc_act; eauto; discriminate).
    destruct (svc_act_frame _ _ _ _ _ Hact) as (sv & sv' & vs & es0 & Hs & Hst & Hap & Esv & Eh & Ea).
    assert (Hh1 : nth_error (hs g1) h = Some hd) by (rewrite Eh; assumption).
    pose proof (PI_handler _ _ _ _ P1 Hh1) as PH.
    eapply PI_set_handler; eauto; cbn.
    + intros j x Hj. apply nth_error_upd_cases in Hj as [[<- ->]|[Hne Hj]]; cbn; [|auto].
      split; [|split].
      * intros k Ek. inversion Ek; subst k; clear Ek.
        destruct (sstep_request _ _ _ _ _ _ Hst) as (_ & _ & [(ok & -> & _ & _)|(-> & R & _)]).
        -- right. rewrite (apply_sevs_store _ _ _ _ _ _ Hap). cbn [dones map fst existsb]. rewrite pid_eqb_refl. cbn. apply orb_true_r.
        -- left. rewrite Esv. apply LL_in. exists s, sv'. rewrite nth_error_upd_same by (eapply nth_error_some_lt; eauto).
           split; [reflexivity|]. apply lives_in. split; [reflexivity|]. exists (sp_req sp). unfold pend. rewrite R.
           apply in_app_iff. left. apply in_app_iff. right. left. reflexivity.
      * discriminate.
      * destruct (PH _ _ Hi) as (_ & _ & X). exact X.
    + intros it Hin. eapply pi_items; eauto.
  - destruct (nth_error (hs g) h) as [hd|] eqn:Hh; [|discriminate].
    destruct (nth_error (h_subs hd) i) as [sp|] eqn:Hi; [|discriminate].
    destruct (sp_cur sp) as [k|] eqn:Hcur; [|discriminate].
    destruct (lookup_store (PSub h i k) (store g)) as [[[k0 r0] ok]|] eqn:Hl2; [|discriminate].
    inversion Hstep; subst; clear Hstep. pose proof (PI_handler _ _ _ _ P Hh) as PH.
    eapply PI_set_handler; eauto; cbn.
    + intros j x Hj. apply nth_error_upd_cases in Hj as [[<- ->]|[Hne Hj]]; cbn; [|auto].
      split; [discriminate|]. split.
      * destruct ok; [discriminate|]. destruct (N.ltb (sp_used sp) (attempts g)) eqn:E; [|discriminate].
        intros _ _. apply N.ltb_lt in E. exact E.
      * destruct (PH _ _ Hi) as (_ & _ & X). exact X.
    + intros it Hin. eapply pi_items; eauto.
  - destruct (nth_error (hs g) h) as [hd|] eqn:Hh; [|discriminate].
    destruct (h_items hd) eqn:Hit; [|discriminate]. destruct (h_answer hd) eqn:Ha; [discriminate|].
    destruct (verdict (h_subs hd)) as [ok|] eqn:Hv; [|discriminate]. inversion Hstep; subst; clear Hstep.
    pose proof (PI_handler _ _ _ _ P Hh) as PH. eapply PI_set_handler; eauto; cbn; try (intros it []); try exact PH.
Qed.

Lemma grun_PI sig tr : forall g g' es, PI sig g -> forallb (act_live sig) tr = true -> grun g tr = Some (g', es) -> PI sig g'.
Proof.
  induction tr as [|a tr IH]; intros g g' es P Hl Hrun; cbn in Hrun, Hl.
  - inversion Hrun; subst. assumption.
  - apply andb_true_iff in Hl as [Ha Hl].
    destruct (gstep g a) as [[g1 e1]|] eqn:Es; [|discriminate].
    destruct (grun g1 tr) as [[g2 e2]|] eqn:Er; [|discriminate]. inversion Hrun; subst.
    eapply IH; [|exact Hl|exact Er]. eapply gstep_PI; eauto.
Qed.

Lemma PI_init cfg n : PI (sig_of_cfg cfg) (ginit cfg n).
Proof.
  assert (E : forall l, LL (map (fun c : kind * nat * Z => svc_init (fst (fst c)) (snd (fst c)) (snd c)) l) = []).
  { induction l as [|c l IH]; [reflexivity|]. cbn [map]. rewrite LL_cons, IH. reflexivity. }
  constructor; cbn [ginit svcs store hs attempts].
  - unfold sig_of, sig_of_cfg. rewrite map_map. apply map_ext. intros [[k g] z]. reflexivity.
  - intros s sv Hs. apply nth_error_In in Hs. apply in_map_iff in Hs as (c & <- & _). reflexivity.
  - intros h i sp k H. rewrite sub_at_nil in H. discriminate.
  - intros h i sp H. rewrite sub_at_nil in H. discriminate.
  - intros h i sp H. rewrite sub_at_nil in H. discriminate.
  - intros h hd it H. destruct h; discriminate.
Qed.

Theorem reachable_PI cfg n tr g es :
  grun (ginit cfg n) tr = Some (g, es) -> forallb (act_live (sig_of_cfg cfg)) tr = true -> PI (sig_of_cfg cfg) g.
Proof. intros Hrun Hl. eapply grun_PI; eauto. apply PI_init. Qed.

(* ---------------------------------------------------------------- the variant *)
Lemma list_sum_upd {A} (f : A -> nat) l i x y : nth_error l i = Some x ->
  list_sum (map f (upd i y l)) + f x = list_sum (map f l) + f y.
Proof.
  revert i; induction l as [|a l IH]; intros [|i] H; cbn [nth_error upd map] in *; try discriminate.
  - inversion H; subst. change (f y + list_sum (map f l) + f x = f x + list_sum (map f l) + f y). lia.
  - specialize (IH _ H). change (f a + list_sum (map f (upd i y l)) + f x = f a + list_sum (map f l) + f y). lia.
Qed.

Lemma mu_svc g s sv sv' st : nth_error (svcs g) s = Some sv ->
  mu (set_svcs g (upd s sv' (svcs g)) st) + wm sv = mu g + wm sv'.
Proof.
  intros Hs. unfold mu. cbn [set_svcs svcs hs attempts]. pose proof (list_sum_upd wm _ _ _ sv' Hs). lia.
Qed.

Lemma mu_handler g h hd hd' : nth_error (hs g) h = Some hd ->
  mu (set_hs g (upd h hd' (hs g))) + hm (attempts g) hd = mu g + hm (attempts g) hd'.
Proof.
  intros Hh. unfold mu. cbn [set_hs svcs hs attempts]. pose proof (list_sum_upd (hm (attempts g)) _ _ _ hd' Hh). lia.
Qed.

Lemma svc_next_step db sv sa : running sv = true -> svc_next db sv = Some sa ->
  exists sv' vs, sstep sv sa = Some (sv', vs) /\ wm sv' < wm sv /\ is_request sa = false /\ internal (GSvc 0 sa) = true /\
    (forall ok, sa = SDoReturn ok -> ok = db).
Proof.
  destruct sv as [k g mq c sz res inf cl pl rn]. cbn [running]. intros ->. unfold svc_next; cbn [inflight results planned client].
  destruct inf as [[pc pr [|]]|]; cbn.
  - intros H; inversion H; subst; clear H. cbn. eexists; eexists. split; [reflexivity|]. unfold wm; cbn.
    split; [destruct res, pl, db; cbn; lia|]. split; [reflexivity|]. split; [reflexivity|]. intros ok E. congruence.
  - intros H; inversion H; subst; clear H. cbn. eexists; eexists. split; [reflexivity|]. unfold wm; cbn.
    split; [destruct res, pl; cbn; lia|]. split; [reflexivity|]. split; [reflexivity|]. discriminate.
  - destruct res as [|x res]; cbn; [discriminate|]. destruct pl; cbn.
    + destruct cl; cbn; intros H; inversion H; subst; clear H; cbn; (eexists; eexists; split; [reflexivity|]); unfold wm; cbn;
        (split; [lia|]); (split; [reflexivity|]); (split; [reflexivity|]); discriminate.
    + intros H; inversion H; subst; clear H; cbn. eexists; eexists. split; [reflexivity|]. unfold wm; cbn.
      split; [destruct cl; lia|]. split; [reflexivity|]. split; [reflexivity|]. discriminate.
Qed.

Lemma svc_next_none db sv : svc_next db sv = None -> results sv = [] /\ inflight sv = None.
Proof.
  unfold svc_next. destruct (inflight sv); [discriminate|]. destruct (results sv); [auto|]. cbn.
  destruct (planned sv); cbn; [destruct (client sv)|]; discriminate.
Qed.

Lemma first_svc_some db l : forall s0 a, first_svc db l s0 = Some a ->
  exists s sv sa, a = GSvc (s0 + s) sa /\ nth_error l s = Some sv /\ svc_next (db (s0 + s)%nat) sv = Some sa.
Proof.
  induction l as [|sv l IH]; intros s0 a H; cbn in H; [discriminate|].
  destruct (svc_next (db s0) sv) as [sa|] eqn:E.
  - inversion H; subst. exists 0%nat, sv, sa. rewrite Nat.add_0_r. auto.
  - destruct (IH _ _ H) as (s & sv1 & sa & -> & Hs & Hn). exists (S s), sv1, sa. rewrite <- plus_n_Sm. auto.
Qed.
Lemma first_svc_none db l : forall s0, first_svc db l s0 = None ->
  forall s sv, nth_error l s = Some sv -> results sv = [] /\ inflight sv = None.
Proof.
  induction l as [|sv l IH]; intros s0 H s sv0 Hs; [destruct s; discriminate|]. cbn in H.
  destruct (svc_next (db s0) sv) as [sa|] eqn:E; [discriminate|]. destruct s; cbn in Hs.
  - inversion Hs; subst. eapply svc_next_none; eauto.
  - eapply IH; eauto.
Qed.

Definition quiet_all (l : list svc) : Prop := forall s sv, nth_error l s = Some sv -> results sv = [] /\ inflight sv = None.

Lemma quiet_LL l : quiet_all l -> LL l = [].
Proof.
  induction l as [|sv l IH]; intros Q; [reflexivity|]. rewrite LL_cons, IH.
  - destruct (Q 0%nat sv eq_refl) as [R I]. unfold lives, pend. rewrite R, I. reflexivity.
  - intros s sv0 Hs. exact (Q (S s) sv0 Hs).
Qed.
Lemma quiet_rr g s sv : quiet_all (svcs g) -> nth_error (svcs g) s = Some sv -> rr_pick_ok g s = true.
Proof.
  intros Q Hs. unfold rr_pick_ok. rewrite Hs. apply orb_true_iff. right. apply negb_true_iff.
  apply not_true_is_false. intros H. apply existsb_exists in H as (sv' & Hin & H). apply andb_true_iff in H as [_ H].
  apply In_nth_error in Hin as (s' & Hs'). destruct (Q _ _ Hs') as [_ I]. unfold inserting in H. rewrite I in H. discriminate.
Qed.

Lemma in_store_lookup p st : in_store p st = true -> exists v, lookup_store p st = Some v.
Proof.
  induction st as [|[q v] st IH]; cbn; [discriminate|]. intros H. destruct (pid_eqb p q) eqn:E; [eauto|]. cbn in H. auto.
Qed.

Lemma pick_worker_spec l : forall i0 g k s, pick_worker l i0 g k = Some s ->
  exists j sv, s = (i0 + j)%nat /\ nth_error l j = Some sv /\ grp sv = g /\ kd sv = k.
Proof.
  induction l as [|sv l IH]; intros i0 g k s H; cbn in H; [discriminate|].
  destruct (Nat.eqb (grp sv) g && kind_eqb (kd sv) k) eqn:E.
  - inversion H; subst. apply andb_true_iff in E as [E1 E2]. apply Nat.eqb_eq in E1. apply kind_eqb_eq in E2.
    exists 0%nat, sv. rewrite Nat.add_0_r. auto.
  - destruct (IH _ _ _ _ H) as (j & sv1 & -> & Hj & G & K). exists (S j), sv1. rewrite <- plus_n_Sm. auto.
Qed.
Lemma pick_worker_some l g k : existsb (fun c : kind * nat => Nat.eqb (snd c) g && kind_eqb (fst c) k) (sig_of l) = true ->
  forall i0, exists s, pick_worker l i0 g k = Some s.
Proof.
  induction l as [|sv l IH]; cbn; [discriminate|]. intros H i0.
  destruct (Nat.eqb (grp sv) g && kind_eqb (kd sv) k); [eauto|]. cbn in H. apply IH. exact H.
Qed.

Lemma kind_eqb_refl k : kind_eqb k k = true.
Proof. destruct k; reflexivity. Qed.

Lemma first_sub_some g h l : forall i0 a, first_sub g h i0 l = Some a ->
  exists j sp, nth_error l j = Some sp /\ sub_next g h (i0 + j) sp = Some a.
Proof.
  induction l as [|sp l IH]; intros i0 a H; cbn in H; [discriminate|].
  destruct (sub_next g h i0 sp) as [b|] eqn:E.
  - inversion H; subst. exists 0%nat, sp. rewrite Nat.add_0_r. auto.
  - destruct (IH _ _ H) as (j & sp1 & Hj & Hn). exists (S j), sp1. rewrite <- plus_n_Sm. auto.
Qed.
Lemma first_sub_none g h l : forall i0, first_sub g h i0 l = None ->
  forall j sp, nth_error l j = Some sp -> sub_next g h (i0 + j) sp = None.
Proof.
  induction l as [|sp l IH]; intros i0 H j sp0 Hj; [destruct j; discriminate|]. cbn in H.
  destruct (sub_next g h i0 sp) as [b|] eqn:E; [discriminate|]. destruct j; cbn in Hj.
  - inversion Hj; subst. now rewrite Nat.add_0_r.
  - rewrite <- plus_n_Sm. apply (IH (S i0)); assumption.
Qed.
Lemma first_handler_some g l : forall h0 a, first_handler g h0 l = Some a ->
  exists j hd, nth_error l j = Some hd /\ handler_next g (h0 + j) hd = Some a.
Proof.
  induction l as [|hd l IH]; intros h0 a H; cbn in H; [discriminate|].
  destruct (handler_next g h0 hd) as [b|] eqn:E.
  - inversion H; subst. exists 0%nat, hd. rewrite Nat.add_0_r. auto.
  - destruct (IH _ _ H) as (j & hd1 & Hj & Hn). exists (S j), hd1. rewrite <- plus_n_Sm. auto.
Qed.
Lemma first_handler_none g l : forall h0, first_handler g h0 l = None ->
  forall j hd, nth_error l j = Some hd -> handler_next g (h0 + j) hd = None.
Proof.
  induction l as [|hd l IH]; intros h0 H j hd0 Hj; [destruct j; discriminate|]. cbn in H.
  destruct (handler_next g h0 hd) as [b|] eqn:E; [discriminate|]. destruct j; cbn in Hj.
  - inversion Hj; subst. now rewrite Nat.add_0_r.
  - rewrite <- plus_n_Sm. apply (IH (S h0)); assumption.
Qed.

Lemma verdict_some l : (forall sp, In sp l -> sp_result sp <> None) -> exists ok, verdict l = Some ok.
Proof.
  induction l as [|sp l IH]; intros H; cbn; [eauto|].
  destruct (sp_result sp) as [[|]|] eqn:E.
  - apply IH. intros x Hx. apply H. right. assumption.
  - eauto.
  - exfalso. apply (H sp); [left; reflexivity|assumption].
Qed.

(* a sub-push without a result has a step when every worker is empty *)
Lemma sub_next_routed sig g h i sp : PI sig g -> sub_at (hs g) h i = Some sp -> sp_result sp = None -> sub_next g h i sp <> None.
Proof.
  intros P Hsub Hr. unfold sub_next. rewrite Hr. destruct (sp_cur sp); [discriminate|].
  pose proof (pi_subs _ _ P _ _ _ Hsub) as R. unfold routed in R. apply andb_true_iff in R as [R _].
  rewrite <- (pi_sig _ _ P) in R. destruct (pick_worker_some _ _ _ R 0%nat) as (s & ->). discriminate.
Qed.

Lemma mu_eq g1 g2 : hs g1 = hs g2 -> attempts g1 = attempts g2 -> svcs g1 = svcs g2 -> mu g1 = mu g2.
Proof. unfold mu. intros -> -> ->. reflexivity. Qed.

Lemma wm_request sv p r sz sv' vs : sstep sv (SRequest p r sz) = Some (sv', vs) -> wm sv' <= wm sv + 5.
Proof.
  intros H. destruct (sstep_request _ _ _ _ _ _ H) as (I & C & [(ok & _ & R & Pl)|(_ & R & Pl)]); unfold wm; rewrite I, C, R.
  - rewrite Pl. lia.
  - destruct (results sv) as [|x xs]; cbn [app is_nil].
    + destruct (inflight sv) as [[? ? [|]]|]; cbn; destruct (planned sv'), (client sv); lia.
    + destruct (planned sv) eqn:E; [rewrite (Pl eq_refl); lia|]. destruct (planned sv'); lia.
Qed.

Lemma hm_subs att hd i sp sp' : nth_error (h_subs hd) i = Some sp ->
  hm att {| h_items := h_items hd; h_subs := upd i sp' (h_subs hd); h_answer := h_answer hd |} + 6 * sw att sp =
  hm att hd + 6 * sw att sp'.
Proof.
  intros Hi. unfold hm; cbn [h_items h_subs h_answer]. pose proof (list_sum_upd (sw att) _ _ _ sp' Hi). lia.
Qed.

Lemma list_sum_cons a l : list_sum (a :: l) = a + list_sum l.
Proof. reflexivity. Qed.
Lemma list_sum_nil : list_sum [] = 0.
Proof. reflexivity. Qed.
Ltac norm M := cbn [map iw h_items h_subs h_answer] in M; rewrite ?list_sum_cons, ?list_sum_nil in M; cbv iota beta in M.

Lemma handler_progress sig g h hd a : PI sig g -> quiet_all (svcs g) -> nth_error (hs g) h = Some hd ->
  handler_next g h hd = Some a ->
  internal a = true /\ act_live sig a = true /\ (forall s ok, a <> GSvc s (SDoReturn ok)) /\
  exists g' es, gstep g a = Some (g', es) /\ mu g' < mu g.
Proof.
  intros P Q Hh Hn. unfold handler_next in Hn.
  destruct (h_items hd) as [|it rest] eqn:Hit.
  2:{ (* doParse receives the next item *)
    inversion Hn; subst a; clear Hn. split; [reflexivity|]. split; [reflexivity|]. split; [discriminate|].
    cbn. rewrite Hh, Hit. destruct it as [c|].
    - eexists; eexists. split; [reflexivity|]. pose proof (mu_handler g h hd {| h_items := rest; h_subs := h_subs hd ++ map (mk_sub (attempts g)) c; h_answer := h_answer hd |} Hh) as M.
      unfold hm in M at 1 2. cbn [h_items h_subs h_answer] in M. rewrite Hit in M. norm M.
      rewrite map_app, list_sum_app, map_map in M. lia.
    - destruct (h_answer hd) eqn:Ha.
      + eexists; eexists. split; [reflexivity|]. pose proof (mu_handler g h hd {| h_items := []; h_subs := h_subs hd; h_answer := h_answer hd |} Hh) as M.
        unfold hm in M at 1 2. cbn [h_items h_subs h_answer] in M. rewrite Hit, Ha in M. norm M. lia.
      + eexists; eexists. split; [reflexivity|]. pose proof (mu_handler g h hd {| h_items := []; h_subs := h_subs hd; h_answer := Some false |} Hh) as M.
        unfold hm in M at 1 2. cbn [h_items h_subs h_answer] in M. rewrite Hit, Ha in M. norm M. lia. }
  destruct (first_sub g h 0 (h_subs hd)) as [b|] eqn:Hf.
  - inversion Hn; subst b; clear Hn. destruct (first_sub_some _ _ _ _ _ Hf) as (i & sp & Hi & Hs). cbn in Hs.
    pose proof (PI_handler _ _ _ _ P Hh _ _ Hi) as (Pc & Pr & Prt).
    unfold sub_next in Hs. destruct (sp_result sp) eqn:Hres; [discriminate|]. destruct (sp_cur sp) as [k|] eqn:Hcur.
    + (* return from Get(): the promise is completed, because no worker holds anything *)
      inversion Hs; subst a; clear Hs. split; [reflexivity|]. split; [reflexivity|]. split; [discriminate|].
      destruct (Pc _ eq_refl) as [X|X]; [rewrite (quiet_LL _ Q) in X; destruct X|].
      destruct (in_store_lookup _ _ X) as ([[k0 r0] ok] & L). cbn. rewrite Hh, Hi, Hcur, L.
      eexists; eexists. split; [reflexivity|].
      set (sp' := {| sp_svc := sp_svc sp; sp_kind := sp_kind sp; sp_req := sp_req sp; sp_sz := sp_sz sp; sp_used := sp_used sp; sp_cur := None;
                     sp_result := if ok then Some true else if N.ltb (sp_used sp) (attempts g) then None else Some false |}).
      pose proof (mu_handler g h hd {| h_items := h_items hd; h_subs := upd i sp' (h_subs hd); h_answer := h_answer hd |} Hh) as M.
      pose proof (hm_subs (attempts g) hd i sp sp' Hi) as M2.
      assert (W : sw (attempts g) sp' < sw (attempts g) sp).
      { unfold sw, sp'; cbn. rewrite Hres, Hcur. destruct ok; [lia|]. destruct (N.ltb (sp_used sp) (attempts g)); lia. }
      lia.
    + (* the doPush goroutine starts its next attempt *)
      destruct (pick_worker (svcs g) 0 (sp_svc sp) (sp_kind sp)) as [s|] eqn:Hp; [|discriminate].
      inversion Hs; subst a; clear Hs. split; [reflexivity|]. split; [reflexivity|]. split; [discriminate|].
      destruct (pick_worker_spec _ _ _ _ _ Hp) as (j & sv & -> & Hj & G & K). cbn [Nat.add] in *.
      specialize (Pr eq_refl eq_refl). cbn. rewrite Hh, Hi, Hres, Hcur. cbn [is_none andb].
      assert (E1 : N.ltb (sp_used sp) (attempts g) = true) by (apply N.ltb_lt; assumption).
      assert (E2 : may_take g j sp = true).
      { unfold may_take. rewrite Hj, G, K, Nat.eqb_refl, kind_eqb_refl, (quiet_rr _ _ _ Q Hj). reflexivity. }
      rewrite E1, E2. cbn [andb].
      assert (Hst : exists sv' vs, sstep sv (SRequest (PSub h i (sp_used sp)) (sp_req sp) (sp_sz sp)) = Some (sv', vs)).
      { cbn. rewrite (pi_run _ _ P _ _ Hj). cbn. unfold routed in Prt. apply andb_true_iff in Prt as [_ Prt]. rewrite K.
        destruct (eff (sp_kind sp) (sp_req sp)); [|discriminate]. destruct (Nat.eqb _ 0); eauto. }
      destruct Hst as (sv' & vs & Hst). destruct (svc_act_total g j _ _ _ _ Hj Hst) as (g1 & es1 & Hact). rewrite Hact.
      eexists; eexists. split; [reflexivity|].
      destruct (svc_act_frame _ _ _ _ _ Hact) as (sv0 & sv0' & vs0 & es0 & Hs0 & Hst0 & _ & Esv & Eh & Ea).
      rewrite Hj in Hs0. inversion Hs0; subst sv0. rewrite Hst in Hst0. inversion Hst0; subst sv0' vs0. clear Hs0 Hst0.
      set (sp' := {| sp_svc := sp_svc sp; sp_kind := sp_kind sp; sp_req := sp_req sp; sp_sz := sp_sz sp; sp_used := N.succ (sp_used sp);
                     sp_cur := Some (sp_used sp); sp_result := None |}).
      assert (Hh1 : nth_error (hs g1) h = Some hd) by (rewrite Eh; assumption).
      pose proof (mu_handler g1 h hd {| h_items := h_items hd; h_subs := upd i sp' (h_subs hd); h_answer := h_answer hd |} Hh1) as M.
      rewrite Ea in M. pose proof (hm_subs (attempts g) hd i sp sp' Hi) as M2.
      assert (M3 : mu g1 + wm sv = mu g + wm sv').
      { rewrite (mu_eq g1 (set_svcs g (upd j sv' (svcs g)) (store g))) by (cbn; auto). apply mu_svc. assumption. }
      pose proof (wm_request _ _ _ _ _ _ Hst) as W.
      assert (W2 : sw (attempts g) sp' + 1 = sw (attempts g) sp).
      { unfold sw, sp'; cbn. rewrite Hres, Hcur. rewrite N2Nat.inj_succ. apply N.ltb_lt in E1. lia. }
      lia.
  - (* every sub-push has its result: doParse answers *)
    destruct (h_answer hd) eqn:Ha; [discriminate|]. inversion Hn; subst a; clear Hn.
    split; [reflexivity|]. split; [reflexivity|]. split; [discriminate|].
    assert (V : exists ok, verdict (h_subs hd) = Some ok).
    { apply verdict_some. intros sp Hin Hr. apply In_nth_error in Hin as (i & Hi).
      pose proof (first_sub_none _ _ _ _ Hf _ _ Hi) as X. cbn in X.
      exact (sub_next_routed _ _ _ _ _ P (sub_at_intro _ _ _ _ _ Hh Hi) Hr X). }
    destruct V as (ok & V). cbn. rewrite Hh, Hit, Ha, V. eexists; eexists. split; [reflexivity|].
    pose proof (mu_handler g h hd {| h_items := []; h_subs := h_subs hd; h_answer := Some ok |} Hh) as M.
    unfold hm in M at 1 2. cbn [h_items h_subs h_answer] in M. rewrite Hit, Ha in M. norm M. lia.
Qed.

Lemma internal_live sig a : internal a = true -> act_live sig a = true.
Proof. destruct a as [s a| | | | | |]; cbn; try reflexivity; try discriminate. destruct a; cbn; try reflexivity; discriminate. Qed.

(* ---------------------------------------------------------------- progress *)
Theorem sched_progress sig db g : PI sig g ->
  match next_act db g with
  | Some a => internal a = true /\ act_live sig a = true /\
              (forall s ok, a = GSvc s (SDoReturn ok) -> ok = db g s) /\
              exists g' es, gstep g a = Some (g', es) /\ mu g' < mu g
  | None => all_done g = true
  end.
Proof.
  intros P. unfold next_act. destruct (first_svc (db g) (svcs g) 0) as [a|] eqn:F.
  - destruct (first_svc_some _ _ _ _ F) as (s & sv & sa & -> & Hs & Hn). cbn [Nat.add] in *.
    destruct (svc_next_step _ _ _ (pi_run _ _ P _ _ Hs) Hn) as (sv' & vs & Hst & W & NR & INT & DB).
    assert (I2 : internal (GSvc s sa) = true) by exact INT.
    split; [exact I2|]. split; [apply internal_live; exact I2|]. split.
    + intros s0 ok E. inversion E; subst. apply DB. reflexivity.
    + destruct (svc_act_total g s _ _ _ _ Hs Hst) as (g' & es & Hact). exists g', es. split; [cbn; rewrite NR; exact Hact|].
      destruct (svc_act_frame _ _ _ _ _ Hact) as (sv0 & sv0' & vs0 & es0 & Hs0 & Hst0 & _ & Esv & Eh & Ea).
      rewrite Hs in Hs0. inversion Hs0; subst sv0. rewrite Hst in Hst0. inversion Hst0; subst sv0' vs0.
      rewrite (mu_eq g' (set_svcs g (upd s sv' (svcs g)) (store g))) by (cbn; auto).
      pose proof (mu_svc g s sv sv' (store g) Hs). lia.
  - assert (Q : quiet_all (svcs g)) by (intros s sv Hs; eapply first_svc_none; eauto).
    destruct (first_handler g 0 (hs g)) as [a|] eqn:FH.
    + destruct (first_handler_some _ _ _ _ FH) as (h & hd & Hh & Hn). cbn [Nat.add] in Hn.
      destruct (handler_progress _ _ _ _ _ P Q Hh Hn) as (I1 & I2 & ND & St).
      split; [assumption|]. split; [assumption|]. split; [|assumption]. intros s ok E. exfalso. exact (ND _ _ E).
    + unfold all_done. apply andb_true_iff. split.
      * apply forallb_forall. intros sv Hin. apply In_nth_error in Hin as (s & Hs). destruct (Q _ _ Hs) as [R I].
        unfold svc_quiet. rewrite R, I. reflexivity.
      * apply forallb_forall. intros hd Hin. apply In_nth_error in Hin as (h & Hh).
        pose proof (first_handler_none _ _ _ FH _ _ Hh) as X. cbn [Nat.add] in X. unfold handler_next in X.
        destruct (h_items hd) eqn:Hit; [|discriminate]. destruct (first_sub g h 0 (h_subs hd)) eqn:Hf; [discriminate|].
        destruct (h_answer hd) eqn:Ha; [|discriminate]. unfold handler_done. rewrite Hit, Ha. cbn.
        apply forallb_forall. intros sp Hsp. apply In_nth_error in Hsp as (i & Hi).
        pose proof (first_sub_none _ _ _ _ Hf _ _ Hi) as Y. cbn [Nat.add] in Y.
        destruct (sp_result sp) eqn:Hr; [reflexivity|]. exfalso.
        exact (sub_next_routed _ _ _ _ _ P (sub_at_intro _ _ _ _ _ Hh Hi) Hr Y).
Qed.

Lemma follows_head (db : gstate -> nat -> bool) g a : (forall s ok, a = GSvc s (SDoReturn ok) -> ok = db g s) ->
  match a with GSvc s (SDoReturn ok) => Bool.eqb ok (db g s) | _ => true end = true.
Proof.
  intros H. destruct a as [s a| | | | | |]; try reflexivity. destruct a; try reflexivity.
  rewrite (H _ _ eq_refl). apply eqb_reflx.
Qed.

(* the scheduler, run for mu g steps, answers every push *)
Theorem sched_completes sig db : forall fuel g, PI sig g -> mu g <= fuel ->
  exists g' tr es, run_sched db fuel g = (g', tr, es) /\ grun g tr = Some (g', es) /\ all_done g' = true /\
    forallb internal tr = true /\ follows db g tr = true /\ length tr <= mu g /\ PI sig g'.
Proof.
  induction fuel as [|f IH]; intros g P Hm.
  - exists g, [], []. cbn. pose proof (sched_progress sig db g P) as SP. destruct (next_act db g) as [a|].
    + destruct SP as (_ & _ & _ & g' & es & _ & L). lia.
    + split; [reflexivity|]. split; [reflexivity|]. split; [exact SP|]. split; [reflexivity|]. split; [reflexivity|].
      split; [cbn; lia|exact P].
  - pose proof (sched_progress sig db g P) as SP. cbn [run_sched]. destruct (next_act db g) as [a|].
    + destruct SP as (I1 & I2 & DB & g1 & e1 & Hst & L). rewrite Hst.
      assert (P1 : PI sig g1) by (eapply gstep_PI; eauto).
      destruct (IH g1 P1 ltac:(lia)) as (g2 & tr & e2 & R & Hrun & D & I & F & Len & P2). rewrite R.
      exists g2, (a :: tr), (e1 ++ e2). split; [reflexivity|]. split; [cbn; rewrite Hst, Hrun; reflexivity|].
      split; [assumption|]. split; [cbn; rewrite I1, I; reflexivity|]. split.
      * cbn [follows]. rewrite (follows_head _ _ _ DB), Hst, F. reflexivity.
      * split; [cbn; lia|assumption].
    + exists g, [], []. split; [reflexivity|]. split; [reflexivity|]. split; [exact SP|]. split; [reflexivity|]. split; [reflexivity|].
      split; [cbn; lia|exact P].
Qed.

(* ---------------------------------------------------------------- answered handlers are in the event log *)
Definition InvA (g : gstate) (es : list event) : Prop :=
  forall h hd, nth_error (hs g) h = Some hd -> h_answer hd <> None -> In h (answered es).

Lemma InvA_same g g' es e1 : InvA g es -> hs g' = hs g -> InvA g' (es ++ e1).
Proof. intros H E h hd Hh Ha. rewrite E in Hh. rewrite answered_app. apply in_app_iff. left. eauto. Qed.

Lemma InvA_upd g g' es e1 h hd hd' : InvA g es -> nth_error (hs g) h = Some hd -> hs g' = upd h hd' (hs g) ->
  (h_answer hd' <> None -> h_answer hd <> None \/ In h (answered e1)) -> InvA g' (es ++ e1).
Proof.
  intros H Hh E Ha h0 hd0 H0 A0. rewrite E in H0. rewrite answered_app. apply in_app_iff.
  apply nth_error_upd_cases in H0 as [[<- ->]|[Hne H0]].
  - destruct (Ha A0) as [X|X]; [left; eauto|right; assumption].
  - left. eauto.
Qed.

Lemma gstep_InvA g a g' e1 es : gstep g a = Some (g', e1) -> InvA g es -> InvA g' (es ++ e1).
Proof.
  intros Hstep HI. destruct a as [s a|s k n r sz|items|h|h i s|h i|h]; cbn in Hstep.
  - destruct (is_request a); [discriminate|]. apply svc_act_hs in Hstep as [E _]. eapply InvA_same; eauto.
  - destruct (nth_error (svcs g) s); [|discriminate]. destruct (_ && _); [|discriminate].
    apply svc_act_hs in Hstep as [E _]. eapply InvA_same; eauto.
  - inversion Hstep; subst. rewrite app_nil_r. intros h hd Hh Ha. cbn in Hh.
    destruct (Nat.lt_ge_cases h (length (hs g))) as [L|L].
    + rewrite nth_error_app1 in Hh by assumption. eauto.
    + rewrite nth_error_app2 in Hh by assumption. destruct (h - length (hs g))%nat as [|[|?]]; cbn in Hh; try discriminate.
      inversion Hh; subst. cbn in Ha. congruence.
  - destruct (nth_error (hs g) h) as [hd|] eqn:Hh; [|discriminate].
    destruct (h_items hd) as [|[c|] rest]; [discriminate| |].
    + inversion Hstep; subst. eapply (InvA_upd g _ es _ h hd); [exact HI|exact Hh|reflexivity|cbn; auto].
    + destruct (h_answer hd) eqn:Ha; inversion Hstep; subst.
      * eapply (InvA_upd g _ es _ h hd); [exact HI|exact Hh|reflexivity|cbn; intros _; left; congruence].
      * eapply (InvA_upd g _ es _ h hd); [exact HI|exact Hh|reflexivity|cbn; intros _; right; left; reflexivity].
  - destruct (nth_error (hs g) h) as [hd|] eqn:Hh; [|discriminate].
    destruct (nth_error (h_subs hd) i) as [sp|]; [|discriminate].
    destruct (_ && _); [|discriminate].
    destruct (svc_act g s _) as [[g1 es1]|] eqn:Hact; [|discriminate]. inversion Hstep; subst; clear Hstep.
    destruct (svc_act_hs _ _ _ _ _ Hact) as [Eh _].
    assert (H1 : InvA g1 (es ++ e1)) by (eapply InvA_same; eauto).
    intros h0 hd0 H0 A0. cbn in H0. apply nth_error_upd_cases in H0 as [[<- ->]|[Hne H0]].
    + cbn in A0. apply (H1 h hd); [rewrite Eh; assumption|assumption].
    + eauto.
  - destruct (nth_error (hs g) h) as [hd|] eqn:Hh; [|discriminate].
    destruct (nth_error (h_subs hd) i) as [sp|]; [|discriminate].
    destruct (sp_cur sp); [|discriminate]. destruct (lookup_store _ _) as [[[? ?] ok]|]; [|discriminate].
    inversion Hstep; subst. eapply (InvA_upd g _ es _ h hd); [exact HI|exact Hh|reflexivity|cbn; auto].
  - destruct (nth_error (hs g) h) as [hd|] eqn:Hh; [|discriminate].
    destruct (h_items hd); [|discriminate]. destruct (h_answer hd) eqn:Ha; [discriminate|].
    destruct (verdict _) as [ok|]; [|discriminate]. inversion Hstep; subst.
    eapply (InvA_upd g _ es _ h hd); [exact HI|exact Hh|reflexivity|cbn; intros _; right; left; reflexivity].
Qed.

Lemma grun_InvA tr : forall g g' es0 es, grun g tr = Some (g', es) -> InvA g es0 -> InvA g' (es0 ++ es).
Proof.
  induction tr as [|a tr IH]; intros g g' es0 es Hrun HI; cbn in Hrun.
  - inversion Hrun; subst. now rewrite app_nil_r.
  - destruct (gstep g a) as [[g1 e1]|] eqn:Es; [|discriminate].
    destruct (grun g1 tr) as [[g2 e2]|] eqn:Er; [|discriminate]. inversion Hrun; subst.
    rewrite app_assoc. eapply IH; [exact Er|]. eapply gstep_InvA; eauto.
Qed.

Lemma grun_app tr1 : forall g g1 e1 tr2 g2 e2, grun g tr1 = Some (g1, e1) -> grun g1 tr2 = Some (g2, e2) ->
  grun g (tr1 ++ tr2) = Some (g2, e1 ++ e2).
Proof.
  induction tr1 as [|a tr1 IH]; intros g g1 e1 tr2 g2 e2 H1 H2; cbn in H1 |- *.
  - inversion H1; subst. exact H2.
  - destruct (gstep g a) as [[g' e]|]; [|discriminate]. destruct (grun g' tr1) as [[g'' e']|] eqn:E; [|discriminate].
    inversion H1; subst. rewrite (IH _ _ _ _ _ _ E H2). now rewrite app_assoc.
Qed.

(* ---------------------------------------------------------------- the statement of props/C01.v *)
Theorem every_push_answered_once cfg n tr g es db :
  grun (ginit cfg n) tr = Some (g, es) -> forallb (act_live (sig_of_cfg cfg)) tr = true ->
  exists tr' g' es',
    grun g tr' = Some (g', es') /\ forallb internal tr' = true /\ follows db g tr' = true /\ length tr' <= mu g /\
    all_done g' = true /\ length (hs g') = length (hs g) /\
    forall h, h < length (hs g) -> count_occ Nat.eq_dec (answered (es ++ es')) h = 1.
Proof.
  intros Hrun Hl. pose proof (reachable_PI _ _ _ _ _ Hrun Hl) as P.
  destruct (sched_completes _ db (mu g) g P (le_n _)) as (g' & tr' & es' & _ & Hrun' & D & I & F & Len & _).
  exists tr', g', es'. split; [assumption|]. split; [assumption|]. split; [assumption|]. split; [assumption|]. split; [assumption|].
  pose proof (grun_app _ _ _ _ _ _ _ Hrun Hrun') as Hall.
  assert (I0 : Inv1 (ginit cfg n) []) by (unfold Inv1; cbn; repeat split; try constructor; intros ? []).
  destruct (grun_Inv1 _ _ _ _ _ Hall I0) as (_ & _ & ND & AH). cbn [app] in ND, AH.
  assert (A0 : InvA (ginit cfg n) []) by (intros h hd Hh; destruct h; discriminate).
  pose proof (grun_InvA _ _ _ _ _ Hall A0) as IA. cbn [app] in IA.
  assert (Hlen : length (hs g') = length (hs g)).
  { clear - Hrun' I. revert g Hrun' I. revert es'. induction tr' as [|a t IH]; intros es' g Hr Hi; cbn in Hr.
    - inversion Hr; subst. reflexivity.
    - cbn in Hi. apply andb_true_iff in Hi as [Ha Hi]. destruct (gstep g a) as [[g1 e1]|] eqn:Es; [|discriminate].
      destruct (grun g1 t) as [[g2 e2]|] eqn:Er; [|discriminate]. inversion Hr; subst. rewrite (IH _ _ Er Hi). clear IH Er Hi.
      destruct a as [s a|s k n r sz|items|h|h i s|h i|h]; cbn in Es, Ha; try discriminate.
      + destruct (is_request a); [discriminate|]. apply svc_act_hs in Es as [E _]. now rewrite E.
      + destruct (nth_error (hs g) h) as [hd|]; [|discriminate]. destruct (h_items hd) as [|[c|] rest]; [discriminate| |].
        * inversion Es; subst. cbn. apply length_upd.
        * destruct (h_answer hd); inversion Es; subst; cbn; apply length_upd.
      + destruct (nth_error (hs g) h) as [hd|]; [|discriminate]. destruct (nth_error (h_subs hd) i) as [sp|]; [|discriminate].
        destruct (_ && _); [|discriminate]. destruct (svc_act g s _) as [[g3 es3]|] eqn:Hact; [|discriminate].
        inversion Es; subst. cbn. rewrite length_upd. apply svc_act_hs in Hact as [E _]. now rewrite E.
      + destruct (nth_error (hs g) h) as [hd|]; [|discriminate]. destruct (nth_error (h_subs hd) i) as [sp|]; [|discriminate].
        destruct (sp_cur sp); [|discriminate]. destruct (lookup_store _ _) as [[[? ?] ok]|]; [|discriminate].
        inversion Es; subst. cbn. apply length_upd.
      + destruct (nth_error (hs g) h) as [hd|]; [|discriminate]. destruct (h_items hd); [|discriminate].
        destruct (h_answer hd); [discriminate|]. destruct (verdict _); [|discriminate]. inversion Es; subst. cbn. apply length_upd. }
  split; [assumption|]. intros h Hh. apply NoDup_count_occ'; [assumption|].
  rewrite <- Hlen in Hh. destruct (nth_error (hs g') h) as [hd|] eqn:E; [|apply nth_error_None in E; lia].
  apply (IA h hd E). unfold all_done in D. apply andb_true_iff in D as [_ D]. rewrite forallb_forall in D.
  specialize (D hd (nth_error_In _ _ E)). unfold handler_done in D. apply andb_true_iff in D as [D _].
  apply andb_true_iff in D as [_ D]. destruct (h_answer hd); [discriminate|discriminate].
Qed.

(* ---------------------------------------------------------------- non-vacuity *)
(* the hypotheses are met by a state with an open push, a failed INSERT behind it, a retry to come and a direct
   request waiting in a worker; whether the database then accepts or refuses every INSERT, the scheduler ends with
   the push answered: success in the first case, an error (retries exhausted) in the second *)
Example live_demo :
  let tr := firstn 9 demo_trace in
  forallb (act_live (sig_of_cfg demo_cfg)) tr = true /\
  exists g es, grun (ginit demo_cfg 2) tr = Some (g, es) /\ all_done g = false /\ mu g = 42 /\
    (let '(g1, tr1, es1) := run_sched (fun _ _ => true) (mu g) g in
       all_done g1 = true /\ length tr1 = 15 /\
       In (EAnswer 0 [(KSeries, table_of 4 [5%N]); (KSamples, table_of 5 [1%N; 2%N])] true) es1) /\
    (let '(g2, tr2, es2) := run_sched (fun _ _ => false) (mu g) g in
       all_done g2 = true /\
       In (EAnswer 0 [(KSeries, table_of 4 [5%N]); (KSamples, table_of 5 [1%N; 2%N])] false) es2).
Proof.
  cbv zeta. split; [vm_compute; reflexivity|].
  destruct (grun (ginit demo_cfg 2) (firstn 9 demo_trace)) as [[g es]|] eqn:E; [|vm_compute in E; discriminate].
  exists g, es. split; [reflexivity|]. vm_compute in E. inversion E; subst. clear E.
  split; [vm_compute; reflexivity|]. split; [vm_compute; reflexivity|]. split.
  - vm_compute. split; [reflexivity|]. split; [reflexivity|]. repeat (first [left; reflexivity|right]).
  - vm_compute. split; [reflexivity|]. repeat (first [left; reflexivity|right]).
Qed.
