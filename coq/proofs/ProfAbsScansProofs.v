(* C13's statement for StreamSelectorPlanner.Process since the absent-label fix (ProfSel.prof_selector_abs): the exclusion
   sub-selects read profiles_series_gin between the same date bounds as the indexed part, so every read of the statement is
   bounded by the requested window (extends proofs/ScansProfProofs.v, which covers processIndexed = prof_selector). *)
From Coq Require Import List ZArith NArith String Ascii Bool Lia.
From Qryn Require Import lib.Strs lib.CivilDate model.Sql model.SqlRender model.Logql model.LogqlPlan model.PromSel model.ProfSel model.Scans
  proofs.ScansProofs proofs.ScansPlanProofs proofs.ScansTqProofs proofs.ScansProfProofs.
Import ListNotations.
Open Scope list_scope.

Section PROFABS.
  Variable info : string -> tinfo.
  Variable gin : string.
  Variables from_ns to_ns : Z.
  Hypothesis Hgin : info gin = idx_untyped.
  Let W := prof_win from_ns to_ns.
  Notation Q := (Q info W false).
  Notation good := (good Q).

  Lemma prof_not_rejected_ok s :
    cl_neutral [prof_not_rejected gin from_ns to_ns s] /\ Forall (egood Q) [prof_not_rejected gin from_ns to_ns s].
  Proof.
    split.
    - unfold prof_not_rejected, Eq, cl_neutral. cbn [flat_map]. rewrite conjs_other by (intros l H; discriminate). cbn [app].
      constructor; [|constructor]. apply neutral_b_sound. reflexivity.
    - constructor; [|constructor]. unfold prof_not_rejected, ScansPlanProofs.egood, Eq. cbn [escans flat_map app].
      rewrite !app_nil_r. apply (prof_selector_good info gin from_ns to_ns Hgin).
  Qed.

  Theorem prof_selector_abs_good re_full sels : good (prof_selector_abs re_full gin from_ns to_ns sels).
  Proof.
    unfold prof_selector_abs.
    generalize (prof_selector_good info gin from_ns to_ns Hgin (prof_indexed_sels re_full sels)).
    generalize (prof_selector gin from_ns to_ns (prof_indexed_sels re_full sels)).
    induction (prof_absent_sels re_full sels) as [|s r IH]; intros q Hq; cbn [fold_left]; [exact Hq|].
    apply IH. destruct (prof_not_rejected_ok s) as [Hn Hg]. apply good_and_where; assumption.
  Qed.
End PROFABS.

Theorem prof_selector_abs_scans_bounded info re_full gin from_ns to_ns sels :
  info gin = idx_untyped ->
  Forall (scan_bounded info (prof_win from_ns to_ns)) (scans (prof_selector_abs re_full gin from_ns to_ns sels)).
Proof.
  intros Hi. pose proof (prof_selector_abs_good info gin from_ns to_ns Hi re_full sels) as G.
  apply (from_good _ _ _ _ true) in G. eapply Forall_impl; [|exact G]. intros sc [H|[H _]]; [exact H | discriminate H].
Qed.

Open Scope string_scope.
(* one exclusion: two reads of the index, both bounded *)
Example prof_abs_example :
  List.length (scans (prof_selector_abs (fun _ _ => false) "profiles_series_gin" 1704888000000000000 1704891600000000000
     [{| sl_name := "service_name"; sl_op := MEq; sl_val := "svc" |}; {| sl_name := "region"; sl_op := MNeq; sl_val := "eu" |}])) = 2%nat.
Proof. reflexivity. Qed.
