(* C15 — json.Marshal of the tempo response structs: whatever the field values are, the bytes of the Trace / Search
   handlers are ONE document, namely the envelope around the decoded struct values. *)
From Coq Require Import List NArith ZArith Bool Ascii String Lia.
From Qryn Require Import model.GoFloat model.JsonStream proofs.JsonStreamProofs proofs.GoFloatProofs proofs.JsonSeriesProofs.
Import ListNotations.
Open Scope string_scope.
Open Scope list_scope.

Lemma prep_join : forall xs, prep (join xs) = join (map prep xs).
Proof.
  induction xs as [|x r IH]; [reflexivity|]. destruct r as [|y r'].
  - cbn [map]. rewrite !join_one. reflexivity.
  - cbn [map] in *. rewrite !join_cons2, prep_app. change (TComma :: ?l) with ([TComma] ++ l) at 1.
    rewrite prep_app, IH. reflexivity.
Qed.

Lemma prep_tokensJ : forall d, prep (tokensJ_of d) = tokens_of (sanitize_doc d).
Proof.
  induction d as [|b|s|s|l HF|l HF] using json_ind2; try reflexivity.
  - destruct b; reflexivity.
  - cbn [tokensJ_of sanitize_doc]. rewrite tokens_of_arr.
    change (TArrS :: ?x ++ [TArrE]) with ([TArrS] ++ x ++ [TArrE]) at 1. rewrite !prep_app, prep_join.
    change (prep [TArrS]) with [TArrS]. change (prep [TArrE]) with [TArrE]. cbn [app]. f_equal. f_equal.
    rewrite !map_map. f_equal. apply map_ext_in. intros v Hv. rewrite Forall_forall in HF. apply HF, Hv.
  - cbn [tokensJ_of sanitize_doc]. rewrite tokens_of_obj.
    change (TObjS :: ?x ++ [TObjE]) with ([TObjS] ++ x ++ [TObjE]) at 1. rewrite !prep_app, prep_join.
    change (prep [TObjS]) with [TObjS]. change (prep [TObjE]) with [TObjE]. cbn [app]. f_equal. f_equal.
    rewrite !map_map. f_equal. apply map_ext_in. intros kv Hv. rewrite Forall_forall in HF.
    change (TStrJ (fst kv) :: TColon :: tokensJ_of (snd kv)) with ([TStrJ (fst kv); TColon] ++ tokensJ_of (snd kv)).
    rewrite prep_app, (HF kv Hv). reflexivity.
Qed.

Lemma lexable_tokensJ : forall d, nums_ok d = true -> LX (tokensJ_of d).
Proof.
  induction d as [|b|s|s|l HF|l HF] using json_ind2; intros Hn rest Hl Hc.
  - exact Hl.
  - destruct b; exact Hl.
  - cbn [tokensJ_of app lexable]. cbn [nums_ok] in Hn. rewrite Hn, Hc, Hl. reflexivity.
  - exact Hl.
  - cbn [tokensJ_of]. cbn [app lexable andb]. rewrite <- app_assoc. cbn [app].
    apply lexable_join; [|cbn [lexable andb]; exact Hl|reflexivity].
    cbn [nums_ok] in Hn. rewrite forallb_forall in Hn. rewrite Forall_forall in HF.
    apply Forall_forall. intros x Hx. apply in_map_iff in Hx. destruct Hx as [v [<- Hv]].
    apply (HF v Hv), (Hn v Hv).
  - cbn [tokensJ_of]. cbn [app lexable andb]. rewrite <- app_assoc. cbn [app].
    apply lexable_join; [|cbn [lexable andb]; exact Hl|reflexivity].
    cbn [nums_ok] in Hn. rewrite forallb_forall in Hn. rewrite Forall_forall in HF.
    apply Forall_forall. intros x Hx. apply in_map_iff in Hx. destruct Hx as [kv [<- Hv]].
    intros rest' Hl' Hc'. cbn [app lexable andb].
    apply (HF kv Hv (Hn kv Hv)); assumption.
Qed.

Lemma lexable_marshalled : forall vs rest, forallb nums_ok vs = true -> lexable rest = true -> closes rest = true ->
  lexable (sep_loop' tokensJ_of vs false ++ rest) = true.
Proof.
  intros vs rest Hn Hl Hc. rewrite (sep_loop'_join_gen _ _ tokensJ_of (fun v => v) tokensJ_of) by reflexivity.
  rewrite map_id. apply lexable_join; [|exact Hl|exact Hc].
  apply Forall_forall. intros x Hx. apply in_map_iff in Hx. destruct Hx as [v [<- Hv]].
  apply lexable_tokensJ. rewrite forallb_forall in Hn. apply Hn, Hv.
Qed.

Lemma prep_marshalled : forall vs,
  prep (sep_loop' tokensJ_of vs false) = join (map tokens_of (map sanitize_doc vs)).
Proof.
  intros vs. rewrite prep_sep_loop'. apply (sep_loop'_join_gen _ _ _ sanitize_doc tokens_of). intros v. apply prep_tokensJ.
Qed.

(* Search (both branches): {"traces": [ v1,v2,... ]} *)
Theorem search_marshalled_bytes : forall vs, forallb nums_ok vs = true ->
  parse_bytes (render (enc_search vs)) = Some (doc_search_of (map sanitize_doc vs)).
Proof.
  intros vs Hn. apply parse_bytes_of_prep.
  - unfold enc_search. cbn [app lexable andb all_ws sp is_ws code]. apply lexable_marshalled; [exact Hn|reflexivity|reflexivity].
  - unfold enc_search, doc_search_of. rewrite !prep_app, prep_marshalled.
    rewrite tokens_of_obj. cbn [map]. rewrite join_one. unfold member_toks. cbn [fst snd].
    rewrite tokens_of_arr. cbn [app]. now rewrite <- app_assoc.
Qed.

(* Trace, JSON branch: the raw-literal header with its line breaks, the spans, the footer *)
Theorem trace_marshalled_bytes : forall vs, forallb nums_ok vs = true ->
  parse_bytes (render (enc_trace vs)) = Some (doc_trace_of (map sanitize_doc vs)).
Proof.
  intros vs Hn. apply parse_bytes_of_prep.
  - unfold enc_trace. 
    match goal with |- lexable (?h ++ ?m ++ ?t) = true =>
      assert (Hm : lexable (m ++ t) = true) by (apply lexable_marshalled; [exact Hn|reflexivity|reflexivity]);
      revert Hm; generalize (m ++ t) end.
    intros l Hm. cbn. exact Hm.
  - unfold enc_trace, doc_trace_of. rewrite !prep_app, prep_marshalled.
    match goal with |- prep ?h ++ _ = _ => let h' := eval vm_compute in (prep h) in change (prep h) with h' end.
    match goal with |- _ ++ _ ++ prep ?t = _ => change (prep t) with t end.
    set (J := join (map tokens_of (map sanitize_doc vs))).
    cbn -[J]. rewrite <- !app_assoc. reflexivity.
Qed.

(* ------------------------------------------------------------------------------------------ *)
(* the numbers json.Marshal prints are JSON numbers *)

Lemma gojson_exp_digits_shape : forall x, exists c s, gojson_exp_digits x = String c s /\ all_digit (String c s) = true.
Proof.
  intros x. unfold gojson_exp_digits. destruct ((x <? 0)%Z && (Z.abs x <? 10)%Z); [|apply exp_digits_shape].
  destruct (digits_nonempty (Z.abs x)) as [c [s Hd]]. exists c, s. split; [exact Hd|]. rewrite <- Hd. apply digits_all. lia.
Qed.
Lemma gojson_exp_text_num_ok : forall neg D P, (0 <= D)%Z -> num_ok (gojson_exp_text neg D P) = true.
Proof.
  intros neg D P HD. unfold num_ok, gojson_exp_text.
  set (x := (P + Z.of_nat (String.length (digits D)) - 1)%Z).
  rewrite nrun_app, nrun_app.
  pose proof (mant_run D _ HD (sign_run neg)) as Hm. cbv zeta in Hm.
  destruct (gojson_exp_digits_shape x) as [c [s [Ex Ha]]]. rewrite Ex.
  set (r := nrun (nrun N0 (sign_text neg)) (mant_text (digits D))) in *.
  assert (He : nstep r (ascii_of_N 101) = NE) by (destruct Hm as [->|[->| ->]]; reflexivity).
  assert (Hs : nstep NE (ascii_of_N (if (x <? 0)%Z then 45%N else 43%N)) = NESign) by (destruct (x <? 0)%Z; reflexivity).
  change (nrun r (String (ascii_of_N 101) (String (ascii_of_N (if (x <? 0)%Z then 45%N else 43%N)) (String c s))))
    with (nrun (nstep (nstep r (ascii_of_N 101)) (ascii_of_N (if (x <? 0)%Z then 45%N else 43%N))) (String c s)).
  rewrite He, Hs, (nrun_exp s c NESign Ha); auto.
Qed.
Theorem gojson_float_text_num_ok : forall bits, fl_finite (fl_of_bits bits) = true ->
  num_ok (gojson_float_text (fl_of_bits bits)) = true.
Proof.
  intros bits Hf. pose proof (fl_of_bits_nonneg bits) as Hn. destruct (fl_of_bits bits) as [| s | s | s m e]; try discriminate Hf.
  - apply fixed_text_num_ok. lia.
  - cbn [fl_nonneg] in Hn. apply Z.leb_le in Hn. cbn [gojson_float_text].
    pose proof (shortest_nonneg m e Hn) as H. destruct (shortest m e) as [D P].
    destruct (lt_1e_6 m e || ge_1e21 m e); [apply gojson_exp_text_num_ok|apply fixed_of_dec_num_ok]; exact H.
Qed.

Lemma nums_ok_jslice : forall A (f : A -> json) l, (forall x, nums_ok (f x) = true) -> nums_ok (jslice f l) = true.
Proof.
  intros A f [xs|] H; [|reflexivity]. cbn [jslice nums_ok]. apply forallb_forall. intros v Hv.
  apply in_map_iff in Hv. destruct Hv as [x [<- _]]. apply H.
Qed.
Lemma nums_ok_omit : forall l, (forall k v, In (k, Some v) l -> nums_ok v = true) -> nums_ok (JObj (omit l)) = true.
Proof.
  intros l H. cbn [nums_ok]. apply forallb_forall. intros kv Hkv. unfold omit in Hkv. apply in_flat_map in Hkv.
  destruct Hkv as [[k [v|]] [Hin Hx]]; cbn [snd fst] in Hx; [|destruct Hx].
  destruct Hx as [<-|[]]. cbn [snd]. apply (H k v Hin).
Qed.

Lemma nums_ok_trace_response : forall t, nums_ok (trace_response_val t) = true.
Proof. intros t. cbn [trace_response_val nums_ok forallb snd jint]. rewrite !int_text_num_ok. reflexivity. Qed.

Lemma nums_ok_span_attr : forall a, nums_ok (span_attr_val a) = true.
Proof. reflexivity. Qed.
Lemma nums_ok_span_info : forall s, nums_ok (span_info_val s) = true.
Proof.
  intros s. cbn [span_info_val nums_ok forallb snd]. rewrite (nums_ok_jslice _ span_attr_val _ nums_ok_span_attr). reflexivity.
Qed.
Lemma nums_ok_span_set : forall s, nums_ok (span_set_val s) = true.
Proof.
  intros s. cbn [span_set_val nums_ok forallb snd jint]. rewrite (nums_ok_jslice _ span_info_val _ nums_ok_span_info), int_text_num_ok.
  reflexivity.
Qed.
Lemma nums_ok_trace_info : forall t, fl_finite (fl_of_bits (ti_dur t)) = true -> nums_ok (trace_info_val t) = true.
Proof.
  intros t Hf. cbn [trace_info_val nums_ok forallb snd jfloat].
  rewrite (gojson_float_text_num_ok _ Hf), nums_ok_span_set, (nums_ok_jslice _ span_set_val _ nums_ok_span_set). reflexivity.
Qed.
Lemma nums_ok_omit_b : forall l,
  forallb (fun kv : string * option json => match snd kv with Some v => nums_ok v | None => true end) l = true ->
  nums_ok (JObj (omit l)) = true.
Proof.
  intros l H. apply nums_ok_omit. intros k v Hin. rewrite forallb_forall in H. apply (H _ Hin).
Qed.
Lemma forallb_map_true : forall A (f : A -> json) l, (forall x, nums_ok (f x) = true) -> forallb nums_ok (map f l) = true.
Proof. intros A f l H. apply forallb_forall. intros v Hv. apply in_map_iff in Hv. destruct Hv as [x [<- _]]. apply H. Qed.

Lemma nums_ok_jstatus : forall st, nums_ok (jstatus_val st) = true.
Proof.
  intros st. unfold jstatus_val. apply nums_ok_omit_b. cbn [forallb snd]. unfold nonempty_str, nonzero_int.
  destruct (st_msg st); destruct (st_code st =? 0)%Z; cbn [nums_ok jint]; rewrite ?int_text_num_ok; reflexivity.
Qed.
Lemma nums_ok_jspan : forall s, nums_ok (jspan_val s) = true.
Proof.
  intros s. unfold jspan_val. apply nums_ok_omit_b. cbn [forallb snd keep].
  assert (Ha : nums_ok (JArr (map span_attr_val (js_attrs s))) = true) by (cbn [nums_ok]; apply forallb_map_true; reflexivity).
  assert (He : nums_ok (JArr (map jevent_val (js_events s))) = true).
  { cbn [nums_ok]. apply forallb_map_true. intros e. cbn [jevent_val nums_ok forallb snd jint]. rewrite int_text_num_ok. reflexivity. }
  rewrite Ha, He. cbn [nums_ok jint]. rewrite !int_text_num_ok.
  unfold nonempty_str. destruct (js_parent s); destruct (js_status s) as [st|]; cbn [option_map nums_ok];
    rewrite ?nums_ok_jstatus; reflexivity.
Qed.

(* Search with tags: every list of TraceResponse values *)
Theorem search_tags_bytes : forall ts,
  parse_bytes (render (enc_search (map trace_response_val ts))) =
  Some (doc_search_of (map sanitize_doc (map trace_response_val ts))).
Proof. intros ts. apply search_marshalled_bytes, forallb_map_true, nums_ok_trace_response. Qed.
(* Search with a TraceQL query: every list of TraceInfo values with a finite duration *)
Theorem search_traceql_bytes : forall ts, forallb (fun t => fl_finite (fl_of_bits (ti_dur t))) ts = true ->
  parse_bytes (render (enc_search (map trace_info_val ts))) =
  Some (doc_search_of (map sanitize_doc (map trace_info_val ts))).
Proof.
  intros ts H. apply search_marshalled_bytes. apply forallb_forall. intros v Hv. apply in_map_iff in Hv.
  destruct Hv as [t [<- Ht]]. apply nums_ok_trace_info. rewrite forallb_forall in H. apply H, Ht.
Qed.
(* Trace (JSON): every list of JSONSpan values *)
Theorem trace_spans_bytes : forall ss,
  parse_bytes (render (enc_trace (map jspan_val ss))) = Some (doc_trace_of (map sanitize_doc (map jspan_val ss))).
Proof. intros ss. apply trace_marshalled_bytes, forallb_map_true, nums_ok_jspan. Qed.

(* a whole response written by ONE json.Marshal (TagsV2, ValuesV2): the value itself *)
Theorem marshal_value_bytes : forall v, nums_ok v = true -> parse_bytes (render (tokensJ_of v)) = Some (sanitize_doc v).
Proof.
  intros v Hn. apply parse_bytes_of_prep; [|apply prep_tokensJ].
  rewrite <- (app_nil_r (tokensJ_of v)). apply (lexable_tokensJ v Hn); reflexivity.
Qed.
Lemma nums_ok_tagsv2 : forall xs, nums_ok (tagsv2_val xs) = true.
Proof.
  intros xs. cbn [tagsv2_val nums_ok forallb snd]. rewrite (nums_ok_jslice _ JStr); [reflexivity|reflexivity].
Qed.
Lemma nums_ok_valuesv2 : forall xs, nums_ok (valuesv2_val xs) = true.
Proof.
  intros xs. cbn [valuesv2_val nums_ok forallb snd]. rewrite nums_ok_jslice; [reflexivity|reflexivity].
Qed.
Theorem tagsv2_bytes : forall xs, parse_bytes (render (tokensJ_of (tagsv2_val xs))) = Some (sanitize_doc (tagsv2_val xs)).
Proof. intros xs. apply marshal_value_bytes, nums_ok_tagsv2. Qed.
Theorem valuesv2_bytes : forall xs, parse_bytes (render (tokensJ_of (valuesv2_val xs))) = Some (sanitize_doc (valuesv2_val xs)).
Proof. intros xs. apply marshal_value_bytes, nums_ok_valuesv2. Qed.

(* ------------------------------------------------------------------------------------------ *)
(* the default: branch of SpanToJSONSpan: array / key-value list / unset attribute values *)

Section OvalInd.
  Variable P : oval -> Prop.
  Hypothesis Hs : forall s, P (OStr s).
  Hypothesis Hb : forall b, P (OBool b).
  Hypothesis Hi : forall z, P (OInt z).
  Hypothesis Hd : forall bits, P (ODouble bits).
  Hypothesis Hy : forall s, P (OBytes s).
  Hypothesis Hu : P OUnset.
  Hypothesis Ha : forall vs, Forall P vs -> P (OArr vs).
  Definition okv_all (kv : string * option oval) : Prop := match snd kv with Some x => P x | None => True end.
  Hypothesis Hk : forall kvs, Forall okv_all kvs -> P (OKv kvs).
  Fixpoint oval_ind2 (v : oval) : P v :=
    match v with
    | OStr s => Hs s
    | OBool b => Hb b
    | OInt z => Hi z
    | ODouble bits => Hd bits
    | OBytes s => Hy s
    | OUnset => Hu
    | OArr vs => Ha vs ((fix go (l : list oval) : Forall P l :=
                           match l with
                           | [] => Forall_nil _
                           | x :: r => Forall_cons x (oval_ind2 x) (go r)
                           end) vs)
    | OKv kvs => Hk kvs ((fix go (l : list (string * option oval)) : Forall okv_all l :=
                            match l with
                            | [] => Forall_nil _
                            | kv :: r => @Forall_cons _ okv_all kv r
                                           (match kv as kv0 return okv_all kv0 with
                                            | (_, Some x) => oval_ind2 x
                                            | (_, None) => I
                                            end) (go r)
                            end) kvs)
    end.
End OvalInd.

Lemma nums_ok_olist_val : forall items, forallb nums_ok items = true -> nums_ok (olist_val items) = true.
Proof.
  intros items H. unfold olist_val. destruct items as [|x r]; [reflexivity|].
  cbn [nums_ok forallb snd]. cbn [forallb] in H. rewrite H. reflexivity.
Qed.

Lemma nums_ok_oval_json : forall v, oval_finite v = true -> nums_ok (oval_json v) = true.
Proof.
  induction v as [s|b|z|bits|s| |vs HF|kvs HF] using oval_ind2; intros Hf; try reflexivity.
  - cbn [oval_json nums_ok forallb snd jint]. rewrite int_text_num_ok. reflexivity.
  - cbn [oval_json nums_ok forallb snd jfloat]. cbn [oval_finite] in Hf. rewrite (gojson_float_text_num_ok _ Hf). reflexivity.
  - cbn [oval_json]. cbn [nums_ok forallb snd]. rewrite nums_ok_olist_val; [reflexivity|].
    cbn [oval_finite] in Hf. rewrite forallb_forall in Hf. rewrite Forall_forall in HF.
    apply forallb_forall. intros j Hj. apply in_map_iff in Hj. destruct Hj as [x [<- Hx]].
    cbn [nums_ok forallb snd]. rewrite (HF x Hx (Hf x Hx)). reflexivity.
  - cbn [oval_json]. cbn [nums_ok forallb snd]. rewrite nums_ok_olist_val; [reflexivity|].
    cbn [oval_finite] in Hf. rewrite forallb_forall in Hf. rewrite Forall_forall in HF.
    apply forallb_forall. intros j Hj. apply in_map_iff in Hj. destruct Hj as [[k o] [<- Hx]].
    unfold okv_member. apply nums_ok_omit_b. cbn [forallb snd fst]. 
    assert (Hk : match nonempty_str k with Some v => nums_ok v | None => true end = true)
      by (unfold nonempty_str; destruct k; reflexivity).
    rewrite Hk. specialize (HF _ Hx). specialize (Hf _ Hx). cbn [snd] in HF, Hf.
    destruct o as [x|]; [|reflexivity]. cbn [option_map nums_ok forallb snd]. rewrite (HF Hf). reflexivity.
Qed.

(* the text written for an array / key-value list / unset attribute value is itself ONE JSON document: the field walk
   of the oneof wrapper, whenever no NaN / infinity sits inside; otherwise json.Marshal fails and the text is empty *)
Theorem nested_value_text_bytes : forall v, oval_default v = true -> oval_finite v = true ->
  parse_bytes (oval_text v) = Some (sanitize_doc (oval_json v)).
Proof.
  intros v Hd Hf.
  assert (Ht : oval_text v = render (tokensJ_of (oval_json v))).
  { destruct v; try discriminate Hd; cbn [oval_text]; unfold marshal_text; rewrite Hf; reflexivity. }
  rewrite Ht. apply marshal_value_bytes, nums_ok_oval_json, Hf.
Qed.
Theorem nested_value_text_nonfinite : forall v, oval_default v = true -> oval_finite v = false -> oval_text v = EmptyString.
Proof. intros v Hd Hf. destruct v; try discriminate Hd; cbn [oval_text]; unfold marshal_text; rewrite Hf; reflexivity. Qed.

Definition nested_example : oval :=
  OKv [("k<", Some (OArr [OStr (String (chr 255) "v"); OInt (-5); ODouble 4609434218613702656; OBytes "Ma"; OUnset; OArr []; OKv []]));
       ("", Some (OBool true)); ("novalue", None)].
Example nested_example_text :
  oval_text nested_example =
  "{""KvlistValue"":{""values"":[{""key"":""k\u003c"",""value"":{""Value"":{""ArrayValue"":{""values"":[{""Value"":{""StringValue"":""\ufffdv""}},{""Value"":{""IntValue"":-5}},{""Value"":{""DoubleValue"":1.5}},{""Value"":{""BytesValue"":""TWE=""}},{""Value"":null},{""Value"":{""ArrayValue"":{}}},{""Value"":{""KvlistValue"":{}}}]}}}},{""value"":{""Value"":{""BoolValue"":true}}},{""key"":""novalue""}]}}".
Proof. vm_compute. reflexivity. Qed.
Example nested_example_met : oval_default nested_example = true /\ oval_finite nested_example = true /\
  parse_bytes (oval_text nested_example) = Some (sanitize_doc (oval_json nested_example)).
Proof. vm_compute. repeat split. Qed.
(* 9221120237041090560 = 0x7FF8000000000000, the quiet NaN *)
Example nested_nan_text_empty : oval_text (OArr [OInt 1; OKv [("a", Some (ODouble 9221120237041090560))]]) = EmptyString.
Proof. vm_compute. reflexivity. Qed.
Example unset_text : oval_text OUnset = "null".
Proof. vm_compute. reflexivity. Qed.

Example take_oattrs_old : take_oattrs 2 ["k"; "s"; "v"; "n"; "i"; "-5"; "rest"] = ([("k", OStr "v"); ("n", OInt (-5))], ["rest"]).
Proof. vm_compute. reflexivity. Qed.
Example take_oattrs_new :
  take_oattrs 2 ["k"; "k"; "2"; "in"; "a"; "2"; "u"; ""; "d"; "0"; "p"; "n"; ""; "z"; "u"; ""; "rest"] =
  ([("k", OKv [("in", Some (OArr [OUnset; ODouble 0])); ("p", None)]); ("z", OUnset)], ["rest"]).
Proof. vm_compute. reflexivity. Qed.
