(* C15 — parser soundness, lexer compositionality and the splicing encoders (Series, Trace, Search) *)
From Coq Require Import List NArith ZArith Bool Ascii String Lia.
From Qryn Require Import model.JsonStream proofs.JsonStreamProofs.
Import ListNotations.
Open Scope string_scope.
Open Scope list_scope.

Lemma parse_sound : forall n,
  (forall ts d r, parse_val n ts = Some (d, r) -> ts = tokens_of d ++ r) /\
  (forall ts l r, parse_elems n ts = Some (l, r) -> l <> [] /\ ts = join (map tokens_of l) ++ TArrE :: r) /\
  (forall ts l r, parse_members n ts = Some (l, r) -> l <> [] /\ ts = join (map member_toks l) ++ TObjE :: r).
Proof.
  induction n as [|n [IHv [IHe IHm]]]; [repeat split; intros; discriminate|].
  split; [|split].
  - intros ts d r H. cbn [parse_val] in H.
    destruct ts as [|t ts']; [discriminate H|].
    destruct t; try discriminate H.
    + (* TObjS *)
      destruct ts' as [|t2 ts2].
      * destruct (parse_members n []) as [[l r']|] eqn:E; [|discriminate H].
        destruct (IHm _ _ _ E) as [_ Ht]. exfalso. symmetry in Ht. apply app_eq_nil in Ht.
        destruct Ht as [_ Ht]. discriminate Ht.
      * destruct t2; try (destruct (parse_members n (_ :: ts2)) as [[l r']|] eqn:E; [|discriminate H];
          injection H as <- <-; destruct (IHm _ _ _ E) as [Hne Ht]; rewrite Ht, tokens_of_obj;
          cbn [app]; now rewrite <- app_assoc).
        injection H as <- <-. reflexivity.
    + (* TArrS *)
      destruct ts' as [|t2 ts2].
      * destruct (parse_elems n []) as [[l r']|] eqn:E; [|discriminate H].
        destruct (IHe _ _ _ E) as [_ Ht]. exfalso. symmetry in Ht. apply app_eq_nil in Ht.
        destruct Ht as [_ Ht]. discriminate Ht.
      * destruct t2; try (destruct (parse_elems n (_ :: ts2)) as [[l r']|] eqn:E; [|discriminate H];
          injection H as <- <-; destruct (IHe _ _ _ E) as [Hne Ht]; rewrite Ht, tokens_of_arr;
          cbn [app]; now rewrite <- app_assoc).
        injection H as <- <-. reflexivity.
    + injection H as <- <-. reflexivity.
    + injection H as <- <-. reflexivity.
    + injection H as <- <-. reflexivity.
    + injection H as <- <-. reflexivity.
    + injection H as <- <-. reflexivity.
  - intros ts l r H. cbn [parse_elems] in H.
    destruct (parse_val n ts) as [[v rest]|] eqn:Ev; [|discriminate H].
    pose proof (IHv _ _ _ Ev) as Hts.
    destruct rest as [|t rest']; [discriminate H|].
    destruct t; try discriminate H.
    + (* TArrE *) injection H as <- <-. split; [discriminate|]. cbn [map]. rewrite join_one. exact Hts.
    + (* TComma *)
      destruct (parse_elems n rest') as [[l' r']|] eqn:Ee; [|discriminate H].
      injection H as <- <-. destruct (IHe _ _ _ Ee) as [Hne Hr]. split; [discriminate|].
      destruct l' as [|v2 l2]; [congruence|]. cbn [map] in *. rewrite join_cons2, <- app_assoc. cbn [app].
      now rewrite <- Hr.
  - intros ts l r H. cbn [parse_members] in H.
    destruct ts as [|t1 ts1]; [discriminate H|]. destruct t1; try discriminate H.
    destruct ts1 as [|t2 ts2]; [discriminate H|]. destruct t2; try discriminate H.
    destruct (parse_val n ts2) as [[v rest]|] eqn:Ev; [|discriminate H].
    pose proof (IHv _ _ _ Ev) as Hts.
    destruct rest as [|t rest']; [discriminate H|].
    destruct t; try discriminate H.
    + (* TObjE *) injection H as <- <-. split; [discriminate|]. cbn [map]. rewrite join_one.
      unfold member_toks. cbn [fst snd app]. now rewrite Hts.
    + (* TComma *)
      destruct (parse_members n rest') as [[l' r']|] eqn:Em; [|discriminate H].
      injection H as <- <-. destruct (IHm _ _ _ Em) as [Hne Hr]. split; [discriminate|].
      destruct l' as [|kv2 l2]; [congruence|]. cbn [map] in *. rewrite join_cons2.
      unfold member_toks at 1. cbn [fst snd app]. rewrite <- app_assoc. cbn [app]. now rewrite Hts, <- Hr.
Qed.

Corollary parse_iff : forall ts d, parse ts = Some d <-> prep ts = tokens_of d.
Proof.
  intros ts d. split.
  - unfold parse. intros H. destruct (parse_val _ (prep ts)) as [[d' r]|] eqn:E; [|discriminate H].
    destruct r; [|discriminate H]. injection H as ->.
    destruct (parse_sound (S (List.length (prep ts)))) as [Hv _]. rewrite (Hv _ _ _ E). apply app_nil_r.
  - intros H. unfold parse. rewrite H. rewrite <- (app_nil_r (tokens_of d)) at 2.
    rewrite (parse_val_tokens_of d _ [] (Nat.le_trans _ _ _ (size_le_length d) (Nat.le_succ_diag_r _))).
    reflexivity.
Qed.

(* ------------------------------------------------------------------------------------------ *)
(* the lexer is compositional: reading a ++ b = reading a, then reading b, when b does not start
   with a number character *)

Lemma push_inv : forall y o x r', push y o = Some (x, r') -> exists x1, o = Some (x1, r') /\ x = (y ++ x1)%string.
Proof. intros y [[x1 q]|] x r' H; [|discriminate H]. cbn in H. injection H as <- <-. eauto. Qed.

Lemma lex_str_app : forall n s x r' b, String.length s <= n ->
  lex_str s = Some (x, r') -> lex_str (s ++ b)%string = Some (x, (r' ++ b)%string).
Proof.
  induction n as [|n IH]; intros s x r' b Hn H.
  - destruct s; [discriminate H|cbn in Hn; lia].
  - destruct s as [|c r]; [discriminate H|]. cbn [String.length] in Hn.
    assert (K : forall y q, String.length q <= n -> push y (lex_str q) = Some (x, r') ->
                push y (lex_str (q ++ b)%string) = Some (x, (r' ++ b)%string)).
    { intros y q Hq Hp. destruct (push_inv _ _ _ _ Hp) as [x1 [E ->]]. now rewrite (IH q x1 r' b Hq E). }
    cbn [append]. cbn [lex_str] in H |- *.
    destruct (code c =? 34)%N; [injection H as <- <-; reflexivity|].
    destruct (code c =? 92)%N.
    + destruct r as [|e r1]; [discriminate H|]. cbn [String.length] in Hn. cbn [append].
      destruct ((code e =? 34)%N || (code e =? 92)%N || (code e =? 47)%N); [apply K; [lia|exact H]|].
      destruct (code e =? 98)%N; [apply K; [lia|exact H]|].
      destruct (code e =? 102)%N; [apply K; [lia|exact H]|].
      destruct (code e =? 110)%N; [apply K; [lia|exact H]|].
      destruct (code e =? 114)%N; [apply K; [lia|exact H]|].
      destruct (code e =? 116)%N; [apply K; [lia|exact H]|].
      destruct (code e =? 117)%N; [|discriminate H].
      destruct r1 as [|h1 [|h2 [|h3 [|h4 r2]]]]; try discriminate H. cbn [String.length] in Hn. cbn [append].
      destruct (hex4 h1 h2 h3 h4) as [cp|]; [|discriminate H].
      destruct (is_hi_sur cp).
      * destruct r2 as [|b0 [|u0 r2']].
        -- destruct (push_inv _ _ _ _ H) as [x1 [E _]]. discriminate E.
        -- (* one character left: it is the closing quote *)
           destruct (push_inv _ _ _ _ H) as [x1 [E ->]].
           assert (Hq : (code b0 =? 92)%N = false).
           { destruct (code b0 =? 92)%N eqn:Eb; [|reflexivity]. apply N.eqb_eq, code_inj in Eb. subst b0.
             vm_compute in E. discriminate E. }
           pose proof (IH (String b0 EmptyString) x1 r' b ltac:(cbn; lia) E) as E'.
           cbn [append] in E' |- *. destruct b as [|u0 b'].
           ++ rewrite E'. reflexivity.
           ++ rewrite Hq. cbn [andb]. rewrite E'. reflexivity.
        -- cbn [String.length] in Hn. cbn [append].
           destruct ((code b0 =? 92)%N && (code u0 =? 117)%N).
           ++ destruct r2' as [|g1 [|g2 [|g3 [|g4 r3]]]]; try discriminate H. cbn [String.length] in Hn. cbn [append].
              destruct (hex4 g1 g2 g3 g4) as [lo|]; [|discriminate H].
              destruct (is_lo_sur lo); [apply K; [lia|exact H]|].
              apply (K _ (String b0 (String u0 (String g1 (String g2 (String g3 (String g4 r3))))))); [cbn; lia|exact H].
           ++ apply (K _ (String b0 (String u0 r2'))); [cbn; lia|exact H].
      * destruct (is_lo_sur cp); apply K; try lia; exact H.
    + destruct (code c <? 32)%N; [discriminate H|]. apply K; [lia|exact H].
Qed.

Lemma span_num_app2 : forall a n r' b, span_num a = (n, r') -> delim_start b = true ->
  span_num (a ++ b)%string = (n, (r' ++ b)%string).
Proof.
  induction a as [|c a IH]; intros n r' b H Hb.
  - cbn in H. injection H as <- <-. cbn [append]. destruct b as [|d b]; [reflexivity|].
    cbn [delim_start] in Hb. apply negb_true_iff in Hb. cbn [span_num]. now rewrite Hb.
  - cbn [append span_num] in *. destruct (is_numch c).
    + destruct (span_num a) as [x y] eqn:E. injection H as <- <-. now rewrite (IH x y b eq_refl Hb).
    + injection H as <- <-. reflexivity.
Qed.

Lemma strip_prefix_app : forall p a r b, strip_prefix p a = Some r -> strip_prefix p (a ++ b)%string = Some (r ++ b)%string.
Proof.
  induction p as [|x p IH]; intros a r b H.
  - cbn in *. now injection H as <-.
  - destruct a as [|y a]; [discriminate H|]. cbn [strip_prefix append] in *.
    destruct (Ascii.eqb x y); [now apply IH|discriminate H].
Qed.
Lemma strip_prefix_inv : forall p a r, strip_prefix p a = Some r -> a = (p ++ r)%string.
Proof.
  induction p as [|x p IH]; intros a r H.
  - cbn in *. now injection H as <-.
  - destruct a as [|y a]; [discriminate H|]. cbn [strip_prefix] in H.
    destruct (Ascii.eqb_spec x y) as [->|]; [|discriminate H]. cbn [append]. f_equal. now apply IH.
Qed.

Lemma tcons_inv : forall t o l, tcons t o = Some l -> exists l', o = Some l' /\ l = t :: l'.
Proof. intros t [l'|] l H; [|discriminate H]. cbn in H. injection H as <-. eauto. Qed.

Lemma lex_mono : forall f s l, lex f s = Some l -> forall k, lex (f + k) s = Some l.
Proof.
  induction f as [|f IH]; intros s l H k; [discriminate H|].
  cbn [Nat.add]. cbn [lex] in H |- *. destruct s as [|c r]; [exact H|].
  assert (K : forall t q, tcons t (lex f q) = Some l -> tcons t (lex (f + k) q) = Some l).
  { intros t q Hq. destruct (tcons_inv _ _ _ Hq) as [l' [E ->]]. now rewrite (IH q l' E k). }
  destruct (is_ws c); [now apply IH|].
  destruct (code c =? 123)%N; [now apply K|]. destruct (code c =? 125)%N; [now apply K|].
  destruct (code c =? 91)%N; [now apply K|]. destruct (code c =? 93)%N; [now apply K|].
  destruct (code c =? 44)%N; [now apply K|]. destruct (code c =? 58)%N; [now apply K|].
  destruct (code c =? 34)%N.
  { destruct (lex_str r) as [[x r']|]; [now apply K|discriminate H]. }
  destruct (is_numch c).
  { destruct (span_num (String c r)) as [a b]. destruct (num_ok a); [now apply K|discriminate H]. }
  destruct (strip_prefix "true" (String c r)); [now apply K|].
  destruct (strip_prefix "false" (String c r)); [now apply K|].
  destruct (strip_prefix "null" (String c r)); [now apply K|discriminate H].
Qed.

Lemma lex_app : forall f a ta, lex (S f) a = Some ta ->
  forall g b tb, lex g b = Some tb -> delim_start b = true -> lex (f + g) (a ++ b)%string = Some (ta ++ tb).
Proof.
  induction f as [f IH] using lt_wf_ind. intros a ta H g b tb Hb Hd.
  destruct a as [|c r].
  - cbn in H. injection H as <-. cbn [append app]. rewrite Nat.add_comm. now apply lex_mono.
  - cbn [append]. cbn [lex] in H.
    assert (K : forall t q, tcons t (lex f q) = Some ta ->
                exists f0, f = S f0 /\ tcons t (lex (f0 + g) (q ++ b)%string) = Some (ta ++ tb)).
    { intros t q Hq. destruct (tcons_inv _ _ _ Hq) as [l' [E ->]]. destruct f as [|f0]; [discriminate E|].
      exists f0. split; [reflexivity|]. now rewrite (IH f0 (Nat.lt_succ_diag_r _) q l' E g b tb Hb Hd). }
    assert (W : forall q, lex f q = Some ta -> exists f0, f = S f0 /\ lex (f0 + g) (q ++ b)%string = Some (ta ++ tb)).
    { intros q E. destruct f as [|f0]; [discriminate E|]. exists f0. split; [reflexivity|].
      exact (IH f0 (Nat.lt_succ_diag_r _) q ta E g b tb Hb Hd). }
    destruct (is_ws c) eqn:Ews.
    { destruct (W r H) as [f0 [-> E]]. cbn [Nat.add lex]. now rewrite Ews. }
    destruct (code c =? 123)%N eqn:E123.
    { destruct (K _ _ H) as [f0 [-> E]]. cbn [Nat.add lex]. now rewrite Ews, E123. }
    destruct (code c =? 125)%N eqn:E125.
    { destruct (K _ _ H) as [f0 [-> E]]. cbn [Nat.add lex]. now rewrite Ews, E123, E125. }
    destruct (code c =? 91)%N eqn:E91.
    { destruct (K _ _ H) as [f0 [-> E]]. cbn [Nat.add lex]. now rewrite Ews, E123, E125, E91. }
    destruct (code c =? 93)%N eqn:E93.
    { destruct (K _ _ H) as [f0 [-> E]]. cbn [Nat.add lex]. now rewrite Ews, E123, E125, E91, E93. }
    destruct (code c =? 44)%N eqn:E44.
    { destruct (K _ _ H) as [f0 [-> E]]. cbn [Nat.add lex]. now rewrite Ews, E123, E125, E91, E93, E44. }
    destruct (code c =? 58)%N eqn:E58.
    { destruct (K _ _ H) as [f0 [-> E]]. cbn [Nat.add lex]. now rewrite Ews, E123, E125, E91, E93, E44, E58. }
    destruct (code c =? 34)%N eqn:E34.
    { destruct (lex_str r) as [[x r']|] eqn:E; [|discriminate H].
      destruct (K _ _ H) as [f0 [-> E']]. cbn [Nat.add lex].
      rewrite Ews, E123, E125, E91, E93, E44, E58, E34, (lex_str_app _ r x r' b (le_n _) E). exact E'. }
    destruct (is_numch c) eqn:Enum.
    { destruct (span_num (String c r)) as [n r'] eqn:E.
      destruct (num_ok n) eqn:En; [|discriminate H].
      destruct (K _ _ H) as [f0 [-> E']]. cbn [Nat.add lex].
      rewrite Ews, E123, E125, E91, E93, E44, E58, E34, Enum.
      change (String c (r ++ b)%string) with ((String c r ++ b)%string). rewrite (span_num_app2 _ n r' b E Hd), En.
      exact E'. }
    destruct (strip_prefix "true" (String c r)) as [q|] eqn:E1.
    { destruct (K _ _ H) as [f0 [-> E']]. cbn [Nat.add lex].
      rewrite Ews, E123, E125, E91, E93, E44, E58, E34, Enum.
      change (String c (r ++ b)%string) with ((String c r ++ b)%string). rewrite (strip_prefix_app _ _ q b E1). exact E'. }
    destruct (strip_prefix "false" (String c r)) as [q|] eqn:E2.
    { destruct (K _ _ H) as [f0 [-> E']]. cbn [Nat.add lex].
      rewrite Ews, E123, E125, E91, E93, E44, E58, E34, Enum.
      change (String c (r ++ b)%string) with ((String c r ++ b)%string).
      rewrite (strip_prefix_inv _ _ _ E2), sapp_assoc.
      change (strip_prefix "true" ("false" ++ (q ++ b))%string) with (@None string).
      change (strip_prefix "false" ("false" ++ (q ++ b))%string) with (Some (q ++ b)%string).
      exact E'. }
    destruct (strip_prefix "null" (String c r)) as [q|] eqn:E3; [|discriminate H].
    destruct (K _ _ H) as [f0 [-> E']]. cbn [Nat.add lex].
    rewrite Ews, E123, E125, E91, E93, E44, E58, E34, Enum.
    change (String c (r ++ b)%string) with ((String c r ++ b)%string).
    rewrite (strip_prefix_inv _ _ _ E3), sapp_assoc.
    change (strip_prefix "true" ("null" ++ (q ++ b))%string) with (@None string).
    change (strip_prefix "false" ("null" ++ (q ++ b))%string) with (@None string).
    change (strip_prefix "null" ("null" ++ (q ++ b))%string) with (Some (q ++ b)%string).
    exact E'.
Qed.

Theorem lex_bytes_app : forall a b ta tb, lex_bytes a = Some ta -> lex_bytes b = Some tb -> delim_start b = true ->
  lex_bytes (a ++ b)%string = Some (ta ++ tb).
Proof.
  intros a b ta tb Ha Hb Hd. unfold lex_bytes in *. rewrite slength_app.
  replace (S (String.length a + String.length b)) with (String.length a + S (String.length b)) by lia.
  exact (lex_app _ a ta Ha _ b tb Hb Hd).
Qed.

(* ------------------------------------------------------------------------------------------ *)
(* splicing: hand-written chunks around pieces that are JSON values themselves (stored label
   documents, json.Marshal output) *)

Definition piece_ok (x : string) (d : json) : Prop := parse_bytes x = Some d /\ delim_start x = true.

Lemma piece_lex : forall x d, piece_ok x d -> exists tx, lex_bytes x = Some tx /\ prep tx = tokens_of d /\ x <> EmptyString.
Proof.
  intros x d [Hp Hd]. unfold parse_bytes in Hp. destruct (lex_bytes x) as [tx|] eqn:E; [|discriminate Hp].
  exists tx. split; [reflexivity|]. split; [now apply parse_iff|].
  intros ->. vm_compute in E. injection E as <-. vm_compute in Hp. discriminate Hp.
Qed.

Lemma delim_start_app : forall x r, x <> EmptyString -> delim_start x = true -> delim_start (x ++ r)%string = true.
Proof. intros [|c x] r Hne H; [congruence|exact H]. Qed.

Lemma bytes_loop_true_delim : forall xs post, delim_start post = true ->
  delim_start (bytes_loop xs true ++ post)%string = true.
Proof. intros [|x r] post H; [exact H|reflexivity]. Qed.

Lemma lex_tail : forall xs ds post tpost, lex_bytes post = Some tpost -> delim_start post = true ->
  Forall2 piece_ok xs ds ->
  exists T, lex_bytes (bytes_loop xs true ++ post)%string = Some T /\
            prep T = flat_map (fun d => TComma :: tokens_of d) ds ++ prep tpost.
Proof.
  intros xs ds post tpost Hpost Hd HF. induction HF as [|x d xs ds Hx HF IH].
  - exists tpost. split; [exact Hpost|reflexivity].
  - destruct IH as [T [HT HpT]]. destruct (piece_lex x d Hx) as [tx [Hlx [Hpx Hne]]].
    cbn [bytes_loop]. rewrite !sapp_assoc.
    assert (H1 : lex_bytes (x ++ bytes_loop xs true ++ post)%string = Some (tx ++ T)).
    { apply lex_bytes_app; [exact Hlx|exact HT|]. apply bytes_loop_true_delim, Hd. }
    exists ([TComma] ++ tx ++ T). split.
    + apply (lex_bytes_app "," _ [TComma] (tx ++ T)); [reflexivity|exact H1|].
      apply delim_start_app; [exact Hne|apply Hx].
    + rewrite !prep_app, Hpx, HpT. cbn [flat_map app]. now rewrite <- app_assoc.
Qed.

Theorem spliced_lex : forall pre post tpre tpost xs ds,
  lex_bytes pre = Some tpre -> lex_bytes post = Some tpost -> delim_start post = true ->
  Forall2 piece_ok xs ds ->
  exists T, lex_bytes (pre ++ bytes_loop xs false ++ post)%string = Some T /\
            prep T = prep tpre ++ join (map tokens_of ds) ++ prep tpost.
Proof.
  intros pre post tpre tpost xs ds Hpre Hpost Hd HF. destruct HF as [|x d xs ds Hx HF].
  - exists (tpre ++ tpost). split; [|now rewrite prep_app].
    cbn [bytes_loop append]. apply lex_bytes_app; assumption.
  - destruct (lex_tail xs ds post tpost Hpost Hd HF) as [T [HT HpT]].
    destruct (piece_lex x d Hx) as [tx [Hlx [Hpx Hne]]].
    exists (tpre ++ tx ++ T). split.
    + cbn [bytes_loop append]. rewrite sapp_assoc. apply lex_bytes_app; [exact Hpre| |].
      * apply lex_bytes_app; [exact Hlx|exact HT|]. apply bytes_loop_true_delim, Hd.
      * apply delim_start_app; [exact Hne|apply Hx].
    + rewrite !prep_app, Hpx, HpT. cbn [map]. rewrite join_flat.
      rewrite <- !app_assoc. do 2 f_equal.
      rewrite flat_map_concat_map, <- map_map, <- flat_map_concat_map. reflexivity.
Qed.

Lemma spliced_parse : forall pre post tpre tpost xs ds doc,
  lex_bytes pre = Some tpre -> lex_bytes post = Some tpost -> delim_start post = true ->
  Forall2 piece_ok xs ds ->
  prep tpre ++ join (map tokens_of ds) ++ prep tpost = tokens_of doc ->
  parse_bytes (pre ++ bytes_loop xs false ++ post)%string = Some doc.
Proof.
  intros pre post tpre tpost xs ds doc Hpre Hpost Hd HF Hdoc.
  destruct (spliced_lex pre post tpre tpost xs ds Hpre Hpost Hd HF) as [T [HT HpT]].
  unfold parse_bytes. rewrite HT. apply parse_iff. now rewrite HpT.
Qed.

Theorem series_bytes : forall xs ds, Forall2 piece_ok xs ds ->
  parse_bytes (enc_series_bytes xs) = Some (doc_series_of ds).
Proof.
  intros xs ds HF. unfold enc_series_bytes.
  eapply (spliced_parse _ "]}" _ _ xs ds); [vm_compute; reflexivity|vm_compute; reflexivity|reflexivity|exact HF|].
  unfold doc_series_of. rewrite tokens_of_obj. cbn [map]. rewrite join_cons2, join_one. unfold member_toks.
  cbn [fst snd]. rewrite tokens_of_arr. cbn [tokens_of prep strip filter map is_ws_tok negb norm_tok app].
  now rewrite <- !app_assoc.
Qed.

Theorem search_bytes : forall xs ds, Forall2 piece_ok xs ds ->
  parse_bytes (enc_search_bytes xs) = Some (doc_search_of ds).
Proof.
  intros xs ds HF. unfold enc_search_bytes.
  eapply (spliced_parse _ "]}" _ _ xs ds); [vm_compute; reflexivity|vm_compute; reflexivity|reflexivity|exact HF|].
  unfold doc_search_of. rewrite tokens_of_obj. cbn [map]. rewrite join_one. unfold member_toks.
  cbn [fst snd]. rewrite tokens_of_arr. cbn [tokens_of prep strip filter map is_ws_tok negb norm_tok app].
  now rewrite <- !app_assoc.
Qed.

Theorem trace_bytes : forall xs ds, Forall2 piece_ok xs ds ->
  parse_bytes (enc_trace_bytes xs) = Some (doc_trace_of ds).
Proof.
  intros xs ds HF. unfold enc_trace_bytes.
  eapply (spliced_parse _ "]}]}]}" _ _ xs ds); [vm_compute; reflexivity|vm_compute; reflexivity|reflexivity|exact HF|].
  unfold doc_trace_of.
  repeat (rewrite ?tokens_of_obj, ?tokens_of_arr; cbn [map]; rewrite ?join_cons2, ?join_one; unfold member_toks; cbn [fst snd]).
  cbn [tokens_of prep strip filter map is_ws_tok negb norm_tok app].
  repeat (rewrite <- !app_assoc; cbn [app]). reflexivity.
Qed.

(* ------------------------------------------------------------------------------------------ *)
(* converse of one_object_per_fingerprint: if no fingerprint gets two objects, equal fingerprints
   were contiguous in the input *)
Lemma dedup_in_conv : forall l x, In x l -> In x (dedup_adj l).
Proof.
  induction l as [|f r IH]; intros x H; [exact H|]. cbn [dedup_adj].
  destruct H as [<-|H].
  - destruct (dedup_adj r) as [|h t]; [now left|]. destruct (N.eqb_spec f h) as [->|E]; now left.
  - specialize (IH x H). destruct (dedup_adj r) as [|h t]; [destruct IH|].
    destruct (N.eqb f h); [exact IH|now right].
Qed.
Lemma nodup_dedup_tail : forall f r, NoDup (dedup_adj (f :: r)) -> NoDup (dedup_adj r).
Proof.
  intros f r H. cbn [dedup_adj] in H. destruct (dedup_adj r) as [|h t]; [constructor|].
  destruct (N.eqb f h); [exact H|]. now inversion H.
Qed.
Lemma dedup_dup : forall f q, dedup_adj (f :: f :: q) = dedup_adj (f :: q).
Proof.
  intros f q. destruct (dedup_hd f q) as [t Ht]. change (dedup_adj (f :: f :: q)) with
    (match dedup_adj (f :: q) with h :: t => if N.eqb f h then h :: t else f :: h :: t | [] => [f] end).
  rewrite Ht, N.eqb_refl. reflexivity.
Qed.
Lemma nodup_dedup_head : forall f r, NoDup (dedup_adj (f :: r)) -> In f r -> exists r', r = f :: r'.
Proof.
  intros f [|y r'] H Hin; [destruct Hin|]. destruct (N.eqb_spec f y) as [->|E]; [eauto|]. exfalso.
  destruct (dedup_hd y r') as [t Ht]. cbn [dedup_adj] in H. cbn [dedup_adj] in Ht. rewrite Ht in H.
  destruct (N.eqb_spec f y) as [|_]; [contradiction|]. inversion H as [|? ? Hn _]; subst. apply Hn.
  rewrite <- Ht. apply (dedup_in_conv (y :: r') f Hin).
Qed.
Lemma nodup_dedup_between : forall f b c, NoDup (dedup_adj (f :: b ++ f :: c)) -> forall x, In x b -> x = f.
Proof.
  intros f. induction b as [|y b IH]; intros c H x Hx; [destruct Hx|].
  destruct (nodup_dedup_head f ((y :: b) ++ f :: c) H) as [r' Hr].
  { apply in_or_app. right. now left. }
  cbn [app] in Hr. injection Hr as -> _. cbn [app] in H. rewrite dedup_dup in H.
  destruct Hx as [<-|Hx]; [reflexivity|]. exact (IH c H x Hx).
Qed.
Lemma nodup_dedup_contiguous : forall l, NoDup (dedup_adj l) -> fps_contiguous l.
Proof.
  induction l as [|g r IH]; intros H a f b c E x Hx.
  - destruct a; discriminate E.
  - destruct a as [|a0 a].
    + cbn [app] in E. injection E as -> ->. exact (nodup_dedup_between f b c H x Hx).
    + cbn [app] in E. injection E as -> ->. exact (IH (nodup_dedup_tail _ _ H) a f b c eq_refl x Hx).
Qed.
Theorem one_object_iff_contiguous : forall es, NoDup (heads es) <-> fps_contiguous (map e_fp es).
Proof.
  intros es. rewrite heads_dedup. split; [apply nodup_dedup_contiguous|apply NoDup_dedup_adj].
Qed.
