(* Proofs about model/Labels.v, GoQuote.v, LabelJson.v (property C04). *)
From Coq Require Import List ZArith Lia Permutation String Ascii Bool.
From Qryn Require Import model.GoQuote model.LabelJson model.Fingerprint model.Labels proofs.FingerprintProofs proofs.Utf8Proofs.
Import ListNotations.
Open Scope Z_scope.

(* ------------------------------------------------------------------ protocol independence *)
Lemma filter_perm {A} (f : A -> bool) l1 l2 : Permutation l1 l2 -> Permutation (filter f l1) (filter f l2).
Proof.
  induction 1 as [|x l1 l2 HP IH|x y l|l1 l2 l3 HP1 IH1 HP2 IH2]; cbn [filter].
  - constructor.
  - destruct (f x); [constructor|]; assumption.
  - destruct (f x), (f y); try apply Permutation_refl. apply perm_swap.
  - eapply Permutation_trans; eassumption.
Qed.

Lemma on_entries_labels_perm ttl l1 l2 :
  Permutation l1 l2 -> Permutation (on_entries_labels ttl l1) (on_entries_labels ttl l2).
Proof. intros H. unfold on_entries_labels. destruct (ttl =? 0); [now apply filter_perm|assumption]. Qed.

Lemma proto_labels_sanitize p sent : proto_labels p sent = sanitize sent.
Proof. destruct p; reflexivity. Qed.

Lemma series_fp_independent ch64 h128 fin p1 p2 ttl sent1 sent2 :
  Permutation sent1 sent2 ->
  series_fp ch64 h128 fin p1 ttl sent1 = series_fp ch64 h128 fin p2 ttl sent2.
Proof.
  intros H. unfold series_fp. apply fingerprint_perm. apply on_entries_labels_perm.
  rewrite !proto_labels_sanitize. unfold sanitize. now apply Permutation_map.
Qed.

(* ------------------------------------------------------------------ bytes *)
Lemma chr_byte c : chr (byte c) = c.
Proof. unfold chr, byte. rewrite N2Z.id. apply ascii_N_embedding. Qed.

Lemma byte_range c : 0 <= byte c < 256.
Proof.
  unfold byte. pose proof (N_ascii_bounded c) as H. lia.
Qed.

Lemma byte_inj c k : byte c = k -> c = chr k.
Proof. intros <-. symmetry. apply chr_byte. Qed.

Lemma skip_ws_nonws c r : is_ws (byte c) = false -> skip_ws (String c r) = String c r.
Proof. intros H. cbn [skip_ws]. now rewrite H. Qed.

Lemma append_assoc (a b c : string) : append (append a b) c = append a (append b c).
Proof. induction a as [|x a IH]; cbn [append]; [reflexivity|now rewrite IH]. Qed.

Lemma length_append (a b : string) : String.length (append a b) = (String.length a + String.length b)%nat.
Proof. induction a as [|x a IH]; cbn [append String.length]; [reflexivity|now rewrite IH]. Qed.

(* ------------------------------------------------------------------ one string literal *)
Lemma parse_str_unfold f c r :
  parse_str (S f) (String c r) =
    let b := byte c in
    if b =? 34 then Some (EmptyString, r)
    else if b =? 92 then
      match r with
      | EmptyString => None
      | String e r2 =>
        match simple_escape (byte e) with
        | Some ch => omap (prepend (str1 ch)) (parse_str f r2)
        | None =>
          if byte e =? 117 then
            match hex4 r2 with
            | None => None
            | Some (cp, r3) =>
              if in_rng 55296 56319 cp then
                match r3 with
                | String b1 (String u1 r4) =>
                  if (byte b1 =? 92) && (byte u1 =? 117) then
                    match hex4 r4 with
                    | Some (lo, r5) =>
                      if in_rng 56320 57343 lo
                      then omap (prepend (encode_rune (65536 + (cp - 55296) * 1024 + (lo - 56320)))) (parse_str f r5)
                      else None
                    | None => None
                    end
                  else None
                | _ => None
                end
              else if in_rng 56320 57343 cp then None
              else omap (prepend (encode_rune cp)) (parse_str f r3)
            end
          else None
        end
      end
    else if b <? 32 then None
    else if b <? 128 then omap (prepend (str1 c)) (parse_str f r)
    else match decode_rune (String c r) with
         | Some (_, w) => omap (prepend (stake w (String c r))) (parse_str f (sdrop w (String c r)))
         | None => None
         end.
Proof. reflexivity. Qed.

Lemma byte_bs : byte bs = 92. Proof. reflexivity. Qed.
Lemma byte_dq : byte dq = 34. Proof. reflexivity. Qed.

(* a backslash followed by e, where the two-character escape denotes ch *)
Lemma parse_str_simple_esc f e ch rest :
  simple_escape (byte e) = Some ch ->
  parse_str (S f) (String bs (String e rest)) = omap (prepend (str1 ch)) (parse_str f rest).
Proof.
  intros H. rewrite parse_str_unfold. cbv zeta. rewrite byte_bs.
  change (92 =? 34) with false. change (92 =? 92) with true. cbv iota. now rewrite H.
Qed.

Lemma esc_denotes c k e : byte c = k -> simple_escape (byte e) = Some (chr k) -> simple_escape (byte e) = Some c.
Proof. intros <- H. now rewrite H, chr_byte. Qed.

Lemma parse_str_esc_ascii c f rest :
  json_safe_byte (byte c) = true ->
  parse_str (S f) (append (esc_ascii c) rest) = omap (prepend (str1 c)) (parse_str f rest).
Proof.
  intros Hs. unfold esc_ascii. pose proof (byte_range c) as Hr.
  remember (byte c) as b eqn:Hb. symmetry in Hb.
  destruct ((b =? 34) || (b =? 92)) eqn:E1.
  - (* quote or backslash: \c *)
    cbn [append str1]. apply parse_str_simple_esc.
    apply orb_true_iff in E1. destruct E1 as [E|E]; apply Z.eqb_eq in E; subst b.
    + apply (esc_denotes c 34 c E). rewrite E. reflexivity.
    + apply (esc_denotes c 92 c E). rewrite E. reflexivity.
  - apply orb_false_iff in E1. destruct E1 as [E34 E92].
    destruct (in_rng 32 126 b) eqn:E2.
    + (* printable: verbatim *)
      cbn [append str1]. rewrite parse_str_unfold. cbv zeta. rewrite Hb, E34, E92.
      unfold in_rng in E2. apply andb_true_iff in E2. destruct E2 as [Ea Eb].
      apply Z.leb_le in Ea. apply Z.leb_le in Eb.
      replace (b <? 32) with false by (symmetry; apply Z.ltb_ge; lia).
      replace (b <? 128) with true by (symmetry; apply Z.ltb_lt; lia). reflexivity.
    + (* control characters: only 8 9 10 12 13 are safe *)
      unfold json_safe_byte in Hs. rewrite E2 in Hs. cbn [orb] in Hs.
      destruct (b =? 7) eqn:E7; [apply Z.eqb_eq in E7; rewrite E7 in Hs; discriminate Hs|].
      destruct (b =? 8) eqn:E8.
      { cbn [append]. apply parse_str_simple_esc. apply Z.eqb_eq in E8. subst b. apply (esc_denotes c 8 _ E8). reflexivity. }
      destruct (b =? 12) eqn:E12.
      { cbn [append]. apply parse_str_simple_esc. apply Z.eqb_eq in E12. subst b. apply (esc_denotes c 12 _ E12). reflexivity. }
      destruct (b =? 10) eqn:E10.
      { cbn [append]. apply parse_str_simple_esc. apply Z.eqb_eq in E10. subst b. apply (esc_denotes c 10 _ E10). reflexivity. }
      destruct (b =? 13) eqn:E13.
      { cbn [append]. apply parse_str_simple_esc. apply Z.eqb_eq in E13. subst b. apply (esc_denotes c 13 _ E13). reflexivity. }
      destruct (b =? 9) eqn:E9.
      { cbn [append]. apply parse_str_simple_esc. apply Z.eqb_eq in E9. subst b. apply (esc_denotes c 9 _ E9). reflexivity. }
      cbn [orb] in Hs. discriminate Hs.
Qed.

Lemma safe_byte_lt128 b : json_safe_byte b = true -> b <? 128 = true.
Proof.
  unfold json_safe_byte, in_rng. intros H. apply Z.ltb_lt.
  repeat (apply orb_true_iff in H; destruct H as [H|H]); try (apply Z.eqb_eq in H; lia).
  apply andb_true_iff in H. destruct H as [_ H]. apply Z.leb_le in H. lia.
Qed.

Lemma quote_body_safe_cons ip c v :
  json_safe_byte (byte c) = true ->
  quote_body ip 0 (String c v) = append (esc_ascii c) (quote_body ip 0 v).
Proof. intros H. cbn [quote_body]. now rewrite (safe_byte_lt128 _ H). Qed.

Lemma parse_str_quote_body ip v : json_safe v = true ->
  forall fuel rest, (String.length v < fuel)%nat ->
  parse_str fuel (append (quote_body ip 0 v) (String dq rest)) = Some (v, rest).
Proof.
  induction v as [|c v IH]; intros Hs fuel rest Hf.
  - destruct fuel as [|f]; [cbn in Hf; lia|]. cbn [quote_body append].
    rewrite parse_str_unfold. cbv zeta. rewrite byte_dq. reflexivity.
  - cbn [json_safe] in Hs. apply andb_true_iff in Hs. destruct Hs as [Hc Hv].
    destruct fuel as [|f]; [cbn in Hf; lia|].
    rewrite (quote_body_safe_cons ip c v Hc), append_assoc.
    rewrite (parse_str_esc_ascii c f _ Hc).
    rewrite (IH Hv f rest) by (cbn [String.length] in Hf; lia). reflexivity.
Qed.

Lemma esc_ascii_nonempty c : (1 <= String.length (esc_ascii c))%nat.
Proof.
  unfold esc_ascii.
  repeat match goal with |- context [if ?x then _ else _] => destruct x end; cbn [String.length str1]; lia.
Qed.

Lemma quote_body_safe_length ip v : json_safe v = true ->
  (String.length v <= String.length (quote_body ip 0 v))%nat.
Proof.
  induction v as [|c v IH]; intros Hs; [cbn; lia|].
  cbn [json_safe] in Hs. apply andb_true_iff in Hs. destruct Hs as [Hc Hv].
  rewrite (quote_body_safe_cons ip c v Hc), length_append. cbn [String.length].
  pose proof (esc_ascii_nonempty c). specialize (IH Hv). lia.
Qed.

(* a quoted literal followed by anything: what the reader sees after the opening quote *)
Lemma go_quote_append ip v rest :
  append (go_quote ip v) rest = String dq (append (quote_body ip 0 v) (String dq rest)).
Proof. unfold go_quote. cbn [append]. now rewrite append_assoc. Qed.

Lemma parse_str_after_quote ip v rest : json_safe v = true ->
  parse_str (S (String.length (append (quote_body ip 0 v) (String dq rest))))
            (append (quote_body ip 0 v) (String dq rest)) = Some (v, rest).
Proof.
  intros Hs. apply parse_str_quote_body; [assumption|].
  rewrite length_append. pose proof (quote_body_safe_length ip v Hs). lia.
Qed.

(* ------------------------------------------------------------------ the exact class: multi-byte runes *)
Lemma qb_skip ip : forall k s, quote_body ip k s = quote_body ip 0 (sdrop k s).
Proof.
  induction k as [|k IH]; intros s; [destruct s; reflexivity|].
  destruct s as [|c r]; [reflexivity|]. cbn [quote_body sdrop]. apply IH.
Qed.

Lemma ok_skip ip : forall k s, json_ok_str ip k s = json_ok_str ip 0 (sdrop k s).
Proof.
  induction k as [|k IH]; intros s; [destruct s; reflexivity|].
  destruct s as [|c r]; [reflexivity|]. cbn [json_ok_str sdrop]. apply IH.
Qed.

(* the two ways a non-empty string of the class starts *)
Lemma ok_str_cases ip c r : json_ok_str ip 0 (String c r) = true ->
  (json_safe_byte (byte c) = true /\ json_ok_str ip 0 r = true /\
   quote_body ip 0 (String c r) = append (esc_ascii c) (quote_body ip 0 r)) \/
  (exists rn w p v', 128 <= byte c /\ rune_at c r rn w p v' /\ (isprint_or_bmp ip rn = true) /\
   json_ok_str ip 0 v' = true /\ quote_body ip 0 (String c r) = append (esc_rune ip rn p) (quote_body ip 0 v')).
Proof.
  intros H. cbn [json_ok_str] in H. destruct (byte c <? 128) eqn:E.
  - left. apply andb_true_iff in H. destruct H as [H1 H2]. split; [assumption|]. split; [assumption|].
    now apply quote_body_safe_cons.
  - right. apply Z.ltb_ge in E. destruct (decode_rune (String c r)) as [[rn w]|] eqn:D; [|discriminate H].
    apply andb_true_iff in H. destruct H as [H1 H2].
    destruct (decode_rune_multibyte c r rn w E D) as [p [v' R]].
    exists rn, w, p, v'. split; [assumption|]. split; [assumption|]. split; [exact H1|]. split.
    + rewrite ok_skip in H2. now rewrite (ra_drop_tail _ _ _ _ _ _ R) in H2.
    + cbn [quote_body]. replace (byte c <? 128) with false by (symmetry; apply Z.ltb_ge; lia).
      rewrite D. rewrite (ra_take _ _ _ _ _ _ R). f_equal.
      rewrite qb_skip. now rewrite (ra_drop_tail _ _ _ _ _ _ R).
Qed.

Lemma byte_u : byte "u" = 117. Proof. reflexivity. Qed.

(* reading back one escaped multi-byte rune *)
Lemma parse_str_esc_rune ip c r rn w p v' f t :
  128 <= byte c -> rune_at c r rn w p v' -> isprint_or_bmp ip rn = true ->
  parse_str (S f) (append (esc_rune ip rn p) t) = omap (prepend p) (parse_str f t).
Proof.
  intros Hc R Hk. unfold esc_rune. unfold isprint_or_bmp in Hk.
  destruct (ra_again _ _ _ _ _ _ R t) as [A1 [A2 A3]].
  destruct (ip rn) eqn:Ep.
  - (* printable: the raw bytes *)
    destruct (ra_head _ _ _ _ _ _ R) as [q Hq]. rewrite Hq in *. cbn [append] in *.
    rewrite parse_str_unfold. cbv zeta.
    replace (byte c =? 34) with false by (symmetry; apply Z.eqb_neq; lia).
    replace (byte c =? 92) with false by (symmetry; apply Z.eqb_neq; lia).
    replace (byte c <? 32) with false by (symmetry; apply Z.ltb_ge; lia).
    replace (byte c <? 128) with false by (symmetry; apply Z.ltb_ge; lia).
    rewrite A1, A2, A3. reflexivity.
  - (* not printable, below U+10000: \uXXXX *)
    cbn [orb] in Hk. rewrite Hk. apply Z.ltb_lt in Hk.
    destruct (ra_bmp _ _ _ _ _ _ R Hk) as [B1 [B2 B3]].
    cbn [append]. rewrite parse_str_unfold. cbv zeta. rewrite byte_bs.
    change (92 =? 34) with false. change (92 =? 92) with true. cbv iota.
    rewrite byte_u. change (simple_escape 117) with (@None ascii). cbv iota. change (117 =? 117) with true. cbv iota.
    rewrite hex4_hexn by lia.
    replace (in_rng 55296 56319 rn) with false by (symmetry; unfold in_rng; apply andb_false_iff; rewrite Z.leb_gt, Z.leb_gt; lia).
    replace (in_rng 56320 57343 rn) with false by (symmetry; unfold in_rng; apply andb_false_iff; rewrite Z.leb_gt, Z.leb_gt; lia).
    now rewrite B1.
Qed.

Lemma parse_str_quote_body_ok ip : forall n v, (String.length v <= n)%nat -> json_ok_str ip 0 v = true ->
  forall fuel rest, (String.length v < fuel)%nat ->
  parse_str fuel (append (quote_body ip 0 v) (String dq rest)) = Some (v, rest).
Proof.
  induction n as [|n IH]; intros v Hn Hok fuel rest Hf.
  - destruct v; [|cbn in Hn; lia]. destruct fuel as [|f]; [cbn in Hf; lia|].
    cbn [quote_body append]. rewrite parse_str_unfold. cbv zeta. rewrite byte_dq. reflexivity.
  - destruct v as [|c r].
    + destruct fuel as [|f]; [cbn in Hf; lia|].
      cbn [quote_body append]. rewrite parse_str_unfold. cbv zeta. rewrite byte_dq. reflexivity.
    + destruct fuel as [|f]; [cbn in Hf; lia|]. cbn [String.length] in Hn, Hf.
      destruct (ok_str_cases ip c r Hok) as [[Hc [Hr Hq]]|[rn [w [p [v' [Hc [R [Hk [Hv' Hq]]]]]]]]].
      * rewrite Hq, append_assoc, (parse_str_esc_ascii c f _ Hc).
        rewrite (IH r) by (assumption || lia). reflexivity.
      * rewrite Hq, append_assoc, (parse_str_esc_rune ip c r rn w p v' f _ Hc R Hk).
        pose proof (ra_len _ _ _ _ _ _ R) as Hl. cbn [String.length] in Hl.
        rewrite (IH v') by (assumption || lia). cbn [omap prepend fst snd].
        now rewrite (ra_split _ _ _ _ _ _ R).
Qed.

(* the quoted form is never shorter than the string *)
Lemma rune_at_plen c r rn w p v' : rune_at c r rn w p v' ->
  (String.length (String c r) = String.length p + String.length v')%nat.
Proof. intros R. rewrite (ra_split _ _ _ _ _ _ R). apply length_append. Qed.

Lemma hexn_length k r : String.length (hexn k r) = k.
Proof.
  revert r. induction k as [|k IH]; intros r; [reflexivity|].
  cbn [hexn]. rewrite length_append, IH. cbn. lia.
Qed.

Lemma rune_at_pmax c r rn w p v' : 128 <= byte c -> rune_at c r rn w p v' -> rn < 65536 -> (String.length p <= 3)%nat.
Proof.
  intros Hc R Hlt. destruct (ra_bmp _ _ _ _ _ _ R Hlt) as [B1 _]. rewrite <- B1. unfold encode_rune.
  destruct (rn <? 128); [cbn; lia|]. destruct (rn <? 2048); [cbn; lia|].
  destruct (rn <? 65536) eqn:E; [cbn; lia|]. apply Z.ltb_ge in E. lia.
Qed.

Lemma quote_body_ok_length ip : forall n v, (String.length v <= n)%nat -> json_ok_str ip 0 v = true ->
  (String.length v <= String.length (quote_body ip 0 v))%nat.
Proof.
  induction n as [|n IH]; intros v Hn Hok.
  - destruct v; [cbn; lia|cbn in Hn; lia].
  - destruct v as [|c r]; [cbn; lia|]. cbn [String.length] in Hn.
    destruct (ok_str_cases ip c r Hok) as [[Hc [Hr Hq]]|[rn [w [p [v' [Hc [R [Hk [Hv' Hq]]]]]]]]].
    + rewrite Hq, length_append. cbn [String.length].
      pose proof (esc_ascii_nonempty c). specialize (IH r ltac:(lia) Hr). lia.
    + rewrite Hq, length_append, (rune_at_plen _ _ _ _ _ _ R).
      pose proof (ra_len _ _ _ _ _ _ R) as Hl. cbn [String.length] in Hl.
      specialize (IH v' ltac:(lia) Hv').
      assert (String.length p <= String.length (esc_rune ip rn p))%nat; [|lia].
      unfold esc_rune. unfold isprint_or_bmp in Hk. destruct (ip rn); [lia|]. cbn [orb] in Hk. rewrite Hk.
      apply Z.ltb_lt in Hk. pose proof (rune_at_pmax _ _ _ _ _ _ Hc R Hk).
      cbn [String.length]. rewrite hexn_length. lia.
Qed.

Lemma parse_str_after_quote_ok ip v rest : json_ok_str ip 0 v = true ->
  parse_str (S (String.length (append (quote_body ip 0 v) (String dq rest))))
            (append (quote_body ip 0 v) (String dq rest)) = Some (v, rest).
Proof.
  intros Hs. apply (parse_str_quote_body_ok ip (String.length v)); [lia|assumption|].
  rewrite length_append. pose proof (quote_body_ok_length ip _ v (le_n _) Hs). lia.
Qed.

(* ------------------------------------------------------------------ members *)
Definition pair_ok (ip : Z -> bool) (l : label) : bool := json_ok_str ip 0 (fst l) && json_ok_str ip 0 (snd l).

Lemma enc_pair_append ip l tail :
  append (enc_pair_q ip l) tail =
  String dq (append (quote_body ip 0 (fst l)) (String dq (String ":"
    (String dq (append (quote_body ip 0 (snd l)) (String dq tail)))))).
Proof.
  unfold enc_pair_q. rewrite append_assoc, go_quote_append. cbn [append]. now rewrite go_quote_append.
Qed.

(* one member followed by [tail]: the reader gets the pair and stands at [tail] *)
Lemma parse_members_step ip l tail f : pair_ok ip l = true ->
  parse_members (S f) (append (enc_pair_q ip l) tail) =
    match skip_ws tail with
    | String d r5 =>
      if byte d =? 44 then omap (cons l) (parse_members f r5)
      else if byte d =? 125 then match skip_ws r5 with EmptyString => Some [l] | _ => None end
      else None
    | EmptyString => None
    end.
Proof.
  intros Hs. unfold pair_ok in Hs. apply andb_true_iff in Hs. destruct Hs as [Hk Hv].
  destruct l as [k v]. cbn [fst snd] in *.
  rewrite enc_pair_append. cbn [fst snd].
  cbn [parse_members]. rewrite (skip_ws_nonws dq) by reflexivity. rewrite byte_dq. change (34 =? 34) with true. cbv iota.
  rewrite (parse_str_after_quote_ok ip k _ Hk).
  rewrite (skip_ws_nonws ":"%char) by reflexivity. change (byte ":" =? 58) with true. cbv iota.
  rewrite (skip_ws_nonws dq) by reflexivity. rewrite byte_dq. change (34 =? 34) with true. cbv iota.
  rewrite (parse_str_after_quote_ok ip v _ Hv). reflexivity.
Qed.

Lemma enc_join_cons2 ip l m r :
  enc_join_q ip (l :: m :: r) = append (enc_pair_q ip l) (String "," (enc_join_q ip (m :: r))).
Proof. reflexivity. Qed.

Lemma enc_pair_head ip l tail : exists r, append (enc_pair_q ip l) tail = String dq r.
Proof. rewrite enc_pair_append. eexists. reflexivity. Qed.

Lemma parse_members_enc_join ip : forall ls, ls <> [] -> forallb (pair_ok ip) ls = true ->
  forall fuel, (List.length ls <= fuel)%nat ->
  parse_members fuel (append (enc_join_q ip ls) "}") = Some ls.
Proof.
  induction ls as [|l ls IH]; intros Hne Hs fuel Hf; [congruence|].
  cbn [forallb] in Hs. apply andb_true_iff in Hs. destruct Hs as [Hl Hr].
  destruct fuel as [|f]; [cbn in Hf; lia|].
  destruct ls as [|m r].
  - cbn [enc_join_q]. rewrite (parse_members_step ip l "}" f Hl).
    rewrite (skip_ws_nonws "}"%char) by reflexivity.
    change (byte "}" =? 44) with false. change (byte "}" =? 125) with true. reflexivity.
  - rewrite enc_join_cons2, append_assoc. rewrite (parse_members_step ip l _ f Hl).
    cbn [append]. rewrite (skip_ws_nonws ","%char) by reflexivity.
    change (byte "," =? 44) with true. cbv iota.
    rewrite IH; [reflexivity|discriminate|assumption|cbn [List.length] in *; lia].
Qed.

Lemma enc_join_length ip ls : (List.length ls <= String.length (enc_join_q ip ls))%nat.
Proof.
  induction ls as [|l ls IH]; [cbn; lia|].
  assert (Hp : forall l, (1 <= String.length (enc_pair_q ip l))%nat).
  { intros x. destruct (enc_pair_head ip x EmptyString) as [r Hr].
    assert (E : enc_pair_q ip x = append (enc_pair_q ip x) EmptyString).
    { clear. induction (enc_pair_q ip x) as [|c s IHs]; cbn [append]; [reflexivity|now rewrite <- IHs]. }
    rewrite E, Hr. cbn [String.length]. lia. }
  destruct ls as [|m r].
  - cbn [enc_join_q List.length]. apply Hp.
  - rewrite enc_join_cons2, length_append. cbn [String.length List.length] in *. specialize (Hp l). lia.
Qed.

(* the round trip on the exact class: printable ASCII, \b \f \n \r \t, well-formed printable runes and
   well-formed non-printable runes below U+10000 *)
Lemma label_document_roundtrip_ok ip ls :
  labels_json_ok ip ls = true -> json_decode (encode_labels_quote ip ls) = Some ls.
Proof.
  intros Hs. unfold encode_labels_quote, json_decode.
  rewrite (skip_ws_nonws "{"%char) by reflexivity. change (byte "{" =? 123) with true. cbv iota.
  destruct ls as [|l r].
  - reflexivity.
  - destruct (enc_pair_head ip l (append (match r with [] => EmptyString | _ => String "," (enc_join_q ip r) end) "}")) as [x Hx].
    assert (E : append (enc_join_q ip (l :: r)) "}" = String dq x).
    { rewrite <- Hx. destruct r as [|m r]; [reflexivity|]. rewrite enc_join_cons2, append_assoc. reflexivity. }
    rewrite E. rewrite (skip_ws_nonws dq) by reflexivity. rewrite byte_dq. change (34 =? 125) with false. cbv iota.
    rewrite <- E. apply parse_members_enc_join; [discriminate|exact Hs|].
    rewrite length_append. pose proof (enc_join_length ip (l :: r)). lia.
Qed.

Lemma safe_is_ok ip v : json_safe v = true -> json_ok_str ip 0 v = true.
Proof.
  induction v as [|c v IH]; intros H; [reflexivity|].
  cbn [json_safe] in H. apply andb_true_iff in H. destruct H as [H1 H2].
  cbn [json_ok_str]. rewrite (safe_byte_lt128 _ H1), H1. cbn [andb]. now apply IH.
Qed.

Lemma labels_safe_is_ok ip ls : labels_safe ls = true -> labels_json_ok ip ls = true.
Proof.
  unfold labels_safe, labels_json_ok. rewrite !forallb_forall. intros H l Hl. specialize (H l Hl).
  apply andb_true_iff in H. destruct H as [H1 H2]. now rewrite !safe_is_ok.
Qed.

(* the partial round trip: label sets whose bytes are printable ASCII or \b \f \n \r \t *)
Lemma label_document_roundtrip_safe ip ls :
  labels_safe ls = true -> json_decode (encode_labels_quote ip ls) = Some ls.
Proof. intros H. apply label_document_roundtrip_ok. now apply labels_safe_is_ok. Qed.

(* the full statement is false of the model: Go's escapes \x01 \a \v \x7f \U... are not JSON *)
Definition bad_label_sets : list (list label) :=
  [ [("a"%string, String (chr 1) EmptyString)];
    [("a"%string, String (chr 7) EmptyString)];
    [("a"%string, String (chr 11) EmptyString)];
    [("a"%string, String (chr 127) EmptyString)];
    [("a"%string, String (chr 255) EmptyString)] ].

Lemma label_document_roundtrip_fails :
  forall ls, In ls bad_label_sets -> json_decode (encode_labels_quote (isprint_tbl []) ls) = None.
Proof.
  intros ls H. cbn [bad_label_sets In] in H.
  repeat (destruct H as [<-|H]; [vm_compute; reflexivity|]). contradiction.
Qed.

(* the guard of the partial round trip is met by label sets with quotes, backslashes and the
   JSON-escapable control characters *)
Definition ex_safe_labels : list label :=
  [("q"%string, append "say " (String dq (append "hi" (String dq (append " " (String bs (append " there" (String (chr 10) (String (chr 9) EmptyString)))))))));
   ("env"%string, "prod"%string)].
Example roundtrip_guard_satisfiable :
  labels_safe ex_safe_labels = true /\ json_decode (encode_labels_quote (isprint_tbl []) ex_safe_labels) = Some ex_safe_labels.
Proof. split; vm_compute; reflexivity. Qed.

(* fingerprint_protocol_independent: an instance with two different wire orders and protocols *)
Example series_fp_instance :
  series_fp (tbl_ch64 []) hash128to64 fin24 LokiJsonStream 0 [("b.x"%string, "1"%string); ("a"%string, "2"%string)] =
  series_fp (tbl_ch64 []) hash128to64 fin24 PromRemoteWrite 0 [("a"%string, "2"%string); ("b.x"%string, "1"%string)].
Proof. apply series_fp_independent. apply perm_swap. Qed.

(* the exact class contains multi-byte text: e-acute (printable, raw), U+0080 (not printable, \u0080) *)
Definition ex_utf8_labels : list label :=
  [("city"%string, String (chr 195) (String (chr 169) "t"%string));
   ("ctl"%string, String (chr 194) (String (chr 128) EmptyString))].
Example roundtrip_class_satisfiable :
  labels_json_ok (isprint_tbl []) ex_utf8_labels = true /\ labels_safe ex_utf8_labels = false.
Proof. split; vm_compute; reflexivity. Qed.

(* ------------------------------------------------------------------ outside the class the document is not JSON *)
Lemma parse_str_fuel0 s : parse_str 0 s = None.
Proof. reflexivity. Qed.

Lemma parse_str_bad_escape fuel e rest :
  simple_escape (byte e) = None -> (byte e =? 117) = false ->
  parse_str fuel (String bs (String e rest)) = None.
Proof.
  intros H1 H2. destruct fuel as [|f]; [reflexivity|].
  rewrite parse_str_unfold. cbv zeta. rewrite byte_bs.
  change (92 =? 34) with false. change (92 =? 92) with true. cbv iota. now rewrite H1, H2.
Qed.

Lemma parse_str_esc_ascii_bad c fuel rest :
  byte c < 128 -> json_safe_byte (byte c) = false ->
  parse_str fuel (append (esc_ascii c) rest) = None.
Proof.
  intros Hlt Hs. unfold esc_ascii. unfold json_safe_byte in Hs.
  remember (byte c) as b eqn:Hb.
  destruct (in_rng 32 126 b) eqn:E2; [cbn [orb] in Hs; discriminate Hs|]. cbn [orb] in Hs.
  destruct ((b =? 34) || (b =? 92)) eqn:E1.
  { exfalso. unfold in_rng in E2. apply orb_true_iff in E1.
    destruct E1 as [E|E]; apply Z.eqb_eq in E; subst b; rewrite E in E2; discriminate E2. }
  destruct (b =? 7); [cbn [append]; now apply parse_str_bad_escape|].
  destruct (b =? 8) eqn:E8; [cbn [orb] in Hs; discriminate Hs|].
  destruct (b =? 12) eqn:E12; [rewrite !orb_true_r in Hs; discriminate Hs|].
  destruct (b =? 10) eqn:E10; [rewrite !orb_true_r in Hs; discriminate Hs|].
  destruct (b =? 13) eqn:E13; [rewrite !orb_true_r in Hs; discriminate Hs|].
  destruct (b =? 9) eqn:E9; [rewrite !orb_true_r in Hs; discriminate Hs|].
  destruct (b =? 11); cbn [append]; now apply parse_str_bad_escape.
Qed.

Lemma parse_str_quote_body_bad ip : forall n v, (String.length v <= n)%nat -> json_ok_str ip 0 v = false ->
  forall fuel rest, parse_str fuel (append (quote_body ip 0 v) (String dq rest)) = None.
Proof.
  induction n as [|n IH]; intros v Hn Hok fuel rest.
  - destruct v; [discriminate Hok|cbn in Hn; lia].
  - destruct v as [|c r]; [discriminate Hok|]. cbn [String.length] in Hn.
    destruct fuel as [|f]; [reflexivity|].
    cbn [json_ok_str] in Hok. cbn [quote_body].
    destruct (byte c <? 128) eqn:E.
    + apply Z.ltb_lt in E. rewrite append_assoc.
      destruct (json_safe_byte (byte c)) eqn:Es.
      * cbn [andb] in Hok. rewrite (parse_str_esc_ascii c f _ Es).
        rewrite (IH r) by (assumption || lia). reflexivity.
      * now apply parse_str_esc_ascii_bad.
    + apply Z.ltb_ge in E. destruct (decode_rune (String c r)) as [[rn w]|] eqn:D.
      * destruct (decode_rune_multibyte c r rn w E D) as [p [v' R]].
        rewrite (ra_take _ _ _ _ _ _ R), qb_skip, (ra_drop_tail _ _ _ _ _ _ R), append_assoc.
        destruct (isprint_or_bmp ip rn) eqn:Ek.
        -- cbn [andb] in Hok. rewrite ok_skip, (ra_drop_tail _ _ _ _ _ _ R) in Hok.
           rewrite (parse_str_esc_rune ip c r rn w p v' f _ E R Ek).
           pose proof (ra_len _ _ _ _ _ _ R) as Hl. cbn [String.length] in Hl.
           rewrite (IH v') by (assumption || lia). reflexivity.
        -- unfold isprint_or_bmp in Ek. apply orb_false_iff in Ek. destruct Ek as [Ek1 Ek2].
           unfold esc_rune. rewrite Ek1, Ek2. cbn [append]. now apply parse_str_bad_escape.
      * cbn [append]. now apply parse_str_bad_escape.
Qed.

Lemma parse_members_pair_bad ip l tail fuel : pair_ok ip l = false ->
  parse_members fuel (append (enc_pair_q ip l) tail) = None.
Proof.
  intros Hs. destruct fuel as [|f]; [reflexivity|]. destruct l as [k v]. unfold pair_ok in Hs. cbn [fst snd] in Hs.
  rewrite enc_pair_append. cbn [fst snd].
  cbn [parse_members]. rewrite (skip_ws_nonws dq) by reflexivity. rewrite byte_dq. change (34 =? 34) with true. cbv iota.
  destruct (json_ok_str ip 0 k) eqn:Ek.
  - cbn [andb] in Hs. rewrite (parse_str_after_quote_ok ip k _ Ek).
    rewrite (skip_ws_nonws ":"%char) by reflexivity. change (byte ":" =? 58) with true. cbv iota.
    rewrite (skip_ws_nonws dq) by reflexivity. rewrite byte_dq. change (34 =? 34) with true. cbv iota.
    now rewrite (parse_str_quote_body_bad ip _ v (le_n _) Hs).
  - now rewrite (parse_str_quote_body_bad ip _ k (le_n _) Ek).
Qed.

Lemma parse_members_enc_join_bad ip : forall ls, forallb (pair_ok ip) ls = false ->
  forall fuel, parse_members fuel (append (enc_join_q ip ls) "}") = None.
Proof.
  induction ls as [|l ls IH]; intros Hs fuel; [discriminate Hs|].
  cbn [forallb] in Hs. destruct (pair_ok ip l) eqn:El.
  - cbn [andb] in Hs. destruct fuel as [|f]; [reflexivity|].
    destruct ls as [|m r]; [discriminate Hs|].
    rewrite enc_join_cons2, append_assoc, (parse_members_step ip l _ f El).
    cbn [append]. rewrite (skip_ws_nonws ","%char) by reflexivity.
    change (byte "," =? 44) with true. cbv iota. now rewrite (IH Hs f).
  - destruct ls as [|m r].
    + cbn [enc_join_q]. now apply parse_members_pair_bad.
    + rewrite enc_join_cons2, append_assoc. now apply parse_members_pair_bad.
Qed.

Lemma label_document_not_json ip ls :
  labels_json_ok ip ls = false -> json_decode (encode_labels_quote ip ls) = None.
Proof.
  intros Hs. unfold encode_labels_quote, json_decode.
  rewrite (skip_ws_nonws "{"%char) by reflexivity. change (byte "{" =? 123) with true. cbv iota.
  destruct ls as [|l r]; [discriminate Hs|].
  destruct (enc_pair_head ip l (append (match r with [] => EmptyString | _ => String "," (enc_join_q ip r) end) "}")) as [x Hx].
  assert (E : append (enc_join_q ip (l :: r)) "}" = String dq x).
  { rewrite <- Hx. destruct r as [|m r]; [reflexivity|]. rewrite enc_join_cons2, append_assoc. reflexivity. }
  rewrite E. rewrite (skip_ws_nonws dq) by reflexivity. rewrite byte_dq. change (34 =? 125) with false. cbv iota.
  rewrite <- E. now apply parse_members_enc_join_bad.
Qed.

(* exact characterisation, in the model, of the label sets whose stored document is JSON for them *)
Lemma label_document_roundtrip_iff ip ls :
  json_decode (encode_labels_quote ip ls) = Some ls <-> labels_json_ok ip ls = true.
Proof.
  split.
  - intros H. destruct (labels_json_ok ip ls) eqn:E; [reflexivity|].
    rewrite (label_document_not_json ip ls E) in H. discriminate H.
  - apply label_document_roundtrip_ok.
Qed.
