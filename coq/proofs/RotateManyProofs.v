(* Proofs about RotateAll over several databases and func initDB of package main (model/RotateCfg.v, second part):
   property C19. *)
From Coq Require Import List ZArith Bool String Ascii Lia.
From Qryn Require Import model.Rotate model.RotateCfg proofs.RotateProofs proofs.RotateCfgProofs.
Import ListNotations.
Open Scope string_scope.
Open Scope Z_scope.

Lemma upd_same ds i d : upd ds i d i = d.
Proof. unfold upd. now rewrite Nat.eqb_refl. Qed.
Lemma upd_other ds i d j : j <> i -> upd ds i d j = ds j.
Proof. intro H. unfold upd. apply Nat.eqb_neq in H. now rewrite H. Qed.

Lemma run_nofault_fault cfg d : w_fault (fst (run cfg None d)) = None.
Proof. unfold run, rotate. now apply seq_ops_nofault. Qed.

Section ManyProofs.
Variable parse : string -> option Z.

(* records name only applied values in EVERY database, after RotateAll under any fault *)
Lemma rotate_all_m_consistent : forall os f ds, (forall i, consistent (ds i)) ->
  forall i, consistent (snd (rotate_all_m parse os f ds) i).
Proof.
  induction os as [|[j o] r IH]; intros f ds Hd; cbn [rotate_all_m]; [exact Hd|].
  destruct (config_of parse o) as [cfg|]; [|exact Hd].
  destruct (run cfg f (ds j)) as [w ok] eqn:E.
  assert (Hw : forall i, consistent (upd ds j (w_db w) i)).
  { intro i. destruct (Nat.eq_dec i j) as [->|Hne]; [|rewrite upd_other by exact Hne; apply Hd].
    rewrite upd_same. pose proof (run_consistent cfg f (ds j) (Hd j)) as H. unfold run_db in H. now rewrite E in H. }
  destruct ok; [|exact Hw].
  specialize (IH (w_fault w) _ Hw). destruct (rotate_all_m parse r (w_fault w) (upd ds j (w_db w))) as [[l' ok'] d']. exact IH.
Qed.

(* all objects naming one database, all databases behind one state: RotateAll as modelled before *)
Lemma rotate_all_m_one : forall os f ds k,
  let '(l, ok, ds') := rotate_all_m parse (map (fun o => (k, o)) os) f ds in
  rotate_all parse os f (ds k) = (l, ok, ds' k) /\ forall i, i <> k -> ds' i = ds i.
Proof.
  induction os as [|o r IH]; intros f ds k; cbn [map rotate_all_m rotate_all]; [now split|].
  destruct (config_of parse o) as [cfg|]; [|now split].
  destruct (run cfg f (ds k)) as [w ok] eqn:E. destruct ok.
  - specialize (IH (w_fault w) (upd ds k (w_db w)) k).
    destruct (rotate_all_m parse (map (fun o0 => (k, o0)) r) (w_fault w) (upd ds k (w_db w))) as [[l' ok'] ds''].
    destruct IH as [IH1 IH2]. rewrite upd_same in IH1. rewrite IH1. split; [reflexivity|].
    intros i Hi. rewrite (IH2 i Hi). now apply upd_other.
  - rewrite upd_same. split; [reflexivity|]. intros i Hi. now apply upd_other.
Qed.

(* uninterrupted, every timeout parsing: RotateAll succeeds and EVERY database ends at the configuration of the last
   object that names it (a database no object names is not touched) *)
Lemma rotate_all_m_converges : forall os ds,
  (forall i, consistent (ds i)) -> Forall (fun x => config_of parse (snd x) <> None) os ->
  let '(l, ok, ds') := rotate_all_m parse os None ds in
  ok = true /\ forall i, match last_cfg parse os i with
                         | Some cfg => converged cfg (ds' i)
                         | None => ds' i = ds i
                         end.
Proof.
  induction os as [|[j o] r IH]; intros ds Hd Hp; cbn [rotate_all_m last_cfg]; [split; [reflexivity|now intros i]|].
  inversion Hp as [|x r' Hx Hr]; subst. cbn in Hx.
  destruct (config_of parse o) as [cfg|] eqn:Hc; [|now elim Hx].
  pose proof (run_nofault_ok cfg (ds j)) as Hok. pose proof (run_nofault_fault cfg (ds j)) as Hf.
  destruct (run cfg None (ds j)) as [w ok] eqn:E. cbn in Hok, Hf. subst ok. rewrite Hf.
  assert (Hw : forall i, consistent (upd ds j (w_db w) i)).
  { intro i. destruct (Nat.eq_dec i j) as [->|Hne]; [|rewrite upd_other by exact Hne; apply Hd].
    rewrite upd_same. pose proof (run_consistent cfg None (ds j) (Hd j)) as H. unfold run_db in H. now rewrite E in H. }
  specialize (IH _ Hw Hr). destruct (rotate_all_m parse r None (upd ds j (w_db w))) as [[l' ok'] ds''].
  destruct IH as [IH1 IH2]. split; [exact IH1|].
  intro i. specialize (IH2 i). destruct (last_cfg parse r i) as [c|]; [exact IH2|].
  destruct (Nat.eqb i j) eqn:Eij.
  - apply Nat.eqb_eq in Eij. subst i. rewrite IH2, upd_same.
    pose proof (proj2 (run_ok_converged cfg None (ds j) (run_nofault_ok cfg (ds j))) (Hd j)) as H.
    unfold run_db in H. now rewrite E in H.
  - apply Nat.eqb_neq in Eij. rewrite IH2. now apply upd_other.
Qed.

(* func initDB *)
Lemma init_db_omitted e ifails os f ds : bool_env (getenv e "key") = Some true ->
  init_db parse e ifails os f ds = (false, false, [], ds).
Proof. intro H. unfold init_db. now rewrite H. Qed.

Lemma init_db_bad_key e ifails os f ds : bool_env (getenv e "key") = None ->
  init_db parse e ifails os f ds = (true, false, [], ds).
Proof. intro H. unfold init_db. now rewrite H. Qed.

Lemma init_db_init_fails e os f ds : bool_env (getenv e "key") = Some false ->
  init_db parse e true os f ds = (true, true, [], ds).
Proof. intro H. unfold init_db. now rewrite H. Qed.

Lemma init_db_converges e os ds : bool_env (getenv e "key") = Some false ->
  (forall i, consistent (ds i)) -> Forall (fun x => config_of parse (snd x) <> None) os ->
  let '(panicked, called, l, ds') := init_db parse e false os None ds in
  panicked = false /\ called = true /\
  (forall i, match last_cfg parse os i with Some cfg => converged cfg (ds' i) | None => ds' i = ds i end) /\
  (forall i, consistent (ds' i)).
Proof.
  intros Hk Hd Hp. unfold init_db. rewrite Hk.
  pose proof (rotate_all_m_converges os ds Hd Hp) as H. pose proof (rotate_all_m_consistent os None ds Hd) as Hc.
  destruct (rotate_all_m parse os None ds) as [[l ok] ds']. destruct H as [-> H]. cbn in Hc. now repeat split.
Qed.

(* under any fault / bad timeout: initDB panics exactly when RotateAll reports an error, and the records of every database
   still name only applied values *)
Lemma init_db_consistent e ifails os f ds : (forall i, consistent (ds i)) ->
  forall i, consistent (snd (init_db parse e ifails os f ds) i).
Proof.
  intros Hd. unfold init_db. destruct (bool_env (getenv e "key")) as [[|]|]; try exact Hd.
  destruct ifails; [exact Hd|].
  pose proof (rotate_all_m_consistent os f ds Hd) as Hc.
  destruct (rotate_all_m parse os f ds) as [[l ok] ds']. exact Hc.
Qed.
End ManyProofs.

(* two databases, three objects (the second and third name the same database): the first database ends at the first
   object's 30 days, the second at the third object's 90 days *)
Definition ex_os : list (nat * dbobj) :=
  [(1%nat, {| o_cluster := ""; o_ttl_policy := [{| e_timeout := "24h"; e_move_to := "cold" |}]; o_ttl_days := 30; o_storage_policy := "" |});
   (2%nat, {| o_cluster := "c1"; o_ttl_policy := []; o_ttl_days := 60; o_storage_policy := "tiered" |});
   (2%nat, {| o_cluster := "c1"; o_ttl_policy := []; o_ttl_days := 90; o_storage_policy := "tiered" |})].
Definition ex_parse (s : string) : option Z := if String.eqb s "24h" then Some 86400000000000 else None.
Example ex_init_db :
  let '(panicked, called, l, ds') := init_db ex_parse [("OMIT_CREATE_TABLES", "true")] false ex_os None (fun _ => fresh) in
  panicked = false /\ called = true /\ List.length l = 96%nat /\
  d_ttl (ds' 1%nat) SamplesV3 = "toDateTime(timestamp_ns / 1000000000) + toIntervalSecond(86400) TO DISK 'cold', toDateTime(timestamp_ns / 1000000000) + toIntervalDay(30)" /\
  d_ttl (ds' 2%nat) SamplesV3 = "toDateTime(timestamp_ns / 1000000000) + toIntervalDay(90)" /\
  d_policy (ds' 2%nat) SamplesV3 = "tiered" /\ d_ttl (ds' 0%nat) SamplesV3 = "<initial>".
Proof. vm_compute. repeat split. Qed.
