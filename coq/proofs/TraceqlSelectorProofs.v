(* Property C11, part 3 of the proofs: one selector, end to end at the level of the two clauses that
   decide which spans it selects.  For the rows of a span in the attribute index:
     the rows that pass the WHERE pre-filter of the emitted statement (when the planner adds one),
     grouped, pass its HAVING            <->           the selector's expression holds of the span.
   Both clauses are evaluated by the evaluator of model/TraceqlSem.v on the expressions the planner
   model builds (whose text is compared byte for byte with the implementation's on every run). *)
From Coq Require Import List ZArith NArith QArith String Ascii Bool Lia.
From Qryn Require Import model.TqSql model.Traceql model.TraceqlPlan model.TraceqlSem
     proofs.TraceqlBitsetProofs proofs.TraceqlAnalyzeProofs proofs.TraceqlEvalProofs.
Import ListNotations.
Open Scope string_scope.
Open Scope list_scope.

(* ---------- literals: the meaning with the literals as printed into the statement and with the exact
   literals of the query agree when every printed literal parses back to the query's number (lits_exact) ---------- *)
Lemma Qle_bool_compat_r x a b : (a == b)%Q -> Qle_bool x a = Qle_bool x b.
Proof. intros E. apply eq_true_iff_eq. rewrite !Qle_bool_iff. now rewrite E. Qed.
Lemma Qle_bool_compat_l x a b : (a == b)%Q -> Qle_bool a x = Qle_bool b x.
Proof. intros E. apply eq_true_iff_eq. rewrite !Qle_bool_iff. now rewrite E. Qed.
Lemma Qeq_bool_compat_r x a b : (a == b)%Q -> Qeq_bool x a = Qeq_bool x b.
Proof. intros E. apply eq_true_iff_eq. rewrite !Qeq_bool_iff. now rewrite E. Qed.

Lemma cmp_Q_compat c x a b : (a == b)%Q -> cmp_Q c x a = cmp_Q c x b.
Proof.
  intros E. destruct c; cbn [cmp_Q];
    rewrite ?(Qle_bool_compat_r x a b E), ?(Qle_bool_compat_l x a b E), ?(Qeq_bool_compat_r x a b E); reflexivity.
Qed.

Section SEL.
  Variable re_match : string -> string -> bool.
  Variable parse_float : string -> option Q.
  Variable hash64 : string -> Z.

  Lemma term_sem_round t r : lit_exact (a_val t) = true ->
    term_sem re_match parse_float true t r = term_sem re_match parse_float false t r.
  Proof.
    unfold lit_exact, term_sem. intros H.
    destruct (label_key (a_label t)); [|reflexivity].
    destruct (v_str (a_val t)); [reflexivity|].
    destruct (lit_value true (a_val t)) as [a|], (lit_value false (a_val t)) as [b|]; try discriminate; try reflexivity.
    destruct (parse_float (r_val r)) as [x|]; [|reflexivity].
    apply Qeq_bool_iff in H. now rewrite (cmp_Q_compat _ x a b H).
  Qed.

  Lemma existsb_ext_in {A} (f g : A -> bool) l : (forall x, In x l -> f x = g x) -> existsb f l = existsb g l.
  Proof.
    induction l as [|x l IH]; intros H; [reflexivity|]. cbn [existsb].
    rewrite (H x (or_introl eq_refl)), IH; [reflexivity|]. intros y Hy. apply H. now right.
  Qed.

  Fixpoint exp_sem_round (e : attr_exp) {struct e} : forall rows,
    lits_exact e = true ->
    exp_sem re_match parse_float true e rows = exp_sem re_match parse_float false e rows.
  Proof.
    destruct e as [h ao tl]. intros rows H. unfold lits_exact in H. cbn [exp_terms] in H.
    rewrite forallb_app in H. apply andb_true_iff in H. destruct H as [Hh Ht].
    cbn [exp_sem].
    assert (Hhead : match h with
                    | HTerm t => existsb (term_sem re_match parse_float true t) rows
                    | HParen e' => exp_sem re_match parse_float true e' rows
                    end =
                    match h with
                    | HTerm t => existsb (term_sem re_match parse_float false t) rows
                    | HParen e' => exp_sem re_match parse_float false e' rows
                    end).
    { destruct h as [t|e'].
      - cbn [forallb] in Hh. apply andb_true_iff in Hh. destruct Hh as [Hl _].
        apply existsb_ext_in. intros r _. now apply term_sem_round.
      - apply exp_sem_round. exact Hh. }
    rewrite Hhead. destruct tl as [t'|]; [|reflexivity].
    rewrite (exp_sem_round t' rows Ht). reflexivity.
  Qed.

  Section STMT.
    Variable cte : env.
    Variable al : list (string * expr).
    Variable keys : list string.
    Notation EV := (ev re_match parse_float hash64 cte al keys).
    Notation tsem := (term_sem re_match parse_float true).
    Notation csem := (cond_sem re_match parse_float true).

    Hypothesis al_key : lookup_alias "key" al = None.
    Hypothesis al_val : lookup_alias "val" al = None.
    Hypothesis al_dur : lookup_alias "traces_idx.duration" al = None.

    Lemma or3_somes bs : of3 (or3 (map Some bs)) = vbool (existsb (fun b => b) bs).
    Proof.
      induction bs as [|b bs IH]; [reflexivity|]. cbn [map or3 existsb].
      destruct b; [reflexivity|]. cbn [orb].
      destruct (or3 (map Some bs)) as [[|]|] eqn:E; cbn [of3] in IH |- *; rewrite <- IH; reflexivity.
    Qed.

    Lemma all_some_app {A} (a b : list (option A)) la lb :
      all_some a = Some la -> all_some b = Some lb -> all_some (a ++ b) = Some (la ++ lb).
    Proof.
      revert la. induction a as [|x a IH]; intros la Ha Hb; cbn [all_some app] in *.
      - injection Ha as <-. assumption.
      - destruct x as [x|]; [|discriminate]. destruct (all_some a) as [xs|] eqn:E; [|discriminate].
        injection Ha as <-. now rewrite (IH xs eq_refl Hb).
    Qed.

    (* the WHERE terms collected by maybeCreateWhere: the conditions of the indexed terms *)
    Definition where_terms (terms : list attr_sel) (conds : list expr) : list expr :=
      map snd (filter (fun p => is_indexed_label (a_label (fst p))) (combine terms conds)).

    Lemma ev_where_terms f self g r terms conds :
      Forall2 (fun t e => get_term t = Ok e) terms conds -> forallb term_lit_ok terms = true ->
      all_some (map (fun x => EV (5 + f) false self g (irow_row r) x) (where_terms terms conds))
      = Some (map (fun t => vbool (tsem t r)) (filter indexed terms)).
    Proof.
      intros HF. induction HF as [|t e l l' Ht HF IH]; intros Hl; [reflexivity|].
      cbn [forallb] in Hl. apply andb_true_iff in Hl. destruct Hl as [Hl Hls].
      unfold where_terms in *. cbn [combine filter fst]. unfold indexed at 1.
      destruct (is_indexed_label (a_label t)); cbn [map snd all_some].
      - rewrite (ev_get_term _ _ _ _ _ _ al_key al_val al_dur _ _ _ _ _ _ Hl Ht). now rewrite (IH Hls).
      - now apply IH.
    Qed.

    (* what aggregator() adds: the rows carrying the aggregated attribute *)
    Definition extra_sem (attr : string) (r : irow) : bool :=
      match fst (agg_step attr) with [] => false | _ => String.eqb (r_key r) (strip_agg attr) end.

    Lemma ev_extra f self g r attr :
      all_some (map (fun x => EV (2 + f) false self g (irow_row r) x) (fst (agg_step attr)))
      = Some (map vbool (match fst (agg_step attr) with [] => [] | _ => [extra_sem attr r] end)).
    Proof.
      unfold extra_sem, agg_step.
      destruct (String.eqb attr ""); [reflexivity|]. destruct (String.eqb attr "duration"); [reflexivity|].
      cbn [fst map all_some]. change (2 + f)%nat with (S (S f)).
      now rewrite (ev_key_clause _ _ _ _ _ _ al_key).
    Qed.

    Lemma existsb_filter_map (terms : list attr_sel) r :
      existsb (fun b => b) (map (fun t => tsem t r) (filter indexed terms)) = existsb (fun t => indexed t && tsem t r) terms.
    Proof.
      induction terms as [|t l IH]; [reflexivity|]. cbn [filter existsb].
      destruct (indexed t); cbn [map existsb andb]; now rewrite IH.
    Qed.

    (* T3: the WHERE pre-filter keeps exactly the rows described by [prefilter] *)
    Theorem ev_where f self g r terms conds attr :
      Forall2 (fun t e => get_term t = Ok e) terms conds -> forallb term_lit_ok terms = true ->
      EV (6 + f) false self g (irow_row r) (LOp OOr (where_terms terms conds ++ fst (agg_step attr)))
      = Some (vbool (prefilter re_match parse_float true terms (extra_sem attr) r)).
    Proof.
      intros HF Hl. change (6 + f)%nat with (S (5 + f)). rewrite ev_LOp. rewrite map_app.
      pose proof (ev_extra (3 + f) self g r attr) as He. change (2 + (3 + f))%nat with (5 + f)%nat in He.
      rewrite (all_some_app _ _ _ _ (ev_where_terms f self g r terms conds HF Hl) He). clear He.
      rewrite map_app, map_map, map_map.
      rewrite (map_ext _ (fun t => Some (Some (tsem t r))) (fun t => truth_vbool _)).
      rewrite (map_ext (fun x : bool => truth (vbool x)) (fun x => Some (Some x)) truth_vbool).
      assert (Hs : forall (A : Type) (h : A -> option bool) (l : list A), all_some (map (fun x => Some (h x)) l) = Some (map h l)).
      { intros A h l. induction l as [|x l IHl]; [reflexivity|]. cbn [map all_some]. now rewrite IHl. }
      rewrite (all_some_app _ _ _ _ (Hs _ (fun t => Some (tsem t r)) _) (Hs _ (fun x => Some x) _)).
      rewrite <- (map_map (fun t => tsem t r) Some), <- map_app, or3_somes. f_equal. apply vbool_inj. unfold prefilter.
      rewrite existsb_app, existsb_filter_map. f_equal.
      unfold extra_sem. destruct (fst (agg_step attr)); [reflexivity|]. cbn [existsb]. apply orb_false_r.
    Qed.

    (* ---------- one selector ---------- *)
    Variable e : attr_exp.
    Variable attr : string.                      (* the aggregated attribute, "" when there is none *)
    Let cd : condition := fst (analyze_cond e ([], [])).
    Let terms : list attr_sel := fst (snd (analyze_cond e ([], []))).
    Variable conds : list expr.
    Hypothesis Hkeys : keys_ok e = true.
    Hypothesis Hconds : map_res get_term terms = Ok conds.      (* Process returned a statement *)
    Hypothesis Hlits : forallb term_lit_ok terms = true.
    Hypothesis Hlen : (List.length terms <= 64)%nat.            (* one UInt64 bit per distinct term *)
    Hypothesis al_bs : lookup_alias "bsCond" al = Some (GroupBitOr (BitSet conds) "").

    Definition where_expr : expr := LOp OOr (where_terms terms conds ++ fst (agg_step attr)).
    Definition having_expr : expr := LOp OAnd [fst (get_cond conds cd false)].

    (* does the statement keep the span with these index rows: rows that pass WHERE (when present), then HAVING *)
    Definition keeps (with_where : bool) (fw fh : nat) (rows : list irow) : bool :=
      let kept := if with_where
                  then filter (fun r => match EV fw false "" [] (irow_row r) where_expr with
                                        | Some v => match truth v with Some (Some true) => true | _ => false end
                                        | None => false end) rows
                  else rows in
      match kept with
      | [] => false                               (* no row: no group *)
      | r0 :: _ => match EV fh true "" (map irow_row kept) (irow_row r0) having_expr with
                   | Some v => match truth v with Some (Some true) => true | _ => false end
                   | None => false end
      end.

    Lemma analyze_facts :
      cond_wf (List.length terms) cd /\
      forall rows, csem terms rows cd = exp_sem re_match parse_float true e rows.
    Proof.
      pose proof (analyze_sem re_match parse_float true e Hkeys) as H.
      subst cd terms. destruct (analyze_cond e ([], [])) as [c st]. exact H.
    Qed.

    Lemma having_value fh rows r0 : (cond_depth cd + 11 <= fh)%nat ->
      EV fh true "" (map irow_row rows) r0 having_expr = Some (vbool (csem terms rows cd)).
    Proof.
      intros Hf. destruct analyze_facts as [Hwf _].
      replace fh with (S (cond_depth cd + 10 + (fh - (cond_depth cd + 11))))%nat by lia.
      apply (ev_having re_match parse_float hash64 cte al keys al_key al_val al_dur terms conds Hconds Hlits Hlen al_bs rows cd _ r0 Hwf).
    Qed.

    Lemma filter_where fw rows : (6 <= fw)%nat ->
      filter (fun r => match EV fw false "" [] (irow_row r) where_expr with
                       | Some v => match truth v with Some (Some true) => true | _ => false end
                       | None => false end) rows
      = filter (prefilter re_match parse_float true terms (extra_sem attr)) rows.
    Proof.
      intros Hf. apply filter_ext. intros r. unfold where_expr.
      replace fw with (6 + (fw - 6))%nat by lia.
      rewrite (ev_where _ _ _ _ _ _ attr (map_res_Forall2 _ _ _ Hconds) Hlits).
      rewrite truth_vbool. destruct (prefilter _ _ _ _ _ r); reflexivity.
    Qed.

    (* The statement of AttrConditionPlanner selects a span exactly when the selector's expression holds of it.
       with_where is what Process decides: the pre-filter is added when there is a WHERE term and the
       condition cannot hold without an indexed term. *)
    Theorem selector_correct fw fh rows :
      (6 <= fw)%nat -> (cond_depth cd + 11 <= fh)%nat -> uniform_dur rows -> rows <> [] ->
      let with_where := match (where_terms terms conds ++ fst (agg_step attr)) with
                        | [] => false | _ => negb (holds_without_indexed terms cd) end in
      keeps with_where fw fh rows = exp_sem re_match parse_float true e rows.
    Proof.
      intros Hfw Hfh Hu Hne with_where. destruct analyze_facts as [Hwf Hsem]. unfold keeps.
      destruct with_where eqn:Ew.
      - assert (Hh : holds_without_indexed terms cd = false).
        { subst with_where. destruct (where_terms terms conds ++ fst (agg_step attr)); [discriminate|].
          now apply negb_true_iff in Ew. }
        rewrite (filter_where fw rows Hfw).
        pose proof (prefilter_sound re_match parse_float true terms (extra_sem attr) rows cd Hu Hwf Hh) as PS.
        destruct (filter (prefilter re_match parse_float true terms (extra_sem attr)) rows) as [|r0 rest] eqn:Ef.
        + rewrite <- Hsem. destruct (csem terms rows cd) eqn:Ec; [|reflexivity].
          exfalso. apply (proj1 (proj2 PS eq_refl)). reflexivity.
        + rewrite (having_value fh (r0 :: rest) (irow_row r0) Hfh), truth_vbool, <- Hsem.
          destruct (csem terms (r0 :: rest) cd) eqn:Ec.
          * symmetry. apply (proj1 PS). split; [discriminate|reflexivity].
          * destruct (csem terms rows cd) eqn:Ec2; [|reflexivity].
            destruct (proj2 PS eq_refl) as [_ Hc]. congruence.
      - destruct rows as [|r0 rest]; [congruence|].
        now rewrite (having_value fh (r0 :: rest) (irow_row r0) Hfh), truth_vbool, <- Hsem; destruct (csem terms (r0 :: rest) cd).
    Qed.
  End STMT.
End SEL.
