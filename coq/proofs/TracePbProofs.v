(* C15 - proofs about model/TracePb.v: the grouping of the protobuf branch of TempoController.Trace.
   For every map iteration order and every channel content:
     groups_one_per_service     no service name heads two ResourceSpans
     groups_cover_services      a service has a group exactly when a span of the channel carries its name
     groups_spans_in_order      the group of s lists exactly the spans of s, in the order of the channel
     groups_every_span_once     the document lists the channel content, every span once under its own service (a permutation)
     groups_never_empty         no group without a span
     pb_oracle_sound            what the oracle of the check accepts has these properties (independent of the model)
     pb_doc_passes_oracle       the oracle accepts the document of the model *)
From Coq Require Import List NArith ZArith Bool Ascii String Permutation Lia.
From Qryn Require Import model.JsonStream model.TracePb.
Import ListNotations.
Open Scope string_scope.
Open Scope list_scope.

(* ------------------------------------------------------------------------------------------ *)
(* the association list *)
Lemma tp_get_add : forall m s x k,
  tp_get (tp_add m s x) k = if String.eqb s k then tp_get m k ++ [x] else tp_get m k.
Proof.
  induction m as [|[k0 l] r IH]; intros s x k; cbn [tp_add tp_get].
  - destruct (String.eqb s k) eqn:E; reflexivity.
  - destruct (String.eqb k0 s) eqn:E0; cbn [tp_get].
    + apply String.eqb_eq in E0. subst k0.
      destruct (String.eqb s k) eqn:E; reflexivity.
    + destruct (String.eqb k0 k) eqn:E1.
      * apply String.eqb_eq in E1. subst k0. rewrite (String.eqb_sym s k), E0. reflexivity.
      * apply IH.
Qed.

Lemma tp_get_fold : forall spans m k,
  tp_get (fold_left (fun m p => tp_add m (fst p) (snd p)) spans m) k = tp_get m k ++ tp_ids_of k spans.
Proof.
  induction spans as [|p r IH]; intros m k; cbn [fold_left].
  - unfold tp_ids_of. cbn. rewrite app_nil_r. reflexivity.
  - rewrite IH, tp_get_add. unfold tp_ids_of. cbn [filter].
    destruct (String.eqb (fst p) k) eqn:E; cbn [map].
    + rewrite <- app_assoc. reflexivity.
    + reflexivity.
Qed.

Lemma tp_get_of : forall spans k, tp_get (tp_of spans) k = tp_ids_of k spans.
Proof. intros spans k. unfold tp_of. rewrite tp_get_fold. reflexivity. Qed.

Lemma tp_keys_add_in : forall m s x k, In k (tp_keys (tp_add m s x)) <-> k = s \/ In k (tp_keys m).
Proof.
  induction m as [|[k0 l] r IH]; intros s x k; cbn [tp_add].
  - cbn. intuition congruence.
  - destruct (String.eqb k0 s) eqn:E0.
    + apply String.eqb_eq in E0. subst k0. cbn. intuition.
    + unfold tp_keys in *. cbn [map fst In]. rewrite IH. intuition.
Qed.

Lemma tp_keys_add_nodup : forall m s x, NoDup (tp_keys m) -> NoDup (tp_keys (tp_add m s x)).
Proof.
  induction m as [|[k0 l] r IH]; intros s x H; cbn [tp_add].
  - cbn. constructor; [intros []|constructor].
  - destruct (String.eqb k0 s) eqn:E0.
    + exact H.
    + unfold tp_keys in *. cbn [map fst] in *. inversion H as [|? ? Hn Hr]; subst.
      constructor.
      * intro Hin. apply (tp_keys_add_in r s x k0) in Hin. destruct Hin as [Hin|Hin].
        -- subst s. rewrite String.eqb_refl in E0. discriminate.
        -- exact (Hn Hin).
      * apply IH. exact Hr.
Qed.

Lemma tp_keys_fold : forall spans m,
  (NoDup (tp_keys m) -> NoDup (tp_keys (fold_left (fun m p => tp_add m (fst p) (snd p)) spans m))) /\
  (forall k, In k (tp_keys (fold_left (fun m p => tp_add m (fst p) (snd p)) spans m)) <->
             In k (tp_keys m) \/ In k (map fst spans)).
Proof.
  induction spans as [|p r IH]; intros m; cbn [fold_left map].
  - split; [auto|]. intros k. cbn. intuition.
  - destruct (IH (tp_add m (fst p) (snd p))) as [IH1 IH2]. split.
    + intros H. apply IH1, tp_keys_add_nodup, H.
    + intros k. rewrite IH2, tp_keys_add_in. cbn [In]. intuition.
Qed.

Lemma tp_keys_nodup : forall spans, NoDup (tp_keys (tp_of spans)).
Proof. intros spans. apply (proj1 (tp_keys_fold spans [])). constructor. Qed.

Lemma tp_keys_in : forall spans k, In k (tp_keys (tp_of spans)) <-> In k (map fst spans).
Proof. intros spans k. unfold tp_of. rewrite (proj2 (tp_keys_fold spans [])). cbn. intuition. Qed.

(* ------------------------------------------------------------------------------------------ *)
(* the map iteration order *)
Lemma existsb_eqb_in : forall k l, existsb (String.eqb k) l = true <-> In k l.
Proof.
  intros k l. rewrite existsb_exists. split.
  - intros [x [Hin E]]. apply String.eqb_eq in E. subst x. exact Hin.
  - intros Hin. exists k. split; [exact Hin|apply String.eqb_refl].
Qed.

Lemma tp_nodup_iff : forall l, tp_nodup l = true <-> NoDup l.
Proof.
  induction l as [|x r IH]; cbn [tp_nodup].
  - split; [constructor|reflexivity].
  - rewrite andb_true_iff, negb_true_iff, IH. split.
    + intros [Hn Hr]. constructor; [|exact Hr]. intro Hin. apply existsb_eqb_in in Hin. congruence.
    + intros H. inversion H as [|? ? Hn Hr]; subst. split; [|exact Hr].
      destruct (existsb (String.eqb x) r) eqn:E; [|reflexivity]. apply existsb_eqb_in in E. contradiction.
Qed.

Lemma tp_is_perm_spec : forall order keys, NoDup keys -> tp_is_perm order keys = true -> Permutation keys order.
Proof.
  intros order keys Hk H. unfold tp_is_perm in H.
  apply andb_true_iff in H. destruct H as [H Hall]. apply andb_true_iff in H. destruct H as [Hlen Hnd].
  apply Nat.eqb_eq in Hlen.
  apply NoDup_Permutation_bis; [exact Hk|lia|].
  intros k Hin. rewrite forallb_forall in Hall. apply existsb_eqb_in, Hall, Hin.
Qed.

Lemma tp_visit_perm : forall order m, NoDup (tp_keys m) -> Permutation (tp_keys m) (tp_visit order m).
Proof.
  intros order m Hk. unfold tp_visit. destruct (tp_is_perm order (tp_keys m)) eqn:E.
  - apply tp_is_perm_spec; assumption.
  - apply Permutation_refl.
Qed.

Lemma tp_visit_nodup : forall order spans, NoDup (tp_visit order (tp_of spans)).
Proof.
  intros order spans. eapply Permutation_NoDup; [apply tp_visit_perm|]; apply tp_keys_nodup.
Qed.

Lemma tp_visit_in : forall order spans k, In k (tp_visit order (tp_of spans)) <-> In k (map fst spans).
Proof.
  intros order spans k. rewrite <- tp_keys_in. split; intro H.
  - eapply Permutation_in; [apply Permutation_sym, tp_visit_perm, tp_keys_nodup|exact H].
  - eapply Permutation_in; [apply tp_visit_perm, tp_keys_nodup|exact H].
Qed.

(* the groups, written with the specification's own function *)
Lemma group_by_service_eq : forall order spans,
  group_by_service order spans = map (fun k => (k, tp_ids_of k spans)) (tp_visit order (tp_of spans)).
Proof.
  intros order spans. unfold group_by_service. apply map_ext. intros k. rewrite tp_get_of. reflexivity.
Qed.

Lemma group_keys : forall order spans, map fst (group_by_service order spans) = tp_visit order (tp_of spans).
Proof.
  intros order spans. rewrite group_by_service_eq, map_map. cbn [fst]. apply map_id.
Qed.

(* ------------------------------------------------------------------------------------------ *)
(* (a) exactly one group per service *)
Lemma groups_one_per_service : forall order spans, NoDup (map fst (group_by_service order spans)).
Proof. intros order spans. rewrite group_keys. apply tp_visit_nodup. Qed.

Lemma groups_cover_services : forall order spans s,
  In s (map fst (group_by_service order spans)) <-> In s (map fst spans).
Proof. intros order spans s. rewrite group_keys. apply tp_visit_in. Qed.

(* (b) per service: the spans of the channel, in order *)
Lemma tp_ids_of_absent : forall spans s, ~ In s (map fst spans) -> tp_ids_of s spans = [].
Proof.
  induction spans as [|p r IH]; intros s H; [reflexivity|].
  unfold tp_ids_of in *. cbn [filter map] in *.
  destruct (String.eqb (fst p) s) eqn:E.
  - apply String.eqb_eq in E. exfalso. apply H. left. exact E.
  - apply IH. intro Hin. apply H. right. exact Hin.
Qed.

Lemma tp_get_tabulate : forall (f : string -> list Z) v s,
  tp_get (map (fun k => (k, f k)) v) s = if existsb (String.eqb s) v then f s else [].
Proof.
  induction v as [|k r IH]; intros s; cbn [map tp_get existsb]; [reflexivity|].
  rewrite (String.eqb_sym s k). destruct (String.eqb k s) eqn:E; cbn [orb].
  - apply String.eqb_eq in E. subst k. reflexivity.
  - apply IH.
Qed.

Lemma groups_spans_in_order : forall order spans s,
  tp_get (group_by_service order spans) s = tp_ids_of s spans.
Proof.
  intros order spans s. rewrite group_by_service_eq, tp_get_tabulate.
  destruct (existsb (String.eqb s) (tp_visit order (tp_of spans))) eqn:E; [reflexivity|].
  symmetry. apply tp_ids_of_absent. intro Hin. apply tp_visit_in with (order := order) in Hin.
  apply existsb_eqb_in in Hin. congruence.
Qed.

Lemma groups_members : forall order spans s l,
  In (s, l) (group_by_service order spans) -> In s (map fst spans) /\ l = tp_ids_of s spans.
Proof.
  intros order spans s l H. rewrite group_by_service_eq in H. apply in_map_iff in H.
  destruct H as [k [E Hin]]. inversion E; subst. split; [|reflexivity].
  apply tp_visit_in in Hin. exact Hin.
Qed.

(* (b) every span once *)
Lemma pair_ids_of : forall spans k,
  map (fun x => (k, x)) (tp_ids_of k spans) = filter (fun p => String.eqb (fst p) k) spans.
Proof.
  induction spans as [|[s x] r IH]; intros k; [reflexivity|].
  unfold tp_ids_of in *. cbn [filter fst].
  destruct (String.eqb s k) eqn:E; cbn [map snd].
  - apply String.eqb_eq in E. subst s. rewrite IH. reflexivity.
  - apply IH.
Qed.

Lemma flat_map_nil : forall (A B : Type) (l : list A), flat_map (fun _ : A => @nil B) l = [].
Proof. induction l as [|a r IH]; [reflexivity|exact IH]. Qed.

Lemma flat_map_absent : forall (F : string -> list (string * Z)) p s ks,
  ~ In s ks -> flat_map (fun k => if String.eqb s k then p :: F k else F k) ks = flat_map F ks.
Proof.
  induction ks as [|k r IH]; intros H; [reflexivity|]. cbn [flat_map].
  destruct (String.eqb s k) eqn:E.
  - apply String.eqb_eq in E. exfalso. apply H. left. congruence.
  - rewrite IH; [reflexivity|]. intro Hin. apply H. right. exact Hin.
Qed.

Lemma flat_map_present : forall (F : string -> list (string * Z)) p s ks,
  NoDup ks -> In s ks ->
  Permutation (flat_map (fun k => if String.eqb s k then p :: F k else F k) ks) (p :: flat_map F ks).
Proof.
  induction ks as [|k r IH]; intros Hnd Hin; [destruct Hin|]. cbn [flat_map].
  inversion Hnd as [|? ? Hn Hr]; subst.
  destruct (String.eqb s k) eqn:E.
  - apply String.eqb_eq in E. subst k. rewrite flat_map_absent by exact Hn. apply Permutation_refl.
  - destruct Hin as [Hin|Hin]; [subst k; rewrite String.eqb_refl in E; discriminate|].
    eapply Permutation_trans; [apply Permutation_app_head, IH; assumption|].
    apply Permutation_sym, Permutation_middle.
Qed.

Lemma partition_by_key : forall (spans : list (string * Z)) ks,
  NoDup ks -> (forall p, In p spans -> In (fst p) ks) ->
  Permutation (flat_map (fun k => filter (fun p => String.eqb (fst p) k) spans) ks) spans.
Proof.
  induction spans as [|p r IH]; intros ks Hnd Hall.
  - cbn [filter]. rewrite flat_map_nil. constructor.
  - cbn [filter].
    eapply Permutation_trans.
    + apply (flat_map_present (fun k => filter (fun q => String.eqb (fst q) k) r) p (fst p) ks Hnd).
      apply Hall. left. reflexivity.
    + constructor. apply IH; [exact Hnd|]. intros q Hq. apply Hall. right. exact Hq.
Qed.

Lemma tp_flat_tabulate : forall spans v,
  tp_flat (map (fun k => (k, tp_ids_of k spans)) v) = flat_map (fun k => filter (fun p => String.eqb (fst p) k) spans) v.
Proof.
  intros spans v. unfold tp_flat. rewrite map_map, flat_map_concat_map. f_equal.
  apply map_ext. intros k. cbn [fst snd]. apply pair_ids_of.
Qed.

Lemma groups_every_span_once : forall order spans, Permutation (tp_flat (group_by_service order spans)) spans.
Proof.
  intros order spans. rewrite group_by_service_eq, tp_flat_tabulate.
  apply partition_by_key; [apply tp_visit_nodup|].
  intros p Hp. apply tp_visit_in. apply in_map. exact Hp.
Qed.

(* (c) no empty group *)
Lemma tp_ids_of_present : forall spans s, In s (map fst spans) -> tp_ids_of s spans <> [].
Proof.
  induction spans as [|p r IH]; intros s H; [destruct H|].
  unfold tp_ids_of in *. cbn [filter map] in *.
  destruct (String.eqb (fst p) s) eqn:E; [cbn [map]; discriminate|].
  destruct H as [H|H]; [subst s; rewrite String.eqb_refl in E; discriminate|].
  apply IH, H.
Qed.

Lemma groups_never_empty : forall order spans s l, In (s, l) (group_by_service order spans) -> l <> [].
Proof.
  intros order spans s l H. apply groups_members in H. destruct H as [Hin E]. subst l.
  apply tp_ids_of_present, Hin.
Qed.

(* ------------------------------------------------------------------------------------------ *)
(* the oracle of the check *)
Lemma tp_ids_eqb_eq : forall a b, tp_ids_eqb a b = true <-> a = b.
Proof.
  induction a as [|x a IH]; destruct b as [|y b]; cbn [tp_ids_eqb]; try (split; [discriminate|discriminate]).
  - split; reflexivity.
  - rewrite andb_true_iff, IH, Z.eqb_eq. split; [intros [-> ->]; reflexivity|intros E; inversion E; auto].
Qed.

Definition obs_group (o : tp_obs1) : string * list Z := (o_attr o, o_ids o).

(* what the oracle accepts: one ResourceSpans per service that has a span, resource and scope as documented,
   under each exactly the spans of its service in channel order, every span of the channel once *)
Lemma pb_oracle_sound : forall c, pb_violation c = false ->
  tp_status c = 200%Z /\ tp_valid c = true /\
  NoDup (map o_attr (tp_obs c)) /\
  (forall s, In s (map o_attr (tp_obs c)) <-> In s (map fst (tp_spans c))) /\
  (forall o, In o (tp_obs c) ->
     o_ids o = tp_ids_of (o_attr o) (tp_spans c) /\ o_ids o <> [] /\
     o_key o = tp_key_service_name /\ o_strval o = true /\ o_nattrs o = 1%N /\
     o_sname o = tp_scope_name /\ o_sver o = tp_scope_version /\ o_nscopes o = 1%N /\ o_extra o = 0%N) /\
  Permutation (tp_flat (map obs_group (tp_obs c))) (tp_spans c).
Proof.
  intros c H. unfold pb_violation in H.
  repeat (apply orb_false_iff in H; destruct H as [H ?]).
  repeat match goal with X : negb _ = false |- _ => apply negb_false_iff in X end.
  rename H into Hst, H4 into Hva, H3 into Hsh, H2 into Hnd, H1 into Hgr, H0 into Hcov.
  apply Z.eqb_eq in Hst. apply tp_nodup_iff in Hnd.
  rewrite forallb_forall in Hsh, Hgr, Hcov.
  assert (Hg : forall o, In o (tp_obs c) -> o_ids o = tp_ids_of (o_attr o) (tp_spans c) /\ o_ids o <> []).
  { intros o Ho. specialize (Hgr o Ho). unfold tp_group_ok in Hgr.
    destruct (o_ids o) as [|x l] eqn:E; [discriminate|]. apply tp_ids_eqb_eq in Hgr. split; [exact Hgr|discriminate]. }
  split; [exact Hst|]. split; [exact Hva|]. split; [exact Hnd|]. split; [|split].
  - intros s. split.
    + intros Hin. apply in_map_iff in Hin. destruct Hin as [o [E Ho]]. subst s.
      destruct (Hg o Ho) as [E Hne].
      destruct (in_dec string_dec (o_attr o) (map fst (tp_spans c))) as [Hy|Hn]; [exact Hy|].
      rewrite (tp_ids_of_absent _ _ Hn) in E. contradiction.
    + intros Hin. apply in_map_iff in Hin. destruct Hin as [p [E Hp]]. subst s.
      apply existsb_eqb_in. apply Hcov, Hp.
  - intros o Ho. destruct (Hg o Ho) as [E Hne]. split; [exact E|]. split; [exact Hne|].
    specialize (Hsh o Ho). unfold tp_shape_ok in Hsh.
    repeat (apply andb_true_iff in Hsh; destruct Hsh as [Hsh ?]).
    repeat match goal with X : String.eqb _ _ = true |- _ => apply String.eqb_eq in X
                         | X : N.eqb _ _ = true |- _ => apply N.eqb_eq in X end.
    auto 10.
  - assert (E : map obs_group (tp_obs c) = map (fun k => (k, tp_ids_of k (tp_spans c))) (map o_attr (tp_obs c))).
    { rewrite map_map. apply map_ext_in. intros o Ho. unfold obs_group. destruct (Hg o Ho) as [E _]. rewrite E. reflexivity. }
    rewrite E, tp_flat_tabulate. apply partition_by_key; [exact Hnd|].
    intros p Hp. apply existsb_eqb_in. apply Hcov, Hp.
Qed.

Lemma tp_ids_eqb_refl : forall a, tp_ids_eqb a a = true.
Proof. intros a. apply tp_ids_eqb_eq. reflexivity. Qed.

Lemma pb_doc_attrs : forall order spans, map o_attr (pb_doc order spans) = tp_visit order (tp_of spans).
Proof.
  intros order spans. unfold pb_doc. rewrite map_map. cbn [tp_obs_of_group o_attr]. apply group_keys.
Qed.

(* the document of the model is accepted by the oracle, whatever the map order *)
Lemma pb_doc_passes_oracle : forall id order spans,
  pb_violation {| tp_id := id; tp_spans := spans; tp_badspan := false; tp_status := 200; tp_valid := true;
                  tp_obs := pb_doc order spans |} = false.
Proof.
  intros id order spans. unfold pb_violation. cbn [tp_status tp_valid tp_obs tp_spans].
  assert (H1 : forallb tp_shape_ok (pb_doc order spans) = true).
  { apply forallb_forall. intros o Ho. unfold pb_doc in Ho. apply in_map_iff in Ho. destruct Ho as [g [E _]]. subst o. reflexivity. }
  assert (H2 : tp_nodup (map o_attr (pb_doc order spans)) = true).
  { apply tp_nodup_iff. rewrite pb_doc_attrs. apply tp_visit_nodup. }
  assert (H3 : forallb (tp_group_ok spans) (pb_doc order spans) = true).
  { apply forallb_forall. intros o Ho. unfold pb_doc in Ho. apply in_map_iff in Ho. destruct Ho as [[s l] [E Hg]]. subst o.
    unfold tp_group_ok. cbn [tp_obs_of_group o_ids o_attr fst snd].
    pose proof (groups_never_empty _ _ _ _ Hg) as Hne. apply groups_members in Hg. destruct Hg as [_ E]. subst l.
    destruct (tp_ids_of s spans) eqn:E; [contradiction|]. apply tp_ids_eqb_refl. }
  assert (H4 : forallb (fun p => existsb (String.eqb (fst p)) (map o_attr (pb_doc order spans))) spans = true).
  { apply forallb_forall. intros p Hp. apply existsb_eqb_in. rewrite pb_doc_attrs. apply tp_visit_in, in_map, Hp. }
  rewrite H1, H2, H3, H4. reflexivity.
Qed.

(* ------------------------------------------------------------------------------------------ *)
(* non-trivial values: three services interleaved, one of them with the empty name, span 2 delivered twice,
   the map visited in another order than the insertion order *)
Definition ex_spans : list (string * Z) :=
  [("a", 1); ("b", 2); ("", 3); ("a", 4); ("b", 2); ("", 5); ("a", 6)]%Z.
Definition ex_order : list string := ["b"; ""; "a"].

Example ex_groups : group_by_service ex_order ex_spans = [("b", [2; 2]); ("", [3; 5]); ("a", [1; 4; 6])]%Z.
Proof. vm_compute. reflexivity. Qed.
(* an order that is no permutation of the keys is not used *)
Example ex_groups_insertion_order :
  group_by_service ["b"; "b"; "a"] ex_spans = [("a", [1; 4; 6]); ("b", [2; 2]); ("", [3; 5])]%Z.
Proof. vm_compute. reflexivity. Qed.
Example ex_one_per_service : NoDup (map fst (group_by_service ex_order ex_spans)).
Proof. apply groups_one_per_service. Qed.
Example ex_every_span_once : Permutation (tp_flat (group_by_service ex_order ex_spans)) ex_spans.
Proof. apply groups_every_span_once. Qed.
Example ex_flat : tp_flat (group_by_service ex_order ex_spans) = [("b", 2); ("b", 2); ("", 3); ("", 5); ("a", 1); ("a", 4); ("a", 6)]%Z.
Proof. vm_compute. reflexivity. Qed.
Example ex_in_order : tp_get (group_by_service ex_order ex_spans) "" = [3; 5]%Z /\ tp_ids_of "" ex_spans = [3; 5]%Z.
Proof. split; vm_compute; reflexivity. Qed.
Example ex_never_empty : forall s l, In (s, l) (group_by_service ex_order ex_spans) -> l <> [].
Proof. apply groups_never_empty. Qed.
Example ex_oracle_accepts :
  pb_violation {| tp_id := 1; tp_spans := ex_spans; tp_badspan := false; tp_status := 200; tp_valid := true;
                  tp_obs := pb_doc ex_order ex_spans |} = false.
Proof. vm_compute. reflexivity. Qed.
(* the oracle rejects: a service split over two groups, a span listed twice, a span under another service,
   the spans of a service out of order *)
Definition ex_obs (l : list (string * list Z)) : list tp_obs1 := map tp_obs_of_group l.
Definition ex_case (l : list (string * list Z)) : tpcase :=
  {| tp_id := 1; tp_spans := ex_spans; tp_badspan := false; tp_status := 200; tp_valid := true; tp_obs := ex_obs l |}.
Example ex_oracle_rejects :
  pb_violation (ex_case [("b", [2; 2]); ("", [3; 5]); ("a", [1; 4]); ("a", [6])]%Z) = true /\
  pb_violation (ex_case [("b", [2; 2]); ("", [3; 5; 5]); ("a", [1; 4; 6])]%Z) = true /\
  pb_violation (ex_case [("b", [2; 2; 3]); ("", [5]); ("a", [1; 4; 6])]%Z) = true /\
  pb_violation (ex_case [("b", [2; 2]); ("", [3; 5]); ("a", [4; 1; 6])]%Z) = true /\
  pb_violation (ex_case [("b", [2; 2]); ("a", [1; 4; 6])]%Z) = true /\
  pb_violation (ex_case [("b", [2; 2]); ("", [3; 5]); ("a", [1; 4; 6])]%Z) = false.
Proof. vm_compute. repeat split. Qed.
(* a service name that is not UTF-8: the answer is the error *)
Example ex_status :
  pb_status false ex_spans = 200%Z /\
  pb_status false [("a", 1%Z); (String (ascii_of_nat 97) (String (ascii_of_nat 255) EmptyString), 2%Z)] = 500%Z /\
  pb_status true ex_spans = 500%Z.
Proof. vm_compute. repeat split. Qed.

Print Assumptions groups_one_per_service.
Print Assumptions groups_cover_services.
Print Assumptions groups_spans_in_order.
Print Assumptions groups_every_span_once.
Print Assumptions groups_never_empty.
Print Assumptions pb_oracle_sound.
Print Assumptions pb_doc_passes_oracle.
