(* C12 -- the concrete nodes of model/ReadPath.v meet the contracts of the generic theorem
   (proofs/PipelineProofs.v): they never stop receiving without draining (good_node), and they do not fault
   (nofault_node) -- FixPeriodPlanner only under fix_guard. *)
From Coq Require Import List ZArith Bool Lia.
From Qryn Require Import model.Pipeline model.ReadPath proofs.PipelineProofs.
Import ListNotations.
Open Scope Z_scope.

(* ------------------------------------------------------------------ Scan: entries[i] stays inside the 100-slot buffer *)
Lemma scan_index_bound : forall rows i, 0 <= i < 100 -> 0 <= scan_index rows i < 100.
Proof.
  induction rows as [|r tl IH]; intros i Hi; simpl; [exact Hi|].
  destruct (r_kind r); try exact Hi; apply IH; destruct (100 <=? i + 1) eqn:E; try lia;
    apply Z.leb_gt in E; lia.
Qed.

Lemma scan_good : good_node scan_node.
Proof.
  intros canc s m. simpl. unfold scan_on_msg. destruct m; try discriminate.
  destruct canc; [discriminate|]. destruct (r_kind r); try discriminate;
    destruct (100 <=? s_n s + 1); discriminate.
Qed.

Lemma scan_nofault : nofault_node scan_node.
Proof.
  split; [|reflexivity]. intros canc s m _. simpl. unfold scan_on_msg. destruct m; try reflexivity.
  destruct canc; [exact I|]. destruct (r_kind r); try exact I; destruct (100 <=? s_n s + 1); reflexivity.
Qed.

(* ------------------------------------------------------------------ WrapProcess, for EVERY callback triple *)
Lemma wrap_good : forall recov o, good_node (wrap_node_gen recov true o).
Proof.
  intros recov o canc s m. simpl. unfold wrap_on_msg. destruct m; try discriminate.
  destruct (fold_entries o s b []) as [[s1 b'] r1]. destruct r1; try discriminate.
  - destruct (o_slice o s1 b') as [[[s2 outs] cn] r2]. destruct r2; try discriminate; destruct recov; discriminate.
  - destruct recov; discriminate.
Qed.

Lemma fold_entries_nofatal : forall o, (forall s e, snd (o_entry o s e) <> CbFatal) ->
  forall es s acc, snd (fold_entries o s es acc) <> CbFatal.
Proof.
  intros o Ho. induction es as [|e tl IH]; intros s acc; simpl; [discriminate|].
  specialize (Ho s e). destruct (o_entry o s e) as [[s' e'] r]. simpl in Ho.
  destruct r; simpl; auto.
Qed.

Lemma wrap_nofault : forall o, ops_nofatal o -> nofault_node (wrap_node o).
Proof.
  intros o [He [Hs Hn]]. split.
  - intros canc s m _. simpl. unfold wrap_on_msg. destruct m; try reflexivity.
    pose proof (fold_entries_nofatal o He b s []) as Hf.
    destruct (fold_entries o s b []) as [[s1 b'] r1]. simpl in Hf. destruct r1; try exact I; try congruence.
    specialize (Hs s1 b'). destruct (o_slice o s1 b') as [[[s2 outs] cn] r2]. simpl in Hs.
    destruct r2; try exact I; try reflexivity; congruence.
  - intros canc s _. simpl. unfold wrap_on_close. specialize (Hn s). destruct (o_end o s) as [outs r]. simpl in Hn.
    destruct r; try reflexivity; congruence.
Qed.

Lemma zero_eater_nofatal : ops_nofatal zero_eater_ops.
Proof.
  split; [|split]; simpl.
  - intros s e. destruct (e_val e =? 0); discriminate.
  - intros s es. destruct (s_buf s); discriminate.
  - discriminate.
Qed.
Lemma parser_nofatal : ops_nofatal parser_ops.
Proof.
  split; [|split]; simpl; discriminate.
Qed.
Lemma limit_nofatal : forall lim, ops_nofatal (limit_ops lim).
Proof.
  intros lim. split; [|split]; simpl; try discriminate.
  intros s es. destruct (lim <=? s_n s); [discriminate|].
  destruct (s_n s + Z.of_nat (length es) <? lim); discriminate.
Qed.
Lemma optimizer_nofatal : ops_nofatal optimizer_ops.
Proof.
  split; [|split]; simpl; try discriminate.
  - intros s es. destruct (s_n s <? 3000); discriminate.
  - intros s. destruct (s_n s =? 0); discriminate.
Qed.
Lemma agg_nofatal : forall from dur slen, slen * 2 <= max_elems -> ops_nofatal (agg_ops from dur slen).
Proof.
  intros from dur slen Hb. split; [|split]; simpl; try discriminate.
  intros s e. destruct (e_err e); simpl; try discriminate.
  destruct (has_group (s_groups s) (e_fp e)).
  - destruct ((slot from dur e * 2 <? 0) || (slen * 2 <=? slot from dur e * 2 + 1)); discriminate.
  - destruct (2000 <=? Z.of_nat (length (s_groups s))); [discriminate|].
    unfold alloc. destruct (slen * 2 <? 0); [discriminate|].
    destruct (max_elems <? slen * 2) eqn:E; [apply Z.ltb_lt in E; lia|].
    destruct ((slot from dur e * 2 <? 0) || (slen * 2 <=? slot from dur e * 2 + 1)); discriminate.
Qed.

(* ------------------------------------------------------------------ encoders, OutputQuery *)
Lemma enc_good : forall k, good_node (enc_node k).
Proof.
  intros k canc s m. simpl. unfold enc_on_msg. destruct m; try discriminate.
  destruct (enc_scan k b []) as [outs stopped]. destruct stopped; discriminate.
Qed.
Lemma enc_nofault : forall k, nofault_node (enc_node k).
Proof.
  intros k. split; [|reflexivity]. intros canc s m _. simpl. unfold enc_on_msg. destruct m; try reflexivity.
  destruct (enc_scan k b []) as [outs stopped]. destruct stopped; [exact I|reflexivity].
Qed.
Lemma oq_good : good_node oq_node.
Proof. intros canc s m. simpl. destruct m; try discriminate. destruct k; discriminate. Qed.
Lemma oq_nofault : nofault_node oq_node.
Proof.
  split; [|reflexivity]. intros canc s m _. simpl. destruct m; try reflexivity. destruct k; try reflexivity; exact I.
Qed.

(* the handler loops: they keep receiving after a failed write *)
Lemma handler_good : good_node (handler_node (S:=st) (M:=msg) true).
Proof. intros canc s m. simpl. rewrite andb_false_r. discriminate. Qed.
Lemma handler_nofault : nofault_node (handler_node (S:=st) (M:=msg) true).
Proof. split; [|reflexivity]. intros canc s m _. simpl. rewrite andb_false_r. reflexivity. Qed.
(* a handler that returns at the first failed write abandons the pipeline *)
Lemma handler_must_keep_receiving : ~ good_node (handler_node (S:=st) (M:=msg) false).
Proof. intros H. apply (H true st0 (MStr false)). reflexivity. Qed.

(* ------------------------------------------------------------------ FixPeriodPlanner *)
Lemma fix_good : forall c, good_node (fixperiod_node c).
Proof.
  intros c canc s m. simpl. unfold fix_on_msg. destruct m; try discriminate.
  destruct (fix_fold c (s, []) b) as [[s' outs]|]; discriminate.
Qed.

Lemma guard_facts : forall c, fix_guard c = true ->
  0 < f_step c /\ 0 < f_dur c /\ f_from c <= f_to c /\ Z.quot (f_to c - f_from c) (f_step c) + 1 <= max_elems.
Proof.
  intros c H. unfold fix_guard in H. repeat (apply andb_prop in H; destruct H as [H ?]).
  apply Z.ltb_lt in H. apply Z.ltb_lt in H2. apply Z.leb_le in H1. apply Z.leb_le in H0. auto.
Qed.

(* the arithmetic of one entry: under the guard no division by zero, no bad allocation, no bad slice *)
Lemma fix_entry_safe : forall c s outs e, fix_guard c = true -> fix_ok s = true ->
  exists s' outs', fix_entry c (s, outs) e = Some (s', outs') /\ fix_ok s' = true.
Proof.
  intros c s outs e Hg Hok. destruct (guard_facts c Hg) as [Hstep [Hdur [Hft Hmax]]].
  unfold fix_entry.
  assert (Hq : 0 <= Z.quot (f_to c - f_from c) (f_step c)) by (apply Z.quot_pos; lia).
  set (r1 := if (0 <=? s_len s) && (e_fp e =? s_fp s) then Some (s, outs)
             else if f_step c =? 0 then None
             else if (Z.quot (f_to c - f_from c) (f_step c) + 1 <? 0) || (max_elems <? Z.quot (f_to c - f_from c) (f_step c) + 1)
                  then None
                  else Some (with_fix s (e_fp e) (Z.quot (f_to c - f_from c) (f_step c) + 1) false, outs ++ fix_export s)).
  assert (Hr1 : exists s1 outs1, r1 = Some (s1, outs1) /\ 1 <= s_len s1).
  { unfold r1. destruct ((0 <=? s_len s) && (e_fp e =? s_fp s)) eqn:E1.
    - exists s, outs. split; [reflexivity|]. apply andb_prop in E1. destruct E1 as [E1 _]. apply Z.leb_le in E1.
      unfold fix_ok in Hok. apply orb_prop in Hok. destruct Hok as [Hk|Hk]; [apply Z.ltb_lt in Hk; lia|apply Z.leb_le in Hk; exact Hk].
    - destruct (f_step c =? 0) eqn:E2; [apply Z.eqb_eq in E2; lia|].
      destruct (Z.quot (f_to c - f_from c) (f_step c) + 1 <? 0) eqn:E3; [apply Z.ltb_lt in E3; lia|].
      destruct (max_elems <? Z.quot (f_to c - f_from c) (f_step c) + 1) eqn:E4; [apply Z.ltb_lt in E4; lia|].
      simpl. eexists _, _. split; [reflexivity|]. simpl. lia. }
  destruct Hr1 as [s1 [outs1 [Er1 Hlen]]]. fold r1. rewrite Er1.
  destruct (f_dur c =? 0) eqn:E5; [apply Z.eqb_eq in E5; lia|].
  destruct (f_step c =? 0) eqn:E6; [apply Z.eqb_eq in E6; lia|]. simpl.
  set (q := Z.quot (e_ts e) (f_dur c)).
  set (iF := Z.quot (q * f_dur c - f_from c) (f_step c)).
  set (iT := Z.quot ((q + 1) * f_dur c - f_from c) (f_step c)).
  assert (HFT : iF <= iT) by (apply Z.quot_le_mono; lia).
  assert (Hok1 : fix_ok s1 = true) by (unfold fix_ok; apply orb_true_intro; right; apply Z.leb_le; exact Hlen).
  replace (Z.max (s_len s1) 0) with (s_len s1) by lia.
  destruct ((iT <? 0) || (s_len s1 <=? iF)) eqn:E7.
  - exists s1, outs1. split; [reflexivity|exact Hok1].
  - apply orb_false_elim in E7. destruct E7 as [E7 E8]. apply Z.ltb_ge in E7. apply Z.leb_gt in E8.
    destruct (s_len s1 <=? iT) eqn:E9.
    + destruct (s_len s1 - 1 <? Z.max iF 0) eqn:E10; [apply Z.ltb_lt in E10; lia|].
      eexists _, _. split; [reflexivity|]. unfold fix_ok. simpl. apply orb_true_intro. right. apply Z.leb_le. exact Hlen.
    + destruct (iT <? Z.max iF 0) eqn:E10; [apply Z.ltb_lt in E10; lia|].
      eexists _, _. split; [reflexivity|]. unfold fix_ok. simpl. apply orb_true_intro. right. apply Z.leb_le. exact Hlen.
Qed.

Lemma fix_fold_safe : forall c, fix_guard c = true -> forall es s outs, fix_ok s = true ->
  exists s' outs', fix_fold c (s, outs) es = Some (s', outs') /\ fix_ok s' = true.
Proof.
  intros c Hg. induction es as [|e tl IH]; intros s outs Hok; cbn [fix_fold].
  - exists s, outs. auto.
  - destruct (fix_entry_safe c s outs e Hg Hok) as [s1 [o1 [E1 Hok1]]]. rewrite E1. apply IH. exact Hok1.
Qed.

Lemma fix_nofault : forall c, fix_guard c = true -> nofault_node (fixperiod_node c).
Proof.
  intros c Hg. split; [|reflexivity]. intros canc s m Hok. simpl in *. unfold fix_on_msg. destruct m; try exact Hok.
  destruct (fix_fold_safe c Hg b s [] Hok) as [s' [outs' [E Hok']]]. rewrite E. simpl. exact Hok'.
Qed.

(* ------------------------------------------------------------------ the chains *)
Lemma recv_fresh : forall n : node st msg, n_ok n st0 = true -> fresh_stage (recv_cell n).
Proof. intros n H. split; [reflexivity|exact H]. Qed.
Lemma enc_fresh : forall k, fresh_stage (enc_cell k).
Proof. intros k. split; reflexivity. Qed.

Ltac fcons := apply Forall_cons; [simpl|].

Lemma stages_good : forall sh c, Forall (fun x => good_node (c_node x)) (stages_of sh c).
Proof.
  intros sh c. destruct sh; simpl;
    repeat (fcons; [first [apply scan_good | apply (wrap_good true) | apply fix_good | apply enc_good | apply handler_good]|]);
    constructor.
Qed.

Lemma stages_fresh : forall sh c, Forall fresh_stage (stages_of sh c).
Proof.
  intros sh c. destruct sh; simpl; repeat (fcons; [split; reflexivity|]); constructor.
Qed.

Lemma stages_nofault : forall sh c, shape_guard sh c = true -> Forall (fun x => nofault_node (c_node x)) (stages_of sh c).
Proof.
  intros sh c Hg. destruct sh; simpl in *.
  - fcons; [apply scan_nofault|]. fcons; [apply enc_nofault|]. fcons; [apply handler_nofault|]. constructor.
  - fcons; [apply scan_nofault|]. fcons; [apply wrap_nofault, parser_nofatal|].
    fcons; [apply wrap_nofault, limit_nofatal|]. fcons; [apply wrap_nofault, optimizer_nofatal|].
    fcons; [apply enc_nofault|]. fcons; [apply handler_nofault|]. constructor.
  - fcons; [apply scan_nofault|]. fcons; [apply wrap_nofault, zero_eater_nofatal|].
    fcons; [apply fix_nofault; exact Hg|]. fcons; [apply enc_nofault|]. fcons; [apply handler_nofault|]. constructor.
  - apply andb_prop in Hg. destruct Hg as [Hg Hs]. apply Z.leb_le in Hs.
    fcons; [apply scan_nofault|]. fcons; [apply wrap_nofault, parser_nofatal|].
    fcons; [apply wrap_nofault, agg_nofatal; exact Hs|]. fcons; [apply wrap_nofault, zero_eater_nofatal|].
    fcons; [apply fix_nofault; exact Hg|]. fcons; [apply enc_nofault|]. fcons; [apply handler_nofault|]. constructor.
Qed.

(* what the controller lets through *)
Lemma max_elems_val : max_elems = 134217728.
Proof. reflexivity. Qed.

(* what the planner lets through satisfies the whole guard: positive step and range, from <= to, at most 11,001 points
   per series and 100,000 range windows *)
Lemma plan_guard : forall sh0 q from_s to_s ms lim sh c, 0 < ms -> from_s <= to_s ->
  plan sh0 q from_s to_s ms lim = PRun sh c -> shape_guard sh c = true.
Proof.
  intros sh0 q from_s to_s ms lim sh c Hms Hft Hp. unfold plan in Hp.
  destruct (q_dur_s q <=? 0) eqn:Ed.
  - destruct sh0; try discriminate; injection Hp as <- <-; reflexivity.
  - apply Z.leb_gt in Ed. cbv zeta in Hp. cbn [f_to f_from f_step] in Hp.
    pose proof max_elems_val as Hmax. unfold max_points, max_windows in Hp.
    destruct sh0.
    + destruct (q_query_err q); [discriminate|]. injection Hp as <- <-. reflexivity.
    + destruct (q_query_err q); [discriminate|]. injection Hp as <- <-. reflexivity.
    + destruct (int64_limit <=? _) eqn:Ei in Hp; [discriminate|].
      destruct (11000 <? _) eqn:Ep in Hp; [discriminate|]. apply Z.ltb_ge in Ep.
      destruct (q_query_err q); [discriminate|]. injection Hp as <- <-.
      unfold shape_guard, fix_guard. cbn [p_fix f_to f_from f_step f_dur].
      rewrite !andb_true_iff. split; [split; [split|]|].
      * apply Z.ltb_lt. lia.
      * apply Z.ltb_lt. lia.
      * apply Z.leb_le. lia.
      * apply Z.leb_le. lia.
    + destruct (int64_limit <=? _) eqn:Ei in Hp; [discriminate|].
      destruct (11000 <? _) eqn:Ep in Hp; [discriminate|]. apply Z.ltb_ge in Ep.
      destruct (100000 <? _) eqn:Ew in Hp; [discriminate|]. apply Z.ltb_ge in Ew.
      destruct (q_query_err q); [discriminate|]. injection Hp as <- <-.
      unfold shape_guard, fix_guard. cbn [p_fix p_slen f_to f_from f_step f_dur].
      rewrite !andb_true_iff. split; [split; [split; [split|]|]|].
      * apply Z.ltb_lt. lia.
      * apply Z.ltb_lt. lia.
      * apply Z.leb_le. lia.
      * apply Z.leb_le. lia.
      * apply Z.leb_le. lia.
Qed.

(* the window of an accepted matrix request fits int64 nanoseconds: _to - _from does not wrap around (fix 7e7939d) *)
Definition is_matrix (sh : shape) : bool := match sh with ShRate | ShAggJson => true | _ => false end.
Lemma plan_window_fits : forall sh0 q from_s to_s ms lim sh c, 0 < q_dur_s q ->
  plan sh0 q from_s to_s ms lim = PRun sh c -> is_matrix sh = true ->
  f_to (p_fix c) - f_from (p_fix c) < int64_limit.
Proof.
  intros sh0 q from_s to_s ms lim sh c Hd Hp Hm. unfold plan in Hp.
  destruct (q_dur_s q <=? 0) eqn:Ed; [apply Z.leb_le in Ed; lia|].
  cbv zeta in Hp. cbn [f_to f_from f_step] in Hp.
  destruct sh0.
  - destruct (q_query_err q); [discriminate|]. injection Hp as <- <-. discriminate.
  - destruct (q_query_err q); [discriminate|]. injection Hp as <- <-. discriminate.
  - destruct (int64_limit <=? _) eqn:Ei in Hp; [discriminate|]. apply Z.leb_gt in Ei.
    destruct (max_points <? _) in Hp; [discriminate|].
    destruct (q_query_err q); [discriminate|]. injection Hp as <- <-. cbn [p_fix f_to f_from]. exact Ei.
  - destruct (int64_limit <=? _) eqn:Ei in Hp; [discriminate|]. apply Z.leb_gt in Ei.
    destruct (max_points <? _) in Hp; [discriminate|]. destruct (max_windows <? _) in Hp; [discriminate|].
    destruct (q_query_err q); [discriminate|]. injection Hp as <- <-. cbn [p_fix f_to f_from]. exact Ei.
Qed.

Lemma accepted_guard : forall q sh c, prelude_of q = PRun sh c -> shape_guard sh c = true.
Proof.
  intros q sh c H. unfold prelude_of in H.
  destruct (negb (q_has_query q)); [discriminate|].
  destruct (q_instant q).
  - destruct (q_end q) eqn:Ee; try discriminate;
      destruct (step_ms (q_step q)) as [ms|]; try discriminate;
      destruct (limit_of 100 (q_limit q) <? 0); try discriminate;
      destruct (ms <=? 0) eqn:Em; try discriminate; apply Z.leb_gt in Em;
      destruct (q_shape q) as [sh0|]; try discriminate; destruct (q_boot_fail q); try discriminate;
      eapply plan_guard; eauto; lia.
  - destruct (negb (is_num (q_start q)) || negb (is_num (q_end q))); [discriminate|].
    destruct (step_ms (q_step q)) as [ms|]; try discriminate.
    destruct (limit_of 0 (q_limit q) <? 0); try discriminate.
    destruct (ms <=? 0) eqn:Em; try discriminate. apply Z.leb_gt in Em.
    destruct (num_of (q_end q) <? num_of (q_start q)) eqn:Er; try discriminate. apply Z.ltb_ge in Er.
    destruct (q_shape q) as [sh0|]; try discriminate. destruct (q_boot_fail q); try discriminate. eapply plan_guard; eauto.
Qed.

(* ------------------------------------------------------------------ instances of the generic theorems *)
Notation configT := (config st msg).

Lemma read_chain_terminates : forall sh c rows, shape_guard sh c = true ->
  let c0 := init_config (map MRow rows) (stages_of sh c) in
  Acc (fun c' c1 : configT => step c1 c') c0 /\
  forall cf, star c0 cf -> crashed cf = false /\ (quiescent cf -> all_done (cells cf)).
Proof.
  intros sh c rows Hg. apply chain_terminates; auto using stages_good, stages_nofault, stages_fresh.
Qed.

(* for EVERY request the controller and the planner accept, and every result set: no crash, no leak *)
Lemma accepted_chain_terminates : forall q sh c rows, prelude_of q = PRun sh c ->
  let c0 := init_config (map MRow rows) (stages_of sh c) in
  Acc (fun c' c1 : configT => step c1 c') c0 /\
  forall cf, star c0 cf -> crashed cf = false /\ (quiescent cf -> all_done (cells cf)).
Proof. intros q sh c rows H. apply read_chain_terminates. eapply accepted_guard. exact H. Qed.

Lemma read_chain_no_leak : forall sh c rows,
  let c0 := init_config (map MRow rows) (stages_of sh c) in
  Acc (fun c' c1 : configT => step c1 c') c0 /\
  forall cf, star c0 cf -> quiescent cf -> crashed cf = true \/ all_done (cells cf).
Proof.
  intros sh c rows. apply chain_no_leak; auto using stages_good, stages_fresh.
Qed.

Lemma trace_chain_terminates : forall rows : list spank,
  let c0 := init_config (map MSpanRow rows) trace_stages in
  Acc (fun c' c1 : configT => step c1 c') c0 /\
  forall cf, star c0 cf -> crashed cf = false /\ (quiescent cf -> all_done (cells cf)).
Proof.
  intros rows. apply chain_terminates; unfold trace_stages.
  - fcons; [apply oq_good|]. fcons; [apply handler_good|constructor].
  - fcons; [apply oq_nofault|]. fcons; [apply handler_nofault|constructor].
  - fcons; [split; reflexivity|]. fcons; [split; reflexivity|constructor].
Qed.

(* Scan, then ANY number of WrapProcess stages with ANY callbacks, then an encoder *)
Definition wrap_chain (opsl : list ops) (k : enck) : list (cell st msg) :=
  recv_cell scan_node :: map (fun o => recv_cell (wrap_node o)) opsl ++ [enc_cell k; handler_cell].

Lemma wrap_chain_good : forall opsl k, Forall (fun x => good_node (c_node x)) (wrap_chain opsl k).
Proof.
  intros opsl k. unfold wrap_chain. fcons; [apply scan_good|]. apply Forall_app. split.
  - apply Forall_map. apply Forall_forall. intros o _. simpl. apply (wrap_good true).
  - fcons; [apply enc_good|]. fcons; [apply handler_good|constructor].
Qed.
Lemma wrap_chain_fresh : forall opsl k, Forall fresh_stage (wrap_chain opsl k).
Proof.
  intros opsl k. unfold wrap_chain. fcons; [split; reflexivity|]. apply Forall_app. split.
  - apply Forall_map. apply Forall_forall. intros o _. split; reflexivity.
  - fcons; [split; reflexivity|]. fcons; [split; reflexivity|constructor].
Qed.
Lemma wrap_chain_nofault : forall opsl k, Forall ops_nofatal opsl -> Forall (fun x => nofault_node (c_node x)) (wrap_chain opsl k).
Proof.
  intros opsl k H. unfold wrap_chain. fcons; [apply scan_nofault|]. apply Forall_app. split.
  - apply Forall_map. eapply Forall_impl; [|exact H]. intros o Ho. simpl. apply wrap_nofault. exact Ho.
  - fcons; [apply enc_nofault|]. fcons; [apply handler_nofault|constructor].
Qed.

Lemma wrap_chain_no_leak : forall opsl k rows,
  let c0 := init_config (map MRow rows) (wrap_chain opsl k) in
  Acc (fun c' c1 : configT => step c1 c') c0 /\
  forall cf, star c0 cf -> quiescent cf -> crashed cf = true \/ all_done (cells cf).
Proof. intros. apply chain_no_leak; auto using wrap_chain_good, wrap_chain_fresh. Qed.

Lemma wrap_chain_terminates : forall opsl k rows, Forall ops_nofatal opsl ->
  let c0 := init_config (map MRow rows) (wrap_chain opsl k) in
  Acc (fun c' c1 : configT => step c1 c') c0 /\
  forall cf, star c0 cf -> crashed cf = false /\ (quiescent cf -> all_done (cells cf)).
Proof. intros. apply chain_terminates; auto using wrap_chain_good, wrap_chain_fresh, wrap_chain_nofault. Qed.

(* one tick of the live tail, any in-process stages *)
Lemma ws_handler_good : good_node ws_handler_node.
Proof. intros canc s m. simpl. destruct canc; discriminate. Qed.
Lemma ws_handler_nofault : nofault_node ws_handler_node.
Proof. split; [|reflexivity]. intros canc s m _. simpl. destruct canc; [exact I|reflexivity]. Qed.

Lemma tail_tick_terminates : forall opsl rows, Forall ops_nofatal opsl ->
  let c0 := init_config (map MRow rows) (tail_tick opsl) in
  Acc (fun c' c1 : configT => step c1 c') c0 /\
  forall cf, star c0 cf -> crashed cf = false /\ (quiescent cf -> all_done (cells cf)).
Proof.
  intros opsl rows H. apply chain_terminates; unfold tail_tick.
  - fcons; [apply scan_good|]. apply Forall_app. split.
    + apply Forall_map. apply Forall_forall. intros o _. simpl. apply (wrap_good true).
    + fcons; [apply enc_good|]. fcons; [apply ws_handler_good|constructor].
  - fcons; [apply scan_nofault|]. apply Forall_app. split.
    + apply Forall_map. eapply Forall_impl; [|exact H]. intros o Ho. simpl. apply wrap_nofault. exact Ho.
    + fcons; [apply enc_nofault|]. fcons; [apply ws_handler_nofault|constructor].
  - fcons; [split; reflexivity|]. apply Forall_app. split.
    + apply Forall_map. apply Forall_forall. intros o _. split; reflexivity.
    + fcons; [split; reflexivity|]. fcons; [split; reflexivity|constructor].
Qed.

(* the executable run used by the correspondence is one of the schedules the theorems speak about *)
Lemma run_is_a_schedule : forall fuel canc (l : list (cell st msg)) r l',
  run fuel canc l = (r, l') -> r <> RFuel ->
  exists canc' k, star (mkConfig canc false l) (mkConfig canc' k l') /\
                  (r = RCrash <-> k = true) /\ (k = false -> quiescent (mkConfig canc' k l')).
Proof.
  induction fuel as [|f IH]; intros canc l r l' H Hr; simpl in H; [injection H as <- <-; congruence|].
  destruct (sched canc l) as [[[c1 k1] l1]|] eqn:Es.
  - pose proof (sched_sound _ _ _ _ _ _ _ Es) as Hs.
    destruct k1.
    + injection H as <- <-. exists c1, true. split; [|split].
      * eapply star_step; [|apply star_refl]. split; [reflexivity|left; exact Hs].
      * split; auto.
      * discriminate.
    + destruct (IH _ _ _ _ H Hr) as [c2 [k2 [Hst [Hk Hstuck]]]]. exists c2, k2. split; [|split; assumption].
      eapply star_step; [|exact Hst]. split; [reflexivity|left; exact Hs].
  - injection H as <- <-. exists canc, false. split; [apply star_refl|split].
    + split; [destruct (forallb _ l); discriminate|discriminate].
    + intros _ canc' k l' Hs. simpl in Hs. eapply (sched_complete _ _ _ _ Es). exact Hs.
Qed.

(* ------------------------------------------------------------------ what the three protections are for *)
Definition panic_ops : ops := mkOps (fun s e => (s, e, CbPanic)) (fun s _ => (s, [], false, CbOk)) (fun _ => ([], CbOk)).

(* without an effective TamePanic a panicking callback is a process crash *)
Lemma tamepanic_needed : ~ nofault_node (wrap_node_gen false true panic_ops).
Proof. intros [H _]. exact (H false st0 (MBatch [err_entry]) eq_refl). Qed.
(* without the drainer a failing stage abandons its upstream *)
Lemma stage_drainer_needed : ~ good_node (wrap_node_gen true false (agg_ops 0 1 1)).
Proof. intros H. apply (H false st0 (MBatch [err_entry])). reflexivity. Qed.
(* an encoder that returns at the error entry without draining abandons the pipeline *)
Lemma encoder_drain_needed : ~ good_node (enc_node_gen false EncStreams).
Proof. intros H. apply (H false st0 (MBatch [err_entry])). reflexivity. Qed.
(* and then a chain really gets stuck: the optimizer still has a group to send *)
Definition leak_rows : list row :=
  [mkRow 0 10 0 ROk; mkRow 1 20 0 ROk; mkRow 3 30 0 RBad].
Definition leaky_chain : list (cell st msg) :=
  [recv_cell scan_node; recv_cell (wrap_node optimizer_ops); mkCell (enc_node_gen false EncStreams) (CSend [MStr false] (ACont st0))].
Lemma encoder_without_drain_leaks :
  fst (run 1000 false (cells (init_config (map MRow leak_rows) leaky_chain))) = RStuck.
Proof. vm_compute. reflexivity. Qed.

(* ------------------------------------------------------------------ the hypotheses of the theorems are satisfiable *)
Definition typical_fix : fpctx := mkFp 1700000040000000000 1700000340000000000 15000000000 60000000000.
Example fix_guard_typical : fix_guard typical_fix = true.
Proof. vm_compute. reflexivity. Qed.
Definition typical_pctx : pctx := mkP typical_fix 100 1700000040000000000 6 false.
Example shape_guard_typical : forallb (fun sh => shape_guard sh typical_pctx) [ShLog; ShLogJson; ShRate; ShAggJson] = true.
Proof. vm_compute. reflexivity. Qed.
Example nofatal_typical : Forall ops_nofatal [parser_ops; limit_ops 100; optimizer_ops; zero_eater_ops].
Proof. repeat (apply Forall_cons; [auto using parser_nofatal, limit_nofatal, optimizer_nofatal, zero_eater_nofatal|]). constructor. Qed.
(* a typical request: 250 samples in 3 series through Scan -> ZeroEater -> FixPeriod -> matrix writer *)
Definition typical_rows : list row :=
  map (fun i => row_at 1700000040 (1 + i / 100) (i mod 100 * 3) 1 2 ROk) (map Z.of_nat (seq 0 250)).
Definition typical_request (sh : shape) : request :=
  mkReq false true (Some sh) 60 (PNum 1700000040) (PNum 1700000340) (PNum 15000) (PNum 100) typical_rows (-1) false false.
Example typical_requests_answered :
  map (fun sh => model_outcome (typical_request sh)) [ShLog; ShLogJson; ShRate; ShAggJson] = [O2xx; O2xx; O2xx; O2xx].
Proof. vm_compute. reflexivity. Qed.
Definition typical_ctx : pctx := match prelude_of (typical_request ShRate) with PRun _ c => c | PResp _ => typical_pctx end.
Example typical_request_accepted :
  prelude_of (typical_request ShRate) = PRun ShRate typical_ctx /\ shape_guard ShRate typical_ctx = true.
Proof. split; vm_compute; reflexivity. Qed.

(* ------------------------------------------------------------------ what speaks for each allow-listed (unrecovered) body *)
From Qryn Require Import model.ReaderGoroutines.

Definition class_obligation (c : body_class) : Prop :=
  match c with
  | BScan => good_node scan_node /\ nofault_node scan_node /\ (forall rows, 0 <= scan_index rows 0 < 100)
  | BFixPeriod => (forall c, good_node (fixperiod_node c)) /\ (forall c, fix_guard c = true -> nofault_node (fixperiod_node c))
  | BEncoder => forall k, good_node (enc_node k) /\ nofault_node (enc_node k)
  (* BDrainer is the drained state of the LTS itself; the remaining classes are accounted by their census only *)
  | _ => True
  end.

Lemma allowlisted_bodies_have_their_lemma : forall a, In a allow_list -> class_obligation (a_class a).
Proof.
  assert (H : forall c, class_obligation c).
  { intros c. destruct c; simpl; auto.
    - split; [apply scan_good|split; [apply scan_nofault|]]. intros rows. apply scan_index_bound. split; [apply Z.le_refl|reflexivity].
    - split; [apply fix_good|apply fix_nofault].
    - intros k. split; [apply enc_good|apply enc_nofault]. }
  intros a _. apply H.
Qed.

(* hypotheses of plan_window_fits are met by the typical request; a window of 317 years is refused although its number
   of points (10) is below the cap *)
Example window_fits_nontrivial :
  (exists c, plan ShRate (typical_request ShRate) 1700000040 1700000340 15000 0 = PRun ShRate c) /\
  is_matrix ShRate = true /\ 0 < q_dur_s (typical_request ShRate) /\
  plan ShRate (typical_request ShRate) (-5000000000) 5000000000 1000000000000 0 = PResp O5xx /\
  Z.quot ((5000000000 - -5000000000) * 1000000000) (1000000000000 * 1000000) = 10.
Proof. split; [eexists; vm_compute; reflexivity|]. vm_compute. auto. Qed.
