(* C02: the rows of ONE parsed span push are pairwise different over all its chunks and sub-requests (what fresh_run asks of
   a push): row identities are drawn from a counter that no flush resets, so the batches of a push occupy consecutive,
   disjoint ranges of it. *)
From Coq Require Import List String Ascii ZArith NArith Bool Lia Permutation.
From Qryn Require Import model.IngestRobust model.IngestPipe proofs.IngestPipeProofs.
From Qryn Require Import model.Ingest model.PushHandler model.IngestSpec model.IngestBridge.
From Qryn Require Import proofs.IngestBase proofs.IngestSpecProofs proofs.IngestBridgeProofs.
Import ListNotations.
Open Scope string_scope.

(* every row identity stored in a field satisfies P *)
Definition all_ids (P : N -> Prop) (m : fcols) : Prop := forall f l, In (f, l) m -> forall x, In x l -> P x.

Lemma all_ids_add P t os rid m : all_ids P m -> P rid -> all_ids P (add_ids t os rid m).
Proof.
  intros H Hr f l Hin x Hx. unfold add_ids in Hin. apply in_map_iff in Hin as ([f0 l0] & E & H0). cbn in E. inversion E; subst.
  apply in_app_iff in Hx as [Hx|Hx]; [exact (H _ _ H0 _ Hx)|]. apply repeat_spec in Hx. now subst.
Qed.
Lemma all_ids_mono (P Q : N -> Prop) m : (forall x, P x -> Q x) -> all_ids P m -> all_ids Q m.
Proof. intros PQ H f l Hin x Hx. apply PQ. exact (H _ _ Hin _ Hx). Qed.
Lemma all_ids_zero P fields : all_ids P (zero_fcols fields).
Proof. intros f l Hin x Hx. unfold zero_fcols in Hin. apply in_map_iff in Hin as (g & E & _). inversion E; subst. destruct Hx. Qed.

(* the batch was started when the counter stood at lo: everything in it was drawn since *)
Definition cb_rng (lo : N) (b : cbatch) : Prop :=
  (lo <= cb_next b)%N /\ all_ids (fun x => (lo <= x < cb_next b)%N) (cb_spans b) /\ all_ids (fun x => (lo <= x < cb_next b)%N) (cb_attrs b).

Lemma cb_rng0 sf af n : cb_rng n (cbatch0 sf af n).
Proof. split; [cbn; lia|]. split; apply all_ids_zero. Qed.

Lemma cops_rng os b i nv b' lo : cb_rng lo b -> exec_cops_c b os (cb_next b) i nv = Some b' -> cb_rng lo (bump_next b').
Proof.
  intros (L & S & A) E. destruct (exec_cops_c_ids _ _ _ _ _ _ E) as (Es & Ea & _ & En).
  unfold cb_rng, bump_next. cbn [cb_next cb_spans cb_attrs]. rewrite En, Es, Ea. split; [lia|].
  split; (apply all_ids_add; [eapply all_ids_mono; [|eassumption]; cbn; intros; lia|lia]).
Qed.
Lemma loop_rng os todo : forall b i nv b' lo, cb_rng lo b -> exec_loop_c b os i todo nv = Some b' -> cb_rng lo b'.
Proof.
  induction todo as [|t IH]; intros b i nv b' lo R H; cbn [exec_loop_c] in H; [inversion H; subst; exact R|].
  destruct (exec_cops_c b os (cb_next b) i nv) as [b1|] eqn:E; [|discriminate]. eapply IH; [|exact H]. eapply cops_rng; eauto.
Qed.

(* one call: the batches sent were started at lo and end below the start of what comes next *)
Lemma on_span_rng h sf af b s b' sent lo : hp_flush_resets h = true -> cb_rng lo b -> on_span_cells h sf af b s = CStOk b' sent ->
  exists lo', cb_rng lo' b' /\ (lo <= lo')%N /\ Forall (fun x => cb_rng lo x /\ (cb_next x <= lo')%N) sent.
Proof.
  intros Hf R H. unfold on_span_cells in H.
  destruct (hp_width_check h && negb ((se_tid s =? 16)%N && (se_sid s =? 8)%N)); [discriminate|].
  destruct (exec_cops_c b (hp_once h) (cb_next b) 0 (se_vals s)) as [b1|] eqn:E1; [|discriminate].
  destruct (exec_loop_c (bump_next b1) (hp_loop h) 0 (se_keys s) (se_vals s)) as [b2|] eqn:E2; [|discriminate].
  pose proof (loop_rng _ _ _ _ _ _ _ (cops_rng _ _ _ _ _ _ R E1) E2) as R2.
  set (b3 := {| cb_spans := cb_spans b2; cb_attrs := cb_attrs b2; cb_size := (cb_size b2 + se_bytes s)%N; cb_next := cb_next b2 |}) in H.
  assert (R3 : cb_rng lo b3) by exact R2.
  destruct (MiB <? cb_size b3)%N; inversion H; subst; clear H.
  - rewrite Hf. exists (cb_next b3). split; [apply cb_rng0|]. destruct R3 as (L & _). split; [exact L|].
    constructor; [split; [exact R2|lia]|constructor].
  - exists lo. split; [exact R3|]. split; [lia|constructor].
Qed.

(* the rows of a push, sub-request by sub-request, chunk by chunk *)
Fixpoint push_rids (items : list item) : list N :=
  match items with
  | [] => []
  | IChunk c :: t => List.concat (map (fun x : nat * kind * req * Z => rids_of (snd (fst x))) c) ++ push_rids t
  | IError :: t => push_rids t
  end.

Lemma push_rids_cons x t : push_rids (x :: t) = (push_rids [x] ++ push_rids t)%list.
Proof. destruct x as [c|]; cbn [push_rids]; [now rewrite app_nil_r|reflexivity]. Qed.

Section ROWS.
  Variables (h : handler_prog) (sf af : list string).
  Hypothesis Hok : handler_ok h sf af (kind_fields KSpans) (kind_fields KTags) = true.

  Let Hf : hp_flush_resets h = true.
  Proof. unfold handler_ok in Hok. repeat (apply andb_true_iff in Hok as [Hok ?]). assumption. Qed.

  (* the rows of one chunk: the attribute rows, then the span rows; all drawn since the batch was started *)
  Lemma chunk_rids w b lo : cb_inv sf af b -> cb_rng lo b ->
    exists ids, push_rids [span_chunk w b] = ids /\ NoDup ids /\ forall x, In x ids -> (lo <= x < cb_next b)%N.
  Proof.
    destruct (cover_spans h sf af _ _ Hok eq_refl eq_refl) as [Cs Ca].
    intros (s & a & Hs & Ha & Hd & _) (L & Rs & Ra). cbn [push_rids span_chunk map List.concat fst snd]. rewrite app_nil_r, app_nil_r.
    rewrite Hs, Ha, (rids_req_of_const _ _ _ Cs), (rids_req_of_const _ _ _ Ca). eexists. split; [reflexivity|]. split.
    - exact (Permutation_NoDup (Permutation_app_comm s a) Hd).
    - intros x Hx. apply in_app_iff in Hx as [Hx|Hx].
      + destruct af as [|f0 af']; [cbn in Ca; discriminate Ca|]. rewrite Ha in Ra. exact (Ra f0 a (or_introl eq_refl) x Hx).
      + destruct sf as [|f0 sf']; [cbn in Cs; discriminate Cs|]. rewrite Hs in Rs. exact (Rs f0 s (or_introl eq_refl) x Hx).
  Qed.

  Lemma nodup_app_ranges (a b : list N) mid : NoDup a -> NoDup b -> (forall x, In x a -> (x < mid)%N) -> (forall x, In x b -> (mid <= x)%N) ->
    NoDup (a ++ b).
  Proof.
    intros Na Nb Ha Hb. apply nodup_app_disj; [exact Na|exact Nb|]. intros x Hx Hx'. specialize (Ha x Hx). specialize (Hb x Hx'). lia.
  Qed.

  Theorem span_push_rows_distinct w evs : forall b lo, cb_inv sf af b -> cb_rng lo b ->
    NoDup (push_rids (span_items h sf af w b evs)) /\ forall x, In x (push_rids (span_items h sf af w b evs)) -> (lo <= x)%N.
  Proof.
    induction evs as [|ev evs IH]; intros b lo Hb Rb; cbn [span_items].
    - destruct (chunk_rids w b lo Hb Rb) as (ids & E & Nd & Rg). rewrite E. split; [exact Nd|]. intros x Hx. specialize (Rg x Hx). lia.
    - destruct ev as [s| |t]; [|split; [constructor|intros x []]|split; [constructor|intros x []]].
      destruct (on_span_cells h sf af b s) as [b' sent| |] eqn:E; [|split; [constructor|intros x []]|split; [constructor|intros x []]].
      destruct (on_span_cells_inv h sf af _ _ Hok _ _ _ _ Hb E) as [Hb' Hsent].
      destruct (on_span_rng _ _ _ _ _ _ _ _ Hf Rb E) as (lo' & Rb' & Llo & Rsent).
      destruct (IH b' lo' Hb' Rb') as [Nd Lo].
      (* at most one batch is sent by a call *)
      assert (Hlen : sent = [] \/ exists b3, sent = [b3]).
      { clear - E. unfold on_span_cells in E. destruct (hp_width_check h && _); [discriminate|].
        destruct (exec_cops_c _ _ _ _ _) as [b1|]; [|discriminate]. destruct (exec_loop_c _ _ _ _ _) as [b2|]; [|discriminate].
        destruct (MiB <? _)%N; inversion E; subst; eauto. }
      destruct Hlen as [->|(b3 & ->)]; cbn [map app].
      + split; [exact Nd|]. intros x Hx. specialize (Lo x Hx). lia.
      + inversion Hsent as [|? ? Hb3 _]; subst. inversion Rsent as [|? ? [Rb3 Nx3] _]; subst.
        destruct (chunk_rids w b3 lo Hb3 Rb3) as (ids & E3 & Nd3 & Rg3).
        rewrite push_rids_cons.
        { rewrite E3. split.
          - apply (nodup_app_ranges _ _ lo'); [exact Nd3|exact Nd| |exact Lo]. intros x Hx. specialize (Rg3 x Hx). lia.
          - intros x Hx. apply in_app_iff in Hx as [Hx|Hx]; [specialize (Rg3 x Hx); lia|specialize (Lo x Hx); lia]. }
  Qed.
End ROWS.

(* ---------------------------------------------------------------- the same for a push of onEntries calls *)
Lemma all_ids_push_many (P : N -> Prop) f l m : all_ids P m -> (forall x, In x l -> P x) -> all_ids P (push_many f l m).
Proof.
  intros H Hl g l' Hin x Hx. unfold push_many in Hin. apply in_map_iff in Hin as ([g0 l0] & E & H0). cbn [fst snd] in E.
  destruct (String.eqb g0 f); inversion E; subst; [|exact (H _ _ H0 _ Hx)].
  apply in_app_iff in Hx as [Hx|Hx]; [exact (H _ _ H0 _ Hx)|exact (Hl _ Hx)].
Qed.
Lemma all_ids_fold_spl (P : N -> Prop) e base ops : forall m, all_ids P m ->
  (forall s x, In x (ids_from base (src_len e s)) -> P x) ->
  all_ids P (fold_left (fun m o => push_many (lop_field o) (ids_from base (src_len e (lop_src o))) m) ops m).
Proof.
  induction ops as [|o ops IH]; intros m H Hl; cbn [fold_left]; [exact H|]. apply IH; [|exact Hl].
  apply all_ids_push_many; [exact H|apply Hl].
Qed.
Lemma all_ids_fold_ts (P : N -> Prop) l fs : forall m, all_ids P m -> (forall x, In x l -> P x) ->
  all_ids P (fold_left (fun m f => push_many f l m) fs m).
Proof.
  induction fs as [|f fs IH]; intros m H Hl; cbn [fold_left]; [exact H|]. apply IH; [|exact Hl]. now apply all_ids_push_many.
Qed.

Definition cl_rng (lo : N) (b : clbatch) : Prop :=
  (lo <= cl_next b)%N /\ all_ids (fun x => (lo <= x < cl_next b)%N) (cl_spl b) /\ all_ids (fun x => (lo <= x < cl_next b)%N) (cl_ts b).
Lemma cl_rng0 sf tf n : cl_rng n (clbatch0 sf tf n).
Proof. split; [cbn; lia|]. split; apply all_ids_zero. Qed.

Lemma src_len_span e s : src_len e s <= ent_span e.
Proof. unfold ent_span. destruct s; cbn [src_len]; lia. Qed.

Lemma on_entries_rng p sf tf b e b' sent lo : ep_flush_resets p = true -> cl_rng lo b -> on_entries_cells p sf tf b e = CLOk b' sent ->
  exists lo', cl_rng lo' b' /\ (lo <= lo')%N /\ Forall (fun x => cl_rng lo x /\ (cl_next x <= lo')%N) sent /\
              (sent = [] \/ exists b3, sent = [b3]).
Proof.
  intros Hf (L & S & T) H. unfold on_entries_cells in H. cbv zeta in H.
  destruct (en_lbl_short e); [discriminate|]. destruct (en_bad_type e || Nat.ltb (en_msg e) (en_ts e)); [discriminate|].
  match type of H with context [(MiB <? cl_size ?x)%N] => set (b3 := x) in H end.
  assert (R3 : cl_rng lo b3).
  { unfold cl_rng, b3. cbn [cl_next cl_spl cl_ts]. split; [lia|]. split.
    - apply all_ids_fold_spl; [eapply all_ids_mono; [|exact S]; cbn; intros; lia|].
      intros s x Hx. apply ids_from_below in Hx. pose proof (src_len_span e s). lia.
    - apply all_ids_fold_ts; [eapply all_ids_mono; [|exact T]; cbn; intros; lia|].
      intros x Hx. apply ids_from_below in Hx. lia. }
  destruct (MiB <? cl_size b3)%N; inversion H; subst; clear H.
  - rewrite Hf. exists (cl_next b3). split; [apply cl_rng0|]. pose proof R3 as (L3 & _). split; [exact L3|].
    split; [constructor; [split; [exact R3|lia]|constructor]|right; eauto].
  - exists lo. split; [exact R3|]. split; [lia|]. split; [constructor|now left].
Qed.

Section LROWS.
  Variables (p : entries_prog) (sf tf : list string).
  Hypothesis Hok : entries_ok p sf tf (kind_fields KSamples) (kind_fields KSeries) = true.
  Hypothesis Hmet : fields_cover sf KMetrics = true.

  Let Hf : ep_flush_resets p = true.
  Proof. exact (entries_ok_flush _ _ _ _ _ Hok). Qed.
  Let covers : fields_cover sf KSamples = true /\ fields_cover tf KSeries = true.
  Proof.
    unfold entries_ok in Hok. repeat (apply andb_true_iff in Hok as [Hok ?]). split; assumption.
  Qed.

  Lemma lchunk_rids w b lo : samples_kind_ok (w_samples_kind w) = true -> cl_inv sf tf b -> cl_rng lo b ->
    exists ids, push_rids [logs_chunk w b] = ids /\ NoDup ids /\ forall x, In x ids -> (lo <= x < cl_next b)%N.
  Proof.
    destruct covers as [Cs Ct].
    intros Hk (s & t & Hs & Ht & Hd & _) (L & Rs & Rt). cbn [push_rids logs_chunk map List.concat fst snd]. rewrite app_nil_r, app_nil_r.
    rewrite Hs, Ht, (rids_req_of_const _ _ _ Ct).
    assert (Ek : rids_of (req_of (w_samples_kind w) (const_fcols sf s)) = s).
    { destruct (w_samples_kind w); try discriminate; [exact (rids_req_of_const _ _ _ Cs)|exact (rids_req_of_const _ _ _ Hmet)]. }
    rewrite Ek. eexists. split; [reflexivity|]. split.
    - exact (Permutation_NoDup (Permutation_app_comm s t) Hd).
    - intros x Hx. apply in_app_iff in Hx as [Hx|Hx].
      + destruct tf as [|f0 tf']; [cbn in Ct; discriminate Ct|]. rewrite Ht in Rt. exact (Rt f0 t (or_introl eq_refl) x Hx).
      + destruct sf as [|f0 sf']; [cbn in Cs; discriminate Cs|]. rewrite Hs in Rs. exact (Rs f0 s (or_introl eq_refl) x Hx).
  Qed.

  Theorem logs_push_rows_distinct w evs : samples_kind_ok (w_samples_kind w) = true -> events_consistent evs = true ->
    forall b lo, cl_inv sf tf b -> cl_rng lo b ->
    NoDup (push_rids (logs_items p sf tf w b evs)) /\ forall x, In x (push_rids (logs_items p sf tf w b evs)) -> (lo <= x)%N.
  Proof.
    intros Hk. induction evs as [|ev evs IH]; intros Hc b lo Hb Rb; cbn [logs_items].
    - destruct (lchunk_rids w b lo Hk Hb Rb) as (ids & E & Nd & Rg). rewrite E. split; [exact Nd|]. intros x Hx. specialize (Rg x Hx). lia.
    - cbn [events_consistent forallb] in Hc. apply andb_true_iff in Hc as [Hc1 Hc2].
      destruct ev as [e| |t]; [|split; [constructor|intros x []]|split; [constructor|intros x []]].
      destruct (on_entries_cells p sf tf b e) as [b' sent|] eqn:E; [|split; [constructor|intros x []]].
      destruct (on_entries_cells_inv p sf tf _ _ Hok _ _ _ _ Hb Hc1 E) as [Hb' Hsent].
      destruct (on_entries_rng _ _ _ _ _ _ _ _ Hf Rb E) as (lo' & Rb' & Llo & Rsent & Hlen).
      destruct (IH Hc2 b' lo' Hb' Rb') as [Nd Lo].
      destruct Hlen as [->|(b3 & ->)]; cbn [map app].
      + split; [exact Nd|]. intros x Hx. specialize (Lo x Hx). lia.
      + inversion Hsent as [|? ? Hb3 _]; subst. inversion Rsent as [|? ? [Rb3 Nx3] _]; subst.
        destruct (lchunk_rids w b3 lo Hk Hb3 Rb3) as (ids & E3 & Nd3 & Rg3). rewrite push_rids_cons, E3. split.
        * apply nodup_app_disj; [exact Nd3|exact Nd|]. intros x Hx Hx'. specialize (Rg3 x Hx). specialize (Lo x Hx'). lia.
        * intros x Hx. apply in_app_iff in Hx as [Hx|Hx]; [specialize (Rg3 x Hx); lia|specialize (Lo x Hx); lia].
  Qed.
End LROWS.

(* ---------------------------------------------------------------- towards fresh_run: the rows a push contributes to trace_rids *)
From Qryn Require Import model.IngestFresh proofs.IngestFreshFrom.

Lemma chunk_owners_rids h c : forall i, map fst (chunk_owners h i c) = List.concat (map (fun x : nat * kind * req * Z => rids_of (snd (fst x))) c).
Proof.
  induction c as [|x c IH]; intros i; [reflexivity|]. cbn [chunk_owners map List.concat]. rewrite map_app, map_map. cbn [fst].
  now rewrite map_id, IH.
Qed.
(* what a push contributes to trace_rids is the beginning of push_rids (up to the first error response) *)
Lemma items_owners_prefix h items : forall i, exists rest, push_rids items = (map fst (items_owners h i items) ++ rest)%list.
Proof.
  induction items as [|[c|] t IH]; intros i; cbn [items_owners push_rids map].
  - exists []. reflexivity.
  - destruct (IH (i + List.length c)%nat) as (rest & E). exists rest. rewrite map_app, chunk_owners_rids, E. now rewrite app_assoc.
  - exists (push_rids t). reflexivity.
Qed.

(* the demo of IngestBridgeProofs.v (a span push drawing from 100, a log push drawing from 200) is named apart, so its blocks
   are tables of pairwise distinct rows *)
Example parsed_demo_is_fresh :
  forallb no_env bridge_demo = true /\ NoDup (trace_rids bridge_demo) /\
  fresh_run (own_of bridge_demo) (ginit bridge_cfg 1) bridge_demo = true.
Proof.
  assert (E : trace_rids bridge_demo = [101; 102; 100; 103; 202; 200; 201]%N) by (vm_compute; reflexivity).
  assert (Nd : NoDup (trace_rids bridge_demo)).
  { rewrite E. repeat (constructor; [cbn; intros H; repeat (destruct H as [H|H]; [discriminate H|]); exact H|]). constructor. }
  assert (Ne : forallb no_env bridge_demo = true) by (vm_compute; reflexivity).
  split; [exact Ne|]. split; [exact Nd|]. apply fresh_from_distinct; [exact Ne|exact Nd].
Qed.
