(* Property C06, round 8: the service name the read path reports is the service_name column of the stored row
   (model/SpansSvc.v).  Proofs. *)
From Coq Require Import List ZArith NArith Bool String Ascii Lia.
From Qryn Require Import model.Spans model.SpansSvc proofs.SpansProofs.
Import ListNotations.
Open Scope string_scope.
Open Scope Z_scope.

(* ================================================================== prefixes *)
Lemma sapp_assoc (a b c : string) : ((a ++ b) ++ c = a ++ (b ++ c))%string.
Proof. induction a as [|x a IH]; cbn; [reflexivity|]. now rewrite IH. Qed.

Lemma has_prefix_app_false p z K : has_prefix p K = false -> has_prefix (p ++ z) K = false.
Proof.
  revert K. induction p as [|a p IH]; intros K H; cbn in *; [discriminate|].
  destruct K as [|b K]; [reflexivity|]. destruct (Ascii.eqb a b); cbn in *; [apply IH, H|reflexivity].
Qed.

Lemma has_prefix_self_ext K c z : has_prefix (K ++ String c z) K = false.
Proof. induction K as [|a K IH]; cbn; [reflexivity|]. rewrite Ascii.eqb_refl. exact IH. Qed.

Lemma has_prefix_refl K : has_prefix K K = true.
Proof. induction K as [|a K IH]; cbn; [reflexivity|]. now rewrite Ascii.eqb_refl. Qed.

(* ================================================================== which keys the flattening writes *)
(* every key written by [flat_val lists name v] begins with [name] *)
Lemma flat_val_other v : forall lists name m m' K,
  flat_val lists name v m = Some m' -> has_prefix name K = false -> lookup K m' = lookup K m.
Proof.
  induction v as [s|z|b|d|s| | |l HF|l HF] using aval_ind'; intros lists name m m' K H Hp; cbn [flat_val] in H;
    try (inversion H; subst; try reflexivity;
         apply lookup_upsert_other; intros ->; rewrite has_prefix_refl in Hp; discriminate);
    try discriminate.
  - (* list *)
    destruct lists; [|inversion H; subst; reflexivity].
    revert H. generalize 0%N. revert m.
    induction HF as [|x l Hx Hl IHl]; intros m i H.
    + inversion H; subst; reflexivity.
    + destruct (flat_val true (name ++ "." ++ print_N i) x m) as [m1|] eqn:E; [|discriminate].
      rewrite (IHl m1 (i + 1)%N H). apply (Hx _ _ _ _ _ E). apply has_prefix_app_false, Hp.
  - (* kvlist *)
    revert m H.
    induction HF as [|x l Hx Hl IHl]; intros m H.
    + inversion H; subst; reflexivity.
    + destruct (flat_val lists (name ++ "." ++ fst x) (snd x) m) as [m1|] eqn:E; [|discriminate].
      rewrite (IHl m1 H). apply (Hx _ _ _ _ _ E). apply has_prefix_app_false, Hp.
Qed.

Definition composite (v : aval) : bool := match v with AList _ | AMap _ => true | _ => false end.

(* a list or key-value list writes keys of the form name.y only *)
Lemma flat_val_composite v lists name m m' K :
  composite v = true -> (forall y, has_prefix (name ++ "." ++ y) K = false) ->
  flat_val lists name v m = Some m' -> lookup K m' = lookup K m.
Proof.
  intros Hc Hp H. destruct v as [s|z|b|d|s| | |l|l]; try discriminate; clear Hc; cbn [flat_val] in H.
  - destruct lists; [|inversion H; subst; reflexivity].
    revert H. generalize 0%N. revert m.
    induction l as [|x l IHl]; intros m i H.
    + inversion H; subst; reflexivity.
    + destruct (flat_val true (name ++ "." ++ print_N i) x m) as [m1|] eqn:E; [|discriminate].
      rewrite (IHl m1 (i + 1)%N H). apply (flat_val_other _ _ _ _ _ _ E), Hp.
  - revert m H.
    induction l as [|x l IHl]; intros m H.
    + inversion H; subst; reflexivity.
    + destruct (flat_val lists (name ++ "." ++ fst x) (snd x) m) as [m1|] eqn:E; [|discriminate].
      rewrite (IHl m1 H). apply (flat_val_other _ _ _ _ _ _ E), Hp.
Qed.

(* a first-level attribute whose name is not K and whose name followed by '.' does not begin K leaves K alone *)
Lemma flat_val_unrelated v lists name m m' K :
  name <> K -> has_prefix (name ++ ".") K = false ->
  flat_val lists name v m = Some m' -> lookup K m' = lookup K m.
Proof.
  intros Hne Hp H. destruct (composite v) eqn:Ec.
  - apply (flat_val_composite v lists name m m' K Ec); [|exact H].
    intros y. replace (name ++ "." ++ y) with ((name ++ ".") ++ y) by apply sapp_assoc. apply has_prefix_app_false, Hp.
  - destruct v; try discriminate; cbn [flat_val] in H; try discriminate;
      inversion H; subst; try reflexivity; apply lookup_upsert_other; congruence.
Qed.

(* "service" is the only name whose key-value list reaches the key service.name *)
Lemma dot_prefix_service k : has_prefix (k ++ ".") k_service = true -> k = k_svc_prefix.
Proof.
  unfold k_service, k_svc_prefix. intros H.
  repeat (destruct k as [|c k];
          [cbn in H; first [discriminate H | reflexivity]
          |cbn [append has_prefix] in H; apply andb_prop in H; destruct H as [Hc H]; apply Ascii.eqb_eq in Hc; subst c]).
  all: try (cbn in H; discriminate H).
  all: try (destruct k; cbn in H; discriminate H).
Qed.

(* ================================================================== the flattened service.name *)
(* what one first-level attribute does to the flattened key service.name *)
Definition svc_str (v : aval) (cur : option string) : option string :=
  match v with
  | AStr s => Some s | ABool b => Some (if b then "true" else "false") | ADouble d => Some (print_f6 d) | AInt z => Some (print_Z z)
  | _ => cur
  end.
Definition svc_step (cur : option string) (kv : string * aval) : option string :=
  if String.eqb (fst kv) k_service then svc_str (snd kv) cur else cur.

Lemma flat_val_svc k v m m' :
  k <> k_svc_prefix -> flat_val true k v m = Some m' -> lookup k_service m' = svc_step (lookup k_service m) (k, v).
Proof.
  intros Hk H. unfold svc_step. cbn [fst snd]. destruct (String.eqb_spec k k_service) as [->|Hne].
  - destruct (composite v) eqn:Ec.
    + rewrite (flat_val_composite v true k_service m m' k_service Ec); [destruct v; try discriminate; reflexivity| |exact H].
      intros y. apply has_prefix_self_ext.
    + destruct v; try discriminate; cbn [flat_val] in H; try discriminate; inversion H; subst; cbn [svc_str];
        try reflexivity; apply lookup_upsert_same.
  - apply (flat_val_unrelated v true k m m' k_service Hne); [|exact H].
    destruct (has_prefix (k ++ ".") k_service) eqn:E; [|reflexivity]. apply dot_prefix_service in E. contradiction.
Qed.

Lemma flat_attrs_svc a : forall m m',
  (forall kv, In kv a -> fst kv <> k_svc_prefix) -> flat_attrs true a m = Some m' ->
  lookup k_service m' = fold_left svc_step a (lookup k_service m).
Proof.
  induction a as [|[k v] a IH]; intros m m' Hno H; cbn [flat_attrs fst snd fold_left] in *.
  - inversion H; subst; reflexivity.
  - destruct (flat_val true k v m) as [m1|] eqn:E; [|discriminate].
    rewrite (IH m1 m' (fun kv Hin => Hno kv (or_intror Hin)) H).
    rewrite (flat_val_svc k v m m1 (Hno (k, v) (or_introl eq_refl)) E). reflexivity.
Qed.

(* the last service.name attribute decides when it is a string *)
Lemma fold_svc_last a : forall cur s, lookup k_service (rev a) = Some (AStr s) -> fold_left svc_step a cur = Some s.
Proof.
  induction a as [|[k v] a IH] using rev_ind; intros cur s H; [discriminate|].
  rewrite fold_left_app. cbn [fold_left]. rewrite rev_app_distr in H. cbn [rev app lookup] in H.
  unfold svc_step at 1. cbn [fst snd]. rewrite (String.eqb_sym k k_service).
  destruct (String.eqb k_service k).
  - inversion H; subst. reflexivity.
  - apply (IH _ _ H).
Qed.

Lemma guard_no_service_key (a : attrs) :
  lookup k_svc_prefix (of_list a) = None -> forall kv, In kv a -> fst kv <> k_svc_prefix.
Proof.
  intros H kv Hin E.
  assert (Hl : lookup k_svc_prefix a <> None).
  { apply lookup_in_keys. rewrite <- E. apply in_map, Hin. }
  apply (of_list_has_key a k_svc_prefix Hl H).
Qed.

(* ================================================================== one OTLP span *)
Definition service_coherent (p : pushed) (sr : span_rows) (o : option rspan) : Prop :=
  exists r, o = Some r /\ rs_service r = t_service (fst sr) /\ t_service (fst sr) = p_service p /\
            In (k_service, p_service p) (map kv_of (snd sr)).

Lemma otlp_span_service ra s sr p :
  otlp_span fixed ra s = Some sr -> otlp_pushed ra s = Some p -> svc_guard p = true ->
  service_coherent p sr (read_row fixed [] (fst sr)) /\ lookup k_service (p_attrs p) = Some (AStr (p_service p)).
Proof.
  intros Hs Hp Hg.
  destruct (otlp_span_pushed _ _ _ _ Hs Hp) as [[Hrow Htags] [Hpt [Hpl [Hattrs [Hord _]]]]].
  unfold svc_guard in Hg. rewrite Hord, Hattrs in Hg.
  set (a := populate (o_attrs s ++ ra)%list) in *.
  destruct (lookup k_service (of_list a)) as [[s0| | | | | | | |]|] eqn:El; try discriminate.
  destruct (String.eqb s0 "") eqn:Ee; [discriminate|]. cbn [negb andb] in Hg.
  destruct (lookup k_svc_prefix (of_list a)) eqn:Ep; [discriminate|].
  (* the write side *)
  assert (Hps : p_service p = s0 /\ lookup k_service (p_tags p) = Some s0).
  { unfold otlp_pushed in Hp. fold a in Hp. destruct (flat_attrs true a []) as [m|] eqn:Ef; [|discriminate].
    inversion Hp; subst p; cbn [p_service p_tags].
    rewrite lookup_upsert_other by (unfold k_service, k_name; discriminate).
    rewrite (flat_attrs_svc a [] m (guard_no_service_key a Ep) Ef).
    rewrite of_list_lookup in El. rewrite (fold_svc_last a _ s0 El). split; reflexivity. }
  destruct Hps as [Hps Htag].
  split; [|rewrite Hattrs, Hps; exact El].
  destruct Hrow as [_ [_ [_ [_ [_ [_ [Hsv _]]]]]]].
  unfold read_row. rewrite Hpt, Hpl. cbn [Z.eqb Pos.eqb].
  eexists. split; [reflexivity|]. split; [|split; [exact Hsv|]].
  - rewrite Hsv, Hps. unfold parse_otlp. cbn [fixed q_peer_first with_attrs o_attrs rs_service first_nonempty].
    rewrite El. cbn [str_nonempty]. rewrite Ee. reflexivity.
  - destruct Htags as [_ Hperm]. apply (Permutation.Permutation_in _ (Permutation.Permutation_sym Hperm)).
    rewrite Hps. apply lookup_some_in, Htag.
Qed.

(* ================================================================== every span of every accepted OTLP request *)
Lemma otlp_service_l b rows ps :
  decode fixed (InOtlp b) = Some rows -> pushed_of (InOtlp b) = Some ps ->
  Forall2 (fun p sr => svc_guard p = true -> service_coherent p sr (read_row fixed [] (fst sr))) ps rows.
Proof.
  cbn [decode pushed_of]. intros Hd0. apply otlp_decode_some in Hd0. destruct Hd0 as [Hd0 _]. revert Hd0.
  rewrite (otlp_decode_flat b). generalize (batch_spans b). intros l.
  revert rows ps. induction l as [|[ra s] l IH]; intros rows ps Hd Hp; cbn [mapM fst snd] in Hd, Hp.
  - inversion Hd; inversion Hp. constructor.
  - destruct (otlp_span fixed ra s) as [sr|] eqn:Es; [|discriminate].
    destruct (mapM (fun x => otlp_span fixed (fst x) (snd x)) l) as [rs|]; [|discriminate].
    destruct (otlp_pushed ra s) as [p|] eqn:Ep; [|discriminate].
    destruct (mapM (fun x => otlp_pushed (fst x) (snd x)) l) as [ps'|]; [|discriminate].
    inversion Hd; inversion Hp; subst. constructor.
    + intros Hg. apply (otlp_span_service ra s sr p Es Ep Hg).
    + apply IH; reflexivity.
Qed.

(* ================================================================== one Zipkin span *)
Lemma zipkin_pushed_service fs p :
  zipkin_pushed (JObj fs) = Some p ->
  p_service p = spec_zipkin_service fs /\ In (k_service, p_service p) (p_tags p) /\ p_ordered p = true.
Proof.
  unfold zipkin_pushed.
  destruct (jget "traceId" fs) as [t|]; [|discriminate]. destruct (jget "id" fs) as [i0|]; [|discriminate].
  destruct (hex_field 32 t) as [tid|]; [|discriminate]. destruct (hex_field 16 i0) as [sid|]; [|discriminate].
  destruct (opt_field (jget "parentId" fs) "" (hex_field 16)) as [par|]; [|discriminate].
  destruct (opt_field (jget "timestamp" fs) 0 time_field) as [ts|]; [|discriminate].
  destruct (opt_field (jget "duration" fs) 0 time_field) as [dur|]; [|discriminate].
  destruct (opt_field (jget "name" fs) None (fun v => match v with JStr s => Some (Some s) | _ => None end)) as [nm|]; [|discriminate].
  destruct (ep_ok "localEndpoint" fs && ep_ok "remoteEndpoint" fs &&
            match jget "tags" fs with None => true | Some (JObj _) => true | Some _ => false end); [|discriminate].
  intros H. inversion H; subst p; clear H. cbn [p_service p_tags p_ordered].
  split; [reflexivity|]. split; [|reflexivity]. apply in_or_app. right. now left.
Qed.

(* parseZipkinJSON's service name is the write side's: the local endpoint's serviceName unless absent or empty, then the remote one's *)
Lemma parse_zipkin_service q row fs r :
  ep_ok "localEndpoint" fs = true -> ep_ok "remoteEndpoint" fs = true ->
  parse_zipkin q row (JObj fs) = Some r -> rs_service r = spec_zipkin_service fs.
Proof.
  unfold parse_zipkin, spec_zipkin_service, ep_service, read_endpoint, ep_ok, jget_str. intros Hl Hr.
  destruct (Nat.ltb (String.length (t_trace row)) 16 || Nat.ltb (String.length (t_span row)) 8); [discriminate|].
  destruct (jget "localEndpoint" fs) as [[| | | | |lep|]|]; try discriminate Hl;
    destruct (jget "remoteEndpoint" fs) as [[| | | | |rep|]|]; try discriminate Hr;
    intros H; inversion H; subst r; clear H; cbn [rs_service].
  - destruct (jget "serviceName" lep) as [[]|]; try discriminate Hl; destruct (jget "serviceName" rep) as [[]|]; try discriminate Hr;
      try reflexivity; destruct (String.eqb _ ""); reflexivity.
  - destruct (jget "serviceName" lep) as [[]|]; try discriminate Hl; try reflexivity; destruct (String.eqb _ ""); reflexivity.
  - destruct (jget "serviceName" rep) as [[]|]; try discriminate Hr; reflexivity.
  - reflexivity.
Qed.

Lemma zipkin_pushed_ep_ok fs p : zipkin_pushed (JObj fs) = Some p -> ep_ok "localEndpoint" fs = true /\ ep_ok "remoteEndpoint" fs = true.
Proof.
  unfold zipkin_pushed.
  destruct (jget "traceId" fs) as [t|]; [|discriminate]. destruct (jget "id" fs) as [i0|]; [|discriminate].
  destruct (hex_field 32 t) as [tid|]; [|discriminate]. destruct (hex_field 16 i0) as [sid|]; [|discriminate].
  destruct (opt_field (jget "parentId" fs) "" (hex_field 16)) as [par|]; [|discriminate].
  destruct (opt_field (jget "timestamp" fs) 0 time_field) as [ts|]; [|discriminate].
  destruct (opt_field (jget "duration" fs) 0 time_field) as [dur|]; [|discriminate].
  destruct (opt_field (jget "name" fs) None (fun v => match v with JStr s => Some (Some s) | _ => None end)) as [nm|]; [|discriminate].
  destruct (ep_ok "localEndpoint" fs); [|discriminate]. destruct (ep_ok "remoteEndpoint" fs); [|discriminate]. intros _. split; reflexivity.
Qed.

Lemma zipkin_service_one es_all i e sr st' p :
  decode_span fixed (set_payload z_init (PRef i)) e = Some (sr, st') -> z_wellformed e = true -> zipkin_pushed e = Some p ->
  nth_error es_all (N.to_nat i) = Some e ->
  service_coherent p sr (read_row fixed es_all (fst sr)).
Proof.
  intros Hd Hwf Hp Hn.
  destruct (zipkin_read_one es_all i e sr st' p Hd Hwf Hp Hn) as (r & Hread & _).
  destruct (decode_span_pushed _ _ _ _ _ Hd Hwf Hp) as [[Hrow _] [Hpt [Hpl [_ Hkv]]]].
  destruct e as [| | | | |fs|]; try discriminate Hp.
  destruct (zipkin_pushed_service fs p Hp) as [Hsvc [Hin _]]. destruct (zipkin_pushed_ep_ok fs p Hp) as [Hl Hr].
  destruct Hrow as [_ [_ [_ [_ [_ [_ [Hsv _]]]]]]].
  exists r. split; [exact Hread|]. split; [|split; [exact Hsv|rewrite Hkv; exact Hin]].
  rewrite Hsv, Hsvc. unfold read_row in Hread. rewrite Hpt, Hpl, Hn in Hread. cbn [Z.eqb Pos.eqb] in Hread.
  apply (parse_zipkin_service fixed (fst sr) fs r Hl Hr Hread).
Qed.

Lemma zipkin_service_from nd es_all es : forall i st rows ps,
  (forall k e, nth_error es k = Some e -> nth_error es_all (N.to_nat i + k) = Some e) ->
  zipkin_from fixed nd i st es = Some rows -> forallb z_wellformed es = true -> mapM zipkin_pushed es = Some ps ->
  Forall2 (fun p sr => service_coherent p sr (read_row fixed es_all (fst sr))) ps rows.
Proof.
  induction es as [|e es IH]; intros i st rows ps Hidx Hd Hwf Hp.
  - cbn in Hd, Hp. inversion Hd; inversion Hp. constructor.
  - cbn [zipkin_from] in Hd. replace (nd && q_nd_stateful fixed) with false in Hd by (cbn; now rewrite andb_false_r).
    destruct (decode_span fixed (set_payload z_init (PRef i)) e) as [[sr st']|] eqn:Ed; [|discriminate].
    destruct (zipkin_from fixed nd (i + 1) st' es) as [rs|] eqn:Er; [|discriminate]. inversion Hd; subst rows; clear Hd.
    cbn [forallb] in Hwf. apply andb_prop in Hwf. destruct Hwf as [Hwe Hwf].
    cbn [mapM] in Hp. destruct (zipkin_pushed e) as [p|] eqn:Epu; [|discriminate].
    destruct (mapM zipkin_pushed es) as [ps'|] eqn:Eps; [|discriminate]. inversion Hp; subst ps; clear Hp.
    constructor.
    + apply (zipkin_service_one es_all i e sr st' p Ed Hwe Epu).
      specialize (Hidx 0%nat e eq_refl). now rewrite Nat.add_0_r in Hidx.
    + apply (IH (i + 1)%N st' rs ps'); try assumption; [|reflexivity].
      intros k e' Hk. specialize (Hidx (S k) e' Hk). replace (N.to_nat (i + 1) + k)%nat with (N.to_nat i + S k)%nat by lia. exact Hidx.
Qed.

(* ================================================================== every accepted request *)
Theorem read_service_is_row_service_l : forall inp rows ps,
  decode fixed inp = Some rows -> pushed_of inp = Some ps ->
  Forall2 (fun p sr => svc_guard p = true -> service_coherent p sr (read_row fixed (in_elems inp) (fst sr))) ps rows.
Proof.
  intros inp rows ps Hd Hp. destruct inp as [b|nd es]; cbn [in_elems].
  - apply (otlp_service_l b rows ps Hd Hp).
  - cbn [decode pushed_of] in Hd, Hp. destruct (forallb z_wellformed es) eqn:Hwf; [|discriminate].
    eapply Forall2_imp; [|apply (zipkin_service_from nd es es 0%N z_init rows ps (fun k e H => H) Hd Hwf Hp)].
    intros p sr H _. exact H.
Qed.

(* inside the domain the first-level service.name attribute of the stored span is that name as well (OTLP) *)
Theorem otlp_service_attribute_l : forall b rows ps,
  decode fixed (InOtlp b) = Some rows -> pushed_of (InOtlp b) = Some ps ->
  Forall (fun p => svc_guard p = true -> lookup k_service (p_attrs p) = Some (AStr (p_service p))) ps.
Proof.
  cbn [decode pushed_of]. intros b rows ps Hd0. apply otlp_decode_some in Hd0. destruct Hd0 as [Hd0 _]. revert Hd0.
  rewrite (otlp_decode_flat b). generalize (batch_spans b). intros l.
  revert rows ps. induction l as [|[ra s] l IH]; intros rows ps Hd Hp; cbn [mapM fst snd] in Hd, Hp.
  - inversion Hp. constructor.
  - destruct (otlp_span fixed ra s) as [sr|] eqn:Es; [|discriminate].
    destruct (mapM (fun x => otlp_span fixed (fst x) (snd x)) l) as [rs|]; [|discriminate].
    destruct (otlp_pushed ra s) as [p|] eqn:Ep; [|discriminate].
    destruct (mapM (fun x => otlp_pushed (fst x) (snd x)) l) as [ps'|]; [|discriminate].
    inversion Hd; inversion Hp; subst. constructor.
    + intros Hg. apply (otlp_span_service ra s sr p Es Ep Hg).
    + apply (IH rs ps'); reflexivity.
Qed.

(* the oracle the check evaluates on the implementation's observations accepts the model's own output for EVERY request *)
Lemma svc_all_model ps rows es :
  Forall2 (fun p sr => svc_guard p = true -> service_coherent p sr (read_row fixed es (fst sr))) ps rows ->
  svc_all ps (map fst rows) (map (read_row fixed es) (map fst rows)) = true.
Proof.
  induction 1 as [|p sr ps rows H _ IH]; [reflexivity|]. cbn [map svc_all]. rewrite IH, andb_true_r.
  destruct (svc_guard p); [|reflexivity]. destruct (H eq_refl) as (r & -> & H1 & H2 & _).
  unfold svc_one. rewrite H1, H2, !String.eqb_refl. reflexivity.
Qed.

Theorem model_meets_service_spec_l : forall inp, svc_ok (model_case fixed inp) = true.
Proof.
  intros inp. unfold model_case. destruct (decode fixed inp) as [rows|] eqn:Ed; [|reflexivity].
  unfold svc_ok. cbn [c_err c_in c_rows c_read].
  destruct (pushed_of inp) as [ps|] eqn:Ep; [|reflexivity].
  destruct (forallb widths_ok ps); [|reflexivity].
  apply svc_all_model, (read_service_is_row_service_l inp rows ps Ed Ep).
Qed.

(* ================================================================== the domain is needed, and it is inhabited *)
Definition svc_span (a : attrs) : ospan :=
  {| o_trace := hx "0af7651916cd43dd8448eb211c80319c"; o_span := hx "b7ad6b7169203331"; o_parent := ""; o_name := "GET /x";
     o_start := 1727700000000000000; o_end := 1727700000000005000; o_kind := 3; o_attrs := a |}.
Definition svc_req (ra a : attrs) : input := InOtlp [ {| r_has_res := true; r_attrs := ra; r_scopes := [[ svc_span a ]] |} ].
Definition names_of (inp : input) : list (string * string) :=
  match decode fixed inp with
  | Some rows => map (fun sr => (t_service (fst sr), match read_row fixed (in_elems inp) (fst sr) with Some r => rs_service r | None => "" end)) rows
  | None => []
  end.
Definition guards_of (inp : input) : list bool := match pushed_of inp with Some ps => map svc_guard ps | None => [] end.

(* the key set on both levels with different values (the input of seeded change C06-h): inside the domain, the resource's value on both sides *)
Example ex_service_on_both_levels :
  guards_of (svc_req [("service.name", AStr "checkout")] [("service.name", AStr "cart-worker")]) = [true]
  /\ names_of (svc_req [("service.name", AStr "checkout")] [("service.name", AStr "cart-worker")]) = [("checkout", "checkout")].
Proof. vm_compute. split; reflexivity. Qed.
Example ex_guard_otlp_zipkin :
  guards_of ex_otlp = [true; true] /\ names_of ex_otlp = [("frontend", "frontend"); ("frontend", "frontend")]
  /\ guards_of (ex_zipkin false) <> [] /\ forallb (fun b => b) (guards_of (ex_zipkin false)) = true.
Proof. vm_compute. repeat split; try reflexivity. discriminate. Qed.

(* outside the domain the two names differ: a service.name that is not a string, an empty one, a key-value list named "service" *)
Theorem service_names_differ_outside :
  names_of (svc_req [] [("service.name", AInt 5)]) = [("5", no_service)]
  /\ names_of (svc_req [("service.name", AStr "")] [("peer.service", AStr "db")]) = [("", "db")]
  /\ names_of (svc_req [("service", AMap [("name", AStr "inner")])] [("service.name", AStr "outer")]) = [("inner", "outer")]
  /\ guards_of (svc_req [] [("service.name", AInt 5)]) = [false]
  /\ guards_of (svc_req [("service.name", AStr "")] [("peer.service", AStr "db")]) = [false]
  /\ guards_of (svc_req [("service", AMap [("name", AStr "inner")])] [("service.name", AStr "outer")]) = [false].
Proof. vm_compute. repeat split; reflexivity. Qed.

(* ================================================================== any key: what the trace view shows is what the index holds *)
(* the text under which a scalar attribute value is indexed *)
Definition scalar_str (v : aval) : option string :=
  match v with
  | AStr s => Some s | ABool b => Some (if b then "true" else "false") | ADouble d => Some (print_f6 d) | AInt z => Some (print_Z z)
  | _ => None
  end.
Definition key_step (K : string) (cur : option string) (kv : string * aval) : option string :=
  if String.eqb (fst kv) K then svc_str (snd kv) cur else cur.
(* no OTHER first-level attribute whose dotted flattening (k.0, k.sub ...) can reach the key K *)
Definition unreached (K : string) (keys : list string) : Prop :=
  forall k, In k keys -> k <> K -> has_prefix (k ++ ".") K = false.

Lemma flat_val_key K k v m m' :
  (k <> K -> has_prefix (k ++ ".") K = false) -> flat_val true k v m = Some m' -> lookup K m' = key_step K (lookup K m) (k, v).
Proof.
  intros Hk H. unfold key_step. cbn [fst snd]. destruct (String.eqb_spec k K) as [->|Hne].
  - destruct (composite v) eqn:Ec.
    + rewrite (flat_val_composite v true K m m' K Ec); [destruct v; try discriminate; reflexivity| |exact H].
      intros y. apply has_prefix_self_ext.
    + destruct v; try discriminate; cbn [flat_val] in H; try discriminate; inversion H; subst; cbn [svc_str];
        try reflexivity; apply lookup_upsert_same.
  - apply (flat_val_unrelated v true k m m' K Hne (Hk Hne) H).
Qed.

Lemma flat_attrs_key K a : forall m m',
  unreached K (map fst a) -> flat_attrs true a m = Some m' -> lookup K m' = fold_left (key_step K) a (lookup K m).
Proof.
  induction a as [|[k v] a IH]; intros m m' Hno H; cbn [flat_attrs fst snd fold_left map] in *.
  - inversion H; subst; reflexivity.
  - destruct (flat_val true k v m) as [m1|] eqn:E; [|discriminate].
    rewrite (IH m1 m' (fun k' Hin => Hno k' (or_intror Hin)) H).
    rewrite (flat_val_key K k v m m1 (Hno k (or_introl eq_refl)) E). reflexivity.
Qed.

Lemma fold_key_last K a : forall cur v s, lookup K (rev a) = Some v -> scalar_str v = Some s -> fold_left (key_step K) a cur = Some s.
Proof.
  induction a as [|[k v0] a IH] using rev_ind; intros cur v s H Hs; [discriminate|].
  rewrite fold_left_app. cbn [fold_left]. rewrite rev_app_distr in H. cbn [rev app lookup] in H.
  unfold key_step at 1. cbn [fst snd]. rewrite (String.eqb_sym k K).
  destruct (String.eqb K k).
  - inversion H; subst. destruct v; try discriminate Hs; cbn [svc_str scalar_str] in *; exact Hs.
  - apply (IH _ _ _ H Hs).
Qed.

Lemma keys_of_list_incl (a : attrs) k : In k (map fst a) -> In k (map fst (of_list a)).
Proof. intros H. apply lookup_in_keys. apply of_list_has_key. apply lookup_in_keys, H. Qed.

Lemma otlp_span_indexed ra s sr p K v str :
  otlp_span fixed ra s = Some sr -> otlp_pushed ra s = Some p ->
  K <> k_name -> lookup K (p_attrs p) = Some v -> scalar_str v = Some str -> unreached K (map fst (p_attrs p)) ->
  In (K, str) (map kv_of (snd sr)).
Proof.
  intros Hs Hp Hn Hl Hv Hu.
  destruct (otlp_span_pushed _ _ _ _ Hs Hp) as [[_ Htags] [_ [_ [Hattrs _]]]].
  rewrite Hattrs in Hl, Hu. set (a := populate (o_attrs s ++ ra)%list) in *.
  assert (Htag : lookup K (p_tags p) = Some str).
  { unfold otlp_pushed in Hp. fold a in Hp. destruct (flat_attrs true a []) as [m|] eqn:Ef; [|discriminate].
    inversion Hp; subst p; cbn [p_tags].
    rewrite lookup_upsert_other by exact Hn.
    rewrite (flat_attrs_key K a [] m (fun k Hin => Hu k (keys_of_list_incl a k Hin)) Ef).
    rewrite of_list_lookup in Hl. apply (fold_key_last K a _ v str Hl Hv). }
  destruct Htags as [_ Hperm]. apply (Permutation.Permutation_in _ (Permutation.Permutation_sym Hperm)).
  apply lookup_some_in, Htag.
Qed.

Theorem otlp_shown_attribute_is_indexed_l : forall b rows ps,
  decode fixed (InOtlp b) = Some rows -> pushed_of (InOtlp b) = Some ps ->
  Forall2 (fun p sr => forall K v str, K <> k_name -> lookup K (p_attrs p) = Some v -> scalar_str v = Some str ->
                                       unreached K (map fst (p_attrs p)) -> In (K, str) (map kv_of (snd sr))) ps rows.
Proof.
  cbn [decode pushed_of]. intros b rows ps Hd0. apply otlp_decode_some in Hd0. destruct Hd0 as [Hd0 _]. revert Hd0.
  rewrite (otlp_decode_flat b). generalize (batch_spans b). intros l.
  revert rows ps. induction l as [|[ra s] l IH]; intros rows ps Hd Hp; cbn [mapM fst snd] in Hd, Hp.
  - inversion Hd; inversion Hp. constructor.
  - destruct (otlp_span fixed ra s) as [sr|] eqn:Es; [|discriminate].
    destruct (mapM (fun x => otlp_span fixed (fst x) (snd x)) l) as [rs|]; [|discriminate].
    destruct (otlp_pushed ra s) as [p|] eqn:Ep; [|discriminate].
    destruct (mapM (fun x => otlp_pushed (fst x) (snd x)) l) as [ps'|]; [|discriminate].
    inversion Hd; inversion Hp; subst. constructor.
    + intros K v str Hn Hl Hv Hu. apply (otlp_span_indexed ra s sr p K v str Es Ep Hn Hl Hv Hu).
    + apply IH; reflexivity.
Qed.

(* the hypotheses are met (the input of seeded change C06-h: the key on both levels; the index and the trace view hold the RESOURCE's value) ... *)
Definition tags_of_req (inp : input) : list (list (string * string)) :=
  match decode fixed inp with Some rows => map (fun sr => map kv_of (snd sr)) rows | None => [] end.
Definition shown_of_req (inp : input) (K : string) : list (option aval) :=
  match pushed_of inp with Some ps => map (fun p => lookup K (p_attrs p)) ps | None => [] end.
Example ex_key_on_both_levels :
  let inp := svc_req [("deployment.environment", AStr "prod"); ("service.name", AStr "checkout")]
                     [("deployment.environment", AStr "staging"); ("retries", AInt 3)] in
  shown_of_req inp "deployment.environment" = [Some (AStr "prod")]
  /\ map (lookup "deployment.environment") (tags_of_req inp) = [Some "prod"]
  /\ map (lookup "retries") (tags_of_req inp) = [Some "3"]
  /\ unreached "deployment.environment" ["deployment.environment"; "retries"; "service.name"; "remoteService.name"].
Proof.
  cbn zeta. split; [vm_compute; reflexivity|]. split; [vm_compute; reflexivity|]. split; [vm_compute; reflexivity|].
  intros k Hin Hne. cbn [In] in Hin. destruct Hin as [<-|[<-|[<-|[<-|[]]]]]; reflexivity.
Qed.
(* ... and [unreached] is needed: a list attribute a = [y] after the scalar attribute a.0 = x overwrites the index entry, the trace view shows a.0 = x;
   likewise the attribute called "name" is indexed under the span's name *)
Theorem shown_attribute_not_indexed_outside :
  let inp := svc_req [("service.name", AStr "s")] [("a.0", AStr "x"); ("a", AList [AStr "y"])] in
  let inp2 := svc_req [("service.name", AStr "s")] [("name", AStr "attr")] in
  shown_of_req inp "a.0" = [Some (AStr "x")] /\ map (lookup "a.0") (tags_of_req inp) = [Some "y"]
  /\ has_prefix ("a" ++ ".") "a.0" = true
  /\ shown_of_req inp2 "name" = [Some (AStr "attr")] /\ map (lookup "name") (tags_of_req inp2) = [Some "GET /x"].
Proof. vm_compute. repeat split; reflexivity. Qed.

(* the same with the read path: every scalar first-level attribute of the span OutputQuery returns is in the tag index under its printed value *)
Lemma otlp_read_indexed_one ra s sr p :
  otlp_span fixed ra s = Some sr -> otlp_pushed ra s = Some p -> 0 <= o_start s < two64 -> 0 <= o_end s < two64 ->
  exists r, read_row fixed [] (fst sr) = Some r /\
    forall K v str, K <> k_name -> lookup K (rs_attrs r) = Some v -> scalar_str v = Some str ->
                    unreached K (map fst (rs_attrs r)) -> In (K, str) (map kv_of (snd sr)).
Proof.
  intros Hs Hp Hst Hen.
  destruct (otlp_read_one ra s sr p Hs Hp Hst Hen) as (r & Hread & _ & _ & _ & _ & _ & _ & _ & Hun & _).
  destruct (otlp_span_pushed _ _ _ _ Hs Hp) as [_ [_ [_ [_ [Hord _]]]]].
  exists r. split; [exact Hread|]. rewrite (Hun Hord). intros K v str Hn Hl Hv Hu.
  apply (otlp_span_indexed ra s sr p K v str Hs Hp Hn Hl Hv Hu).
Qed.

Theorem read_attribute_is_indexed_l : forall b rows ps,
  decode fixed (InOtlp b) = Some rows -> pushed_of (InOtlp b) = Some ps -> in_range (InOtlp b) ->
  Forall2 (fun (p : pushed) sr => exists r, read_row fixed [] (fst sr) = Some r /\
             forall K v str, K <> k_name -> lookup K (rs_attrs r) = Some v -> scalar_str v = Some str ->
                             unreached K (map fst (rs_attrs r)) -> In (K, str) (map kv_of (snd sr))) ps rows.
Proof.
  cbn [decode pushed_of in_range]. intros b rows ps Hd0. apply otlp_decode_some in Hd0. destruct Hd0 as [Hd0 _]. revert Hd0.
  rewrite (otlp_decode_flat b). unfold otlp_times_ok. generalize (batch_spans b). intros l.
  revert rows ps. induction l as [|[ra s] l IH]; intros rows ps Hd Hp Ht; cbn [mapM fst snd] in Hd, Hp.
  - inversion Hd; inversion Hp. constructor.
  - destruct (otlp_span fixed ra s) as [sr|] eqn:Es; [|discriminate].
    destruct (mapM (fun x => otlp_span fixed (fst x) (snd x)) l) as [rs|]; [|discriminate].
    destruct (otlp_pushed ra s) as [p|] eqn:Ep; [|discriminate].
    destruct (mapM (fun x => otlp_pushed (fst x) (snd x)) l) as [ps'|]; [|discriminate].
    inversion Hd; inversion Hp; subst. constructor.
    + destruct (Ht (ra, s) (or_introl eq_refl)) as [H1 H2]. apply (otlp_read_indexed_one ra s sr p Es Ep H1 H2).
    + apply IH; try reflexivity. intros x Hx. apply Ht. now right.
Qed.
