(* C18 -- the candidate repair "re-read the version before every script" (model/MigrateRepair.v): what it
   guarantees under every interleaving (a script is sent only directly after the process itself read a version
   that does not cover it), generic in semantics, scripts, configuration, schedule and failures.  That it does
   NOT close finding concurrent-starters is computed on the repository's scripts in MigrateConcrete.v. *)
From Coq Require Import List String NArith ZArith Bool Arith Lia.
From Qryn Require Import model.Migrate model.MigrateRepair proofs.MigrateProofs proofs.MigrateConcProofs.
Import ListNotations.
Open Scope nat_scope.

Lemma pmonR_app : forall l1 l2 last,
  pmonR last (l1 ++ l2) = pmonR last l1 && pmonR (match rev l1 with e :: _ => Some e | [] => last end) l2.
Proof.
  induction l1 as [|e l1 IH]; intros l2 last; cbn [app pmonR rev]; [reflexivity|].
  rewrite IH, andb_assoc. f_equal.
  destruct (rev l1) as [|x r] eqn:E; cbn; reflexivity.
Qed.

Section RepairProofs.
  Variables (cat stmt : Type).
  Variable exec : stmt -> cat -> option cat.
  Variable pexec : list bool -> stmt -> cat -> cat.
  Variable scripts : stream -> list stmt.
  Notation pstepR := (pstepR cat stmt exec pexec scripts).
  Notation conc_runR := (conc_runR cat stmt exec pexec scripts).
  Notation q_next := (q_next stmt scripts).

  (* a process about to send script i has just read a version <= i of that stream *)
  Definition RInv (p : procR) (last : option event) : Prop :=
    match q_ks p, q_pc p with
    | k :: _, RScript i => exists v, last = Some (EReadVer k v ROk) /\ v <= i
    | _, _ => True
    end.
  Definition last_of (last : option event) (l : list event) : option event :=
    match rev l with e :: _ => Some e | [] => last end.

  Lemma RInv_next k ks v last : RInv (q_next k ks v) last.
  Proof.
    unfold MigrateRepair.q_next, RInv. destruct (v <? List.length (scripts k)); cbn; [exact I|]. destruct ks; exact I.
  Qed.

  Lemma pstepR_pmon c p o (d : db cat) last : RInv p last ->
    pmonR last (snd (pstepR c p o d)) = true /\ RInv (fst (fst (pstepR c p o d))) (last_of last (snd (pstepR c p o d))).
  Proof.
    intros HI. unfold MigrateRepair.pstepR. destruct (q_ks p) as [|k ks] eqn:Ek.
    - cbn. split; [reflexivity|]. unfold RInv. now rewrite Ek.
    - destruct (q_pc p) as [| | |i|i|i] eqn:Epc.
      + destruct (do_call cat o (eff_create_ver cat) (peff_none cat) d) as [d1 r]. cbn. split; [reflexivity|].
        destruct (res_ok r); [|exact I]. unfold RInv; cbn. destruct (clustered c); exact I.
      + destruct (do_call cat o (eff_create_vd cat) (peff_none cat) d) as [d1 r]. cbn. split; [reflexivity|].
        destruct (res_ok r); exact I.
      + destruct (do_call cat o (eff_read cat c) (peff_none cat) d) as [d1 r]. cbn [fst snd pmonR]. split; [reflexivity|].
        destruct (res_ok r); [apply RInv_next|exact I].
      + destruct (do_call cat o (eff_read cat c) (peff_none cat) d) as [d1 r]. cbn [fst snd pmonR]. split; [reflexivity|].
        destruct (res_ok r) eqn:R; [|exact I]. apply res_ok_is in R. subst r.
        destruct (i <? d_vers d1 k) eqn:L; [apply RInv_next|].
        apply Nat.ltb_ge in L. unfold RInv, last_of. cbn. eauto.
      + destruct (nth_error (scripts k) i) as [x|].
        * destruct (do_call cat o (eff_script cat stmt exec x) (peff_script cat stmt pexec x) d) as [d1 r]. cbn [fst snd].
          unfold RInv in HI. rewrite Ek, Epc in HI. destruct HI as (v & -> & Hv). split.
          -- cbn. rewrite stream_eqb_refl. apply Nat.leb_le in Hv. now rewrite Hv.
          -- destruct (res_ok r); exact I.
        * cbn [fst snd pmonR]. split; [reflexivity|]. apply RInv_next.
      + destruct (do_call cat o (eff_setver cat k (S i)) (peff_none cat) d) as [d1 r]. cbn [fst snd pmonR]. split; [reflexivity|].
        destruct (res_ok r); [apply RInv_next|exact I].
  Qed.

  Lemma concR_pmon c : forall sched p q (d : db cat) lp lq, RInv p lp -> RInv q lq ->
    pmonR lp (plog false (snd (conc_runR c sched p q d))) = true /\
    pmonR lq (plog true (snd (conc_runR c sched p q d))) = true.
  Proof.
    induction sched as [|[who o] rest IH]; intros p q d lp lq Hp Hq; cbn [MigrateRepair.conc_runR].
    - cbn. auto.
    - destruct who.
      + destruct (pstepR_pmon c q o d lq Hq) as [Hm Hi].
        destruct (pstepR c q o d) as [[q1 d1] l1]. cbn [fst snd] in Hm, Hi.
        destruct (IH p q1 d1 lp (last_of lq l1) Hp Hi) as [Ha Hb].
        destruct (conc_runR c rest p q1 d1) as [[[pf qf] df] lf]. cbn [snd] in *.
        rewrite !plog_app, !plog_tag. cbn [Bool.eqb app]. split; [exact Ha|].
        rewrite pmonR_app, Hm. exact Hb.
      + destruct (pstepR_pmon c p o d lp Hp) as [Hm Hi].
        destruct (pstepR c p o d) as [[p1 d1] l1]. cbn [fst snd] in Hm, Hi.
        destruct (IH p1 q d1 (last_of lp l1) lq Hi Hq) as [Ha Hb].
        destruct (conc_runR c rest p1 q d1) as [[[pf qf] df] lf]. cbn [snd] in *.
        rewrite !plog_app, !plog_tag. cbn [Bool.eqb app]. split; [|exact Hb].
        rewrite pmonR_app, Hm. exact Ha.
  Qed.

  Theorem reread_script_after_own_read c sched (d : db cat) :
    pmonR None (plog false (snd (conc_runR c sched (procR0 c) (procR0 c) d))) = true /\
    pmonR None (plog true (snd (conc_runR c sched (procR0 c) (procR0 c) d))) = true.
  Proof.
    apply concR_pmon; unfold RInv, procR0; cbn; destruct (streams_of c); exact I.
  Qed.
End RepairProofs.
