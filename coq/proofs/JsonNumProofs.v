(* C15 — the encoders with the number texts computed by the printers of model/GoFloat.v: the
   hypothesis "number texts are JSON numbers" of the matrix / vector / Prometheus theorems is discharged
   for every row (any int64 timestamp, any float64 bit pattern as value). *)
From Coq Require Import List NArith ZArith Bool Ascii String Lia.
From Qryn Require Import model.GoFloat model.JsonStream proofs.GoFloatProofs proofs.JsonStreamProofs.
Import ListNotations.
Open Scope Z_scope.

Lemma forallb_until_eof : forall (P : entry -> bool) es, forallb P es = true -> forallb P (until_eof es) = true.
Proof.
  induction es as [|e es IH]; intros H; [reflexivity|]. cbn [forallb] in H. apply andb_prop in H. destruct H as [He Hs].
  cbn [until_eof]. destruct (is_live e); [|reflexivity]. cbn [forallb]. rewrite He, IH by exact Hs. reflexivity.
Qed.
Lemma forallb_rows_matrix : forall (P : entry -> bool) bs,
  forallb (forallb P) bs = true -> forallb P (rows_matrix bs) = true.
Proof.
  induction bs as [|b bs IH]; intros H; [reflexivity|]. cbn [forallb] in H. apply andb_prop in H. destruct H as [Hb Hs].
  unfold rows_matrix in *. cbn [map List.concat]. rewrite forallb_app, forallb_until_eof, IH by assumption. reflexivity.
Qed.
Lemma forallb_rows_with : forall (P : entry -> bool) (f : rrow -> entry) bs,
  (forall r, P (f r) = true) -> forallb (forallb P) (rows_with f bs) = true.
Proof.
  intros P f bs H. unfold rows_with. induction bs as [|b bs IH]; [reflexivity|]. cbn [map forallb]. rewrite IH, andb_true_r.
  induction b as [|r b IHb]; [reflexivity|]. cbn [map forallb]. rewrite H, IHb. reflexivity.
Qed.
Lemma no_fail_rows_with : forall f bs, (forall r, e_err (f r) = r_err r) ->
  forallb (forallb no_fail) (rows_with f bs) = forallb (forallb (fun r => match r_err r with EFail => false | _ => true end)) bs.
Proof.
  intros f bs H. unfold rows_with. induction bs as [|b bs IH]; [reflexivity|]. cbn [map forallb]. rewrite IH. f_equal.
  induction b as [|r b IHb]; [reflexivity|]. cbn [map forallb]. rewrite IHb. unfold no_fail at 1. rewrite H. reflexivity.
Qed.

Definition rows_no_fail (bs : list (list rrow)) : bool :=
  forallb (forallb (fun r => match r_err r with EFail => false | _ => true end)) bs.

(* QueryRange, matrix branch: for every list of batches of rows without a failing entry — any int64
   timestamps, any float64 values including NaN, infinities, denormals — ONE document, the intended one *)
Theorem matrix_rows_bytes : forall bs, rows_no_fail bs = true ->
  parse_bytes (render (enc_matrix (rows_with matrix_row bs))) = Some (doc_matrix (rows_with matrix_row bs)).
Proof.
  intros bs H. apply matrix_bytes.
  - rewrite (no_fail_rows_with matrix_row bs) by reflexivity. exact H.
  - apply forallb_rows_matrix, forallb_rows_with. intros r. apply ts_text_num_ok.
Qed.

(* QueryInstant, vector branch *)
Theorem vector_rows_bytes : forall order bs, rows_no_fail bs = true ->
  parse_bytes (render (enc_vector order (rows_with vector_row bs))) = Some (doc_vector order (rows_with vector_row bs)).
Proof.
  intros order bs H. apply vector_bytes.
  - rewrite (no_fail_rows_with vector_row bs) by reflexivity. exact H.
  - apply forallb_rows_matrix, forallb_rows_with. intros r. apply int_text_num_ok.
Qed.

(* Prometheus writers: any int64 millisecond timestamps, any float64 values *)
Lemma series_of_nums_ok : forall bs ls, series_nums_ok (series_of bs ls) = true.
Proof.
  intros bs ls. unfold series_nums_ok, series_of. apply forallb_forall. intros s Hs.
  apply in_map_iff in Hs. destruct Hs as [[b l] [<- _]]. cbn [pr_pts fst].
  apply forallb_forall. intros p Hp. apply in_map_iff in Hp. destruct Hp as [r [<- _]].
  cbn [ps_t prom_point_of]. apply ms_text_num_ok.
Qed.
Theorem prom_matrix_rows_bytes : forall bs ls,
  parse_bytes (render (enc_prom_matrix (series_of bs ls))) = Some (doc_prom_matrix (series_of bs ls)).
Proof. intros bs ls. apply prom_matrix_bytes, series_of_nums_ok. Qed.
Theorem prom_vector_rows_bytes : forall bs ls,
  parse_bytes (render (enc_prom_vector (series_of bs ls))) = Some (doc_prom_vector (series_of bs ls)).
Proof. intros bs ls. apply prom_vector_bytes, series_of_nums_ok. Qed.
Theorem prom_scalar_row_bytes : forall r,
  parse_bytes (render (enc_prom_scalar (prom_scalar_of r))) = Some (doc_prom_scalar (prom_scalar_of r)).
Proof. intros r. apply prom_scalar_bytes. cbn [ps_t prom_scalar_of]. apply ms_text_num_ok. Qed.
