(* Property C11, selector chains, part 2: the two statement shapes ComplexAndPlanner / ComplexOrPlanner build, run by the evaluator.
   wrap_eval:     `WITH _i_pre_ AS (operand + max_timestamp_ns) SELECT trace_id, _span_id AS span_id, max_timestamp_ns [, i AS _op]
                   FROM _i_pre_ ARRAY JOIN _i_pre_.span_id AS _span_id`  over any typed content R of the operand's answer
                  = one row per (trace, span) of R, carrying the trace's recency key and the operand number.
   complex_bridge: `SELECT trace_id, groupUniqArray(100)(span_id) [, max(<p>a.max_timestamp_ns)] FROM (sub_0 UNION ALL sub_1 ..) AS <p>a
                   GROUP BY trace_id [HAVING uniqExact(_op) = N] ORDER BY max(<p>a.max_timestamp_ns) DESC [LIMIT k]`
                  over any typed content of the operands = one row per trace: the distinct span ids of all its rows (first 100),
                  the largest key; && keeps the traces whose rows carry N distinct operand numbers.
   Nothing here depends on how the operands were computed. *)
From Coq Require Import List ZArith NArith QArith String Ascii Bool Lia Permutation Sorted.
From Qryn Require Import model.TqSql model.Traceql model.TraceqlPlan model.TraceqlSem model.TraceqlCase
     proofs.TraceqlEvalProofs proofs.TraceqlBridgeLib proofs.TraceqlIndexSearchProofs proofs.TraceqlGroupedProofs
     proofs.TraceqlTopkProofs proofs.TraceqlChainSem.
Import ListNotations.
Open Scope string_scope.
Open Scope list_scope.
Open Scope nat_scope.
Local Infix "+++" := String.append (right associativity, at level 60).

Lemma str_assoc p a s : p +++ a +++ s = (p +++ a) +++ s.
Proof. induction p as [|ch p IH]; [reflexivity|]. cbn [append]. now rewrite IH. Qed.

(* ================================================================ ORDER BY key DESC LIMIT k, generically *)
Definition lim_answer {X} (key : X -> Z) (items : list X) (lim : option expr) : option (list X) :=
  match lim with
  | None => Some items
  | Some (IntV k) =>
      match sort_by [true] (map (fun g => ([VInt (key g)], g)) items) with
      | Some sorted => Some (firstn (Z.to_nat k) (map snd sorted))
      | None => None
      end
  | Some _ => None
  end.

Lemma grouped_answer_lim T P lim : grouped_answer T P lim = lim_answer g_key (tgroups T P) lim.
Proof. reflexivity. Qed.

Definition top_spec {X} (key : X -> Z) (items : list X) (c : ctx) (SEL : list X) : Prop :=
  exists rest, Permutation (SEL ++ rest) items
               /\ (limit c = 0%Z -> rest = [])
               /\ (limit c <> 0%Z -> List.length SEL = Nat.min (Z.to_nat (limit c)) (List.length items))
               /\ forall x y, In x SEL -> In y rest -> (key y <= key x)%Z.

Lemma lim_answer_total {X} (key : X -> Z) items c : exists SEL, lim_answer key items (lim_of c) = Some SEL.
Proof.
  unfold lim_answer, lim_of. destruct (Z.eqb (limit c) 0); [eexists; reflexivity|].
  change (map (fun g => ([VInt (key g)], g)) items) with (map (fun g => enc (key g, g)) items).
  rewrite <- (map_map (fun g => (key g, g)) enc), sort_by_enc. eexists; reflexivity.
Qed.

Lemma lim_answer_spec {X} (key : X -> Z) items c SEL : lim_answer key items (lim_of c) = Some SEL -> top_spec key items c SEL.
Proof.
  unfold lim_answer, lim_of, top_spec. destruct (Z.eqb (limit c) 0) eqn:E0.
  - intros H. injection H as <-. exists []. rewrite app_nil_r. repeat split; try reflexivity.
    + intros Hn. apply Z.eqb_eq in E0. contradiction.
    + intros x y _ [].
  - change (map (fun g => ([VInt (key g)], g)) items) with (map (fun g => enc (key g, g)) items).
    rewrite <- (map_map (fun g => (key g, g)) enc), sort_by_enc.
    set (S := isort (map (fun g => (key g, g)) items)). intros H. injection H as <-.
    destruct (isort_spec (map (fun g => (key g, g)) items)) as [Hp Hd]. fold S in Hp, Hd.
    rewrite map_map. cbn [enc snd]. set (k := Z.to_nat (limit c)).
    assert (Hkeys : forall p, In p S -> fst p = key (snd p)).
    { intros p Hp'. apply (Permutation_in _ (Permutation_sym Hp)) in Hp'. apply in_map_iff in Hp'. destruct Hp' as [g [<- _]]. reflexivity. }
    change (fun x : Z * X => snd x) with (@snd Z X). rewrite firstn_map.
    exists (map snd (skipn k S)). split; [|split; [|split]].
    + rewrite <- map_app, firstn_skipn.
      assert (E : items = map snd (map (fun g => (key g, g)) items)) by (rewrite map_map; cbn [snd]; now rewrite map_id).
      apply Permutation_sym. rewrite E at 1. apply Permutation_map. exact Hp.
    + intros Hz. rewrite Hz in E0. discriminate.
    + intros _. rewrite map_length, firstn_length. f_equal.
      rewrite <- (Permutation_length Hp). now rewrite map_length.
    + intros x y Hx Hy.
      apply in_map_iff in Hx. destruct Hx as [px [<- Hx]]. apply in_map_iff in Hy. destruct Hy as [py [<- Hy]].
      rewrite <- (Hkeys px) by (eapply in_firstn'; exact Hx).
      rewrite <- (Hkeys py) by (eapply in_skipn'; exact Hy).
      eapply desc_firstn_skipn; eassumption.
Qed.

(* ================================================================ typed rows *)
(* the answer of an operand statement: one row per trace; wts: with the recency column ComplexAnd/OrPlanner adds *)
Definition orow_row (wts : bool) (o : tres) : row :=
  [("trace_id", VStr (t_trace o)); ("span_id", VArr (map VStr (t_spans o)))]
  ++ (if wts then [("max_timestamp_ns", VInt (t_key o))] else []).
Definition og (g : list mspan) : tres := {| t_trace := g_trace g; t_spans := g_spans g; t_key := g_key g |}.
Lemma g_row_og wts g : g_row wts g = orow_row wts (og g).
Proof. reflexivity. Qed.

(* a row of the UNION ALL: one span of one trace of operand number w_op *)
Record wrow := { w_trace : string; w_span : string; w_key : Z; w_op : nat }.
Definition wrow_row (tagged : bool) (w : wrow) : row :=
  [("trace_id", VStr (w_trace w)); ("span_id", VStr (w_span w)); ("max_timestamp_ns", VInt (w_key w))]
  ++ (if tagged then [("_op", VInt (Z.of_nat (w_op w)))] else []).
Definition pairs (R : list tres) : list (tres * string) := flat_map (fun o => map (fun s => (o, s)) (t_spans o)) R.
Definition wr (i : nat) (p : tres * string) : wrow := {| w_trace := t_trace (fst p); w_span := snd p; w_key := t_key (fst p); w_op := i |}.
Definition wrap_rows (i : nat) (R : list tres) : list wrow := map (wr i) (pairs R).

(* the operand number as the statement prints it: it reads back as itself *)
Definition op_lit (i : nat) : Prop :=
  match parse_dec (string_of_Z (Z.of_nat i)) with Some d => d_flen d = 0 /\ d_int d = N.of_nat i | None => False end.
Lemma op_lit_0 : op_lit 0. Proof. vm_compute. split; reflexivity. Qed.
Lemma op_lit_1 : op_lit 1. Proof. vm_compute. split; reflexivity. Qed.

Section WRAP.
  Variable re_match : string -> string -> bool.
  Variable parse_float : string -> option Q.
  Variable hash64 : string -> Z.
  Variable tables : list (string * table).
  Variable rec : env -> bool -> select -> option table.
  Variable cte : env.
  Variable tagged : bool.
  Variable i : nat.
  Variable o : option string * select.
  Hypothesis Hlit : op_lit i.
  Variable cte2 : env.
  Variable R : list tres.
  Notation a := (pre_alias i).
  Hypothesis Hwith : stage_with rec cte true (s_withs (wrap_operand tagged i o)) = Some cte2.
  Hypothesis Hpre : env_get a cte2 = Some (map (orow_row true) R).

  Definition wcols : list expr :=
    [Col (Id "trace_id") "trace_id"; Col (Id "_span_id") "span_id"; Col (Id "max_timestamp_ns") "max_timestamp_ns"]
    ++ (if tagged then [Col (NumLit (string_of_Z (Z.of_nat i))) "_op"] else []).
  Definition wnames : list string := ["trace_id"; "span_id"; "max_timestamp_ns"] ++ (if tagged then ["_op"] else []).
  Definition raw (p : tres * string) : row := ("_span_id", VStr (snd p)) :: qualify a (orow_row true (fst p)).

  Lemma wrap_shape : wrap_operand tagged i o =
    Sel (s_withs (wrap_operand tagged i o)) false wcols (Some (WRef a)) [(JArray, Col (Id (a +++ ".span_id")) "_span_id", None)]
        None None None [] [] None.
  Proof. reflexivity. Qed.

  Lemma wnames_cols : all_some (map col_name wcols) = Some wnames.
  Proof. unfold wcols, wnames. destruct tagged; reflexivity. Qed.

  Notation EV := (ev re_match parse_float hash64 cte2).

  Lemma ev_NumLit al keys f agg self g r s :
    EV al keys (S f) agg self g r (NumLit s) =
    match parse_dec s with Some d => if Nat.eqb (d_flen d) 0 then Some (VInt (Z.of_N (d_int d))) else Some (VNum (dec_Q d)) | None => None end.
  Proof. reflexivity. Qed.

  Lemma join_rows : array_join re_match parse_float hash64 cte2 (Col (Id (a +++ ".span_id")) "_span_id") (map (qualify a) (map (orow_row true) R))
                    = Some (map raw (pairs R)).
  Proof.
    unfold array_join. rewrite !map_map.
    rewrite (all_some_map_ext _ (fun x => map (fun el => ("_span_id", el) :: qualify a (orow_row true x)) (map VStr (t_spans x)))).
    - f_equal. unfold pairs. clear Hpre. induction R as [|x l IH]; [reflexivity|]. cbn [map List.concat flat_map]. rewrite map_app, IH. f_equal.
      rewrite !map_map. reflexivity.
    - intros x _. unfold ev_fuel. change 40 with (S 39). rewrite ev_Id_row.
      assert (E : (if String.eqb (a +++ ".span_id") "" then None else lookup_alias (a +++ ".span_id") []) = @None expr)
        by (destruct (String.eqb (a +++ ".span_id") ""); reflexivity).
      rewrite E. change (a +++ ".span_id") with (a +++ "." +++ "span_id"). rewrite lookup_qualified by reflexivity. reflexivity.
  Qed.

  Lemma project_row p : In p (pairs R) ->
    match all_some (map (fun nc => EV (col_aliases wcols) [] ev_fuel false (fst nc) [] (raw p) (snd nc)) (combine wnames wcols)) with
    | Some vs => Some (combine wnames vs) | None => None end = Some (wrow_row tagged (wr i p)).
  Proof.
    intros _. unfold ev_fuel. change 40 with (S (S 38)).
    assert (E : lookup_alias "_span_id" (col_aliases wcols) = None) by (unfold wcols; destruct tagged; reflexivity).
    set (AL := col_aliases wcols) in *.
    assert (H1 : EV AL [] (S (S 38)) false "trace_id" [] (raw p) (Col (Id "trace_id") "trace_id") = Some (VStr (t_trace (fst p)))).
    { rewrite ev_Col, ev_Id_row, String.eqb_refl. reflexivity. }
    assert (H2 : EV AL [] (S (S 38)) false "span_id" [] (raw p) (Col (Id "_span_id") "span_id") = Some (VStr (snd p))).
    { rewrite ev_Col, ev_Id_row. change (String.eqb "_span_id" "span_id") with false. cbv iota.
      rewrite E. reflexivity. }
    assert (H3 : EV AL [] (S (S 38)) false "max_timestamp_ns" [] (raw p) (Col (Id "max_timestamp_ns") "max_timestamp_ns") = Some (VInt (t_key (fst p)))).
    { rewrite ev_Col, ev_Id_row, String.eqb_refl. reflexivity. }
    assert (H4 : EV AL [] (S (S 38)) false "_op" [] (raw p) (Col (NumLit (string_of_Z (Z.of_nat i))) "_op") = Some (VInt (Z.of_nat i))).
    { rewrite ev_Col, ev_NumLit. unfold op_lit in Hlit. destruct (parse_dec (string_of_Z (Z.of_nat i))) as [d|]; [|destruct Hlit].
      destruct Hlit as [E1 E2]. rewrite E1, E2. cbn [Nat.eqb]. now rewrite nat_N_Z. }
    unfold wcols, wnames, wrow_row, wr. destruct tagged; cbn [combine map fst snd app]; rewrite H1, H2, H3, ?H4; reflexivity.
  Qed.

  Theorem wrap_eval :
    eval_body re_match parse_float hash64 tables rec cte true (wrap_operand tagged i o) = Some (map (wrow_row tagged) (wrap_rows i R)).
  Proof.
    rewrite wrap_shape. unfold eval_body. rewrite Hwith.
    unfold stage_from. rewrite Hpre. unfold stage_joins. cbn [fold_left]. rewrite join_rows.
    unfold stage_where. rewrite wnames_cols. unfold stage_project. unfold wrap_rows. rewrite !map_map.
    apply all_some_map_ext. intros p Hp. now apply project_row.
  Qed.
End WRAP.

(* ================================================================ the UNION ALL statement of ComplexAnd/OrPlanner *)
Lemma vnodup_VStr (l seen : list string) : vnodup (map VStr l) (map VStr seen) = map VStr (nodup_by String.eqb l seen).
Proof.
  revert seen. induction l as [|x l IH]; intros seen; [reflexivity|]. cbn [map vnodup nodup_by].
  assert (E : existsb (veqb (VStr x)) (map VStr seen) = existsb (String.eqb x) seen).
  { induction seen as [|y s IHs]; [reflexivity|]. cbn [map existsb]. rewrite IHs. reflexivity. }
  rewrite E. destruct (existsb (String.eqb x) seen); [apply IH|]. cbn [map]. f_equal. apply (IH (x :: seen)).
Qed.

Definition same_wtr (x y : wrow) : bool := String.eqb (w_trace x) (w_trace y).
Lemma same_wtr_refl x : same_wtr x x = true. Proof. apply String.eqb_refl. Qed.
Lemma same_wtr_sym x y : same_wtr x y = same_wtr y x. Proof. apply String.eqb_sym. Qed.
Lemma same_wtr_trans x y z : same_wtr x y = true -> same_wtr y z = true -> same_wtr x z = true.
Proof. unfold same_wtr. intros H1 H2. apply String.eqb_eq in H1, H2. rewrite H1, H2. apply String.eqb_refl. Qed.

(* what a group of UNION ALL rows (one trace) becomes *)
Definition cg (g : list wrow) : tres :=
  {| t_trace := match g with w0 :: _ => w_trace w0 | [] => "" end;
     t_spans := firstn 100 (nodup_by String.eqb (map w_span g) []);
     t_key := Zmax_l (map w_key g) |}.
Definition ckey (g : list wrow) : Z := Zmax_l (map w_key g).
Definition nops (g : list wrow) : nat := List.length (vnodup (map (fun w => VInt (Z.of_nat (w_op w))) g) []).

Section COMPLEX.
  Variable re_match : string -> string -> bool.
  Variable parse_float : string -> option Q.
  Variable hash64 : string -> Z.
  Variable tables : list (string * table).
  Variable rec : env -> bool -> select -> option table.
  Variable cte : env.
  Variable prefix : string.
  Variable tagged : bool.
  Variable N : nat.
  Variable subs : list select.
  Variable Ws : list (list wrow).
  Hypothesis Hsubs : all_some (map (rec cte true) subs) = Some (map (map (wrow_row tagged)) Ws).
  Variable wts : bool.
  Notation ua := (prefix +++ "a").
  Notation qkey := (prefix +++ "a.max_timestamp_ns").
  Notation U := (List.concat Ws).
  Notation EVW := (ev re_match parse_float hash64).

  Definition urow (w : wrow) : row := qualify ua (wrow_row tagged w).
  Definition ccols : list expr :=
    [Col (Id "trace_id") "trace_id"; Col (PFn FGroupUniqArray [NumLit "100"] [Id "span_id"]) "span_id"]
    ++ (if wts then [Col (Fn FMax [Id qkey]) "max_timestamp_ns"] else []).
  Definition cnames : list string := ["trace_id"; "span_id"] ++ (if wts then ["max_timestamp_ns"] else []).
  Definition chv : option expr := if tagged then Some (LOp OAnd [LOp OEq [Fn FUniqExact [Id "_op"]; IntV (Z.of_nat N)]]) else None.
  Definition cob : list expr := [Ord (Fn FMax [Id qkey]) true].
  Definition cstmt (lim : option expr) : select :=
    Sel [] false ccols (Some (Col (Union subs) ua)) [] None None chv [Id "trace_id"] cob lim.
  Definition cP (g : list wrow) : bool := if tagged then Nat.eqb (nops g) N else true.
  Definition cal : list (string * expr) := col_aliases ccols.

  Lemma qkey_eq : qkey = ua +++ "." +++ "max_timestamp_ns".
  Proof. change qkey with (prefix +++ "a" +++ ".max_timestamp_ns"). apply str_assoc. Qed.
  Lemma qkey_dot : has_dot qkey = true.
  Proof. apply has_dot_suffix. reflexivity. Qed.
  Lemma cal_dotted x : has_dot x = true -> lookup_alias x cal = None.
  Proof. intros H. apply lookup_alias_dotted; [assumption|]. unfold cal, ccols. destruct wts; reflexivity. Qed.
  Lemma cal_op : lookup_alias "_op" cal = None.
  Proof. unfold cal, ccols. destruct wts; reflexivity. Qed.
  Lemma cnames_cols : all_some (map col_name ccols) = Some cnames.
  Proof. unfold ccols, cnames. destruct wts; reflexivity. Qed.

  Lemma u_trace w : lookup "trace_id" (urow w) = Some (VStr (w_trace w)). Proof. reflexivity. Qed.
  Lemma u_span w : lookup "span_id" (urow w) = Some (VStr (w_span w)). Proof. reflexivity. Qed.
  Lemma u_key w : lookup qkey (urow w) = Some (VInt (w_key w)).
  Proof. rewrite qkey_eq. unfold urow. rewrite lookup_qualified by (unfold wrow_row; destruct tagged; reflexivity). reflexivity. Qed.
  Lemma u_op w : tagged = true -> lookup "_op" (urow w) = Some (VInt (Z.of_nat (w_op w))).
  Proof. intros Ht. unfold urow. rewrite lookup_plain by reflexivity. unfold wrow_row. rewrite Ht. reflexivity. Qed.

  Lemma eq_keys_wtr x y : eq_keys ["trace_id"] (urow x) (urow y) = same_wtr x y.
  Proof. unfold eq_keys, same_wtr. cbn [forallb]. rewrite !u_trace. cbn [veqb]. now rewrite andb_true_r. Qed.
  Lemma urows_have_trace (l : list wrow) :
    forallb (fun r => forallb (fun k => match lookup k r with Some _ => true | None => false end) ["trace_id"]) (map urow l) = true.
  Proof. apply forallb_forall. intros r Hr. apply in_map_iff in Hr. destruct Hr as [x [<- _]]. cbn [forallb]. now rewrite u_trace. Qed.

  Section EQS2.
    Variable al : list (string * expr).
    Variable keys : list string.
    Notation EV := (ev re_match parse_float hash64 cte al keys).
    Lemma ev_GroupUniqArray100 f self g r x :
      EV (S f) true self g r (PFn FGroupUniqArray [NumLit "100"] [x]) =
      match all_some (map (fun r' => EV f false self [] r' x) g) with
      | Some vs => Some (VArr (firstn 100 (vnodup (non_null vs) []))) | None => None end.
    Proof.
      change (EV (S f) true self g r (PFn FGroupUniqArray [NumLit "100"] [x])) with
        (match all_some (map (fun r' => EV f false self [] r' x) g), parse_dec "100" with
         | Some vs, Some d => Some (VArr (firstn (N.to_nat (d_int d)) (vnodup (non_null vs) [])))
         | _, _ => None end).
      assert (E : exists il, parse_dec "100" = Some {| d_neg := false; d_int := 100; d_frac := 0; d_flen := 0; d_ilen := il |}) by (eexists; vm_compute; reflexivity).
      destruct E as [il E]. rewrite E. cbn [d_int]. change (N.to_nat 100) with 100. reflexivity.
    Qed.
    Lemma ev_UniqExact f self g r x :
      EV (S f) true self g r (Fn FUniqExact [x]) =
      match all_some (map (fun r' => EV f false self [] r' x) g) with
      | Some vs => Some (VInt (Z.of_nat (List.length (vnodup (non_null vs) [])))) | None => None end.
    Proof. reflexivity. Qed.
  End EQS2.

  Lemma ckey_max f0 self w0 rest :
    String.eqb qkey self = false ->
    EVW cte cal ["trace_id"] (S (S f0)) true self (map urow (w0 :: rest)) (urow w0) (Fn FMax [Id qkey]) = Some (VInt (ckey (w0 :: rest))).
  Proof.
    intros Hself. rewrite ev_FMax. rewrite map_map.
    rewrite (all_some_map_ext _ (fun w => VInt (w_key w))).
    - rewrite (non_null_map_nn (fun w => VInt (w_key w))) by reflexivity.
      unfold ckey. rewrite <- (map_map w_key VInt). apply vmax_l_ints. discriminate.
    - intros w _. destruct f0 as [|f0]; rewrite ev_Id_row, Hself, (cal_dotted _ qkey_dot); apply u_key.
  Qed.

  Lemma cout_row w0 rest :
    out_row re_match parse_float hash64 cte cal ["trace_id"] cnames ccols (map urow (w0 :: rest)) = Some (orow_row wts (cg (w0 :: rest))).
  Proof.
    set (G := map urow (w0 :: rest)).
    assert (H1 : evg re_match parse_float hash64 cte cal ["trace_id"] "trace_id" G (Col (Id "trace_id") "trace_id") = Some (VStr (w_trace w0))).
    { unfold evg. change G with (urow w0 :: map urow rest) at 1. cbv beta iota. unfold ev_fuel.
      change 40 with (S (S 38)). rewrite ev_Col, ev_Id_agg, String.eqb_refl.
      change (existsb (String.eqb "trace_id") ["trace_id"]) with true. cbv iota. apply u_trace. }
    assert (H2 : evg re_match parse_float hash64 cte cal ["trace_id"] "span_id" G (Col (PFn FGroupUniqArray [NumLit "100"] [Id "span_id"]) "span_id")
                 = Some (VArr (map VStr (t_spans (cg (w0 :: rest)))))).
    { unfold evg. change G with (urow w0 :: map urow rest) at 1. cbv beta iota. unfold ev_fuel.
      change 40 with (S (S (S 37))). rewrite ev_Col, ev_GroupUniqArray100. subst G. rewrite map_map.
      rewrite (all_some_map_ext _ (fun w => VStr (w_span w))).
      - rewrite (non_null_map_nn (fun w => VStr (w_span w))) by reflexivity.
        rewrite <- (map_map w_span VStr). change (@nil value) with (map VStr []). rewrite vnodup_VStr, firstn_map. reflexivity.
      - intros w _. rewrite ev_Id_row, String.eqb_refl. apply u_span. }
    assert (H3 : evg re_match parse_float hash64 cte cal ["trace_id"] "max_timestamp_ns" G (Col (Fn FMax [Id qkey]) "max_timestamp_ns")
                 = Some (VInt (ckey (w0 :: rest)))).
    { unfold evg. change G with (urow w0 :: map urow rest) at 1. cbv beta iota. unfold ev_fuel.
      change 40 with (S (S 38)). rewrite ev_Col. subst G. apply (ckey_max 37). apply eqb_dot; [apply qkey_dot|reflexivity]. }
    unfold out_row, ccols, cnames, orow_row. destruct wts; cbn [combine map fst snd app]; rewrite H1, H2, ?H3; reflexivity.
  Qed.

  Lemma ckey2 w0 rest :
    evg re_match parse_float hash64 cte cal ["trace_id"] "" (map urow (w0 :: rest)) (Ord (Fn FMax [Id qkey]) true) = Some (VInt (ckey (w0 :: rest))).
  Proof.
    unfold evg. cbn [map]. unfold ev_fuel. change 40 with (S (S 38)). rewrite ev_Ord. apply (ckey_max 37).
    apply eqb_dot; [apply qkey_dot|reflexivity].
  Qed.

  Lemma chv_decides w0 rest h : chv = Some h ->
    exists v t, EVW cte cal ["trace_id"] ev_fuel true "" (map urow (w0 :: rest)) (urow w0) h = Some v
                /\ truth v = Some t /\ is_true3 t = cP (w0 :: rest).
  Proof.
    unfold chv, cP. destruct tagged eqn:Et; [|discriminate]. intros H. injection H as <-.
    set (G := map urow (w0 :: rest)). unfold ev_fuel. change 40 with (S (S (S 37))).
    rewrite ev_LOp. cbn [map]. rewrite ev_LOp. cbn [map]. rewrite ev_UniqExact, ev_IntV. subst G. rewrite map_map.
    rewrite (all_some_map_ext _ (fun w => VInt (Z.of_nat (w_op w)))).
    - rewrite (non_null_map_nn (fun w => VInt (Z.of_nat (w_op w)))) by reflexivity. fold (nops (w0 :: rest)).
      cbn [all_some vcmp is_null orb vleb]. set (b := (Z.leb (Z.of_nat (nops (w0 :: rest))) (Z.of_nat N) && Z.leb (Z.of_nat N) (Z.of_nat (nops (w0 :: rest))))%bool).
      cbn [map]. rewrite truth_vbool'. cbn [all_some]. rewrite and3_1. exists (vbool b), (Some b). split; [reflexivity|]. split; [apply truth_vbool'|].
      cbn [is_true3]. subst b. destruct (Nat.eqb_spec (nops (w0 :: rest)) N) as [E|E].
      + rewrite E, Z.leb_refl. reflexivity.
      + destruct (Z.leb_spec (Z.of_nat (nops (w0 :: rest))) (Z.of_nat N)), (Z.leb_spec (Z.of_nat N) (Z.of_nat (nops (w0 :: rest)))); cbn [andb]; try reflexivity; lia.
    - intros w _. rewrite ev_Id_row. change (String.eqb "_op" "") with false. cbv iota. rewrite cal_op. now apply u_op.
  Qed.

  Theorem complex_bridge top lim :
    eval_body re_match parse_float hash64 tables rec cte top (cstmt lim)
    = option_map (map (fun g => orow_row wts (cg g))) (lim_answer ckey (filter cP (group_rows same_wtr U)) lim).
  Proof.
    unfold eval_body, cstmt. cbv beta iota.
    assert (Hw : stage_with rec cte top [] = Some cte) by (unfold stage_with; destruct top; reflexivity).
    rewrite Hw.
    assert (Hfrom : stage_joins re_match parse_float hash64 cte [] (stage_from tables rec cte (Some (Col (Union subs) ua))) = Some (map urow U)).
    { unfold stage_joins, stage_from. cbn [fold_left]. rewrite Hsubs. rewrite <- concat_map, map_map. reflexivity. }
    rewrite Hfrom. unfold stage_where. rewrite cnames_cols. cbv beta iota. cbn [map all_some].
    unfold stage_group. rewrite urows_have_trace. cbn [negb].
    rewrite (group_rows_map urow same_wtr _ eq_keys_wtr).
    assert (Hal : stmt_aliases ccols chv = cal).
    { unfold stmt_aliases, chv. fold cal. destruct tagged; [|apply app_nil_r]. unfold ev_fuel. change 40 with (S (S 38)).
      rewrite (ha_LOp (S 38)). cbn [flat_map]. rewrite (ha_LOp 38). cbn [flat_map]. apply app_nil_r. }
    rewrite Hal.
    set (GS := group_rows same_wtr U).
    assert (Hne : forall g, In g GS -> g <> []) by (intros g; apply (group_nonempty same_wtr same_wtr_refl same_wtr_sym same_wtr_trans)).
    assert (Hkept : match chv with
                    | None => Some (map (map urow) GS)
                    | Some h => keep_true (fun g => evg re_match parse_float hash64 cte cal ["trace_id"] "" g h) (map (map urow) GS)
                    end = Some (map (map urow) (filter cP GS))).
    { destruct chv as [h|] eqn:Eh.
      - apply keep_true_map3. intros g Hg. destruct g as [|w0 rest]; [exfalso; now apply (Hne [] Hg)|].
        unfold evg. cbn [map]. now apply chv_decides.
      - f_equal. f_equal. symmetry. unfold chv in Eh. unfold cP. destruct tagged; [discriminate|].
        clear. induction GS as [|g l IH]; [reflexivity|]. cbn [filter]. now rewrite IH. }
    rewrite Hkept.
    assert (Hne' : forall g, In g (filter cP GS) -> g <> []) by (intros g Hg; apply filter_In in Hg; destruct Hg as [Hg _]; exact (Hne g Hg)).
    assert (Hout : forall g, In g (filter cP GS) ->
              out_row re_match parse_float hash64 cte cal ["trace_id"] cnames ccols (map urow g) = Some (orow_row wts (cg g))).
    { intros g Hg. destruct g as [|w0 rest]; [exfalso; now apply (Hne' [] Hg)|]. apply cout_row. }
    unfold lim_answer. destruct lim as [l|].
    - destruct l; try reflexivity. rewrite map_map.
      rewrite (all_some_map_ext _ (fun g => ([VInt (ckey g)], orow_row wts (cg g)))).
      + change (map (fun o => match o with Ord _ d => d | _ => false end) cob) with [true].
        rewrite <- (map_map (fun g => ([VInt (ckey g)], g)) (fun p => (fst p, orow_row wts (cg (snd p))))).
        rewrite (sort_by_map (fun g => orow_row wts (cg g))).
        destruct (sort_by [true] (map (fun g => ([VInt (ckey g)], g)) (filter cP GS))) as [sorted|]; [|reflexivity].
        cbn [option_map]. rewrite map_map. cbn [snd]. rewrite <- (map_map snd (fun g => orow_row wts (cg g))), firstn_map. reflexivity.
      + intros g Hg. destruct g as [|w0 rest]; [exfalso; now apply (Hne' [] Hg)|].
        set (G := map urow (w0 :: rest)). unfold cob. cbn [map all_some]. subst G. rewrite ckey2. cbn [all_some]. now rewrite cout_row.
    - cbn [option_map]. rewrite map_map. apply all_some_map_ext. exact Hout.
  Qed.
End COMPLEX.
