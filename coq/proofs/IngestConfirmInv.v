(* C01, ConfirmSeries as a RUN invariant (model/PushConfirm.v): in every reachable state of the wrapped system a push that
   answered an error has not run its confirmation loop and never will, a push that answered success has run it, and a push
   that has run it keeps all its sub-pushes successful; on the event log: no push has both a confirmation and an error
   answer, in either order.  One frame lemma (what a step does to the handler list) carries all of it. *)
From Coq Require Import List NArith ZArith Bool Lia.
From Qryn Require Import model.Ingest model.PushHandler model.IngestSpec model.PushConfirm proofs.IngestBase proofs.IngestAck
  proofs.IngestSpecProofs proofs.IngestHandler proofs.IngestConfirm.
Import ListNotations.

Definition new_handler (items : list item) : handler := {| h_items := items; h_subs := []; h_answer := None |}.

(* what one step does to one handler *)
Inductive hstep (a : gact) (es : list event) (h : nat) (hd hd' : handler) : Prop :=
| HItem : a = GItem h -> h_items hd <> [] ->
    ((h_answer hd' = h_answer hd /\ es = []) \/
     (h_answer hd = None /\ h_answer hd' = Some false /\ es = [EAnswer h (reqs_of (h_subs hd)) false])) ->
    (* a chunk: its sub-requests are appended to `promises`; an error response: the rest is dropped *)
    ((exists c rest att, h_items hd = IChunk c :: rest /\ h_items hd' = rest /\ h_subs hd' = h_subs hd ++ map (mk_sub att) c /\
                         h_answer hd' = h_answer hd) \/
     (exists rest, h_items hd = IError :: rest /\ h_items hd' = [] /\ h_subs hd' = h_subs hd /\ h_answer hd' <> None)) ->
    hstep a es h hd hd'
| HSubReq i s sp sp' : a = GSubReq h i s -> nth_error (h_subs hd) i = Some sp -> sp_result sp = None ->
    hd' = {| h_items := h_items hd; h_subs := upd i sp' (h_subs hd); h_answer := h_answer hd |} -> answered es = [] ->
    sp_kind sp' = sp_kind sp /\ sp_req sp' = sp_req sp ->
    hstep a es h hd hd'
| HSubGet i sp sp' k : a = GSubGet h i -> nth_error (h_subs hd) i = Some sp -> sp_cur sp = Some k ->
    hd' = {| h_items := h_items hd; h_subs := upd i sp' (h_subs hd); h_answer := h_answer hd |} -> es = [] ->
    sp_kind sp' = sp_kind sp /\ sp_req sp' = sp_req sp ->
    hstep a es h hd hd'
| HAnswer ok : a = GAnswer h -> h_items hd = [] -> h_answer hd = None -> verdict (h_subs hd) = Some ok ->
    hd' = {| h_items := []; h_subs := h_subs hd; h_answer := Some ok |} -> es = [EAnswer h (reqs_of (h_subs hd)) ok] ->
    hstep a es h hd hd'.

Lemma gstep_hs g a g' es : gstep g a = Some (g', es) ->
  (hs g' = hs g /\ answered es = []) \/
  (exists items, a = GNewHandler items /\ hs g' = hs g ++ [new_handler items] /\ es = []) \/
  (exists h hd hd', nth_error (hs g) h = Some hd /\ hs g' = upd h hd' (hs g) /\ hstep a es h hd hd').
Proof.
  intros Hstep. destruct a as [s a|s k n r sz|items|h|h i s|h i|h]; cbn in Hstep.
  - destruct (is_request a); [discriminate|]. left. destruct (svc_act_props _ _ _ _ _ Hstep) as (E & _ & _ & A & _). auto.
  - destruct (nth_error (svcs g) s); [|discriminate]. destruct (_ && _); [|discriminate].
    left. destruct (svc_act_props _ _ _ _ _ Hstep) as (E & _ & _ & A & _). auto.
  - inversion Hstep; subst. right. left. exists items. auto.
  - destruct (nth_error (hs g) h) as [hd|] eqn:Hh; [|discriminate]. right. right.
    destruct (h_items hd) as [|[c|] rest] eqn:Hit; [discriminate| |].
    + inversion Hstep; subst. eexists h, hd, _. split; [exact Hh|]. split; [reflexivity|].
      apply HItem; [reflexivity|congruence|left; split; reflexivity|]. left. exists c, rest, (attempts g). cbn. auto.
    + destruct (h_answer hd) eqn:Ha; inversion Hstep; subst; eexists h, hd, _; (split; [exact Hh|]); (split; [reflexivity|]).
      * apply HItem; [reflexivity|congruence|left; cbn; split; congruence|]. right. exists rest. cbn. repeat split; congruence.
      * apply HItem; [reflexivity|congruence|right; cbn; auto|]. right. exists rest. cbn. repeat split; congruence.
  - destruct (nth_error (hs g) h) as [hd|] eqn:Hh; [|discriminate].
    destruct (nth_error (h_subs hd) i) as [sp|] eqn:Hi; [|discriminate].
    destruct (is_none (sp_result sp) && is_none (sp_cur sp) && N.ltb (sp_used sp) (attempts g) && may_take g s sp) eqn:Hg; [|discriminate].
    destruct (svc_act g s _) as [[g1 es1]|] eqn:Hact; [|discriminate]. inversion Hstep; subst; clear Hstep.
    destruct (svc_act_props _ _ _ _ _ Hact) as (Eh & _ & _ & A & _). right. right. cbn. rewrite Eh.
    eexists h, hd, _. split; [exact Hh|]. split; [reflexivity|].
    eapply HSubReq; [reflexivity|exact Hi| |reflexivity|exact A|split; reflexivity].
    apply andb_true_iff in Hg as [Hg _]. apply andb_true_iff in Hg as [Hg _]. apply andb_true_iff in Hg as [Hg _].
    destruct (sp_result sp); [discriminate|reflexivity].
  - destruct (nth_error (hs g) h) as [hd|] eqn:Hh; [|discriminate].
    destruct (nth_error (h_subs hd) i) as [sp|] eqn:Hi; [|discriminate].
    destruct (sp_cur sp) as [k|] eqn:Hcur; [|discriminate].
    destruct (lookup_store (PSub h i k) (store g)) as [[[k0 r0] ok]|] eqn:Hl; [|discriminate].
    inversion Hstep; subst; clear Hstep. right. right. eexists h, hd, _. split; [exact Hh|]. split; [reflexivity|].
    eapply HSubGet; [reflexivity|exact Hi|exact Hcur|reflexivity|reflexivity|split; reflexivity].
  - destruct (nth_error (hs g) h) as [hd|] eqn:Hh; [|discriminate].
    destruct (h_items hd) eqn:Hit; [|discriminate]. destruct (h_answer hd) eqn:Ha; [discriminate|].
    destruct (verdict (h_subs hd)) as [ok|] eqn:Hv; [|discriminate]. inversion Hstep; subst.
    right. right. eexists h, hd, _. split; [exact Hh|]. split; [reflexivity|].
    eapply HAnswer; [reflexivity|exact Hit|exact Ha|exact Hv|reflexivity|reflexivity].
Qed.

Lemma in_answered h reqs b es : In (EAnswer h reqs b) es -> In h (answered es).
Proof.
  induction es as [|e es IH]; cbn; [intros []|]. intros [->|H]; [now left|]. destruct e; cbn; auto.
Qed.

(* an answer, once written, stays *)
Lemma hstep_answer_stable a es h hd hd' b : hstep a es h hd hd' -> h_answer hd = Some b -> h_answer hd' = Some b.
Proof.
  intros S Hb. destruct S as [_ _ [[E _]|(E & _)] _|? ? ? ? _ _ _ -> _ _|? ? ? ? _ _ _ -> _ _|ok _ _ E _ _ _]; cbn; congruence.
Qed.
Lemma answer_stable g a g' es h hd b : gstep g a = Some (g', es) -> nth_error (hs g) h = Some hd -> h_answer hd = Some b ->
  exists hd', nth_error (hs g') h = Some hd' /\ h_answer hd' = Some b.
Proof.
  intros Hstep Hh Hb. destruct (gstep_hs _ _ _ _ Hstep) as [[E _]|[(items & _ & E & _)|(h1 & hd1 & hd1' & Hh1 & E & S)]]; rewrite E.
  - eauto.
  - exists hd. rewrite nth_error_app1 by (eapply nth_error_some_lt; eauto). auto.
  - destruct (Nat.eq_dec h1 h) as [->|Hne].
    + rewrite Hh in Hh1. inversion Hh1; subst. exists hd1'. rewrite nth_error_upd_same by (eapply nth_error_some_lt; eauto).
      split; [reflexivity|eapply hstep_answer_stable; eauto].
    + exists hd. rewrite nth_error_upd_other by assumption. auto.
Qed.
(* an answer event is the writing of that answer *)
Lemma answer_event g a g' es h reqs b : gstep g a = Some (g', es) -> In (EAnswer h reqs b) es ->
  exists hd', nth_error (hs g') h = Some hd' /\ h_answer hd' = Some b.
Proof.
  intros Hstep Hin. destruct (gstep_hs _ _ _ _ Hstep) as [[_ A]|[(items & _ & _ & ->)|(h1 & hd1 & hd1' & Hh1 & E & S)]].
  - apply in_answered in Hin. rewrite A in Hin. destruct Hin.
  - destruct Hin.
  - assert (L : (h1 < length (hs g))%nat) by (eapply nth_error_some_lt; eauto).
    destruct S as [_ _ [[_ ->]|(_ & E' & ->)] _|? ? ? ? _ _ _ _ A _|? ? ? ? _ _ _ _ -> _|ok _ _ _ _ -> ->].
    + destruct Hin.
    + destruct Hin as [X|[]]. inversion X; subst. exists hd1'. rewrite E, nth_error_upd_same by assumption. auto.
    + apply in_answered in Hin. rewrite A in Hin. destruct Hin.
    + destruct Hin.
    + destruct Hin as [X|[]]. inversion X; subst. eexists. rewrite E, nth_error_upd_same by assumption. split; reflexivity.
Qed.

(* ---------------------------------------------------------------- a push that won stays won *)
Definition won (hd : handler) : Prop := h_items hd = [] /\ forall sp, In sp (h_subs hd) -> sp_result sp = Some true.

Lemma verdict_all_true l : (forall sp, In sp l -> sp_result sp = Some true) -> verdict l = Some true.
Proof.
  induction l as [|x l IH]; intros H; cbn; [reflexivity|]. rewrite (H x (or_introl eq_refl)). apply IH. intros sp Hs. apply H. now right.
Qed.

(* the only step left to a push that won is its success answer *)
Lemma won_step g a es h hd hd' : InvE g -> nth_error (hs g) h = Some hd -> hstep a es h hd hd' -> won hd ->
  a = GAnswer h /\ hd' = {| h_items := []; h_subs := h_subs hd; h_answer := Some true |} /\ h_answer hd = None.
Proof.
  intros HI Hh S [Wi Ws]. destruct (HI _ _ Hh) as [_ B].
  destruct S as [_ Hne _ _|i s sp sp' _ Hi Hr _ _ _|i sp sp' k _ Hi Hc _ _ _|ok -> _ Ha Hv -> _].
  - contradiction.
  - apply nth_error_In in Hi. rewrite (Ws _ Hi) in Hr. discriminate.
  - destruct (B _ _ Hi) as [B1 _]. apply nth_error_In in Hi. rewrite B1 in Hc by (rewrite (Ws _ Hi); discriminate). discriminate.
  - rewrite (verdict_all_true _ Ws) in Hv. inversion Hv; subst. auto.
Qed.

(* ---------------------------------------------------------------- the run invariant *)
Definition CI (c : cstate) : Prop :=
  InvE (base c) /\
  (forall h, mem_nat h (confirmed c) = true -> exists hd, nth_error (hs (base c)) h = Some hd /\ won hd /\ h_answer hd <> Some false) /\
  (forall h hd, nth_error (hs (base c)) h = Some hd -> h_answer hd = Some true -> mem_nat h (confirmed c) = true).

Lemma CI_init cfg n : CI (cinit cfg n).
Proof.
  split; [intros x hd0 Hn; destruct x; discriminate|]. split; [intros h H; discriminate|]. intros h hd H. destruct h; discriminate.
Qed.

Lemma mem_nat_cons h x l : mem_nat h (x :: l) = Nat.eqb h x || mem_nat h l.
Proof. reflexivity. Qed.

Lemma cstep_CI c a c' es : CI c -> cstep c a = Some (c', es) -> CI c'.
Proof.
  intros (HI & C1 & C2) Hs. destruct a as [b|h].
  - pose proof Hs as Hs0. destruct (cstep_base _ _ _ _ Hs) as (eb & G & -> & _ & Ec). split; [eapply gstep_InvE; eauto|]. rewrite Ec.
    destruct (gstep_hs _ _ _ _ G) as [[E _]|[(items & _ & E & _)|(h1 & hd1 & hd1' & Hh1 & E & S)]]; rewrite E.
    + split; assumption.
    + split.
      * intros h Hm. destruct (C1 h Hm) as (hd & Hh & W). exists hd. rewrite nth_error_app1 by (eapply nth_error_some_lt; eauto). auto.
      * intros h hd Hh Ha. destruct (Nat.lt_ge_cases h (length (hs (base c)))) as [L|L].
        -- rewrite nth_error_app1 in Hh by assumption. eauto.
        -- rewrite nth_error_app2 in Hh by assumption. destruct (h - length (hs (base c)))%nat as [|[|?]]; cbn in Hh; try discriminate.
           inversion Hh; subst. discriminate.
    + assert (L : (h1 < length (hs (base c)))%nat) by (eapply nth_error_some_lt; eauto). split.
      * intros h Hm. destruct (C1 h Hm) as (hd & Hh & W & Na). destruct (Nat.eq_dec h1 h) as [->|Hne].
        -- rewrite Hh in Hh1. inversion Hh1; subst hd1. destruct (won_step _ _ _ _ _ _ HI Hh S W) as (_ & -> & _).
           eexists. rewrite nth_error_upd_same by assumption. split; [reflexivity|]. split; [split; [reflexivity|exact (proj2 W)]|discriminate].
        -- exists hd. rewrite nth_error_upd_other by assumption. auto.
      * intros h hd Hh Ha. apply nth_error_upd_cases in Hh as [[-> ->]|[Hne Hh]]; [|eauto].
        destruct S as [_ _ [[Ea _]|(_ & Ea & _)] _|? ? ? ? _ _ _ -> _ _|? ? ? ? _ _ _ -> _ _|ok -> Hit Hna Hv -> _]; cbn in Ha.
        -- rewrite Ea in Ha. eauto.
        -- congruence.
        -- eauto.
        -- eauto.
        -- inversion Ha; subst ok. cbn in Hs0. rewrite Hh1, Hv in Hs0. destruct (mem_nat h (confirmed c)); [reflexivity|discriminate].
  - destruct (confirm_as_answer _ _ _ _ Hs) as (keys & hd & -> & _ & Hh & Hit & Han & V & M & Eb & _ & Ecf & _).
    rewrite <- Eb in HI. split; [rewrite Eb in *; exact HI|]. rewrite Eb, Ecf. split.
    + intros h0 Hm. rewrite mem_nat_cons in Hm. destruct (Nat.eqb h0 h) eqn:Eh.
      * apply Nat.eqb_eq in Eh. subst h0. exists hd. split; [exact Hh|]. split; [split; [exact Hit|exact (verdict_true_all _ V)]|congruence].
      * apply C1. exact Hm.
    + intros h0 hd0 Hh0 Ha. rewrite mem_nat_cons. rewrite (C2 _ _ Hh0 Ha). apply orb_true_r.
Qed.

Lemma crun_CI tr : forall c c' es, CI c -> crun c tr = Some (c', es) -> CI c'.
Proof.
  induction tr as [|a tr IH]; intros c c' es H R; cbn in R; [inversion R; subst; exact H|].
  destruct (cstep c a) as [[c1 e1]|] eqn:Es; [|discriminate]. destruct (crun c1 tr) as [[c2 e2]|] eqn:Er; [|discriminate].
  inversion R; subst. eapply IH; [eapply cstep_CI; eauto|exact Er].
Qed.

(* For every configuration and every run of the wrapped system, in the state reached: a push that answered an error has not
   confirmed; a push that answered success has; a push that has confirmed has received everything its parser sent and every
   one of its sub-pushes has succeeded (so its answer, if any, is the success status). *)
Theorem confirmation_matches_the_answer cfg n tr c ces : crun (cinit cfg n) tr = Some (c, ces) ->
  forall h hd, nth_error (hs (base c)) h = Some hd ->
    (h_answer hd = Some false -> mem_nat h (confirmed c) = false) /\
    (h_answer hd = Some true -> mem_nat h (confirmed c) = true) /\
    (mem_nat h (confirmed c) = true -> h_items hd = [] /\ (forall sp, In sp (h_subs hd) -> sp_result sp = Some true) /\ h_answer hd <> Some false).
Proof.
  intros R h hd Hh. destruct (crun_CI _ _ _ _ (CI_init cfg n) R) as (_ & C1 & C2).
  split; [|split; [apply C2; exact Hh|]].
  - intros Ha. destruct (mem_nat h (confirmed c)) eqn:M; [|reflexivity]. destruct (C1 h M) as (hd0 & Hh0 & _ & Na). congruence.
  - intros M. destruct (C1 h M) as (hd0 & Hh0 & [Wi Ws] & Na). rewrite Hh in Hh0. inversion Hh0; subst. auto.
Qed.

(* ---------------------------------------------------------------- on the event log *)
Definition LI (c : cstate) (ces : list cevent) : Prop :=
  (forall h keys, In (EConfirm h keys) ces -> mem_nat h (confirmed c) = true) /\
  (forall h reqs, In (CE (EAnswer h reqs false)) ces -> exists hd, nth_error (hs (base c)) h = Some hd /\ h_answer hd = Some false).

Lemma in_map_CE e eb : In (CE e) (map CE eb) -> In e eb.
Proof. intros H. apply in_map_iff in H as (x & E & Hx). inversion E; subst. exact Hx. Qed.

Lemma cstep_LI c a c' es ces : LI c ces -> cstep c a = Some (c', es) -> LI c' (ces ++ es).
Proof.
  intros [L1 L2] Hs. destruct a as [b|h].
  - destruct (cstep_base _ _ _ _ Hs) as (eb & G & -> & _ & Ec). split.
    + intros h keys Hin. rewrite Ec. apply in_app_iff in Hin as [Hin|Hin]; [eauto|]. apply in_map_iff in Hin as (x & E & _). discriminate.
    + intros h reqs Hin. apply in_app_iff in Hin as [Hin|Hin].
      * destruct (L2 _ _ Hin) as (hd & Hh & Ha). eapply answer_stable; eauto.
      * apply in_map_CE in Hin. eapply answer_event; eauto.
  - destruct (confirm_as_answer _ _ _ _ Hs) as (keys & hd & -> & _ & _ & _ & _ & _ & _ & Eb & _ & Ecf & _). split.
    + intros h0 k0 Hin. rewrite Ecf, mem_nat_cons. apply in_app_iff in Hin as [Hin|[X|[]]].
      * rewrite (L1 _ _ Hin). apply orb_true_r.
      * inversion X; subst. now rewrite Nat.eqb_refl.
    + intros h0 reqs Hin. rewrite Eb. apply in_app_iff in Hin as [Hin|[X|[]]]; [eauto|discriminate].
Qed.

Lemma crun_LI tr : forall c c' ces0 ces, LI c ces0 -> crun c tr = Some (c', ces) -> LI c' (ces0 ++ ces).
Proof.
  induction tr as [|a tr IH]; intros c c' ces0 ces H R; cbn in R; [inversion R; subst; now rewrite app_nil_r|].
  destruct (cstep c a) as [[c1 e1]|] eqn:Es; [|discriminate]. destruct (crun c1 tr) as [[c2 e2]|] eqn:Er; [|discriminate].
  inversion R; subst. rewrite app_assoc. eapply IH; [eapply cstep_LI; eauto|exact Er].
Qed.

(* In the event log of every run of the wrapped system no push has both a confirmation and an error answer -- whichever
   came first: an error answer is never followed by the confirmation loop (the push is not won), and a confirmation is
   never followed by an error answer (the only step left to the push is the success answer). *)
Theorem error_answer_never_confirmed cfg n tr c ces : crun (cinit cfg n) tr = Some (c, ces) ->
  forall h keys reqs, In (EConfirm h keys) ces -> ~ In (CE (EAnswer h reqs false)) ces.
Proof.
  intros R h keys reqs Hc Ha.
  assert (L0 : LI (cinit cfg n) []) by (split; intros ? ? []).
  destruct (crun_LI _ _ _ _ _ L0 R) as [L1 L2]. cbn [app] in L1, L2.
  destruct (L2 _ _ Ha) as (hd & Hh & Hf). pose proof (L1 _ _ Hc) as M.
  destruct (confirmation_matches_the_answer _ _ _ _ _ R _ _ Hh) as (F & _). rewrite (F Hf) in M. discriminate.
Qed.
