(* Proofs about the diff view (property C16): mergeChildren aligns the two child lists without changing either side's
   weight, and the tick counts of the diff are the sums of the root rows of the two sides. *)
From Coq Require Import List NArith ZArith Bool Lia.
From Qryn Require Import model.Pprof model.ProfTree model.ProfDiff proofs.PprofProofs proofs.ProfTreeProofs.
Import ListNotations.
Open Scope Z_scope.

Definition sum_total_of (l : list tnode) : Z := sumZ (map t_total l).
Definition sum_self_of (l : list tnode) : Z := sumZ (map t_self l).

Lemma sum_total_cons x l : sum_total_of (x :: l) = t_total x + sum_total_of l. Proof. reflexivity. Qed.
Lemma sum_self_cons' x l : sum_self_of (x :: l) = t_self x + sum_self_of l. Proof. reflexivity. Qed.

Lemma merge_children_f_spec : forall fuel a b, (length a + length b <= fuel)%nat ->
  map t_id (fst (merge_children_f fuel a b)) = map t_id (snd (merge_children_f fuel a b)) /\
  sum_total_of (fst (merge_children_f fuel a b)) = sum_total_of a /\ sum_self_of (fst (merge_children_f fuel a b)) = sum_self_of a /\
  sum_total_of (snd (merge_children_f fuel a b)) = sum_total_of b /\ sum_self_of (snd (merge_children_f fuel a b)) = sum_self_of b.
Proof.
  induction fuel as [|f IH]; intros a b Hlen.
  - destruct a; destruct b; cbn [length] in Hlen; try lia. cbn. tauto.
  - destruct a as [|x a]; destruct b as [|y b]; cbn [merge_children_f].
    + cbn. tauto.
    + specialize (IH [] b ltac:(cbn [length] in *; lia)). destruct (merge_children_f f [] b) as [r1 r2].
      cbn [fst snd] in *. destruct IH as (H1 & H2 & H3 & H4 & H5).
      rewrite !sum_total_cons, !sum_self_cons'. cbn [map empty_like t_id t_total t_self].
      split; [f_equal; exact H1|]. repeat split; lia.
    + specialize (IH a [] ltac:(cbn [length] in *; lia)). destruct (merge_children_f f a []) as [r1 r2].
      cbn [fst snd] in *. destruct IH as (H1 & H2 & H3 & H4 & H5).
      rewrite !sum_total_cons, !sum_self_cons'. cbn [map empty_like t_id t_total t_self].
      split; [f_equal; exact H1|]. repeat split; lia.
    + destruct (N.eqb (t_id x) (t_id y)) eqn:Eid; [|destruct (N.ltb (t_id x) (t_id y))].
      * specialize (IH a b ltac:(cbn [length] in *; lia)). destruct (merge_children_f f a b) as [r1 r2].
        cbn [fst snd] in *. destruct IH as (H1 & H2 & H3 & H4 & H5). apply N.eqb_eq in Eid.
        rewrite !sum_total_cons, !sum_self_cons'. cbn [map].
        split; [rewrite Eid; f_equal; exact H1|]. repeat split; lia.
      * specialize (IH a (y :: b) ltac:(cbn [length] in *; lia)). destruct (merge_children_f f a (y :: b)) as [r1 r2].
        cbn [fst snd] in *. destruct IH as (H1 & H2 & H3 & H4 & H5).
        rewrite !sum_total_cons, !sum_self_cons' in *. cbn [map empty_like t_id t_total t_self].
        split; [f_equal; exact H1|]. repeat split; lia.
      * specialize (IH (x :: a) b ltac:(cbn [length] in *; lia)). destruct (merge_children_f f (x :: a) b) as [r1 r2].
        cbn [fst snd] in *. destruct IH as (H1 & H2 & H3 & H4 & H5).
        rewrite !sum_total_cons, !sum_self_cons' in *. cbn [map empty_like t_id t_total t_self].
        split; [f_equal; exact H1|]. repeat split; lia.
Qed.

(* mergeChildren, for ANY two child lists: both results list the same node ids in the same order; the left result
   carries exactly the weight of the left input and the right result that of the right input (what is filled in is zero) *)
Theorem merge_children_aligned a b :
  map t_id (fst (merge_children a b)) = map t_id (snd (merge_children a b)) /\
  sum_total_of (fst (merge_children a b)) = sum_total_of a /\ sum_self_of (fst (merge_children a b)) = sum_self_of a /\
  sum_total_of (snd (merge_children a b)) = sum_total_of b /\ sum_self_of (snd (merge_children a b)) = sum_self_of b.
Proof. apply merge_children_f_spec. lia. Qed.

(* sort.Slice by node id only permutes *)
Lemma insert_by_id_sums c l :
  sum_total_of (insert_by_id c l) = t_total c + sum_total_of l /\ sum_self_of (insert_by_id c l) = t_self c + sum_self_of l.
Proof.
  induction l as [|d r IH]; cbn [insert_by_id]; [split; reflexivity|].
  destruct (N.leb (t_id c) (t_id d)); [split; reflexivity|].
  rewrite !sum_total_cons, !sum_self_cons'. destruct IH as [H1 H2]. rewrite H1, H2. split; lia.
Qed.
Lemma sort_by_id_sums l : sum_total_of (sort_by_id l) = sum_total_of l /\ sum_self_of (sort_by_id l) = sum_self_of l.
Proof.
  induction l as [|c l IH]; [split; reflexivity|]. cbn [sort_by_id fold_right]. fold (sort_by_id l).
  destruct (insert_by_id_sums c (sort_by_id l)) as [H1 H2]. destruct IH as [I1 I2].
  rewrite H1, H2, I1, I2. split; reflexivity.
Qed.

(* the ticks of the diff view: left and right are the sums (modulo 2^64) of the rows under the root of their side,
   the total is their sum -- for any rows in any order, grouped or not *)
Theorem diff_ticks_are_sums limit lrows rrows lfs rfs :
  Z.of_nat (length lrows) <= limit -> Z.of_nat (length rrows) <= limit ->
  let o := compute_diff (merge_trie limit new_tree lrows lfs) (merge_trie limit new_tree rrows rfs) in
  o_left o = wrap64 (rchild_tot lrows 0%N) /\ o_right o = wrap64 (rchild_tot rrows 0%N) /\
  o_total o = wrap64 (rchild_tot lrows 0%N + rchild_tot rrows 0%N).
Proof.
  intros Hl Hr o. unfold o, compute_diff. cbn [o_left o_right o_total].
  rewrite !total_is_sum_proof by assumption.
  split; [reflexivity|]. split; [reflexivity|].
  apply eqm_wrap64. rewrite !wrap64_eqm. reflexivity.
Qed.

(* RenderDiff refuses exactly the trees holding a negative self value *)
Lemma render_diff_some t1 t2 : assert_positive t1 = true -> assert_positive t2 = true ->
  render_diff t1 t2 = Some (compute_diff t1 t2).
Proof. intros H1 H2. unfold render_diff. rewrite H1, H2. reflexivity. Qed.
