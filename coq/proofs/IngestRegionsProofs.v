(* C01/C02: the atomic steps of model/Ingest.v against the Lock/Unlock regions of genericInsertService.go
   (model/IngestRegions.v; the regions are regenerated from the source and compared on every run). *)
From Coq Require Import List String ZArith Bool.
From Qryn Require Import model.Ingest model.IngestRegions.
Import ListNotations.

(* frame: a step changes only the model fields listed for its kind, in every state *)
Theorem sstep_frame s a s' vs m : sstep s a = Some (s', vs) -> mem_mfield m (step_writes (kind_of a)) = false -> same_on m s s'.
Proof.
  intros H Hm. destruct a as [p r sz| |ok| | |ok| |]; cbn in H.
  - destruct (running s) eqn:Rn; cbn in H.
    + destruct (eff (kd s) r) as [r'|]; [|discriminate]. destruct (Nat.eqb _ 0); inversion H; subst; destruct m; try discriminate; cbn; congruence.
    + inversion H; subst. destruct m; reflexivity.
  - inversion H; subst. destruct m; try discriminate; reflexivity.
  - destruct (_ && _); inversion H; subst. destruct m; try discriminate; reflexivity.
  - destruct (loop_ready s && client s) eqn:E; [|discriminate]. apply andb_true_iff in E as [_ C].
    destruct (is_nil (results s)); inversion H; subst; destruct m; try discriminate; cbn; congruence.
  - destruct (inflight s) as [po|]; [|discriminate]. destruct (p_sent po); inversion H; subst. destruct m; try discriminate; reflexivity.
  - destruct (inflight s) as [po|]; [|discriminate]. destruct (p_sent po); cbn in H; inversion H; subst. destruct m; try discriminate; reflexivity.
  - destruct (is_none (inflight s)); inversion H; subst. destruct m; try discriminate; reflexivity.
  - inversion H; subst. destruct m; try discriminate; reflexivity.
Qed.

(* the lists are not padded: every listed field is changed by some step of that kind *)
Example step_writes_tight :
  let s0 := svc_init KSamples 0 1%Z in
  let rq := SRequest (PEnv 1%N) (table_of 5 [1%N]) 5%Z in
  (exists s1 v1, sstep s0 rq = Some (s1, v1) /\ cols s1 <> cols s0 /\ size s1 <> size s0 /\ results s1 <> results s0 /\
     planned s1 <> planned s0 /\
     exists s2 v2, sstep s1 (SDial true) = Some (s2, v2) /\ client s2 <> client s1 /\
     exists s3 v3, sstep s2 SSwap = Some (s3, v3) /\ cols s3 <> cols s2 /\ size s3 <> size s2 /\ results s3 <> results s2 /\
       planned s3 <> planned s2 /\ inflight s3 <> inflight s2 /\
     exists s4 v4, sstep s3 SSend = Some (s4, v4) /\ inflight s4 <> inflight s3 /\
     exists s5 v5, sstep s4 (SDoReturn false) = Some (s5, v5) /\ inflight s5 <> inflight s4 /\ client s5 <> client s4 /\
     exists s6 v6, sstep s5 SStop = Some (s6, v6) /\ running s6 <> running s5).
Proof.
  cbv zeta. eexists; eexists. split; [vm_compute; reflexivity|]. repeat (split; [discriminate|]).
  eexists; eexists. split; [vm_compute; reflexivity|]. split; [discriminate|].
  eexists; eexists. split; [vm_compute; reflexivity|]. repeat (split; [discriminate|]).
  eexists; eexists. split; [vm_compute; reflexivity|]. split; [discriminate|].
  eexists; eexists. split; [vm_compute; reflexivity|]. repeat (split; [discriminate|]).
  eexists; eexists. split; [vm_compute; reflexivity|]. discriminate.
Qed.

(* every step that touches shared state is one region, whose writes are the step's; steps without a region touch no
   shared field; every region is exactly one step (or Init); nothing shared is written outside a region and read only
   at the listed places; swapBuffers leaves no alias of the portion in the service *)
Theorem model_steps_are_the_critical_sections : regions_ok regions_model outside_model = true.
Proof. vm_compute. reflexivity. Qed.

(* the three seeded aliasing changes, as region data: each is rejected *)
Definition with_swap_writes (ws : list (string * rhs)) : list region :=
  map (fun r => if String.eqb (rg_func r) "swapBuffers"
                then {| rg_func := rg_func r; rg_ord := rg_ord r; rg_writes := ws; rg_reads := rg_reads r;
                        rg_calls := rg_calls r; rg_returns := rg_returns r |} else r) regions_model.
Example aliasing_changes_are_rejected :
  regions_ok (with_swap_writes [("insertCtx", RFresh "context"); ("insertCancel", RFresh "context"); ("columns", RFresh "acquireColumns");
                                ("lastSend", RFresh "now"); ("size", RConst 0); ("results", ROther "results[:0]")]) outside_model = false /\
  regions_ok (with_swap_writes [("insertCtx", RFresh "context"); ("insertCancel", RFresh "context"); ("columns", RField "spare"); ("spare", RField "columns");
                                ("lastSend", RFresh "now"); ("size", RConst 0); ("results", RNil)]) outside_model = false /\
  regions_ok regions_model (outside_model ++ [{| ac_func := "fetchLoopIteration"; ac_field := "results"; ac_mode := AW |}]) = false.
Proof. vm_compute. auto. Qed.

(* ---------------------------------------------------------------- round 6: the regions of the two-step swap (seeded C02-f) are rejected.
   What translate/gen_c01_regions regenerates from the source in which swapBuffers takes the waiters in takeWaiting() (a region of its own),
   acquires the next column set outside any region and swaps the columns in a second region -- the source shape of the variant
   model/IngestSwap2.v.  regions_ok fails on it for three independent reasons: the step SSwap has no single region writing all the shared
   fields it changes (step_ok KSwap), the region of takeWaiting belongs to no step of the model (owner count 0), and swap_fresh does not
   find the portion handed out by the region that re-initialises the fields. *)
Definition regions_c02f : list region :=
  filter (fun r => negb (String.eqb (rg_func r) "swapBuffers")) regions_model ++ [
  {| rg_func := "takeWaiting"; rg_ord := 0;
     rg_writes := [("insertCtx", RFresh "context"); ("insertCancel", RFresh "context"); ("results", RNil); ("size", RConst 0)];
     rg_reads := ["pushInterval"; "results"; "size"];
     rg_calls := [];
     rg_returns := [RField "results"; RField "size"] |};
  {| rg_func := "swapBuffers"; rg_ord := 0;
     rg_writes := [("columns", RFresh "acquireColumns"); ("lastSend", RFresh "now")];
     rg_reads := ["columns"];
     rg_calls := [];
     rg_returns := [RField "columns"; ROther "results"; ROther "size"; RNil] |} ].
Definition outside_c02f : list access :=
  outside_model ++ [ {| ac_func := "swapBuffers"; ac_field := "acquireColumns"; ac_mode := AC |} ].

Theorem split_swap_regions_are_rejected :
  regions_ok regions_c02f outside_c02f = false /\
  step_ok regions_c02f KSwap = false /\
  existsb (fun r => Nat.eqb (region_owner_count r) 0) regions_c02f = true /\
  swap_fresh regions_c02f = false /\
  List.length regions_c02f = 6%nat.
Proof. vm_compute. repeat split; reflexivity. Qed.
