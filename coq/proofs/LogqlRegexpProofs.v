(* C07 - the regexp-stage grammar (model/LogqlRegexp.v): the methods of the AST transcribed from
   planner_parser_regexp.go agree with the left-to-right reading of the token list:
     collectGroupNames lists the names in the order of the opening parentheses (pre-order, NOT the order in which the
     groups close), and String() is the text with every `(?P<name>` replaced by `(`. *)
From Coq Require Import List String Ascii Bool Lia PeanoNat.
From Qryn Require Import lib.Strs model.LogqlRegexp.
Import ListNotations.
Open Scope string_scope.

Lemma sapp_assoc (a b c : string) : ((a ++ b) ++ c = a ++ (b ++ c))%string.
Proof. induction a as [|x a IH]; [reflexivity|]. cbn [append]. now rewrite IH. Qed.
Lemma sapp_nil_r (a : string) : (a ++ "" = a)%string.
Proof. induction a as [|x a IH]; [reflexivity|]. cbn [append]. now rewrite IH. Qed.

(* the local fixpoints of the nested definitions are the list functions *)
Lemma go_string l :
  (fix go (l : list rpart) : string := match l with [] => "" | x :: r => part_string x ++ go r end) l = ast_string l.
Proof. induction l as [|x l IH]; [reflexivity|]. cbn [ast_string]. now f_equal. Qed.
Lemma go_names l : forall acc,
  (fix go (l : list rpart) (acc : list string) : list string :=
     match l with [] => acc | x :: r => go r (part_names x acc) end) l acc = ast_names l acc.
Proof. induction l as [|x l IH]; intros acc; [reflexivity|]. cbn [ast_names]. apply IH. Qed.
Lemma part_string_named n tail : part_string (RNamed n tail) = "(" ++ ast_string tail ++ ")".
Proof. cbn [part_string]. now rewrite go_string. Qed.
Lemma part_string_noncap body : part_string (RNonCap body) = "(?" ++ ast_string body ++ ")".
Proof. cbn [part_string]. now rewrite go_string. Qed.
Lemma part_names_noncap body init : part_names (RNonCap body) init = ast_names body init.
Proof. cbn [part_names]. now rewrite go_names. Qed.
Lemma part_string_brack body : part_string (RBrack body) = "(" ++ ast_string body ++ ")".
Proof. cbn [part_string]. now rewrite go_string. Qed.
Lemma part_names_named n tail init : part_names (RNamed n tail) init = ast_names tail (init ++ [n])%list.
Proof. cbn [part_names]. now rewrite go_names. Qed.
Lemma part_names_brack body init : part_names (RBrack body) init = ast_names body (init ++ [""])%list.
Proof. cbn [part_names]. now rewrite go_names. Qed.

(* size, for the accumulator lemma *)
Fixpoint psize (p : rpart) : nat :=
  match p with
  | RSimple _ => 1
  | RNamed _ tail => S ((fix go (l : list rpart) : nat := match l with [] => 0 | x :: r => psize x + go r end) tail)
  | RNonCap body => S ((fix go (l : list rpart) : nat := match l with [] => 0 | x :: r => psize x + go r end) body)
  | RBrack body => S ((fix go (l : list rpart) : nat := match l with [] => 0 | x :: r => psize x + go r end) body)
  end.
Fixpoint asize (l : list rpart) : nat := match l with [] => 0 | x :: r => psize x + asize r end.
Lemma go_size l : (fix go (l : list rpart) : nat := match l with [] => 0 | x :: r => psize x + go r end) l = asize l.
Proof. induction l as [|x l IH]; [reflexivity|]. cbn [asize]. now f_equal. Qed.
Lemma psize_pos p : (1 <= psize p)%nat.
Proof. destruct p; cbn [psize]; lia. Qed.

(* collectGroupNames only appends *)
Lemma ast_names_acc : forall n l init, (asize l <= n)%nat -> ast_names l init = (init ++ ast_names l [])%list.
Proof.
  induction n as [|n IH]; intros l init Hn.
  - destruct l as [|x l]; [cbn; now rewrite app_nil_r|]. cbn [asize] in Hn. pose proof (psize_pos x). lia.
  - destruct l as [|x l]; [cbn; now rewrite app_nil_r|]. cbn [asize] in Hn. cbn [ast_names].
    assert (Hx : forall i, part_names x i = (i ++ part_names x [])%list).
    { intros i. destruct x as [s|nm tail|body|body].
      - cbn [part_names]. now rewrite app_nil_r.
      - rewrite !part_names_named. cbn [psize] in Hn. rewrite go_size in Hn.
        rewrite (IH tail (i ++ [nm])%list) by lia. rewrite (IH tail ([] ++ [nm])%list) by lia. now rewrite <- app_assoc.
      - rewrite !part_names_noncap. cbn [psize] in Hn. rewrite go_size in Hn. apply IH. lia.
      - rewrite !part_names_brack. cbn [psize] in Hn. rewrite go_size in Hn.
        rewrite (IH body (i ++ [""])%list) by lia. rewrite (IH body ([] ++ [""])%list) by lia. now rewrite <- app_assoc. }
    pose proof (psize_pos x).
    rewrite (IH l (part_names x init)) by lia. rewrite (IH l (part_names x [])) by lia.
    rewrite (Hx init). now rewrite <- app_assoc.
Qed.
Lemma ast_names_app l init : ast_names l init = (init ++ ast_names l [])%list.
Proof. now apply (ast_names_acc (asize l)). Qed.

(* a run of simple tokens opens no group and is sent as it is *)
Lemma take_simple_spec : forall ts s r, take_simple ts = (s, r) ->
  tok_names ts = tok_names r /\ tok_sent ts = s ++ tok_sent r.
Proof.
  induction ts as [|t ts IH]; intros s r H; cbn [take_simple] in H.
  - injection H as <- <-. split; reflexivity.
  - destruct (simple_tok t) as [txt|] eqn:Et.
    + destruct (take_simple ts) as [a b] eqn:Eab. injection H as <- <-. destruct (IH a b eq_refl) as [H1 H2].
      destruct t; try discriminate Et; injection Et as <-; cbn [tok_names tok_sent tok_text]; rewrite H1, H2;
        (split; [reflexivity|now rewrite sapp_assoc]).
    + injection H as <- <-. split; reflexivity.
Qed.

(* the parts parsed off the front of ts: their names and their text, against the left-to-right reading of ts *)
Lemma parts_spec : forall f ts ps rest, parts f ts = Some (ps, rest) ->
  tok_names ts = (ast_names ps [] ++ tok_names rest)%list /\ tok_sent ts = ast_string ps ++ tok_sent rest.
Proof.
  induction f as [|f IH]; intros ts ps rest H; [discriminate|].
  cbn [parts] in H. destruct ts as [|t ts].
  - injection H as <- <-. split; reflexivity.
  - assert (Hsimple : (let '(s, r) := take_simple (t :: ts) in
                       match parts f r with Some (ps0, r2) => Some (RSimple s :: ps0, r2) | None => None end) = Some (ps, rest) ->
                      tok_names (t :: ts) = (ast_names ps [] ++ tok_names rest)%list
                      /\ tok_sent (t :: ts) = ast_string ps ++ tok_sent rest).
    { intros H'. destruct (take_simple (t :: ts)) as [s r] eqn:Ets.
      destruct (parts f r) as [[ps0 r2]|] eqn:Ep; [|discriminate]. injection H' as <- <-.
      destruct (take_simple_spec _ _ _ Ets) as [H1 H2]. destruct (IH _ _ _ Ep) as [H3 H4].
      rewrite H1, H2, H3, H4. cbn [ast_names ast_string part_names part_string]. split; [reflexivity|now rewrite sapp_assoc]. }
    destruct t as [| | | | |s|s].
    + (* OBrackQ *)
      destruct ts as [|t1 ts]; [discriminate|]. destruct t1 as [| | | | |name|s1]; try discriminate.
      destruct ts as [|t2 ts]; [discriminate|]. destruct t2; try discriminate.
      destruct (parts f ts) as [[tail r1]|] eqn:Ep1; [|discriminate].
      destruct r1 as [|c r2]; [discriminate|]. destruct c; try discriminate.
      destruct (parts f r2) as [[ps0 r3]|] eqn:Ep2; [|discriminate]. injection H as <- <-.
      destruct (IH _ _ _ Ep1) as [H1 H2]. destruct (IH _ _ _ Ep2) as [H3 H4].
      cbn [tok_names tok_sent tok_text] in *. rewrite H1, H2, H3, H4.
      cbn [ast_names ast_string]. rewrite part_names_named, part_string_named.
      cbn [app]. rewrite (ast_names_app ps0 (ast_names tail [name])), (ast_names_app tail [name]). split.
      * cbn [app]. now rewrite <- !app_assoc.
      * cbn [append]. now rewrite !sapp_assoc.
    + (* OBrackN *)
      destruct (parts f ts) as [[body r1]|] eqn:Ep1; [|discriminate].
      destruct r1 as [|c r2]; [discriminate|]. destruct c; try discriminate.
      destruct body as [|b0 body0]; [discriminate|]. remember (b0 :: body0) as body eqn:Ebody. clear Ebody b0 body0.
      destruct (parts f r2) as [[ps0 r3]|] eqn:Ep2; [|discriminate]. injection H as <- <-.
      destruct (IH _ _ _ Ep1) as [H1 H2]. destruct (IH _ _ _ Ep2) as [H3 H4].
      cbn [tok_names tok_sent tok_text] in *. rewrite H1, H2, H3, H4.
      cbn [ast_names ast_string]. rewrite part_names_noncap, part_string_noncap.
      rewrite (ast_names_app ps0 (ast_names body [])). split.
      * now rewrite <- !app_assoc.
      * cbn [append]. now rewrite !sapp_assoc.
    + (* OBrack *)
      destruct (parts f ts) as [[body r1]|] eqn:Ep1; [|discriminate].
      destruct r1 as [|c r2]; [discriminate|]. destruct c; try discriminate.
      destruct body as [|b0 body0]; [discriminate|]. remember (b0 :: body0) as body eqn:Ebody. clear Ebody b0 body0.
      destruct (parts f r2) as [[ps0 r3]|] eqn:Ep2; [|discriminate]. injection H as <- <-.
      destruct (IH _ _ _ Ep1) as [H1 H2]. destruct (IH _ _ _ Ep2) as [H3 H4].
      cbn [tok_names tok_sent tok_text] in *. rewrite H1, H2, H3, H4.
      cbn [ast_names ast_string]. rewrite part_names_brack, part_string_brack.
      cbn [app]. rewrite (ast_names_app ps0 (ast_names body [""])), (ast_names_app body [""]). split.
      * cbn [app]. now rewrite <- !app_assoc.
      * cbn [append]. now rewrite !sapp_assoc.
    + (* CBrack *) injection H as <- <-. split; reflexivity.
    + now apply Hsimple.
    + now apply Hsimple.
    + now apply Hsimple.
Qed.

(* what the planner sends and the names it pairs, for every expression it accepts *)
Theorem re_plan_by_opening_parenthesis re sent names : re_plan re = Some (sent, names) ->
  exists ts, lex_re re = Some ts /\ sent = tok_sent ts /\ names = tok_names ts.
Proof.
  unfold re_plan. intros H. destruct (lex_re re) as [ts|]; [|discriminate]. exists ts. split; [reflexivity|].
  unfold parse_toks in H. destruct (parts (S (List.length ts)) ts) as [[ps rest]|] eqn:Ep; [|discriminate].
  destruct ps as [|p ps]; [discriminate|]. destruct rest; [|discriminate].
  injection H as <- <-.
  destruct (parts_spec _ _ _ _ Ep) as [H1 H2]. cbn [tok_names tok_sent] in H1, H2.
  rewrite app_nil_r in H1. rewrite sapp_nil_r in H2. now split.
Qed.

(* a group nested in a NAMED group comes after it: the order that the seeded change C07-c (names appended when the group
   closes) breaks *)
Example noncapturing_names : re_plan "(?i)(?P<a>(?:x|y)+)(?P<b>)" = Some ("(?i)((?:x|y)+)()", ["a"; "b"]).
Proof. reflexivity. Qed.
Example nested_names : re_plan "(?P<ip>(?P<n>\d+)\.\d+) (x)" = Some ("((\d+)\.\d+) (x)", ["ip"; "n"; ""]).
Proof. reflexivity. Qed.

(* ---------- the fuel of the recursive descent is never what makes it fail ---------- *)
Lemma take_simple_len : forall ts s r, take_simple ts = (s, r) -> (List.length r <= List.length ts)%nat.
Proof.
  induction ts as [|t ts IH]; intros s r H; cbn [take_simple] in H.
  - injection H as <- <-. apply le_n.
  - destruct (simple_tok t).
    + destruct (take_simple ts) as [a b] eqn:E. injection H as <- <-. specialize (IH a b eq_refl). cbn [List.length]. lia.
    + injection H as <- <-. apply le_n.
Qed.
Lemma parts_rest_len : forall f ts ps rest, parts f ts = Some (ps, rest) -> (List.length rest <= List.length ts)%nat.
Proof.
  induction f as [|f IH]; intros ts ps rest H; [discriminate|]. cbn [parts] in H.
  assert (Hsimple : forall t ts0, (let '(s, r) := take_simple (t :: ts0) in
                     match parts f r with Some (ps0, r2) => Some (RSimple s :: ps0, r2) | None => None end) = Some (ps, rest) ->
                    (List.length rest <= List.length (t :: ts0))%nat).
  { intros t ts0 H'. destruct (take_simple (t :: ts0)) as [s r] eqn:Ets. destruct (parts f r) as [[ps0 r2]|] eqn:Ep; [|discriminate].
    injection H' as <- <-. pose proof (take_simple_len _ _ _ Ets). pose proof (IH _ _ _ Ep). lia. }
  destruct ts as [|t ts]; [injection H as <- <-; apply le_n|].
  destruct t as [| | | | |s|s]; try (now apply Hsimple).
  - destruct ts as [|t1 ts]; [discriminate|]. destruct t1 as [| | | | |name|s1]; try discriminate.
    destruct ts as [|t2 ts]; [discriminate|]. destruct t2; try discriminate.
    destruct (parts f ts) as [[tail r1]|] eqn:Ep1; [|discriminate]. destruct r1 as [|c r2]; [discriminate|]. destruct c; try discriminate.
    destruct (parts f r2) as [[ps0 r3]|] eqn:Ep2; [|discriminate]. injection H as <- <-.
    pose proof (IH _ _ _ Ep1) as L1. pose proof (IH _ _ _ Ep2) as L2. cbn [List.length] in *. lia.
  - destruct (parts f ts) as [[body r1]|] eqn:Ep1; [|discriminate]. destruct r1 as [|c r2]; [discriminate|]. destruct c; try discriminate.
    destruct body; [discriminate|]. destruct (parts f r2) as [[ps0 r3]|] eqn:Ep2; [|discriminate]. injection H as <- <-.
    pose proof (IH _ _ _ Ep1) as L1. pose proof (IH _ _ _ Ep2) as L2. cbn [List.length] in *. lia.
  - destruct (parts f ts) as [[body r1]|] eqn:Ep1; [|discriminate]. destruct r1 as [|c r2]; [discriminate|]. destruct c; try discriminate.
    destruct body; [discriminate|]. destruct (parts f r2) as [[ps0 r3]|] eqn:Ep2; [|discriminate]. injection H as <- <-.
    pose proof (IH _ _ _ Ep1) as L1. pose proof (IH _ _ _ Ep2) as L2. cbn [List.length] in *. lia.
  - injection H as <- <-. apply le_n.
Qed.

(* with more fuel than tokens the answer does not depend on the fuel: None is a grammar error *)
Lemma parts_fuel : forall f g ts, (List.length ts < f)%nat -> (List.length ts < g)%nat -> parts f ts = parts g ts.
Proof.
  induction f as [|f IH]; intros g ts Hf Hg; [lia|]. destruct g as [|g]; [lia|]. cbn [parts].
  assert (Hsimple : forall t ts0, ts = t :: ts0 -> simple_tok t <> None ->
            (let '(s, r) := take_simple (t :: ts0) in
             match parts f r with Some (ps0, r2) => Some (RSimple s :: ps0, r2) | None => None end)
            = (let '(s, r) := take_simple (t :: ts0) in
               match parts g r with Some (ps0, r2) => Some (RSimple s :: ps0, r2) | None => None end)).
  { intros t ts0 -> Hs. cbn [take_simple]. destruct (simple_tok t) as [txt|]; [|congruence].
    destruct (take_simple ts0) as [a b] eqn:E. pose proof (take_simple_len _ _ _ E). cbn [List.length] in Hf, Hg.
    rewrite (IH g b) by lia. reflexivity. }
  destruct ts as [|t ts]; [reflexivity|]. cbn [List.length] in Hf, Hg.
  destruct t as [| | | | |s|s].
  - destruct ts as [|t1 ts']; [reflexivity|]. destruct t1 as [| | | | |name|s1]; try reflexivity.
    destruct ts' as [|t2 ts'']; [reflexivity|]. destruct t2; try reflexivity.
    cbn [List.length] in *.
    rewrite (IH g ts'') by lia. destruct (parts g ts'') as [[tail r1]|] eqn:Ep; [|reflexivity].
    destruct r1 as [|c r2]; [reflexivity|]. destruct c; try reflexivity.
    pose proof (parts_rest_len _ _ _ _ Ep) as L. cbn [List.length] in L. rewrite (IH g r2) by lia. reflexivity.
  - rewrite (IH g ts) by lia. destruct (parts g ts) as [[body r1]|] eqn:Ep; [|reflexivity].
    destruct r1 as [|c r2]; [reflexivity|]. destruct c; try reflexivity. destruct body; [reflexivity|].
    pose proof (parts_rest_len _ _ _ _ Ep) as L. cbn [List.length] in L. rewrite (IH g r2) by lia. reflexivity.
  - rewrite (IH g ts) by lia. destruct (parts g ts) as [[body r1]|] eqn:Ep; [|reflexivity].
    destruct r1 as [|c r2]; [reflexivity|]. destruct c; try reflexivity. destruct body; [reflexivity|].
    pose proof (parts_rest_len _ _ _ _ Ep) as L. cbn [List.length] in L. rewrite (IH g r2) by lia. reflexivity.
  - reflexivity.
  - apply (Hsimple TCCBrack ts eq_refl). discriminate.
  - apply (Hsimple (TIdent s) ts eq_refl). discriminate.
  - apply (Hsimple (TChar s) ts eq_refl). discriminate.
Qed.

Lemma take_ident_len : forall s a b, take_ident s = (a, b) -> (String.length b <= String.length s)%nat.
Proof.
  induction s as [|c r IH]; intros a b H; cbn [take_ident] in H.
  - injection H as <- <-. apply le_n.
  - destruct (is_ident_char c).
    + destruct (take_ident r) as [a0 b0] eqn:E. injection H as <- <-. specialize (IH a0 b0 eq_refl). cbn [String.length]. lia.
    + injection H as <- <-. apply le_n.
Qed.
Lemma drop_s_len : forall n s, (String.length (drop_s n s) <= String.length s)%nat.
Proof.
  induction n as [|n IH]; intros s; [apply le_n|]. destruct s as [|c r]; [apply le_n|]. cbn [drop_s String.length]. specialize (IH r). lia.
Qed.
Lemma lex_fuel : forall f g s, (String.length s <= f)%nat -> (String.length s <= g)%nat -> lex f s = lex g s.
Proof.
  induction f as [|f IH]; intros g s Hf Hg.
  - destruct s; [|cbn [String.length] in Hf; lia]. destruct g; reflexivity.
  - destruct g as [|g].
    + destruct s; [reflexivity|cbn [String.length] in Hg; lia].
    + destruct s as [|c r]; [reflexivity|]. cbn [String.length] in Hf, Hg. cbn [lex].
      assert (Hr : forall t rest, (String.length rest <= String.length r)%nat ->
                match lex f rest with Some ts => Some (t :: ts) | None => None end
                = match lex g rest with Some ts => Some (t :: ts) | None => None end).
      { intros t rest Hl. rewrite (IH g rest) by lia. reflexivity. }
      destruct (prefixb "(?P<" (String c r)).
      { apply Hr. change (drop_s 4 (String c r)) with (drop_s 3 r). apply drop_s_len. }
      destruct (prefixb "(?" (String c r)).
      { apply Hr. change (drop_s 2 (String c r)) with (drop_s 1 r). apply drop_s_len. }
      destruct (Ascii.eqb c "("); [apply Hr, le_n|].
      destruct (Ascii.eqb c ")"); [apply Hr, le_n|].
      destruct (Ascii.eqb c ">"); [apply Hr, le_n|].
      destruct (is_ident_start c).
      { destruct (take_ident r) as [a b] eqn:E. apply Hr. exact (take_ident_len _ _ _ E). }
      destruct (Ascii.eqb c "\").
      { destruct r as [|d r2]; [apply Hr, le_n|]. destruct (Ascii.eqb d lf_char); [apply Hr, le_n|].
        apply Hr. cbn [String.length]. lia. }
      destruct (Ascii.eqb c lf_char); [reflexivity|]. apply Hr, le_n.
Qed.

(* re_plan with any larger fuel: None means the lexer has no rule for a byte or the grammar rejects the tokens *)
Theorem re_plan_fuel_irrelevant re f g : (String.length re <= f)%nat ->
  (forall ts, (List.length ts < g ts)%nat) ->
  match lex f re with
  | Some ts => match parts (g ts) ts with Some (p :: ps, []) => Some (ast_string (p :: ps), ast_names (p :: ps) []) | _ => None end
  | None => None end = re_plan re.
Proof.
  intros Hf Hg. unfold re_plan, lex_re, parse_toks. rewrite (lex_fuel f (String.length re) re Hf (le_n _)).
  destruct (lex (String.length re) re) as [ts|]; [|reflexivity].
  rewrite (parts_fuel (g ts) (S (List.length ts)) ts (Hg ts) (Nat.lt_succ_diag_r _)).
  destruct (parts (S (List.length ts)) ts) as [[[|p ps] [|t r]]|]; reflexivity.
Qed.

Lemma grammar_fuel_irrelevant :
  (forall f re, (String.length re <= f)%nat -> lex f re = lex_re re)
  /\ (forall f ts, (List.length ts < f)%nat -> parts f ts = parts (S (List.length ts)) ts).
Proof.
  split.
  - intros f re H. exact (lex_fuel f (String.length re) re H (le_n _)).
  - intros f ts H. exact (parts_fuel f (S (List.length ts)) ts H (Nat.lt_succ_diag_r _)).
Qed.
