(* Proofs for property C05 over model/IngestPipe.v (goroutine programs, channel protocol, column-level batches,
   work measure, Content-Type dispatch). *)
From Coq Require Import List String Ascii ZArith NArith Bool Lia Permutation.
From Qryn Require Import model.IngestRobust model.IngestPipe proofs.IngestRobustProofs.
Import ListNotations.
Local Open Scope list_scope.

(* ------------------------------------------------------------------------------------------ *)
(** * 1. The parser goroutines follow the channel protocol, whatever the decoder does *)

Lemma g_sends_open : forall ps e t,
  g_sends {| gs_closed := false; gs_err := e; gs_trace := t |} ps
  = (GNormal, {| gs_closed := false; gs_err := e; gs_trace := t ++ map OSend ps |}).
Proof.
  induction ps as [|p r IH]; intros e t; cbn [g_sends map].
  - now rewrite app_nil_r.
  - unfold g_send. cbn [gs_closed gs_err gs_trace]. rewrite IH, <- app_assoc. reflexivity.
Qed.

Ltac trace_eq := cbn; rewrite ?map_app, <- ?app_assoc; cbn; reflexivity.

Lemma run_spans_prog : forall d,
  run_prog tame_model spans_prog None d = (protocol_trace d [d_batch d], false).
Proof.
  intros d. unfold run_prog, spans_prog, protocol_trace, last_responses.
  cbn [gp_body gp_defers exec_body exec_stmt exec_simple rev app]. rewrite g_sends_open.
  destruct (d_end d); trace_eq.
Qed.

Lemma run_logs_prog : forall d,
  run_prog tame_model logs_prog None d = (protocol_trace d [d_batch d], false).
Proof.
  intros d. unfold run_prog, logs_prog, protocol_trace, last_responses.
  cbn [gp_body gp_defers exec_body exec_stmt exec_simple rev app]. rewrite g_sends_open.
  destruct (d_end d); trace_eq.
Qed.

Lemma run_prof_prog : forall d,
  run_prog tame_model prof_prog None d = (protocol_trace d (if d_rows d then [d_batch d] else []), false).
Proof.
  intros d. unfold run_prog, prof_prog, protocol_trace, last_responses.
  cbn [gp_body gp_defers exec_body exec_stmt exec_simple rev app]. rewrite g_sends_open.
  destruct (d_end d); [destruct (d_rows d)| |]; trace_eq.
Qed.

(* parserDoer.Do's goroutine for a PreParse error: one send, one close (no recover needed: nothing can panic) *)
Lemma run_pre_err_prog : forall e d,
  run_prog tame_model pre_err_prog (Some e) d = ([OSend (resp_err e); OClose], false).
Proof. intros e d. reflexivity. Qed.

Lemma sends_of_app : forall a b, sends_of (a ++ b) = sends_of a ++ sends_of b.
Proof.
  induction a as [|x a IH]; intros b; [reflexivity|]. destruct x; cbn [app sends_of]; [now rewrite IH|apply IH].
Qed.
Lemma sends_of_map : forall ps, sends_of (map OSend ps) = ps.
Proof. induction ps as [|p r IH]; cbn; [reflexivity|now rewrite IH]. Qed.
Lemma sends_of_protocol : forall d final, sends_of (protocol_trace d final) = d_flushed d ++ last_responses d final.
Proof. intros d final. unfold protocol_trace. rewrite sends_of_app, sends_of_map. cbn. now rewrite app_nil_r. Qed.

(* a protocol trace: sends, then exactly one close, nothing after it *)
Definition well_formed_trace (t : list chop) : Prop := exists ps, t = map OSend ps ++ [OClose].

Lemma protocol_trace_wf : forall d final, well_formed_trace (protocol_trace d final).
Proof. intros d final. eexists. reflexivity. Qed.

(* the old, fused definitions (IngestRobust.parse_spans ...) are what the programs send *)
Lemma decode_spans_parse : forall evs st,
  let '(f, e, s) := decode_spans_with on_span st evs in
  f ++ match e with
       | DEndOk => [resp_spans (ss_spans s) (ss_attrs s)]
       | DEndErr x => [resp_err x]
       | DEndPanic => [resp_err e_panic]
       end = parse_spans st evs.
Proof.
  unfold parse_spans.
  induction evs as [|ev evs IH]; intros st; cbn [decode_spans_with parse_spans_with]; [reflexivity|].
  destruct ev as [r| |x]; [|reflexivity|reflexivity].
  destruct (on_span st r) as [[st' out]|x]; [|reflexivity].
  specialize (IH st'). destruct (decode_spans_with on_span st' evs) as [[f e] s].
  rewrite <- app_assoc. now rewrite IH.
Qed.

Lemma spans_prog_sends : forall st evs,
  sends_of (fst (run_prog tame_model spans_prog None (spans_dres st evs))) = parse_spans st evs.
Proof.
  intros st evs. rewrite run_spans_prog. cbn [fst]. rewrite sends_of_protocol.
  pose proof (decode_spans_parse evs st) as H. unfold spans_dres.
  destruct (decode_spans_with on_span st evs) as [[f e] s]. unfold last_responses. cbn [d_flushed d_end d_batch].
  rewrite <- H. destruct e; reflexivity.
Qed.

Lemma decode_logs_parse : forall evs st,
  let '(f, e, s) := decode_logs st evs in
  f ++ match e with
       | DEndOk => [resp_logs (ls_ts s) (ls_rows s)]
       | DEndErr x => [resp_err x]
       | DEndPanic => [resp_err e_panic]
       end = parse_logs st evs.
Proof.
  induction evs as [|ev evs IH]; intros st; cbn [decode_logs parse_logs]; [reflexivity|].
  destruct ev as [r| |x]; [|reflexivity|reflexivity].
  destruct (on_entries st r) as [st' out].
  specialize (IH st'). destruct (decode_logs st' evs) as [[f e] s].
  rewrite <- app_assoc. now rewrite IH.
Qed.

Lemma logs_prog_sends : forall st evs,
  sends_of (fst (run_prog tame_model logs_prog None (logs_dres st evs))) = parse_logs st evs.
Proof.
  intros st evs. rewrite run_logs_prog. cbn [fst]. rewrite sends_of_protocol.
  pose proof (decode_logs_parse evs st) as H. unfold logs_dres.
  destruct (decode_logs st evs) as [[f e] s]. unfold last_responses. cbn [d_flushed d_end d_batch].
  rewrite <- H. destruct e; reflexivity.
Qed.

Lemma decode_prof_parse : forall evs rows,
  let '(f, e, s) := decode_prof rows evs in
  f ++ match e with
       | DEndOk => if (0 <? s)%N then [resp_prof s] else []
       | DEndErr x => [resp_err x]
       | DEndPanic => [resp_err e_panic]
       end = parse_prof rows evs.
Proof.
  induction evs as [|ev evs IH]; intros rows; cbn [decode_prof parse_prof]; [reflexivity|].
  destruct ev as [b| |x]; [|reflexivity|reflexivity].
  destruct (MiB <? b)%N.
  - specialize (IH 0%N). destruct (decode_prof 0 evs) as [[f e] s]. cbn [app]. now rewrite IH.
  - apply IH.
Qed.

Lemma prof_prog_sends : forall rows evs,
  sends_of (fst (run_prog tame_model prof_prog None (prof_dres rows evs))) = parse_prof rows evs.
Proof.
  intros rows evs. rewrite run_prof_prog. cbn [fst]. rewrite sends_of_protocol.
  pose proof (decode_prof_parse evs rows) as H. unfold prof_dres.
  destruct (decode_prof rows evs) as [[f e] s]. unfold last_responses. cbn [d_flushed d_end d_batch d_rows].
  rewrite <- H. destruct e; reflexivity.
Qed.

(* ------------------------------------------------------------------------------------------ *)
(** * 2. Producer + channel + consumer: nobody is left blocked *)

Lemma sys_run_drain : forall rs c w r,
  sys_run true c w (CDrain r) (map OSend rs ++ [OClose]) = (SAllDone r, w).
Proof. induction rs as [|p rs IH]; intros c w r; cbn; [reflexivity|apply IH]. Qed.

Definition end_of_parse (r : parse_result) : sys_end := match r with PCrash => SCrash | _ => SAllDone r end.

Lemma sys_run_recv : forall rs c w failed,
  sys_run true c w (CRecv failed) (map OSend rs ++ [OClose])
  = (end_of_parse (fst (do_parse c w failed rs)), snd (do_parse c w failed rs)).
Proof.
  induction rs as [|p rs IH]; intros c w failed; cbn [map app sys_run do_parse].
  - destruct failed; reflexivity.
  - destruct (p_err p) as [e|].
    + rewrite sys_run_drain. reflexivity.
    + destruct (push_resp c w p) as [r w']. destruct r; [apply IH|apply IH|reflexivity].
Qed.

Lemma consumer_model_drains : consumer_drains consumer_model = true.
Proof. reflexivity. Qed.

(* the whole request: the outcome is the one of IngestRobust.do_parse over what the program sends, and everybody
   has finished (handler answered, parser goroutine and drain goroutine returned) *)
Lemma serve_protocol : forall p c w d final,
  run_prog tame_model p None d = (protocol_trace d final, false) ->
  serve tame_model p consumer_model c w d
  = (end_of_parse (fst (do_parse c w false (d_flushed d ++ last_responses d final))),
     snd (do_parse c w false (d_flushed d ++ last_responses d final))).
Proof.
  intros p c w d final H. unfold serve. rewrite H, consumer_model_drains. unfold protocol_trace. apply sys_run_recv.
Qed.

Definition served (e : sys_end * world) : Prop :=
  exists r, fst e = SAllDone r /\ r <> PCrash /\ world_ok (snd e) = true.

Lemma end_of_parse_served : forall x : parse_result * world,
  fst x <> PCrash -> world_ok (snd x) = true -> served (end_of_parse (fst x), snd x).
Proof.
  intros [r w] H Hw. exists r. cbn [fst snd] in *. split; [|split; assumption].
  destruct r; try reflexivity. contradiction.
Qed.

Lemma spans_served : forall evs st w, world_ok w = true -> span_st_ok st ->
  served (serve tame_model spans_prog consumer_model ctx_traces w (spans_dres st evs)).
Proof.
  intros evs st w Hw Hst. rewrite (serve_protocol _ _ _ _ _ (run_spans_prog _)).
  pose proof (spans_prog_sends st evs) as H. rewrite run_spans_prog in H. cbn [fst] in H.
  rewrite sends_of_protocol in H. rewrite H.
  apply end_of_parse_served; apply (spans_no_crash evs st w false Hw Hst).
Qed.

Lemma logs_served : forall evs st w, world_ok w = true -> ts_ok (ls_ts st) ->
  served (serve tame_model logs_prog consumer_model ctx_logs w (logs_dres st evs)).
Proof.
  intros evs st w Hw Hst. rewrite (serve_protocol _ _ _ _ _ (run_logs_prog _)).
  pose proof (logs_prog_sends st evs) as H. rewrite run_logs_prog in H. cbn [fst] in H.
  rewrite sends_of_protocol in H. rewrite H.
  apply end_of_parse_served; apply (logs_no_crash evs st w false Hw Hst).
Qed.

Lemma prof_served : forall evs rows w, world_ok w = true ->
  served (serve tame_model prof_prog consumer_model ctx_logs w (prof_dres rows evs)).
Proof.
  intros evs rows w Hw. rewrite (serve_protocol _ _ _ _ _ (run_prof_prog _)).
  pose proof (prof_prog_sends rows evs) as H. rewrite run_prof_prog in H. cbn [fst] in H.
  rewrite sends_of_protocol in H. rewrite H.
  apply end_of_parse_served; apply (prof_no_crash evs rows w false Hw).
Qed.

(* an error found before the decoder starts (PreParse: body cannot be read, protobuf does not parse): answered *)
Lemma pre_error_served : forall e c w d,
  (let '(ops, crashed) := run_prog tame_model pre_err_prog (Some e) d in
   if crashed then (SCrash, w) else sys_run true c w (CRecv false) ops) = (SAllDone (PStatus e), w).
Proof. intros e c w d. reflexivity. Qed.

(* what the generated obligations protect against: three variants of the programs that break the protocol *)
(* (seeded change C05-c) `defer close(p.res)` next to tamePanic: a decoder panic closes the channel twice *)
Definition deferred_close_prog : gprog :=
  {| gp_defers := [DPlain GClose; DTame]; gp_body := [GS GDecode; GIfErr [GSendErr; GReturn]; GS GSendBatch] |}.
Definition some_dres (e : dend) : dres := {| d_flushed := []; d_end := e; d_batch := resp_spans [] []; d_rows := true |}.
Lemma deferred_close_crashes_on_panic : snd (run_prog tame_model deferred_close_prog None (some_dres DEndPanic)) = true.
Proof. vm_compute. reflexivity. Qed.
Lemma deferred_close_fine_without_panic :
  run_prog tame_model deferred_close_prog None (some_dres DEndOk) = ([OSend (resp_spans [] []); OClose], false).
Proof. vm_compute. reflexivity. Qed.
(* no tamePanic: a decoder panic kills the process *)
Lemma without_tame_panic_crashes :
  snd (run_prog tame_model {| gp_defers := []; gp_body := gp_body spans_prog |} None (some_dres DEndPanic)) = true.
Proof. vm_compute. reflexivity. Qed.
(* the error branch forgets close(p.res): the drain goroutine waits forever *)
Lemma missing_close_leaks :
  fst (serve tame_model {| gp_defers := [DTame]; gp_body := [GS GDecode; GIfErr [GSendErr; GReturn]; GS GSendBatch; GS GClose] |}
         consumer_model ctx_traces world0 (some_dres (DEndErr e_json))) = SDrainBlocked (PStatus e_json).
Proof. vm_compute. reflexivity. Qed.
(* a consumer that returns on an error without the drain goroutine blocks a producer that still has something to send *)
Lemma undrained_consumer_blocks_producer :
  fst (sys_run false ctx_traces world0 (CRecv false) [OSend (resp_err e_json); OSend (resp_spans [] []); OClose])
  = SProducerBlocked (PStatus e_json).
Proof. vm_compute. reflexivity. Qed.

(* ------------------------------------------------------------------------------------------ *)
(** * 3. Column level: everything sent to the insert services is rectangular *)

Definition const_cols (fields : list string) (n : N) : cols := map (fun f => (f, n)) fields.

Lemma rect_const : forall fields n, rect n (const_cols fields n) = true.
Proof.
  intros fields n. unfold rect, const_cols. apply forallb_forall. intros [k v] Hin.
  apply in_map_iff in Hin as [f [E _]]. inversion E; subst. cbn [snd]. apply N.eqb_refl.
Qed.
Lemma rectangular_const : forall fields n, rectangular (const_cols fields n) = true.
Proof. intros [|f r] n; [reflexivity|]. cbn [const_cols map rectangular snd]. apply (rect_const (f :: r) n). Qed.

Definition add_counts (t : tbl) (os : list cop) (m : cols) : cols :=
  map (fun kv => (fst kv, (snd kv + N.of_nat (count_app t (fst kv) os))%N)) m.

Lemma add_counts_nil : forall t m, add_counts t [] m = m.
Proof.
  intros t m. unfold add_counts. cbn. rewrite <- (map_id m) at 2. apply map_ext. intros [k v]. cbn. now rewrite N.add_0_r.
Qed.

Lemma count_app_cons : forall t f o os,
  count_app t f (o :: os)
  = ((if match o with CApp t' f' _ => tbl_eqb t t' && String.eqb f f' | _ => false end then 1 else 0) + count_app t f os)%nat.
Proof. intros t f o os. unfold count_app. cbn [filter]. destruct o as [t' f' idx|t' idx]; [|reflexivity]. destruct (tbl_eqb t t' && String.eqb f f'); reflexivity. Qed.

Lemma bump_add : forall t f idx os m,
  add_counts t os (bump f m) = add_counts t (CApp t f idx :: os) m.
Proof.
  intros t f idx os m. unfold add_counts, bump. rewrite map_map. apply map_ext. intros [k v]. cbn [fst snd].
  rewrite count_app_cons. assert (Ht : tbl_eqb t t = true) by (destruct t; reflexivity). rewrite Ht. cbn [andb].
  rewrite (String.eqb_sym k f). destruct (String.eqb f k); cbn [fst snd]; f_equal; lia.
Qed.

Lemma other_add : forall t t' f idx os m, tbl_eqb t t' = false ->
  add_counts t os m = add_counts t (CApp t' f idx :: os) m.
Proof.
  intros t t' f idx os m H. unfold add_counts. apply map_ext. intros [k v]. cbn [fst snd].
  rewrite count_app_cons, H. reflexivity.
Qed.

Lemma size_add : forall t t' idx os m, add_counts t os m = add_counts t (CSize t' idx :: os) m.
Proof. intros. unfold add_counts. apply map_ext. intros [k v]. cbn [fst snd]. now rewrite count_app_cons. Qed.

Lemma exec_cops_counts : forall os b i nv b', exec_cops b os i nv = Some b' ->
  b_spans b' = add_counts TSpans os (b_spans b) /\ b_attrs b' = add_counts TAttrs os (b_attrs b) /\ b_size b' = b_size b.
Proof.
  induction os as [|o os IH]; intros b i nv b' H; cbn [exec_cops] in H.
  - inversion H; subst. now rewrite !add_counts_nil.
  - destruct (exec_cop b o i nv) as [b1|] eqn:E; [|discriminate].
    destruct (IH _ _ _ _ H) as [Hs [Ha Hz]]. rewrite Hs, Ha, Hz. clear IH H Hs Ha Hz.
    unfold exec_cop in E. destruct (cop_panics o i nv); [discriminate|].
    destruct o as [t f idx|t idx].
    + destruct t; inversion E; subst; cbn [b_spans b_attrs b_size].
      * split; [apply bump_add|split; [apply other_add; reflexivity|reflexivity]].
      * split; [apply other_add; reflexivity|split; [apply bump_add|reflexivity]].
    + inversion E; subst. split; [apply size_add|split; [apply size_add|reflexivity]].
Qed.

Lemma no_app_count : forall t os f, no_app t os = true -> count_app t f os = 0%nat.
Proof.
  induction os as [|o os IH]; intros f H; [reflexivity|]. cbn [no_app forallb] in H. apply andb_true_iff in H as [H1 H2].
  rewrite count_app_cons, (IH f H2). destruct o as [t' f' idx|t' idx]; [|reflexivity].
  apply negb_true_iff in H1. now rewrite H1.
Qed.

Lemma add_counts_const_1 : forall t os fields n,
  forallb (fun f => Nat.eqb (count_app t f os) 1) fields = true ->
  add_counts t os (const_cols fields n) = const_cols fields (n + 1).
Proof.
  intros t os fields n H. unfold add_counts, const_cols. rewrite map_map. apply map_ext_in. intros f Hin. cbn [fst snd].
  rewrite forallb_forall in H. specialize (H f Hin). apply Nat.eqb_eq in H. now rewrite H.
Qed.

Lemma add_counts_const_0 : forall t os fields n, no_app t os = true ->
  add_counts t os (const_cols fields n) = const_cols fields n.
Proof.
  intros t os fields n H. unfold add_counts, const_cols. rewrite map_map. apply map_ext. intros f. cbn [fst snd].
  rewrite (no_app_count t os f H). now rewrite N.add_0_r.
Qed.

Section HANDLER.
  Variables (h : handler_prog) (sf af cs ca : list string).
  Hypothesis Hok : handler_ok h sf af cs ca = true.

  Let ok_parts : hp_flush_resets h = true
    /\ forallb (fun f => Nat.eqb (count_app TSpans f (hp_once h)) 1) sf = true
    /\ forallb (fun f => Nat.eqb (count_app TAttrs f (hp_loop h)) 1) af = true
    /\ no_app TAttrs (hp_once h) = true /\ no_app TSpans (hp_loop h) = true.
  Proof.
    unfold handler_ok in Hok. repeat (apply andb_true_iff in Hok as [Hok ?]). tauto.
  Qed.

  Definition batch_inv (b : batch) : Prop := exists n k, b_spans b = const_cols sf n /\ b_attrs b = const_cols af k.

  Lemma batch_inv_rect : forall b, batch_inv b -> batch_rect b = true.
  Proof. intros b [n [k [Hs Ha]]]. unfold batch_rect. now rewrite Hs, Ha, !rectangular_const. Qed.

  Lemma batch0_inv : batch_inv (batch0 sf af).
  Proof. exists 0%N, 0%N. split; reflexivity. Qed.

  Lemma loop_inv : forall todo b i nv b', batch_inv b -> exec_loop b (hp_loop h) i todo nv = Some b' -> batch_inv b'.
  Proof.
    destruct ok_parts as [_ [_ [Hl [_ Hn]]]].
    induction todo as [|t IH]; intros b i nv b' Hb H; cbn [exec_loop] in H.
    - inversion H; subst. exact Hb.
    - destruct (exec_cops b (hp_loop h) i nv) as [b1|] eqn:E; [|discriminate].
      apply (IH b1 (S i) nv b'); [|exact H].
      destruct Hb as [n [k [Hs Ha]]]. destruct (exec_cops_counts _ _ _ _ _ E) as [Hs1 [Ha1 _]].
      exists n, (k + 1)%N. rewrite Hs1, Ha1, Hs, Ha. split; [apply add_counts_const_0; exact Hn|apply add_counts_const_1; exact Hl].
  Qed.

  Lemma on_span_cols_inv : forall b s b' sent, batch_inv b -> on_span_cols h sf af b s = StOk b' sent ->
    batch_inv b' /\ Forall (fun x => batch_rect x = true) sent.
  Proof.
    destruct ok_parts as [Hf [Ho [_ [Hn _]]]].
    intros b s b' sent Hb H. unfold on_span_cols in H.
    destruct (hp_width_check h && negb ((se_tid s =? 16)%N && (se_sid s =? 8)%N)); [discriminate|].
    destruct (exec_cops b (hp_once h) 0 (se_vals s)) as [b1|] eqn:E1; [|discriminate].
    destruct (exec_loop b1 (hp_loop h) 0 (se_keys s) (se_vals s)) as [b2|] eqn:E2; [|discriminate].
    assert (Hb1 : batch_inv b1).
    { destruct Hb as [n [k [Hs Ha]]]. destruct (exec_cops_counts _ _ _ _ _ E1) as [Hs1 [Ha1 _]].
      exists (n + 1)%N, k. rewrite Hs1, Ha1, Hs, Ha. split; [apply add_counts_const_1; exact Ho|apply add_counts_const_0; exact Hn]. }
    pose proof (loop_inv _ _ _ _ _ Hb1 E2) as Hb2.
    set (b3 := {| b_spans := b_spans b2; b_attrs := b_attrs b2; b_size := (b_size b2 + se_bytes s)%N |}) in H.
    assert (Hb3 : batch_inv b3) by (destruct Hb2 as [n [k [Hs Ha]]]; exists n, k; split; assumption).
    destruct (MiB <? b_size b3)%N; inversion H; subst; clear H.
    - rewrite Hf. split; [exact batch0_inv|]. constructor; [apply batch_inv_rect; exact Hb3|constructor].
    - split; [exact Hb3|constructor].
  Qed.

  Lemma sent_batches_rect : forall evs b, batch_inv b -> Forall (fun x => batch_rect x = true) (sent_batches h sf af b evs).
  Proof.
    induction evs as [|ev evs IH]; intros b Hb; cbn [sent_batches].
    - constructor; [apply batch_inv_rect; exact Hb|constructor].
    - destruct ev as [s| |t]; [|constructor|constructor].
      destruct (on_span_cols h sf af b s) as [b' sent| |] eqn:E; [|constructor|constructor].
      destruct (on_span_cols_inv _ _ _ _ Hb E) as [Hb' Hsent].
      apply Forall_app. split; [exact Hsent|apply IH; exact Hb'].
  Qed.

  (* fourth session: the same with the invariant itself, for the shared batch of the span insert services *)
  Lemma on_span_cols_inv_sent : forall b s b' sent, batch_inv b -> on_span_cols h sf af b s = StOk b' sent ->
    batch_inv b' /\ Forall batch_inv sent.
  Proof.
    destruct ok_parts as [Hf [Ho [_ [Hn _]]]].
    intros b s b' sent Hb H. unfold on_span_cols in H.
    destruct (hp_width_check h && negb ((se_tid s =? 16)%N && (se_sid s =? 8)%N)); [discriminate|].
    destruct (exec_cops b (hp_once h) 0 (se_vals s)) as [b1|] eqn:E1; [|discriminate].
    destruct (exec_loop b1 (hp_loop h) 0 (se_keys s) (se_vals s)) as [b2|] eqn:E2; [|discriminate].
    assert (Hb1 : batch_inv b1).
    { destruct Hb as [n [k [Hs Ha]]]. destruct (exec_cops_counts _ _ _ _ _ E1) as [Hs1 [Ha1 _]].
      exists (n + 1)%N, k. rewrite Hs1, Ha1, Hs, Ha. split; [apply add_counts_const_1; exact Ho|apply add_counts_const_0; exact Hn]. }
    pose proof (loop_inv _ _ _ _ _ Hb1 E2) as Hb2.
    set (b3 := {| b_spans := b_spans b2; b_attrs := b_attrs b2; b_size := (b_size b2 + se_bytes s)%N |}) in H.
    assert (Hb3 : batch_inv b3) by (destruct Hb2 as [n [k [Hs Ha]]]; exists n, k; split; assumption).
    destruct (MiB <? b_size b3)%N; inversion H; subst; clear H.
    - rewrite Hf. split; [exact batch0_inv|]. constructor; [exact Hb3|constructor].
    - split; [exact Hb3|constructor].
  Qed.

  Lemma sent_batches_inv : forall evs b, batch_inv b -> Forall batch_inv (sent_batches h sf af b evs).
  Proof.
    induction evs as [|ev evs IH]; intros b Hb; cbn [sent_batches].
    - constructor; [exact Hb|constructor].
    - destruct ev as [s| |t]; [|constructor|constructor].
      destruct (on_span_cols h sf af b s) as [b' sent| |] eqn:E; [|constructor|constructor].
      destruct (on_span_cols_inv_sent _ _ _ _ Hb E) as [Hb' Hsent].
      apply Forall_app. split; [exact Hsent|apply IH; exact Hb'].
  Qed.
End HANDLER.

Lemma on_span_cols_model_ok :
  handler_ok on_span_cols_model spans_fields_model attrs_fields_model spans_fields_model attrs_fields_model = true.
Proof. vm_compute. reflexivity. Qed.

(* fewer values than keys: val[i] panics in the middle of the appends -- and nothing of the torn batch is sent *)
Lemma short_vals_panic_sends_nothing :
  sent_batches on_span_cols_model spans_fields_model attrs_fields_model (batch0 spans_fields_model attrs_fields_model)
    [CvSpan {| se_tid := 16; se_sid := 8; se_keys := 3; se_vals := 2; se_bytes := 100 |}] = [].
Proof. vm_compute. reflexivity. Qed.

(* a handler that forgets one append is caught by handler_ok, and does send a torn batch *)
Definition torn_handler : handler_prog :=
  {| hp_width_check := true; hp_once := hp_once on_span_cols_model;
     hp_loop := [CApp TAttrs "MTraceId" false; CApp TAttrs "MSpanId" false; CApp TAttrs "MTimestampNs" false;
                 CApp TAttrs "MDurationNs" false; CApp TAttrs "MKey" false; CApp TAttrs "MDate" false];
     hp_flush_resets := true |}.
Lemma torn_handler_rejected :
  handler_ok torn_handler spans_fields_model attrs_fields_model spans_fields_model attrs_fields_model = false
  /\ forallb batch_rect (sent_batches torn_handler spans_fields_model attrs_fields_model (batch0 spans_fields_model attrs_fields_model)
        [CvSpan {| se_tid := 16; se_sid := 8; se_keys := 1; se_vals := 1; se_bytes := 100 |}]) = false.
Proof. vm_compute. split; reflexivity. Qed.

(* ------------------------------------------------------------------------------------------ *)
(** * 4. Work measure *)

Lemma on_span_out_len : forall st r st' out, on_span st r = inl (st', out) -> (List.length out <= 1)%nat.
Proof.
  intros st r st' out H. unfold on_span in H. destruct (negb _); [discriminate|].
  destruct (MiB <? _)%N; inversion H; subst; cbn; lia.
Qed.

(* the number of responses flushed while decoding is at most the number of events ... *)
Lemma decode_spans_flushes : forall evs st, (List.length (fst (fst (decode_spans_with on_span st evs))) <= List.length evs)%nat.
Proof.
  induction evs as [|ev evs IH]; intros st; cbn [decode_spans_with]; [cbn; lia|].
  destruct ev as [r| |x]; cbn [fst List.length]; try lia.
  destruct (on_span st r) as [[st' out]|x] eqn:E; cbn [fst List.length]; [|lia].
  specialize (IH st'). destruct (decode_spans_with on_span st' evs) as [[f e] s]. cbn [fst] in *.
  rewrite app_length. pose proof (on_span_out_len _ _ _ _ E). cbn [List.length]. lia.
Qed.

Lemma on_span_size : forall st r st' out, on_span st r = inl (st', out) ->
  (out = [] /\ ss_size st' = ss_size st + si_bytes r + si_abytes r)%N \/
  (exists p, out = [p] /\ st' = span_st0 /\ (MiB < ss_size st + si_bytes r + si_abytes r)%N).
Proof.
  intros st r st' out H. unfold on_span in H. destruct (negb _); [discriminate|]. cbn [ss_size] in H.
  destruct (N.ltb_spec MiB (ss_size st + si_bytes r + si_abytes r)) as [Hlt|Hge]; inversion H; subst; clear H.
  - right. eexists. split; [reflexivity|split; [reflexivity|exact Hlt]].
  - left. split; reflexivity.
Qed.

(* ... and every flush needs more than 1 MiB of accumulated spans: flushes * 1 MiB <= bytes in the request *)
Lemma decode_spans_flush_bytes : forall evs st,
  let '(f, _, s) := decode_spans_with on_span st evs in
  (N.of_nat (List.length f) * MiB + ss_size s <= ss_size st + span_bytes evs)%N.
Proof.
  induction evs as [|ev evs IH]; intros st; cbn [decode_spans_with span_bytes]; [cbn; lia|].
  destruct ev as [r| |x]; try (cbn [List.length]; lia).
  destruct (on_span st r) as [[st' out]|x] eqn:E; [|cbn [List.length]; lia].
  specialize (IH st'). destruct (decode_spans_with on_span st' evs) as [[f e] s].
  destruct (on_span_size _ _ _ _ E) as [[-> Hs]|[p [-> [-> Hlt]]]].
  - cbn [app]. lia.
  - cbn [app List.length]. change (ss_size span_st0) with 0%N in IH. rewrite Nat2N.inj_succ, N.mul_succ_l. lia.
Qed.

Lemma protocol_trace_len : forall d final,
  List.length (protocol_trace d final) = (List.length (d_flushed d) + List.length (last_responses d final) + 1)%nat.
Proof. intros. unfold protocol_trace. rewrite app_length, map_length, app_length. cbn. lia. Qed.

(* channel operations of the span goroutine <= events + 2; iterations of the handler's receive loop <= events + 1 *)
Lemma spans_channel_ops_linear : forall evs st,
  (List.length (fst (run_prog tame_model spans_prog None (spans_dres st evs))) <= List.length evs + 2)%nat.
Proof.
  intros evs st. rewrite run_spans_prog. cbn [fst]. rewrite protocol_trace_len.
  pose proof (decode_spans_flushes evs st) as H. unfold spans_dres.
  destruct (decode_spans_with on_span st evs) as [[f e] s]. cbn [fst] in H. unfold last_responses. cbn [d_flushed d_end].
  destruct e; cbn [List.length]; lia.
Qed.

Lemma pushes_of_le5 : forall c p, (pushes_of c p <= 5)%nat.
Proof.
  intros c p. unfold pushes_of.
  destruct (has_ts c && is_some (p_ts p)), (has_spl c && is_some (p_spl p)), (has_tags c && is_some (p_tags p)),
           (has_spans c && is_some (p_spans p)), (has_prof c && is_some (p_prof p)); cbn; lia.
Qed.

Lemma goroutines_linear : forall c rs, (goroutines_of c rs <= goroutines_bound (List.length rs))%nat.
Proof.
  intros c rs. unfold goroutines_of, goroutines_bound.
  assert (H : (goroutines_after c rs <= 1 + 5 * List.length rs)%nat).
  { induction rs as [|p rs IH]; cbn [goroutines_after List.length]; [lia|].
    destruct (p_err p); [lia|]. pose proof (pushes_of_le5 c p). lia. }
  lia.
Qed.

(* ------------------------------------------------------------------------------------------ *)
(** * 5. Content-Type dispatch does not depend on the iteration order of the Go map *)

Lemma prefix_comparable : forall a b s, prefix a s = true -> prefix b s = true -> prefix a b = true \/ prefix b a = true.
Proof.
  induction a as [|x a IH]; intros b s Ha Hb; [left; destruct b; reflexivity|].
  destruct b as [|y b]; [right; reflexivity|].
  destruct s as [|z s]; [discriminate|]. cbn [prefix] in *.
  destruct (ascii_dec x z) as [->|]; [|discriminate]. destruct (ascii_dec y z) as [->|]; [|discriminate].
  destruct (ascii_dec z z) as [_|n]; [|contradiction]. exact (IH b s Ha Hb).
Qed.

Lemma unambiguous_same_parser : forall table a b ct, table_unambiguous table = true ->
  In a table -> In b table -> prefix (fst a) ct = true -> prefix (fst b) ct = true -> snd a = snd b.
Proof.
  intros table a b ct H Ha Hb Pa Pb. unfold table_unambiguous in H. rewrite forallb_forall in H.
  specialize (H a Ha). rewrite forallb_forall in H. specialize (H b Hb).
  apply orb_true_iff in H as [H|H]; [now apply String.eqb_eq in H|].
  apply negb_true_iff in H. destruct (prefix_comparable _ _ _ Pa Pb) as [P|P]; rewrite P in H; [discriminate|].
  rewrite orb_true_r in H. discriminate.
Qed.

Lemma dispatch_order_irrelevant : forall table, table_unambiguous table = true ->
  forall order, Permutation order table -> forall ct,
  dispatch_in_order order table ct = dispatch_in_order table table ct.
Proof.
  intros table Hu order Hp ct. unfold dispatch_in_order.
  destruct (find (fun kp => prefix (fst kp) ct) order) as [a|] eqn:Ea.
  - apply find_some in Ea as [Ia Pa]. apply (Permutation_in _ Hp) in Ia.
    destruct (find (fun kp => prefix (fst kp) ct) table) as [b|] eqn:Eb.
    + apply find_some in Eb as [Ib Pb]. f_equal. exact (unambiguous_same_parser table a b ct Hu Ia Ib Pa Pb).
    + exfalso. pose proof (find_none _ _ Eb a Ia) as Hn. cbn in Hn. rewrite Pa in Hn. discriminate.
  - destruct (find (fun kp => prefix (fst kp) ct) table) as [b|] eqn:Eb; [|reflexivity].
    exfalso. apply find_some in Eb as [Ib Pb]. apply (Permutation_in _ (Permutation_sym Hp)) in Ib.
    pose proof (find_none _ _ Ea b Ib) as Hn. cbn in Hn. rewrite Pb in Hn. discriminate.
Qed.

(* the check is not vacuous: a table with a key that is a prefix of another key answers by iteration order *)
Definition ambiguous_table : list (string * string) := [("application/json", "A"); ("application", "B")]%string.
Lemma ambiguous_table_depends_on_order :
  table_unambiguous ambiguous_table = false /\
  dispatch_in_order ambiguous_table ambiguous_table "application/json"
  <> dispatch_in_order (rev ambiguous_table) ambiguous_table "application/json".
Proof. split; [reflexivity|vm_compute; discriminate]. Qed.

Lemma routes_model_unambiguous : forallb (fun r => table_unambiguous (rt_parsers r)) routes_model = true.
Proof. vm_compute. reflexivity. Qed.

(* ------------------------------------------------------------------------------------------ *)
(** * 6. The routes predicted from the route table *)

Lemma find_route_in : forall rs h r, find_route rs h = Some r -> In r rs.
Proof. intros rs h r H. unfold find_route in H. now apply find_some in H. Qed.

Lemma g_predict_char : forall rs q, routes_succeed_2xx rs = true -> is_some (find_route rs (g_handler q)) = true ->
  (g_malformed rs q = true -> expect_is_error (g_predict rs q) = true) /\
  (g_malformed rs q = false -> g_predict rs q = Exact C2xx) /\
  g_predict rs q <> Exact Crash /\ g_predict rs q <> Exact Hang.
Proof.
  intros rs q H2 Hf. unfold g_malformed, g_predict, generic_outcome.
  destruct (content_encoding (g_ce q) (g_gz_ok q)) as [|c] eqn:Hce.
  - destruct (find_route rs (g_handler q)) as [r|] eqn:Hr; [|discriminate].
    destruct (route_dispatch r (g_ct q)); [|repeat split; try discriminate; reflexivity].
    destruct (g_wire_ok q); cbn [negb]; [|repeat split; try discriminate; reflexivity].
    unfold routes_succeed_2xx in H2. rewrite forallb_forall in H2. specialize (H2 r (find_route_in _ _ _ Hr)).
    apply andb_true_iff in H2 as [Ha Hb]. apply Z.leb_le in Ha. apply Z.ltb_lt in Hb.
    unfold status_cls. destruct (Z.ltb_spec (rt_status r) 300) as [_|Hge]; [|lia].
    repeat split; try discriminate; reflexivity.
  - pose proof (content_encoding_status_is_error _ _ _ Hce) as He.
    repeat split; try discriminate; try (intros _; exact He); destruct c; discriminate.
Qed.

Lemma routes_model_succeed_2xx : routes_succeed_2xx routes_model = true.
Proof. vm_compute. reflexivity. Qed.

(* ------------------------------------------------------------------------------------------ *)
(** * 7. Handler-side panic sites *)
Lemma sites_ok_sound : forall ss, sites_ok ss = true -> forall f fn k e, In (f, fn, k, e) ss ->
  exists c, In (f, fn, k, e, c) site_allow_list.
Proof.
  intros ss H f fn k e Hin. unfold sites_ok in H. rewrite forallb_forall in H. specialize (H _ Hin).
  cbn [site_allowed] in H. apply existsb_exists in H as [[[[[f' fn'] k'] e'] c] [Hin' Heq]].
  apply andb_true_iff in Heq as [Heq He]. apply andb_true_iff in Heq as [Heq Hk]. apply andb_true_iff in Heq as [Hf Hfn].
  apply String.eqb_eq in Hf, Hfn, Hk, He. subst. exists c. exact Hin'.
Qed.

(* ------------------------------------------------------------------------------------------ *)
(** * 8. Decoded size *)
Lemma gzip_amplification_witness :
  let body := 102400%Z in let decoded := 104857600%Z in      (* 100 KiB on the wire, 100 MiB decoded *)
  (0 <= decoded <= gzip_max_ratio * body)%Z /\ (alloc_bound_bytes body < bytes_read "gzip" body decoded)%Z.
Proof. vm_compute. split; [split; discriminate|reflexivity]. Qed.

Lemma identity_encoding_reads_the_body : forall body decoded, (0 <= body)%Z -> (bytes_read "" body decoded <= alloc_bound_bytes body)%Z.
Proof.
  intros body decoded H. unfold bytes_read, alloc_bound_bytes, alloc_bound_kb. cbn [String.eqb].
  pose proof (Z.mul_div_le body 1024 ltac:(lia)). pose proof (Z.mod_pos_bound body 1024 ltac:(lia)).
  pose proof (Z.div_mod body 1024 ltac:(lia)). lia.
Qed.

(* ------------------------------------------------------------------------------------------ *)
(** * 9. What the model expects of a pipefuzz case satisfies the property *)
Lemma rect_all_equal : forall m, rectangular m = true -> all_equal (map snd m) = true.
Proof.
  intros [|kv m] H; [reflexivity|]. cbn [rectangular rect forallb] in H. cbn [map all_equal].
  apply andb_true_iff in H as [_ H]. induction m as [|x m IH]; [reflexivity|].
  cbn [forallb map] in *. apply andb_true_iff in H as [H1 H2]. rewrite (IH H2), andb_true_r.
  apply N.eqb_eq in H1. rewrite H1. apply N.eqb_refl.
Qed.

Lemma all_equal_repeat : forall x n, all_equal (repeat x n) = true.
Proof.
  intros x [|n]; [reflexivity|]. cbn [repeat all_equal]. induction n as [|n IH]; [reflexivity|].
  cbn [repeat forallb]. now rewrite N.eqb_refl, IH.
Qed.

Lemma expected_batches_rect : forall h sf af cs ca, handler_ok h sf af cs ca = true -> forall c,
  forallb (fun ob => all_equal (snd ob) && (fst ob <? 3)%Z) (snd (pipe_expected h sf af c)) = true.
Proof.
  intros h sf af cs ca Hok c. unfold pipe_expected. destruct (pc_spans c) as [spans|]; cbn [snd].
  - pose proof (sent_batches_rect h sf af cs ca Hok (map CvSpan spans ++ pend_event (pc_end c)) (batch0 sf af) (batch0_inv sf af)) as H.
    rewrite forallb_app. rewrite Forall_forall in H. apply andb_true_iff. split; apply forallb_forall; intros ob Hin;
      apply in_map_iff in Hin as [b [<- Hb]]; specialize (H b Hb); unfold batch_rect in H; apply andb_true_iff in H as [H1 H2];
      cbn [fst snd]; rewrite andb_true_r; apply rect_all_equal; assumption.
  - apply forallb_forall. intros ob Hin. apply in_map_iff in Hin as [rows [<- _]]. cbn [fst snd].
    now rewrite all_equal_repeat.
Qed.

(* ------------------------------------------------------------------------------------------ *)
(** * 10. onEntries at column level *)

Lemma count_str_cons : forall x f fs, count_str x (f :: fs) = ((if String.eqb x f then 1 else 0) + count_str x fs)%nat.
Proof. intros x f fs. unfold count_str. cbn [filter]. destruct (String.eqb x f); reflexivity. Qed.

Lemma fold_bump_by_fields : forall fs k m,
  fold_left (fun m f => bump_by f k m) fs m
  = map (fun kv => (fst kv, (snd kv + N.of_nat (k * count_str (fst kv) fs))%N)) m.
Proof.
  induction fs as [|f fs IH]; intros k m; cbn [fold_left].
  - rewrite <- (map_id m) at 1. apply map_ext. intros [x v]. cbn [fst snd]. unfold count_str. cbn. rewrite Nat.mul_0_r. cbn. now rewrite N.add_0_r.
  - rewrite IH. unfold bump_by. rewrite map_map. apply map_ext. intros [x v]. cbn [fst snd].
    rewrite count_str_cons. destruct (String.eqb x f); cbn [fst snd]; f_equal;
      rewrite ?Nat.mul_add_distr_l, ?Nat.mul_1_r, ?Nat.mul_0_r, ?Nat2N.inj_add; cbn [Nat.add]; lia.
Qed.

Lemma src_len_consistent : forall e s, ent_consistent e = true -> src_len e s = en_ts e.
Proof.
  intros e s H. unfold ent_consistent in H. apply andb_true_iff in H as [H H3]. apply andb_true_iff in H as [H1 H2].
  apply Nat.eqb_eq in H1, H2, H3. destruct s; cbn [src_len]; congruence.
Qed.

Lemma fold_spl_consistent : forall e ops m, ent_consistent e = true ->
  fold_left (fun m o => bump_by (lop_field o) (src_len e (lop_src o)) m) ops m
  = fold_left (fun m f => bump_by f (en_ts e) m) (map lop_field ops) m.
Proof.
  intros e ops. induction ops as [|o ops IH]; intros m H; cbn [fold_left map]; [reflexivity|].
  rewrite (src_len_consistent e _ H). apply IH. exact H.
Qed.

Lemma bump_fields_const : forall fs fields k n,
  forallb (fun f => Nat.eqb (count_str f fs) 1) fields = true ->
  fold_left (fun m f => bump_by f k m) fs (const_cols fields n) = const_cols fields (n + N.of_nat k).
Proof.
  intros fs fields k n H. rewrite fold_bump_by_fields. unfold const_cols. rewrite map_map. apply map_ext_in.
  intros f Hin. cbn [fst snd]. rewrite forallb_forall in H. specialize (H f Hin). apply Nat.eqb_eq in H.
  now rewrite H, Nat.mul_1_r.
Qed.

Section ENTRIES.
  Variables (p : entries_prog) (sf tf cs ct : list string).
  Hypothesis Hok : entries_ok p sf tf cs ct = true.

  Let ok_parts : ep_flush_resets p = true
    /\ forallb (fun f => Nat.eqb (count_str f (map lop_field (ep_spl p))) 1) sf = true
    /\ forallb (fun f => Nat.eqb (count_str f (ep_ts p)) 1) tf = true.
  Proof. unfold entries_ok in Hok. repeat (apply andb_true_iff in Hok as [Hok ?]). tauto. Qed.

  Definition lbatch_inv (b : lbatch) : Prop := exists n k, lb_spl b = const_cols sf n /\ lb_ts b = const_cols tf k.

  Lemma lbatch_inv_rect : forall b, lbatch_inv b -> lbatch_rect b = true.
  Proof. intros b [n [k [Hs Ht]]]. unfold lbatch_rect. now rewrite Hs, Ht, !rectangular_const. Qed.

  Lemma lbatch0_inv : lbatch_inv (lbatch0 sf tf).
  Proof. exists 0%N, 0%N. split; reflexivity. Qed.

  Lemma on_entries_cols_inv : forall b e b' sent, lbatch_inv b -> ent_consistent e = true ->
    on_entries_cols p sf tf b e = LOk b' sent -> lbatch_inv b' /\ Forall (fun x => lbatch_rect x = true) sent.
  Proof.
    destruct ok_parts as [Hf [Hs Ht]].
    intros b e b' sent [n [k [Hb1 Hb2]]] Hc H. unfold on_entries_cols in H. cbv zeta in H.
    destruct (en_lbl_short e); [discriminate|].
    destruct (en_bad_type e || Nat.ltb (en_msg e) (en_ts e)); [discriminate|].
    rewrite (fold_spl_consistent e _ _ Hc), Hb1, Hb2, (bump_fields_const _ _ _ _ Hs), (bump_fields_const _ _ _ _ Ht) in H.
    match type of H with context [(MiB <? lb_size ?x)%N] => set (b3 := x) in H end.
    assert (Hb3 : lbatch_inv b3) by (eexists; eexists; split; reflexivity).
    destruct (MiB <? lb_size b3)%N; inversion H; subst; clear H.
    - rewrite Hf. split; [exact lbatch0_inv|]. constructor; [apply lbatch_inv_rect; exact Hb3|constructor].
    - split; [exact Hb3|constructor].
  Qed.

  Lemma sent_lbatches_rect : forall evs b, lbatch_inv b -> events_consistent evs = true ->
    Forall (fun x => lbatch_rect x = true) (sent_lbatches p sf tf b evs).
  Proof.
    induction evs as [|ev evs IH]; intros b Hb Hc; cbn [sent_lbatches].
    - constructor; [apply lbatch_inv_rect; exact Hb|constructor].
    - cbn [events_consistent forallb] in Hc. apply andb_true_iff in Hc as [Hc1 Hc2].
      destruct ev as [e| |t]; [|constructor|constructor].
      destruct (on_entries_cols p sf tf b e) as [b' sent|] eqn:E; [|constructor].
      destruct (on_entries_cols_inv _ _ _ _ Hb Hc1 E) as [Hb' Hsent].
      apply Forall_app. split; [exact Hsent|apply IH; [exact Hb'|exact Hc2]].
  Qed.

  (* fourth session: the same with the invariant itself (every column of a sent request has ONE length and the request has
     exactly the fields sf / tf), which is what the shared batch of the insert service needs *)
  Lemma on_entries_cols_inv_sent : forall b e b' sent, lbatch_inv b -> ent_consistent e = true ->
    on_entries_cols p sf tf b e = LOk b' sent -> lbatch_inv b' /\ Forall lbatch_inv sent.
  Proof.
    destruct ok_parts as [Hf [Hs Ht]].
    intros b e b' sent [n [k [Hb1 Hb2]]] Hc H. unfold on_entries_cols in H. cbv zeta in H.
    destruct (en_lbl_short e); [discriminate|].
    destruct (en_bad_type e || Nat.ltb (en_msg e) (en_ts e)); [discriminate|].
    rewrite (fold_spl_consistent e _ _ Hc), Hb1, Hb2, (bump_fields_const _ _ _ _ Hs), (bump_fields_const _ _ _ _ Ht) in H.
    match type of H with context [(MiB <? lb_size ?x)%N] => set (b3 := x) in H end.
    assert (Hb3 : lbatch_inv b3) by (eexists; eexists; split; reflexivity).
    destruct (MiB <? lb_size b3)%N; inversion H; subst; clear H.
    - rewrite Hf. split; [exact lbatch0_inv|]. constructor; [exact Hb3|constructor].
    - split; [exact Hb3|constructor].
  Qed.

  Lemma sent_lbatches_inv : forall evs b, lbatch_inv b -> events_consistent evs = true ->
    Forall lbatch_inv (sent_lbatches p sf tf b evs).
  Proof.
    induction evs as [|ev evs IH]; intros b Hb Hc; cbn [sent_lbatches].
    - constructor; [exact Hb|constructor].
    - cbn [events_consistent forallb] in Hc. apply andb_true_iff in Hc as [Hc1 Hc2].
      destruct ev as [e| |t]; [|constructor|constructor].
      destruct (on_entries_cols p sf tf b e) as [b' sent|] eqn:E; [|constructor].
      destruct (on_entries_cols_inv_sent _ _ _ _ Hb Hc1 E) as [Hb' Hsent].
      apply Forall_app. split; [exact Hsent|apply IH; [exact Hb'|exact Hc2]].
  Qed.
End ENTRIES.

Lemma on_entries_cols_model_ok :
  entries_ok on_entries_cols_model spl_fields_model tsd_fields_model spl_fields_model tsd_fields_model = true.
Proof. vm_compute. reflexivity. Qed.

(* without the decoders' side of the contract the claim is false: one message more than timestamps passes the
   index checks and tears the samples request *)
Definition unequal_event : ent_ev :=
  {| en_lbl_short := false; en_ts := 1; en_msg := 2; en_val := 1; en_types := 1; en_bad_type := false; en_series := 1; en_bytes := 50 |}.
Lemma unequal_lengths_tear_the_batch :
  forallb lbatch_rect (sent_lbatches on_entries_cols_model spl_fields_model tsd_fields_model
                         (lbatch0 spl_fields_model tsd_fields_model) [LcEntries unequal_event]) = false.
Proof. vm_compute. reflexivity. Qed.
(* fewer messages than timestamps: message[i] panics after the appends; nothing of it is sent *)
Lemma short_messages_panic_sends_nothing :
  sent_lbatches on_entries_cols_model spl_fields_model tsd_fields_model (lbatch0 spl_fields_model tsd_fields_model)
    [LcEntries {| en_lbl_short := false; en_ts := 2; en_msg := 1; en_val := 2; en_types := 2; en_bad_type := false; en_series := 1; en_bytes := 50 |}] = [].
Proof. vm_compute. reflexivity. Qed.

(* ------------------------------------------------------------------------------------------ *)
(** * 11. The column-level span model refines the id-level model (same status for every event stream) *)

Lemma exec_cops_none_iff : forall os b i nv,
  exec_cops b os i nv = None <-> (has_idx os = true /\ (nv <= i)%nat).
Proof.
  induction os as [|o os IH]; intros b i nv; cbn [exec_cops has_idx existsb].
  - split; [discriminate|intros [H _]; discriminate].
  - unfold exec_cop. unfold cop_panics. fold (cop_idx o).
    assert (Hp : (match o with CApp _ _ idx | CSize _ idx => idx && negb (i <? nv)%nat end) = cop_idx o && negb (i <? nv)%nat)
      by (destruct o; reflexivity).
    rewrite Hp. destruct (cop_idx o) eqn:Ho; cbn [andb orb].
    + destruct (Nat.ltb_spec i nv) as [Hlt|Hge]; cbn [negb].
      * destruct o as [t f idx|t idx]; [destruct t|]; rewrite IH; unfold has_idx; split; intros [H1 H2]; split; try assumption; lia.
      * split; [intros _; split; [reflexivity|exact Hge]|reflexivity].
    + destruct o as [t f idx|t idx]; [destruct t|]; rewrite IH; unfold has_idx; reflexivity.
Qed.

Lemma exec_loop_none_iff : forall os todo b i nv,
  exec_loop b os i todo nv = None <-> (has_idx os = true /\ (0 < todo)%nat /\ (nv < i + todo)%nat).
Proof.
  intros os. induction todo as [|t IH]; intros b i nv; cbn [exec_loop].
  - split; [discriminate|intros [_ [H _]]; lia].
  - destruct (exec_cops b os i nv) as [b1|] eqn:E.
    + rewrite IH. assert (Hn : ~ (has_idx os = true /\ (nv <= i)%nat)) by (rewrite <- exec_cops_none_iff, E; discriminate).
      split.
      * intros [H1 [H2 H3]]. split; [exact H1|split; lia].
      * intros [H1 [_ H3]]. split; [exact H1|]. destruct t as [|t']; [exfalso; apply Hn; split; [exact H1|lia]|split; lia].
    + apply exec_cops_none_iff in E as [H1 H2]. split; [intros _; split; [exact H1|split; lia]|reflexivity].
Qed.

Lemma status_e_panic : status_cls (status_of_error e_panic) = C5xx. Proof. reflexivity. Qed.

Section REFINE.
  Variables (h : handler_prog) (sf af : list string).
  Hypothesis Hshape : handler_shape_ok h = true.

  Let shape : hp_width_check h = true /\ hp_flush_resets h = true /\ has_idx (hp_once h) = false /\ has_idx (hp_loop h) = true.
  Proof.
    unfold handler_shape_ok in Hshape. repeat (apply andb_true_iff in Hshape as [Hshape ?]).
    repeat split; try assumption. now apply negb_true_iff.
  Qed.

  Definition sim (st : span_st) (b : batch) : Prop := ss_size st = b_size b /\ span_st_ok st.

  Lemma col_refines_id : forall evs st b w, world_ok w = true -> sim st b ->
    col_status h sf af b evs = cls_of_parse (fst (do_parse ctx_traces w false (parse_spans st (map abs_event evs)))).
  Proof.
    destruct shape as [Hw [Hf [Ho Hl]]].
    unfold parse_spans.
    induction evs as [|ev evs IH]; intros st b w Hwo [Hsz Hst]; cbn [map col_status parse_spans_with].
    - destruct Hst as [Hs Ha]. rewrite do_parse_cons_ok'; [|reflexivity|apply push_spans_ok; assumption]. reflexivity.
    - destruct ev as [s| |t]; cbn [abs_event].
      + unfold on_span_cols. rewrite Hw. cbn [andb].
        destruct (negb ((se_tid s =? 16) && (se_sid s =? 8))%N) eqn:Hwd.
        * (* wrong width: the handler's own error *)
          cbn [parse_spans_with]. unfold on_span. cbn [abs_span si_tid si_sid]. rewrite Hwd. reflexivity.
        * destruct (exec_cops b (hp_once h) 0 (se_vals s)) as [b1|] eqn:E1;
            [|apply exec_cops_none_iff in E1 as [E1 _]; rewrite Ho in E1; discriminate].
          destruct (Nat.ltb_spec (se_vals s) (se_keys s)) as [Hlt|Hge].
          -- (* fewer values than keys: val[i] panics *)
             assert (E2 : exec_loop b1 (hp_loop h) 0 (se_keys s) (se_vals s) = None)
               by (apply exec_loop_none_iff; split; [exact Hl|split; lia]).
             rewrite E2. cbn [parse_spans_with]. reflexivity.
          -- destruct (exec_loop b1 (hp_loop h) 0 (se_keys s) (se_vals s)) as [b2|] eqn:E2;
               [|apply exec_loop_none_iff in E2 as [_ [_ E2]]; lia].
             cbn [parse_spans_with].
             assert (Hgood : span_good (abs_span s)) by (unfold span_good; cbn [abs_span si_tid si_sid]; now apply negb_false_iff in Hwd).
             destruct (on_span_good st (abs_span s) Hgood) as [st' [out Hon]]. rewrite Hon.
             destruct (on_span_inv _ _ _ _ Hst Hon) as [Hst' Hout].
             (* sizes: the once / loop statements do not touch Size in the model; b_size b2 = b_size b *)
             assert (Hb2 : b_size b2 = b_size b).
             { clear - E1 E2. destruct (exec_cops_counts _ _ _ _ _ E1) as [_ [_ Z1]].
               assert (G : forall todo b i nv b', exec_loop b (hp_loop h) i todo nv = Some b' -> b_size b' = b_size b).
               { induction todo as [|t IHt]; intros b0 i nv b' H; cbn [exec_loop] in H; [now inversion H|].
                 destruct (exec_cops b0 (hp_loop h) i nv) as [bx|] eqn:E; [|discriminate].
                 destruct (exec_cops_counts _ _ _ _ _ E) as [_ [_ Z]]. rewrite (IHt _ _ _ _ H). exact Z. }
               rewrite (G _ _ _ _ _ E2). exact Z1. }
             cbn [b_size]. rewrite Hb2.
             destruct (on_span_size _ _ _ _ Hon) as [[-> Hs']|[p0 [-> [-> Hlt']]]]; cbn [abs_span si_bytes si_abytes] in *.
             ++ (* no flush *)
                assert (Hnf : (MiB <? b_size b + se_bytes s)%N = false).
                { unfold on_span in Hon. cbn [abs_span si_tid si_sid si_bytes si_abytes ss_size] in Hon.
                  apply negb_false_iff in Hwd. rewrite Hwd in Hon. cbn [negb] in Hon. rewrite Hsz, N.add_0_r in Hon.
                  destruct (MiB <? b_size b + se_bytes s)%N; [inversion Hon|reflexivity]. }
                rewrite Hnf. cbn [app]. apply IH; [exact Hwo|]. split; [|exact Hst']. cbn [b_size]. rewrite Hs', Hsz. lia.
             ++ (* flush: the batch is pushed, both sides start again from the empty batch *)
                assert (Hfl : (MiB <? b_size b + se_bytes s)%N = true) by (apply N.ltb_lt; rewrite <- Hsz; lia).
                rewrite Hfl, Hf. destruct Hout as [Hout|[sp [at_ [Hout [Hs Ha]]]]]; [discriminate|].
                inversion Hout; subst. cbn [app]. rewrite do_parse_cons_ok'; [|reflexivity|apply push_spans_ok; assumption].
                apply IH; [exact Hwo|]. split; [reflexivity|exact span_st0_ok].
      + reflexivity.
      + destruct t; reflexivity.
  Qed.
End REFINE.

Lemma on_span_cols_model_shape : handler_shape_ok on_span_cols_model = true.
Proof. reflexivity. Qed.

Lemma spans_serve_eq : forall evs st w,
  serve tame_model spans_prog consumer_model ctx_traces w (spans_dres st evs)
  = (end_of_parse (fst (do_parse ctx_traces w false (parse_spans st evs))), snd (do_parse ctx_traces w false (parse_spans st evs))).
Proof.
  intros evs st w. rewrite (serve_protocol _ _ _ _ _ (run_spans_prog _)).
  pose proof (spans_prog_sends st evs) as H. rewrite run_spans_prog in H. cbn [fst] in H.
  rewrite sends_of_protocol in H. now rewrite H.
Qed.

(* end to end, for a handler of the right shape that passes the column check: program + channel + consumer over the
   abstracted stream end with everybody finished, the answer has the class computed at column level, the services
   keep their columns, and every batch pushed on the way is rectangular *)
Lemma span_requests_end_to_end_gen : forall h sf af cs ca,
  handler_shape_ok h = true -> handler_ok h sf af cs ca = true -> forall evs,
  exists r w', serve tame_model spans_prog consumer_model ctx_traces world0 (spans_dres span_st0 (map abs_event evs)) = (SAllDone r, w')
    /\ cls_of_parse r = col_status h sf af (batch0 sf af) evs /\ world_ok w' = true
    /\ Forall (fun b => batch_rect b = true) (sent_batches h sf af (batch0 sf af) evs).
Proof.
  intros h sf af cs ca Hsh Hok evs.
  pose proof (spans_no_crash (map abs_event evs) span_st0 world0 false eq_refl span_st0_ok) as [Hnc Hw].
  exists (fst (do_parse ctx_traces world0 false (parse_spans span_st0 (map abs_event evs)))),
         (snd (do_parse ctx_traces world0 false (parse_spans span_st0 (map abs_event evs)))).
  split; [|split; [|split]].
  - rewrite spans_serve_eq. f_equal. unfold end_of_parse.
    destruct (fst (do_parse ctx_traces world0 false (parse_spans span_st0 (map abs_event evs)))); try reflexivity. contradiction.
  - symmetry. apply (col_refines_id h sf af Hsh evs span_st0 (batch0 sf af) world0 eq_refl). split; [reflexivity|exact span_st0_ok].
  - exact Hw.
  - apply (sent_batches_rect h sf af cs ca Hok). apply batch0_inv.
Qed.

(* ------------------------------------------------------------------------------------------ *)
(** * 12. The column-level log model refines the row-level model; end to end for the log routes *)

Section LREFINE.
  Variables (p : entries_prog) (sf tf : list string).
  Hypothesis Hfl : ep_flush_resets p = true.

  Definition lsim (st : logs_st) (b : lbatch) : Prop := ls_size st = lb_size b /\ ts_ok (ls_ts st).

  Lemma lcol_refines_id : forall evs st b w, world_ok w = true -> lsim st b ->
    lcol_status p sf tf b evs = cls_of_parse (fst (do_parse ctx_logs w false (parse_logs st (map abs_lev evs)))).
  Proof.
    induction evs as [|ev evs IH]; intros st b w Hw [Hsz Hts]; cbn [map lcol_status parse_logs].
    - rewrite do_parse_cons_ok; [|reflexivity|apply push_logs_ok; assumption]. reflexivity.
    - destruct ev as [e| |t]; cbn [abs_lev].
      + unfold on_entries_cols. destruct (en_lbl_short e); cbn [orb]; [reflexivity|].
        destruct (en_bad_type e || Nat.ltb (en_msg e) (en_ts e)); [reflexivity|].
        cbn [parse_logs]. cbv zeta.
        destruct (on_entries st {| ei_rows := N.of_nat (en_ts e); ei_series := N.of_nat (en_series e); ei_bytes := en_bytes e |}) as [st' out] eqn:Hon.
        destruct (on_entries_inv _ _ _ _ Hts Hon) as [Hts' Hout].
        unfold on_entries in Hon. cbn [ei_bytes ei_series ei_rows ls_size] in Hon. cbn [lb_size]. rewrite <- Hsz.
        destruct (MiB <? ls_size st + en_bytes e)%N; inversion Hon; subst; clear Hon.
        * rewrite Hfl. cbn [app]. rewrite do_parse_cons_ok; [|reflexivity|apply push_logs_ok; [exact Hw|apply ts_add_ok; exact Hts]].
          apply IH; [exact Hw|]. split; reflexivity.
        * cbn [app]. apply IH; [exact Hw|]. split; [reflexivity|exact Hts'].
      + reflexivity.
      + destruct t; reflexivity.
  Qed.
End LREFINE.

Lemma logs_serve_eq : forall evs st w,
  serve tame_model logs_prog consumer_model ctx_logs w (logs_dres st evs)
  = (end_of_parse (fst (do_parse ctx_logs w false (parse_logs st evs))), snd (do_parse ctx_logs w false (parse_logs st evs))).
Proof.
  intros evs st w. rewrite (serve_protocol _ _ _ _ _ (run_logs_prog _)).
  pose proof (logs_prog_sends st evs) as H. rewrite run_logs_prog in H. cbn [fst] in H.
  rewrite sends_of_protocol in H. now rewrite H.
Qed.

Lemma entries_ok_flush : forall p sf tf cs ct, entries_ok p sf tf cs ct = true -> ep_flush_resets p = true.
Proof. intros p sf tf cs ct H. unfold entries_ok in H. repeat (apply andb_true_iff in H as [H ?]). exact H. Qed.

Lemma log_requests_end_to_end_gen : forall p sf tf cs ct, entries_ok p sf tf cs ct = true -> forall evs,
  exists r w', serve tame_model logs_prog consumer_model ctx_logs world0 (logs_dres logs_st0 (map abs_lev evs)) = (SAllDone r, w')
    /\ cls_of_parse r = lcol_status p sf tf (lbatch0 sf tf) evs /\ world_ok w' = true
    /\ (events_consistent evs = true ->
        Forall (fun b => lbatch_rect b = true) (sent_lbatches p sf tf (lbatch0 sf tf) evs)).
Proof.
  intros p sf tf cs ct Hok evs.
  pose proof (logs_no_crash (map abs_lev evs) logs_st0 world0 false eq_refl eq_refl) as [Hnc Hw].
  exists (fst (do_parse ctx_logs world0 false (parse_logs logs_st0 (map abs_lev evs)))),
         (snd (do_parse ctx_logs world0 false (parse_logs logs_st0 (map abs_lev evs)))).
  split; [|split; [|split]].
  - rewrite logs_serve_eq. f_equal. unfold end_of_parse.
    destruct (fst (do_parse ctx_logs world0 false (parse_logs logs_st0 (map abs_lev evs)))); try reflexivity. contradiction.
  - symmetry. apply (lcol_refines_id p sf tf (entries_ok_flush _ _ _ _ _ Hok) evs logs_st0 (lbatch0 sf tf) world0 eq_refl).
    split; reflexivity.
  - exact Hw.
  - intros Hc. apply (sent_lbatches_rect p sf tf cs ct Hok); [apply lbatch0_inv|exact Hc].
Qed.

(* flushes of the log handler are bounded by the bytes accounted, like those of the span handler *)
Lemma decode_logs_flush_bytes : forall evs st,
  let '(f, _, s) := decode_logs st evs in
  (N.of_nat (List.length f) * MiB + ls_size s <= ls_size st + logs_bytes evs)%N.
Proof.
  induction evs as [|ev evs IH]; intros st; cbn [decode_logs logs_bytes]; [cbn; lia|].
  destruct ev as [r| |x]; try (cbn [List.length]; lia).
  unfold on_entries. cbn [ls_size].
  destruct (N.ltb_spec MiB (ls_size st + ei_bytes r)) as [Hlt|Hge].
  - specialize (IH logs_st0). destruct (decode_logs logs_st0 evs) as [[f e] s].
    cbn [app List.length]. change (ls_size logs_st0) with 0%N in IH. rewrite Nat2N.inj_succ, N.mul_succ_l. lia.
  - match goal with |- context [decode_logs ?st1 evs] => specialize (IH st1); destruct (decode_logs st1 evs) as [[f e] s] end.
    cbn [app ls_size] in *. lia.
Qed.

(* ------------------------------------------------------------------------------------------ *)
(** * 13. The dispatch written by hand in IngestRobust.v is the one of the route table *)

Definition route_of (h : string) : route :=
  match find_route routes_model h with Some r => r | None => {| rt_handler := ""; rt_pre := []; rt_parsers := []; rt_nested_pre := []; rt_status := 0 |} end.

Lemma ingest_select_is_table : forall ct,
  route_dispatch (route_of "PushProfileV2") ct
  = match ingest_select ct with
    | Some IPMultipart => Some "UnmarshalProfileProtoV2"%string
    | Some IPBinary => Some "UnmarshalBinaryStreamProfileProtoV2"%string
    | None => None
    end.
Proof.
  intros ct. unfold route_dispatch, dispatch_in_order, ingest_select. vm_compute (route_of "PushProfileV2"). cbn [rt_parsers find fst snd].
  destruct (prefix "multipart/form-data" ct); [reflexivity|].
  destruct (prefix "binary/octet-stream" ct); reflexivity.
Qed.

Lemma zipkin_nd_is_table : forall ct,
  route_dispatch (route_of "PushV2") ct
  = Some (if prefix "ndjson" ct then "UnmarshalZipkinNDJSONV2" else "UnmarshalZipkinJSONV2")%string.
Proof.
  intros ct. unfold route_dispatch, dispatch_in_order. vm_compute (route_of "PushV2"). cbn [rt_parsers find fst snd].
  destruct (prefix "ndjson" ct); [reflexivity|].
  (* the key "*" is a prefix only of content types that start with an asterisk: same parser either way *)
  destruct (prefix "*" ct); reflexivity.
Qed.

Lemma loki_push_is_table : forall ct,
  route_dispatch (route_of "PushStreamV2") ct
  = Some (if prefix "application/x-protobuf" ct then "UnmarshalProtoV2" else "DecodePushRequestStringV2")%string.
Proof.
  intros ct. unfold route_dispatch, dispatch_in_order. vm_compute (route_of "PushStreamV2"). cbn [rt_parsers find fst snd].
  destruct (prefix "*" ct) eqn:Hs.
  - (* a content type starting with an asterisk cannot start with application/... *)
    destruct ct as [|a ct']; [discriminate|]. cbn [prefix] in Hs |- *.
    destruct (ascii_dec "*" a) as [<-|]; [|discriminate]. reflexivity.
  - destruct (prefix "application/x-protobuf" ct); reflexivity.
Qed.

Lemma content_encoding_is_source_switch : forall accepted ce gz,
  accepted = [""; "gzip"; "snappy"]%string ->
  (existsb (String.eqb ce) accepted = false <-> content_encoding ce gz = CeStatus C4xx).
Proof.
  intros accepted ce gz ->. unfold content_encoding. cbn [existsb].
  destruct (String.eqb ce ""); cbn [orb]; [split; discriminate|].
  destruct (String.eqb ce "gzip"); cbn [orb]; [destruct gz; split; discriminate|].
  destruct (String.eqb ce "snappy"); cbn [orb]; [split; discriminate|]. split; reflexivity.
Qed.
