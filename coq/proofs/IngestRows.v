(* C01 over ROWS, for arbitrary requests.  The rows of a request, for the service it is pushed to, are what
   ProcessRequest reports as `inserted`: the entries it appended to the key column.  A request with an empty key column
   has no rows; Request acknowledges it at once (p.Done(0, nil)) and no INSERT is needed for it.  The lenient
   acknowledgement monitor amon_step false (accepted on EVERY trace: ack_sound_partial) says exactly: success only when
   the request has no row, or every cell of every column it appended is in ONE block whose Do returned without error. *)
From Coq Require Import List NArith ZArith Bool Lia Arith.
From Qryn Require Import model.Ingest model.PushHandler model.IngestSpec proofs.IngestBase.
Import ListNotations.

Definition nrows (k : kind) (r' : req) : nat := length (nth (keycol k) r' []).

Lemma lenient_covered_rows acked k r :
  covered false acked k r = true ->
  exists r', eff k r = Some r' /\
    (nrows k r' = 0%nat \/ exists b, In b acked /\ cells_subb r' b = true).
Proof.
  rewrite covered_unfold. destruct (eff k r) as [r'|]; [|discriminate]. intros H. exists r'. split; [reflexivity|].
  apply orb_true_iff in H as [H|H].
  - left. unfold trivial, key_empty in H. unfold nrows. destruct (nth (keycol k) r' []); [reflexivity|discriminate].
  - right. apply existsb_exists in H. exact H.
Qed.

(* what the monitor demands of the two success events *)
Theorem lenient_means_rows m e m' :
  amon_step false m e = Some m' ->
  match e with
  | EResolve _ k r true =>
      exists r', eff k r = Some r' /\ (nrows k r' = 0%nat \/ exists b, In b (a_acked m) /\ cells_subb r' b = true)
  | EAnswer _ reqs true =>
      forall k r, In (k, r) reqs ->
        exists r', eff k r = Some r' /\ (nrows k r' = 0%nat \/ exists b, In b (a_acked m) /\ cells_subb r' b = true)
  | _ => True
  end.
Proof.
  destruct e as [| | | | |p k r [|]|h reqs [|]]; cbn; auto.
  - destruct (covered false (a_acked m) k r) eqn:C; [|discriminate]. intros _. now apply lenient_covered_rows.
  - destruct (forallb _ reqs) eqn:F; [|discriminate]. intros _ k r Hin. rewrite forallb_forall in F.
    apply lenient_covered_rows. exact (F (k, r) Hin).
Qed.

(* a request that has a row is never acknowledged by Request itself: with rows, success needs a block *)
Lemma rows_need_a_block acked k r r' :
  eff k r = Some r' -> nrows k r' <> 0%nat -> covered false acked k r = true -> exists b, In b acked /\ cells_subb r' b = true.
Proof.
  intros E N C. destruct (lenient_covered_rows _ _ _ C) as (r1 & E1 & [Z|B]); rewrite E in E1; inversion E1; subst; [contradiction|assumption].
Qed.
